(* C10 -- the link between the heap's life-cycle states and the pool's bookkeeping, as an invariant
   of the transition system: a node is in a free list exactly when its object is in the pooled
   (default) state, the objects of a slab waiting for deletion are all pooled, slabs (listed or
   waiting for deletion) are pairwise disjoint. *)
From Coq Require Import List Arith Bool Lia Permutation.
From Muscle Require Import Conc.Pool Conc.PoolProofs Conc.RefCnt Conc.RefInv Conc.RefExcl Conc.RefStep Conc.RefActs Conc.RefActs3 Conc.RefActs4 Conc.RefProofs Conc.RefFork.
Import ListNotations.
Local Open Scope nat_scope.

Section PoolLink.
Variables N K : nat.

Fixpoint slabs_of (todo : list act) : list slab :=
  match todo with
  | [] => []
  | ASlabDel sd :: r => sd :: slabs_of r
  | _ :: r => slabs_of r
  end.

Definition pend (s : state) : list slab := concat (map (fun t => slabs_of (t_todo t)) (s_thr s)).

Definition owned_by (l : list slab) (x : nat) : Prop := exists sd, In sd l /\ owns N sd x = true.

Definition pend_ok (hlen : nat) (l : list slab) : Prop :=
  Forall (fun sd => sl_base sd + N <= hlen) l /\ NoDup (map sl_base l) /\
  (forall sd sd' x, In sd l -> In sd' l -> owns N sd x = true -> owns N sd' x = true -> sl_base sd = sl_base sd').

Record plink (s : state) : Prop := mkPlink {
  pl_wf : pool_wf N (length (s_heap s)) (s_pool s);
  pl_pendok : pend_ok (length (s_heap s)) (pend s);
  pl_cross : forall x, owned_by (pend s) x -> ~ owned_by (p_slabs (s_pool s)) x;
  pl_free : forall x, pfree N (p_slabs (s_pool s)) x -> o_st (hobj s x) = Pooled /\ o_val (hobj s x) = 0;
  pl_used : forall x, pused N (p_slabs (s_pool s)) x -> o_st (hobj s x) = Live \/ o_st (hobj s x) = Releasing;
  pl_pend : forall x, owned_by (pend s) x -> o_st (hobj s x) = Pooled;
  pl_cover : forall x, x < length (s_heap s) -> o_pooled (hobj s x) = true -> o_st (hobj s x) <> Dead ->
             owned_by (pend s ++ p_slabs (s_pool s)) x;
  pl_flag : forall x, owned_by (pend s ++ p_slabs (s_pool s)) x -> o_pooled (hobj s x) = true
}.

Lemma owned_perm : forall l l' x, Permutation l l' -> owned_by l x -> owned_by l' x.
Proof. intros l l' x HP (sd & Hin & Ho). exists sd. split; auto. eapply Permutation_in; eauto. Qed.

Lemma owned_app : forall a b x, owned_by (a ++ b) x <-> owned_by a x \/ owned_by b x.
Proof.
  intros a b x. split.
  - intros (sd & Hin & Ho). apply in_app_or in Hin. destruct Hin; [left|right]; exists sd; auto.
  - intros [(sd & Hin & Ho)|(sd & Hin & Ho)]; exists sd; split; auto; apply in_or_app; auto.
Qed.

Lemma pfree_owned : forall l x, pfree N l x -> owned_by l x.
Proof. intros l x (sd & Hin & Ho & _). exists sd; auto. Qed.
Lemma pused_owned : forall l x, pused N l x -> owned_by l x.
Proof. intros l x (sd & Hin & Ho & _). exists sd; auto. Qed.

Lemma owned_free_or_used : forall l x, owned_by l x -> pfree N l x \/ pused N l x.
Proof.
  intros l x (sd & Hin & Ho).
  destruct (in_dec Nat.eq_dec (x - sl_base sd) (free_nodes N sd)); [left|right]; exists sd; auto.
Qed.

Lemma cwf_weaken : forall hlen hlen' nid l, hlen <= hlen' -> cwf N hlen nid l -> cwf N hlen' nid l.
Proof.
  intros hlen hlen' nid l Hle (H1 & H2 & H3 & H4 & H5). repeat split; auto.
  rewrite Forall_forall in *. intros sd Hs. specialize (H4 sd Hs). lia.
Qed.

Lemma cwf_owned_lt : forall hlen nid l x, cwf N hlen nid l -> owned_by l x -> x < hlen.
Proof. intros hlen nid l x Hc (sd & Hin & Ho). eapply owned_lt_hlen; eauto. Qed.

(* ------------------------------------------------------------------ pending slabs under a thread update *)

Lemma concat_map_upd : forall A B (f : A -> list B) l i x d, i < length l ->
  Permutation (concat (map f (upd l i x)) ++ f (nth i l d)) (concat (map f l) ++ f x).
Proof.
  induction l as [|h t IH]; intros [|i] x d Hi; cbn in *; try lia.
  - rewrite <- app_assoc. apply Permutation_trans with ((concat (map f t) ++ f h) ++ f x); [apply Permutation_app_comm|].
    apply Permutation_app_tail. apply Permutation_app_comm.
  - rewrite <- !app_assoc. apply Permutation_app_head. apply IH. lia.
Qed.

Lemma pend_with : forall s t th' h' p', t < length (s_thr s) ->
  Permutation (pend (with_thr s t th' h' p') ++ slabs_of (t_todo (thr s t))) (pend s ++ slabs_of (t_todo th')).
Proof. intros. unfold pend, with_thr, thr; cbn [s_thr]. apply (concat_map_upd _ _ (fun t => slabs_of (t_todo t))); auto. Qed.

Lemma pend_same : forall s t th' h' p', t < length (s_thr s) ->
  slabs_of (t_todo th') = slabs_of (t_todo (thr s t)) -> Permutation (pend (with_thr s t th' h' p')) (pend s).
Proof.
  intros s t th' h' p' Ht E. pose proof (pend_with s t th' h' p' Ht) as HP. rewrite E in HP.
  eapply Permutation_app_inv_r; eauto.
Qed.

Lemma slabs_of_app : forall a b, slabs_of (a ++ b) = slabs_of a ++ slabs_of b.
Proof. induction a as [|x a IH]; intros; cbn; auto. destruct x; cbn; rewrite ?IH; auto. Qed.

(* ------------------------------------------------------------------ steps that do not involve the pool *)

Definition obj_frame (ob ob' : obj) : Prop :=
  o_pooled ob' = o_pooled ob /\
  (o_pooled ob = true ->
     (o_st ob' = o_st ob \/ (o_st ob = Live /\ o_st ob' = Releasing)) /\
     (is_live ob = false -> o_val ob' = o_val ob)).

Lemma pend_ok_perm : forall hlen l l', Permutation l l' -> pend_ok hlen l -> pend_ok hlen l'.
Proof.
  intros hlen l l' HP (H1 & H2 & H3). split; [|split].
  - eapply Permutation_Forall; eauto.
  - eapply Permutation_NoDup; [apply Permutation_map; eauto|auto].
  - intros sd sd' x I1 I2. apply H3; eapply Permutation_in; try eassumption; apply Permutation_sym; auto.
Qed.

Lemma pend_ok_weaken : forall hlen hlen' l, hlen <= hlen' -> pend_ok hlen l -> pend_ok hlen' l.
Proof.
  intros hlen hlen' l Hle (H1 & H2 & H3). split; [|split]; auto.
  rewrite Forall_forall in *. intros sd Hs. specialize (H1 sd Hs). lia.
Qed.

Lemma pend_owned_lt : forall hlen l x, pend_ok hlen l -> owned_by l x -> x < hlen.
Proof.
  intros hlen l x (H1 & _) (sd & Hin & Ho). rewrite Forall_forall in H1. specialize (H1 sd Hin). apply owns_spec in Ho. lia.
Qed.

Lemma all_owned_lt : forall s x, plink s -> owned_by (pend s ++ p_slabs (s_pool s)) x -> x < length (s_heap s).
Proof.
  intros s x P Hx. apply owned_app in Hx. destruct Hx as [Hx|Hx].
  - eapply pend_owned_lt; eauto. apply (pl_pendok s P).
  - eapply cwf_owned_lt; [apply pool_wf_cwf; apply (pl_wf s P)|auto].
Qed.

Lemma plink_frame : forall s s', plink s ->
  s_pool s' = s_pool s -> Permutation (pend s') (pend s) ->
  length (s_heap s) <= length (s_heap s') ->
  (forall x, length (s_heap s) <= x -> o_pooled (hobj s' x) = false) ->
  (forall x, x < length (s_heap s) -> obj_frame (hobj s x) (hobj s' x)) ->
  plink s'.
Proof.
  intros s s' P Ep HP Hlen Hnew Hold. pose proof P as [P1 P2 P2b P3 P4 P5 P6 P7].
  assert (HPall : Permutation (pend s' ++ p_slabs (s_pool s)) (pend s ++ p_slabs (s_pool s))) by (apply Permutation_app_tail; auto).
  assert (Hpooled : forall x, owned_by (pend s ++ p_slabs (s_pool s)) x ->
            o_pooled (hobj s x) = true /\ obj_frame (hobj s x) (hobj s' x)).
  { intros x Hx. split; auto. apply Hold. eapply all_owned_lt; eauto. }
  constructor; rewrite ?Ep.
  - eapply pool_wf_weaken; eauto.
  - eapply pend_ok_weaken; eauto. eapply pend_ok_perm; [apply Permutation_sym; eauto|auto].
  - intros x Hx. apply P2b. eapply owned_perm; eauto.
  - intros x Hx. destruct (P3 x Hx) as (A1 & A2).
    destruct (Hpooled x) as (B1 & (B2 & B3)); [apply owned_app; right; apply pfree_owned; auto|].
    destruct (B3 B1) as ([E|(E & _)] & Ev); [|congruence]. rewrite E, Ev; auto. unfold is_live. rewrite A1. reflexivity.
  - intros x Hx. destruct (Hpooled x) as (B1 & (B2 & B3)); [apply owned_app; right; apply pused_owned; auto|].
    destruct (B3 B1) as ([E|(E1 & E2)] & _); [rewrite E; auto|auto].
  - intros x Hx. assert (Hx' : owned_by (pend s) x) by (eapply owned_perm; eauto).
    destruct (Hpooled x) as (B1 & (B2 & B3)); [apply owned_app; left; auto|].
    specialize (P5 x Hx'). destruct (B3 B1) as ([E|(E & _)] & _); congruence.
  - intros x Hx Hp Hd. destruct (lt_dec x (length (s_heap s))) as [Hl|Hl]; [|rewrite Hnew in Hp by lia; discriminate].
    destruct (Hold x Hl) as (B2 & B3). rewrite B2 in Hp. destruct (B3 Hp) as ([E|(E1 & E2)] & _).
    + eapply owned_perm; [apply Permutation_sym; eauto|]. apply P6; auto. congruence.
    + eapply owned_perm; [apply Permutation_sym; eauto|]. apply P6; auto. congruence.
  - intros x Hx. assert (Hx' : owned_by (pend s ++ p_slabs (s_pool s)) x) by (eapply owned_perm; eauto).
    destruct (Hpooled x Hx') as (B1 & (B2 & _)). congruence.
Qed.


(* ------------------------------------------------------------------ heap changes that leave the pool's view intact *)

Definition heap_frame (h h' : list obj) : Prop :=
  length h <= length h' /\
  (forall x, length h <= x -> o_pooled (get_obj h' x) = false) /\
  (forall x, x < length h -> obj_frame (get_obj h x) (get_obj h' x)).

Lemma obj_frame_refl : forall ob, obj_frame ob ob.
Proof. intros ob. split; auto. Qed.

Lemma obj_frame_trans : forall a b c, obj_frame a b -> obj_frame b c -> obj_frame a c.
Proof.
  intros a b c (A1 & A2) (B1 & B2). split; [congruence|]. intros Hp.
  destruct (A2 Hp) as (A3 & A4). assert (Hpb : o_pooled b = true) by congruence. destruct (B2 Hpb) as (B3 & B4).
  split.
  - destruct A3 as [E|(E1 & E2)]; destruct B3 as [F|(F1 & F2)]; try (left; congruence); try (right; split; congruence).
  - intros Hl. rewrite B4; auto. unfold is_live in *. destruct A3 as [E|(E1 & E2)]; [rewrite E; auto|rewrite E1 in Hl; discriminate].
Qed.

Lemma heap_frame_refl : forall h, heap_frame h h.
Proof.
  intros h. split; auto. split.
  - intros x Hx. unfold get_obj. rewrite nth_overflow by auto. reflexivity.
  - intros; apply obj_frame_refl.
Qed.

Lemma heap_frame_trans : forall a b c, heap_frame a b -> heap_frame b c -> heap_frame a c.
Proof.
  intros a b c (A1 & A2 & A3) (B1 & B2 & B3). split; [lia|]. split.
  - intros x Hx. destruct (lt_dec x (length b)) as [Hl|Hl]; [|apply B2; lia].
    destruct (B3 x Hl) as (E & _). rewrite E. apply A2; auto.
  - intros x Hx. eapply obj_frame_trans; [apply A3; auto|apply B3; lia].
Qed.

Lemma frame_upd : forall h o ob', obj_frame (get_obj h o) ob' -> heap_frame h (upd h o ob').
Proof.
  intros h o ob' Hf. split; [rewrite upd_length; auto|]. split.
  - intros x Hx. destruct (Nat.eq_dec o x) as [->|Hne].
    + rewrite upd_oob by lia. unfold get_obj. rewrite nth_overflow by lia. reflexivity.
    + rewrite get_upd_other by auto. unfold get_obj. rewrite nth_overflow by lia. reflexivity.
  - intros x Hx. destruct (Nat.eq_dec o x) as [->|Hne].
    + rewrite get_upd_same by auto. auto.
    + rewrite get_upd_other by auto. apply obj_frame_refl.
Qed.

Lemma frame_inc : forall h o h', inc_obj h o = Some h' -> heap_frame h h'.
Proof.
  intros h o h' H. unfold inc_obj in H. destruct (is_live (get_obj h o)); inversion H; subst.
  apply frame_upd. split; auto.
Qed.

Lemma frame_dec : forall h q h' z, dec_obj h q = Some (h', z) -> heap_frame h h'.
Proof.
  intros h q h' z H. unfold dec_obj in H. destruct (is_live (get_obj h q)) eqn:El; cbn [andb] in H; [|discriminate].
  destruct (0 <? o_cnt (get_obj h q)); [|discriminate].
  destruct (o_cnt (get_obj h q) - 1 =? 0); inversion H; subst; apply frame_upd; split; auto; intros Hp; cbn.
  split; [right; split; auto; unfold is_live in El; destruct (o_st (get_obj h q)); auto; discriminate|auto].
Qed.

Lemma frame_dec_keep : forall h q h', dec_keep h q = Some h' -> heap_frame h h'.
Proof.
  intros h q h' H. unfold dec_keep in H. destruct (is_live (get_obj h q) && (0 <? o_cnt (get_obj h q))); inversion H; subst.
  apply frame_upd. split; auto.
Qed.

Lemma frame_write : forall h stk l v h1 stk1, write_slot h stk l v = (h1, stk1) -> heap_frame h h1.
Proof.
  intros h stk [i|q j] v h1 stk1 H; cbn in H; inversion H; subst; [apply heap_frame_refl|].
  apply frame_upd. split; auto.
Qed.

Lemma slabs_of_dec_of : forall old, slabs_of (dec_of old) = [].
Proof. intros [[q [|]]|]; reflexivity. Qed.

Definition bad56 (e : event) : bool := match e with EvBad w => (w =? 5) || (w =? 6) | _ => false end.

(* the actions that do not involve the pool *)
Definition pool_free_act (h : list obj) (a : act) : Prop :=
  match a with
  | APoolObt _ | ADrain | ASlabDel _ => False
  | ARel o n => is_releasing (get_obj h o) = true -> n < length (o_mem (get_obj h o)) \/ o_pooled (get_obj h o) = false
  | _ => True
  end.

Lemma do_act_frame : forall h p stk a rest h' stk' todo' p' ev, pool_free_act h a ->
  do_act N K h p stk a rest = (h', stk', todo', p', ev) ->
  p' = p /\ heap_frame h h' /\ slabs_of todo' = slabs_of (a :: rest) /\ bad56 ev = false.
Proof.
  intros h p stk a rest h' stk' todo' p' ev Hpf H. destruct a; cbn [do_act] in H; cbn in Hpf; try tauto.
  - destruct (inc_obj h o) eqn:E; inversion H; subst; (split; [reflexivity|split; [|split; [reflexivity|reflexivity]]]);
      first [eapply frame_inc; eassumption | apply heap_frame_refl].
  - destruct (dec_obj h o) as [[h2 [|]]|] eqn:E; inversion H; subst; (split; [reflexivity|split; [|split; [reflexivity|reflexivity]]]);
      first [eapply frame_dec; eassumption | apply heap_frame_refl].
  - destruct (dec_keep h o) eqn:E; inversion H; subst; (split; [reflexivity|split; [|split; [reflexivity|reflexivity]]]);
      first [eapply frame_dec_keep; eassumption | apply heap_frame_refl].
  - destruct (write_slot h stk l None) as [h1 stk1] eqn:E. inversion H; subst. fold (dec_of (read_slot h stk l)).
    split; [reflexivity|split; [eapply frame_write; eauto|split; [|reflexivity]]]. rewrite slabs_of_app, slabs_of_dec_of. reflexivity.
  - destruct (read_slot h stk l) as [[q [|]]|] eqn:Er.
    + destruct (write_slot h stk l (Some (q, false))) as [h1 stk1] eqn:E. inversion H; subst.
      split; [reflexivity|split; [eapply frame_write; eauto|split; reflexivity]].
    + inversion H; subst. split; [reflexivity|split; [apply heap_frame_refl|split; reflexivity]].
    + inversion H; subst. split; [reflexivity|split; [apply heap_frame_refl|split; reflexivity]].
  - destruct (write_slot h stk l v) as [h1 stk1] eqn:E. inversion H; subst. fold (dec_of (read_slot h stk l)).
    split; [reflexivity|split; [eapply frame_write; eauto|split; [|reflexivity]]]. rewrite slabs_of_app, slabs_of_dec_of. reflexivity.
  - destruct (is_releasing (get_obj h o)) eqn:Er; cbn [negb] in H;
      [|inversion H; subst; split; [reflexivity|split; [apply heap_frame_refl|split; reflexivity]]].
    destruct (n <? length (o_mem (get_obj h o))) eqn:En.
    + inversion H; subst. fold (dec_of (nth (rel_index (get_obj h o) n) (o_mem (get_obj h o)) None)).
      split; [reflexivity|split; [apply frame_upd; split; auto|split; [|reflexivity]]]. rewrite slabs_of_app, slabs_of_dec_of. reflexivity.
    + apply Nat.ltb_ge in En. destruct (Hpf eq_refl) as [Hx|Hx]; [lia|]. rewrite Hx in H. inversion H; subst.
      split; [reflexivity|split; [|split; reflexivity]]. apply frame_upd. split; auto. intros Hp. cbn in Hp. congruence.
Qed.


Lemma slabs_of_reset : forall l q, slabs_of (reset_acts l q) = [].
Proof. intros l [[y [|]]|]; reflexivity. Qed.

Lemma slabs_of_setref : forall l q p c src, slabs_of (setref_acts l q p c src) = [].
Proof.
  intros l q p c src. unfold setref_acts. destruct p as [o|]; [|apply slabs_of_reset].
  destruct (opt_eqb (ptr q) (Some o)).
  - destruct (counting q), c; reflexivity.
  - unfold take_acts. destruct c; destruct q as [[y [|]]|]; reflexivity.
Qed.

Lemma slabs_of_cast : forall l q p c src, slabs_of (castassign_acts l q p c src) = [].
Proof. intros l q p c src. unfold castassign_acts. destruct p as [o|]; [destruct c; reflexivity|apply slabs_of_reset]. Qed.

Lemma begin_frame : forall s t stk op prog h' stk' todo' ok, inv1 K s -> t < length (s_thr s) ->
  thr s t = mkThr stk [] (op :: prog) -> prog_ok op = true ->
  begin_op K (s_heap s) stk op = (h', stk', todo', ok) ->
  heap_frame (s_heap s) h' /\ slabs_of todo' = [].
Proof.
  intros s t stk op prog h' stk' todo' ok I Ht E Hop Hb.
  destruct op as [i pooled|dst src|dst src|dst src|l|a b|dst src|i v|]; cbn [begin_op] in Hb; try discriminate.
  - destruct (i <? length stk); [|injection Hb as <- <- <- <-; split; [apply heap_frame_refl|reflexivity]].
    destruct pooled; injection Hb as <- <- <- <-.
    + split; [apply heap_frame_refl|reflexivity].
    + split; [|exact (slabs_of_setref (RStk i) (nth i stk None) (Some (length (s_heap s))) true None)]. split; [rewrite app_length; lia|]. split.
      * intros x Hx. destruct (Nat.eq_dec x (length (s_heap s))) as [->|Hne].
        -- unfold get_obj. rewrite nth_app_new. reflexivity.
        -- unfold get_obj. rewrite nth_overflow by (rewrite app_length; cbn; lia). reflexivity.
      * intros x Hx. unfold get_obj. rewrite app_nth1 by auto. apply obj_frame_refl.
  - destruct (resolve_r (s_heap s) stk src) as [[rs p]|]; [|injection Hb as <- <- <- <-; split; [apply heap_frame_refl|reflexivity]].
    destruct (resolve_w (s_heap s) stk dst (ptr p)) as [[rd q]|]; injection Hb as <- <- <- <-; split; try apply heap_frame_refl; auto.
    apply slabs_of_setref.
  - destruct (resolve_r (s_heap s) stk src) as [[rs p]|]; [|injection Hb as <- <- <- <-; split; [apply heap_frame_refl|reflexivity]].
    destruct (resolve_w (s_heap s) stk dst (ptr p)) as [[rd q]|]; injection Hb as <- <- <- <-; split; try apply heap_frame_refl; auto.
    apply slabs_of_setref.
  - destruct (resolve_w (s_heap s) stk l None) as [[rd q]|]; injection Hb as <- <- <- <-; split; try apply heap_frame_refl; auto.
    apply slabs_of_reset.
  - destruct (resolve_r (s_heap s) stk a) as [[ra0 va]|]; [|injection Hb as <- <- <- <-; split; [apply heap_frame_refl|reflexivity]].
    destruct (resolve_r (s_heap s) stk b) as [[rb0 vb]|]; [|injection Hb as <- <- <- <-; split; [apply heap_frame_refl|reflexivity]].
    destruct (resolve_w (s_heap s) stk a (ptr vb)) as [[ra qa]|]; [|injection Hb as <- <- <- <-; split; [apply heap_frame_refl|reflexivity]].
    destruct (resolve_w (s_heap s) stk b (ptr va)) as [[rb qb]|]; [|injection Hb as <- <- <- <-; split; [apply heap_frame_refl|reflexivity]].
    destruct (rloc_eqb ra rb); [injection Hb as <- <- <- <-; split; [apply heap_frame_refl|reflexivity]|].
    destruct (write_slot (s_heap s) stk ra vb) as [h1 stk1] eqn:Hw1.
    destruct (write_slot h1 stk1 rb va) as [h2 stk2] eqn:Hw2. injection Hb as <- <- <- <-.
    split; [|reflexivity]. eapply heap_frame_trans; eapply frame_write; eauto.
  - destruct (resolve_r (s_heap s) stk src) as [[rs p]|]; [|injection Hb as <- <- <- <-; split; [apply heap_frame_refl|reflexivity]].
    destruct (resolve_w (s_heap s) stk dst (ptr p)) as [[rd q]|]; injection Hb as <- <- <- <-; split; try apply heap_frame_refl; auto.
    apply slabs_of_cast.
  - destruct (nth i stk None) as [[q [|]]|] eqn:Eq; try (injection Hb as <- <- <- <-; split; [apply heap_frame_refl|reflexivity]).
    destruct (o_cnt (get_obj (s_heap s) q) =? 1); injection Hb as <- <- <- <-; (split; [|reflexivity]); [|apply heap_frame_refl].
    assert (Hq' : nth i (t_stk (thr s t)) None = Some (q, true)) by (rewrite E; auto).
    destruct (held_live K s t i q I Ht Hq') as (Hl & _).
    apply frame_upd. split; auto. intros Hp. cbn. split; auto. intros Hnl. unfold hobj in Hl. congruence.
  - injection Hb as <- <- <- <-. split; [apply heap_frame_refl|reflexivity].
Qed.


(* ------------------------------------------------------------------ the pool-free steps *)

Lemma plink_of_frame : forall s t stk todo prog stk' todo' prog' h',
  plink s -> t < length (s_thr s) -> thr s t = mkThr stk todo prog ->
  heap_frame (s_heap s) h' -> slabs_of todo' = slabs_of todo ->
  plink (with_thr s t (mkThr stk' todo' prog') h' (s_pool s)).
Proof.
  intros s t stk todo prog stk' todo' prog' h' P Ht E (F1 & F2 & F3) Hs.
  apply (plink_frame s); auto.
  apply pend_same; auto. rewrite E. exact Hs.
Qed.

(* ------------------------------------------------------------------ slab deletion *)

Lemma pend_ok_tail : forall hlen sd l, pend_ok hlen (sd :: l) -> pend_ok hlen l.
Proof.
  intros hlen sd l (H1 & H2 & H3). split; [inversion H1; auto|]. split; [inversion H2; auto|].
  intros a b x Ia Ib. apply H3; right; auto.
Qed.

Lemma pend_head_disjoint : forall hlen sd l x, 1 <= N -> pend_ok hlen (sd :: l) -> owns N sd x = true -> ~ owned_by l x.
Proof.
  intros hlen sd l x HN (H1 & H2 & H3) Ho (sd' & Hin & Ho'). cbn in H2. inversion H2 as [|b bs Hni Hnd]; subst.
  apply Hni. rewrite (H3 sd sd' x (or_introl eq_refl) (or_intror Hin) Ho Ho'). apply in_map; auto.
Qed.

Lemma plink_slabdel : forall s t stk sd rest prog, 1 <= N ->
  plink s -> t < length (s_thr s) -> thr s t = mkThr stk (ASlabDel sd :: rest) prog ->
  range_all (s_heap s) (sl_base sd) N is_pooled_st = true /\
  plink (with_thr s t (mkThr stk rest prog) (set_range (s_heap s) (sl_base sd) N (fun ob => set_st ob Dead)) (s_pool s)).
Proof.
  intros s t stk sd rest prog HN P Ht E. pose proof P as [P1 P2 P2b P3 P4 P5 P6 P7].
  set (s' := with_thr s t (mkThr stk rest prog) (set_range (s_heap s) (sl_base sd) N (fun ob => set_st ob Dead)) (s_pool s)).
  assert (HP : Permutation (pend s) (sd :: pend s')).
  { pose proof (pend_with s t (mkThr stk rest prog) (set_range (s_heap s) (sl_base sd) N (fun ob => set_st ob Dead)) (s_pool s) Ht) as H.
    fold s' in H. rewrite E in H. cbn [t_todo slabs_of] in H.
    assert (H2 : Permutation ((sd :: pend s') ++ slabs_of rest) (pend s ++ slabs_of rest)).
    { eapply Permutation_trans; [|exact H]. cbn [app]. apply Permutation_middle. }
    apply Permutation_app_inv_r in H2. apply Permutation_sym. exact H2. }
  assert (Hin : In sd (pend s)) by (eapply Permutation_in; [apply Permutation_sym; eauto|left; auto]).
  assert (Hown_pooled : forall x, owns N sd x = true -> o_st (hobj s x) = Pooled) by (intros x Hx; apply P5; exists sd; auto).
  assert (Hrange : forall x, owns N sd x = ((sl_base sd <=? x) && (x <? sl_base sd + N))) by reflexivity.
  split.
  - (* every object of the slab is pooled *)
    assert (G : forall n, n <= N -> range_all (s_heap s) (sl_base sd) n is_pooled_st = true).
    { induction n as [|n IH]; intros Hn; cbn; auto. rewrite IH by lia. rewrite andb_true_r.
      assert (Hq : o_st (hobj s (sl_base sd + n)) = Pooled) by (apply Hown_pooled; apply owns_spec; lia).
      unfold hobj in Hq. unfold is_pooled_st. rewrite Hq. reflexivity. }
    apply G; auto.
  - assert (Hget : forall x, hobj s' x = if owns N sd x then set_st (hobj s x) Dead else hobj s x).
    { intros x. unfold hobj, s'; cbn [s_heap with_thr]. rewrite set_range_get by auto. rewrite Hrange. reflexivity. }
    assert (P2' : pend_ok (length (s_heap s)) (sd :: pend s')) by (eapply pend_ok_perm; eauto).
    assert (Hsub : forall x, owned_by (pend s') x -> owned_by (pend s) x /\ owns N sd x = false).
    { intros x Hx. split.
      - eapply owned_perm; [apply Permutation_sym; eauto|]. destruct Hx as (a & Ia & Oa). exists a; split; auto. right; auto.
      - destruct (owns N sd x) eqn:Eo; auto. exfalso. eapply (pend_head_disjoint _ sd (pend s') x); eauto. }
    assert (Hlisted : forall x, owned_by (p_slabs (s_pool s)) x -> owns N sd x = false).
    { intros x Hx. destruct (owns N sd x) eqn:Eo; auto. exfalso. apply (P2b x); auto. exists sd; auto. }
    constructor; unfold s'; cbn [s_pool s_heap with_thr]; rewrite ?set_range_length; fold s'.
    + exact P1.
    + eapply pend_ok_tail; eauto.
    + intros x Hx. apply P2b. apply Hsub; auto.
    + intros x Hx. rewrite Hget, (Hlisted x (pfree_owned _ _ Hx)). auto.
    + intros x Hx. rewrite Hget, (Hlisted x (pused_owned _ _ Hx)). auto.
    + intros x Hx. destruct (Hsub x Hx) as (A & B). rewrite Hget, B. auto.
    + intros x Hx Hp Hd. rewrite Hget in Hp, Hd. destruct (owns N sd x) eqn:Eo; [cbn in Hd; congruence|].
      specialize (P6 x Hx Hp Hd). apply owned_app in P6. apply owned_app. destruct P6 as [A|A]; auto. left.
      destruct A as (a & Ia & Oa). eapply Permutation_in in Ia; [|eauto]. destruct Ia as [<-|Ia]; [congruence|]. exists a; auto.
    + intros x Hx. rewrite Hget. assert (Hx' : owned_by (pend s ++ p_slabs (s_pool s)) x).
      { apply owned_app in Hx. apply owned_app. destruct Hx as [A|A]; auto. left. apply Hsub; auto. }
      specialize (P7 x Hx'). destruct (owns N sd x); auto.
Qed.


(* ------------------------------------------------------------------ Drain *)

Lemma slabs_of_map : forall dels, slabs_of (map ASlabDel dels) = dels.
Proof. induction dels as [|d ds IH]; cbn; auto. rewrite IH; auto. Qed.

Lemma nodup_app : forall A (a b : list A), NoDup a -> NoDup b -> (forall x, In x a -> In x b -> False) -> NoDup (a ++ b).
Proof.
  induction a as [|h t IH]; intros b Ha Hb Hd; cbn; auto. inversion Ha; subst. constructor.
  - intros Hin. apply in_app_or in Hin. destruct Hin; auto. apply (Hd h); auto. left; auto.
  - apply IH; auto. intros x I1 I2. apply (Hd x); auto. right; auto.
Qed.

(* adding slabs taken out of the list (all their objects are free there) to the pending ones *)
Lemma pend_ok_add : forall s dels, 1 <= N -> plink s ->
  Forall (fun sd => sl_base sd + N <= length (s_heap s)) dels -> NoDup (map sl_base dels) ->
  (forall s1 s2 x, In s1 dels -> In s2 dels -> owns N s1 x = true -> owns N s2 x = true -> sl_base s1 = sl_base s2) ->
  (forall sd x, In sd dels -> owns N sd x = true -> owned_by (p_slabs (s_pool s)) x) ->
  pend_ok (length (s_heap s)) (dels ++ pend s).
Proof.
  intros s dels HN P Hb Hnd Huniq Hlisted. destruct (pl_pendok s P) as (A1 & A2 & A3).
  assert (Hx : forall sd sd' x, In sd dels -> In sd' (pend s) -> owns N sd x = true -> owns N sd' x = true -> False).
  { intros sd sd' x I1 I2 O1 O2. apply (pl_cross s P x); [exists sd'; auto|eapply Hlisted; eauto]. }
  split; [apply Forall_app; auto|]. split.
  - rewrite map_app. apply nodup_app; auto.
    intros b I1 I2. apply in_map_iff in I1, I2. destruct I1 as (sd & E1 & I1). destruct I2 as (sd' & E2 & I2).
    apply (Hx sd sd' b I1 I2); apply owns_spec; lia.
  - intros a b x Ia Ib Oa Ob. apply in_app_or in Ia, Ib. destruct Ia as [Ia|Ia], Ib as [Ib|Ib]; eauto.
    + exfalso; eapply Hx; eauto.
    + exfalso; eapply (Hx b a); eauto.
Qed.


Lemma nodup_map_of_inj : forall A B (f : A -> B) l, NoDup l -> (forall a b, In a l -> In b l -> f a = f b -> a = b) -> NoDup (map f l).
Proof.
  induction l as [|h t IH]; intros Hn Hinj; cbn; [constructor|]. inversion Hn; subst. constructor.
  - intros Hin. apply in_map_iff in Hin. destruct Hin as (x & E & Hx).
    assert (x = h) by (apply Hinj; auto; [right; auto|left; auto]). subst. auto.
  - apply IH; auto. intros a b Ia Ib. apply Hinj; right; auto.
Qed.

Lemma plink_drain : forall s t stk prog p' dels, 1 <= N ->
  plink s -> t < length (s_thr s) -> thr s t = mkThr stk [ADrain] prog ->
  pool_drain N (s_pool s) = (p', dels) ->
  plink (with_thr s t (mkThr stk (map ASlabDel dels ++ []) prog) (s_heap s) p').
Proof.
  intros s t stk prog p' dels HN P Ht E Hd. pose proof P as [P1 P2 P2b P3 P4 P5 P6 P7].
  pose proof (pool_drain_spec N (length (s_heap s)) (s_pool s) HN P1) as Hspec. rewrite Hd in Hspec.
  destruct Hspec as (D1 & D2 & D3 & D4 & D5 & D6 & D7 & D8).
  set (s' := with_thr s t (mkThr stk (map ASlabDel dels ++ []) prog) (s_heap s) p').
  assert (HP : Permutation (pend s') (dels ++ pend s)).
  { pose proof (pend_with s t (mkThr stk (map ASlabDel dels ++ []) prog) (s_heap s) p' Ht) as H. fold s' in H.
    rewrite E in H. cbn [t_todo slabs_of] in H. rewrite !app_nil_r, slabs_of_map in H.
    eapply Permutation_trans; [exact H|]. apply Permutation_app_comm. }
  assert (Hdels_listed : forall sd x, In sd dels -> owns N sd x = true -> owned_by (p_slabs (s_pool s)) x).
  { intros sd x I O. apply pfree_owned. destruct (D3 sd I) as (_ & H). auto. }
  assert (Hnd : NoDup (map sl_base dels)).
  { apply nodup_map_of_inj.
    - eapply NoDup_map_inv; eauto.
    - intros a b Ia Ib Eb. apply (D8 a b (sl_base a)); auto; apply owns_spec; lia. }
  assert (Hok : pend_ok (length (s_heap s)) (dels ++ pend s)).
  { apply pend_ok_add; auto.
    - apply Forall_forall. intros sd I. destruct (D3 sd I); auto.
    - intros s1 s2 x I1 I2 O1 O2. rewrite (D8 s1 s2 x); auto. }
  assert (Hown' : forall x, owned_by (pend s') x <-> owned_by dels x \/ owned_by (pend s) x).
  { intros x. rewrite <- owned_app. split; apply owned_perm; auto. apply Permutation_sym; auto. }
  assert (Hlisted' : forall x, owned_by (p_slabs p') x -> owned_by (p_slabs (s_pool s)) x /\ ~ owned_by dels x).
  { intros x Hx. destruct (owned_free_or_used _ x Hx) as [F|U].
    - apply D5 in F. destruct F as (F & Hno). split; [apply pfree_owned; auto|]. intros (sd & I & O). rewrite (Hno sd I) in O. discriminate.
    - apply D4 in U. split; [apply pused_owned; auto|]. intros (sd & I & O). destruct (D3 sd I) as (_ & H).
      apply (pfree_pused_excl N (length (s_heap s)) (p_nextid (s_pool s)) (p_slabs (s_pool s)) x (pool_wf_cwf _ _ _ P1)); auto. }
  constructor; unfold s'; cbn [s_pool s_heap with_thr]; fold s'.
  - exact D1.
  - eapply pend_ok_perm; [apply Permutation_sym; eauto|auto].
  - intros x Hx Hl. destruct (Hlisted' x Hl) as (A & B). apply Hown' in Hx. destruct Hx as [Hx|Hx]; [tauto|]. apply (P2b x); auto.
  - intros x Hx. apply D5 in Hx. apply P3. tauto.
  - intros x Hx. apply D4 in Hx. apply P4; auto.
  - intros x Hx. apply Hown' in Hx. destruct Hx as [(sd & I & O)|Hx]; [|apply P5; auto].
    destruct (D3 sd I) as (_ & H). apply P3; auto.
  - intros x Hx Hp Hdd. specialize (P6 x Hx Hp Hdd). apply owned_app in P6. apply owned_app. destruct P6 as [A|A].
    + left. apply Hown'. auto.
    + destruct (owned_free_or_used _ x A) as [F|U].
      * destruct (D6 x F) as [F'|(sd & I & O)]; [right; apply pfree_owned; auto|left; apply Hown'; left; exists sd; auto].
      * right. apply pused_owned. apply D4; auto.
  - intros x Hx. apply P7. apply owned_app in Hx. apply owned_app. destruct Hx as [A|A].
    + apply Hown' in A. destruct A as [(sd & I & O)|A]; [right; eapply Hdels_listed; eauto|left; auto].
    + right. apply Hlisted'; auto.
Qed.


(* ------------------------------------------------------------------ ReleaseObject *)

Lemma releasing_is_used : forall s o, plink s -> o < length (s_heap s) ->
  is_releasing (hobj s o) = true -> o_pooled (hobj s o) = true -> pused N (p_slabs (s_pool s)) o.
Proof.
  intros s o P Ho Hr Hp. unfold is_releasing in Hr. destruct (o_st (hobj s o)) eqn:Est; try discriminate.
  assert (Hnd : o_st (hobj s o) <> Dead) by congruence.
  pose proof (pl_cover s P o Ho Hp Hnd) as Hc. apply owned_app in Hc. destruct Hc as [Hc|Hc].
  - pose proof (pl_pend s P o Hc). congruence.
  - destruct (owned_free_or_used _ o Hc) as [F|U]; auto. destruct (pl_free s P o F). congruence.
Qed.

Lemma plink_release : forall s t stk o n rest prog p' del, 1 <= N ->
  plink s -> t < length (s_thr s) -> thr s t = mkThr stk (ARel o n :: rest) prog ->
  o < length (s_heap s) -> is_releasing (hobj s o) = true -> o_pooled (hobj s o) = true ->
  pool_release N (s_pool s) o = (p', del) ->
  plink (with_thr s t (mkThr stk (match del with Some sd => ASlabDel sd :: rest | None => rest end) prog)
           (upd (s_heap s) o (set_st (set_val (hobj s o) 0) Pooled)) p').
Proof.
  intros s t stk o n rest prog p' del HN P Ht E Ho Hr Hp Hrel. pose proof P as [P1 P2 P2b P3 P4 P5 P6 P7].
  pose proof (releasing_is_used s o P Ho Hr Hp) as Hused.
  pose proof (pool_release_spec N (length (s_heap s)) (s_pool s) o HN P1 Hused) as Hspec. rewrite Hrel in Hspec.
  destruct Hspec as (R1 & R2 & R3).
  set (h' := upd (s_heap s) o (set_st (set_val (hobj s o) 0) Pooled)).
  set (todo' := match del with Some sd => ASlabDel sd :: rest | None => rest end).
  set (s' := with_thr s t (mkThr stk todo' prog) h' p').
  assert (Hget : forall x, hobj s' x = if x =? o then set_st (set_val (hobj s o) 0) Pooled else hobj s x).
  { intros x. unfold hobj, s', h'; cbn [s_heap with_thr]. destruct (x =? o) eqn:Ex.
    - apply Nat.eqb_eq in Ex. subst x. apply get_upd_same; auto.
    - apply Nat.eqb_neq in Ex. apply get_upd_other; auto. }
  assert (Hlen : length (s_heap s') = length (s_heap s)) by (unfold s', h'; cbn [s_heap with_thr]; apply upd_length).
  assert (Ho_listed : owned_by (p_slabs (s_pool s)) o) by (apply pused_owned; auto).
  assert (Ho_notpend : ~ owned_by (pend s) o) by (intros H; apply (P2b o H); auto).
  assert (HP : Permutation (pend s') (match del with Some sd => [sd] | None => [] end ++ pend s)).
  { pose proof (pend_with s t (mkThr stk todo' prog) h' p' Ht) as H. fold s' in H. rewrite E in H. cbn [t_todo slabs_of] in H.
    unfold todo' in H. destruct del as [sd|]; cbn [slabs_of app] in H |- *.
    - assert (H2 : Permutation (pend s' ++ slabs_of rest) ((sd :: pend s) ++ slabs_of rest)).
      { eapply Permutation_trans; [exact H|]. cbn [app]. apply Permutation_sym. apply Permutation_middle. }
      apply Permutation_app_inv_r in H2. exact H2.
    - apply Permutation_app_inv_r in H. exact H. }
  destruct del as [sd|].
  - (* the slab goes with it *)
    destruct R3 as (S1 & S2 & S3 & S4 & S5). cbn [app] in HP.
    assert (Hsd_listed : forall x, owns N sd x = true -> owned_by (p_slabs (s_pool s)) x).
    { intros x Hx. destruct (S3 x Hx) as [->|F]; auto. apply pfree_owned; auto. }
    assert (Hok : pend_ok (length (s_heap s)) ([sd] ++ pend s)).
    { assert (B1 : Forall (fun sd0 => sl_base sd0 + N <= length (s_heap s)) [sd]) by (constructor; [exact S2|constructor]).
      assert (B2 : NoDup (map sl_base [sd])) by (cbn; constructor; [intros []|constructor]).
      assert (B3 : forall s1 s2 x, In s1 [sd] -> In s2 [sd] -> owns N s1 x = true -> owns N s2 x = true -> sl_base s1 = sl_base s2)
        by (intros s1 s2 x [<-|[]] [<-|[]]; auto).
      assert (B4 : forall a x, In a [sd] -> owns N a x = true -> owned_by (p_slabs (s_pool s)) x) by (intros a x [<-|[]] O; auto).
      exact (pend_ok_add s [sd] HN P B1 B2 B3 B4). }
    assert (Hown' : forall x, owned_by (pend s') x <-> owns N sd x = true \/ owned_by (pend s) x).
    { intros x. split.
      - intros H. eapply owned_perm in H; [|exact HP]. destruct H as (a & [<-|Ia] & Oa); auto. right; exists a; auto.
      - intros [H|(a & Ia & Oa)]; (eapply owned_perm; [apply Permutation_sym; exact HP|]); [exists sd; split; auto; left; auto|exists a; split; auto; right; auto]. }
    assert (Hlisted' : forall x, owned_by (p_slabs p') x -> owned_by (p_slabs (s_pool s)) x /\ owns N sd x = false).
    { intros x Hx. destruct (owns N sd x) eqn:Eo.
      - exfalso. destruct (S4 x Eo) as (A & B). destruct (owned_free_or_used _ x Hx); auto.
      - split; auto. destruct (S5 x Eo) as (A & B). destruct (owned_free_or_used _ x Hx) as [F|U]; [apply pfree_owned; apply A; auto|apply pused_owned; apply B; auto]. }
    constructor; rewrite ?Hlen; unfold s' at 1; cbn [s_pool with_thr].
    + exact R1.
    + eapply pend_ok_perm; [apply Permutation_sym; exact HP|exact Hok].
    + intros x Hx Hl. destruct (Hlisted' x Hl) as (A & B). apply Hown' in Hx. destruct Hx as [Hx|Hx]; [congruence|]. apply (P2b x); auto.
    + intros x Hx. destruct (Hlisted' x (pfree_owned _ _ Hx)) as (A & B). destruct (S5 x B) as (C & _). apply C in Hx.
      rewrite Hget. destruct (x =? o) eqn:Ex; [apply Nat.eqb_eq in Ex; subst; congruence|]. apply P3; auto.
    + intros x Hx. destruct (Hlisted' x (pused_owned _ _ Hx)) as (A & B). destruct (S5 x B) as (_ & C). apply C in Hx.
      rewrite Hget. destruct (x =? o) eqn:Ex; [apply Nat.eqb_eq in Ex; subst; congruence|]. apply P4; auto.
    + intros x Hx. apply Hown' in Hx. rewrite Hget. destruct (x =? o) eqn:Ex; [reflexivity|]. apply Nat.eqb_neq in Ex.
      destruct Hx as [Hx|Hx]; [|apply P5; auto]. destruct (S3 x Hx) as [->|F]; [congruence|]. apply P3; auto.
    + intros x Hx Hpx Hdx. rewrite Hget in Hpx, Hdx. apply owned_app. destruct (owns N sd x) eqn:Eo; [left; apply Hown'; auto|].
      destruct (x =? o) eqn:Ex; [apply Nat.eqb_eq in Ex; subst; congruence|].
      specialize (P6 x Hx Hpx Hdx). apply owned_app in P6. destruct P6 as [A|A]; [left; apply Hown'; auto|right].
      destruct (S5 x Eo) as (C1 & C2). destruct (owned_free_or_used _ x A) as [F|U]; [apply pfree_owned; apply C1; auto|apply pused_owned; apply C2; auto].
    + intros x Hx. assert (Hx' : owned_by (pend s ++ p_slabs (s_pool s)) x).
      { apply owned_app in Hx. apply owned_app. destruct Hx as [A|A].
        - apply Hown' in A. destruct A as [A|A]; auto.
        - right. apply Hlisted'; auto. }
      specialize (P7 x Hx'). rewrite Hget. destruct (x =? o) eqn:Ex; auto.
  - (* the slab stays *)
    destruct R3 as (S1 & S2). cbn [app] in HP.
    assert (Hlisted' : forall x, owned_by (p_slabs p') x <-> owned_by (p_slabs (s_pool s)) x).
    { intros x. destruct (Nat.eq_dec x o) as [->|Hne].
      - split; intros _; [exact Ho_listed|apply pfree_owned; exact S1].
      - destruct (S2 x Hne) as (A & B). split; intros H; destruct (owned_free_or_used _ x H) as [F|U].
        + apply pfree_owned. apply A. exact F.
        + apply pused_owned. apply B. exact U.
        + apply pfree_owned. apply A. exact F.
        + apply pused_owned. apply B. exact U. }
    constructor; rewrite ?Hlen; unfold s' at 1; cbn [s_pool with_thr].
    + exact R1.
    + eapply pend_ok_perm; [apply Permutation_sym; exact HP|exact P2].
    + intros x Hx Hl. apply (P2b x); [eapply owned_perm; eauto|apply Hlisted'; auto].
    + intros x Hx. rewrite Hget. destruct (x =? o) eqn:Ex; [cbn; auto|]. apply Nat.eqb_neq in Ex. apply P3. apply (S2 x Ex); auto.
    + intros x Hx. rewrite Hget. destruct (x =? o) eqn:Ex.
      * apply Nat.eqb_eq in Ex. subst. exfalso.
        apply (pfree_pused_excl N (length (s_heap s)) (p_nextid p') (p_slabs p') o (pool_wf_cwf _ _ _ R1)); auto.
      * apply Nat.eqb_neq in Ex. apply P4. apply (S2 x Ex); auto.
    + intros x Hx. assert (Hx' : owned_by (pend s) x) by (eapply owned_perm; eauto). rewrite Hget.
      destruct (x =? o) eqn:Ex; [reflexivity|]. apply P5; auto.
    + intros x Hx Hpx Hdx. rewrite Hget in Hpx, Hdx. apply owned_app. destruct (x =? o) eqn:Ex.
      * apply Nat.eqb_eq in Ex. subst. right. apply pfree_owned; auto.
      * specialize (P6 x Hx Hpx Hdx). apply owned_app in P6. destruct P6 as [A|A]; [left; eapply owned_perm; [apply Permutation_sym; exact HP|auto]|right; apply Hlisted'; auto].
    + intros x Hx. assert (Hx' : owned_by (pend s ++ p_slabs (s_pool s)) x).
      { apply owned_app in Hx. apply owned_app. destruct Hx as [A|A]; [left; eapply owned_perm; eauto|right; apply Hlisted'; auto]. }
      specialize (P7 x Hx'). rewrite Hget. destruct (x =? o) eqn:Ex; auto.
Qed.


(* ------------------------------------------------------------------ ObtainObject *)

Lemma get_new_pooled : forall h x, length h <= x -> x < length h + N ->
  get_obj (h ++ repeat (fresh_obj K true Pooled) N) x = fresh_obj K true Pooled.
Proof.
  intros h x H1 H2. unfold get_obj. rewrite app_nth2 by lia.
  assert (G : forall n i (a d : obj), i < n -> nth i (repeat a n) d = a).
  { induction n as [|n IH]; intros [|i] a d Hi; cbn; try lia; auto. apply IH; lia. }
  apply G. lia.
Qed.

Lemma plink_obtain : forall s t stk l prog p' o created, 1 <= N ->
  inv1 K s -> plink s -> t < length (s_thr s) -> thr s t = mkThr stk [APoolObt l] prog ->
  pool_obtain N (length (s_heap s)) (s_pool s) = (p', o, created) ->
  let h1 := match created with Some _ => s_heap s ++ repeat (fresh_obj K true Pooled) N | None => s_heap s end in
  is_pooled_st (get_obj h1 o) && is_default (get_obj h1 o) = true /\
  forall stk' todo', slabs_of todo' = [] ->
    plink (with_thr s t (mkThr stk' todo' prog) (upd h1 o (born (get_obj h1 o))) p').
Proof.
  intros s t stk l prog p' o created HN I P Ht E Hobt h1. pose proof P as [P1 P2 P2b P3 P4 P5 P6 P7].
  pose proof (pool_obtain_spec N (length (s_heap s)) (s_pool s) HN P1) as Hspec. rewrite Hobt in Hspec.
  assert (Hpend : forall stk' todo' h2, slabs_of todo' = [] -> Permutation (pend (with_thr s t (mkThr stk' todo' prog) h2 p')) (pend s)).
  { intros stk' todo' h2 Hs. apply pend_same; auto. rewrite E. cbn [t_todo]. rewrite Hs. reflexivity. }
  destruct created as [sn|]; unfold obtain_spec in Hspec.
  - (* a new slab *)
    destruct Hspec as (O1 & O2 & O3 & O4 & O5 & O6 & O7).
    assert (Hh1 : length h1 = length (s_heap s) + N) by (unfold h1; rewrite app_length, repeat_length; auto).
    assert (Hold : forall x, x < length (s_heap s) -> get_obj h1 x = hobj s x) by (intros; unfold h1; apply get_app_old; auto).
    assert (Hnew : forall x, length (s_heap s) <= x -> x < length (s_heap s) + N -> get_obj h1 x = fresh_obj K true Pooled)
      by (intros; unfold h1; apply get_new_pooled; auto).
    assert (Hobj : get_obj h1 o = fresh_obj K true Pooled) by (apply Hnew; lia).
    split.
    + rewrite Hobj.
      assert (A : all_none (repeat None K) = true) by (unfold all_none; apply forallb_forall; intros x Hx; apply repeat_spec in Hx; subst; auto).
      unfold is_pooled_st, is_default, fresh_obj. cbn [o_cnt o_mem o_val o_st]. rewrite A. reflexivity.
    + intros stk' todo' Hs. set (s' := with_thr s t (mkThr stk' todo' prog) (upd h1 o (born (get_obj h1 o))) p').
      assert (HP : Permutation (pend s') (pend s)) by (apply Hpend; auto).
      assert (Hget : forall x, hobj s' x = if x =? o then born (fresh_obj K true Pooled) else get_obj h1 x).
      { intros x. unfold hobj, s'; cbn [s_heap with_thr]. destruct (x =? o) eqn:Ex.
        - apply Nat.eqb_eq in Ex. subst x. rewrite get_upd_same by lia. rewrite Hobj. reflexivity.
        - apply Nat.eqb_neq in Ex. apply get_upd_other; auto. }
      assert (Hlen : length (s_heap s') = length (s_heap s) + N) by (unfold s'; cbn [s_heap with_thr]; rewrite upd_length; auto).
      assert (Hlt_old : forall x, owned_by (pend s ++ p_slabs (s_pool s)) x -> x < length (s_heap s)) by (intros; eapply all_owned_lt; eauto).
      constructor; rewrite ?Hlen; unfold s' at 1; cbn [s_pool with_thr].
      * exact O1.
      * eapply pend_ok_weaken; [|eapply pend_ok_perm; [apply Permutation_sym; exact HP|exact P2]]. lia.
      * intros x Hx Hl. assert (Hx' : owned_by (pend s) x) by (eapply owned_perm; eauto).
        assert (x < length (s_heap s)) by (apply Hlt_old; apply owned_app; auto).
        destruct (Nat.eq_dec x o) as [->|Hne]; [lia|]. destruct (O7 x Hne) as (A & B).
        destruct (owned_free_or_used _ x Hl) as [F|U].
        -- apply A in F. destruct F as [F|F]; [|lia]. apply (P2b x); auto. apply pfree_owned; auto.
        -- apply B in U. apply (P2b x); auto. apply pused_owned; auto.
      * intros x Hx. destruct (Nat.eq_dec x o) as [->|Hne].
        -- exfalso. apply (pfree_pused_excl N _ _ _ o (pool_wf_cwf _ _ _ O1)); auto.
        -- rewrite Hget. apply Nat.eqb_neq in Hne as Hne'. rewrite Hne'. destruct (O7 x Hne) as (A & _). apply A in Hx. destruct Hx as [F|F].
           ++ rewrite Hold by (apply Hlt_old; apply owned_app; right; apply pfree_owned; auto). apply P3; auto.
           ++ rewrite Hnew by lia. cbn. auto.
      * intros x Hx. rewrite Hget. destruct (x =? o) eqn:Ex; [cbn; auto|]. apply Nat.eqb_neq in Ex. destruct (O7 x Ex) as (_ & B). apply B in Hx.
        rewrite Hold by (apply Hlt_old; apply owned_app; right; apply pused_owned; auto). apply P4; auto.
      * intros x Hx. assert (Hx' : owned_by (pend s) x) by (eapply owned_perm; eauto).
        assert (x < length (s_heap s)) by (apply Hlt_old; apply owned_app; auto).
        rewrite Hget. assert (Ex : (x =? o) = false) by (apply Nat.eqb_neq; lia). rewrite Ex, Hold by auto. apply P5; auto.
      * intros x Hx Hpx Hdx. rewrite Hget in Hpx, Hdx. apply owned_app. destruct (x =? o) eqn:Ex.
        -- apply Nat.eqb_eq in Ex. subst. right. apply pused_owned; auto.
        -- apply Nat.eqb_neq in Ex. destruct (O7 x Ex) as (A & B). destruct (lt_dec x (length (s_heap s))) as [Hl|Hl].
           ++ rewrite Hold in Hpx, Hdx by auto. specialize (P6 x Hl Hpx Hdx). apply owned_app in P6. destruct P6 as [C|C].
              ** left. eapply owned_perm; [apply Permutation_sym; exact HP|auto].
              ** right. destruct (owned_free_or_used _ x C) as [F|U]; [apply pfree_owned; apply A; auto|apply pused_owned; apply B; auto].
           ++ right. apply pfree_owned. apply A. right. lia.
      * intros x Hx. rewrite Hget. destruct (x =? o) eqn:Ex; [reflexivity|]. apply Nat.eqb_neq in Ex. destruct (O7 x Ex) as (A & B).
        apply owned_app in Hx. destruct Hx as [C|C].
        -- assert (Hx' : owned_by (pend s) x) by (eapply owned_perm; eauto).
           rewrite Hold by (apply Hlt_old; apply owned_app; auto). apply P7. apply owned_app; auto.
        -- destruct (owned_free_or_used _ x C) as [F|U].
           ++ apply A in F. destruct F as [F|F].
              ** rewrite Hold by (apply Hlt_old; apply owned_app; right; apply pfree_owned; auto). apply P7. apply owned_app; right. apply pfree_owned; auto.
              ** rewrite Hnew by lia. reflexivity.
           ++ apply B in U. rewrite Hold by (apply Hlt_old; apply owned_app; right; apply pused_owned; auto). apply P7. apply owned_app; right. apply pused_owned; auto.
  - (* an existing slab *)
    destruct Hspec as (O1 & O2 & O3 & O4 & O5). unfold h1.
    destruct (P3 o O2) as (Est & Eval).
    assert (Ho : o < length (s_heap s)) by (eapply all_owned_lt; eauto; apply owned_app; right; apply pfree_owned; auto).
    assert (Hnl : is_live (hobj s o) = false) by (unfold is_live; rewrite Est; auto).
    destruct (dead_cnt0 K s o I Hnl) as (Ec & _). destruct (i_mem K s I o Ho) as (_ & Hq). unfold quiet in Hq. rewrite Est in Hq.
    split.
    + unfold is_pooled_st, is_default. unfold hobj in *. rewrite Est, Ec, Eval, Hq. reflexivity.
    + intros stk' todo' Hs. set (s' := with_thr s t (mkThr stk' todo' prog) (upd (s_heap s) o (born (get_obj (s_heap s) o))) p').
      assert (HP : Permutation (pend s') (pend s)) by (apply Hpend; auto).
      assert (Hget : forall x, hobj s' x = if x =? o then born (hobj s o) else hobj s x).
      { intros x. unfold hobj, s'; cbn [s_heap with_thr]. destruct (x =? o) eqn:Ex.
        - apply Nat.eqb_eq in Ex. subst x. apply get_upd_same; auto.
        - apply Nat.eqb_neq in Ex. apply get_upd_other; auto. }
      assert (Hlen : length (s_heap s') = length (s_heap s)) by (unfold s'; cbn [s_heap with_thr]; apply upd_length).
      assert (Hlisted' : forall x, owned_by (p_slabs p') x <-> owned_by (p_slabs (s_pool s)) x).
      { intros x. destruct (Nat.eq_dec x o) as [->|Hne].
        - split; intros _; [apply pfree_owned; exact O2|apply pused_owned; exact O3].
        - destruct (O5 x Hne) as (A & B). split; intros H; destruct (owned_free_or_used _ x H) as [F|U].
          + apply pfree_owned. apply A. exact F.
          + apply pused_owned. apply B. exact U.
          + apply pfree_owned. apply A. exact F.
          + apply pused_owned. apply B. exact U. }
      constructor; rewrite ?Hlen; unfold s' at 1; cbn [s_pool with_thr].
      * exact O1.
      * eapply pend_ok_perm; [apply Permutation_sym; exact HP|exact P2].
      * intros x Hx Hl. apply (P2b x); [eapply owned_perm; eauto|apply Hlisted'; auto].
      * intros x Hx. destruct (Nat.eq_dec x o) as [->|Hne].
        -- exfalso. apply (pfree_pused_excl N _ _ _ o (pool_wf_cwf _ _ _ O1)); auto.
        -- rewrite Hget. apply Nat.eqb_neq in Hne as Hne'. rewrite Hne'. apply P3. apply (O5 x Hne); auto.
      * intros x Hx. rewrite Hget. destruct (x =? o) eqn:Ex; [cbn; auto|]. apply Nat.eqb_neq in Ex. apply P4. apply (O5 x Ex); auto.
      * intros x Hx. assert (Hx' : owned_by (pend s) x) by (eapply owned_perm; eauto). rewrite Hget.
        destruct (x =? o) eqn:Ex; [|apply P5; auto]. apply Nat.eqb_eq in Ex. subst. exfalso. apply (P2b o Hx'). apply pfree_owned; auto.
      * intros x Hx Hpx Hdx. rewrite Hget in Hpx, Hdx. apply owned_app. destruct (x =? o) eqn:Ex.
        -- apply Nat.eqb_eq in Ex. subst. right. apply pused_owned; auto.
        -- specialize (P6 x Hx Hpx Hdx). apply owned_app in P6. destruct P6 as [C|C];
             [left; eapply owned_perm; [apply Permutation_sym; exact HP|auto]|right; apply Hlisted'; auto].
      * intros x Hx. assert (Hx' : owned_by (pend s ++ p_slabs (s_pool s)) x).
        { apply owned_app in Hx. apply owned_app. destruct Hx as [A|A]; [left; eapply owned_perm; eauto|right; apply Hlisted'; auto]. }
        specialize (P7 x Hx'). rewrite Hget. destruct (x =? o) eqn:Ex; auto. apply Nat.eqb_eq in Ex. subst. exact P7.
Qed.


(* ------------------------------------------------------------------ every step *)

Theorem step_plink : forall s t, 1 <= N -> inv1 K s -> plink s -> progs_ok s -> t < length (s_thr s) ->
  plink (fst (step N K s t)) /\ bad56 (snd (step N K s t)) = false.
Proof.
  intros s t HN I P HP Ht. unfold step. fold (thr s t).
  pose proof (HP _ (thr_in s t Ht)) as Hprog.
  destruct (thr s t) as [stk todo prog] eqn:E. cbn [t_todo t_stk t_prog] in *.
  destruct todo as [|a rest].
  - destruct prog as [|op prog]; [cbn; auto|].
    destruct (begin_op K (s_heap s) stk op) as [[[h' stk'] todo'] ok] eqn:Hb. cbn [fst snd].
    cbn in Hprog. apply andb_true_iff in Hprog. destruct Hprog as (Hop & _).
    destruct (begin_frame s t stk op prog h' stk' todo' ok I Ht E Hop Hb) as (F & S).
    split; [|reflexivity]. apply (plink_of_frame s t stk [] (op :: prog) stk' todo' prog h' P Ht E F). exact S.
  - pose proof (i_shape K s I t Ht) as Hsh. rewrite E in Hsh. cbn [t_todo] in Hsh.
    assert (Hact : act_ok s stk a) by (pose proof (i_acts K s I t a Ht) as A; rewrite E in A; apply A; left; auto).
    destruct (do_act N K (s_heap s) (s_pool s) stk a rest) as [[[[h' stk'] todo'] p'] ev] eqn:Hdo. cbn [fst snd].
    assert (Hframe : pool_free_act (s_heap s) a ->
              plink (mkSt h' (upd (s_thr s) t (mkThr stk' todo' prog)) p') /\ bad56 ev = false).
    { intros Hpf. destruct (do_act_frame (s_heap s) (s_pool s) stk a rest h' stk' todo' p' ev Hpf Hdo) as (-> & F & S & B).
      split; auto. apply (plink_of_frame s t stk (a :: rest) prog stk' todo' prog h' P Ht E F S). }
    destruct a; try (apply Hframe; exact Logic.I).
    + (* ARel *)
      cbn in Hact. destruct Hact as (Hr & Hn & _).
      destruct (n <? length (o_mem (hobj s o))) eqn:En; [apply Hframe; cbn; intros _; left; apply Nat.ltb_lt; exact En|].
      destruct (o_pooled (hobj s o)) eqn:Ep; [|apply Hframe; cbn; intros _; right; exact Ep].
      cbn [do_act] in Hdo. unfold hobj in Hr, En, Ep. rewrite Hr in Hdo. cbn [negb] in Hdo. rewrite En, Ep in Hdo.
      destruct (pool_release N (s_pool s) o) as [p2 del] eqn:Hrel.
      pose proof (plink_release s t stk o n rest prog p2 del HN P Ht E (releasing_lt _ _ Hr) Hr Ep Hrel) as G.
      destruct del as [sd|]; inversion Hdo; subst; split; auto.
    + (* APoolObt *)
      pose proof (single_rest _ _ Hsh Logic.I) as ->.
      cbn [do_act] in Hdo. destruct (pool_obtain N (length (s_heap s)) (s_pool s)) as [[p2 o] created] eqn:Hobt.
      destruct (plink_obtain s t stk l prog p2 o created HN I P Ht E Hobt) as (Hok & G). cbn zeta in Hok, G.
      rewrite Hok in Hdo. inversion Hdo; subst. split; [|reflexivity]. apply G.
      rewrite slabs_of_app. cbn [slabs_of]. rewrite app_nil_r.
      exact (slabs_of_setref l (read_slot (match created with Some _ => s_heap s ++ repeat (fresh_obj K true Pooled) N | None => s_heap s end) stk' l) (Some o) true None).
    + (* ADrain *)
      pose proof (single_rest _ _ Hsh Logic.I) as ->.
      cbn [do_act] in Hdo. destruct (pool_drain N (s_pool s)) as [p2 dels] eqn:Hdr. inversion Hdo; subst.
      split; [|reflexivity]. apply (plink_drain s t stk' prog p' dels HN P Ht E Hdr).
    + (* ASlabDel *)
      destruct (plink_slabdel s t stk s0 rest prog HN P Ht E) as (Hall & G).
      cbn [do_act] in Hdo. rewrite Hall in Hdo. inversion Hdo; subst. split; [exact G|reflexivity].
Qed.

(* ------------------------------------------------------------------ all reachable states *)

Lemma init_plink : forall max stksize progs, plink (init_state max stksize progs).
Proof.
  intros max stksize progs. unfold init_state.
  assert (Hpend : pend (mkSt [] (map (fun pr => mkThr (repeat None stksize) [] pr) progs) (empty_pool max)) = []).
  { unfold pend; cbn [s_thr]. induction progs as [|p ps IH]; cbn; auto. }
  constructor; cbn [s_heap s_pool]; rewrite ?Hpend.
  - apply empty_pool_wf.
  - split; [constructor|]. split; [constructor|]. intros sd sd' x [].
  - intros x (sd & [] & _).
  - intros x (sd & [] & _).
  - intros x (sd & [] & _).
  - intros x (sd & [] & _).
  - intros x Hx. cbn in Hx. lia.
  - intros x (sd & [] & _).
Qed.

Theorem reachable_plink : forall s0 s, 1 <= N -> inv1 K s0 -> plink s0 -> progs_ok s0 -> reachable N K s0 s -> plink s.
Proof.
  intros s0 s HN I0 P0 G0 H. induction H as [|s t H IH Ht]; auto.
  destruct (reachable_inv1 N K s0 s I0 G0 H) as (I & G). destruct (step_plink s t HN I IH G Ht); auto.
Qed.

(* C10, pooled objects: in every reachable state the pool's own bookkeeping is consistent (pool_wf: the
   conditions of PerformSanityCheck, _curPoolSize = free nodes, disjoint slabs), a node is in a free
   list exactly when its object is in the pooled state with default payload (and, by the counting
   invariant, count zero and null members), every object in use belongs to a listed slab, the objects
   of a slab waiting for deletion are all pooled and belong to no listed slab; and no step obtains an
   object that is not free and default, or deletes a slab holding an object in use. *)
Theorem pool_inv : forall s0 s, 1 <= N -> inv1 K s0 -> plink s0 -> progs_ok s0 -> reachable N K s0 s ->
  plink s /\ (forall t, t < length (s_thr s) -> bad56 (snd (step N K s t)) = false).
Proof.
  intros s0 s HN I0 P0 G0 H. pose proof (reachable_plink s0 s HN I0 P0 G0 H) as P.
  destruct (reachable_inv1 N K s0 s I0 G0 H) as (I & G). split; auto.
  intros t Ht. destruct (step_plink s t HN I P G Ht); auto.
Qed.

(* an object handed out by ObtainObject is in the freshly-constructed state and was in nobody's hands:
   every free node's object is pooled, count 0, all member references null, payload 0, and no counting
   reference anywhere points to it *)
Theorem obtain_fresh : forall s0 s x, 1 <= N -> inv1 K s0 -> plink s0 -> progs_ok s0 -> reachable N K s0 s ->
  pfree N (p_slabs (s_pool s)) x ->
  o_st (hobj s x) = Pooled /\ is_default (hobj s x) = true /\ units x s = 0.
Proof.
  intros s0 s x HN I0 P0 G0 H Hx. pose proof (reachable_plink s0 s HN I0 P0 G0 H) as P.
  destruct (reachable_inv1 N K s0 s I0 G0 H) as (I & G).
  destruct (pl_free s P x Hx) as (Est & Eval).
  assert (Hnl : is_live (hobj s x) = false) by (unfold is_live; rewrite Est; auto).
  assert (Hlt : x < length (s_heap s)) by (eapply all_owned_lt; eauto; apply owned_app; right; apply pfree_owned; auto).
  destruct (dead_cnt0 K s x I Hnl) as (Ec & _). destruct (i_mem K s I x Hlt) as (_ & Hq). unfold quiet in Hq. rewrite Est in Hq.
  split; auto. split; [unfold is_default; rewrite Ec, Eval, Hq; reflexivity|]. apply (i_nolive K s I x Hnl).
Qed.

(* a slab is deleted only when all its objects are pooled (unreferenced, default) and no thread can obtain from it *)
Theorem slab_delete_safe : forall s0 s t sd x, 1 <= N -> inv1 K s0 -> plink s0 -> progs_ok s0 -> reachable N K s0 s ->
  t < length (s_thr s) -> In (ASlabDel sd) (t_todo (thr s t)) -> owns N sd x = true ->
  o_st (hobj s x) = Pooled /\ units x s = 0 /\ ~ owned_by (p_slabs (s_pool s)) x.
Proof.
  intros s0 s t sd x HN I0 P0 G0 H Ht Hin Ho. pose proof (reachable_plink s0 s HN I0 P0 G0 H) as P.
  destruct (reachable_inv1 N K s0 s I0 G0 H) as (I & G).
  assert (Hp : owned_by (pend s) x).
  { exists sd. split; auto. unfold pend. apply in_concat. exists (slabs_of (t_todo (thr s t))). split.
    - apply in_map_iff. exists (thr s t). split; auto. apply thr_in; auto.
    - clear - Hin. induction (t_todo (thr s t)) as [|a r IH]; [destruct Hin|].
      destruct Hin as [->|Hin]; [left; auto|]. destruct a; cbn; auto. }
  pose proof (pl_pend s P x Hp) as Est. split; auto. split; [|apply (pl_cross s P x Hp)].
  apply (i_nolive K s I x). unfold is_live. rewrite Est. reflexivity.
Qed.


(* thread creation does not disturb the link *)
Theorem fork_plink : forall s progs, plink s -> plink (fork_state s progs).
Proof.
  intros s progs P. apply (plink_frame s); auto.
  - unfold pend, fork_state; cbn [s_thr]. rewrite map_app, concat_app.
    assert (E : concat (map (fun t => slabs_of (t_todo t)) (map (fun pr => mkThr (t_stk (nth 0 (s_thr s) dthr)) [] pr) progs)) = []).
    { induction progs as [|p ps IH]; cbn; auto. }
    rewrite E, app_nil_r. apply Permutation_refl.
  - unfold fork_state; cbn [s_heap]. rewrite bump_length. auto.
  - intros x Hx. unfold hobj, fork_state, get_obj; cbn [s_heap]. rewrite nth_overflow by (rewrite bump_length; lia). reflexivity.
  - intros x Hx. unfold hobj, fork_state, get_obj; cbn [s_heap]. rewrite bump_nth by auto. split; auto.
Qed.

End PoolLink.
