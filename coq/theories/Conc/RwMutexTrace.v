(* C18 -- "each release undoes exactly one acquire", stated on the observable trace only.  The tally of a thread is computed
   from the sequence of (label, output) pairs of an execution -- which call it began, which status each call returned -- with
   no reference to the model's state; the theorem says the lock's table agrees with that tally whenever the thread is outside
   a call.  (The ghost counters l_hro/l_hrw of the model are thereby shown to be this tally.) *)
From Coq Require Import List Arith Bool Lia.
Import ListNotations.
From Muscle Require Import Conc.RwMutexModel Conc.RwMutexProofs Conc.RwMutexInv Conc.RwMutexThms.

Record tally := mkT { t_cur : option op; t_ro : nat; t_rw : nat }.
Definition tally0 : tally := mkT None 0 0.

(* one observed event, seen from thread t *)
Definition tally_step (t : tid) (x : tally) (ev : label * sout) : tally :=
  match fst ev with
  | LBegin k o => if Nat.eqb k t then mkT (Some o) (t_ro x) (t_rw x) else x
  | LStep k _ =>
      if Nat.eqb k t then
        match o_ret (snd ev) with
        | Some SOk =>
            match t_cur x with
            | Some (OLockRO _) => mkT None (S (t_ro x)) (t_rw x)
            | Some (OLockRW _) => mkT None (t_ro x) (S (t_rw x))
            | Some OUnlockRO => mkT None (pred (t_ro x)) (t_rw x)
            | Some OUnlockRW => mkT None (t_ro x) (pred (t_rw x))
            | None => x
            end
        | Some _ => mkT None (t_ro x) (t_rw x)        (* a failed call (timed out / B_LOCK_FAILED) counts for nothing *)
        | None => x
        end
      else x
  | _ => x
  end.

Definition tally_of (t : tid) (tr : list (label * sout)) : tally := fold_left (tally_step t) tr tally0.

(* executions with their outputs *)
Inductive exec_from (pref : bool) : sys -> list (label * sout) -> sys -> Prop :=
| exec_nil : forall s, exec_from pref s [] s
| exec_snoc : forall s tr s1 lab o s2, exec_from pref s tr s1 -> sys_step pref s1 lab = Some (s2, o) ->
                exec_from pref s (tr ++ [(lab, o)]) s2.

Lemma exec_reachable : forall pref tr s, exec_from pref sys0 tr s -> reachable pref s.
Proof.
  intros pref tr s H. remember sys0 as s0. induction H; subst; [apply reach_init|]. eapply reach_step; eauto.
Qed.

Section P.
Variable pref : bool.

Lemma complete_ghost : forall l s l' r, complete l s = (l', r) ->
  match r with
  | Some st => l_op l' = None /\ l_hro l' = ghost_ro (l_op l) st (l_hro l) /\ l_hrw l' = ghost_rw (l_op l) st (l_hrw l)
  | None => l_op l' = l_op l /\ l_hro l' = l_hro l /\ l_hrw l' = l_hrw l
  end.
Proof.
  intros l s l' r H. unfold complete in H. destruct (finish (l_stk l) s) as [[a k]|s']; inversion H; subst; cbn; auto.
Qed.

Lemma step_ghost : forall t c g l g' l' o, step pref t c g l = Some (g', l', o) ->
  match o_ret o with
  | Some st => l_op l' = None /\ l_hro l' = ghost_ro (l_op l) st (l_hro l) /\ l_hrw l' = ghost_rw (l_op l) st (l_hrw l)
  | None => l_op l' = l_op l /\ l_hro l' = l_hro l /\ l_hrw l' = l_hrw l
  end.
Proof.
  intros t c g l g' l' o H. unfold step in H.
  assert (Hrun : forall x, run_cs pref t g l = Some x -> x = (g', l', o) ->
            match o_ret o with
            | Some st => l_op l' = None /\ l_hro l' = ghost_ro (l_op l) st (l_hro l) /\ l_hrw l' = ghost_rw (l_op l) st (l_hrw l)
            | None => l_op l' = l_op l /\ l_hro l' = l_hro l /\ l_hrw l' = l_hrw l
            end).
  { intros x Hx ->. unfold run_cs in Hx. destruct (cs pref t (l_act l) g) as [[[g1 ns] out]|]; [|discriminate].
    destruct out.
    - destruct (complete l s) as [l1 r1] eqn:Ec. inversion Hx; subst. cbn [o_ret]. apply (complete_ghost _ _ _ _ Ec).
    - inversion Hx; subst. cbn. auto.
    - inversion Hx; subst. cbn. auto. }
  destruct c.
  - destruct (l_act l) eqn:Ha; try (eapply Hrun; [exact H|reflexivity]).
    + destruct (find t (g_wr g)) as [[|n]|]; try discriminate. inversion H; subst. cbn. auto.
    + destruct (find t (g_ww g)) as [[|n]|]; try discriminate. inversion H; subst. cbn. auto.
  - destruct (l_act l); try discriminate; destruct d; try discriminate; inversion H; subst; cbn; auto.
Qed.

Definition agrees (x : tally) (l : loc) : Prop := t_cur x = l_op l /\ t_ro x = l_hro l /\ t_rw x = l_hrw l.

Lemma tally_agrees : forall tr s, exec_from pref sys0 tr s -> forall t, agrees (tally_of t tr) (s_l s t).
Proof.
  intros tr s H. remember sys0 as s0. induction H as [s|s tr s1 lab o s2 Hex IH Hs]; intros t; subst.
  - cbn. repeat split.
  - specialize (IH eq_refl). unfold tally_of in *. rewrite fold_left_app. cbn [fold_left].
    destruct (IH t) as (Hc & Hr & Hw). set (x := fold_left (tally_step t) tr tally0) in *.
    unfold tally_step. cbn [fst snd].
    destruct lab as [k op|k c|p]; cbn [sys_step] in Hs.
    + destruct (begin_op op (s_l s1 k)) as [l'|] eqn:Eb; [|discriminate]. inversion Hs; subst. cbn [s_l]. unfold upd.
      destruct (Nat.eqb t k) eqn:Ek; [apply Nat.eqb_eq in Ek; subst k; rewrite Nat.eqb_refl|rewrite Nat.eqb_sym, Ek; repeat split; auto].
      unfold begin_op in Eb. destruct (l_act (s_l s1 t)); try discriminate. destruct (l_stk (s_l s1 t)); try discriminate.
      inversion Eb; subst. cbn. repeat split; auto.
    + destruct (step pref k c (s_g s1) (s_l s1 k)) as [[[g' l'] o']|] eqn:Es; [|discriminate]. inversion Hs; subst. cbn [s_l]. unfold upd.
      destruct (Nat.eqb t k) eqn:Ek; [apply Nat.eqb_eq in Ek; subst k; rewrite Nat.eqb_refl|rewrite Nat.eqb_sym, Ek; repeat split; auto].
      pose proof (step_ghost _ _ _ _ _ _ _ Es) as Hg. destruct (o_ret o) as [st|].
      * destruct Hg as (Ho & H1 & H2). unfold agrees. rewrite Ho, H1, H2, <- Hc, <- Hr, <- Hw.
        destruct st; destruct (t_cur x) as [[d|d| |]|] eqn:Ecur; cbn; repeat split; auto; congruence.
      * destruct Hg as (Ho & H1 & H2). unfold agrees. rewrite Ho, H1, H2. repeat split; auto.
    + inversion Hs; subst. cbn [s_l]. repeat split; auto.
Qed.

(* rw_counts on the observable trace: after any execution, a thread that is outside a call has exactly the table entry its
   returned calls add up to, and is in no waiting table *)
Theorem counts_trace : forall tr s, exec_from pref sys0 tr s -> forall t, t_cur (tally_of t tr) = None ->
  find t (g_exec (s_g s)) = mk_ent (t_ro (tally_of t tr)) (t_rw (tally_of t tr)) /\
  memk t (g_wr (s_g s)) = false /\ memk t (g_ww (s_g s)) = false.
Proof.
  intros tr s Hex t Hc. destruct (tally_agrees tr s Hex t) as (H1 & H2 & H3). rewrite H2, H3.
  apply (counts_idle pref); [eapply exec_reachable; eauto|].
  destruct (inv_reachable pref s (exec_reachable pref tr s Hex)) as [_ Hl]. destruct (Hl t) as [Hwf _ _ _].
  rewrite Hc in H1. unfold wf in Hwf.
  destruct (l_stk (s_l s t)) as [|[n i d|n|n i lrw] [|]]; try contradiction.
  - destruct (l_act (s_l s t)); auto; try congruence; destruct Hwf as (Ho & _); congruence.
  - destruct Hwf as (_ & _ & _ & _ & Ho). congruence.
  - destruct Hwf as (_ & _ & _ & d & Ho & _). congruence.
  - destruct Hwf as (_ & _ & _ & _ & (d & Ho) & _). congruence.
Qed.

End P.

(* running a list of labels while collecting the outputs *)
Fixpoint runo (pref : bool) (labs : list label) (acc : list (label * sout)) (s : sys) : option (list (label * sout) * sys) :=
  match labs with
  | [] => Some (acc, s)
  | a :: r => match sys_step pref s a with Some (s', o) => runo pref r (acc ++ [(a, o)]) s' | None => None end
  end.

Lemma runo_exec : forall pref labs s0 acc s tr s', exec_from pref s0 acc s -> runo pref labs acc s = Some (tr, s') -> exec_from pref s0 tr s'.
Proof.
  induction labs as [|a r IH]; cbn [runo]; intros s0 acc s tr s' Hex H.
  - inversion H; subst. exact Hex.
  - destruct (sys_step pref s a) as [[s1 o]|] eqn:E; [|discriminate]. eapply IH; [|exact H]. eapply exec_snoc; eauto.
Qed.
