(* C10 -- preservation of [inv1] (part 4): creation of objects (heap extension, birth of an object
   that then receives its first reference), pool drain. *)
From Coq Require Import List Arith Bool Lia.
From Muscle Require Import Conc.Pool Conc.PoolProofs Conc.RefCnt Conc.RefInv Conc.RefExcl Conc.RefStep Conc.RefActs Conc.RefActs2 Conc.RefActs3.
Import ListNotations.
Local Open Scope nat_scope.

Ltac eqcase z o :=
  let Hne := fresh "Hne" in
  destruct (Nat.eq_dec z o) as [->|Hne];
  [ rewrite ?Nat.eqb_refl in *
  | let H1 := fresh "Hn1" in let H2 := fresh "Hn2" in
    assert (H1 : (z =? o) = false) by (apply Nat.eqb_neq; auto);
    assert (H2 : (o =? z) = false) by (apply Nat.eqb_neq; auto);
    rewrite ?H1, ?H2 in * ].

Section Acts4.
Variables N K : nat.

(* ------------------------------------------------------------------ extending the heap by objects nobody refers to *)

Definition inert (ob : obj) : Prop :=
  is_live ob = false /\ is_releasing ob = false /\ o_cnt ob = 0 /\ length (o_mem ob) = K /\ all_none (o_mem ob) = true /\
  o_births ob = o_deaths ob.

Lemma get_app_old : forall h new z, z < length h -> get_obj (h ++ new) z = get_obj h z.
Proof. intros. unfold get_obj. apply app_nth1; auto. Qed.

Lemma get_app_new : forall h new z, length h <= z -> get_obj (h ++ new) z = nth (z - length h) new dobj.
Proof. intros. unfold get_obj. apply app_nth2; auto. Qed.

Lemma get_beyond : forall h z, length h <= z -> get_obj h z = dobj.
Proof. intros. unfold get_obj. apply nth_overflow; auto. Qed.

Lemma inert_nth : forall new i, Forall inert new -> i < length new -> inert (nth i new dobj).
Proof. intros new i H Hi. rewrite Forall_forall in H. apply H. apply nth_In; auto. Qed.

Lemma append_core : forall s new p', inv1 K s -> Forall inert new ->
  inv1 K (mkSt (s_heap s ++ new) (s_thr s) p').
Proof.
  intros s new p' I Hnew. set (s' := mkSt (s_heap s ++ new) (s_thr s) p').
  assert (Hold : forall z, z < length (s_heap s) -> hobj s' z = hobj s z) by (intros; apply get_app_old; auto).
  assert (Hnewobj : forall z, length (s_heap s) <= z -> hobj s z = dobj /\ (hobj s' z = dobj \/ inert (hobj s' z))).
  { intros z Hz. split; [apply get_beyond; auto|]. unfold hobj, s'; cbn [s_heap]. rewrite get_app_new by auto.
    destruct (lt_dec (z - length (s_heap s)) (length new)) as [Hl|Hl].
    - right. apply inert_nth; auto.
    - left. apply nth_overflow. lia. }
  assert (Hlive : forall z, is_live (hobj s' z) = is_live (hobj s z)).
  { intros z. destruct (lt_dec z (length (s_heap s))) as [Hl|Hl]; [rewrite Hold; auto|].
    destruct (Hnewobj z) as (-> & [-> |(A & _)]); auto; lia. }
  assert (Hrelg : forall z, is_releasing (hobj s' z) = is_releasing (hobj s z)).
  { intros z. destruct (lt_dec z (length (s_heap s))) as [Hl|Hl]; [rewrite Hold; auto|].
    destruct (Hnewobj z) as (-> & [-> |(_ & A & _)]); auto; lia. }
  assert (Hcnt : forall z, o_cnt (hobj s' z) = o_cnt (hobj s z)).
  { intros z. destruct (lt_dec z (length (s_heap s))) as [Hl|Hl]; [rewrite Hold; auto|].
    destruct (Hnewobj z) as (-> & [-> |(_ & _ & A & _)]); auto; lia. }
  assert (Hunits : forall z, units z s' = units z s).
  { intros z. unfold units, s'; cbn [s_thr s_heap]. rewrite sumf_app.
    assert (sumf (obj_units z) new = 0); [|lia].
    apply sumf_zero. intros ob Hob. rewrite Forall_forall in Hnew. destruct (Hnew ob Hob) as (_ & _ & _ & _ & A & _).
    apply all_none_refs; auto. }
  assert (Hsame : forall u a, u < length (s_thr s) -> In a (t_todo (thr s u)) -> same_for s s' a).
  { intros u a Hu Hin. pose proof (i_acts K s I u a Hu Hin) as A.
    assert (Hheld : forall q i, nth i (t_stk (thr s u)) None = Some (q, true) -> hobj s' q = hobj s q).
    { intros q i Hq. destruct (held_live K s u i q I Hu Hq) as (Hl & _). apply Hold. apply live_lt; auto. }
    assert (Lloc : forall l, wloc_ok (s_heap s) (t_stk (thr s u)) l -> loc_same s s' l).
    { intros [i|q j] W; cbn in *; auto. destruct W as (_ & _ & (i & W)). rewrite (Hheld q i W). auto. }
    destruct a; cbn [same_for act_ok] in *; auto.
    - destruct src as [[i|q j]|]; cbn [src_same src_ok] in *.
      + exact Logic.I.
      + destruct A as (_ & (i & A)). rewrite (Hheld q i A). auto.
      + destruct A as (A1 & A2 & A3). rewrite Hlive, Hcnt, Hunits. auto.
    - destruct A; auto.
    - destruct A as (A & _). rewrite Hold; auto. apply releasing_lt; auto. }
  constructor.
  - intros z. rewrite Hunits, Hcnt. apply (i_count K s I).
  - intros z Hz. rewrite Hunits. apply (i_nolive K s I). rewrite <- Hlive; auto.
  - intros z Hz. unfold s' in Hz; cbn [s_heap] in Hz. rewrite app_length in Hz.
    destruct (lt_dec z (length (s_heap s))) as [Hl|Hl]; [rewrite Hold; auto; apply (i_mem K s I); auto|].
    assert (Hin : inert (hobj s' z)).
    { unfold hobj, s'; cbn [s_heap]. rewrite get_app_new by lia. apply inert_nth; auto; lia. }
    destruct Hin as (A1 & A2 & A3 & A4 & A5 & A6). split; auto. unfold quiet. destruct (o_st (hobj s' z)); auto.
  - intros u Hu. apply (i_shape K s I u Hu).
  - intros u a Hu Hin. eapply act_ok_transfer; [apply (Hsame u a Hu Hin)|]. apply (i_acts K s I u a Hu Hin).
  - intros z. rewrite Hrelg. apply (i_rels K s I z).
  - intros z Hz. unfold s' in Hz; cbn [s_heap] in Hz. rewrite app_length in Hz.
    destruct (lt_dec z (length (s_heap s))) as [Hl|Hl]; [rewrite Hold; auto; apply (i_ghost K s I); auto|].
    assert (Hin : inert (hobj s' z)).
    { unfold hobj, s'; cbn [s_heap]. rewrite get_app_new by lia. apply inert_nth; auto; lia. }
    destruct Hin as (A1 & A2 & A3 & A4 & A5 & A6). rewrite A6, A1. lia.
Qed.

(* ------------------------------------------------------------------ an object comes to life and is about to get its first reference *)

Lemma birth_core : forall s t stk todo prog prog' o l mid p',
  inv1 K s -> t < length (s_thr s) -> thr s t = mkThr stk todo prog ->
  (forall z, sumf (act_unit z) todo = 0) -> (forall z, sumf (act_debt z) todo = 0) -> (forall z, sumf (rel_count z) todo = 0) ->
  o < length (s_heap s) -> is_live (hobj s o) = false -> is_releasing (hobj s o) = false ->
  wloc_ok (s_heap s) stk l -> (mid = [] \/ mid = [ATake l]) ->
  inv1 K (with_thr s t (mkThr stk (AInc o None :: mid ++ [AStore l (Some (o, true))]) prog')
            (upd (s_heap s) o (born (hobj s o))) p').
Proof.
  intros s t stk todo prog prog' o l mid p' I Ht E Tu Td Tr Ho Hnl Hnr W Hmid.
  set (ob := hobj s o). set (acts := AInc o None :: mid ++ [AStore l (Some (o, true))]).
  set (h' := upd (s_heap s) o (born ob)).
  destruct (dead_cnt0 K s o I Hnl) as (Hc0 & Hd0). pose proof (i_nolive K s I o Hnl) as Hu0.
  assert (Hget : forall z, get_obj h' z = if z =? o then born ob else get_obj (s_heap s) z).
  { intros z. unfold h'. destruct (z =? o) eqn:Ez.
    - apply Nat.eqb_eq in Ez. subst z. apply get_upd_same; auto.
    - apply Nat.eqb_neq in Ez. apply get_upd_other; auto. }
  assert (Hau : forall z, sumf (act_unit z) acts = eq1 o z).
  { intros z. unfold acts. cbn [sumf act_unit]. rewrite sumf_app. unfold eq1. cbn. destruct Hmid as [-> | ->]; cbn; lia. }
  assert (Had : forall z, sumf (act_debt z) acts = eq1 o z).
  { intros z. unfold acts. cbn [sumf act_debt]. rewrite sumf_app. unfold eq1. cbn. destruct Hmid as [-> | ->]; cbn; lia. }
  assert (Har : forall z, sumf (rel_count z) acts = 0).
  { intros z. unfold acts. cbn [sumf rel_count]. rewrite sumf_app. unfold eq1. cbn. destruct Hmid as [-> | ->]; cbn; lia. }
  assert (Hunits : forall z, units z (with_thr s t (mkThr stk acts prog') h' p') = units z s + eq1 o z).
  { intros z. pose proof (wt_units s t (mkThr stk acts prog') h' p' z Ht) as HU.
    pose proof (heap_units_upd (s_heap s) o (born ob) z Ho) as HH. fold h' in HH.
    change (obj_units z (born ob)) with (obj_units z ob) in HH. change (get_obj (s_heap s) o) with ob in HH.
    rewrite E in HU. rewrite !tu_mk, Hau, Tu in HU. lia. }
  assert (Hdebts : forall z, debts z (with_thr s t (mkThr stk acts prog') h' p') = debts z s + eq1 o z).
  { intros z. pose proof (wt_debts s t (mkThr stk acts prog') h' p' z Ht) as HD. rewrite E in HD. rewrite !td_mk, Had, Td in HD. lia. }
  assert (Hq : forall q i, nth i stk None = Some (q, true) -> q <> o).
  { intros q i Hq ->. assert (Hq' : nth i (t_stk (thr s t)) None = Some (o, true)) by (rewrite E; auto).
    destruct (held_live K s t i o I Ht Hq'). congruence. }
  assert (Hwl : wloc_ok h' stk l).
  { destruct l as [i|q j]; cbn in W |- *; auto. destruct W as (W1 & W2 & (i & W3)).
    rewrite Hget. pose proof (Hq q i W3) as Hne. apply Nat.eqb_neq in Hne. rewrite Hne. eauto. }
  assert (Hns : not_self l (Some o)).
  { destruct l as [i|q j]; cbn in W |- *; auto. destruct W as (_ & _ & (i & W3)). intros Heq. inversion Heq; subst.
    eapply Hq; eauto. }
  apply assemble; [exact I|exact Ht|..].
  - intros z. rewrite Hunits, Hdebts, hobj_wt, Hget. pose proof (i_count K s I z) as HC. unfold hobj in HC.
    eqcase z o; [change (o_cnt (born ob)) with (o_cnt ob); change (get_obj (s_heap s) o) with ob in HC|]; lia.
  - intros z Hz. rewrite Hunits. rewrite hobj_wt, Hget in Hz. unfold eq1. eqcase z o; [discriminate|].
    rewrite (i_nolive K s I z Hz). lia.
  - intros z Hz. unfold h' in Hz. rewrite upd_length in Hz. rewrite hobj_wt, Hget. pose proof (i_mem K s I z Hz) as (M1 & M2).
    unfold hobj in *. eqcase z o; auto. split; [exact M1|exact Logic.I].
  - cbn [t_todo]. fold acts. unfold acts. destruct Hmid as [-> | ->]; [apply sh_inc1|apply sh_inc2].
  - cbn [t_todo t_stk]. fold acts. intros b Hin. unfold acts in Hin. destruct Hin as [<-|Hin].
    + cbn [act_ok src_ok]. rewrite hobj_wt, Hget, Nat.eqb_refl. split; [reflexivity|]. split; [exact Hc0|].
      fold acts. fold h'. rewrite Hunits. unfold eq1. rewrite Nat.eqb_refl. lia.
    + apply in_app_or in Hin. destruct Hin as [Hin|[<-|[]]].
      * destruct Hmid as [-> | ->]; [destruct Hin|]. destruct Hin as [<-|[]]. exact Hwl.
      * split; auto.
  - intros z. destruct (Nat.eq_dec z o) as [->|Hne].
    + left. right; right; right; right. split; auto. intros Hr. change (get_obj (s_heap s) o) with ob in Hnr. congruence.
    + right. rewrite hobj_wt, Hget. apply Nat.eqb_neq in Hne. rewrite Hne. auto.
  - intros y. right. rewrite hobj_wt, Hget. destruct (y =? o) eqn:Ey; auto. apply Nat.eqb_eq in Ey; subst y. reflexivity.
  - intros y Hy. rewrite hobj_wt, Hget. destruct (y =? o) eqn:Ey; auto. apply Nat.eqb_eq in Ey; subst y. reflexivity.
  - intros z. destruct (Nat.eq_dec z o) as [->|Hne].
    + left. right; right; right; right. split; auto. intros Hr. congruence.
    + right. rewrite E, !td_mk. fold acts. rewrite Had, Td. unfold eq1. apply not_eq_sym in Hne. apply Nat.eqb_neq in Hne. rewrite Hne. reflexivity.
  - intros z. pose proof (wt_rels s t (mkThr stk acts prog') h' p' z Ht) as HR. rewrite E in HR. cbn [t_todo] in HR.
    rewrite Har, Tr in HR. rewrite hobj_wt, Hget. pose proof (i_rels K s I z) as HI. unfold hobj in HI.
    eqcase z o; [|lia]. change (get_obj (s_heap s) o) with ob in HI. unfold hobj in Hnr. change (get_obj (s_heap s) o) with ob in Hnr. rewrite Hnr in HI. change (is_releasing (born ob)) with false. cbv iota in HI |- *. lia.
  - intros z Hz. unfold h' in Hz. rewrite upd_length in Hz. rewrite hobj_wt, Hget. pose proof (i_ghost K s I z Hz) as HG. unfold hobj in HG.
    eqcase z o; auto. change (get_obj (s_heap s) o) with ob in HG. unfold hobj in Hnl. change (get_obj (s_heap s) o) with ob in Hnl. rewrite Hnl in HG. cbn. lia.
Qed.

(* ------------------------------------------------------------------ ObtainObject, Drain *)

Lemma inv1_pool : forall s p', inv1 K s -> inv1 K (mkSt (s_heap s) (s_thr s) p').
Proof.
  intros s p' I. pose proof (append_core s [] p' I (Forall_nil _)) as H. rewrite app_nil_r in H. exact H.
Qed.

Lemma fresh_inert : forall pooled st, st = Pooled \/ st = Dead -> inert (fresh_obj K pooled st).
Proof.
  intros pooled st Hst. unfold inert, fresh_obj, is_live, is_releasing. cbn.
  rewrite repeat_length. repeat split; auto; try (destruct Hst as [-> | ->]; reflexivity).
  unfold all_none. apply forallb_forall. intros x Hx. apply repeat_spec in Hx. subst. reflexivity.
Qed.

Lemma single_rest : forall a rest, shape (a :: rest) -> single_ok a -> rest = [].
Proof.
  intros a rest H Ha. remember (a :: rest) as td eqn:Etd.
  destruct H as [fr Hf|fr l v Hf|q src l|q src l|l|l v|x Hx]; try (injection Etd as E1 E2; subst a; cbn in Ha; tauto).
  - rewrite Etd in Hf. cbn in Hf. apply andb_true_iff in Hf. destruct Hf as (Hf & _). destruct a; cbn in Ha, Hf; try tauto; discriminate.
  - destruct fr as [|f fr]; cbn in Etd; injection Etd as E1 E2; subst a; [cbn in Ha; tauto|].
    cbn in Hf. apply andb_true_iff in Hf. destruct Hf as (Hf & _). destruct f; cbn in Ha, Hf; try tauto; discriminate.
  - injection Etd as E1 E2. auto.
Qed.

(* the actions SetRef(o, true) expands to when o is a brand-new / just obtained object *)
Lemma setref_fresh : forall l cur o, cur <> Some (o, true) ->
  exists mid, setref_acts l cur (Some o) true None = AInc o None :: mid ++ [AStore l (Some (o, true))] /\ (mid = [] \/ mid = [ATake l]).
Proof.
  intros l cur o Hne. unfold setref_acts. destruct (opt_eqb (ptr cur) (Some o)) eqn:Ep.
  - destruct cur as [[q c]|]; cbn in Ep; [|discriminate]. apply Nat.eqb_eq in Ep. subst q.
    destruct c; [congruence|]. cbn. exists []. auto.
  - unfold take_acts. destruct cur as [[q [|]]|]; cbn.
    + exists [ATake l]. auto.
    + exists []. auto.
    + exists []. auto.
Qed.

Lemma act_poolobt : forall s t stk l rest prog, ctx K s t stk (APoolObt l) rest prog ->
  forall h' stk' todo' p' ev, do_act N K (s_heap s) (s_pool s) stk (APoolObt l) rest = (h', stk', todo', p', ev) ->
  inv1 K (with_thr s t (mkThr stk' todo' prog) h' p') /\ bad124 ev = false.
Proof.
  intros s t stk l rest prog C h' stk' todo' p' ev Hdo. pose proof C as [I Ht E].
  pose proof (single_rest _ _ (ctx_shape K _ _ _ _ _ _ C) Logic.I) as ->.
  cbn [do_act] in Hdo. destruct (pool_obtain N (length (s_heap s)) (s_pool s)) as [[p2 o] created] eqn:Hobt.
  set (h1 := match created with Some _ => s_heap s ++ repeat (fresh_obj K true Pooled) N | None => s_heap s end) in *.
  assert (I1 : inv1 K (mkSt h1 (s_thr s) p2)).
  { unfold h1. destruct created.
    - apply append_core; auto. apply Forall_forall. intros x Hx. apply repeat_spec in Hx. subst. apply fresh_inert; auto.
    - apply inv1_pool; auto. }
  set (s1 := mkSt h1 (s_thr s) p2) in *.
  assert (E1 : thr s1 t = mkThr stk [APoolObt l] prog) by exact E.
  assert (W1 : wloc_ok h1 stk l).
  { pose proof (i_acts K s1 I1 t (APoolObt l) Ht) as A. rewrite E1 in A. apply A. left; auto. }
  destruct (is_pooled_st (get_obj h1 o) && is_default (get_obj h1 o)) eqn:Hok.
  - inversion Hdo; subst; clear Hdo. split; [|reflexivity].
    apply andb_true_iff in Hok. destruct Hok as (Hp & Hdf).
    assert (Ho : o < length h1).
    { destruct (lt_dec o (length h1)); auto. unfold get_obj in Hp. rewrite nth_overflow in Hp by lia. discriminate. }
    assert (Hnl : is_live (hobj s1 o) = false) by (unfold hobj, is_live, is_pooled_st in *; cbn [s_heap s1]; destruct (o_st (get_obj h1 o)); auto; discriminate).
    assert (Hnr : is_releasing (hobj s1 o) = false) by (unfold hobj, is_releasing, is_pooled_st in *; cbn [s_heap s1]; destruct (o_st (get_obj h1 o)); auto; discriminate).
    assert (Hcur : read_slot h1 stk' l <> Some (o, true)).
    { intros Hc. destruct l as [i|q j]; cbn in Hc.
      - assert (Hc' : nth i (t_stk (thr s1 t)) None = Some (o, true)) by (rewrite E1; auto).
        destruct (held_live K s1 t i o I1 Ht Hc'). congruence.
      - destruct (member_live K s1 q j o I1 Hc). congruence. }
    change (if opt_eqb (ptr (read_slot h1 stk' l)) (Some o)
           then if counting (read_slot h1 stk' l) then [] else [AInc o None; AStore l (Some (o, true))]
           else AInc o None :: take_acts l (read_slot h1 stk' l) ++ [AStore l (Some (o, true))])
      with (setref_acts l (read_slot h1 stk' l) (Some o) true None).
    destruct (setref_fresh l _ o Hcur) as (mid & -> & Hmid). rewrite app_nil_r.
    apply (birth_core s1 t stk' [APoolObt l] prog prog o l mid p'); auto.
  - inversion Hdo; subst; clear Hdo. split; [|reflexivity].
    apply (todo_core K s1 t stk' [APoolObt l] prog [] prog (fun _ => 0)); auto.
    + intros z Hz. lia.
    + apply (sh_frames []). reflexivity.
    + intros b [].
Qed.

Lemma act_drain : forall s t stk rest prog, ctx K s t stk ADrain rest prog ->
  forall h' stk' todo' p' ev, do_act N K (s_heap s) (s_pool s) stk ADrain rest = (h', stk', todo', p', ev) ->
  inv1 K (with_thr s t (mkThr stk' todo' prog) h' p') /\ bad124 ev = false.
Proof.
  intros s t stk rest prog C h' stk' todo' p' ev Hdo. pose proof C as [I Ht E].
  pose proof (single_rest _ _ (ctx_shape K _ _ _ _ _ _ C) Logic.I) as ->.
  cbn [do_act] in Hdo. destruct (pool_drain N (s_pool s)) as [p2 dels] eqn:Hdr.
  inversion Hdo; subst; clear Hdo. split; [|reflexivity]. rewrite app_nil_r.
  assert (Hf : forallb is_frame (map ASlabDel dels) = true).
  { apply forallb_forall. intros x Hx. apply in_map_iff in Hx. destruct Hx as (sd & <- & _). reflexivity. }
  assert (Hz : forall z, sumf (act_unit z) (map ASlabDel dels) = 0 /\ sumf (act_debt z) (map ASlabDel dels) = 0 /\ sumf (rel_count z) (map ASlabDel dels) = 0).
  { intros z. clear Hdr Hf. induction dels as [|d ds IH]; cbn; auto. }
  apply (todo_core K s t stk' [ADrain] prog (map ASlabDel dels) prog (fun _ => 0)); auto.
  - intros z. destruct (Hz z) as (-> & _). reflexivity.
  - intros z. destruct (Hz z) as (_ & -> & _). reflexivity.
  - intros z Hz0. lia.
  - intros z. destruct (Hz z) as (_ & _ & ->). reflexivity.
  - apply sh_frames; auto.
  - intros b Hb. apply in_map_iff in Hb. destruct Hb as (sd & <- & _). exact Logic.I.
Qed.

End Acts4.
