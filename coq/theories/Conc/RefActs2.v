(* C10 -- preservation of [inv1] by each kind of atomic action (part 2: decrements and the
   start of a release). *)
From Coq Require Import List Arith Bool Lia.
From Muscle Require Import Conc.Pool Conc.PoolProofs Conc.RefCnt Conc.RefInv Conc.RefExcl Conc.RefStep Conc.RefActs.
Import ListNotations.
Local Open Scope nat_scope.

Ltac eqcase z o :=
  let Hne := fresh "Hne" in
  destruct (Nat.eq_dec z o) as [->|Hne];
  [ rewrite ?Nat.eqb_refl in *
  | let H1 := fresh "Hn1" in let H2 := fresh "Hn2" in
    assert (H1 : (z =? o) = false) by (apply Nat.eqb_neq; auto);
    assert (H2 : (o =? z) = false) by (apply Nat.eqb_neq; auto);
    rewrite ?H1, ?H2 in * ].

Section Acts2.
Variables N K : nat.

Lemma frame_head : forall a rest, shape (a :: rest) -> is_frame a = true ->
  (forall z, sumf (act_debt z) (a :: rest) = 0) /\
  (forall pre, forallb is_frame pre = true -> shape (pre ++ rest)).
Proof.
  intros a rest H Ha. remember (a :: rest) as td eqn:Etd.
  destruct H as [fr Hf|fr l v Hf|q src l|q src l|l|l v|x Hx];
    try (injection Etd as E1 E2; subst a; cbn in Ha; discriminate).
  - split.
    + intros z. apply frames_no_debt; auto.
    + intros pre Hp. apply sh_frames. rewrite forallb_app, Hp. rewrite Etd in Hf. cbn in Hf. apply andb_true_iff in Hf. cbn. tauto.
  - destruct fr as [|f fr]; cbn in Etd; injection Etd as E1 E2; subst a rest; [cbn in Ha; discriminate|].
    split.
    + intros z. change (f :: fr ++ [AStore l v]) with ((f :: fr) ++ [AStore l v]). rewrite sumf_app, (frames_no_debt z _ Hf). reflexivity.
    + intros pre Hp. rewrite app_assoc. apply sh_store. rewrite forallb_app, Hp. cbn in Hf. apply andb_true_iff in Hf. cbn. tauto.
  - injection Etd as E1 E2; subst a. destruct x; cbn in Hx, Ha; try tauto; discriminate.
Qed.

Lemma debt_in : forall z todo, 0 < sumf (act_debt z) todo -> exists src, In (AInc z src) todo.
Proof.
  induction todo as [|a todo IH]; cbn; intros H; [lia|].
  destruct (act_debt z a) eqn:Ea.
  - destruct IH as (src & Hs); [lia|]. exists src; auto.
  - destruct a; cbn in Ea; try discriminate. unfold eq1 in Ea. destruct (o =? z) eqn:Eo; [|discriminate].
    apply Nat.eqb_eq in Eo; subst. exists src; auto.
Qed.

(* nobody is about to increment an object that has a positive count but no counting slot *)
Lemma debts_zero : forall s q, inv1 K s -> slots q s = 0 -> 1 <= o_cnt (hobj s q) -> debts q s = 0.
Proof.
  intros s q I Hs Hc. unfold debts. apply sumf_zero. intros th Hin.
  apply In_nth with (d := dthr) in Hin. destruct Hin as (u & Hu & Eu).
  destruct (thr_debts q th) eqn:Ed; auto. exfalso.
  destruct (debt_in q (t_todo th)) as (src & Hsrc); [unfold thr_debts in Ed; lia|].
  assert (A : act_ok s (t_stk (thr s u)) (AInc q src)) by (apply (i_acts K s I u); auto; unfold thr; rewrite Eu; auto).
  cbn in A. destruct src as [[i|y j]|]; cbn in A.
  - pose proof (stk_slot s u i q Hu A). lia.
  - destruct A as (A & _). pose proof (mem_slot s y j q A). lia.
  - lia.
Qed.

Lemma dec_core : forall s t stk a rest prog q (zero : bool),
  ctx K s t stk a rest prog ->
  (a = ADec q \/ (a = ADecKeep q /\ zero = false)) ->
  (zero = true <-> o_cnt (hobj s q) = 1 /\ a = ADec q) ->
  let ob := hobj s q in
  is_live ob = true /\ 1 <= o_cnt ob /\
  inv1 K (with_thr s t (mkThr stk ((if zero then [ARel q 0] else []) ++ rest) prog)
            (upd (s_heap s) q (if zero then dying (set_cnt ob 0) else set_cnt ob (o_cnt ob - 1))) (s_pool s)).
Proof.
  intros s t stk a rest prog q zero C Ha Hzero ob.
  unfold hobj in ob. assert (Eob : get_obj (s_heap s) q = ob) by reflexivity. clearbody ob.
  unfold hobj in Hzero. rewrite Eob in Hzero.
  pose proof (ctx_shape K _ _ _ _ _ _ C) as Hsh.
  pose proof C as [I Ht E].
  assert (Hfa : is_frame a = true) by (destruct Ha as [->|(-> & _)]; reflexivity).
  assert (Hua : forall z, act_unit z a = eq1 q z) by (intros z; destruct Ha as [->|(-> & _)]; reflexivity).
  assert (Hda : forall z, act_debt z a = 0) by (intros z; destruct Ha as [->|(-> & _)]; reflexivity).
  assert (Hra : forall z, rel_count z a = 0) by (intros z; destruct Ha as [->|(-> & _)]; reflexivity).
  destruct (frame_head a rest Hsh Hfa) as (Hnodebt & Hshape).
  assert (Hnet : 1 <= net q (thr s t)).
  { unfold net. rewrite E. cbn [t_todo]. rewrite (Hnodebt q). cbn [sumf]. rewrite Hua. unfold eq1. rewrite Nat.eqb_refl. lia. }
  assert (Hunits1 : 1 <= units q s) by (eapply net_units; eauto).
  assert (Hlive : is_live ob = true) by (rewrite <- Eob; apply (live_of_units K); auto).
  pose proof (count_bound K s q I) as HCB. pose proof (net_le_sum s q t Ht) as HNL.
  unfold hobj in HCB. rewrite Eob in HCB.
  assert (Hcnt1 : 1 <= o_cnt ob) by lia.
  assert (Hcnt1' : 1 <= o_cnt (hobj s q)) by (unfold hobj; rewrite Eob; exact Hcnt1).
  split; auto. split; auto.
  assert (Hlt : q < length (s_heap s)) by (apply live_lt; rewrite Eob; auto).
  set (ob' := if zero then dying (set_cnt ob 0) else set_cnt ob (o_cnt ob - 1)).
  set (pre := if zero then [ARel q 0] else []).
  set (h' := upd (s_heap s) q ob').
  assert (Hob' : o_mem ob' = o_mem ob /\ o_pooled ob' = o_pooled ob /\ o_cnt ob' = o_cnt ob - 1 /\
                 o_st ob' = (if zero then Releasing else Live) /\ o_births ob' = o_births ob /\
                 o_deaths ob' = (if zero then S (o_deaths ob) else o_deaths ob)).
  { unfold ob'. destruct zero; cbn; repeat split; auto.
    - destruct Hzero as (Hz & _). destruct (Hz eq_refl) as (Hz1 & _). rewrite ?Eob in Hz1. lia.
    - unfold is_live in Hlive. destruct (o_st ob); auto; discriminate. }
  destruct Hob' as (Om & Op & Oc & Os & Ob & Od).
  assert (Hget : forall z, get_obj h' z = if z =? q then ob' else get_obj (s_heap s) z).
  { intros z. unfold h'. destruct (z =? q) eqn:Ez.
    - apply Nat.eqb_eq in Ez. subst z. apply get_upd_same; auto.
    - apply Nat.eqb_neq in Ez. apply get_upd_other; auto. }
  assert (Hpre_u : forall z, sumf (act_unit z) pre = 0) by (intros; unfold pre; destruct zero; reflexivity).
  assert (Hpre_d : forall z, sumf (act_debt z) pre = 0) by (intros; unfold pre; destruct zero; reflexivity).
  assert (Hpre_r : forall z, sumf (rel_count z) pre = if zero then eq1 q z else 0).
  { intros; unfold pre; destruct zero; cbn; lia. }
  assert (Hunits : forall z, units z (with_thr s t (mkThr stk (pre ++ rest) prog) h' (s_pool s)) + eq1 q z = units z s).
  { intros z. pose proof (wt_units s t (mkThr stk (pre ++ rest) prog) h' (s_pool s) z Ht) as HU.
    pose proof (heap_units_upd (s_heap s) q ob' z Hlt) as HH. fold h' in HH.
    change (obj_units z ob') with (refs_in z (o_mem ob')) in HH. rewrite Om in HH.
    rewrite Eob in HH. change (obj_units z ob) with (refs_in z (o_mem ob)) in HH.
    rewrite E in HU. rewrite tu_cons, tu_mk, sumf_app, Hpre_u, Hua in HU. lia. }
  assert (Hdebts : forall z, debts z (with_thr s t (mkThr stk (pre ++ rest) prog) h' (s_pool s)) = debts z s).
  { intros z. pose proof (wt_debts s t (mkThr stk (pre ++ rest) prog) h' (s_pool s) z Ht) as HD.
    rewrite E in HD. rewrite td_cons, td_mk, sumf_app, Hpre_d, Hda in HD. lia. }
  (* an object private to t cannot be q *)
  assert (Hpriv : forall y i, nth i stk None = Some (y, true) -> o_cnt (hobj s y) = 1 -> y <> q).
  { intros y i Hy Hc1 ->. assert (Hy' : nth i (t_stk (thr s t)) None = Some (q, true)) by (rewrite E; auto).
    pose proof (private_no_net K s t i q I Ht Hy' Hc1 t Ht). lia. }
  apply assemble; [exact I|exact Ht|..].
  - intros z. rewrite hobj_wt, Hget. pose proof (Hunits z) as HU. rewrite Hdebts. pose proof (i_count K s I z) as HC.
    unfold hobj in HC. unfold eq1 in HU. eqcase z q; [rewrite ?Eob in HC; rewrite Oc|]; lia.
  - intros z Hz. rewrite hobj_wt, Hget in Hz. pose proof (Hunits z) as HU. unfold eq1 in HU. eqcase z q.
    + (* q itself: it is no longer live only when the count reached zero *)
      unfold is_live in Hz. rewrite Os in Hz. destruct zero; [|discriminate].
      destruct Hzero as (Hz1 & _). destruct (Hz1 eq_refl) as (Hone & _). rewrite ?Eob in Hone.
      assert (Hsl : slots q s = 0) by lia.
      pose proof (debts_zero s q I Hsl Hcnt1'). pose proof (i_count K s I q) as HCq. unfold hobj in HCq. rewrite Eob in HCq. lia.
    + pose proof (i_nolive K s I z Hz). lia.
  - intros z Hz. unfold h' in Hz. rewrite upd_length in Hz. rewrite hobj_wt, Hget. pose proof (i_mem K s I z Hz) as (M1 & M2).
    unfold hobj in *. eqcase z q; auto. rewrite ?Eob in M1, M2. rewrite Om. split; auto. unfold quiet. rewrite Os. destruct zero; auto.
  - cbn [t_todo]. apply Hshape. unfold pre. destruct zero; reflexivity.
  - (* own pending actions *)
    cbn [t_todo t_stk]. intros b Hin. apply in_app_or in Hin. destruct Hin as [Hin|Hin].
    + unfold pre in Hin. destruct zero; [|destruct Hin]. destruct Hin as [<-|[]]. cbn [act_ok]. rewrite hobj_wt, Hget, Nat.eqb_refl.
      unfold is_releasing. rewrite Os. split; auto. split; [lia|]. intros m Hm. lia.
    + pose proof (ctx_act K _ _ _ _ _ _ b C (or_intror Hin)) as A.
      eapply act_ok_transfer; [|exact A].
      destruct (rest_kinds a rest Hsh b Hin) as [Hf|[(l' & v' & ->)|(l' & ->)]].
      * destruct b; cbn in Hf; try discriminate; cbn [same_for]; auto. rewrite !hobj_wt, Hget.
        destruct (o =? q) eqn:Eo; auto. apply Nat.eqb_eq in Eo. subst o. exfalso.
        cbn in A. destruct A as (A & _). unfold is_live, is_releasing, hobj in *. rewrite Eob in A. destruct (o_st ob); discriminate.
      * cbn [same_for]. destruct l' as [i|y j]; cbn [loc_same]; auto. rewrite !hobj_wt, Hget. cbn in A. destruct A as ((A1 & A2 & (i & A3)) & _).
        destruct (y =? q) eqn:Ey; auto. apply Nat.eqb_eq in Ey. exfalso. eapply Hpriv; eauto.
      * cbn [same_for]. destruct l' as [i|y j]; cbn [loc_same]; auto. rewrite !hobj_wt, Hget. cbn in A. destruct A as (A1 & A2 & (i & A3)).
        destruct (y =? q) eqn:Ey; auto. apply Nat.eqb_eq in Ey. exfalso. eapply Hpriv; eauto.
  - intros z. destruct (Nat.eq_dec z q) as [->|Hne]; [left; right; right; left; exact Hnet|right].
    rewrite hobj_wt, Hget. apply Nat.eqb_neq in Hne. rewrite Hne. auto.
  - intros y. right. rewrite hobj_wt, Hget. destruct (y =? q) eqn:Ey; auto. apply Nat.eqb_eq in Ey; subst y. unfold hobj. rewrite Eob. exact Om.
  - intros y Hy. rewrite hobj_wt, Hget. destruct (y =? q) eqn:Ey; auto. apply Nat.eqb_eq in Ey; subst y. unfold hobj. rewrite Eob, Om. reflexivity.
  - intros z. right. rewrite E, td_cons, td_mk, sumf_app, Hpre_d, Hda. lia.
  - intros z. pose proof (wt_rels s t (mkThr stk (pre ++ rest) prog) h' (s_pool s) z Ht) as HR. rewrite E in HR. cbn [t_todo] in HR.
    rewrite rc_cons, sumf_app, Hpre_r, Hra in HR. rewrite hobj_wt, Hget. pose proof (i_rels K s I z) as HI. unfold hobj in HI.
    unfold eq1 in HR. eqcase z q.
    + rewrite ?Eob in HI. unfold is_releasing in *. rewrite Os. unfold is_live in Hlive. destruct (o_st ob); try discriminate. destruct zero; lia.
    + destruct zero; lia.
  - intros z Hz. unfold h' in Hz. rewrite upd_length in Hz. rewrite hobj_wt, Hget. pose proof (i_ghost K s I z Hz) as HG. unfold hobj in HG.
    eqcase z q; auto. rewrite ?Eob in HG. rewrite Ob, Od. unfold is_live in *. rewrite Os. rewrite Hlive in HG. destruct zero; lia.
Qed.

Lemma act_dec : forall s t stk q rest prog, ctx K s t stk (ADec q) rest prog ->
  forall h' stk' todo' p' ev, do_act N K (s_heap s) (s_pool s) stk (ADec q) rest = (h', stk', todo', p', ev) ->
  inv1 K (with_thr s t (mkThr stk' todo' prog) h' p') /\ bad124 ev = false.
Proof.
  intros s t stk q rest prog C h' stk' todo' p' ev Hdo.
  set (zero := o_cnt (hobj s q) =? 1).
  destruct (dec_core s t stk (ADec q) rest prog q zero C (or_introl eq_refl)) as (Hlive & Hcnt & HI).
  { unfold zero. rewrite Nat.eqb_eq. tauto. }
  cbn in Hdo. unfold dec_obj in Hdo. unfold hobj in Hlive, Hcnt. rewrite Hlive in Hdo.
  assert (Hpos : (0 <? o_cnt (get_obj (s_heap s) q)) = true) by (apply Nat.ltb_lt; lia).
  rewrite Hpos in Hdo. cbn [andb] in Hdo.
  assert (Ez : (o_cnt (get_obj (s_heap s) q) - 1 =? 0) = zero).
  { unfold zero, hobj. destruct (o_cnt (get_obj (s_heap s) q) =? 1) eqn:E1.
    - apply Nat.eqb_eq in E1. rewrite E1. reflexivity.
    - apply Nat.eqb_neq in E1. apply Nat.eqb_neq. lia. }
  rewrite Ez in Hdo. unfold hobj in HI. destruct zero; inversion Hdo; subst; clear Hdo; split; auto.
Qed.

Lemma act_deckeep : forall s t stk q rest prog, ctx K s t stk (ADecKeep q) rest prog ->
  forall h' stk' todo' p' ev, do_act N K (s_heap s) (s_pool s) stk (ADecKeep q) rest = (h', stk', todo', p', ev) ->
  inv1 K (with_thr s t (mkThr stk' todo' prog) h' p') /\ bad124 ev = false.
Proof.
  intros s t stk q rest prog C h' stk' todo' p' ev Hdo.
  destruct (dec_core s t stk (ADecKeep q) rest prog q false C (or_intror (conj eq_refl eq_refl))) as (Hlive & Hcnt & HI).
  { split; [discriminate|]. intros (_ & H); discriminate. }
  cbn in Hdo. unfold dec_keep in Hdo. unfold hobj in Hlive, Hcnt. rewrite Hlive in Hdo.
  assert (Hpos : (0 <? o_cnt (get_obj (s_heap s) q)) = true) by (apply Nat.ltb_lt; lia).
  rewrite Hpos in Hdo. cbn [andb] in Hdo. unfold hobj in HI. inversion Hdo; subst; clear Hdo; split; auto.
Qed.

End Acts2.
