(* C11 -- "can always complete": from every reachable state in which the internal thread is alive there is a finite
   continuation, made of steps of the internal thread and of threads that owe it a signal only, at whose end the thread
   has finished or has received everything that was queued for it and sits in its blocking wait.  Consequences: every
   queued Message can be delivered, and a shutdown (NULL Message queued) can always run to completion -- no reachable
   state is a trap.  (The safety-form theorems of ThreadQProofs say a step is enabled; this says the steps lead
   somewhere, by a measure that every such step decreases.)  StartInternalThread as repaired.
   Premise [Hnoself]: the subclass's MessageReceivedFromOwner sends replies only, no Messages to the internal thread
   itself -- a thread that keeps feeding its own queue need never drain it. *)
From Coq Require Import List Arith Bool Lia NArith.
From Muscle Require Import Conc.ThreadQ Conc.ThreadQWf Conc.ThreadQWake Conc.ThreadQProofs.
Import ListNotations.

Ltac inv H := inversion H; subst; clear H.

Section Progress.
Variable absorb_n : nat.
Variable no_limit : N.
Variable react : nat -> list (chanid * msg) * bool.
Hypothesis Hnl : (0 < no_limit)%N.
Hypothesis Hnoself : forall x, Forall (fun cm => fst cm = CO) (fst (react x)).
Variables smode emode : bool.

Notation Step := (Step false absorb_n no_limit react).
Notation step := (step false absorb_n no_limit react).
Notation sys_step := (sys_step false absorb_n no_limit react).
Notation R := (reachable_if false absorb_n no_limit react any_label smode emode).

(* ---------- the measure ---------- *)

Definition rsn (x : nat) : nat := length (fst (react x)).
Definition quits (x : nat) : bool := snd (react x).

(* steps the internal thread needs, from the top of WaitForNextMessageAux(w), to work through the queue q *)
Fixpoint go (evd : bool) (w : ThreadQ.wake) (q : list msg) : nat :=
  match q with
  | [] => if evd then 2 else match w with WPoll => 6 | _ => 2 end
  | None :: _ => 4
  | Some x :: r => 3 + 2 * rsn x + (if quits x then 1 else 1 + go evd (if evd then WPoll else WNever) r)
  end.

Definition final (evd quit : bool) (q : list msg) : nat :=
  if quit then 1 else 1 + go evd (if evd then WPoll else WNever) q.

Definition wloop (evd : bool) (q : list msg) : nat := if evd then 4 + go evd WPoll q else 1 + go evd WNever q.

Definition W (sockets evd : bool) (l : local) (q : list msg) : nat :=
  match l_pc l, l_k l with
  | PIExit, _ => 1
  | PRecvAbsorb CI w, _ => go evd w q
  | PRecvCS CI w, _ => go evd w q - 1
  | PRecvGot CI None _, _ => 2
  | PRecvGot CI (Some x) _, _ => 1 + 2 * rsn x + final evd (quits x) q
  | PSendCS CO _, [KReplies rs qt] => 2 + 2 * length rs + final evd qt q
  | PSendSig CO _, [KReplies rs qt] => 1 + 2 * length rs + final evd qt q
  | PILoop, _ => wloop evd q
  | PIAfterStartup, _ => 1 + wloop evd q
  | PIStartupCS, _ => 2 + wloop evd q
  | PIEntry, _ => 3 + wloop evd q
  | PIEvPoll, _ => 1 + go evd WPoll q
  | PIEvWait, _ => 2 + go evd WPoll q
  | PIEvLoop, _ => 3 + go evd WPoll q
  | PRecvNone CI WPoll, _ => if evd then 4 + go evd WPoll q else 2 + go evd WNever q
  | PRecvNone CI w, _ => 2 + go evd (if sockets then WPoll else w) q
  | PRecvPark CI w, _ => 1 + go evd (if sockets then WPoll else w) q
  | _, _ => 0
  end.

(* how far StartInternalThread is from having signalled *)
Definition odist (p : pc) : nat := match p with PStartSpawned => 3 | PStartCheck => 2 | _ => 1 end.

Definition pen (s : sys) : nat :=
  if will_look (g_evd (s_g s)) (l_pc (g_il (s_g s))) then 0
  else if readable (s_g s) CI then 0 else odist (l_pc (s_l s 0)).

Definition mu (s : sys) : nat :=
  W (g_sockets (s_g s)) (g_evd (s_g s)) (g_il (s_g s)) (c_q (g_ci (s_g s))) + pen s.

Lemma go_ge2 : forall evd w q, 2 <= go evd w q.
Proof. intros evd w q. destruct q as [|[x|] r]; simpl; [destruct evd, w; lia | lia | lia]. Qed.

(* ---------- continuations made of helper steps ---------- *)

(* the internal thread, or a thread that owes it a signal *)
Definition helper (s : sys) (lab : label) : Prop :=
  lab = LStep I CRun \/ exists t, lab = LStep (U t) CRun /\ is_pend_i (l_pc (s_l s t)) = true.

Inductive canreach (P : sys -> Prop) : sys -> Prop :=
| cr_here : forall s, P s -> canreach P s
| cr_step : forall s lab s' ev, helper s lab -> sys_step s lab = Some (s', ev) -> canreach P s' -> canreach P s.

Lemma canreach_weaken : forall (P Q : sys -> Prop) s, (forall x, P x -> Q x) -> canreach P s -> canreach Q s.
Proof. intros P Q s H C. induction C; [apply cr_here; auto | eapply cr_step; eauto]. Qed.

Lemma canreach_steps : forall P s, canreach P s -> exists s', steps_if false absorb_n no_limit react any_label s s' /\ P s'.
Proof.
  intros P s C. induction C.
  - exists s. split; [apply steps_refl | assumption].
  - destruct IHC as (s2 & St & Ps). exists s2. split; [eapply steps_cons; eauto; reflexivity | assumption].
Qed.

(* the state the continuation ends in: the thread has finished, or has nothing left to receive and is about to block *)
Definition drained (s : sys) : Prop :=
  g_ist (s_g s) = IExited \/
  (g_ist (s_g s) = ILive /\ c_q (g_ci (s_g s)) = [] /\ will_look (g_evd (s_g s)) (l_pc (g_il (s_g s))) = false).

Lemma pen_zero : forall s, will_look (g_evd (s_g s)) (l_pc (g_il (s_g s))) = true -> pen s = 0.
Proof. intros s H. unfold pen. rewrite H. reflexivity. Qed.

Lemma pen_mono : forall s s',
  will_look (g_evd (s_g s)) (l_pc (g_il (s_g s))) = false ->
  (readable (s_g s) CI = true -> readable (s_g s') CI = true) ->
  l_pc (s_l s' 0) = l_pc (s_l s 0) -> pen s' <= pen s.
Proof.
  intros s s' Hw Hr Hp. unfold pen. rewrite Hw, Hp.
  destruct (will_look (g_evd (s_g s')) (l_pc (g_il (s_g s')))); [lia|].
  destruct (readable (s_g s) CI) eqn:E; [rewrite Hr by reflexivity; lia|].
  destruct (readable (s_g s') CI); lia.
Qed.

Ltac destr_k k := destruct k as [|[] [|? ?]]; try contradiction.

Ltac sig_frame Hs :=
  let F := fresh "F" in pose proof (signal_frame _ _ _ _ _ Hs) as F;
  destruct F as (F1 & F2 & F3 & F4 & F5 & F6 & F7 & F8 & F9 & F10 & F11 & F12).

Definition all_co (rs : list (chanid * msg)) : Prop := Forall (fun cm => fst cm = CO) rs.

(* the internal thread is sending replies only *)
Definition replies_only (l : local) : Prop :=
  match l_pc l, l_k l with
  | PSendCS c _, [KReplies rs _] | PSendSig c _, [KReplies rs _] => c = CO /\ all_co rs
  | _, _ => True
  end.

Lemma next_reply_ro : forall evd rs qt p k' e', all_co rs -> next_reply evd rs qt [] = (p, k', e') -> replies_only (mkL p k').
Proof.
  intros evd rs qt p k' e' F H. unfold next_reply in H. destruct rs as [|[c m] rest]; inv H.
  - destruct qt; [|destruct evd]; exact Coq.Init.Logic.I.
  - inversion F; subst. unfold replies_only. simpl in *. auto.
Qed.

Lemma W_next_reply : forall sk evd rs qt p k' e' q, all_co rs ->
  next_reply evd rs qt [] = (p, k', e') -> W sk evd (mkL p k') q < 1 + 2 * length rs + final evd qt q.
Proof.
  intros sk evd rs qt p k' e' q F H. unfold next_reply in H. destruct rs as [|[c m] rest]; inv H.
  - destruct qt, evd; unfold final, W, wloop; simpl; lia.
  - inversion F; subst. simpl in *. subst c. unfold W. simpl. lia.
Qed.

Lemma dispatch_ro : forall evd r p k' e', dispatch react evd r [] = (p, k', e') -> replies_only (mkL p k').
Proof.
  intros evd r p k' e' H. unfold dispatch in H.
  destruct r as [ | [y|] n | | | | | | ]; try (inv H; try destruct evd; exact Coq.Init.Logic.I).
  destruct (next_reply evd (fst (react y)) (snd (react y)) []) as [[p1 k1] e1] eqn:En. inv H.
  eapply next_reply_ro; [apply Hnoself | exact En].
Qed.

Lemma Step_ro : forall c g l g' l' ev, ipc_ok l -> replies_only l -> Step c g l g' l' ev -> replies_only l'.
Proof.
  intros c g l g' l' ev Hi Hro HS.
  inversion HS; subst; clear HS; unfold ipc_ok in Hi; simpl in Hi; try contradiction;
    try exact Coq.Init.Logic.I;
    repeat match goal with y : chanid |- _ => destruct y end; simpl in Hi; try contradiction;
    try exact Coq.Init.Logic.I;
    try (match type of Hi with match ?kk with _ => _ end => destruct kk as [|[] [|? ?]] end; try contradiction);
    try (unfold replies_only in *; simpl in *; tauto);
    try (unfold replies_only in Hro; simpl in Hro; destruct Hro; discriminate);
    match goal with Hr : ret _ _ _ _ = _ |- _ =>
      first [ eapply dispatch_ro; exact Hr
            | eapply next_reply_ro; [|exact Hr]; unfold replies_only in Hro; simpl in Hro; tauto ] end.
Qed.



(* one step of the internal thread, when it is not blocked, gets closer *)
Lemma int_progress : forall s, wf smode emode s -> g_ist (s_g s) = ILive -> blocked (s_g s) (g_il (s_g s)) = false ->
  replies_only (g_il (s_g s)) ->
  exists s' ev, sys_step s (LStep I CRun) = Some (s', ev) /\
    (g_ist (s_g s') = IExited \/ drained s' \/ (g_ist (s_g s') = ILive /\ mu s' < mu s)).
Proof.
  intros s W0 Hl Hb Hro.
  destruct (step_enabled false absorb_n no_limit react _ _ Hb) as [[[g' l'] e] Hx].
  exists (mkS (set_il l' g') (s_l s)), e. split; [simpl; rewrite Hl, Hx; reflexivity|].
  pose proof (wf_ipc _ _ _ W0 Hl) as Hi.
  pose proof (wf_live_sock _ _ _ W0 Hl) as Hsock.
  apply step_spec in Hx.
  pose proof (Step_const _ _ _ _ _ _ _ _ _ _ Hx) as [Hc1 Hc2].
  unfold drained, mu. simpl.
  assert (Hpen0 : forall l g, will_look (g_evd g) (l_pc l) = true -> pen (mkS (set_il l g) (s_l s)) = 0)
    by (intros l g H; apply pen_zero; exact H).
  assert (Hpen1 : forall l g, will_look (g_evd (s_g s)) (l_pc (g_il (s_g s))) = false ->
            (readable (s_g s) CI = true -> readable g CI = true) -> pen (mkS (set_il l g) (s_l s)) <= pen s).
  { intros l g H1 H2. apply pen_mono; auto. }
  destruct (g_il (s_g s)) as [p k] eqn:El.
  inversion Hx; subst; clear Hx; unfold ipc_ok in Hi; simpl in Hi; try contradiction.
  - (* 1: a reply is appended *)
    destr_k k. assert (x = CO) by (unfold replies_only in Hro; simpl in Hro; tauto). subst x.
    right; right. split; [exact Hl|]. rewrite Hpen0 by reflexivity. unfold W, wloop, final; simpl; lia.
  - (* 2: its signal *)
    destr_k k. assert (x = CO) by (unfold replies_only in Hro; simpl in Hro; tauto). subst x.
    assert (Hco : all_co rs) by (unfold replies_only in Hro; simpl in Hro; tauto).
    match goal with Hs : signal _ _ _ = _ |- _ => sig_frame Hs end.
    match goal with Hr : ret _ _ _ _ = _ |- _ => simpl in Hr; rename Hr into HR end.
    right; right. split; [congruence|].
    rewrite Hpen0 by (eapply next_reply_looks; exact HR).
    destruct (F9 CI) as (Q & _). simpl in Q. rewrite Q, F1.
    pose proof (W_next_reply (g_sockets (s_g s)) _ _ _ _ _ _ (c_q (g_ci (s_g s))) Hco HR) as HW.
    rewrite F2 in *. eapply Nat.lt_le_trans; [rewrite Nat.add_0_r; exact HW|]. unfold W; simpl; lia.
  - (* 3 *)
    destr_k k. assert (x = CO) by (unfold replies_only in Hro; simpl in Hro; tauto). subst x.
    assert (Hco : all_co rs) by (unfold replies_only in Hro; simpl in Hro; tauto).
    match goal with Hr : ret _ _ _ _ = _ |- _ => simpl in Hr; rename Hr into HR end.
    right; right. split; [exact Hl|].
    rewrite Hpen0 by (eapply next_reply_looks; exact HR).
    pose proof (W_next_reply (g_sockets (s_g s)) _ _ _ _ _ _ (c_q (g_ci (s_g s))) Hco HR) as HW.
    eapply Nat.lt_le_trans; [rewrite Nat.add_0_r; exact HW|]. unfold W; simpl; lia.
  - (* 4: absorb *)
    destruct x; [|destr_k k]. destr_k k.
    pose proof (absorb_frame absorb_n CI (s_g s)) as F. simpl in F.
    destruct F as (F1 & F2 & F3 & F4 & F5 & F6 & F7 & F8 & F9 & F10).
    right; right. split; [congruence|].
    rewrite Hpen0 by reflexivity.
    destruct (F9 CI) as (Q & _). simpl in Q. rewrite Q, F1, F2.
    pose proof (go_ge2 (g_evd (s_g s)) w (c_q (g_ci (s_g s)))). unfold W; simpl; lia.
  - (* 5: the queue is empty *)
    destruct x; [|destr_k k]. destr_k k.
    match goal with Hq : c_q _ = [] |- _ => simpl in Hq; rename Hq into HQ end.
    destruct (will_look (g_evd (s_g s)) (PRecvNone CI w)) eqn:Hw.
    + right; right. split; [exact Hl|]. rewrite Hpen0 by exact Hw. rewrite HQ.
      simpl in Hw. destruct w; try discriminate. destruct (g_evd (s_g s)); try discriminate. unfold W, wloop, final; simpl; lia.
    + right; left. auto.
  - (* 6: a Message is removed *)
    destruct x; [|destr_k k]. destr_k k.
    match goal with Hq : c_q _ = _ :: _ |- _ => simpl in Hq; rename Hq into HQ end.
    right; right. split; [exact Hl|]. rewrite Hpen0 by reflexivity. rewrite HQ. simpl.
    destruct m as [y|]; unfold W, wloop, final; simpl; lia.
  - (* 7: it is dispatched *)
    destruct x; [|destr_k k]. destr_k k.
    match goal with Hr : ret _ _ _ _ = _ |- _ => simpl in Hr; unfold dispatch in Hr; rename Hr into HR end.
    right; right. split; [exact Hl|].
    destruct m as [y|].
    + destruct (next_reply (g_evd (s_g s)) (fst (react y)) (snd (react y)) []) as [[p1 k1] e1] eqn:En. inv HR.
      rewrite Hpen0 by (eapply next_reply_looks; exact En).
      pose proof (W_next_reply (g_sockets (s_g s)) _ _ _ _ _ _ (c_q (g_ci (s_g s))) (Hnoself y) En) as HW.
      eapply Nat.lt_le_trans; [rewrite Nat.add_0_r; exact HW|]. unfold W, rsn, quits; simpl; lia.
    + inv HR. rewrite Hpen0 by reflexivity. unfold W, wloop, final; simpl; lia.
  - (* 8: the poll found nothing *)
    destruct x; [|destr_k k]. destr_k k.
    match goal with Hr : ret _ _ _ _ = _ |- _ => simpl in Hr; inv Hr end.
    right; right. split; [exact Hl|].
    destruct (g_evd (s_g s)) eqn:Ee.
    + pose proof (Hpen1 (mkL PIEvLoop []) (s_g s)) as HP. rewrite ?Ee in HP; simpl in HP. specialize (HP eq_refl (fun h => h)).
      unfold W, wloop, final; simpl; lia.
    + rewrite Hpen0 by (rewrite ?Ee; reflexivity). unfold W, wloop, final; simpl; lia.
  - (* 9: about to block *)
    destruct x; [|destr_k k]. destr_k k.
    right; right. split; [exact Hl|].
    pose proof (Hpen1 (mkL (PRecvPark CI w) [KLoop]) (s_g s)) as HP. simpl in HP.
    assert (Hwl : will_look (g_evd (s_g s)) (PRecvNone CI w) = false) by (destruct w; try reflexivity; congruence).
    specialize (HP Hwl (fun h => h)).
    destruct w; try congruence; unfold W, wloop, final; simpl; lia.
  - (* 10: no socket: cannot happen while the thread is alive *)
    destruct x; [|destr_k k]. exfalso.
    match goal with Hs : g_sockets _ = true, Hf : fd_ok _ CI = false |- _ =>
      destruct (Hsock Hs) as [Ha Ho]; unfold fd_ok in Hf; rewrite Hs, Ha, Ho in Hf; discriminate end.
  - (* 11: woken (socket) *)
    destruct x; [|destr_k k]. destr_k k.
    right; right. split; [exact Hl|]. rewrite Hpen0 by reflexivity.
    match goal with Hs : g_sockets _ = true |- _ => rewrite Hs end. unfold W, wloop, final; simpl; lia.
  - (* 12: woken (wait-condition) *)
    destruct x; [|destr_k k]. destr_k k.
    right; right. split; [exact Hl|]. rewrite Hpen0 by reflexivity.
    match goal with Hs : g_sockets _ = false |- _ => rewrite Hs end. unfold W, wloop, final; simpl; lia.
  - (* 13 *)
    right; right. split; [exact Hl|].
    destruct (g_evd (s_g s)) eqn:Ee.
    + pose proof (Hpen1 (mkL PIStartupCS k) (s_g s)) as HP. rewrite ?Ee in HP; simpl in HP. specialize (HP eq_refl (fun h => h)). unfold W, wloop, final; simpl; lia.
    + rewrite Hpen0 by (rewrite ?Ee; reflexivity). unfold W, wloop, final; simpl; lia.
  - (* 14 *)
    right; right. split; [exact Hl|].
    destruct (g_evd (s_g s)) eqn:Ee.
    + pose proof (Hpen1 (mkL PIAfterStartup k) (s_g s)) as HP. rewrite ?Ee in HP; simpl in HP. specialize (HP eq_refl (fun h => h)). unfold W, wloop, final; simpl; lia.
    + rewrite Hpen0 by (rewrite ?Ee; reflexivity). unfold W, wloop, final; simpl; lia.
  - (* 15: the start-up signal to the owner *)
    match goal with Hs : signal _ _ _ = _ |- _ => pose proof Hs as Hsig; sig_frame Hs end.
    right; right. split; [congruence|].
    destruct (F9 CI) as (Q & _). simpl in Q. rewrite Q, F1, F2.
    destruct (g_evd (s_g s)) eqn:Ee.
    + pose proof (Hpen1 (mkL PIAfterStartup k) g') as HP. rewrite ?Ee in HP; simpl in HP.
      specialize (HP eq_refl (fun h => signal_readable_mono _ _ _ _ _ _ Hnl Hsig h)). unfold W, wloop, final; simpl; lia.
    + rewrite Hpen0 by (rewrite ?F2, ?Ee; reflexivity). unfold W, wloop, final; simpl; lia.
  - (* 16 *)
    right; right. split; [exact Hl|].
    destruct (g_evd (s_g s)) eqn:Ee.
    + pose proof (Hpen1 (mkL PILoop k) (s_g s)) as HP. rewrite ?Ee in HP; simpl in HP. specialize (HP eq_refl (fun h => h)). unfold W, wloop, final; simpl; lia.
    + rewrite Hpen0 by (rewrite ?Ee; reflexivity). unfold W, wloop, final; simpl; lia.
  - (* 17: default loop: into WaitForNextMessageFromOwner *)
    right; right. split; [exact Hl|]. rewrite Hpen0 by reflexivity.
    match goal with He : g_evd _ = false |- _ => rewrite He end. unfold W, wloop, final; simpl; lia.
  - (* 18: event loop *)
    right; right. split; [exact Hl|].
    match goal with He : g_evd _ = true |- _ => rename He into Ee end.
    pose proof (Hpen1 (mkL PIEvLoop k) (s_g s)) as HP. rewrite ?Ee in HP; simpl in HP. specialize (HP eq_refl (fun h => h)).
    rewrite Ee. unfold W, wloop, final; simpl; lia.
  - (* 19 *)
    right; right. split; [exact Hl|].
    pose proof (Hpen1 (mkL PIEvWait k) (s_g s)) as HP. simpl in HP. specialize (HP eq_refl (fun h => h)). unfold W, wloop, final; simpl; lia.
  - (* 20 *)
    right; right. split; [exact Hl|]. rewrite Hpen0 by reflexivity.
    pose proof (go_ge2 (g_evd (s_g s)) WPoll (c_q (g_ci (s_g s)))). unfold W; simpl; lia.
  - (* 21 *)
    right; right. split; [exact Hl|]. rewrite Hpen0 by reflexivity. unfold W, wloop, final; simpl; lia.
  - (* 22 *)
    right; right. split; [exact Hl|]. rewrite Hpen0 by reflexivity. unfold W, wloop, final; simpl; lia.
  - (* 23: the thread finishes *)
    left. reflexivity.
  - (* woken by a user socket: not the internal thread *)
    destruct x; [|destr_k k]. exfalso.
    match goal with Hw : wakeable _ CI = true, Hr : readable _ CI = false |- _ => rewrite wakeable_CI in Hw; congruence end.
Qed.

(* the same for an arbitrary accounting queue qh, for the steps that do not look at the real queue: they leave it alone and
   get closer whatever is taken to lie ahead *)
Definition mua (qh : list msg) (s : sys) : nat :=
  W (g_sockets (s_g s)) (g_evd (s_g s)) (g_il (s_g s)) qh + pen s.

Lemma int_step_any : forall s, wf smode emode s -> g_ist (s_g s) = ILive -> blocked (s_g s) (g_il (s_g s)) = false ->
  replies_only (g_il (s_g s)) -> (forall w, l_pc (g_il (s_g s)) <> PRecvCS CI w) ->
  exists s' ev, sys_step s (LStep I CRun) = Some (s', ev) /\
    (g_ist (s_g s') = IExited \/
     (g_ist (s_g s') = ILive /\ c_q (g_ci (s_g s')) = c_q (g_ci (s_g s)) /\ c_rcvd (g_ci (s_g s')) = c_rcvd (g_ci (s_g s)) /\
      forall qh, mua qh s' < mua qh s)).
Proof.
  intros s W0 Hl Hb Hro Hncs.
  destruct (step_enabled false absorb_n no_limit react _ _ Hb) as [[[g' l'] e] Hx].
  exists (mkS (set_il l' g') (s_l s)), e. split; [simpl; rewrite Hl, Hx; reflexivity|].
  pose proof (wf_ipc _ _ _ W0 Hl) as Hi.
  pose proof (wf_live_sock _ _ _ W0 Hl) as Hsock.
  apply step_spec in Hx.
  pose proof (Step_const _ _ _ _ _ _ _ _ _ _ Hx) as [Hc1 Hc2].
  unfold mua. simpl.
  assert (Hpen0 : forall l g, will_look (g_evd g) (l_pc l) = true -> pen (mkS (set_il l g) (s_l s)) = 0)
    by (intros l g H; apply pen_zero; exact H).
  assert (Hpen1 : forall l g, will_look (g_evd (s_g s)) (l_pc (g_il (s_g s))) = false ->
            (readable (s_g s) CI = true -> readable g CI = true) -> pen (mkS (set_il l g) (s_l s)) <= pen s).
  { intros l g H1 H2. apply pen_mono; auto. }
  destruct (g_il (s_g s)) as [p k] eqn:El.
  inversion Hx; subst; clear Hx; unfold ipc_ok in Hi; simpl in Hi; try contradiction.
  - (* 1: a reply is appended *)
    destr_k k. assert (x = CO) by (unfold replies_only in Hro; simpl in Hro; tauto). subst x.
    right. split; [exact Hl|]. split; [first [reflexivity | destruct (F9 CI) as (Q1 & Q2 & Q3); simpl in Q1; exact Q1 | destruct (F9 CI) as (Q1 & Q2 & Q3 & Q4); simpl in Q1; exact Q1]|]. split; [first [reflexivity | destruct (F9 CI) as (Q1 & Q2 & Q3); simpl in Q3; exact Q3 | destruct (F9 CI) as (Q1 & Q2 & Q3 & Q4); simpl in Q3; exact Q3]|]. intros qh. rewrite Hpen0 by reflexivity. unfold W, wloop, final; simpl; lia.
  - (* 2: its signal *)
    destr_k k. assert (x = CO) by (unfold replies_only in Hro; simpl in Hro; tauto). subst x.
    assert (Hco : all_co rs) by (unfold replies_only in Hro; simpl in Hro; tauto).
    match goal with Hs : signal _ _ _ = _ |- _ => sig_frame Hs end.
    match goal with Hr : ret _ _ _ _ = _ |- _ => simpl in Hr; rename Hr into HR end.
    right. split; [congruence|]. split; [first [reflexivity | destruct (F9 CI) as (Q1 & Q2 & Q3); simpl in Q1; exact Q1 | destruct (F9 CI) as (Q1 & Q2 & Q3 & Q4); simpl in Q1; exact Q1]|]. split; [first [reflexivity | destruct (F9 CI) as (Q1 & Q2 & Q3); simpl in Q3; exact Q3 | destruct (F9 CI) as (Q1 & Q2 & Q3 & Q4); simpl in Q3; exact Q3]|]. intros qh.
    rewrite Hpen0 by (eapply next_reply_looks; exact HR).
    rewrite ?F1.
    pose proof (W_next_reply (g_sockets (s_g s)) _ _ _ _ _ _ qh Hco HR) as HW.
    rewrite F2 in *. eapply Nat.lt_le_trans; [rewrite Nat.add_0_r; exact HW|]. unfold W; simpl; lia.
  - (* 3 *)
    destr_k k. assert (x = CO) by (unfold replies_only in Hro; simpl in Hro; tauto). subst x.
    assert (Hco : all_co rs) by (unfold replies_only in Hro; simpl in Hro; tauto).
    match goal with Hr : ret _ _ _ _ = _ |- _ => simpl in Hr; rename Hr into HR end.
    right. split; [exact Hl|]. split; [first [reflexivity | destruct (F9 CI) as (Q1 & Q2 & Q3); simpl in Q1; exact Q1 | destruct (F9 CI) as (Q1 & Q2 & Q3 & Q4); simpl in Q1; exact Q1]|]. split; [first [reflexivity | destruct (F9 CI) as (Q1 & Q2 & Q3); simpl in Q3; exact Q3 | destruct (F9 CI) as (Q1 & Q2 & Q3 & Q4); simpl in Q3; exact Q3]|]. intros qh.
    rewrite Hpen0 by (eapply next_reply_looks; exact HR).
    pose proof (W_next_reply (g_sockets (s_g s)) _ _ _ _ _ _ qh Hco HR) as HW.
    eapply Nat.lt_le_trans; [rewrite Nat.add_0_r; exact HW|]. unfold W; simpl; lia.
  - (* 4: absorb *)
    destruct x; [|destr_k k]. destr_k k.
    pose proof (absorb_frame absorb_n CI (s_g s)) as F. simpl in F.
    destruct F as (F1 & F2 & F3 & F4 & F5 & F6 & F7 & F8 & F9 & F10).
    right. split; [congruence|]. split; [first [reflexivity | destruct (F9 CI) as (Q1 & Q2 & Q3); simpl in Q1; exact Q1 | destruct (F9 CI) as (Q1 & Q2 & Q3 & Q4); simpl in Q1; exact Q1]|]. split; [first [reflexivity | destruct (F9 CI) as (Q1 & Q2 & Q3); simpl in Q3; exact Q3 | destruct (F9 CI) as (Q1 & Q2 & Q3 & Q4); simpl in Q3; exact Q3]|]. intros qh.
    rewrite Hpen0 by reflexivity.
    rewrite ?F1, ?F2.
    pose proof (go_ge2 (g_evd (s_g s)) w qh). unfold W; simpl; lia.
  - (* 5: looks at the real queue: excluded *)
    destruct x; [|destr_k k]. exfalso. eapply Hncs; reflexivity.
  - (* 6: looks at the real queue: excluded *)
    destruct x; [|destr_k k]. exfalso. eapply Hncs; reflexivity.
  - (* 7: it is dispatched *)
    destruct x; [|destr_k k]. destr_k k.
    match goal with Hr : ret _ _ _ _ = _ |- _ => simpl in Hr; unfold dispatch in Hr; rename Hr into HR end.
    right. split; [exact Hl|]. split; [first [reflexivity | destruct (F9 CI) as (Q1 & Q2 & Q3); simpl in Q1; exact Q1 | destruct (F9 CI) as (Q1 & Q2 & Q3 & Q4); simpl in Q1; exact Q1]|]. split; [first [reflexivity | destruct (F9 CI) as (Q1 & Q2 & Q3); simpl in Q3; exact Q3 | destruct (F9 CI) as (Q1 & Q2 & Q3 & Q4); simpl in Q3; exact Q3]|]. intros qh.
    destruct m as [y|].
    + destruct (next_reply (g_evd (s_g s)) (fst (react y)) (snd (react y)) []) as [[p1 k1] e1] eqn:En. inv HR.
      rewrite Hpen0 by (eapply next_reply_looks; exact En).
      pose proof (W_next_reply (g_sockets (s_g s)) _ _ _ _ _ _ qh (Hnoself y) En) as HW.
      eapply Nat.lt_le_trans; [rewrite Nat.add_0_r; exact HW|]. unfold W, rsn, quits; simpl; lia.
    + inv HR. rewrite Hpen0 by reflexivity. unfold W, wloop, final; simpl; lia.
  - (* 8: the poll found nothing *)
    destruct x; [|destr_k k]. destr_k k.
    match goal with Hr : ret _ _ _ _ = _ |- _ => simpl in Hr; inv Hr end.
    right. split; [exact Hl|]. split; [first [reflexivity | destruct (F9 CI) as (Q1 & Q2 & Q3); simpl in Q1; exact Q1 | destruct (F9 CI) as (Q1 & Q2 & Q3 & Q4); simpl in Q1; exact Q1]|]. split; [first [reflexivity | destruct (F9 CI) as (Q1 & Q2 & Q3); simpl in Q3; exact Q3 | destruct (F9 CI) as (Q1 & Q2 & Q3 & Q4); simpl in Q3; exact Q3]|]. intros qh.
    destruct (g_evd (s_g s)) eqn:Ee.
    + pose proof (Hpen1 (mkL PIEvLoop []) (s_g s)) as HP. rewrite ?Ee in HP; simpl in HP. specialize (HP eq_refl (fun h => h)).
      unfold W, wloop, final; simpl; lia.
    + rewrite Hpen0 by (rewrite ?Ee; reflexivity). unfold W, wloop, final; simpl; lia.
  - (* 9: about to block *)
    destruct x; [|destr_k k]. destr_k k.
    right. split; [exact Hl|]. split; [first [reflexivity | destruct (F9 CI) as (Q1 & Q2 & Q3); simpl in Q1; exact Q1 | destruct (F9 CI) as (Q1 & Q2 & Q3 & Q4); simpl in Q1; exact Q1]|]. split; [first [reflexivity | destruct (F9 CI) as (Q1 & Q2 & Q3); simpl in Q3; exact Q3 | destruct (F9 CI) as (Q1 & Q2 & Q3 & Q4); simpl in Q3; exact Q3]|]. intros qh.
    pose proof (Hpen1 (mkL (PRecvPark CI w) [KLoop]) (s_g s)) as HP. simpl in HP.
    assert (Hwl : will_look (g_evd (s_g s)) (PRecvNone CI w) = false) by (destruct w; try reflexivity; congruence).
    specialize (HP Hwl (fun h => h)).
    destruct w; try congruence; unfold W, wloop, final; simpl; lia.
  - (* 10: no socket: cannot happen while the thread is alive *)
    destruct x; [|destr_k k]. exfalso.
    match goal with Hs : g_sockets _ = true, Hf : fd_ok _ CI = false |- _ =>
      destruct (Hsock Hs) as [Ha Ho]; unfold fd_ok in Hf; rewrite Hs, Ha, Ho in Hf; discriminate end.
  - (* 11: woken (socket) *)
    destruct x; [|destr_k k]. destr_k k.
    right. split; [exact Hl|]. split; [first [reflexivity | destruct (F9 CI) as (Q1 & Q2 & Q3); simpl in Q1; exact Q1 | destruct (F9 CI) as (Q1 & Q2 & Q3 & Q4); simpl in Q1; exact Q1]|]. split; [first [reflexivity | destruct (F9 CI) as (Q1 & Q2 & Q3); simpl in Q3; exact Q3 | destruct (F9 CI) as (Q1 & Q2 & Q3 & Q4); simpl in Q3; exact Q3]|]. intros qh. rewrite Hpen0 by reflexivity.
    match goal with Hs : g_sockets _ = true |- _ => rewrite Hs end. unfold W, wloop, final; simpl; lia.
  - (* 12: woken (wait-condition) *)
    destruct x; [|destr_k k]. destr_k k.
    right. split; [exact Hl|]. split; [first [reflexivity | destruct (F9 CI) as (Q1 & Q2 & Q3); simpl in Q1; exact Q1 | destruct (F9 CI) as (Q1 & Q2 & Q3 & Q4); simpl in Q1; exact Q1]|]. split; [first [reflexivity | destruct (F9 CI) as (Q1 & Q2 & Q3); simpl in Q3; exact Q3 | destruct (F9 CI) as (Q1 & Q2 & Q3 & Q4); simpl in Q3; exact Q3]|]. intros qh. rewrite Hpen0 by reflexivity.
    match goal with Hs : g_sockets _ = false |- _ => rewrite Hs end. unfold W, wloop, final; simpl; lia.
  - (* 13 *)
    right. split; [exact Hl|]. split; [first [reflexivity | destruct (F9 CI) as (Q1 & Q2 & Q3); simpl in Q1; exact Q1 | destruct (F9 CI) as (Q1 & Q2 & Q3 & Q4); simpl in Q1; exact Q1]|]. split; [first [reflexivity | destruct (F9 CI) as (Q1 & Q2 & Q3); simpl in Q3; exact Q3 | destruct (F9 CI) as (Q1 & Q2 & Q3 & Q4); simpl in Q3; exact Q3]|]. intros qh.
    destruct (g_evd (s_g s)) eqn:Ee.
    + pose proof (Hpen1 (mkL PIStartupCS k) (s_g s)) as HP. rewrite ?Ee in HP; simpl in HP. specialize (HP eq_refl (fun h => h)). unfold W, wloop, final; simpl; lia.
    + rewrite Hpen0 by (rewrite ?Ee; reflexivity). unfold W, wloop, final; simpl; lia.
  - (* 14 *)
    right. split; [exact Hl|]. split; [first [reflexivity | destruct (F9 CI) as (Q1 & Q2 & Q3); simpl in Q1; exact Q1 | destruct (F9 CI) as (Q1 & Q2 & Q3 & Q4); simpl in Q1; exact Q1]|]. split; [first [reflexivity | destruct (F9 CI) as (Q1 & Q2 & Q3); simpl in Q3; exact Q3 | destruct (F9 CI) as (Q1 & Q2 & Q3 & Q4); simpl in Q3; exact Q3]|]. intros qh.
    destruct (g_evd (s_g s)) eqn:Ee.
    + pose proof (Hpen1 (mkL PIAfterStartup k) (s_g s)) as HP. rewrite ?Ee in HP; simpl in HP. specialize (HP eq_refl (fun h => h)). unfold W, wloop, final; simpl; lia.
    + rewrite Hpen0 by (rewrite ?Ee; reflexivity). unfold W, wloop, final; simpl; lia.
  - (* 15: the start-up signal to the owner *)
    match goal with Hs : signal _ _ _ = _ |- _ => pose proof Hs as Hsig; sig_frame Hs end.
    right. split; [congruence|]. split; [first [reflexivity | destruct (F9 CI) as (Q1 & Q2 & Q3); simpl in Q1; exact Q1 | destruct (F9 CI) as (Q1 & Q2 & Q3 & Q4); simpl in Q1; exact Q1]|]. split; [first [reflexivity | destruct (F9 CI) as (Q1 & Q2 & Q3); simpl in Q3; exact Q3 | destruct (F9 CI) as (Q1 & Q2 & Q3 & Q4); simpl in Q3; exact Q3]|]. intros qh.
    rewrite ?F1, ?F2.
    destruct (g_evd (s_g s)) eqn:Ee.
    + pose proof (Hpen1 (mkL PIAfterStartup k) g') as HP. rewrite ?Ee in HP; simpl in HP.
      specialize (HP eq_refl (fun h => signal_readable_mono _ _ _ _ _ _ Hnl Hsig h)). unfold W, wloop, final; simpl; lia.
    + rewrite Hpen0 by (rewrite ?F2, ?Ee; reflexivity). unfold W, wloop, final; simpl; lia.
  - (* 16 *)
    right. split; [exact Hl|]. split; [first [reflexivity | destruct (F9 CI) as (Q1 & Q2 & Q3); simpl in Q1; exact Q1 | destruct (F9 CI) as (Q1 & Q2 & Q3 & Q4); simpl in Q1; exact Q1]|]. split; [first [reflexivity | destruct (F9 CI) as (Q1 & Q2 & Q3); simpl in Q3; exact Q3 | destruct (F9 CI) as (Q1 & Q2 & Q3 & Q4); simpl in Q3; exact Q3]|]. intros qh.
    destruct (g_evd (s_g s)) eqn:Ee.
    + pose proof (Hpen1 (mkL PILoop k) (s_g s)) as HP. rewrite ?Ee in HP; simpl in HP. specialize (HP eq_refl (fun h => h)). unfold W, wloop, final; simpl; lia.
    + rewrite Hpen0 by (rewrite ?Ee; reflexivity). unfold W, wloop, final; simpl; lia.
  - (* 17: default loop: into WaitForNextMessageFromOwner *)
    right. split; [exact Hl|]. split; [first [reflexivity | destruct (F9 CI) as (Q1 & Q2 & Q3); simpl in Q1; exact Q1 | destruct (F9 CI) as (Q1 & Q2 & Q3 & Q4); simpl in Q1; exact Q1]|]. split; [first [reflexivity | destruct (F9 CI) as (Q1 & Q2 & Q3); simpl in Q3; exact Q3 | destruct (F9 CI) as (Q1 & Q2 & Q3 & Q4); simpl in Q3; exact Q3]|]. intros qh. rewrite Hpen0 by reflexivity.
    match goal with He : g_evd _ = false |- _ => rewrite He end. unfold W, wloop, final; simpl; lia.
  - (* 18: event loop *)
    right. split; [exact Hl|]. split; [first [reflexivity | destruct (F9 CI) as (Q1 & Q2 & Q3); simpl in Q1; exact Q1 | destruct (F9 CI) as (Q1 & Q2 & Q3 & Q4); simpl in Q1; exact Q1]|]. split; [first [reflexivity | destruct (F9 CI) as (Q1 & Q2 & Q3); simpl in Q3; exact Q3 | destruct (F9 CI) as (Q1 & Q2 & Q3 & Q4); simpl in Q3; exact Q3]|]. intros qh.
    match goal with He : g_evd _ = true |- _ => rename He into Ee end.
    pose proof (Hpen1 (mkL PIEvLoop k) (s_g s)) as HP. rewrite ?Ee in HP; simpl in HP. specialize (HP eq_refl (fun h => h)).
    rewrite Ee. unfold W, wloop, final; simpl; lia.
  - (* 19 *)
    right. split; [exact Hl|]. split; [first [reflexivity | destruct (F9 CI) as (Q1 & Q2 & Q3); simpl in Q1; exact Q1 | destruct (F9 CI) as (Q1 & Q2 & Q3 & Q4); simpl in Q1; exact Q1]|]. split; [first [reflexivity | destruct (F9 CI) as (Q1 & Q2 & Q3); simpl in Q3; exact Q3 | destruct (F9 CI) as (Q1 & Q2 & Q3 & Q4); simpl in Q3; exact Q3]|]. intros qh.
    pose proof (Hpen1 (mkL PIEvWait k) (s_g s)) as HP. simpl in HP. specialize (HP eq_refl (fun h => h)). unfold W, wloop, final; simpl; lia.
  - (* 20 *)
    right. split; [exact Hl|]. split; [first [reflexivity | destruct (F9 CI) as (Q1 & Q2 & Q3); simpl in Q1; exact Q1 | destruct (F9 CI) as (Q1 & Q2 & Q3 & Q4); simpl in Q1; exact Q1]|]. split; [first [reflexivity | destruct (F9 CI) as (Q1 & Q2 & Q3); simpl in Q3; exact Q3 | destruct (F9 CI) as (Q1 & Q2 & Q3 & Q4); simpl in Q3; exact Q3]|]. intros qh. rewrite Hpen0 by reflexivity.
    pose proof (go_ge2 (g_evd (s_g s)) WPoll qh). unfold W; simpl; lia.
  - (* 21 *)
    right. split; [exact Hl|]. split; [first [reflexivity | destruct (F9 CI) as (Q1 & Q2 & Q3); simpl in Q1; exact Q1 | destruct (F9 CI) as (Q1 & Q2 & Q3 & Q4); simpl in Q1; exact Q1]|]. split; [first [reflexivity | destruct (F9 CI) as (Q1 & Q2 & Q3); simpl in Q3; exact Q3 | destruct (F9 CI) as (Q1 & Q2 & Q3 & Q4); simpl in Q3; exact Q3]|]. intros qh. rewrite Hpen0 by reflexivity. unfold W, wloop, final; simpl; lia.
  - (* 22 *)
    right. split; [exact Hl|]. split; [first [reflexivity | destruct (F9 CI) as (Q1 & Q2 & Q3); simpl in Q1; exact Q1 | destruct (F9 CI) as (Q1 & Q2 & Q3 & Q4); simpl in Q1; exact Q1]|]. split; [first [reflexivity | destruct (F9 CI) as (Q1 & Q2 & Q3); simpl in Q3; exact Q3 | destruct (F9 CI) as (Q1 & Q2 & Q3 & Q4); simpl in Q3; exact Q3]|]. intros qh. rewrite Hpen0 by reflexivity. unfold W, wloop, final; simpl; lia.
  - (* 23: the thread finishes *)
    left. reflexivity.
  - (* woken by a user socket: not the internal thread *)
    destruct x; [|destr_k k]. exfalso.
    match goal with Hw : wakeable _ CI = true, Hr : readable _ CI = false |- _ => rewrite wakeable_CI in Hw; congruence end.
Qed.

(* a blocked internal thread (under ipc_ok) sits in one of its two waits, which are not satisfiable *)
Lemma blocked_int : forall g l, ipc_ok l -> blocked g l = true ->
  will_look (g_evd g) (l_pc l) = false /\ readable g CI = false.
Proof.
  intros g [p k] Hi Hb. unfold ipc_ok in Hi. unfold blocked in Hb. simpl in *.
  destruct p; try discriminate; try contradiction.
  all: try (destruct c); try (destruct k as [|[] [|? ?]]); try contradiction;
    apply negb_true_iff in Hb; rewrite ?wakeable_CI in Hb; split; [reflexivity | exact Hb].
Qed.

(* when the internal thread is blocked with Messages queued, a thread that owes it the signal gets closer to sending it *)
Lemma sig_progress : forall s, wf smode emode s -> wake s -> g_ist (s_g s) = ILive ->
  blocked (s_g s) (g_il (s_g s)) = true -> c_q (g_ci (s_g s)) <> [] ->
  exists t s' ev, is_pend_i (l_pc (s_l s t)) = true /\ sys_step s (LStep (U t) CRun) = Some (s', ev) /\
    g_ist (s_g s') = ILive /\ mu s' < mu s.
Proof.
  intros s W0 Wk Hl Hb Hq.
  pose proof (wf_ipc _ _ _ W0 Hl) as Hi.
  destruct (blocked_int _ _ Hi Hb) as [Hw Hr].
  destruct (wk_ai _ Wk Hl Hw Hq) as [Rd | [t0 Pt0]]; [congruence|].
  (* the owner first, if it is the one that owes the signal *)
  assert (Hu : exists u, is_pend_i (l_pc (s_l s u)) = true /\ (is_pend_i (l_pc (s_l s 0)) = true -> u = 0)).
  { destruct (is_pend_i (l_pc (s_l s 0))) eqn:E0; [exists 0; auto | exists t0; split; [exact Pt0 | discriminate]]. }
  destruct Hu as (u & Pu & Hu0).
  destruct (step_enabled false absorb_n no_limit react _ _ (pend_i_unblocked (s_g s) _ Pu)) as [[[g' l'] e] Hx].
  exists u, (mkS g' (upd (s_l s) u l')), e.
  split; [exact Pu|]. split; [simpl; rewrite Hx; reflexivity|].
  apply step_spec in Hx.
  pose proof (wf_upc _ _ _ W0 u) as Hup.
  pose proof (wf_live_sock _ _ _ W0 Hl) as Hsock.
  unfold mu, pen. simpl. rewrite Hw, Hr.
  destruct (s_l s u) as [p k] eqn:El. simpl in Pu.
  assert (Hod : 1 <= odist (l_pc (s_l s 0))) by (destruct (l_pc (s_l s 0)); simpl; lia).
  destruct p; try discriminate.
  - (* a sender that appended to the empty queue *)
    destruct c; try discriminate. destruct first; try discriminate.
    inversion Hx; subst; clear Hx.
    match goal with Hs : signal _ _ _ = _ |- _ => pose proof Hs as Hsig; apply signal_frame in Hs;
      destruct Hs as (F1 & F2 & F3 & F4 & F5 & F6 & F7 & F8 & F9 & F10 & F11 & F12) end.
    split; [congruence|].
    rewrite F1, F2, F7. destruct (F9 CI) as (Q & _). simpl in Q. rewrite Q. rewrite Hw.
    rewrite (signal_CI_readable _ _ _ _ Hnl Hsig) by (intros Hs; apply Hsock; exact Hs). lia.
  - (* StartInternalThread, the thread created *)
    assert (u = 0) by (unfold upc_ok in Hup; simpl in Hup; destruct k; [exact Hup | contradiction]). subst u.
    inversion Hx; subst; clear Hx. split; [exact Hl|].
    rewrite Hw, Hr. simpl. rewrite El. simpl. lia.
  - (* ... about to look at the queue *)
    assert (u = 0) by (unfold upc_ok in Hup; simpl in Hup; destruct k; [exact Hup | contradiction]). subst u.
    inversion Hx; subst; clear Hx. split; [exact Hl|].
    rewrite Hw, Hr. simpl. rewrite El. simpl.
    destruct (c_q (g_ci (s_g s))); [contradiction | simpl; lia].
  - (* ... about to send the initial signal *)
    destruct needs; try discriminate.
    inversion Hx; subst; clear Hx.
    match goal with Hs : signal _ _ _ = _ |- _ => pose proof Hs as Hsig; apply signal_frame in Hs;
      destruct Hs as (F1 & F2 & F3 & F4 & F5 & F6 & F7 & F8 & F9 & F10 & F11 & F12) end.
    split; [congruence|].
    rewrite F1, F2, F7. destruct (F9 CI) as (Q & _). simpl in Q. rewrite Q. rewrite Hw.
    rewrite (signal_CI_readable _ _ _ _ Hnl Hsig) by (intros Hs; apply Hsock; exact Hs). lia.
Qed.

Lemma blocked_drained : forall s, wf smode emode s -> g_ist (s_g s) = ILive ->
  blocked (s_g s) (g_il (s_g s)) = true -> c_q (g_ci (s_g s)) = [] -> drained s.
Proof.
  intros s W0 Hl Hb Hq. right. destruct (blocked_int _ _ (wf_ipc _ _ _ W0 Hl) Hb) as [Hw _]. auto.
Qed.

(* while it is alive the internal thread is sending replies only (from Hnoself) *)
Lemma reachable_ro : forall s, R s -> g_ist (s_g s) = ILive -> replies_only (g_il (s_g s)).
Proof.
  intros s Rs. induction Rs as [|s lab s' ev Rs IH _ Hs]; [intros H; discriminate|].
  pose proof (reachable_wf false absorb_n no_limit react any_label smode emode s Rs) as W0.
  intros Hl'. destruct lab as [t o | [t|] c]; simpl in Hs.
  - destruct (begin_op t o (s_l s t)); [|discriminate]. inv Hs. simpl in *. auto.
  - destruct (step c (s_g s) (s_l s t)) as [[[g' l'] e']|] eqn:Hst; [|discriminate]. inv Hs. simpl in *.
    apply step_spec in Hst.
    destruct (Step_running _ _ _ _ _ _ _ _ _ _ Hst) as [[n Hn] | [Hj | [Hx | (R1 & R2 & R3 & R4)]]].
    + destruct (s_l s t) as [p k]. simpl in Hn. subst p. inversion Hst; subst. simpl. exact Coq.Init.Logic.I.
    + destruct (s_l s t) as [p k]. simpl in Hj. subst p. inversion Hst; subst. simpl in Hl'. discriminate.
    + pose proof (wf_upc _ _ _ W0 t) as Hu. destruct (s_l s t) as [p k]. simpl in Hx. subst p.
      unfold upc_ok in Hu. simpl in Hu. contradiction.
    + rewrite R3. apply IH. congruence.
  - destruct (g_ist (s_g s)) eqn:Hl; try discriminate.
    destruct (step c (s_g s) (g_il (s_g s))) as [[[g' l'] e']|] eqn:Hst; [|discriminate]. inv Hs. simpl in *.
    apply step_spec in Hst. eapply Step_ro; [apply (wf_ipc _ _ _ W0 Hl) | apply IH; reflexivity | exact Hst].
Qed.

(* Every queued Message can be delivered: from every reachable state with a live internal thread there is a
   continuation of helper steps at whose end the thread has finished or has emptied its queue and is about to block. *)
Theorem can_drain : forall s, R s -> g_ist (s_g s) = ILive -> canreach (fun s' => R s' /\ drained s') s.
Proof.
  intros s. remember (mu s) as n eqn:En. revert s En.
  induction n as [n IH] using lt_wf_ind. intros s En Rs Hl.
  pose proof (reachable_wf false absorb_n no_limit react any_label smode emode s Rs) as W0.
  pose proof (reachable_wake absorb_n no_limit react Hnl any_label smode emode s Rs) as Wk.
  destruct (blocked (s_g s) (g_il (s_g s))) eqn:Hb.
  - destruct (c_q (g_ci (s_g s))) as [|m0 q0] eqn:Eq.
    + apply cr_here. split; [exact Rs | eapply blocked_drained; eauto].
    + destruct (sig_progress s W0 Wk Hl Hb) as (t & s' & ev & Pt & Hs & Hl' & Hm); [rewrite Eq; discriminate|].
      assert (Rs' : R s') by (eapply reach_step; eauto; reflexivity).
      eapply cr_step; [right; exists t; auto | exact Hs |].
      eapply (IH (mu s')); eauto. lia.
  - destruct (int_progress s W0 Hl Hb (reachable_ro s Rs Hl)) as (s' & ev & Hs & Hc).
    assert (Rs' : R s') by (eapply reach_step; eauto; reflexivity).
    eapply cr_step; [left; reflexivity | exact Hs |].
    destruct Hc as [Hx | [Hd | [Hl' Hm]]].
    + apply cr_here. split; [exact Rs' | left; exact Hx].
    + apply cr_here. split; [exact Rs' | exact Hd].
    + eapply (IH (mu s')); eauto. lia.
Qed.

(* ---------- what the helper steps preserve ---------- *)

(* a NULL Message is queued for the thread, or it has taken one and is on its way out, or it has finished *)
Definition null_seen (s : sys) : Prop :=
  In None (c_q (g_ci (s_g s))) \/ (g_ist (s_g s) = ILive /\ exiting (l_pc (g_il (s_g s))) = true) \/ g_ist (s_g s) = IExited.

(* a signaller's step does not touch the internal thread's queue, histories or place *)
Lemma signaller_keeps : forall s t g' l' e, wf smode emode s ->
  is_pend_i (l_pc (s_l s t)) = true -> Step CRun (s_g s) (s_l s t) g' l' e ->
  c_q (g_ci g') = c_q (g_ci (s_g s)) /\ c_sent (g_ci g') = c_sent (g_ci (s_g s)) /\
  g_ist g' = g_ist (s_g s) /\ g_il g' = g_il (s_g s).
Proof.
  intros s t g' l' e W0 Pt Hx.
  destruct (s_l s t) as [p k] eqn:El. simpl in Pt.
  destruct p; try discriminate; inversion Hx; subst; clear Hx; auto; try discriminate.
  all: match goal with Hs : signal _ _ _ = _ |- _ => apply signal_frame in Hs;
         destruct Hs as (_ & _ & _ & _ & _ & F6 & F7 & _ & F9 & _); destruct (F9 CI) as (Q1 & Q2 & _); simpl in Q1, Q2; auto end.
Qed.

Lemma helper_keeps_null_seen : forall s lab s' ev, wf smode emode s -> null_seen s -> helper s lab ->
  sys_step s lab = Some (s', ev) -> null_seen s'.
Proof.
  intros s lab s' ev W0 G Hh H.
  destruct Hh as [-> | (t & -> & Pt)]; simpl in H.
  - (* the internal thread *)
    destruct (g_ist (s_g s)) eqn:Hl; try discriminate.
    destruct (step (CRun) (s_g s) (g_il (s_g s))) as [[[g' l'] e']|] eqn:Hst; [|discriminate]. inv H.
    apply step_spec in Hst.
    pose proof (wf_ipc _ _ _ W0 Hl) as Hi.
    unfold null_seen in *. simpl.
    assert (G' : In None (c_q (g_ci (s_g s))) \/ exiting (l_pc (g_il (s_g s))) = true).
    { destruct G as [A | [[_ B] | C]]; auto. congruence. }
    clear G. destruct (g_il (s_g s)) as [p k] eqn:El. simpl in G'.
    inversion Hst; subst; clear Hst; unfold ipc_ok in Hi; simpl in Hi; try contradiction;
      try (destruct G' as [A | B]; [left; exact A | simpl in B; try discriminate]; fail).
    all: try (destruct x; simpl in Hi; try contradiction).
    all: try (destruct G' as [A | B]; [left; simpl; exact A | simpl in B; try discriminate]; fail).
    + destruct G' as [A | B]; [|simpl in B; discriminate]. left. unfold enq. simpl. apply in_or_app. left. exact A.
    + destruct G' as [A | B]; [|simpl in B; discriminate]. left.
      match goal with Hs : signal _ _ _ = _ |- _ => apply signal_frame in Hs; destruct Hs as (_&_&_&_&_&_&_&_&F9&_) end.
      destruct (F9 CI) as (Q & _). simpl in Q. rewrite Q. exact A.
    + destruct G' as [A | B]; [|simpl in B; discriminate]. left.
      match goal with Hs : signal _ _ _ = _ |- _ => apply signal_frame in Hs; destruct Hs as (_&_&_&_&_&_&_&_&F9&_) end.
      destruct (F9 CI) as (Q & _). simpl in Q. rewrite Q. exact A.
    + destruct G' as [A | B]; [|simpl in B; discriminate]. left.
      pose proof (absorb_frame absorb_n CI (s_g s)) as F. simpl in F. destruct F as (_&_&_&_&_&_&_&_&F9&_).
      destruct (F9 CI) as (Q & _). simpl in Q. rewrite Q. exact A.
    + destruct G' as [A | B]; [|simpl in B; discriminate].
      match goal with Hq : c_q _ = _ :: _ |- _ => simpl in Hq; rewrite Hq in A end.
      destruct A as [-> | A]; [right; left; split; [exact Hl | reflexivity] | left; simpl; exact A].
    + destruct G' as [A | B]; [left; exact A|]. simpl in B. destruct m; try discriminate.
      destruct k as [|[] [|? ?]]; try contradiction.
      match goal with Hr : ret _ _ _ _ = _ |- _ => simpl in Hr; inv Hr end.
      right. left. split; [exact Hl | reflexivity].
    + destruct G' as [A | B]; [|simpl in B; discriminate]. left.
      match goal with Hs : signal _ _ _ = _ |- _ => apply signal_frame in Hs; destruct Hs as (_&_&_&_&_&_&_&_&F9&_) end.
      destruct (F9 CI) as (Q & _). simpl in Q. rewrite Q. exact A.
    + right. right. reflexivity.
  - (* a signaller *)
    destruct (step CRun (s_g s) (s_l s t)) as [[[g' l'] e']|] eqn:Hst; [|discriminate]. inv H.
    apply step_spec in Hst.
    destruct (signaller_keeps s t g' l' _ W0 Pt Hst) as (Q & _ & I1 & I2).
    unfold null_seen in *. simpl. rewrite Q, I1, I2. exact G.
Qed.

Lemma canreach_carry : forall (Inv : sys -> Prop),
  (forall s lab s' ev, R s -> Inv s -> helper s lab -> sys_step s lab = Some (s', ev) -> Inv s') ->
  forall (P : sys -> Prop) s, R s -> Inv s -> canreach (fun x => R x /\ P x) s -> canreach (fun x => R x /\ P x /\ Inv x) s.
Proof.
  intros Inv Hpres P s Rs Is C. revert Rs Is. induction C; intros Rs Is.
  - apply cr_here. tauto.
  - assert (Rs' : R s') by (eapply reach_step; eauto; reflexivity).
    eapply cr_step; eauto.
Qed.

Lemma exiting_looks : forall evd p, exiting p = true -> will_look evd p = true.
Proof. intros evd p H. destruct p; try discriminate; reflexivity. Qed.

(* Shutdown can always complete: once a NULL Message is queued for a live internal thread (or it has already taken
   one), there is a continuation -- steps of the internal thread and of threads that owe it a signal only -- at whose
   end the thread has finished, so that WaitForInternalThreadToExit returns. *)
Theorem shutdown_can_complete : forall s, R s -> g_ist (s_g s) = ILive -> null_seen s ->
  canreach (fun s' => R s' /\ g_ist (s_g s') = IExited) s.
Proof.
  intros s Rs Hl G.
  pose proof (can_drain s Rs Hl) as C.
  apply (canreach_carry null_seen) in C; auto.
  - eapply canreach_weaken; [|exact C]. intros x (Rx & D & Gx). split; [exact Rx|].
    destruct D as [E | (Lx & Qx & Wx)]; [exact E|]. exfalso.
    destruct Gx as [A | [[_ B] | Cx]].
    + rewrite Qx in A. contradiction.
    + rewrite (exiting_looks _ _ B) in Wx. discriminate.
    + congruence.
  - intros x lab x' ev Rx Gx Hh Hs. eapply helper_keeps_null_seen; eauto.
    eapply reachable_wf; eauto.
Qed.

(* helper steps never append to the internal thread's queue *)
Lemma helper_keeps_sent : forall s lab s' ev, wf smode emode s ->
  (g_ist (s_g s) = ILive -> replies_only (g_il (s_g s))) ->
  helper s lab -> sys_step s lab = Some (s', ev) ->
  c_sent (g_ci (s_g s')) = c_sent (g_ci (s_g s)).
Proof.
  intros s lab s' ev W0 Hro0 Hh H.
  destruct Hh as [-> | (t & -> & Pt)]; simpl in H.
  - destruct (g_ist (s_g s)) eqn:Hl; try discriminate.
    destruct (step (CRun) (s_g s) (g_il (s_g s))) as [[[g' l'] e']|] eqn:Hst; [|discriminate]. inv H.
    apply step_spec in Hst. pose proof (wf_ipc _ _ _ W0 Hl) as Hi. pose proof (Hro0 eq_refl) as Hro. simpl.
    destruct (g_il (s_g s)) as [p k] eqn:El.
    inversion Hst; subst; clear Hst; unfold ipc_ok in Hi; simpl in Hi; try contradiction; auto;
      try (destruct k as [|[] [|? ?]]; try contradiction; unfold replies_only in Hro; simpl in Hro; destruct Hro as [-> _]; reflexivity);
      try (match goal with Hs : signal _ _ _ = _ |- _ => apply signal_frame in Hs; destruct Hs as (_&_&_&_&_&_&_&_&F9&_);
             destruct (F9 CI) as (_ & Q & _); simpl in Q; exact Q end);
      try (destruct x; simpl in Hi; try contradiction; try (destruct m; contradiction); reflexivity).
    + pose proof (absorb_frame absorb_n x (s_g s)) as F. simpl in F. destruct F as (_&_&_&_&_&_&_&_&F9&_).
      destruct (F9 CI) as (_ & Q & _). simpl in Q. exact Q.
    + unfold exited. simpl. destruct (g_sockets (s_g s)); reflexivity.
  - destruct (step CRun (s_g s) (s_l s t)) as [[[g' l'] e']|] eqn:Hst; [|discriminate]. inv H.
    apply step_spec in Hst.
    destruct (signaller_keeps s t g' l' _ W0 Pt Hst) as (_ & Q & _). simpl. exact Q.
Qed.

(* Every queued Message can be received: there is a continuation of helper steps during which the internal thread
   receives, in order, the Messages queued for it now -- all of them, unless it finishes first (a NULL Message, or its
   MessageReceivedFromOwner asks to leave), in which case it has received a prefix. *)
Theorem queued_can_be_received : forall s, R s -> g_ist (s_g s) = ILive ->
  canreach (fun s' => R s' /\ exists got,
              c_rcvd (g_ci (s_g s')) = c_rcvd (g_ci (s_g s)) ++ got /\
              got ++ c_q (g_ci (s_g s')) = c_q (g_ci (s_g s)) /\
              (g_ist (s_g s') = IExited \/ c_q (g_ci (s_g s')) = [])) s.
Proof.
  intros s Rs Hl.
  pose proof (can_drain s Rs Hl) as C.
  set (Inv := fun x : sys => c_sent (g_ci (s_g x)) = c_sent (g_ci (s_g s)) /\
                             exists b, c_rcvd (g_ci (s_g x)) = c_rcvd (g_ci (s_g s)) ++ b).
  apply (canreach_carry Inv) in C; auto.
  - eapply canreach_weaken; [|exact C]. intros x (Rx & D & (Sx & b & Bx)). split; [exact Rx|].
    exists b. split; [exact Bx|].
    pose proof (reachable_fifo _ _ _ _ _ _ _ _ Rs CI) as F. pose proof (reachable_fifo _ _ _ _ _ _ _ _ Rx CI) as F'.
    simpl in F, F'. rewrite Sx, Bx, F in F'. rewrite <- app_assoc in F'. apply app_inv_head in F'.
    split; [symmetry; exact F'|].
    destruct D as [E | (_ & Qx & _)]; auto.
  - unfold Inv. intros x lab x' ev Rx (Sx & b & Bx) Hh Hs. split.
    + rewrite <- Sx. eapply helper_keeps_sent; eauto; [eapply reachable_wf; eauto | apply reachable_ro; exact Rx].
    + destruct (sys_step_hist _ _ _ _ _ _ _ _ Hs) as [_ E]. destruct (E CI) as (a1 & b1 & _ & Eb). simpl in Eb.
      exists (b ++ b1). rewrite Eb, Bx, app_assoc. reflexivity.
  - unfold Inv. split; [reflexivity | exists []; rewrite app_nil_r; reflexivity].
Qed.

(* ================= eventual completion under weak fairness ================= *)

(* the internal thread never waits with a finite timeout *)
Definition untimed (p : pc) : Prop :=
  match p with
  | PRecvAbsorb CI WTimed | PRecvCS CI WTimed | PRecvNone CI WTimed | PRecvPark CI WTimed => False
  | _ => True
  end.

Lemma next_reply_untimed : forall evd rs qt k p k' e', next_reply evd rs qt k = (p, k', e') -> untimed p.
Proof.
  intros evd rs qt k p k' e' H. unfold next_reply in H. destruct rs as [|[c m] rest]; inv H.
  - destruct qt; [|destruct evd]; exact Coq.Init.Logic.I.
  - destruct c; exact Coq.Init.Logic.I.
Qed.

Lemma dispatch_untimed : forall evd r k p k' e', dispatch react evd r k = (p, k', e') -> untimed p.
Proof.
  intros evd r k p k' e' H. unfold dispatch in H.
  destruct r as [ | [y|] n | | | | | | ]; try (inv H; try destruct evd; exact Coq.Init.Logic.I).
  destruct (next_reply evd (fst (react y)) (snd (react y)) k) as [[p1 k1] e1] eqn:En. inv H.
  eapply next_reply_untimed; eauto.
Qed.

Lemma Step_untimed : forall c g l g' l' ev, ipc_ok l -> untimed (l_pc l) -> Step c g l g' l' ev -> untimed (l_pc l').
Proof.
  intros c g l g' l' ev Hi Hu HS.
  inversion HS; subst; clear HS; unfold ipc_ok in Hi; simpl in Hi, Hu; try contradiction;
    try exact Coq.Init.Logic.I;
    repeat match goal with y : chanid |- _ => destruct y end; simpl in Hi, Hu; try contradiction;
    try exact Coq.Init.Logic.I;
    try (match goal with y : ThreadQ.wake |- _ => destruct y end; simpl in *; try contradiction; exact Coq.Init.Logic.I);
    try (match type of Hi with match ?kk with _ => _ end => destruct kk as [|[] [|? ?]] end; try contradiction);
    match goal with Hr : ret _ _ _ _ = _ |- _ =>
      first [ eapply dispatch_untimed; exact Hr | eapply next_reply_untimed; exact Hr ] end.
Qed.

Lemma reachable_untimed : forall s, R s -> g_ist (s_g s) = ILive -> untimed (l_pc (g_il (s_g s))).
Proof.
  intros s Rs. induction Rs as [|s lab s' ev Rs IH _ Hs]; [intros H; discriminate|].
  pose proof (reachable_wf false absorb_n no_limit react any_label smode emode s Rs) as W0.
  intros Hl'. destruct lab as [t o | [t|] c]; simpl in Hs.
  - destruct (begin_op t o (s_l s t)); [|discriminate]. inv Hs. simpl in *. auto.
  - destruct (step c (s_g s) (s_l s t)) as [[[g' l'] e']|] eqn:Hst; [|discriminate]. inv Hs. simpl in *.
    apply step_spec in Hst.
    destruct (Step_running _ _ _ _ _ _ _ _ _ _ Hst) as [[n Hn] | [Hj | [Hx | (R1 & R2 & R3 & R4)]]].
    + destruct (s_l s t) as [p k]. simpl in Hn. subst p. inversion Hst; subst. simpl. exact Coq.Init.Logic.I.
    + destruct (s_l s t) as [p k]. simpl in Hj. subst p. inversion Hst; subst. simpl in Hl'. discriminate.
    + pose proof (wf_upc _ _ _ W0 t) as Hu. destruct (s_l s t) as [p k]. simpl in Hx. subst p.
      unfold upc_ok in Hu. simpl in Hu. contradiction.
    + rewrite R3. apply IH. congruence.
  - destruct (g_ist (s_g s)) eqn:Hl; try discriminate.
    destruct (step c (s_g s) (g_il (s_g s))) as [[[g' l'] e']|] eqn:Hst; [|discriminate]. inv Hs. simpl in *.
    apply step_spec in Hst. eapply Step_untimed; [apply (wf_ipc _ _ _ W0 Hl) | apply IH; reflexivity | exact Hst].
Qed.

(* appending behind a NULL Message does not change the work ahead of the thread *)
Lemma go_app : forall evd q w l, In None q -> go evd w (q ++ l) = go evd w q.
Proof.
  intros evd q. induction q as [|[x|] r IH]; intros w l Hin; simpl in *; try tauto.
  destruct Hin as [E | Hin]; [discriminate|]. rewrite (IH _ l Hin). reflexivity.
Qed.

Lemma W_app : forall sk evd l q m, In None q \/ exiting (l_pc l) = true -> W sk evd l (q ++ [m]) = W sk evd l q.
Proof.
  intros sk evd [p k] q m [Hin | Hx].
  - unfold W, wloop, final. simpl.
    destruct p; try reflexivity;
      repeat match goal with
      | |- context [match ?y with CI => _ | CO => _ end] => destruct y
      | |- context [match ?y with WPoll => _ | WNever => _ | WTimed => _ end] => destruct y
      | |- context [match ?y with Some _ => _ | None => _ end] => destruct y
      | |- context [match ?y with [] => _ | _ :: _ => _ end] => destruct y
      | |- context [match ?y with KShutdown _ => _ | KDiscard => _ | KLoop => _ | KReplies _ _ => _ end] => destruct y
      | |- context [if ?y then _ else _] => destruct y
      end; rewrite ?go_app by exact Hin; reflexivity.
  - simpl in Hx. destruct p; try discriminate; [destruct c; try discriminate; destruct m0; try discriminate|]; reflexivity.
Qed.

(* a user thread's step never makes the internal thread's wait unsatisfiable *)
Lemma user_readable_mono : forall t c g l g' l' ev,
  wfg g -> g_ist g = ILive -> upc_ok t l -> (forall n, l_pc l <> PStartSpawn n) ->
  Step c g l g' l' ev -> readable g CI = true -> readable g' CI = true.
Proof.
  intros t c g l g' l' ev Wg Hl Hu Hns HS Hr.
  inversion HS; subst; clear HS; unfold upc_ok in Hu; simpl in Hu; try contradiction; auto;
    try (rewrite readable_set_enq; exact Hr);
    try (rewrite readable_set_deq; exact Hr);
    try (eapply signal_readable_mono; eauto; fail);
    try (exfalso; eapply Hns; reflexivity);
    try congruence.
  - (* absorb: on the reply side only *)
    destruct x; [destruct k; contradiction|].
    pose proof (absorb_frame absorb_n CO g) as F. simpl in F. destruct F as (F1 & _ & _ & _ & _ & _ & _ & _ & _ & F10).
    rewrite (readable_CI_same g _); auto. apply F10. discriminate.
  - destruct x; [destruct k; contradiction|]. unfold park_flags. destruct (u_reg (g_usr g)); exact Hr.
  - destruct x; [destruct k; contradiction|]. exact Hr.
  - rewrite (alloc_noop _ Wg Hl). exact Hr.
  - destruct x; [destruct k; contradiction|]. unfold park_flags. destruct (u_reg (g_usr g)); exact Hr.
  - match goal with Hu' : user_step _ _ = _ |- _ => apply user_step_frame in Hu'; destruct Hu' as [? ->] end. exact Hr.
Qed.

Lemma odist_ge1 : forall p, 1 <= odist p.
Proof. intros p. destruct p; simpl; lia. Qed.

Ltac kill_ret :=
  repeat match goal with
  | Hr : ret _ _ _ _ = _ |- _ => simpl in Hr
  | Hr : (if ?w then _ else _) = (_, _, _) |- _ => destruct w
  | Hr : (_, _, _) = (_, _, _) |- _ => inv Hr
  end.

(* a user thread's own step does not move it away from sending the initial signal *)
Lemma user_odist : forall t c g l g' l' ev, upc_ok t l -> (forall n, l_pc l <> PStartSpawn n) ->
  Step c g l g' l' ev -> odist (l_pc l') <= odist (l_pc l).
Proof.
  intros t c g l g' l' ev Hu Hns HS. pose proof (odist_ge1 (l_pc l)) as H1.
  inversion HS; subst; clear HS; unfold upc_ok in Hu; simpl in Hu, H1 |- *; try contradiction; try lia;
    try (exfalso; eapply Hns; reflexivity);
    repeat match goal with y : chanid |- _ => destruct y | y : msg |- _ => destruct y | y : uop |- _ => destruct y end;
    simpl in Hu; try contradiction;
    try (destruct k as [|[] [|? ?]]; simpl in Hu; try contradiction; kill_ret; simpl; lia).
Qed.

Lemma pen_le : forall s s',
  g_evd (s_g s') = g_evd (s_g s) -> g_il (s_g s') = g_il (s_g s) ->
  (readable (s_g s) CI = true -> readable (s_g s') CI = true) ->
  odist (l_pc (s_l s' 0)) <= odist (l_pc (s_l s 0)) -> pen s' <= pen s.
Proof.
  intros s s' He Hi Hr Ho. unfold pen. rewrite He, Hi.
  destruct (will_look (g_evd (s_g s)) (l_pc (g_il (s_g s)))); [lia|].
  destruct (readable (s_g s) CI) eqn:E; [rewrite Hr by reflexivity; lia|].
  destruct (readable (s_g s') CI); lia.
Qed.

(* a live thread with a NULL Message ahead of it (or taken): what it still has to do does not depend on what is appended *)
Lemma null_seen_W : forall s, g_ist (s_g s) = ILive -> null_seen s ->
  In None (c_q (g_ci (s_g s))) \/ exiting (l_pc (g_il (s_g s))) = true.
Proof. intros s Hl [A | [[_ B] | C]]; auto. congruence. Qed.

(* Steps of anybody but the internal thread leave it alive, keep the NULL Message in sight and do not increase the measure *)
Lemma other_le : forall s lab s' ev, R s -> g_ist (s_g s) = ILive -> null_seen s ->
  (forall c, lab <> LStep I c) -> sys_step s lab = Some (s', ev) ->
  g_ist (s_g s') = ILive /\ null_seen s' /\ mu s' <= mu s /\ g_il (s_g s') = g_il (s_g s) /\
  (readable (s_g s) CI = true -> readable (s_g s') CI = true) /\
  (forall u, (forall c, lab <> LStep (U u) c) -> l_pc (s_l s' u) = l_pc (s_l s u) \/ l_pc (s_l s u) = PIdle).
Proof.
  intros s lab s' ev Rs Hl G Hni H.
  pose proof (reachable_wf false absorb_n no_limit react any_label smode emode s Rs) as W0.
  pose proof (wf_wfg _ _ _ W0) as Wg.
  destruct lab as [t o | [t|] c]; simpl in H.
  - (* a call begins *)
    destruct (begin_op t o (s_l s t)) eqn:Hb; [|discriminate]. inv H.
    unfold begin_op in Hb. destruct (l_pc (s_l s t)) eqn:Hp; try discriminate.
    destruct (l_k (s_l s t)) eqn:Hk; try discriminate. destruct (allowed t o); [|discriminate]. inv Hb.
    simpl. repeat split; auto.
    + unfold mu. simpl. apply Nat.add_le_mono_l. apply pen_le; simpl; auto.
      unfold upd. destruct (Nat.eqb_spec 0 t); [subst t; rewrite Hp | lia]. simpl. destruct o as [? ?| | | | | | []]; simpl; lia.
    + intros u _. unfold upd. destruct (Nat.eqb_spec u t); [subst u; right; exact Hp | left; reflexivity].
  - (* a user thread's step *)
    destruct (step c (s_g s) (s_l s t)) as [[[g' l'] e']|] eqn:Hst; [|discriminate]. inv H.
    apply step_spec in Hst.
    pose proof (wf_upc _ _ _ W0 t) as Hu.
    assert (Hrun : g_running (s_g s) = true) by (rewrite (wf_running _ _ _ W0), Hl; reflexivity).
    assert (Hns : forall n, l_pc (s_l s t) <> PStartSpawn n).
    { intros n Hn. assert (t = 0).
      { unfold upc_ok in Hu. rewrite Hn in Hu. destruct (l_k (s_l s t)); [exact Hu | contradiction]. }
      subst t. rewrite (wf_start_idle _ _ _ W0 n Hn) in Hrun. discriminate. }
    destruct (Step_const _ _ _ _ _ _ _ _ _ _ Hst) as [Hc1 Hc2].
    assert (Hsame : g_ist g' = g_ist (s_g s) /\ g_il g' = g_il (s_g s)).
    { destruct (Step_running _ _ _ _ _ _ _ _ _ _ Hst) as [[n Hn] | [Hj | [Hx | (R1 & R2 & R3 & R4)]]]; auto.
      - exfalso. eapply Hns; eauto.
      - exfalso. destruct (s_l s t) as [p k]. simpl in Hj. subst p. inversion Hst; subst. congruence.
      - exfalso. destruct (s_l s t) as [p k]. simpl in Hx. subst p. unfold upc_ok in Hu. simpl in Hu. contradiction. }
    destruct Hsame as [I1 I2].
    assert (Hrd : readable (s_g s) CI = true -> readable g' CI = true) by (eapply user_readable_mono; eauto).
    assert (Hq : c_q (g_ci g') = c_q (g_ci (s_g s)) \/ exists m, c_q (g_ci g') = c_q (g_ci (s_g s)) ++ [m]).
    { destruct (Step_qi_user absorb_n no_limit react _ _ _ _ _ _ _ Hu Hst) as [Q | [m Hm]]; [left; exact Q | right].
      destruct (s_l s t) as [p k]. simpl in Hm. subst p. inversion Hst; subst. exists m. reflexivity. }
    pose proof (null_seen_W s Hl G) as GW.
    simpl. split; [congruence|]. split; [|split; [|split; [exact I2 | split; [exact Hrd|]]]].
    + (* the NULL Message stays in sight *)
      unfold null_seen in *. simpl. rewrite I1, I2.
      destruct G as [A | [B | C]]; auto. left.
      destruct Hq as [-> | [m ->]]; [exact A | apply in_or_app; left; exact A].
    + (* the measure *)
      unfold mu. simpl. rewrite Hc1, Hc2, I2.
      assert (HW : W (g_sockets (s_g s)) (g_evd (s_g s)) (g_il (s_g s)) (c_q (g_ci g')) =
                   W (g_sockets (s_g s)) (g_evd (s_g s)) (g_il (s_g s)) (c_q (g_ci (s_g s)))).
      { destruct Hq as [-> | [m ->]]; [reflexivity | apply W_app; exact GW]. }
      rewrite HW. apply Nat.add_le_mono_l. apply pen_le; simpl; auto.
      unfold upd. destruct (Nat.eqb_spec 0 t); [subst t; eapply user_odist; eauto | lia].
    + intros u Hnu. unfold upd. destruct (Nat.eqb_spec u t); [subst u; exfalso; eapply Hnu; reflexivity | left; reflexivity].
  - exfalso. eapply Hni; reflexivity.
Qed.

Lemma blocked_no_step : forall g l, blocked g l = true -> step CRun g l = None.
Proof.
  intros g [p k] Hb. unfold blocked in Hb. simpl in Hb. unfold ThreadQ.step. simpl.
  destruct p; try discriminate; try reflexivity.
  - apply negb_true_iff in Hb. rewrite Hb. destruct w; reflexivity.
  - destruct (g_ist g); try discriminate; reflexivity.
  - apply negb_true_iff in Hb. rewrite Hb. reflexivity.
Qed.

(* when the internal thread is blocked, the step of ANY thread that owes it a signal brings the wake-up closer *)
Lemma sig_strict : forall s u, wf smode emode s -> g_ist (s_g s) = ILive ->
  blocked (s_g s) (g_il (s_g s)) = true -> c_q (g_ci (s_g s)) <> [] ->
  is_pend_i (l_pc (s_l s u)) = true ->
  exists s' ev, sys_step s (LStep (U u) CRun) = Some (s', ev) /\ g_ist (s_g s') = ILive /\ mu s' < mu s.
Proof.
  intros s u W0 Hl Hb Hq Pu.
  pose proof (wf_ipc _ _ _ W0 Hl) as Hi.
  destruct (blocked_int _ _ Hi Hb) as [Hw Hr].
  destruct (step_enabled false absorb_n no_limit react _ _ (pend_i_unblocked (s_g s) _ Pu)) as [[[g' l'] e] Hx].
  exists (mkS g' (upd (s_l s) u l')), e.
  split; [simpl; rewrite Hx; reflexivity|].
  apply step_spec in Hx.
  pose proof (wf_upc _ _ _ W0 u) as Hup.
  pose proof (wf_live_sock _ _ _ W0 Hl) as Hsock.
  unfold mu, pen. simpl. rewrite Hw, Hr.
  destruct (s_l s u) as [p k] eqn:El. simpl in Pu.
  assert (Hod : 1 <= odist (l_pc (s_l s 0))) by apply odist_ge1.
  destruct p; try discriminate.
  - destruct c; try discriminate. destruct first; try discriminate.
    inversion Hx; subst; clear Hx.
    match goal with Hs : signal _ _ _ = _ |- _ => pose proof Hs as Hsig; apply signal_frame in Hs;
      destruct Hs as (F1 & F2 & F3 & F4 & F5 & F6 & F7 & F8 & F9 & F10 & F11 & F12) end.
    split; [congruence|].
    rewrite F1, F2, F7. destruct (F9 CI) as (Q & _). simpl in Q. rewrite Q. rewrite Hw.
    rewrite (signal_CI_readable _ _ _ _ Hnl Hsig) by (intros Hs; apply Hsock; exact Hs). lia.
  - assert (u = 0) by (unfold upc_ok in Hup; simpl in Hup; destruct k; [exact Hup | contradiction]). subst u.
    inversion Hx; subst; clear Hx. split; [exact Hl|].
    rewrite Hw, Hr. simpl. rewrite El. simpl. lia.
  - assert (u = 0) by (unfold upc_ok in Hup; simpl in Hup; destruct k; [exact Hup | contradiction]). subst u.
    inversion Hx; subst; clear Hx. split; [exact Hl|].
    rewrite Hw, Hr. simpl. rewrite El. simpl.
    destruct (c_q (g_ci (s_g s))); [contradiction | simpl; lia].
  - destruct needs; try discriminate.
    inversion Hx; subst; clear Hx.
    match goal with Hs : signal _ _ _ = _ |- _ => pose proof Hs as Hsig; apply signal_frame in Hs;
      destruct Hs as (F1 & F2 & F3 & F4 & F5 & F6 & F7 & F8 & F9 & F10 & F11 & F12) end.
    split; [congruence|].
    rewrite F1, F2, F7. destruct (F9 CI) as (Q & _). simpl in Q. rewrite Q. rewrite Hw.
    rewrite (signal_CI_readable _ _ _ _ Hnl Hsig) by (intros Hs; apply Hsock; exact Hs). lia.
Qed.

Lemma sig_strict_any : forall s u, wf smode emode s -> g_ist (s_g s) = ILive ->
  blocked (s_g s) (g_il (s_g s)) = true -> c_q (g_ci (s_g s)) <> [] ->
  is_pend_i (l_pc (s_l s u)) = true ->
  exists s' ev, sys_step s (LStep (U u) CRun) = Some (s', ev) /\ g_ist (s_g s') = ILive /\
    c_q (g_ci (s_g s')) = c_q (g_ci (s_g s)) /\ c_rcvd (g_ci (s_g s')) = c_rcvd (g_ci (s_g s)) /\
    forall qh, mua qh s' < mua qh s.
Proof.
  intros s u W0 Hl Hb Hq Pu.
  pose proof (wf_ipc _ _ _ W0 Hl) as Hi.
  destruct (blocked_int _ _ Hi Hb) as [Hw Hr].
  destruct (step_enabled false absorb_n no_limit react _ _ (pend_i_unblocked (s_g s) _ Pu)) as [[[g' l'] e] Hx].
  exists (mkS g' (upd (s_l s) u l')), e.
  split; [simpl; rewrite Hx; reflexivity|].
  apply step_spec in Hx.
  pose proof (wf_upc _ _ _ W0 u) as Hup.
  pose proof (wf_live_sock _ _ _ W0 Hl) as Hsock.
  unfold mua, pen. simpl. rewrite Hw, Hr.
  destruct (s_l s u) as [p k] eqn:El. simpl in Pu.
  assert (Hod : 1 <= odist (l_pc (s_l s 0))) by apply odist_ge1.
  destruct p; try discriminate.
  - destruct c; try discriminate. destruct first; try discriminate.
    inversion Hx; subst; clear Hx.
    match goal with Hs : signal _ _ _ = _ |- _ => pose proof Hs as Hsig; apply signal_frame in Hs;
      destruct Hs as (F1 & F2 & F3 & F4 & F5 & F6 & F7 & F8 & F9 & F10 & F11 & F12) end.
    split; [congruence|]. destruct (F9 CI) as (Q & _ & Q3). simpl in Q, Q3.
    split; [exact Q|]. split; [exact Q3|]. intros qh.
    rewrite F1, F2, F7. rewrite Hw.
    rewrite (signal_CI_readable _ _ _ _ Hnl Hsig) by (intros Hs; apply Hsock; exact Hs). lia.
  - assert (u = 0) by (unfold upc_ok in Hup; simpl in Hup; destruct k; [exact Hup | contradiction]). subst u.
    inversion Hx; subst; clear Hx. split; [exact Hl|]. split; [reflexivity|]. split; [reflexivity|]. intros qh.
    rewrite Hw, Hr. simpl. rewrite El. simpl. lia.
  - assert (u = 0) by (unfold upc_ok in Hup; simpl in Hup; destruct k; [exact Hup | contradiction]). subst u.
    inversion Hx; subst; clear Hx. split; [exact Hl|]. split; [reflexivity|]. split; [reflexivity|]. intros qh.
    rewrite Hw, Hr. simpl. rewrite El. simpl.
    destruct (c_q (g_ci (s_g s))); [contradiction | simpl; lia].
  - destruct needs; try discriminate.
    inversion Hx; subst; clear Hx.
    match goal with Hs : signal _ _ _ = _ |- _ => pose proof Hs as Hsig; apply signal_frame in Hs;
      destruct Hs as (F1 & F2 & F3 & F4 & F5 & F6 & F7 & F8 & F9 & F10 & F11 & F12) end.
    split; [congruence|]. destruct (F9 CI) as (Q & _ & Q3). simpl in Q, Q3.
    split; [exact Q|]. split; [exact Q3|]. intros qh.
    rewrite F1, F2, F7. rewrite Hw.
    rewrite (signal_CI_readable _ _ _ _ Hnl Hsig) by (intros Hs; apply Hsock; exact Hs). lia.
Qed.

(* ---------- infinite executions (with stuttering) and weak fairness ---------- *)

Record frun := mkRun {
  f_st : nat -> sys;
  f_lb : nat -> option label;
  f_step : forall i, match f_lb i with
                     | Some lab => exists ev, sys_step (f_st i) lab = Some (f_st (S i), ev)
                     | None => f_st (S i) = f_st i
                     end
}.

Definition en_I (s : sys) : Prop := exists x, sys_step s (LStep I CRun) = Some x.
Definition en_U (t : tid) (s : sys) : Prop := exists x, sys_step s (LStep (U t) CRun) = Some x.

(* weak fairness: a step that is enabled is eventually taken, unless it gets disabled *)
Definition fair (r : frun) : Prop :=
  (forall i, exists j, i <= j /\ (f_lb r j = Some (LStep I CRun) \/ ~ en_I (f_st r j))) /\
  (forall t i, exists j, i <= j /\ (f_lb r j = Some (LStep (U t) CRun) \/ ~ en_U t (f_st r j))).

Lemma run_reach : forall r, R (f_st r 0) -> forall i, R (f_st r i).
Proof.
  intros r R0 i. induction i; [exact R0|].
  pose proof (f_step r i) as Hs. destruct (f_lb r i).
  - destruct Hs as [ev Hs]. eapply reach_step; eauto.
  - rewrite Hs. exact IHi.
Qed.

Lemma no_int_timeout : forall s, R s -> g_ist (s_g s) = ILive -> sys_step s (LStep I CTimeout) = None.
Proof.
  intros s Rs Hl. simpl. rewrite Hl.
  pose proof (reachable_untimed s Rs Hl) as Hu.
  pose proof (wf_ipc _ _ _ (reachable_wf false absorb_n no_limit react any_label smode emode s Rs) Hl) as Hi.
  destruct (g_il (s_g s)) as [p k]. unfold ipc_ok in Hi. simpl in *. unfold ThreadQ.step. simpl.
  destruct p; try reflexivity; try contradiction.
  destruct w; try reflexivity.
  destruct c; [contradiction | destruct k as [|[] [|? ?]]; contradiction].
Qed.

Lemma blocked_mono : forall g g' l, ipc_ok l -> blocked g l = false ->
  (readable g CI = true -> readable g' CI = true) -> blocked g' l = false.
Proof.
  intros g g' [p k] Hi Hb Hr. unfold ipc_ok in Hi. unfold blocked in *. simpl in *.
  destruct p; try reflexivity; try contradiction; try discriminate.
  - destruct c; [|destruct k as [|[] [|? ?]]; contradiction].
    rewrite wakeable_CI in *. apply negb_false_iff in Hb. rewrite (Hr Hb). reflexivity.
  - apply negb_false_iff in Hb. rewrite (Hr Hb). reflexivity.
Qed.

Lemma pend_no_timeout : forall g l, is_pend_i (l_pc l) = true -> step CTimeout g l = None.
Proof. intros g [p k] H. simpl in H. unfold ThreadQ.step. simpl. destruct p; try discriminate; reflexivity. Qed.

Definition good (s : sys) (n : nat) : Prop := g_ist (s_g s) = ILive /\ null_seen s /\ mu s <= n.

Definition blk (s : sys) : bool := blocked (s_g s) (g_il (s_g s)).
Definition pend (s : sys) (u : tid) : bool := is_pend_i (l_pc (s_l s u)).

(* one position of an execution *)
Lemma one_step : forall r i n, R (f_st r 0) -> good (f_st r i) n ->
  g_ist (s_g (f_st r (S i))) = IExited \/
  (good (f_st r (S i)) n /\
   (f_lb r i = Some (LStep I CRun) -> mu (f_st r (S i)) < mu (f_st r i)) /\
   (f_lb r i <> Some (LStep I CRun) -> blk (f_st r i) = false -> blk (f_st r (S i)) = false) /\
   (forall u, f_lb r i <> Some (LStep (U u) CRun) -> pend (f_st r i) u = true -> pend (f_st r (S i)) u = true) /\
   (forall u, f_lb r i = Some (LStep (U u) CRun) -> pend (f_st r i) u = true -> blk (f_st r i) = true ->
              mu (f_st r (S i)) < mu (f_st r i))).
Proof.
  intros r i n R0 (Hl & G & Hm).
  pose proof (run_reach r R0 i) as Rs.
  pose proof (reachable_wf false absorb_n no_limit react any_label smode emode _ Rs) as W0.
  pose proof (f_step r i) as Hs.
  destruct (f_lb r i) as [lab|] eqn:Elb.
  2:{ right. rewrite Hs. split; [split; [exact Hl | split; [exact G | exact Hm]]|].
      split; [intros H; discriminate|]. split; [auto|]. split; [auto | intros u H; discriminate]. }
  destruct Hs as [ev Hs].
  destruct lab as [t o | [t|] c].
  - (* a call begins *)
    assert (Hni : forall c, LBegin t o <> LStep I c) by (intros c H; discriminate H).
    destruct (other_le _ _ _ _ Rs Hl G Hni Hs) as (L' & G' & M' & I' & Rd & P').
    right. split; [split; [exact L' | split; [exact G' | lia]]|].
    split; [intros H; discriminate|]. split.
    + intros _ Hb. unfold blk in *. rewrite I'. eapply blocked_mono; eauto. apply (wf_ipc _ _ _ W0 Hl).
    + split; [|intros u H; discriminate].
      intros u _ Pu. unfold pend in *.
      assert (Hnu : forall c, LBegin t o <> LStep (U u) c) by (intros c H; discriminate H).
      destruct (P' u Hnu) as [E | E]; [rewrite E; exact Pu|].
      rewrite E in Pu. discriminate.
  - (* a user thread's step *)
    assert (Hni : forall c0, LStep (U t) c <> LStep I c0) by (intros c0 H; discriminate H).
    destruct (other_le _ _ _ _ Rs Hl G Hni Hs) as (L' & G' & M' & I' & Rd & P').
    right. split; [split; [exact L' | split; [exact G' | lia]]|].
    split; [intros H; discriminate|]. split.
    + intros _ Hb. unfold blk in *. rewrite I'. eapply blocked_mono; eauto. apply (wf_ipc _ _ _ W0 Hl).
    + split.
      * intros u Hnu Pu. unfold pend in *.
        destruct (Nat.eq_dec u t) as [-> | Hne].
        -- destruct c; [exfalso; apply Hnu; reflexivity|].
           exfalso. simpl in Hs. rewrite (pend_no_timeout _ _ Pu) in Hs. discriminate.
        -- destruct (P' u) as [E | E]; [intros c0 H; inv H; congruence | rewrite E; exact Pu | rewrite E in Pu; discriminate].
      * intros u Hu Pu Hb. inv Hu.
        assert (Hq : c_q (g_ci (s_g (f_st r i))) <> []).
        { destruct (null_seen_W _ Hl G) as [A | B]; [intros E; rewrite E in A; exact A|].
          exfalso. unfold blk in Hb. destruct (blocked_int _ _ (wf_ipc _ _ _ W0 Hl) Hb) as [Hw _].
          rewrite (exiting_looks _ _ B) in Hw. discriminate. }
        destruct (sig_strict _ u W0 Hl Hb Hq Pu) as (s' & ev' & Hs' & _ & Hlt).
        rewrite Hs in Hs'. inv Hs'. exact Hlt.
  - (* the internal thread's step *)
    destruct c.
    + assert (Hb : blk (f_st r i) = false).
      { unfold blk. destruct (blocked (s_g (f_st r i)) (g_il (s_g (f_st r i)))) eqn:Hb; [|reflexivity].
        exfalso. simpl in Hs. rewrite Hl, (blocked_no_step _ _ Hb) in Hs. discriminate. }
      destruct (int_progress _ W0 Hl Hb (reachable_ro _ Rs Hl)) as (s' & ev' & Hs' & Hc).
      rewrite Hs in Hs'. inv Hs'.
      destruct Hc as [Hx | [Hd | [Hl' Hlt]]].
      * left. exact Hx.
      * destruct Hd as [Hx | (Hl' & Hq' & Hw')]; [left; exact Hx|].
        (* nothing left to receive and about to block: impossible with a NULL Message in sight *)
        exfalso.
        assert (G' : null_seen (f_st r (S i))) by (eapply helper_keeps_null_seen; eauto; left; reflexivity).
        destruct G' as [A | [[_ B] | C]].
        -- rewrite Hq' in A. exact A.
        -- rewrite (exiting_looks _ _ B) in Hw'. discriminate.
        -- congruence.
      * right. split.
        -- split; [exact Hl'|]. split; [eapply helper_keeps_null_seen; eauto; left; reflexivity | lia].
        -- split; [intros _; exact Hlt|]. split; [intros H; exfalso; apply H; reflexivity|].
           split; [|intros u H; discriminate].
           intros u _ Pu. unfold pend in *. simpl in Hs. rewrite Hl in Hs.
           destruct (step CRun (s_g (f_st r i)) (g_il (s_g (f_st r i)))) as [[[g' l'] e']|]; [|discriminate].
           injection Hs as E1 E2. rewrite <- E1. simpl. exact Pu.
    + exfalso. rewrite (no_int_timeout _ Rs Hl) in Hs. discriminate.
Qed.

Definition is_int_run (ol : option label) : bool :=
  match ol with Some (LStep I CRun) => true | _ => false end.
Definition is_u_run (u : tid) (ol : option label) : bool :=
  match ol with Some (LStep (U t) CRun) => Nat.eqb t u | _ => false end.

Lemma is_int_run_spec : forall ol, is_int_run ol = true <-> ol = Some (LStep I CRun).
Proof. intros [[t o|[t|] []]|]; simpl; split; intros H; try discriminate; auto. Qed.

Lemma is_u_run_spec : forall u ol, is_u_run u ol = true <-> ol = Some (LStep (U u) CRun).
Proof.
  intros u [[t o|[t|] []]|]; simpl; split; intros H; try discriminate; auto.
  - apply Nat.eqb_eq in H. subst. reflexivity.
  - inv H. apply Nat.eqb_refl.
Qed.

Section OneRun.
Variable r : frun.
Hypothesis R0 : R (f_st r 0).
Hypothesis Hfair : fair r.

Notation st := (f_st r).
Notation lb := (f_lb r).

Definition closer (i n : nat) : Prop :=
  exists j, i <= j /\ (g_ist (s_g (st j)) = IExited \/ (good (st j) n /\ mu (st j) < n)).

(* the internal thread is not blocked: it stays so until it takes its step, which weak fairness grants *)
Lemma unblocked_closer : forall d i n, good (st i) n -> blk (st i) = false ->
  (lb (i + d) = Some (LStep I CRun) \/ ~ en_I (st (i + d))) -> closer i n.
Proof.
  induction d as [|d IH]; intros i n Hg Hb Hw.
  - rewrite Nat.add_0_r in Hw.
    destruct (one_step r i n R0 Hg) as [Hx | (Hg' & Hlt & _)]; [exists (S i); split; [lia | left; exact Hx]|].
    destruct Hw as [Hw | Hw].
    + exists (S i). split; [lia|]. right. split; [exact Hg'|]. destruct Hg as (_ & _ & Hm). specialize (Hlt Hw). lia.
    + exfalso. apply Hw. destruct Hg as (Hl & _). apply (int_enabled absorb_n no_limit react); assumption.
  - destruct (one_step r i n R0 Hg) as [Hx | (Hg' & Hlt & Hpb & _)]; [exists (S i); split; [lia | left; exact Hx]|].
    destruct (is_int_run (lb i)) eqn:Ei.
    + apply is_int_run_spec in Ei. exists (S i). split; [lia|]. right. split; [exact Hg'|].
      destruct Hg as (_ & _ & Hm). specialize (Hlt Ei). lia.
    + assert (Hne : lb i <> Some (LStep I CRun)) by (intros E; apply is_int_run_spec in E; congruence).
      destruct (IH (S i) n Hg' (Hpb Hne Hb)) as (j & Hj & Hc); [replace (S i + d) with (i + S d) by lia; exact Hw|].
      exists j. split; [lia | exact Hc].
Qed.

(* the internal thread is blocked: a thread that owes it the signal stays pending until it steps, which weak fairness
   grants; that step, or an earlier one that unblocks the internal thread, brings completion closer *)
Lemma blocked_closer : forall d i n u, good (st i) n -> pend (st i) u = true ->
  (lb (i + d) = Some (LStep (U u) CRun) \/ ~ en_U u (st (i + d))) -> closer i n.
Proof.
  induction d as [|d IH]; intros i n u Hg Pu Hw.
  - rewrite Nat.add_0_r in Hw.
    destruct (blk (st i)) eqn:Hb.
    2:{ destruct (proj1 Hfair i) as (j & Hj & Hwj). replace j with (i + (j - i)) in Hwj by lia.
        eapply unblocked_closer; eauto. }
    destruct (one_step r i n R0 Hg) as [Hx | (Hg' & _ & _ & _ & Hstrict)]; [exists (S i); split; [lia | left; exact Hx]|].
    destruct Hw as [Hw | Hw].
    + exists (S i). split; [lia|]. right. split; [exact Hg'|]. destruct Hg as (_ & _ & Hm). specialize (Hstrict u Hw Pu Hb). lia.
    + exfalso. apply Hw. apply (user_enabled absorb_n no_limit react). apply pend_i_unblocked. exact Pu.
  - destruct (blk (st i)) eqn:Hb.
    2:{ destruct (proj1 Hfair i) as (j & Hj & Hwj). replace j with (i + (j - i)) in Hwj by lia.
        eapply unblocked_closer; eauto. }
    destruct (one_step r i n R0 Hg) as [Hx | (Hg' & _ & _ & Hpp & Hstrict)]; [exists (S i); split; [lia | left; exact Hx]|].
    destruct (is_u_run u (lb i)) eqn:Eu.
    + apply is_u_run_spec in Eu. exists (S i). split; [lia|]. right. split; [exact Hg'|].
      destruct Hg as (_ & _ & Hm). specialize (Hstrict u Eu Pu Hb). lia.
    + assert (Hne : lb i <> Some (LStep (U u) CRun)) by (intros E; apply is_u_run_spec in E; congruence).
      destruct (IH (S i) n u Hg' (Hpp u Hne Pu)) as (j & Hj & Hc); [replace (S i + d) with (i + S d) by lia; exact Hw|].
      exists j. split; [lia | exact Hc].
Qed.

(* Under weak fairness a shutdown completes: once a NULL Message is queued for (or taken by) the live internal thread,
   the thread eventually finishes -- whatever the other threads do meanwhile. *)
Theorem shutdown_eventually_completes : forall i, g_ist (s_g (st i)) = ILive -> null_seen (st i) ->
  exists j, i <= j /\ g_ist (s_g (st j)) = IExited.
Proof.
  intros i Hl G.
  assert (Hg : good (st i) (mu (st i))) by (split; [exact Hl | split; [exact G | lia]]).
  remember (mu (st i)) as n eqn:En. clear En. revert i Hl G Hg.
  induction n as [n IH] using lt_wf_ind. intros i Hl G Hg.
  assert (Hc : closer i n).
  { destruct (blk (st i)) eqn:Hb.
    - pose proof (run_reach r R0 i) as Rs.
      pose proof (reachable_wf false absorb_n no_limit react any_label smode emode _ Rs) as W0.
      pose proof (reachable_wake absorb_n no_limit react Hnl any_label smode emode _ Rs) as Wk.
      destruct (blocked_int _ _ (wf_ipc _ _ _ W0 Hl) Hb) as [Hw Hr].
      assert (Hq : c_q (g_ci (s_g (st i))) <> []).
      { destruct (null_seen_W _ Hl G) as [A | B]; [intros E; rewrite E in A; exact A|].
        rewrite (exiting_looks _ _ B) in Hw. discriminate. }
      destruct (wk_ai _ Wk Hl Hw Hq) as [Rd | [u Pu]]; [congruence|].
      destruct (proj2 Hfair u i) as (j & Hj & Hwj). replace j with (i + (j - i)) in Hwj by lia.
      eapply blocked_closer; eauto.
    - destruct (proj1 Hfair i) as (j & Hj & Hwj). replace j with (i + (j - i)) in Hwj by lia.
      eapply unblocked_closer; eauto. }
  destruct Hc as (j & Hj & [Hx | (Hg' & Hlt)]); [exists j; auto|].
  destruct Hg' as (Hl' & G' & Hm').
  destruct (IH (mu (st j)) Hlt j Hl' G') as (j' & Hj' & Hx); [split; [exact Hl' | split; [exact G' | lia]]|].
  exists j'. split; [lia | exact Hx].
Qed.

End OneRun.

(* ================= a queued Message is eventually received ================= *)

Definition hdq (s : sys) : msg := hd None (c_q (g_ci (s_g s))).
Definition muh (s : sys) : nat := mua [hdq s] s.

Lemma Step_rcvd_user : forall t c g l g' l' ev, upc_ok t l -> Step c g l g' l' ev ->
  c_rcvd (g_ci g') = c_rcvd (g_ci g).
Proof.
  intros t c g l g' l' ev Hu HS. inversion HS; subst; clear HS; unfold upc_ok in Hu; simpl in Hu; try contradiction; auto;
    try (match goal with Hs : signal _ _ _ = _ |- _ => apply signal_frame in Hs; destruct Hs as (_&_&_&_&_&_&_&_&Hs&_); destruct (Hs CI) as (_&_&Q); exact Q end);
    try (destruct x; simpl in Hu; try (destruct k; contradiction); reflexivity);
    try (pose proof (absorb_frame absorb_n x g) as F; simpl in F; destruct F as (_&_&_&_&_&_&_&_&F&_); destruct (F CI) as (_&_&Q&_); exact Q);
    try (pose proof (alloc_frame g) as F; simpl in F; destruct F as (_&_&_&_&_&_&F); destruct (F CI) as (_&_&Q&_); exact Q);
    try (pose proof (close_frame g) as F; simpl in F; destruct F as (_&_&_&_&_&_&F); destruct (F CI) as (_&_&Q&_); exact Q);
    try (unfold park_flags; repeat match goal with y : chanid |- _ => destruct y end; try destruct (u_reg (g_usr g)); reflexivity);
    try (match goal with Hu' : user_step _ _ = _ |- _ => apply user_step_frame in Hu'; destruct Hu' as [? ->] end; reflexivity).
Qed.

(* steps of anybody but the internal thread: the head of its queue stays, nothing is received, the measure does not grow *)
Lemma other_le_h : forall s lab s' ev, R s -> g_ist (s_g s) = ILive -> c_q (g_ci (s_g s)) <> [] ->
  (forall c, lab <> LStep I c) -> sys_step s lab = Some (s', ev) ->
  g_ist (s_g s') = ILive /\ c_q (g_ci (s_g s')) <> [] /\ hdq s' = hdq s /\
  c_rcvd (g_ci (s_g s')) = c_rcvd (g_ci (s_g s)) /\ muh s' <= muh s /\ g_il (s_g s') = g_il (s_g s) /\
  (readable (s_g s) CI = true -> readable (s_g s') CI = true) /\
  (forall u, (forall c, lab <> LStep (U u) c) -> l_pc (s_l s' u) = l_pc (s_l s u) \/ l_pc (s_l s u) = PIdle).
Proof.
  intros s lab s' ev Rs Hl Hq Hni H.
  pose proof (reachable_wf false absorb_n no_limit react any_label smode emode s Rs) as W0.
  pose proof (wf_wfg _ _ _ W0) as Wg.
  destruct lab as [t o | [t|] c]; simpl in H.
  - destruct (begin_op t o (s_l s t)) eqn:Hb; [|discriminate]. inv H.
    unfold begin_op in Hb. destruct (l_pc (s_l s t)) eqn:Hp; try discriminate.
    destruct (l_k (s_l s t)) eqn:Hk; try discriminate. destruct (allowed t o); [|discriminate]. inv Hb.
    simpl. repeat split; auto.
    + unfold muh, mua, hdq. simpl. apply Nat.add_le_mono_l. apply pen_le; simpl; auto.
      unfold upd. destruct (Nat.eqb_spec 0 t); [subst t; rewrite Hp | lia]. simpl. destruct o as [? ?| | | | | | []]; simpl; lia.
    + intros u _. unfold upd. destruct (Nat.eqb_spec u t); [subst u; right; exact Hp | left; reflexivity].
  - destruct (step c (s_g s) (s_l s t)) as [[[g' l'] e']|] eqn:Hst; [|discriminate]. inv H.
    apply step_spec in Hst.
    pose proof (wf_upc _ _ _ W0 t) as Hu.
    assert (Hrun : g_running (s_g s) = true) by (rewrite (wf_running _ _ _ W0), Hl; reflexivity).
    assert (Hns : forall n, l_pc (s_l s t) <> PStartSpawn n).
    { intros n Hn. assert (t = 0).
      { unfold upc_ok in Hu. rewrite Hn in Hu. destruct (l_k (s_l s t)); [exact Hu | contradiction]. }
      subst t. rewrite (wf_start_idle _ _ _ W0 n Hn) in Hrun. discriminate. }
    destruct (Step_const _ _ _ _ _ _ _ _ _ _ Hst) as [Hc1 Hc2].
    assert (Hsame : g_ist g' = g_ist (s_g s) /\ g_il g' = g_il (s_g s)).
    { destruct (Step_running _ _ _ _ _ _ _ _ _ _ Hst) as [[n Hn] | [Hj | [Hx | (R1 & R2 & R3 & R4)]]]; auto.
      - exfalso. eapply Hns; eauto.
      - exfalso. destruct (s_l s t) as [p k]. simpl in Hj. subst p. inversion Hst; subst. congruence.
      - exfalso. destruct (s_l s t) as [p k]. simpl in Hx. subst p. unfold upc_ok in Hu. simpl in Hu. contradiction. }
    destruct Hsame as [I1 I2].
    assert (Hrd : readable (s_g s) CI = true -> readable g' CI = true) by (eapply user_readable_mono; eauto).
    assert (Hq' : c_q (g_ci g') = c_q (g_ci (s_g s)) \/ exists m, c_q (g_ci g') = c_q (g_ci (s_g s)) ++ [m]).
    { destruct (Step_qi_user absorb_n no_limit react _ _ _ _ _ _ _ Hu Hst) as [Q | [m Hm]]; [left; exact Q | right].
      destruct (s_l s t) as [p k]. simpl in Hm. subst p. inversion Hst; subst. exists m. reflexivity. }
    assert (Hhd : hd None (c_q (g_ci g')) = hd None (c_q (g_ci (s_g s))) /\ c_q (g_ci g') <> []).
    { destruct Hq' as [-> | [m ->]]; [auto|]. destruct (c_q (g_ci (s_g s))); [contradiction | split; [reflexivity | discriminate]]. }
    destruct Hhd as [Hh Hne].
    simpl. split; [congruence|]. split; [exact Hne|]. split; [exact Hh|].
    split; [eapply Step_rcvd_user; eauto|]. split; [|split; [exact I2 | split; [exact Hrd|]]].
    + unfold muh, mua, hdq. simpl. rewrite Hc1, Hc2, I2, Hh. apply Nat.add_le_mono_l. apply pen_le; simpl; auto.
      unfold upd. destruct (Nat.eqb_spec 0 t); [subst t; eapply user_odist; eauto | lia].
    + intros u Hnu. unfold upd. destruct (Nat.eqb_spec u t); [subst u; exfalso; eapply Hnu; reflexivity | left; reflexivity].
  - exfalso. eapply Hni; reflexivity.
Qed.

(* the dequeue itself *)
Lemma int_step_cs : forall s w k m rest, g_ist (s_g s) = ILive -> g_il (s_g s) = mkL (PRecvCS CI w) k ->
  c_q (g_ci (s_g s)) = m :: rest ->
  exists s' ev, sys_step s (LStep I CRun) = Some (s', ev) /\ c_rcvd (g_ci (s_g s')) = c_rcvd (g_ci (s_g s)) ++ [m].
Proof.
  intros s w k m rest Hl El Hq. simpl. rewrite Hl, El. unfold ThreadQ.step. simpl. rewrite Hq.
  eexists. eexists. split; [reflexivity|]. reflexivity.
Qed.

Definition goodh (s : sys) (n : nat) (rc : list msg) (h : msg) : Prop :=
  g_ist (s_g s) = ILive /\ c_q (g_ci (s_g s)) <> [] /\ muh s <= n /\ c_rcvd (g_ci (s_g s)) = rc /\ hdq s = h.

Lemma one_step_h : forall r i n rc h, R (f_st r 0) -> goodh (f_st r i) n rc h ->
  g_ist (s_g (f_st r (S i))) = IExited \/ c_rcvd (g_ci (s_g (f_st r (S i)))) = rc ++ [h] \/
  (goodh (f_st r (S i)) n rc h /\
   (f_lb r i = Some (LStep I CRun) -> muh (f_st r (S i)) < muh (f_st r i)) /\
   (f_lb r i <> Some (LStep I CRun) -> blk (f_st r i) = false -> blk (f_st r (S i)) = false) /\
   (forall u, f_lb r i <> Some (LStep (U u) CRun) -> pend (f_st r i) u = true -> pend (f_st r (S i)) u = true) /\
   (forall u, f_lb r i = Some (LStep (U u) CRun) -> pend (f_st r i) u = true -> blk (f_st r i) = true ->
              muh (f_st r (S i)) < muh (f_st r i))).
Proof.
  intros r i n rc h R0 (Hl & Hq & Hm & Hrc & Hh).
  pose proof (run_reach r R0 i) as Rs.
  pose proof (reachable_wf false absorb_n no_limit react any_label smode emode _ Rs) as W0.
  pose proof (f_step r i) as Hs.
  destruct (f_lb r i) as [lab|] eqn:Elb.
  2:{ right. right. rewrite Hs. split; [repeat split; auto|].
      split; [intros H; discriminate|]. split; [auto|]. split; [auto | intros u H; discriminate]. }
  destruct Hs as [ev Hs].
  destruct lab as [t o | [t|] c].
  - assert (Hni : forall c, LBegin t o <> LStep I c) by (intros c H; discriminate H).
    destruct (other_le_h _ _ _ _ Rs Hl Hq Hni Hs) as (L' & Q' & H' & Rc' & M' & I' & Rd & P').
    right. right. split; [repeat split; auto; try congruence; lia|].
    split; [intros H; discriminate|]. split.
    + intros _ Hb. unfold blk in *. rewrite I'. eapply blocked_mono; eauto. apply (wf_ipc _ _ _ W0 Hl).
    + split; [|intros u H; discriminate].
      intros u _ Pu. unfold pend in *.
      assert (Hnu : forall c, LBegin t o <> LStep (U u) c) by (intros c H; discriminate H).
      destruct (P' u Hnu) as [E | E]; [rewrite E; exact Pu|]. rewrite E in Pu. discriminate.
  - assert (Hni : forall c0, LStep (U t) c <> LStep I c0) by (intros c0 H; discriminate H).
    destruct (other_le_h _ _ _ _ Rs Hl Hq Hni Hs) as (L' & Q' & H' & Rc' & M' & I' & Rd & P').
    right. right. split; [repeat split; auto; try congruence; lia|].
    split; [intros H; discriminate|]. split.
    + intros _ Hb. unfold blk in *. rewrite I'. eapply blocked_mono; eauto. apply (wf_ipc _ _ _ W0 Hl).
    + split.
      * intros u Hnu Pu. unfold pend in *.
        destruct (Nat.eq_dec u t) as [-> | Hne].
        -- destruct c; [exfalso; apply Hnu; reflexivity|].
           exfalso. simpl in Hs. rewrite (pend_no_timeout _ _ Pu) in Hs. discriminate.
        -- destruct (P' u) as [E | E]; [intros c0 H; inv H; congruence | rewrite E; exact Pu | rewrite E in Pu; discriminate].
      * intros u Hu Pu Hb. inv Hu.
        destruct (sig_strict_any _ u W0 Hl Hb Hq Pu) as (s' & ev' & Hs' & _ & Q1 & _ & Hlt).
        rewrite Hs in Hs'. inv Hs'. unfold muh, hdq. rewrite Q1. apply Hlt.
  - destruct c.
    + assert (Hb : blk (f_st r i) = false).
      { unfold blk. destruct (blocked (s_g (f_st r i)) (g_il (s_g (f_st r i)))) eqn:Hb; [|reflexivity].
        exfalso. simpl in Hs. rewrite Hl, (blocked_no_step _ _ Hb) in Hs. discriminate. }
      destruct (g_il (s_g (f_st r i))) as [p k] eqn:El.
      assert (Hcs : (exists w, p = PRecvCS CI w) \/ (forall w, p <> PRecvCS CI w)).
      { destruct p; try (right; intros w0 H; discriminate). destruct c; [left; eauto | right; intros w0 H; discriminate]. }
      destruct Hcs as [[w ->] | Hncs].
      * (* the dequeue *)
        destruct (c_q (g_ci (s_g (f_st r i)))) as [|m rest] eqn:Eq; [contradiction|].
        destruct (int_step_cs _ w k m rest Hl El Eq) as (s' & ev' & Hs' & Hr').
        rewrite Hs in Hs'. inv Hs'. right. left. rewrite Hr'. unfold hdq. rewrite Eq. reflexivity.
      * assert (Hncs' : forall w, l_pc (g_il (s_g (f_st r i))) <> PRecvCS CI w) by (rewrite El; exact Hncs).
        assert (Hro : replies_only (g_il (s_g (f_st r i)))) by (apply reachable_ro; assumption).
        unfold blk in Hb.
        destruct (int_step_any _ W0 Hl Hb Hro Hncs') as (s' & ev' & Hs' & Hc).
        rewrite Hs in Hs'. inv Hs'.
        destruct Hc as [Hx | (Hl' & Q1 & Q3 & Hlt)]; [left; exact Hx|].
        right. right.
        assert (Hh' : hdq (f_st r (S i)) = hdq (f_st r i)) by (unfold hdq; rewrite Q1; reflexivity).
        assert (Hlt' : muh (f_st r (S i)) < muh (f_st r i)) by (unfold muh; rewrite Hh'; apply Hlt).
        split; [repeat split; auto; try congruence; lia|].
        split; [intros _; exact Hlt'|]. split; [intros H; exfalso; apply H; reflexivity|].
        split; [|intros u H; discriminate].
        intros u _ Pu. unfold pend in *. simpl in Hs. rewrite Hl in Hs.
        destruct (step CRun (s_g (f_st r i)) (g_il (s_g (f_st r i)))) as [[[g' l'] e']|]; [|discriminate].
        injection Hs as E1 E2. rewrite <- E1. simpl. exact Pu.
    + exfalso. rewrite (no_int_timeout _ Rs Hl) in Hs. discriminate.
Qed.

Section OneRunH.
Variable r : frun.
Hypothesis R0 : R (f_st r 0).
Hypothesis Hfair : fair r.

Notation st := (f_st r).
Notation lb := (f_lb r).

Definition closerh (i n : nat) (rc : list msg) (h : msg) : Prop :=
  exists j, i <= j /\ (g_ist (s_g (st j)) = IExited \/ c_rcvd (g_ci (s_g (st j))) = rc ++ [h] \/
                       (goodh (st j) n rc h /\ muh (st j) < n)).

Lemma unblocked_closerh : forall d i n rc h, goodh (st i) n rc h -> blk (st i) = false ->
  (lb (i + d) = Some (LStep I CRun) \/ ~ en_I (st (i + d))) -> closerh i n rc h.
Proof.
  induction d as [|d IH]; intros i n rc h Hg Hb Hw.
  - rewrite Nat.add_0_r in Hw.
    destruct (one_step_h r i n rc h R0 Hg) as [Hx | [Hx | (Hg' & Hlt & _)]];
      [exists (S i); split; [lia | left; exact Hx] | exists (S i); split; [lia | right; left; exact Hx] |].
    destruct Hw as [Hw | Hw].
    + exists (S i). split; [lia|]. right. right. split; [exact Hg'|]. destruct Hg as (_ & _ & Hm & _). specialize (Hlt Hw). lia.
    + exfalso. apply Hw. destruct Hg as (Hl & _). apply (int_enabled absorb_n no_limit react); assumption.
  - destruct (one_step_h r i n rc h R0 Hg) as [Hx | [Hx | (Hg' & Hlt & Hpb & _)]];
      [exists (S i); split; [lia | left; exact Hx] | exists (S i); split; [lia | right; left; exact Hx] |].
    destruct (is_int_run (lb i)) eqn:Ei.
    + apply is_int_run_spec in Ei. exists (S i). split; [lia|]. right. right. split; [exact Hg'|].
      destruct Hg as (_ & _ & Hm & _). specialize (Hlt Ei). lia.
    + assert (Hne : lb i <> Some (LStep I CRun)) by (intros E; apply is_int_run_spec in E; congruence).
      destruct (IH (S i) n rc h Hg' (Hpb Hne Hb)) as (j & Hj & Hc); [replace (S i + d) with (i + S d) by lia; exact Hw|].
      exists j. split; [lia | exact Hc].
Qed.

Lemma blocked_closerh : forall d i n rc h u, goodh (st i) n rc h -> pend (st i) u = true ->
  (lb (i + d) = Some (LStep (U u) CRun) \/ ~ en_U u (st (i + d))) -> closerh i n rc h.
Proof.
  induction d as [|d IH]; intros i n rc h u Hg Pu Hw.
  - rewrite Nat.add_0_r in Hw.
    destruct (blk (st i)) eqn:Hb.
    2:{ destruct (proj1 Hfair i) as (j & Hj & Hwj). replace j with (i + (j - i)) in Hwj by lia.
        eapply unblocked_closerh; eauto. }
    destruct (one_step_h r i n rc h R0 Hg) as [Hx | [Hx | (Hg' & _ & _ & _ & Hstrict)]];
      [exists (S i); split; [lia | left; exact Hx] | exists (S i); split; [lia | right; left; exact Hx] |].
    destruct Hw as [Hw | Hw].
    + exists (S i). split; [lia|]. right. right. split; [exact Hg'|]. destruct Hg as (_ & _ & Hm & _). specialize (Hstrict u Hw Pu Hb). lia.
    + exfalso. apply Hw. apply (user_enabled absorb_n no_limit react). apply pend_i_unblocked. exact Pu.
  - destruct (blk (st i)) eqn:Hb.
    2:{ destruct (proj1 Hfair i) as (j & Hj & Hwj). replace j with (i + (j - i)) in Hwj by lia.
        eapply unblocked_closerh; eauto. }
    destruct (one_step_h r i n rc h R0 Hg) as [Hx | [Hx | (Hg' & _ & _ & Hpp & Hstrict)]];
      [exists (S i); split; [lia | left; exact Hx] | exists (S i); split; [lia | right; left; exact Hx] |].
    destruct (is_u_run u (lb i)) eqn:Eu.
    + apply is_u_run_spec in Eu. exists (S i). split; [lia|]. right. right. split; [exact Hg'|].
      destruct Hg as (_ & _ & Hm & _). specialize (Hstrict u Eu Pu Hb). lia.
    + assert (Hne : lb i <> Some (LStep (U u) CRun)) by (intros E; apply is_u_run_spec in E; congruence).
      destruct (IH (S i) n rc h u Hg' (Hpp u Hne Pu)) as (j & Hj & Hc); [replace (S i + d) with (i + S d) by lia; exact Hw|].
      exists j. split; [lia | exact Hc].
Qed.

(* Under weak fairness the Message at the head of the internal thread's queue is eventually received (unless the thread
   finishes first: a NULL Message taken earlier, or its MessageReceivedFromOwner asked to leave) -- whatever the other
   threads do meanwhile.  With the FIFO theorems: every queued Message is eventually received, in order. *)
Theorem queued_message_eventually_received : forall i m rest,
  g_ist (s_g (st i)) = ILive -> c_q (g_ci (s_g (st i))) = m :: rest ->
  exists j, i <= j /\ (g_ist (s_g (st j)) = IExited \/ c_rcvd (g_ci (s_g (st j))) = c_rcvd (g_ci (s_g (st i))) ++ [m]).
Proof.
  intros i m rest Hl Hq.
  set (rc := c_rcvd (g_ci (s_g (st i)))).
  assert (Hg : goodh (st i) (muh (st i)) rc m).
  { repeat split; auto; try lia. rewrite Hq. discriminate. unfold hdq. rewrite Hq. reflexivity. }
  clearbody rc. remember (muh (st i)) as n eqn:En. clear En Hq Hl. revert i Hg.
  induction n as [n IH] using lt_wf_ind. intros i Hg.
  assert (Hc : closerh i n rc m).
  { destruct Hg as (Hl & Hq & Hm & Hrc & Hh).
    destruct (blk (st i)) eqn:Hb.
    - pose proof (run_reach r R0 i) as Rs.
      pose proof (reachable_wf false absorb_n no_limit react any_label smode emode _ Rs) as W0.
      pose proof (reachable_wake absorb_n no_limit react Hnl any_label smode emode _ Rs) as Wk.
      destruct (blocked_int _ _ (wf_ipc _ _ _ W0 Hl) Hb) as [Hw Hr].
      destruct (wk_ai _ Wk Hl Hw Hq) as [Rd | [u Pu]]; [congruence|].
      destruct (proj2 Hfair u i) as (j & Hj & Hwj). replace j with (i + (j - i)) in Hwj by lia.
      eapply blocked_closerh; eauto. repeat split; auto.
    - destruct (proj1 Hfair i) as (j & Hj & Hwj). replace j with (i + (j - i)) in Hwj by lia.
      eapply unblocked_closerh; eauto. repeat split; auto. }
  destruct Hc as (j & Hj & [Hx | [Hx | (Hg' & Hlt)]]); [exists j; auto | exists j; auto |].
  assert (Hg'' : goodh (st j) (muh (st j)) rc m).
  { destruct Hg' as (A & B & C & D & E). repeat split; auto. }
  destruct (IH (muh (st j)) Hlt j Hg'') as (j' & Hj' & Hx).
  exists j'. split; [lia | exact Hx].
Qed.

End OneRunH.

End Progress.

Example ex_null_seen : forall n nl, exists s, reachable_if false n nl react0 any_label true false s /\
  g_ist (s_g s) = ILive /\ null_seen s.
Proof.
  intros n nl. destruct (ex_shutdown_waiting n nl) as (s & Rs & _ & _ & Hl & Hq).
  exists s. split; [exact Rs|]. split; [exact Hl|]. left. rewrite Hq. left. reflexivity.
Qed.
