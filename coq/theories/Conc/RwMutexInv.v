(* C18 -- the inductive invariant of the ReaderWriterMutex LTS: the table is either in "read mode" (no write
   recursion anywhere, total = 0) or in "write mode" (exactly one executing thread, whose write recursion count is
   the total); every thread's place in the code agrees with what the tables say about it. *)
From Coq Require Import List Arith Bool Lia.
Import ListNotations.
From Muscle Require Import Conc.RwMutexModel Conc.RwMutexProofs.

(* ---- what the tables must say about a thread, given where it is in the code ---- *)

Definition mk_ent (a b : nat) : option ent :=
  match a, b with
  | 0, 0 => None
  | _, _ => Some (mkEnt a b)
  end.

Definition flag (s : status) : nat := match s with SOk => 1 | _ => 0 end.

(* the recursion counts the thread must have in _executingThreads right now *)
Definition hold (l : loc) : nat * nat :=
  match l_stk l with
  | [] => (l_hro l, l_hrw l)
  | FDrop n i _ :: _ => (n - i, 0)
  | FInner _ :: _ => (0, 0)
  | FRelock _ i lrw :: _ => (i, flag lrw)
  end.

Definition exp_ent (l : loc) : option ent := mk_ent (fst (hold l)) (snd (hold l)).

Definition inwr (l : loc) : bool := match l_act l with AParkRO _ | AWokeRO _ _ => true | _ => false end.
Definition inww (l : loc) : bool := match l_act l with AParkRW _ | AWokeRW _ _ => true | _ => false end.

(* purely local well-formedness of a thread's control state *)
Definition wf (l : loc) : Prop :=
  match l_stk l with
  | [] =>
      match l_act l with
      | AIdle => l_op l = None
      | AEnterRO d => l_op l = Some (OLockRO d)
      | AEnterRW d => l_op l = Some (OLockRW d)
      | AEnterUnRO => l_op l = Some OUnlockRO
      | AEnterUnRW => l_op l = Some OUnlockRW
      | AParkRO d => l_op l = Some (OLockRO d) /\ d <> Try /\ l_hro l = 0 /\ l_hrw l = 0
      | AWokeRO d ok => l_op l = Some (OLockRO d) /\ d <> Try /\ (ok = false -> d = Timed) /\ l_hro l = 0 /\ l_hrw l = 0
      | AParkRW d => l_op l = Some (OLockRW d) /\ d <> Try /\ l_hro l = 0 /\ l_hrw l = 0
      | AWokeRW d ok => l_op l = Some (OLockRW d) /\ d <> Try /\ (ok = false -> d = Timed) /\ l_hro l = 0 /\ l_hrw l = 0
      end
  | [FDrop n i d] =>
      l_act l = AEnterUnRO /\ i < n /\ l_hro l = n /\ l_hrw l = 0 /\ l_op l = Some (OLockRW d)
  | [FInner n] =>
      0 < n /\ l_hro l = n /\ l_hrw l = 0 /\
      exists d, l_op l = Some (OLockRW d) /\
                (l_act l = AEnterRW d \/
                 (d <> Try /\ (l_act l = AParkRW d \/ exists ok, l_act l = AWokeRW d ok /\ (ok = false -> d = Timed))))
  | [FRelock n i lrw] =>
      i < n /\ l_hro l = n /\ l_hrw l = 0 /\ (lrw = SOk \/ lrw = STimedOut) /\ (exists d, l_op l = Some (OLockRW d)) /\
      (l_act l = AEnterRO Never \/
       (i = 0 /\ lrw = STimedOut /\ (l_act l = AParkRO Never \/ l_act l = AWokeRO Never true)))
  | _ => False
  end.

Record linv (g : gst) (t : tid) (l : loc) : Prop := mkLinv {
  li_wf : wf l;
  li_ex : find t (g_exec g) = exp_ent l;
  li_wr : memk t (g_wr g) = inwr l;
  li_ww : memk t (g_ww g) = inww l
}.

Definition read_mode (g : gst) : Prop := g_total g = 0 /\ forall t e, In (t, e) (g_exec g) -> e_rw e = 0.
Definition write_mode (g : gst) : Prop := exists t e, g_exec g = [(t, e)] /\ e_rw e = g_total g /\ 0 < g_total g.
Definition mode (g : gst) : Prop := read_mode g \/ write_mode g.

Definition inv (s : sys) : Prop := mode (s_g s) /\ forall t, linv (s_g s) t (s_l s t).

(* ---- small facts ---- *)

Lemma mk_ent_some : forall a b e, mk_ent a b = Some e -> e = mkEnt a b /\ 0 < a + b.
Proof. intros [|a] [|b] e H; cbn in H; inversion H; split; auto; lia. Qed.

Lemma mk_ent_none : forall a b, mk_ent a b = None -> a = 0 /\ b = 0.
Proof. intros [|a] [|b] H; cbn in H; try discriminate; auto. Qed.

Lemma mk_ent_pos : forall a b, 0 < a + b -> mk_ent a b = Some (mkEnt a b).
Proof. intros [|a] [|b] H; cbn; auto; lia. Qed.

Lemma mk_ent_S_l : forall a b, mk_ent (S a) b = Some (mkEnt (S a) b).
Proof. intros. reflexivity. Qed.

Lemma mk_ent_S_r : forall a b, mk_ent a (S b) = Some (mkEnt a (S b)).
Proof. intros [|a] b; reflexivity. Qed.

Lemma ent_eta : forall e, mkEnt (e_ro e) (e_rw e) = e.
Proof. intros [a b]. reflexivity. Qed.

(* ---- the mode invariant is preserved by every critical section ---- *)

Ltac break_in H :=
  repeat match type of H with
  | context [match ?x with _ => _ end] => destruct x eqn:?
  end.

Ltac break_cs H :=
  unfold enter_ro, woke_ro, enter_rw, woke_rw, unlock_ro, unlock_rw in H;
  break_in H; inversion H; subst; clear H.

Lemma mode_shape : forall g g', same_shape g g' -> mode g -> mode g'.
Proof.
  intros g g' [Ht He _ _ _ _ _] [[H0 Hr]|(t & e & Hx & Hw & Hp)].
  - left. split; [congruence|]. rewrite He. auto.
  - right. exists t, e. rewrite He, Ht. auto.
Qed.

Lemma write_find : forall g t e, write_mode g -> find t (g_exec g) = Some e -> g_exec g = [(t, e)] /\ e_rw e = g_total g /\ 0 < g_total g.
Proof.
  intros g t e (t0 & e0 & Hx & Hw & Hp) Hf. rewrite Hx in Hf. apply find_single in Hf. destruct Hf; subst. auto.
Qed.

Lemma read_total : forall g, read_mode g -> g_total g = 0.
Proof. intros g [H _]; auto. Qed.

Lemma write_total : forall g, write_mode g -> g_total g <> 0.
Proof. intros g (t0 & e0 & Hx & Hw & Hp). lia. Qed.

Lemma write_exec_nonnil : forall g, write_mode g -> is_nil (g_exec g) = false.
Proof. intros g (t0 & e0 & Hx & Hw & Hp). rewrite Hx. reflexivity. Qed.

Section P.
Variable pref : bool.


Lemma setv_single : forall (t : tid) (e v : ent), setv t v [(t, e)] = [(t, v)].
Proof. intros. cbn [setv]. rewrite Nat.eqb_refl. reflexivity. Qed.

Lemma remove_single : forall (t : tid) (e : ent), remove t [(t, e)] = [].
Proof. intros. cbn [remove]. rewrite Nat.eqb_refl. reflexivity. Qed.

Lemma len1_find : forall (l : list (tid * ent)) t e, length l = 1 -> find t l = Some e -> l = [(t, e)].
Proof.
  intros [|[k0 e0] [|]] t e Hl Hf; cbn in Hl; try discriminate.
  apply find_single in Hf. destruct Hf; subst. reflexivity.
Qed.

Lemma read_setv : forall g t v x, read_mode g -> e_rw v = 0 -> x = setv t v (g_exec g) ->
  forall k e, In (k, e) x -> e_rw e = 0.
Proof.
  intros g t v x [_ Hr] Hv -> k e Hin. apply in_setv in Hin. destruct Hin as [[_ ->]|Hin]; eauto.
Qed.

Lemma read_remove : forall g t x, read_mode g -> x = remove t (g_exec g) ->
  forall k e, In (k, e) x -> e_rw e = 0.
Proof. intros g t x [_ Hr] -> k e Hin. apply in_remove in Hin. eauto. Qed.

Lemma read_find : forall g t e, read_mode g -> find t (g_exec g) = Some e -> e_rw e = 0.
Proof. intros g t e [_ Hr] Hf. apply find_in in Hf. eauto. Qed.

Lemma enter_ro_mode : forall t d g g' ns out, mode g -> enter_ro pref t d g = (g', ns, out) -> mode g'.
Proof.
  intros t d g g' ns out Hm H. break_cs H; auto.
  - (* recursive read lock *)
    destruct Hm as [Hr|Hw].
    + left. split; [apply Hr|]. cbn. eapply read_setv; eauto; try reflexivity. cbn. eapply read_find; eauto.
    + destruct (write_find _ _ _ Hw Heqo) as (Hx & Hrw & Hp).
      right. exists t, (mkEnt (S (e_ro e)) (e_rw e)). cbn. rewrite Hx, setv_single. auto.
  - (* fresh reader admitted *)
    unfold ok_readers in Heqb. apply andb_prop in Heqb. destruct Heqb as [Ht _]. apply Nat.eqb_eq in Ht.
    destruct Hm as [Hr|Hw]; [|apply write_total in Hw; contradiction].
    left. split; [auto|]. cbn. eapply read_setv; eauto; try reflexivity.
Qed.

Lemma leave_wr_mode : forall t g, mode g -> mode (leave_wr t g).
Proof. intros t g Hm. unfold leave_wr. destruct (find t (g_wr g)); auto. Qed.

Lemma leave_ww_mode : forall t g, mode g -> mode (leave_ww t g).
Proof. intros t g Hm. unfold leave_ww. destruct (find t (g_ww g)); auto. Qed.

Lemma maybe_notify_mode : forall g, mode g -> mode (fst (maybe_notify pref g)).
Proof. intros. eapply mode_shape; eauto. apply maybe_notify_shape. Qed.

Lemma woke_ro_mode : forall t d ok g g' ns out, mode g -> woke_ro pref t d ok g = (g', ns, out) -> mode g'.
Proof.
  intros t d ok g g' ns out Hm H. unfold woke_ro in H.
  destruct (negb ok).
  - destruct (maybe_notify pref (leave_wr t g)) as [g2 ns2] eqn:E. inversion H; subst.
    change g' with (fst (g', ns)). rewrite <- E. apply maybe_notify_mode, leave_wr_mode, Hm.
  - destruct (ok_readers pref g) eqn:Eok; inversion H; subst; auto.
    apply leave_wr_mode.
    unfold ok_readers in Eok. apply andb_prop in Eok. destruct Eok as [Ht _]. apply Nat.eqb_eq in Ht.
    destruct Hm as [Hr|Hw]; [|apply write_total in Hw; contradiction].
    left. split; [auto|]. cbn. eapply read_setv; eauto; try reflexivity.
Qed.

Lemma writer_admit_mode : forall t g x, mode g -> ok_writer t g = true -> x = setv t (mkEnt 0 1) (g_exec g) ->
  mode (mkG (S (g_total g)) x (g_wr g) (g_ww g) (g_pool g)).
Proof.
  intros t g x Hm Hok ->. unfold ok_writer in Hok. apply andb_prop in Hok. destruct Hok as [Hnil _].
  apply is_nil_true in Hnil.
  destruct Hm as [Hr|Hw]; [|apply write_exec_nonnil in Hw; rewrite Hnil in Hw; discriminate].
  right. exists t, (mkEnt 0 1). rewrite Hnil, (read_total _ Hr). cbn. auto.
Qed.

Lemma enter_rw_mode : forall t d g g' ns out, mode g -> enter_rw t d g = (g', ns, out) -> mode g'.
Proof.
  intros t d g g' ns out Hm H. break_cs H; auto.
  - (* recursive / sole-holder write lock *)
    destruct Hm as [Hr|Hw].
    + pose proof (read_find _ _ _ Hr Heqo) as Hz. rewrite Hz in Heqb. cbn in Heqb.
      apply Nat.eqb_eq in Heqb.
      pose proof (len1_find _ _ _ Heqb Heqo) as Hx.
      right. exists t, (mkEnt (e_ro e) (S (e_rw e))). cbn. rewrite Hx, setv_single, Hz, (read_total _ Hr). auto.
    + destruct (write_find _ _ _ Hw Heqo) as (Hx & Hrw & Hp).
      right. exists t, (mkEnt (e_ro e) (S (e_rw e))). cbn. rewrite Hx, setv_single. cbn. auto with arith.
  - eapply writer_admit_mode; eauto.
Qed.

Lemma woke_rw_mode : forall t d ok g g' ns out, mode g -> woke_rw pref t d ok g = (g', ns, out) -> mode g'.
Proof.
  intros t d ok g g' ns out Hm H. unfold woke_rw in H.
  destruct (negb ok).
  - destruct (maybe_notify pref (leave_ww t g)) as [g2 ns2] eqn:E. inversion H; subst.
    change g' with (fst (g', ns)). rewrite <- E. apply maybe_notify_mode, leave_ww_mode, Hm.
  - destruct (ok_writer t g) eqn:Eok; inversion H; subst; auto.
    apply leave_ww_mode. eapply writer_admit_mode; eauto.
Qed.

Lemma unlock_ro_mode : forall t g g' ns out, mode g -> unlock_ro pref t g = (g', ns, out) -> mode g'.
Proof.
  intros t g g' ns out Hm H. unfold unlock_ro in H.
  destruct (find t (g_exec g)) as [e|] eqn:Hf; [|inversion H; subst; auto].
  destruct (e_ro e) as [|r] eqn:Hro; [inversion H; subst; auto|].
  destruct (Nat.eqb r 0 && Nat.eqb (e_rw e) 0) eqn:Hz.
  - destruct (maybe_notify pref (set_exec g (remove t (g_exec g)))) as [g2 ns2] eqn:E. inversion H; subst.
    change g' with (fst (g', ns)). rewrite <- E. apply maybe_notify_mode.
    apply andb_prop in Hz. destruct Hz as [_ Hz]. apply Nat.eqb_eq in Hz.
    destruct Hm as [Hr|Hw].
    + left. split; [apply Hr|]. cbn. eapply read_remove; eauto.
    + destruct (write_find _ _ _ Hw Hf) as (Hx & Hrw & Hp). lia.
  - inversion H; subst.
    destruct Hm as [Hr|Hw].
    + left. split; [apply Hr|]. cbn. eapply read_setv; eauto; try reflexivity. cbn. eapply read_find; eauto.
    + destruct (write_find _ _ _ Hw Hf) as (Hx & Hrw & Hp).
      right. exists t, (mkEnt r (e_rw e)). cbn. rewrite Hx, setv_single. auto.
Qed.

Lemma unlock_rw_mode : forall t g g' ns out, mode g -> unlock_rw pref t g = (g', ns, out) -> mode g'.
Proof.
  intros t g g' ns out Hm H. unfold unlock_rw in H.
  destruct (find t (g_exec g)) as [e|] eqn:Hf; [|inversion H; subst; auto].
  destruct (e_rw e) as [|w] eqn:Hrw; [inversion H; subst; auto|].
  destruct Hm as [Hr|Hw]; [pose proof (read_find _ _ _ Hr Hf); lia|].
  destruct (write_find _ _ _ Hw Hf) as (Hx & Htot & Hp).
  set (ex := if Nat.eqb w 0 && Nat.eqb (e_ro e) 0 then remove t (g_exec g) else setv t (mkEnt (e_ro e) w) (g_exec g)) in *.
  set (g1 := mkG (pred (g_total g)) ex (g_wr g) (g_ww g) (g_pool g)) in *.
  assert (Hg1 : mode g1).
  { unfold g1, ex. rewrite Hx, remove_single, setv_single.
    destruct w as [|w'].
    - (* last write level *)
      left. split; [cbn; lia|]. cbn [g_exec]. cbn [Nat.eqb andb].
      destruct (Nat.eqb (e_ro e) 0); intros k e' Hin; [destruct Hin|].
      destruct Hin as [Hin|[]]. inversion Hin. reflexivity.
    - right. exists t, (mkEnt (e_ro e) (S w')). cbn. split; [reflexivity|]. split; lia. }
  destruct (Nat.eqb (pred (g_total g)) 0).
  - destruct (Nat.ltb 0 (e_ro e)).
    + destruct (notify_all_readers g1) as [g2 ns2] eqn:E. inversion H; subst.
      change g' with (fst (g', ns)). rewrite <- E. eapply mode_shape; [apply notify_all_readers_shape|auto].
    + destruct (is_nil ex).
      * destruct (notify_some pref g1) as [g2 ns2] eqn:E. inversion H; subst.
        change g' with (fst (g', ns)). rewrite <- E. eapply mode_shape; [apply notify_some_shape|auto].
      * inversion H; subst. auto.
  - inversion H; subst. auto.
Qed.

Lemma cs_mode : forall t a g g' ns out, mode g -> cs pref t a g = Some (g', ns, out) -> mode g'.
Proof.
  intros t a g g' ns out Hm H. destruct a; cbn [cs] in H; inversion H; clear H;
    eauto using enter_ro_mode, woke_ro_mode, enter_rw_mode, woke_rw_mode, unlock_ro_mode, unlock_rw_mode.
Qed.


(* ---- frame: a transition of thread t leaves the table entries of every other thread alone ---- *)

Record frame_ok (t : tid) (g g' : gst) : Prop := mkFrame {
  fr_exec : forall k, k <> t -> find k (g_exec g') = find k (g_exec g);
  fr_wr : forall k, k <> t -> memk k (g_wr g') = memk k (g_wr g);
  fr_ww : forall k, k <> t -> memk k (g_ww g') = memk k (g_ww g)
}.

Lemma frame_refl : forall t g, frame_ok t g g.
Proof. constructor; auto. Qed.

Lemma frame_trans : forall t g1 g2 g3, frame_ok t g1 g2 -> frame_ok t g2 g3 -> frame_ok t g1 g3.
Proof.
  intros t g1 g2 g3 [A1 A2 A3] [B1 B2 B3]. constructor; intros k Hk.
  - rewrite B1, A1; auto.
  - rewrite B2, A2; auto.
  - rewrite B3, A3; auto.
Qed.

Lemma frame_shape : forall t g g', same_shape g g' -> frame_ok t g g'.
Proof.
  intros t g g' [_ He _ Hr Hw _ _]. constructor; intros k _; [rewrite He|..]; auto.
Qed.

Lemma frame_leave_wr : forall t g, frame_ok t g (leave_wr t g).
Proof.
  intros t g. unfold leave_wr. destruct (find t (g_wr g)); [|apply frame_refl].
  constructor; cbn; auto. intros k Hk. apply memk_remove_other; auto.
Qed.

Lemma frame_leave_ww : forall t g, frame_ok t g (leave_ww t g).
Proof.
  intros t g. unfold leave_ww. destruct (find t (g_ww g)); [|apply frame_refl].
  constructor; cbn; auto. intros k Hk. apply memk_remove_other; auto.
Qed.

Lemma frame_mk : forall t g tot ex wr ww p,
  (ex = g_exec g \/ (exists v, ex = setv t v (g_exec g)) \/ ex = remove t (g_exec g)) ->
  (wr = g_wr g \/ exists c, wr = setv t c (g_wr g)) ->
  (ww = g_ww g \/ exists c, ww = setv t c (g_ww g)) ->
  frame_ok t g (mkG tot ex wr ww p).
Proof.
  intros t g tot ex wr ww p He Hr Hw. constructor; intros k Hk; cbn.
  - destruct He as [->|[[v ->]| ->]]; auto using find_setv_other, find_remove_other.
  - destruct Hr as [->|[c ->]]; auto using memk_setv_other.
  - destruct Hw as [->|[c ->]]; auto using memk_setv_other.
Qed.

Lemma frame_maybe : forall t g g1, frame_ok t g g1 -> frame_ok t g (fst (maybe_notify pref g1)).
Proof. intros. eapply frame_trans; eauto. apply frame_shape, maybe_notify_shape. Qed.

Lemma cs_frame : forall t a g g' ns out, cs pref t a g = Some (g', ns, out) -> frame_ok t g g'.
Proof.
  intros t a g g' ns out H. destruct a; cbn [cs] in H; try discriminate; inversion H as [H1]; clear H.
  - (* enter_ro *) break_cs H1; try apply frame_refl; unfold set_exec; apply frame_mk; eauto.
  - (* enter_rw *) break_cs H1; try apply frame_refl; apply frame_mk; eauto.
  - (* unlock_ro *)
    unfold unlock_ro in H1. destruct (find t (g_exec g)) as [e|]; [|inversion H1; apply frame_refl].
    destruct (e_ro e) as [|r]; [inversion H1; apply frame_refl|].
    destruct (Nat.eqb r 0 && Nat.eqb (e_rw e) 0).
    + destruct (maybe_notify pref (set_exec g (remove t (g_exec g)))) as [g2 ns2] eqn:E. inversion H1; subst.
      change g' with (fst (g', ns)). rewrite <- E. apply frame_maybe. unfold set_exec. apply frame_mk; eauto.
    + inversion H1; subst. unfold set_exec. apply frame_mk; eauto.
  - (* unlock_rw *)
    unfold unlock_rw in H1. destruct (find t (g_exec g)) as [e|]; [|inversion H1; apply frame_refl].
    destruct (e_rw e) as [|w]; [inversion H1; apply frame_refl|].
    match type of H1 with context [mkG ?a ?b ?c ?d ?e] => assert (Hf : frame_ok t g (mkG a b c d e)) end.
    { apply frame_mk; auto. destruct (Nat.eqb w 0 && Nat.eqb (e_ro e) 0); eauto. }
    match type of H1 with (let (_, _) := ?x in _) = _ => destruct x as [g2 ns2] eqn:E end.
    inversion H1; subst. clear H1.
    destruct (Nat.eqb (pred (g_total g)) 0).
    + destruct (Nat.ltb 0 (e_ro e)).
      * change g' with (fst (g', ns)). rewrite <- E. eapply frame_trans; [eauto|]. apply frame_shape, notify_all_readers_shape.
      * match type of E with (if ?c then _ else _) = _ => destruct c end.
        -- change g' with (fst (g', ns)). rewrite <- E. eapply frame_trans; [eauto|]. apply frame_shape, notify_some_shape.
        -- inversion E; subst. auto.
    + inversion E; subst. auto.
  - (* woke_ro *)
    unfold woke_ro in H1. destruct (negb ok).
    + destruct (maybe_notify pref (leave_wr t g)) as [g2 ns2] eqn:E. inversion H1; subst.
      change g' with (fst (g', ns)). rewrite <- E. apply frame_maybe, frame_leave_wr.
    + destruct (ok_readers pref g); inversion H1; subst; [|apply frame_refl].
      eapply frame_trans; [|apply frame_leave_wr]. unfold set_exec. apply frame_mk; eauto.
  - (* woke_rw *)
    unfold woke_rw in H1. destruct (negb ok).
    + destruct (maybe_notify pref (leave_ww t g)) as [g2 ns2] eqn:E. inversion H1; subst.
      change g' with (fst (g', ns)). rewrite <- E. apply frame_maybe, frame_leave_ww.
    + destruct (ok_writer t g); inversion H1; subst; [|apply frame_refl].
      eapply frame_trans; [|apply frame_leave_ww]. apply frame_mk; eauto.
Qed.

Lemma run_cs_frame : forall t g l g' l' o, run_cs pref t g l = Some (g', l', o) -> frame_ok t g g'.
Proof.
  intros t g l g' l' o. unfold run_cs.
  destruct (cs pref t (l_act l) g) as [[[g1 ns] out]|] eqn:E; [|discriminate].
  apply cs_frame in E.
  destruct out; [destruct (complete l s)|..]; intros H; inversion H; subst; auto.
Qed.

Lemma step_frame : forall t c g l g' l' o, step pref t c g l = Some (g', l', o) -> frame_ok t g g'.
Proof.
  intros t c g l g' l' o. unfold step. destruct c.
  - destruct (l_act l) eqn:Ha; try apply run_cs_frame.
    + destruct (find t (g_wr g)) as [[|n]|]; try discriminate. intros H; inversion H; subst.
      constructor; cbn; auto. intros k Hk. apply memk_setc.
    + destruct (find t (g_ww g)) as [[|n]|]; try discriminate. intros H; inversion H; subst.
      constructor; cbn; auto. intros k Hk. apply memk_setc.
  - destruct (l_act l); try discriminate; destruct d; try discriminate; intros H; inversion H; apply frame_refl.
Qed.


(* ---- the thread that makes a transition stays consistent with the tables ---- *)

Ltac mk_inv :=
  repeat match goal with
  | H : mk_ent _ _ = Some _ |- _ => apply mk_ent_some in H; destruct H
  | H : Some _ = mk_ent _ _ |- _ => symmetry in H
  | H : mk_ent _ _ = None |- _ => apply mk_ent_none in H; destruct H
  | H : None = mk_ent _ _ |- _ => symmetry in H
  end.

Ltac break_all H :=
  repeat match type of H with
  | context [match ?x with _ => _ end] => destruct x eqn:?
  end; try discriminate; inversion H; subst; clear H.




Lemma leave_wr_exec : forall t g, g_exec (leave_wr t g) = g_exec g.
Proof. intros. unfold leave_wr. destruct (find t (g_wr g)); reflexivity. Qed.
Lemma leave_wr_ww : forall t g, g_ww (leave_wr t g) = g_ww g.
Proof. intros. unfold leave_wr. destruct (find t (g_wr g)); reflexivity. Qed.
Lemma leave_wr_total : forall t g, g_total (leave_wr t g) = g_total g.
Proof. intros. unfold leave_wr. destruct (find t (g_wr g)); reflexivity. Qed.
Lemma leave_wr_memk : forall t g, memk t (g_wr (leave_wr t g)) = false.
Proof.
  intros. unfold leave_wr. destruct (find t (g_wr g)) eqn:E; cbn.
  - apply memk_remove_same.
  - unfold memk. rewrite E. reflexivity.
Qed.
Lemma leave_ww_exec : forall t g, g_exec (leave_ww t g) = g_exec g.
Proof. intros. unfold leave_ww. destruct (find t (g_ww g)); reflexivity. Qed.
Lemma leave_ww_wr : forall t g, g_wr (leave_ww t g) = g_wr g.
Proof. intros. unfold leave_ww. destruct (find t (g_ww g)); reflexivity. Qed.
Lemma leave_ww_total : forall t g, g_total (leave_ww t g) = g_total g.
Proof. intros. unfold leave_ww. destruct (find t (g_ww g)); reflexivity. Qed.
Lemma leave_ww_memk : forall t g, memk t (g_ww (leave_ww t g)) = false.
Proof.
  intros. unfold leave_ww. destruct (find t (g_ww g)) eqn:E; cbn.
  - apply memk_remove_same.
  - unfold memk. rewrite E. reflexivity.
Qed.

Lemma maybe_leave_wr : forall t g g2 ns, maybe_notify pref (leave_wr t g) = (g2, ns) ->
  g_exec g2 = g_exec g /\ memk t (g_wr g2) = false /\ memk t (g_ww g2) = memk t (g_ww g).
Proof.
  intros t g g2 ns E. pose proof (maybe_notify_shape pref (leave_wr t g)) as S. rewrite E in S. cbn [fst] in S.
  destruct S as [_ He _ Hr Hw _ _]. rewrite He, Hr, Hw, leave_wr_exec, leave_wr_memk, leave_wr_ww. auto.
Qed.

Lemma maybe_leave_ww : forall t g g2 ns, maybe_notify pref (leave_ww t g) = (g2, ns) ->
  g_exec g2 = g_exec g /\ memk t (g_ww g2) = false /\ memk t (g_wr g2) = memk t (g_wr g).
Proof.
  intros t g g2 ns E. pose proof (maybe_notify_shape pref (leave_ww t g)) as S. rewrite E in S. cbn [fst] in S.
  destruct S as [_ He _ Hr Hw _ _]. rewrite He, Hr, Hw, leave_ww_exec, leave_ww_memk, leave_ww_wr. auto.
Qed.

Ltac fin0 :=
  cbn [fst snd] in *; mk_inv; cbn [e_ro e_rw fst snd] in *; subst; cbn [e_ro e_rw fst snd flag] in *;
  repeat match goal with Hle : ?x <= 0 |- _ => apply Nat.le_0_r in Hle end; subst; try discriminate; try lia.
Ltac fin1 :=
  constructor; unfold wf, exp_ent, hold, inwr, inww; cbn [l_stk l_act l_op l_hro l_hrw fst snd flag g_exec g_wr g_ww g_total set_exec set_wr set_ww set_total];
  rewrite ?leave_wr_exec, ?leave_wr_ww, ?leave_wr_memk, ?leave_ww_exec, ?leave_ww_wr, ?leave_ww_memk;
  cbn [g_exec g_wr g_ww g_total set_exec set_wr set_ww set_total];
  rewrite ?find_setv_same, ?find_remove_same, ?memk_setv_same, ?memk_remove_same, ?mk_ent_S_l, ?mk_ent_S_r;
  try (rewrite mk_ent_pos by lia).
Ltac fin2 := auto; try solve [intuition (eauto; congruence || lia)];
  try solve [repeat split; auto; try lia; eexists; split; [reflexivity|];
             first [left; reflexivity
                   | right; split; [first [discriminate | assumption | congruence]|];
                     first [left; reflexivity | right; eexists; split; [reflexivity|]; intuition congruence]]].
Ltac fin := fin0; fin1; fin2.

Lemma self_enter_ro : forall t g d stk op hro hrw g' l' o,
  linv g t (mkL (AEnterRO d) stk op hro hrw) ->
  step pref t CRun g (mkL (AEnterRO d) stk op hro hrw) = Some (g', l', o) -> linv g' t l'.
Proof.
  intros t g d stk op hro hrw g' l' o [Hwf Hex Hwr Hww] H.
  unfold wf, exp_ent, hold, inwr, inww in *. cbn [l_stk l_act l_op l_hro l_hrw fst snd] in *.
  unfold step, run_cs, keep in H. cbn [l_act l_stk l_op l_hro l_hrw cs] in H. unfold enter_ro in H.
  destruct stk as [|[n i d'|n|n i lrw] [|]]; try contradiction.
  - (* plain call *)
    subst op. unfold complete in H. cbn [finish l_stk l_op l_hro l_hrw ghost_ro ghost_rw] in H.
    destruct (find t (g_exec g)) as [e|] eqn:Hf.
    + inversion H; subst; clear H. fin.
    + destruct (ok_readers pref g).
      * inversion H; subst; clear H. fin.
      * destruct d.
        -- destruct (pool_get (g_pool g)) as [c p]. inversion H; subst; clear H. fin.
        -- inversion H; subst; clear H. fin.
        -- destruct (pool_get (g_pool g)) as [c p]. inversion H; subst; clear H. fin.
  - destruct Hwf as [Hc _]. discriminate.
  - destruct Hwf as (_ & _ & _ & d0 & _ & [Hc|(_ & [Hc|(ok & Hc & _)])]); discriminate.
  - (* re-taking read lock number i of n at the end of the upgrade path *)
    destruct Hwf as (Hin & Hhro & Hhrw & Hlrw & (d0 & Hop) & [Hact|(_ & _ & [Hc|Hc])]); try discriminate.
    inversion Hact; subst d. subst op hro hrw.
    unfold complete in H. cbn [finish l_stk l_op l_hro l_hrw ghost_ro ghost_rw] in H.
    destruct (find t (g_exec g)) as [e|] eqn:Hf.
    + destruct (Nat.ltb (S i) n) eqn:Hlt; [apply Nat.ltb_lt in Hlt|apply Nat.ltb_ge in Hlt].
      * inversion H; subst; clear H. fin.
      * assert (n = S i) by lia. subst n.
        destruct Hlrw; subst lrw; inversion H; subst; clear H; fin.
    + destruct (ok_readers pref g).
      * destruct (Nat.ltb (S i) n) eqn:Hlt; [apply Nat.ltb_lt in Hlt|apply Nat.ltb_ge in Hlt].
        -- inversion H; subst; clear H. fin.
        -- assert (n = S i) by lia. subst n.
           destruct Hlrw; subst lrw; inversion H; subst; clear H; fin.
      * destruct (pool_get (g_pool g)) as [c p]. inversion H; subst; clear H.
        destruct Hlrw; subst lrw; fin.
Qed.

Lemma self_woke_ro : forall t g d ok stk op hro hrw g' l' o,
  linv g t (mkL (AWokeRO d ok) stk op hro hrw) ->
  step pref t CRun g (mkL (AWokeRO d ok) stk op hro hrw) = Some (g', l', o) -> linv g' t l'.
Proof.
  intros t g d ok stk op hro hrw g' l' o [Hwf Hex Hwr Hww] H.
  unfold wf, exp_ent, hold, inwr, inww in *. cbn [l_stk l_act l_op l_hro l_hrw fst snd] in *.
  unfold step, run_cs, keep in H. cbn [l_act l_stk l_op l_hro l_hrw cs] in H. unfold woke_ro in H.
  destruct stk as [|[n i d'|n|n i lrw] [|]]; try contradiction.
  - destruct Hwf as (Hop & Hd & Hok & Hhro & Hhrw). subst op hro hrw.
    unfold complete in H. cbn [finish l_stk l_op l_hro l_hrw ghost_ro ghost_rw] in H.
    destruct ok; cbn [negb] in H.
    + destruct (ok_readers pref g).
      * inversion H; subst; clear H. fin.
      * inversion H; subst; clear H. fin.
    + destruct (maybe_notify pref (leave_wr t g)) as [g2 ns2] eqn:E. apply maybe_leave_wr in E. destruct E as (He & Hr & Hw).
      inversion H; subst; clear H. fin0; fin1; rewrite ?He, ?Hr, ?Hw; fin2.
  - destruct Hwf as [Hc _]. discriminate.
  - destruct Hwf as (_ & _ & _ & d0 & _ & [Hc|(_ & [Hc|(ok0 & Hc & _)])]); discriminate.
  - destruct Hwf as (Hin & Hhro & Hhrw & Hlrw & (d0 & Hop) & [Hact|(Hi & Hl & [Hc|Hc])]); try discriminate.
    inversion Hc; subst d ok. subst op hro hrw i lrw.
    unfold complete in H. cbn [finish l_stk l_op l_hro l_hrw ghost_ro ghost_rw negb] in H.
    destruct (ok_readers pref g).
    + destruct (Nat.ltb 1 n) eqn:Hlt; [apply Nat.ltb_lt in Hlt|apply Nat.ltb_ge in Hlt].
      * inversion H; subst; clear H. fin.
      * assert (n = 1) by lia. subst n. inversion H; subst; clear H. fin.
    + inversion H; subst; clear H. fin.
Qed.

Lemma self_park_ro : forall t g d c stk op hro hrw g' l' o,
  linv g t (mkL (AParkRO d) stk op hro hrw) ->
  step pref t c g (mkL (AParkRO d) stk op hro hrw) = Some (g', l', o) -> linv g' t l'.
Proof.
  intros t g d c stk op hro hrw g' l' o [Hwf Hex Hwr Hww] H.
  unfold wf, exp_ent, hold, inwr, inww in *. cbn [l_stk l_act l_op l_hro l_hrw fst snd] in *.
  unfold step, keep in H. cbn [l_act l_stk l_op l_hro l_hrw] in H.
  assert (Hm : forall x, memk t (setc t x (g_wr g)) = true) by (intros; rewrite memk_setc; auto).
  destruct c.
  - destruct (find t (g_wr g)) as [[|k]|]; try discriminate. inversion H; subst; clear H.
    destruct stk as [|[n i d'|n|n i lrw] [|]]; try contradiction.
    + fin0; fin1; rewrite ?Hm; fin2.
    + destruct Hwf as [Hc _]. discriminate.
    + destruct Hwf as (_ & _ & _ & d0 & _ & [Hc|(_ & [Hc|(ok0 & Hc & _)])]); discriminate.
    + destruct Hwf as (Hin & Hhro & Hhrw & Hlrw & (d0 & Hop) & [Hact|(Hi & Hl & [Hc|Hc])]); try discriminate.
      inversion Hc; subst. fin0; fin1; rewrite ?Hm; fin2.
  - destruct d; try discriminate. inversion H; subst; clear H.
    destruct stk as [|[n i d'|n|n i lrw] [|]]; try contradiction.
    + fin.
    + destruct Hwf as [Hc _]. discriminate.
    + destruct Hwf as (_ & _ & _ & d0 & _ & [Hc|(_ & [Hc|(ok0 & Hc & _)])]); discriminate.
    + destruct Hwf as (Hin & Hhro & Hhrw & Hlrw & (d0 & Hop) & [Hact|(Hi & Hl & [Hc|Hc])]); discriminate.
Qed.


Lemma shape_facts : forall g1 g2, same_shape g1 g2 ->
  g_exec g2 = g_exec g1 /\ (forall k, memk k (g_wr g2) = memk k (g_wr g1)) /\ (forall k, memk k (g_ww g2) = memk k (g_ww g1)).
Proof. intros g1 g2 [_ He _ Hr Hw _ _]. auto. Qed.

Lemma maybe_facts : forall g1 g2 ns, maybe_notify pref g1 = (g2, ns) ->
  g_exec g2 = g_exec g1 /\ (forall k, memk k (g_wr g2) = memk k (g_wr g1)) /\ (forall k, memk k (g_ww g2) = memk k (g_ww g1)).
Proof.
  intros g1 g2 ns E. apply shape_facts. pose proof (maybe_notify_shape pref g1) as S. rewrite E in S. exact S.
Qed.

Lemma self_enter_rw : forall t g d stk op hro hrw g' l' o,
  linv g t (mkL (AEnterRW d) stk op hro hrw) ->
  step pref t CRun g (mkL (AEnterRW d) stk op hro hrw) = Some (g', l', o) -> linv g' t l'.
Proof.
  intros t g d stk op hro hrw g' l' o [Hwf Hex Hwr Hww] H.
  unfold wf, exp_ent, hold, inwr, inww in *. cbn [l_stk l_act l_op l_hro l_hrw fst snd] in *.
  unfold step, run_cs, keep in H. cbn [l_act l_stk l_op l_hro l_hrw cs] in H. unfold enter_rw in H.
  destruct stk as [|[n i d'|n|n i lrw] [|]]; try contradiction.
  - subst op. unfold complete in H. cbn [finish l_stk l_op l_hro l_hrw ghost_ro ghost_rw] in H.
    destruct (find t (g_exec g)) as [e|] eqn:Hf.
    + destruct (Nat.ltb 0 (e_rw e) || Nat.eqb (length (g_exec g)) 1) eqn:Hb.
      * inversion H; subst; clear H. fin.
      * apply orb_false_elim in Hb. destruct Hb as [Hb _]. apply Nat.ltb_ge in Hb.
        destruct d.
        -- destruct (e_ro e) as [|r] eqn:Hro.
           ++ exfalso. fin0.
           ++ inversion H; subst; clear H. fin0. fin1; rewrite ?Nat.sub_0_r; fin2.
        -- inversion H; subst; clear H. fin.
        -- destruct (e_ro e) as [|r] eqn:Hro.
           ++ exfalso. fin0.
           ++ inversion H; subst; clear H. fin0. fin1; rewrite ?Nat.sub_0_r; fin2.
    + destruct (ok_writer t g).
      * inversion H; subst; clear H. fin.
      * destruct d.
        -- destruct (pool_get (g_pool g)) as [c p]. inversion H; subst; clear H. fin.
        -- inversion H; subst; clear H. fin.
        -- destruct (pool_get (g_pool g)) as [c p]. inversion H; subst; clear H. fin.
  - destruct Hwf as [Hc _]. discriminate.
  - (* the inner LockReadWriteAux of the upgrade path *)
    destruct Hwf as (Hn & Hhro & Hhrw & d0 & Hop & [Hact|(_ & [Hc|(ok0 & Hc & _)])]); try discriminate.
    inversion Hact; subst d0. subst op hro hrw.
    cbn [mk_ent] in Hex. rewrite Hex in H.
    unfold complete in H. cbn [finish l_stk l_op l_hro l_hrw ghost_ro ghost_rw] in H.
    destruct n as [|m]; [lia|].
    destruct (ok_writer t g).
    + inversion H; subst; clear H. fin.
    + destruct d.
      * destruct (pool_get (g_pool g)) as [c p]. inversion H; subst; clear H. fin.
      * inversion H; subst; clear H. fin.
      * destruct (pool_get (g_pool g)) as [c p]. inversion H; subst; clear H. fin.
  - destruct Hwf as (Hin & Hhro & Hhrw & Hlrw & (d0 & Hop) & [Hact|(Hi & Hl & [Hc|Hc])]); discriminate.
Qed.


Lemma self_woke_rw : forall t g d ok stk op hro hrw g' l' o,
  linv g t (mkL (AWokeRW d ok) stk op hro hrw) ->
  step pref t CRun g (mkL (AWokeRW d ok) stk op hro hrw) = Some (g', l', o) -> linv g' t l'.
Proof.
  intros t g d ok stk op hro hrw g' l' o [Hwf Hex Hwr Hww] H.
  unfold wf, exp_ent, hold, inwr, inww in *. cbn [l_stk l_act l_op l_hro l_hrw fst snd] in *.
  unfold step, run_cs, keep in H. cbn [l_act l_stk l_op l_hro l_hrw cs] in H. unfold woke_rw in H.
  destruct stk as [|[n i d'|n|n i lrw] [|]]; try contradiction.
  - destruct Hwf as (Hop & Hd & Hok & Hhro & Hhrw). subst op hro hrw.
    unfold complete in H. cbn [finish l_stk l_op l_hro l_hrw ghost_ro ghost_rw] in H.
    destruct ok; cbn [negb] in H.
    + destruct (ok_writer t g).
      * inversion H; subst; clear H. fin.
      * inversion H; subst; clear H. fin.
    + destruct (maybe_notify pref (leave_ww t g)) as [g2 ns2] eqn:E. apply maybe_leave_ww in E. destruct E as (He & Hw & Hr).
      inversion H; subst; clear H. fin0; fin1; rewrite ?He, ?Hr, ?Hw; fin2.
  - destruct Hwf as [Hc _]. discriminate.
  - destruct Hwf as (Hn & Hhro & Hhrw & d0 & Hop & [Hc|(Hd & [Hc|(ok0 & Hc & Hok)])]); try discriminate.
    inversion Hc; subst d0 ok0. subst op hro hrw.
    unfold complete in H. cbn [finish l_stk l_op l_hro l_hrw ghost_ro ghost_rw] in H.
    destruct n as [|m]; [lia|].
    destruct ok; cbn [negb] in H.
    + destruct (ok_writer t g).
      * inversion H; subst; clear H. fin.
      * inversion H; subst; clear H. fin.
    + destruct (maybe_notify pref (leave_ww t g)) as [g2 ns2] eqn:E. apply maybe_leave_ww in E. destruct E as (He & Hw & Hr).
      inversion H; subst; clear H. fin0; fin1; rewrite ?He, ?Hr, ?Hw; fin2.
  - destruct Hwf as (Hin & Hhro & Hhrw & Hlrw & (d0 & Hop) & [Hact|(Hi & Hl & [Hc|Hc])]); discriminate.
Qed.

Lemma self_park_rw : forall t g d c stk op hro hrw g' l' o,
  linv g t (mkL (AParkRW d) stk op hro hrw) ->
  step pref t c g (mkL (AParkRW d) stk op hro hrw) = Some (g', l', o) -> linv g' t l'.
Proof.
  intros t g d c stk op hro hrw g' l' o [Hwf Hex Hwr Hww] H.
  unfold wf, exp_ent, hold, inwr, inww in *. cbn [l_stk l_act l_op l_hro l_hrw fst snd] in *.
  unfold step, keep in H. cbn [l_act l_stk l_op l_hro l_hrw] in H.
  assert (Hm : forall x, memk t (setc t x (g_ww g)) = true) by (intros; rewrite memk_setc; auto).
  destruct c.
  - destruct (find t (g_ww g)) as [[|k]|]; try discriminate. inversion H; subst; clear H.
    destruct stk as [|[n i d'|n|n i lrw] [|]]; try contradiction.
    + fin0; fin1; rewrite ?Hm; fin2.
    + destruct Hwf as [Hc _]. discriminate.
    + destruct Hwf as (Hn & Hhro & Hhrw & d0 & Hop & [Hc|(Hd & [Hc|(ok0 & Hc & Hok)])]); try discriminate.
      inversion Hc; subst. fin0; fin1; rewrite ?Hm; fin2.
    + destruct Hwf as (Hin & Hhro & Hhrw & Hlrw & (d0 & Hop) & [Hact|(Hi & Hl & [Hc|Hc])]); discriminate.
  - destruct d; try discriminate. inversion H; subst; clear H.
    destruct stk as [|[n i d'|n|n i lrw] [|]]; try contradiction.
    + fin.
    + destruct Hwf as [Hc _]. discriminate.
    + destruct Hwf as (Hn & Hhro & Hhrw & d0 & Hop & [Hc|(Hd & [Hc|(ok0 & Hc & Hok)])]); try discriminate.
      inversion Hc; subst. fin.
    + destruct Hwf as (Hin & Hhro & Hhrw & Hlrw & (d0 & Hop) & [Hact|(Hi & Hl & [Hc|Hc])]); discriminate.
Qed.

Lemma andb_eqb0 : forall a b, Nat.eqb a 0 && Nat.eqb b 0 = true -> a = 0 /\ b = 0.
Proof. intros a b H. apply andb_prop in H. destruct H as [Ha Hb]. apply Nat.eqb_eq in Ha, Hb. auto. Qed.

Lemma andb_eqb0_false : forall a b, Nat.eqb a 0 && Nat.eqb b 0 = false -> 0 < a + b.
Proof.
  intros a b H. destruct a, b; cbn in H; try discriminate; lia.
Qed.

Lemma self_unlock_ro : forall t g stk op hro hrw g' l' o,
  linv g t (mkL AEnterUnRO stk op hro hrw) ->
  step pref t CRun g (mkL AEnterUnRO stk op hro hrw) = Some (g', l', o) -> linv g' t l'.
Proof.
  intros t g stk op hro hrw g' l' o [Hwf Hex Hwr Hww] H.
  unfold wf, exp_ent, hold, inwr, inww in *. cbn [l_stk l_act l_op l_hro l_hrw fst snd] in *.
  unfold step, run_cs, keep in H. cbn [l_act l_stk l_op l_hro l_hrw cs] in H. unfold unlock_ro in H.
  destruct stk as [|[n i d'|n|n i lrw] [|]]; try contradiction.
  - subst op. unfold complete in H. cbn [finish l_stk l_op l_hro l_hrw ghost_ro ghost_rw] in H.
    destruct (find t (g_exec g)) as [e|] eqn:Hf.
    + destruct (e_ro e) as [|r] eqn:Hro.
      * inversion H; subst; clear H. fin.
      * destruct (Nat.eqb r 0 && Nat.eqb (e_rw e) 0) eqn:Hz.
        -- apply andb_eqb0 in Hz. destruct Hz as [Hr0 Hw0].
           destruct (maybe_notify pref (set_exec g (remove t (g_exec g)))) as [g2 ns2] eqn:E.
           apply maybe_facts in E. destruct E as (He & Hr & Hw). cbn [set_exec g_exec g_wr g_ww] in He, Hr, Hw.
           inversion H; subst; clear H. fin0; fin1; rewrite ?He, ?Hr, ?Hw, ?find_remove_same; fin2.
        -- apply andb_eqb0_false in Hz. inversion H; subst; clear H. fin.
    + inversion H; subst; clear H. fin.
  - (* giving up read lock number i of n at the start of the upgrade path *)
    destruct Hwf as (_ & Hin & Hhro & Hhrw & Hop). subst op hro hrw.
    unfold complete in H. cbn [finish l_stk l_op l_hro l_hrw ghost_ro ghost_rw] in H.
    cbn [fst snd] in Hex. rewrite mk_ent_pos in Hex by lia. rewrite Hex in H. cbn [e_ro e_rw] in H.
    destruct (n - i) as [|r] eqn:Hni; [lia|].
    destruct (Nat.eqb r 0 && Nat.eqb 0 0) eqn:Hz.
    + apply andb_eqb0 in Hz. destruct Hz as [Hr0 _]. subst r.
      destruct (maybe_notify pref (set_exec g (remove t (g_exec g)))) as [g2 ns2] eqn:E.
      apply maybe_facts in E. destruct E as (He & Hr & Hw). cbn [set_exec g_exec g_wr g_ww] in He, Hr, Hw.
      destruct (Nat.ltb (S i) n) eqn:Hlt; [apply Nat.ltb_lt in Hlt; lia|].
      inversion H; subst; clear H. fin0; fin1; rewrite ?He, ?Hr, ?Hw, ?find_remove_same; fin2.
    + apply andb_eqb0_false in Hz.
      destruct (Nat.ltb (S i) n) eqn:Hlt; [apply Nat.ltb_lt in Hlt|apply Nat.ltb_ge in Hlt; lia].
      inversion H; subst; clear H. fin0. fin1; try (replace (n - S i) with r by lia; try (rewrite mk_ent_pos by lia); reflexivity); fin2.
  - destruct Hwf as (_ & _ & _ & d0 & _ & [Hc|(_ & [Hc|(ok0 & Hc & _)])]); discriminate.
  - destruct Hwf as (Hin & Hhro & Hhrw & Hlrw & (d0 & Hop) & [Hact|(Hi & Hl & [Hc|Hc])]); discriminate.
Qed.


Lemma unlock_rw_tail_shape : forall g1 (c1 c2 c3 : bool) g2 ns,
  (if c1 then (if c2 then notify_all_readers g1 else if c3 then notify_some pref g1 else (g1, [])) else (g1, [])) = (g2, ns) ->
  same_shape g1 g2.
Proof.
  intros g1 c1 c2 c3 g2 ns E.
  destruct c1; [destruct c2; [|destruct c3]|].
  - change g2 with (fst (g2, ns)). rewrite <- E. apply notify_all_readers_shape.
  - change g2 with (fst (g2, ns)). rewrite <- E. apply notify_some_shape.
  - inversion E. apply same_shape_refl.
  - inversion E. apply same_shape_refl.
Qed.

Lemma self_unlock_rw : forall t g stk op hro hrw g' l' o,
  linv g t (mkL AEnterUnRW stk op hro hrw) ->
  step pref t CRun g (mkL AEnterUnRW stk op hro hrw) = Some (g', l', o) -> linv g' t l'.
Proof.
  intros t g stk op hro hrw g' l' o [Hwf Hex Hwr Hww] H.
  unfold wf, exp_ent, hold, inwr, inww in *. cbn [l_stk l_act l_op l_hro l_hrw fst snd] in *.
  unfold step, run_cs, keep in H. cbn [l_act l_stk l_op l_hro l_hrw cs] in H. unfold unlock_rw in H.
  destruct stk as [|[n i d'|n|n i lrw] [|]]; try contradiction.
  - subst op. unfold complete in H. cbn [finish l_stk l_op l_hro l_hrw ghost_ro ghost_rw] in H.
    destruct (find t (g_exec g)) as [e|] eqn:Hf.
    + destruct (e_rw e) as [|w] eqn:Hrw.
      * inversion H; subst; clear H. fin.
      * match type of H with context [if Nat.eqb (pred (g_total g)) 0 then ?a else ?b] =>
          destruct (if Nat.eqb (pred (g_total g)) 0 then a else b) as [g2 ns2] eqn:E end.
        apply unlock_rw_tail_shape in E. apply shape_facts in E. destruct E as (He & Hr & Hw).
        cbn [g_exec g_wr g_ww] in He, Hr, Hw.
        inversion H; subst; clear H.
        destruct (Nat.eqb w 0 && Nat.eqb (e_ro e) 0) eqn:Hz.
        -- apply andb_eqb0 in Hz. destruct Hz as [Hw0 Hr0].
           fin0; fin1; rewrite ?He, ?Hr, ?Hw, ?find_remove_same; fin2.
        -- apply andb_eqb0_false in Hz.
           fin0; fin1; rewrite ?He, ?Hr, ?Hw, ?find_setv_same; try (rewrite mk_ent_pos by lia); fin2.
    + inversion H; subst; clear H. fin.
  - destruct Hwf as [Hc _]. discriminate.
  - destruct Hwf as (_ & _ & _ & d0 & _ & [Hc|(_ & [Hc|(ok0 & Hc & _)])]); discriminate.
  - destruct Hwf as (Hin & Hhro & Hhrw & Hlrw & (d0 & Hop) & [Hact|(Hi & Hl & [Hc|Hc])]); discriminate.
Qed.

(* ---- every transition keeps the thread that makes it consistent with the tables ---- *)
Lemma step_self : forall t c g l g' l' o, linv g t l -> step pref t c g l = Some (g', l', o) -> linv g' t l'.
Proof.
  intros t c g [a stk op hro hrw] g' l' o Hl H.
  destruct a.
  - (* AIdle: no transition *) unfold step, run_cs in H. destruct c; cbn in H; discriminate.
  - destruct c; [eapply self_enter_ro; eauto | unfold step in H; cbn in H; discriminate].
  - destruct c; [eapply self_enter_rw; eauto | unfold step in H; cbn in H; discriminate].
  - destruct c; [eapply self_unlock_ro; eauto | unfold step in H; cbn in H; discriminate].
  - destruct c; [eapply self_unlock_rw; eauto | unfold step in H; cbn in H; discriminate].
  - eapply self_park_ro; eauto.
  - destruct c; [eapply self_woke_ro; eauto | unfold step in H; cbn in H; discriminate].
  - eapply self_park_rw; eauto.
  - destruct c; [eapply self_woke_rw; eauto | unfold step in H; cbn in H; discriminate].
Qed.


Lemma step_mode : forall t c g l g' l' o, mode g -> step pref t c g l = Some (g', l', o) -> mode g'.
Proof.
  intros t c g l g' l' o Hm. unfold step. destruct c.
  - destruct (l_act l) eqn:Ha;
      try (unfold run_cs; rewrite Ha;
           match goal with |- context [cs pref t ?a g] => destruct (cs pref t a g) as [[[g1 ns] out]|] eqn:E end;
           [|discriminate]; apply cs_mode in E; auto;
           destruct out; [destruct (complete l s)|..]; intros H; inversion H; subst; auto).
    + destruct (find t (g_wr g)) as [[|n]|]; try discriminate. intros H; inversion H; subst. exact Hm.
    + destruct (find t (g_ww g)) as [[|n]|]; try discriminate. intros H; inversion H; subst. exact Hm.
  - destruct (l_act l); try discriminate; destruct d; try discriminate; intros H; inversion H; subst; auto.
Qed.

Lemma begin_self : forall g t o l l', linv g t l -> begin_op o l = Some l' -> linv g t l'.
Proof.
  intros g t o [a stk op hro hrw] l' [Hwf Hex Hwr Hww] H.
  unfold begin_op in H. cbn [l_act l_stk l_hro l_hrw] in H.
  destruct a; try discriminate. destruct stk; try discriminate. inversion H; subst; clear H.
  unfold wf, exp_ent, hold, inwr, inww in *. cbn [l_stk l_act l_op l_hro l_hrw fst snd] in *.
  destruct o; constructor; unfold wf, exp_ent, hold, inwr, inww; cbn [l_stk l_act l_op l_hro l_hrw fst snd act_of_op]; auto.
Qed.

Lemma linv_frame : forall t g g' k l, frame_ok t g g' -> k <> t -> linv g k l -> linv g' k l.
Proof.
  intros t g g' k l [Fe Fr Fw] Hk [Hwf Hex Hwr Hww]. constructor; auto.
  - rewrite Fe; auto.
  - rewrite Fr; auto.
  - rewrite Fw; auto.
Qed.

Lemma inv_init : inv sys0.
Proof.
  split.
  - left. split; [reflexivity|]. intros t e [].
  - intros t. constructor; cbn; auto.
Qed.

Lemma inv_step : forall s lab s' o, inv s -> sys_step pref s lab = Some (s', o) -> inv s'.
Proof.
  intros s lab s' o [Hm Hl] H. destruct lab as [t op|t c|p]; cbn [sys_step] in H.
  - destruct (begin_op op (s_l s t)) as [l'|] eqn:E; [|discriminate]. inversion H; subst; clear H. cbn [s_g s_l].
    split; [exact Hm|]. intros k. cbn [s_g s_l]. unfold upd. destruct (Nat.eqb k t) eqn:Ek.
    + apply Nat.eqb_eq in Ek. subst k. eapply begin_self; [apply Hl | exact E].
    + apply Hl.
  - destruct (step pref t c (s_g s) (s_l s t)) as [[[g' l'] o']|] eqn:E; [|discriminate]. inversion H; subst; clear H. cbn [s_g s_l].
    split; [eapply step_mode; eauto|].
    intros k. cbn [s_g s_l]. unfold upd. destruct (Nat.eqb k t) eqn:Ek.
    + apply Nat.eqb_eq in Ek. subst k. eapply step_self; [apply Hl | exact E].
    + apply Nat.eqb_neq in Ek. eapply linv_frame; eauto. eapply step_frame; eauto.
  - inversion H; subst; clear H. cbn [s_g s_l]. split; [exact Hm|]. intros k. destruct (Hl k) as [A1 A2 A3 A4]. constructor; auto.
Qed.

Theorem inv_reachable : forall s, reachable pref s -> inv s.
Proof.
  intros s H. induction H as [|s lab s' o Hr IH Hs]; [apply inv_init | eapply inv_step; eauto].
Qed.

End P.
