(* C18 -- the inductive invariant of the ReaderWriterMutex LTS: the table is either in "read mode" (no write
   recursion anywhere, total = 0) or in "write mode" (exactly one executing thread, whose write recursion count is
   the total); every thread's place in the code agrees with what the tables say about it. *)
From Coq Require Import List Arith Bool Lia.
Import ListNotations.
From Muscle Require Import Conc.RwMutexModel Conc.RwMutexProofs.

(* ---- what the tables must say about a thread, given where it is in the code ---- *)

Definition mk_ent (a b : nat) : option ent :=
  match a, b with
  | 0, 0 => None
  | _, _ => Some (mkEnt a b)
  end.

Definition flag (s : status) : nat := match s with SOk => 1 | _ => 0 end.

(* the recursion counts the thread must have in _executingThreads right now *)
Definition hold (l : loc) : nat * nat :=
  match l_stk l with
  | [] => (l_hro l, l_hrw l)
  | FDrop n i _ :: _ => (n - i, 0)
  | FInner _ :: _ => (0, 0)
  | FRelock _ i lrw :: _ => (i, flag lrw)
  end.

Definition exp_ent (l : loc) : option ent := mk_ent (fst (hold l)) (snd (hold l)).

Definition inwr (l : loc) : bool := match l_act l with AParkRO _ | AWokeRO _ _ => true | _ => false end.
Definition inww (l : loc) : bool := match l_act l with AParkRW _ | AWokeRW _ _ => true | _ => false end.

(* purely local well-formedness of a thread's control state *)
Definition wf (l : loc) : Prop :=
  match l_stk l with
  | [] =>
      match l_act l with
      | AIdle => l_op l = None
      | AEnterRO d => l_op l = Some (OLockRO d)
      | AEnterRW d => l_op l = Some (OLockRW d)
      | AEnterUnRO => l_op l = Some OUnlockRO
      | AEnterUnRW => l_op l = Some OUnlockRW
      | AParkRO d => l_op l = Some (OLockRO d) /\ d <> Try /\ l_hro l = 0 /\ l_hrw l = 0
      | AWokeRO d ok => l_op l = Some (OLockRO d) /\ d <> Try /\ (ok = false -> d = Timed) /\ l_hro l = 0 /\ l_hrw l = 0
      | AParkRW d => l_op l = Some (OLockRW d) /\ d <> Try /\ l_hro l = 0 /\ l_hrw l = 0
      | AWokeRW d ok => l_op l = Some (OLockRW d) /\ d <> Try /\ (ok = false -> d = Timed) /\ l_hro l = 0 /\ l_hrw l = 0
      end
  | [FDrop n i d] =>
      l_act l = AEnterUnRO /\ i < n /\ l_hro l = n /\ l_hrw l = 0 /\ l_op l = Some (OLockRW d)
  | [FInner n] =>
      0 < n /\ l_hro l = n /\ l_hrw l = 0 /\
      exists d, l_op l = Some (OLockRW d) /\
                (l_act l = AEnterRW d \/
                 (d <> Try /\ (l_act l = AParkRW d \/ exists ok, l_act l = AWokeRW d ok /\ (ok = false -> d = Timed))))
  | [FRelock n i lrw] =>
      i < n /\ l_hro l = n /\ l_hrw l = 0 /\ (lrw = SOk \/ lrw = STimedOut) /\ (exists d, l_op l = Some (OLockRW d)) /\
      (l_act l = AEnterRO Never \/
       (i = 0 /\ lrw = STimedOut /\ (l_act l = AParkRO Never \/ l_act l = AWokeRO Never true)))
  | _ => False
  end.

Record linv (g : gst) (t : tid) (l : loc) : Prop := mkLinv {
  li_wf : wf l;
  li_ex : find t (g_exec g) = exp_ent l;
  li_wr : memk t (g_wr g) = inwr l;
  li_ww : memk t (g_ww g) = inww l
}.

Definition read_mode (g : gst) : Prop := g_total g = 0 /\ forall t e, In (t, e) (g_exec g) -> e_rw e = 0.
Definition write_mode (g : gst) : Prop := exists t e, g_exec g = [(t, e)] /\ e_rw e = g_total g /\ 0 < g_total g.
Definition mode (g : gst) : Prop := read_mode g \/ write_mode g.

Definition inv (s : sys) : Prop := mode (s_g s) /\ forall t, linv (s_g s) t (s_l s t).

(* ---- small facts ---- *)

Lemma mk_ent_some : forall a b e, mk_ent a b = Some e -> e = mkEnt a b /\ 0 < a + b.
Proof. intros [|a] [|b] e H; cbn in H; inversion H; split; auto; lia. Qed.

Lemma mk_ent_none : forall a b, mk_ent a b = None -> a = 0 /\ b = 0.
Proof. intros [|a] [|b] H; cbn in H; try discriminate; auto. Qed.

Lemma mk_ent_pos : forall a b, 0 < a + b -> mk_ent a b = Some (mkEnt a b).
Proof. intros [|a] [|b] H; cbn; auto; lia. Qed.

Lemma mk_ent_S_l : forall a b, mk_ent (S a) b = Some (mkEnt (S a) b).
Proof. intros. reflexivity. Qed.

Lemma mk_ent_S_r : forall a b, mk_ent a (S b) = Some (mkEnt a (S b)).
Proof. intros [|a] b; reflexivity. Qed.

Lemma ent_eta : forall e, mkEnt (e_ro e) (e_rw e) = e.
Proof. intros [a b]. reflexivity. Qed.

(* ---- the mode invariant is preserved by every critical section ---- *)

Ltac break_in H :=
  repeat match type of H with
  | context [match ?x with _ => _ end] => destruct x eqn:?
  end.

Ltac break_cs H :=
  unfold enter_ro, woke_ro, enter_rw, woke_rw, unlock_ro, unlock_rw in H;
  break_in H; inversion H; subst; clear H.

Lemma mode_shape : forall g g', same_shape g g' -> mode g -> mode g'.
Proof.
  intros g g' [Ht He _ _ _ _ _] [[H0 Hr]|(t & e & Hx & Hw & Hp)].
  - left. split; [congruence|]. rewrite He. auto.
  - right. exists t, e. rewrite He, Ht. auto.
Qed.

Lemma write_find : forall g t e, write_mode g -> find t (g_exec g) = Some e -> g_exec g = [(t, e)] /\ e_rw e = g_total g /\ 0 < g_total g.
Proof.
  intros g t e (t0 & e0 & Hx & Hw & Hp) Hf. rewrite Hx in Hf. apply find_single in Hf. destruct Hf; subst. auto.
Qed.

Lemma read_total : forall g, read_mode g -> g_total g = 0.
Proof. intros g [H _]; auto. Qed.

Lemma write_total : forall g, write_mode g -> g_total g <> 0.
Proof. intros g (t0 & e0 & Hx & Hw & Hp). lia. Qed.

Lemma write_exec_nonnil : forall g, write_mode g -> is_nil (g_exec g) = false.
Proof. intros g (t0 & e0 & Hx & Hw & Hp). rewrite Hx. reflexivity. Qed.

Section P.
Variable pref : bool.


Lemma setv_single : forall (t : tid) (e v : ent), setv t v [(t, e)] = [(t, v)].
Proof. intros. cbn [setv]. rewrite Nat.eqb_refl. reflexivity. Qed.

Lemma remove_single : forall (t : tid) (e : ent), remove t [(t, e)] = [].
Proof. intros. cbn [remove]. rewrite Nat.eqb_refl. reflexivity. Qed.

Lemma len1_find : forall (l : list (tid * ent)) t e, length l = 1 -> find t l = Some e -> l = [(t, e)].
Proof.
  intros [|[k0 e0] [|]] t e Hl Hf; cbn in Hl; try discriminate.
  apply find_single in Hf. destruct Hf; subst. reflexivity.
Qed.

Lemma read_setv : forall g t v x, read_mode g -> e_rw v = 0 -> x = setv t v (g_exec g) ->
  forall k e, In (k, e) x -> e_rw e = 0.
Proof.
  intros g t v x [_ Hr] Hv -> k e Hin. apply in_setv in Hin. destruct Hin as [[_ ->]|Hin]; eauto.
Qed.

Lemma read_remove : forall g t x, read_mode g -> x = remove t (g_exec g) ->
  forall k e, In (k, e) x -> e_rw e = 0.
Proof. intros g t x [_ Hr] -> k e Hin. apply in_remove in Hin. eauto. Qed.

Lemma read_find : forall g t e, read_mode g -> find t (g_exec g) = Some e -> e_rw e = 0.
Proof. intros g t e [_ Hr] Hf. apply find_in in Hf. eauto. Qed.

Lemma enter_ro_mode : forall t d g g' ns out, mode g -> enter_ro pref t d g = (g', ns, out) -> mode g'.
Proof.
  intros t d g g' ns out Hm H. break_cs H; auto.
  - (* recursive read lock *)
    destruct Hm as [Hr|Hw].
    + left. split; [apply Hr|]. cbn. eapply read_setv; eauto; try reflexivity. cbn. eapply read_find; eauto.
    + destruct (write_find _ _ _ Hw Heqo) as (Hx & Hrw & Hp).
      right. exists t, (mkEnt (S (e_ro e)) (e_rw e)). cbn. rewrite Hx, setv_single. auto.
  - (* fresh reader admitted *)
    unfold ok_readers in Heqb. apply andb_prop in Heqb. destruct Heqb as [Ht _]. apply Nat.eqb_eq in Ht.
    destruct Hm as [Hr|Hw]; [|apply write_total in Hw; contradiction].
    left. split; [auto|]. cbn. eapply read_setv; eauto; try reflexivity.
Qed.

Lemma leave_wr_mode : forall t g, mode g -> mode (leave_wr t g).
Proof. intros t g Hm. unfold leave_wr. destruct (find t (g_wr g)); auto. Qed.

Lemma leave_ww_mode : forall t g, mode g -> mode (leave_ww t g).
Proof. intros t g Hm. unfold leave_ww. destruct (find t (g_ww g)); auto. Qed.

Lemma maybe_notify_mode : forall g, mode g -> mode (fst (maybe_notify pref g)).
Proof. intros. eapply mode_shape; eauto. apply maybe_notify_shape. Qed.

Lemma woke_ro_mode : forall t d ok g g' ns out, mode g -> woke_ro pref t d ok g = (g', ns, out) -> mode g'.
Proof.
  intros t d ok g g' ns out Hm H. unfold woke_ro in H.
  destruct (negb ok).
  - destruct (maybe_notify pref (leave_wr t g)) as [g2 ns2] eqn:E. inversion H; subst.
    change g' with (fst (g', ns)). rewrite <- E. apply maybe_notify_mode, leave_wr_mode, Hm.
  - destruct (ok_readers pref g) eqn:Eok; inversion H; subst; auto.
    apply leave_wr_mode.
    unfold ok_readers in Eok. apply andb_prop in Eok. destruct Eok as [Ht _]. apply Nat.eqb_eq in Ht.
    destruct Hm as [Hr|Hw]; [|apply write_total in Hw; contradiction].
    left. split; [auto|]. cbn. eapply read_setv; eauto; try reflexivity.
Qed.

Lemma writer_admit_mode : forall t g x, mode g -> ok_writer t g = true -> x = setv t (mkEnt 0 1) (g_exec g) ->
  mode (mkG (S (g_total g)) x (g_wr g) (g_ww g) (g_pool g)).
Proof.
  intros t g x Hm Hok ->. unfold ok_writer in Hok. apply andb_prop in Hok. destruct Hok as [Hnil _].
  apply is_nil_true in Hnil.
  destruct Hm as [Hr|Hw]; [|apply write_exec_nonnil in Hw; rewrite Hnil in Hw; discriminate].
  right. exists t, (mkEnt 0 1). rewrite Hnil, (read_total _ Hr). cbn. auto.
Qed.

Lemma enter_rw_mode : forall t d g g' ns out, mode g -> enter_rw t d g = (g', ns, out) -> mode g'.
Proof.
  intros t d g g' ns out Hm H. break_cs H; auto.
  - (* recursive / sole-holder write lock *)
    destruct Hm as [Hr|Hw].
    + pose proof (read_find _ _ _ Hr Heqo) as Hz. rewrite Hz in Heqb. cbn in Heqb.
      apply Nat.eqb_eq in Heqb.
      pose proof (len1_find _ _ _ Heqb Heqo) as Hx.
      right. exists t, (mkEnt (e_ro e) (S (e_rw e))). cbn. rewrite Hx, setv_single, Hz, (read_total _ Hr). auto.
    + destruct (write_find _ _ _ Hw Heqo) as (Hx & Hrw & Hp).
      right. exists t, (mkEnt (e_ro e) (S (e_rw e))). cbn. rewrite Hx, setv_single. cbn. auto with arith.
  - eapply writer_admit_mode; eauto.
Qed.

Lemma woke_rw_mode : forall t d ok g g' ns out, mode g -> woke_rw pref t d ok g = (g', ns, out) -> mode g'.
Proof.
  intros t d ok g g' ns out Hm H. unfold woke_rw in H.
  destruct (negb ok).
  - destruct (maybe_notify pref (leave_ww t g)) as [g2 ns2] eqn:E. inversion H; subst.
    change g' with (fst (g', ns)). rewrite <- E. apply maybe_notify_mode, leave_ww_mode, Hm.
  - destruct (ok_writer t g) eqn:Eok; inversion H; subst; auto.
    apply leave_ww_mode. eapply writer_admit_mode; eauto.
Qed.

Lemma unlock_ro_mode : forall t g g' ns out, mode g -> unlock_ro pref t g = (g', ns, out) -> mode g'.
Proof.
  intros t g g' ns out Hm H. unfold unlock_ro in H.
  destruct (find t (g_exec g)) as [e|] eqn:Hf; [|inversion H; subst; auto].
  destruct (e_ro e) as [|r] eqn:Hro; [inversion H; subst; auto|].
  destruct (Nat.eqb r 0 && Nat.eqb (e_rw e) 0) eqn:Hz.
  - destruct (maybe_notify pref (set_exec g (remove t (g_exec g)))) as [g2 ns2] eqn:E. inversion H; subst.
    change g' with (fst (g', ns)). rewrite <- E. apply maybe_notify_mode.
    apply andb_prop in Hz. destruct Hz as [_ Hz]. apply Nat.eqb_eq in Hz.
    destruct Hm as [Hr|Hw].
    + left. split; [apply Hr|]. cbn. eapply read_remove; eauto.
    + destruct (write_find _ _ _ Hw Hf) as (Hx & Hrw & Hp). lia.
  - inversion H; subst.
    destruct Hm as [Hr|Hw].
    + left. split; [apply Hr|]. cbn. eapply read_setv; eauto; try reflexivity. cbn. eapply read_find; eauto.
    + destruct (write_find _ _ _ Hw Hf) as (Hx & Hrw & Hp).
      right. exists t, (mkEnt r (e_rw e)). cbn. rewrite Hx, setv_single. auto.
Qed.

Lemma unlock_rw_mode : forall t g g' ns out, mode g -> unlock_rw pref t g = (g', ns, out) -> mode g'.
Proof.
  intros t g g' ns out Hm H. unfold unlock_rw in H.
  destruct (find t (g_exec g)) as [e|] eqn:Hf; [|inversion H; subst; auto].
  destruct (e_rw e) as [|w] eqn:Hrw; [inversion H; subst; auto|].
  destruct Hm as [Hr|Hw]; [pose proof (read_find _ _ _ Hr Hf); lia|].
  destruct (write_find _ _ _ Hw Hf) as (Hx & Htot & Hp).
  set (ex := if Nat.eqb w 0 && Nat.eqb (e_ro e) 0 then remove t (g_exec g) else setv t (mkEnt (e_ro e) w) (g_exec g)) in *.
  set (g1 := mkG (pred (g_total g)) ex (g_wr g) (g_ww g) (g_pool g)) in *.
  assert (Hg1 : mode g1).
  { unfold g1, ex. rewrite Hx, remove_single, setv_single.
    destruct w as [|w'].
    - (* last write level *)
      left. split; [cbn; lia|]. cbn [g_exec]. cbn [Nat.eqb andb].
      destruct (Nat.eqb (e_ro e) 0); intros k e' Hin; [destruct Hin|].
      destruct Hin as [Hin|[]]. inversion Hin. reflexivity.
    - right. exists t, (mkEnt (e_ro e) (S w')). cbn. split; [reflexivity|]. split; lia. }
  destruct (Nat.eqb (pred (g_total g)) 0).
  - destruct (Nat.ltb 0 (e_ro e)).
    + destruct (notify_all_readers g1) as [g2 ns2] eqn:E. inversion H; subst.
      change g' with (fst (g', ns)). rewrite <- E. eapply mode_shape; [apply notify_all_readers_shape|auto].
    + destruct (is_nil ex).
      * destruct (notify_some pref g1) as [g2 ns2] eqn:E. inversion H; subst.
        change g' with (fst (g', ns)). rewrite <- E. eapply mode_shape; [apply notify_some_shape|auto].
      * inversion H; subst. auto.
  - inversion H; subst. auto.
Qed.

Lemma cs_mode : forall t a g g' ns out, mode g -> cs pref t a g = Some (g', ns, out) -> mode g'.
Proof.
  intros t a g g' ns out Hm H. destruct a; cbn [cs] in H; inversion H; clear H;
    eauto using enter_ro_mode, woke_ro_mode, enter_rw_mode, woke_rw_mode, unlock_ro_mode, unlock_rw_mode.
Qed.

End P.
