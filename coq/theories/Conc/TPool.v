(* C19 -- model of muscle::ThreadPool / IThreadPoolClient (system/ThreadPool.h/.cpp) as a labelled transition
   system.  Model only (no proofs); the proofs are in TPoolLemmas.v / TPoolInv.v / TPoolProofs.v.

   What one transition is.  Every method of ThreadPool that touches the pool's tables holds [_poolLock] for its
   whole body (RegisterClient, SendMessageToThreadPool, ThreadFinishedProcessingClientMessages, the two critical
   sections of UnregisterClient, the critical sections of Shutdown); so one transition = one such critical section.
   The pool threads' own work between two critical sections -- calling the client's handler for the Messages of
   the batch that was handed to them -- is not under the lock: handler entry and handler return are separate
   environment transitions ([LEnter], [LExit]) that may be taken in any order relative to everything else.

   Tables are muscle::Hashtables without auto-sort: iteration order = insertion order, Put() of an existing key
   replaces the value in place, Put() of a new key appends, Remove() keeps the order of the others,
   MoveToTable() = Put() into the target + Remove() from the source.

   Clients, pool threads and Messages are identified by numbers; any number of them.  The discipline the
   environment must keep (the premise stated in the labels' enabledness, see [step]): the owner of a client does
   not call SendMessageToThreadPool()/SetThreadPool() on it while a SetThreadPool() call on that same client is
   still in progress (IThreadPoolClient::_threadPool is an unsynchronised member; the documentation of
   SetThreadPool() requires it). *)
From Coq Require Import List Arith Bool.
Import ListNotations.

Notation client := nat (only parsing).
Notation msg := nat (only parsing).
Notation tid := nat (only parsing).

(* ---------------------------------------------------------------- insertion-ordered tables keyed by numbers *)
Section Table.
  Variable V : Type.
  Definition table := list (nat * V).
  Fixpoint tget (k : nat) (t : table) : option V :=
    match t with
    | [] => None
    | (k', v) :: r => if Nat.eqb k k' then Some v else tget k r
    end.
  (* Put(): replace in place, or append *)
  Fixpoint tset (k : nat) (v : V) (t : table) : table :=
    match t with
    | [] => [(k, v)]
    | (k', v') :: r => if Nat.eqb k k' then (k', v) :: r else (k', v') :: tset k v r
    end.
  (* Remove() *)
  Fixpoint tdel (k : nat) (t : table) : table :=
    match t with
    | [] => []
    | (k', v') :: r => if Nat.eqb k k' then tdel k r else (k', v') :: tdel k r
    end.
  Definition tkeys (t : table) : list nat := map fst t.
End Table.
Arguments tget {V} k t.
Arguments tset {V} k v t.
Arguments tdel {V} k t.
Arguments tkeys {V} t.

(* key-only tables (the values live elsewhere) *)
Definition lmem (k : nat) (l : list nat) : bool := existsb (Nat.eqb k) l.
Definition lrem (k : nat) (l : list nat) : list nat := filter (fun x => negb (Nat.eqb k x)) l.
Definition ladd (k : nat) (l : list nat) : list nat := if lmem k l then l else l ++ [k].

Definition is_nil {A} (l : list A) : bool := match l with [] => true | _ => false end.
Fixpoint last_opt {A} (l : list A) : option A :=
  match l with
  | [] => None
  | [x] => Some x
  | _ :: r => last_opt r
  end.

(* ---------------------------------------------------------------- state *)

(* a ThreadPoolThread: _currentClient, _internalQueue, whether it is inside the client's handler for the head of
   _internalQueue, and whether its internal thread has exited (after ShutdownInternalThread()) *)
Record thr := mkThr { th_client : option client; th_queue : list msg; th_running : bool; th_exited : bool }.
Definition idle_thr : thr := mkThr None [] false false.
Definition thr_idle (h : thr) : bool :=
  match th_client h with None => is_nil (th_queue h) && negb (th_running h) | Some _ => false end.

(* where a client's owner is inside UnregisterClient(): blocked in waitCondition.Wait() (with the WaitCondition's
   pending-notification state), or about to run the final clean-up section *)
Inductive ustate := UWaiting (notified : bool) | UFinal.

(* where Shutdown() is *)
Inductive sdpc :=
| SdNone                                    (* not called *)
| SdSwapAvail                               (* _shuttingDown set; about to swap out _availableThreads *)
| SdJoinAvail (l : list tid) (nz : bool)    (* ShutdownInternalThread() on the threads swapped out of _availableThreads; nz: this round saw a thread *)
| SdJoinActive (l : list tid) (nz : bool)   (* same for _activeThreads *)
| SdDone.                                   (* final section done *)

Record st := mkSt {
  s_max    : nat;                  (* _maxThreadCount *)
  s_shut   : bool;                 (* _shuttingDown *)
  s_ctr    : nat;                  (* _threadIDCounter *)
  s_avail  : list tid;             (* _availableThreads (keys) *)
  s_active : list tid;             (* _activeThreads (keys) *)
  s_reg    : table bool;           (* _registeredClients: client -> being handled *)
  s_pend   : table (list msg);     (* _pendingMessages *)
  s_defer  : table (list msg);     (* _deferredMessages *)
  s_wait   : list client;          (* _waitingForCompletion (keys; the WaitCondition is in s_unreg) *)
  s_thr    : table thr;            (* every ThreadPoolThread ever created *)
  s_cl     : list client;          (* clients whose IThreadPoolClient::_threadPool points at this pool *)
  s_unreg  : table ustate;         (* clients inside UnregisterClient() *)
  s_sd     : sdpc;
  s_bad    : bool                  (* some MASSERT of ThreadPool.cpp would have fired *)
}.

Definition init (maxThreads : nat) : st := mkSt maxThreads false 0 [] [] [] [] [] [] [] [] [] SdNone false.

Definition set_shut s v := mkSt (s_max s) v (s_ctr s) (s_avail s) (s_active s) (s_reg s) (s_pend s) (s_defer s) (s_wait s) (s_thr s) (s_cl s) (s_unreg s) (s_sd s) (s_bad s).
Definition set_ctr s v := mkSt (s_max s) (s_shut s) v (s_avail s) (s_active s) (s_reg s) (s_pend s) (s_defer s) (s_wait s) (s_thr s) (s_cl s) (s_unreg s) (s_sd s) (s_bad s).
Definition set_avail s v := mkSt (s_max s) (s_shut s) (s_ctr s) v (s_active s) (s_reg s) (s_pend s) (s_defer s) (s_wait s) (s_thr s) (s_cl s) (s_unreg s) (s_sd s) (s_bad s).
Definition set_active s v := mkSt (s_max s) (s_shut s) (s_ctr s) (s_avail s) v (s_reg s) (s_pend s) (s_defer s) (s_wait s) (s_thr s) (s_cl s) (s_unreg s) (s_sd s) (s_bad s).
Definition set_reg s v := mkSt (s_max s) (s_shut s) (s_ctr s) (s_avail s) (s_active s) v (s_pend s) (s_defer s) (s_wait s) (s_thr s) (s_cl s) (s_unreg s) (s_sd s) (s_bad s).
Definition set_pend s v := mkSt (s_max s) (s_shut s) (s_ctr s) (s_avail s) (s_active s) (s_reg s) v (s_defer s) (s_wait s) (s_thr s) (s_cl s) (s_unreg s) (s_sd s) (s_bad s).
Definition set_defer s v := mkSt (s_max s) (s_shut s) (s_ctr s) (s_avail s) (s_active s) (s_reg s) (s_pend s) v (s_wait s) (s_thr s) (s_cl s) (s_unreg s) (s_sd s) (s_bad s).
Definition set_wait s v := mkSt (s_max s) (s_shut s) (s_ctr s) (s_avail s) (s_active s) (s_reg s) (s_pend s) (s_defer s) v (s_thr s) (s_cl s) (s_unreg s) (s_sd s) (s_bad s).
Definition set_thr s v := mkSt (s_max s) (s_shut s) (s_ctr s) (s_avail s) (s_active s) (s_reg s) (s_pend s) (s_defer s) (s_wait s) v (s_cl s) (s_unreg s) (s_sd s) (s_bad s).
Definition set_cl s v := mkSt (s_max s) (s_shut s) (s_ctr s) (s_avail s) (s_active s) (s_reg s) (s_pend s) (s_defer s) (s_wait s) (s_thr s) v (s_unreg s) (s_sd s) (s_bad s).
Definition set_unreg s v := mkSt (s_max s) (s_shut s) (s_ctr s) (s_avail s) (s_active s) (s_reg s) (s_pend s) (s_defer s) (s_wait s) (s_thr s) (s_cl s) v (s_sd s) (s_bad s).
Definition set_sd s v := mkSt (s_max s) (s_shut s) (s_ctr s) (s_avail s) (s_active s) (s_reg s) (s_pend s) (s_defer s) (s_wait s) (s_thr s) (s_cl s) (s_unreg s) v (s_bad s).
Definition set_bad s v := mkSt (s_max s) (s_shut s) (s_ctr s) (s_avail s) (s_active s) (s_reg s) (s_pend s) (s_defer s) (s_wait s) (s_thr s) (s_cl s) (s_unreg s) (s_sd s) v.
(* an MASSERT(cond): the flag is raised when cond is false *)
Definition massert (cond : bool) s := set_bad s (s_bad s || negb cond).

Definition qof (t : table (list msg)) (c : client) : list msg :=
  match tget c t with Some q => q | None => [] end.
Definition handled (s : st) (c : client) : bool :=
  match tget c (s_reg s) with Some b => b | None => false end.
Definition thr_of (s : st) (t : tid) : thr :=
  match tget t (s_thr s) with Some h => h | None => idle_thr end.

(* DoesClientHaveMessagesOutstandingUnsafe() *)
Definition outstanding (s : st) (c : client) : bool :=
  handled s c || negb (is_nil (qof (s_pend s) c)) || negb (is_nil (qof (s_defer s) c)).

(* GetOrPut(client) followed by AddTail(msg) *)
Definition tappend (c : client) (m : msg) (t : table (list msg)) : table (list msg) :=
  tset c (qof t c ++ [m]) t.

(* ---------------------------------------------------------------- DispatchPendingMessagesUnsafe() *)

(* "demand-allocate a new Thread": new ThreadPoolThread(this, _threadIDCounter++); StartInternalThread; _availableThreads.Put *)
Definition spawn (s : st) : st :=
  let t := s_ctr s in
  set_thr (set_avail (set_ctr s (S t)) (s_avail s ++ [t])) (tset t idle_thr (s_thr s)).

(* _availableThreads.MoveToTable(t, _activeThreads); t->SendMessagesToInternalThread(client, *mq) (the swap of the
   Queues, with its two MASSERTs); *isBeingHandled = true; _pendingMessages.RemoveFirst() *)
Definition assign (s : st) (t : tid) (c : client) (mq : list msg) : st :=
  let h := thr_of s t in
  let s1 := massert (match th_client h with None => true | Some _ => false end) s in
  let s2 := massert (is_nil (th_queue h)) s1 in
  let s3 := set_active (set_avail s2 (lrem t (s_avail s2))) (s_active s2 ++ [t]) in
  let s4 := set_thr s3 (tset t (mkThr (Some c) mq (th_running h) (th_exited h)) (s_thr s3)) in
  let s5 := set_reg s4 (tset c true (s_reg s4)) in
  set_pend s5 (tl (s_pend s5)).

(* the while loop; every iteration removes the first entry of _pendingMessages or leaves the loop, so
   [length (s_pend s)] is enough fuel (lemma dispatch_fuel_adequate) *)
Fixpoint dispatch_loop (fuel : nat) (s : st) : st :=
  match fuel with
  | 0 => s
  | S f =>
    match s_pend s with
    | [] => s
    | (c, mq) :: rest =>
      match tget c (s_reg s), mq with
      | Some beingHandled, _ :: _ =>
        let s0 := massert (negb beingHandled) s in
        let s1 := if is_nil (s_avail s0) && (length (s_active s0) <? s_max s0) then spawn s0 else s0 in
        match last_opt (s_avail s1) with
        | Some t => dispatch_loop f (assign s1 t c mq)
        | None => s1                                      (* all pool threads are busy *)
        end
      | _, _ => dispatch_loop f (set_pend s rest)       (* "nothing to do for this client!?" *)
      end
    end
  end.

Definition dispatch (s : st) : st :=
  if s_shut s then s else dispatch_loop (length (s_pend s)) s.

(* ---------------------------------------------------------------- the other critical sections *)

Inductive sres := SendOk | SendBadObject | SendBadArgument.

(* ThreadPool::SendMessageToThreadPool(client, msg) *)
Definition pool_send (s : st) (c : client) (m : msg) : st * sres :=
  match tget c (s_reg s) with
  | None => (s, SendBadArgument)
  | Some true => (set_defer s (tappend c m (s_defer s)), SendOk)
  | Some false =>
    let s1 := set_pend s (tappend c m (s_pend s)) in
    ((if length (qof (s_pend s1) c) =? 1 then dispatch s1 else s1), SendOk)
  end.

Inductive event :=
| ESubmit (c : client) (m : msg) (r : sres)            (* SendMessageToThreadPool returned r *)
| EEnter (c : client) (m : msg) (t : tid) (left : nat) (* pool thread t calls c's MessageReceivedFromThreadPool(m, left) *)
| EExit (c : client) (m : msg) (t : tid)               (* ... and the handler returned *)
| ENotify (c : client)                                 (* the WaitCondition of c's UnregisterClient() was notified *)
| EUnregBegin (c : client) (wait : bool)               (* first section of UnregisterClient: will it Wait()? *)
| EUnregReturn (c : client)                            (* SetThreadPool(NULL) returned *)
| EShutDone.                                           (* Shutdown() returned *)

(* WaitCondition::Notify() on the condition of the client blocked in UnregisterClient() *)
Definition notify (s : st) (c : client) : st :=
  match tget c (s_unreg s) with
  | Some (UWaiting _) => set_unreg s (tset c (UWaiting true) (s_unreg s))
  | _ => s
  end.

(* ThreadFinishedProcessingClientMessages(threadID, client), in three parts: (1) reset the being-handled flag, promote
   the deferred Messages to pending, give the thread back to _availableThreads; (2) DispatchPendingMessagesUnsafe();
   (3) wake the client's UnregisterClient() if nothing of it is outstanding any more *)
Definition fin_core (s : st) (t : tid) (c : client) : st :=
  let s1 :=
    match tget c (s_reg s) with
    | Some h =>
      let sa := set_reg (massert h s) (tset c false (s_reg s)) in
      match tget c (s_defer sa) with
      | Some (d0 :: dr) =>
        let oldp := qof (s_pend sa) c in                   (* _pendingMessages.GetOrPut(client), then SwapContents *)
        let sb := massert (is_nil oldp) sa in
        set_defer (set_pend sb (tset c (d0 :: dr) (s_pend sb))) (tset c oldp (s_defer sb))
      | _ => sa
      end
    | None => s
    end in
  if lmem t (s_active s1)
  then set_avail (set_active s1 (lrem t (s_active s1))) (s_avail s1 ++ [t])
  else s1.

Definition fin_notify (s : st) (c : client) : st * list event :=
  if outstanding s c then (s, [])
  else if lmem c (s_wait s) then (set_wait (notify s c) (lrem c (s_wait s)), [ENotify c])
  else (s, []).

Definition finished (s : st) (t : tid) (c : client) : st * list event :=
  if s_shut s then (s, []) else fin_notify (dispatch (fin_core s t c)) c.

(* first critical section of UnregisterClient() *)
Definition unreg_begin (s : st) (c : client) : st * list event :=
  if outstanding s c
  then (set_unreg (set_wait s (ladd c (s_wait s))) (tset c (UWaiting false) (s_unreg s)), [EUnregBegin c true])
  else (set_unreg s (tset c UFinal (s_unreg s)), [EUnregBegin c false]).

(* "final cleanup" section of UnregisterClient(), then IThreadPoolClient::SetThreadPool sets _threadPool = NULL *)
Definition unreg_end (s : st) (c : client) : st :=
  let s1 := set_reg s (tdel c (s_reg s)) in
  let s2 := set_pend s1 (tdel c (s_pend s1)) in
  let s3 := set_defer s2 (tdel c (s_defer s2)) in
  let s4 := set_wait s3 (lrem c (s_wait s3)) in
  set_cl (set_unreg s4 (tdel c (s_unreg s4))) (lrem c (s_cl s4)).

(* final critical section of Shutdown() *)
Definition shut_end (s : st) : st * list event :=
  let s1 := set_cl s (filter (fun c => match tget c (s_reg s) with Some _ => false | None => true end) (s_cl s)) in
  let s2 := set_defer (set_pend (set_reg (set_active (set_avail s1 []) []) []) []) [] in
  let s3 := fold_left notify (s_wait s2) s2 in
  (set_sd (set_wait s3 []) SdDone, map ENotify (s_wait s2) ++ [EShutDone]).

(* ---------------------------------------------------------------- labels and the step function *)

Inductive label :=
| LRegister (c : client)            (* client->SetThreadPool(&pool) *)
| LSubmit (c : client) (m : msg)    (* client->SendMessageToThreadPool(m) *)
| LEnter (t : tid)                  (* pool thread t enters the handler for the head of its _internalQueue *)
| LExit (t : tid)                   (* the handler returns; the head is removed *)
| LFinish (t : tid)                 (* batch done: t calls ThreadFinishedProcessingClientMessages *)
| LUnregBegin (c : client)          (* client->SetThreadPool(NULL): first section of UnregisterClient *)
| LUnregWake (c : client)           (* its waitCondition.Wait() returns *)
| LUnregEnd (c : client)            (* final clean-up section; SetThreadPool returns *)
| LShutBegin                        (* Shutdown(): _shuttingDown = true *)
| LShutSwap                         (* ShutdownThreadsInTableWithoutDeadlocking: the SwapContents section *)
| LShutJoin                         (* ShutdownInternalThread() of the next swapped-out thread returns *)
| LShutEnd                          (* final section *)
| LSubmitStale (c : client) (m : msg).
                                    (* client->SendMessageToThreadPool(m) whose unsynchronised test of _threadPool was made before a
                                       concurrent Shutdown() cleared the pointer: the pool's critical section runs after Shutdown()'s
                                       final section (seen under the controlled scheduler; it answers B_BAD_ARGUMENT) *)

Definition sd_done (p : sdpc) : bool := match p with SdDone => true | _ => false end.

Definition in_unreg (s : st) (c : client) : bool :=
  match tget c (s_unreg s) with Some _ => true | None => false end.

Definition upd_thr (s : st) (t : tid) (h : thr) : st := set_thr s (tset t h (s_thr s)).

Definition step (s : st) (l : label) : option (st * list event) :=
  match l with
  | LRegister c =>
    if in_unreg s c then None
    else if lmem c (s_cl s) then Some (s, [])                         (* SetThreadPool(tp) with tp == _threadPool *)
    else Some (set_cl (set_reg s (tset c false (s_reg s))) (s_cl s ++ [c]), [])
  | LSubmit c m =>
    if in_unreg s c then None
    else if lmem c (s_cl s)
         then let (s', r) := pool_send s c m in Some (s', [ESubmit c m r])
         else Some (s, [ESubmit c m SendBadObject])
  | LEnter t =>
    match tget t (s_thr s) with
    | Some h =>
      match th_client h, th_queue h, th_running h with
      | Some c, m :: q, false => Some (upd_thr s t (mkThr (Some c) (m :: q) true (th_exited h)), [EEnter c m t (length q)])
      | _, _, _ => None
      end
    | None => None
    end
  | LExit t =>
    match tget t (s_thr s) with
    | Some h =>
      match th_client h, th_queue h, th_running h with
      | Some c, m :: q, true => Some (upd_thr s t (mkThr (Some c) q false (th_exited h)), [EExit c m t])
      | _, _, _ => None
      end
    | None => None
    end
  | LFinish t =>
    match tget t (s_thr s) with
    | Some h =>
      match th_client h, th_queue h, th_running h with
      | Some c, [], false => Some (finished (upd_thr s t (mkThr None [] false (th_exited h))) t c)
      | _, _, _ => None
      end
    | None => None
    end
  | LUnregBegin c =>
    (* SetThreadPool(NULL) calls UnregisterClient() when its (unsynchronised) test of _threadPool finds the pointer set;
       the second disjunct is the call whose test preceded Shutdown()'s final section, which cleared the pointer *)
    if in_unreg s c then None
    else if lmem c (s_cl s) || sd_done (s_sd s) then Some (unreg_begin s c) else None
  | LUnregWake c =>
    match tget c (s_unreg s) with
    | Some (UWaiting true) => Some (set_unreg s (tset c UFinal (s_unreg s)), [])
    | _ => None
    end
  | LUnregEnd c =>
    match tget c (s_unreg s) with
    | Some UFinal => Some (unreg_end s c, [EUnregReturn c])
    | _ => None
    end
  | LShutBegin =>
    match s_sd s with
    | SdNone => Some (set_sd (set_shut s true) SdSwapAvail, [])
    | _ => None
    end
  | LShutSwap =>
    match s_sd s with
    | SdSwapAvail | SdJoinActive [] true =>
      Some (set_sd (set_avail s []) (SdJoinAvail (s_avail s) (negb (is_nil (s_avail s)))), [])
    | SdJoinAvail [] nz =>
      Some (set_sd (set_active s []) (SdJoinActive (s_active s) (nz || negb (is_nil (s_active s)))), [])
    | _ => None
    end
  | LShutJoin =>
    match s_sd s with
    | SdJoinAvail (t :: r) nz =>
      let h := thr_of s t in
      if thr_idle h then Some (set_sd (upd_thr s t (mkThr None [] false true)) (SdJoinAvail r nz), []) else None
    | SdJoinActive (t :: r) nz =>
      let h := thr_of s t in
      if thr_idle h then Some (set_sd (upd_thr s t (mkThr None [] false true)) (SdJoinActive r nz), []) else None
    | _ => None
    end
  | LShutEnd =>
    match s_sd s with
    | SdJoinActive [] false => Some (shut_end s)
    | _ => None
    end
  | LSubmitStale c m =>
    if in_unreg s c then None
    else if lmem c (s_cl s) then None
    else match s_sd s with
         | SdDone => let (s', r) := pool_send s c m in Some (s', [ESubmit c m r])
         | _ => None
         end
  end.

(* a run: labels applied from left to right; None when some label was not enabled *)
Fixpoint run (s : st) (ls : list label) : option (st * list event) :=
  match ls with
  | [] => Some (s, [])
  | l :: r =>
    match step s l with
    | None => None
    | Some (s1, e1) =>
      match run s1 r with
      | None => None
      | Some (s2, e2) => Some (s2, e1 ++ e2)
      end
    end
  end.

(* ---------------------------------------------------------------- observations on event traces *)

Definition is_ok (r : sres) : bool := match r with SendOk => true | _ => false end.

Fixpoint submitted (tr : list event) (c : client) : list msg :=
  match tr with
  | [] => []
  | ESubmit c' m r :: tl => if Nat.eqb c c' && is_ok r then m :: submitted tl c else submitted tl c
  | _ :: tl => submitted tl c
  end.
Fixpoint entered (tr : list event) (c : client) : list msg :=
  match tr with
  | [] => []
  | EEnter c' m _ _ :: tl => if Nat.eqb c c' then m :: entered tl c else entered tl c
  | _ :: tl => entered tl c
  end.
Fixpoint exited (tr : list event) (c : client) : list msg :=
  match tr with
  | [] => []
  | EExit c' m _ :: tl => if Nat.eqb c c' then m :: exited tl c else exited tl c
  | _ :: tl => exited tl c
  end.

(* "never by two pool threads at the same time": scanning the trace, a handler call for client c may begin only
   when no call for c is open, and the call that returns is the open one *)
Fixpoint serial_from (op : option (tid * msg)) (tr : list event) (c : client) : bool :=
  match tr with
  | [] => true
  | EEnter c' m t _ :: tl =>
    if Nat.eqb c c'
    then match op with None => serial_from (Some (t, m)) tl c | Some _ => false end
    else serial_from op tl c
  | EExit c' m t :: tl =>
    if Nat.eqb c c'
    then match op with
         | Some (t', m') => Nat.eqb t t' && Nat.eqb m m' && serial_from None tl c
         | None => false
         end
    else serial_from op tl c
  | _ :: tl => serial_from op tl c
  end.
Definition serial (tr : list event) (c : client) : bool := serial_from None tr c.

(* the pool thread whose _currentClient is c (at most one, theorem pool_client_serial), and the Messages it still
   holds for c (its _internalQueue; the head is the one being handled while th_running) *)
Definition works_for (c : client) (e : tid * thr) : bool :=
  match th_client (snd e) with Some c' => Nat.eqb c c' | None => false end.
Definition worker (s : st) (c : client) : option (tid * thr) := find (works_for c) (s_thr s).
Definition inflight (s : st) (c : client) : list msg :=
  match worker s c with Some (_, h) => th_queue h | None => [] end.
(* everything of client c that the pool still holds, in handling order *)
Definition queued (s : st) (c : client) : list msg :=
  inflight s c ++ qof (s_pend s) c ++ qof (s_defer s) c.

(* pool threads currently working for a client *)
Definition busy_threads (s : st) : list tid :=
  map fst (filter (fun e : tid * thr => match th_client (snd e) with Some _ => true | None => false end) (s_thr s)).
