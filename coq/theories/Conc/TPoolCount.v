(* C19 -- the pool never creates more than _maxThreadCount threads: until Shutdown() begins every thread ever created
   (_threadIDCounter of them) sits in _availableThreads or _activeThreads, and a new one is created only when
   _availableThreads is empty and _activeThreads holds fewer than _maxThreadCount. *)
From Coq Require Import List Arith Bool Lia.
From Muscle Require Import Conc.TPool Conc.TPoolLemmas Conc.TPoolInv Conc.TPoolStep Conc.TPoolTrace Conc.TPoolProofs Conc.TPoolProgress.
Import ListNotations.

Definition CInv (s : st) : Prop :=
  s_ctr s <= s_max s /\ (s_shut s = false -> s_ctr s = length (s_avail s) + length (s_active s)).

Lemma step_max : forall s l s' ev, step s l = Some (s', ev) -> s_max s' = s_max s.
Proof.
  assert (Hsend : forall s c m s1 r, pool_send s c m = (s1, r) -> s_max s1 = s_max s).
  { intros s c m s1 r Hs. unfold pool_send in Hs.
    destruct (tget c (s_reg s)) as [[|]|]; [injection Hs as <- <-; auto| |injection Hs as <- <-; auto].
    destruct (_ =? 1); injection Hs as <- <-; auto.
    destruct (dispatch_frame (set_pend s (tappend c m (s_pend s)))) as [_ [F _]]. exact F. }
  intros s l s' ev Hst. destruct l as [c|c m|t|t|t|c|c|c| | | | |c m]; cbn [step] in Hst.
  - destruct (in_unreg s c); [discriminate|]. destruct (lmem c (s_cl s)); injection Hst as <- <-; auto.
  - destruct (in_unreg s c); [discriminate|]. destruct (lmem c (s_cl s)); [|injection Hst as <- <-; auto].
    destruct (pool_send s c m) as [s1 r] eqn:Hs. injection Hst as <- <-. eauto.
  - destruct (tget t (s_thr s)) as [h|]; [|discriminate].
    destruct (th_client h); [|discriminate]. destruct (th_queue h); [discriminate|].
    destruct (th_running h); [discriminate|]. injection Hst as <- <-. auto.
  - destruct (tget t (s_thr s)) as [h|]; [|discriminate].
    destruct (th_client h); [|discriminate]. destruct (th_queue h); [discriminate|].
    destruct (th_running h); [|discriminate]. injection Hst as <- <-. auto.
  - destruct (tget t (s_thr s)) as [h|]; [|discriminate].
    destruct (th_client h) as [c|]; [|discriminate]. destruct (th_queue h); [|discriminate].
    destruct (th_running h); [discriminate|].
    destruct (finished (upd_thr s t (mkThr None [] false (th_exited h))) t c) as [s1 e1] eqn:Hfin.
    injection Hst as <- <-. unfold finished in Hfin.
    destruct (s_shut _); [injection Hfin as <- <-; auto|].
    set (sA := upd_thr s t (mkThr None [] false (th_exited h))) in *.
    assert (E2 : s_max (fin_core sA t c) = s_max s).
    { unfold fin_core. destruct (tget c (s_reg sA)) as [b|]; sst.
      - destruct (tget c (s_defer sA)) as [[|d0 dr]|]; sst; destruct (lmem t (s_active sA)); reflexivity.
      - destruct (lmem t (s_active sA)); reflexivity. }
    destruct (dispatch_frame (fin_core sA t c)) as [_ [F _]].
    unfold fin_notify in Hfin. destruct (outstanding _ c); [injection Hfin as <- <-; congruence|].
    destruct (lmem c _); injection Hfin as <- <-; [|congruence].
    sst. destruct (notify_spec (dispatch (fin_core sA t c)) c) as [B1 _]. congruence.
  - destruct (in_unreg s c); [discriminate|]. destruct (lmem c (s_cl s) || sd_done (s_sd s)); [|discriminate].
    unfold unreg_begin in Hst. destruct (outstanding s c); injection Hst as <- <-; auto.
  - destruct (tget c (s_unreg s)) as [[[|]|]|]; try discriminate. injection Hst as <- <-. auto.
  - destruct (tget c (s_unreg s)) as [[|]|]; try discriminate. injection Hst as <- <-. auto.
  - destruct (s_sd s); try discriminate. injection Hst as <- <-. auto.
  - destruct (s_sd s) as [| |[|t r] nz|[|t r] [|]|]; try discriminate; injection Hst as <- <-; auto.
  - destruct (s_sd s) as [| |[|t r] nz|[|t r] nz|]; try discriminate; cbv zeta in Hst;
      (destruct (thr_idle (thr_of s t)); [|discriminate]); injection Hst as <- <-; auto.
  - destruct (s_sd s) as [| | |[|t r] [|]|]; try discriminate.
    destruct (shut_end s) as [s1 e1] eqn:He. injection Hst as <- <-.
    destruct (shut_end_fields s) as [A1 _]. rewrite He in A1. exact A1.
  - destruct (in_unreg s c); [discriminate|]. destruct (lmem c (s_cl s)); [discriminate|]. destruct (s_sd s); try discriminate.
    destruct (pool_send s c m) as [s1 r] eqn:Hs. injection Hst as <- <-. eauto.
Qed.

Lemma dispatch_cinv : forall s, SInv s -> CInv s -> CInv (dispatch s).
Proof.
  intros s I. unfold dispatch. destruct (s_shut s) eqn:Hsh; auto.
  apply (dispatch_loop_rel (fun a b => CInv a -> CInv b)); auto.
  - (* spawn *)
    intros s0 I0 Hsh0 Hav Hlt [C1 C2]. unfold CInv, spawn; sst. rewrite Hav in *. specialize (C2 Hsh0). cbn in *. split; [lia|intros _; lia].
  - (* assign *)
    intros s0 t c mq rest I0 Hsh0 Hl Hp Hmq [C1 C2]. specialize (C2 Hsh0).
    assert (Hin : In t (s_avail s0)) by now apply last_opt_In.
    pose proof (lrem_length t (s_avail s0) (i_nd_avail _ I0) Hin) as Hlen.
    unfold CInv, assign; sst. rewrite app_length. cbn [length]. split; [lia|intros _; lia].
Qed.

Lemma fin_core_counts : forall s t h c,
  SInv s -> s_shut s = false -> tget t (s_thr s) = Some h -> th_client h = Some c ->
  let s2 := fin_core (upd_thr s t (mkThr None [] false (th_exited h))) t c in
  s_ctr s2 = s_ctr s /\ s_max s2 = s_max s /\ s_avail s2 = s_avail s ++ [t] /\ s_active s2 = lrem t (s_active s).
Proof.
  intros s t h c I Hsh Ht Hc.
  destruct (fin_facts s t h c I Hsh Ht Hc) as [Hregc [Hpn [Hm Hex]]].
  unfold fin_core; sst; rewrite Hregc; sst;
    destruct (tget c (s_defer s)) as [[|d0 dr]|] eqn:Hd; sst; rewrite ?Hm; sst; repeat split; auto.
Qed.

Lemma step_cinv : forall s l s' ev, Inv s -> CInv s -> step s l = Some (s', ev) -> CInv s'.
Proof.
  intros s l s' ev [I [U W]] C Hst. destruct l as [c|c m|t|t|t|c|c|c| | | | |c m]; cbn [step] in Hst.
  - destruct (in_unreg s c); [discriminate|]. destruct (lmem c (s_cl s)); injection Hst as <- <-; auto.
  - destruct (in_unreg s c); [discriminate|]. destruct (lmem c (s_cl s)); [|injection Hst as <- <-; auto].
    destruct (pool_send s c m) as [s1 r] eqn:Hs. injection Hst as <- <-. unfold pool_send in Hs.
    destruct (tget c (s_reg s)) as [[|]|] eqn:Hr; [injection Hs as <- <-; auto| |injection Hs as <- <-; auto].
    destruct (_ =? 1); injection Hs as <- <-; auto. apply dispatch_cinv; auto. now apply send_pend_inv.
  - destruct (tget t (s_thr s)) as [h|]; [|discriminate].
    destruct (th_client h); [|discriminate]. destruct (th_queue h); [discriminate|].
    destruct (th_running h); [discriminate|]. injection Hst as <- <-. auto.
  - destruct (tget t (s_thr s)) as [h|]; [|discriminate].
    destruct (th_client h); [|discriminate]. destruct (th_queue h); [discriminate|].
    destruct (th_running h); [|discriminate]. injection Hst as <- <-. auto.
  - destruct (tget t (s_thr s)) as [h|] eqn:Ht; [|discriminate].
    destruct (th_client h) as [c|] eqn:Hc; [|discriminate]. destruct (th_queue h) as [|m q] eqn:Hq; [|discriminate].
    destruct (th_running h) eqn:Hr; [discriminate|].
    destruct (finished (upd_thr s t (mkThr None [] false (th_exited h))) t c) as [s1 e1] eqn:Hfin.
    injection Hst as <- <-. unfold finished in Hfin.
    change (s_shut (upd_thr s t (mkThr None [] false (th_exited h)))) with (s_shut s) in Hfin.
    destruct (s_shut s) eqn:Hsh; [injection Hfin as <- <-; destruct C as [C1 C2]; split; [exact C1|intros H; sst; congruence]|].
    pose proof (fin_core_inv s t h c I Hsh Ht Hc Hq Hr) as I2.
    destruct (fin_core_counts s t h c I Hsh Ht Hc) as [E1 [E2 [E3 E4]]].
    destruct (fin_core_other s t h c I Hsh Ht Hc) as [_ [_ [Es _]]].
    destruct (fin_facts s t h c I Hsh Ht Hc) as [_ [_ [Hm _]]]. apply lmem_In in Hm.
    set (s2 := fin_core (upd_thr s t (mkThr None [] false (th_exited h))) t c) in *.
    assert (C2 : CInv s2).
    { destruct C as [C1 C2]. specialize (C2 Hsh). pose proof (lrem_length t (s_active s) (i_nd_active _ I) Hm).
      unfold CInv. rewrite E1, E2, E3, E4, app_length. cbn [length]. split; [lia|intros _; lia]. }
    pose proof (dispatch_cinv s2 I2 C2) as C3.
    unfold fin_notify in Hfin. destruct (outstanding _ c); [injection Hfin as <- <-; auto|].
    destruct (lmem c _); injection Hfin as <- <-; auto.
    unfold CInv in *. unfold notify. destruct (tget c (s_unreg (dispatch s2))) as [[|]|]; sst; auto.
  - destruct (in_unreg s c); [discriminate|]. destruct (lmem c (s_cl s) || sd_done (s_sd s)); [|discriminate].
    unfold unreg_begin in Hst. destruct (outstanding s c); injection Hst as <- <-; auto.
  - destruct (tget c (s_unreg s)) as [[[|]|]|]; try discriminate. injection Hst as <- <-. auto.
  - destruct (tget c (s_unreg s)) as [[|]|]; try discriminate. injection Hst as <- <-. auto.
  - destruct (s_sd s); try discriminate. injection Hst as <- <-. destruct C as [C1 C2]. split; [exact C1|intros H; discriminate].
  - assert (Hsh : s_shut s = true) by (apply shut_true; auto; intros E; rewrite E in Hst; discriminate).
    destruct C as [C1 C2].
    destruct (s_sd s) as [| |[|t r] nz|[|t r] [|]|]; try discriminate; injection Hst as <- <-;
      (split; [exact C1|intros H; sst; congruence]).
  - assert (Hsh : s_shut s = true) by (apply shut_true; auto; intros E; rewrite E in Hst; discriminate).
    destruct C as [C1 C2].
    destruct (s_sd s) as [| |[|t r] nz|[|t r] nz|]; try discriminate; cbv zeta in Hst;
      (destruct (thr_idle (thr_of s t)); [|discriminate]); injection Hst as <- <-;
      (split; [exact C1|intros H; sst; congruence]).
  - assert (Hsh : s_shut s = true) by (apply shut_true; auto; intros E; rewrite E in Hst; discriminate).
    destruct C as [C1 C2].
    destruct (s_sd s) as [| | |[|t r] [|]|]; try discriminate.
    destruct (shut_end s) as [s1 e1] eqn:He. injection Hst as <- <-.
    destruct (shut_end_fields s) as [A1 [A2 [A3 _]]]. rewrite He in A1, A2, A3. cbn [fst] in *.
    unfold CInv. rewrite A1, A2, A3. split; [exact C1|intros H; congruence].
  - destruct (in_unreg s c); [discriminate|]. destruct (lmem c (s_cl s)); [discriminate|]. destruct (s_sd s); try discriminate.
    destruct (pool_send s c m) as [s1 r] eqn:Hs. injection Hst as <- <-. unfold pool_send in Hs.
    destruct (tget c (s_reg s)) as [[|]|] eqn:Hr; [injection Hs as <- <-; auto| |injection Hs as <- <-; auto].
    destruct (_ =? 1); injection Hs as <- <-; auto. apply dispatch_cinv; auto. now apply send_pend_inv.
Qed.

(* For every run: at most _maxThreadCount threads are ever created, every thread object has an id below the counter,
   and until Shutdown() begins the counter equals the number of threads in the two thread tables. *)
Theorem pool_threads_created_bound : forall n ls s tr, run (init n) ls = Some (s, tr) ->
  s_max s = n /\ s_ctr s <= n /\
  (forall t h, tget t (s_thr s) = Some h -> t < s_ctr s) /\
  (s_shut s = false -> s_ctr s = length (s_avail s) + length (s_active s)).
Proof.
  intros n ls s tr H. apply run_reach in H.
  assert (HC : CInv s /\ s_max s = n).
  { induction H; [split; [split; [cbn; lia|intros _; reflexivity]|reflexivity]|].
    destruct IHreach as [C M]. split; [eapply step_cinv; eauto; eapply reach_inv; eauto|].
    rewrite <- M. eapply step_max; eauto. }
  destruct HC as [[C1 C2] M]. destruct (reach_inv _ _ _ H) as [I _].
  split; auto. split; [lia|]. split; [apply (i_fresh_thr _ I)|exact C2].
Qed.
