(* C10 -- consequences of the invariant used in every preservation case: who can hold what. *)
From Coq Require Import List Arith Bool Lia.
From Muscle Require Import Conc.Pool Conc.PoolProofs Conc.RefCnt Conc.RefInv.
Import ListNotations.
Local Open Scope nat_scope.

Section Excl.
Variable K : nat.

Lemma net_le_sum : forall s o t, t < length (s_thr s) -> net o (thr s t) <= sumf (net o) (s_thr s).
Proof. intros. unfold thr. apply (sumf_nth_le _ (net o) (s_thr s) t dthr); auto. Qed.

(* a counting stack slot keeps its target alive, with a positive count *)
Lemma held_live : forall s t i o, inv1 K s -> t < length (s_thr s) ->
  nth i (t_stk (thr s t)) None = Some (o, true) -> is_live (hobj s o) = true /\ 1 <= o_cnt (hobj s o).
Proof.
  intros s t i o I Ht H. pose proof (stk_slot s t i o Ht H) as Hs.
  pose proof (cnt_ge_slots K s o I). pose proof (slots_le_units s o). split; [|lia].
  apply (live_of_units K); auto. lia.
Qed.

Lemma member_live : forall s q j o, inv1 K s ->
  nth j (o_mem (hobj s q)) None = Some (o, true) -> is_live (hobj s o) = true /\ 1 <= o_cnt (hobj s o).
Proof.
  intros s q j o I H. pose proof (mem_slot s q j o H) as Hs.
  pose proof (cnt_ge_slots K s o I). pose proof (slots_le_units s o). split; [|lia].
  apply (live_of_units K); auto. lia.
Qed.

(* an object private to thread u (count 1, held on u's stack) is held by nothing else *)
Section Private.
Variables (s : state) (u i q : nat).
Hypothesis I : inv1 K s.
Hypothesis Hu : u < length (s_thr s).
Hypothesis Hheld : nth i (t_stk (thr s u)) None = Some (q, true).
Hypothesis Hone : o_cnt (hobj s q) = 1.

Lemma private_slots : slots q s = 1 /\ sumf (net q) (s_thr s) = 0.
Proof.
  pose proof (count_bound K s q I). pose proof (stk_slot s u i q Hu Hheld). lia.
Qed.

Lemma private_other_thread : forall t i', t < length (s_thr s) -> t <> u -> nth i' (t_stk (thr s t)) None <> Some (q, true).
Proof.
  intros t i' Ht Hne H. pose proof (stk_stk_slots s t u i' i q Ht Hu Hne H Hheld). destruct private_slots. lia.
Qed.

Lemma private_other_slot : forall i', i' <> i -> nth i' (t_stk (thr s u)) None <> Some (q, true).
Proof.
  intros i' Hne H. pose proof (stk_stk_same_slots s u i' i q Hu Hne H Hheld). destruct private_slots. lia.
Qed.

Lemma private_no_member : forall y j, nth j (o_mem (hobj s y)) None <> Some (q, true).
Proof.
  intros y j H. pose proof (stk_mem_slots s u i y j q Hu Hheld H). destruct private_slots. lia.
Qed.

Lemma private_no_net : forall t, t < length (s_thr s) -> net q (thr s t) = 0.
Proof. intros t Ht. pose proof (net_le_sum s q t Ht). destruct private_slots. lia. Qed.

End Private.

(* a fresh object (live, count 0) is referenced by nothing *)
Lemma zero_no_slots : forall s o, inv1 K s -> o_cnt (hobj s o) = 0 -> slots o s = 0 /\ sumf (net o) (s_thr s) = 0.
Proof. intros s o I H. pose proof (count_bound K s o I). lia. Qed.

Lemma zero_no_stack : forall s o t i, inv1 K s -> o_cnt (hobj s o) = 0 -> t < length (s_thr s) ->
  nth i (t_stk (thr s t)) None <> Some (o, true).
Proof. intros s o t i I H Ht E. pose proof (stk_slot s t i o Ht E). destruct (zero_no_slots s o I H). lia. Qed.

Lemma zero_no_member : forall s o y j, inv1 K s -> o_cnt (hobj s o) = 0 ->
  nth j (o_mem (hobj s y)) None <> Some (o, true).
Proof. intros s o y j I H E. pose proof (mem_slot s y j o E). destruct (zero_no_slots s o I H). lia. Qed.

Lemma zero_no_net : forall s o t, inv1 K s -> o_cnt (hobj s o) = 0 -> t < length (s_thr s) -> net o (thr s t) = 0.
Proof. intros s o t I H Ht. pose proof (net_le_sum s o t Ht). destruct (zero_no_slots s o I H). lia. Qed.

(* a non-live object is referenced by nothing that counts *)
Lemma dead_no_stack : forall s o t i, inv1 K s -> is_live (hobj s o) = false -> t < length (s_thr s) ->
  nth i (t_stk (thr s t)) None <> Some (o, true).
Proof. intros s o t i I H Ht E. destruct (held_live s t i o I Ht E). congruence. Qed.

Lemma dead_no_member : forall s o y j, inv1 K s -> is_live (hobj s o) = false ->
  nth j (o_mem (hobj s y)) None <> Some (o, true).
Proof. intros s o y j I H E. destruct (member_live s y j o I E). congruence. Qed.

Lemma dead_cnt0 : forall s o, inv1 K s -> is_live (hobj s o) = false -> o_cnt (hobj s o) = 0 /\ debts o s = 0.
Proof. intros s o I H. pose proof (i_nolive K s I o H). pose proof (i_count K s I o). lia. Qed.

(* units of one thread's todo are bounded by the total *)
Lemma thr_units_le : forall s o t, t < length (s_thr s) -> thr_units o (thr s t) <= units o s.
Proof.
  intros s o t Ht. unfold units, thr. pose proof (sumf_nth_le _ (thr_units o) (s_thr s) t dthr Ht). lia.
Qed.

Lemma thr_units2_le : forall s o t u, t < length (s_thr s) -> u < length (s_thr s) -> t <> u ->
  thr_units o (thr s t) + thr_units o (thr s u) <= units o s.
Proof.
  intros s o t u Ht Hu Hne. unfold units, thr. pose proof (sumf_nth2_le _ (thr_units o) (s_thr s) t u dthr Ht Hu Hne). lia.
Qed.

Lemma in_todo_unit : forall o a todo, In a todo -> act_unit o a <= sumf (act_unit o) todo.
Proof.
  induction todo as [|h t IH]; cbn; intros H; [tauto|]. destruct H as [E|E]; subst; [lia|]. specialize (IH E). lia.
Qed.

Lemma in_todo_rel : forall o a todo, In a todo -> rel_count o a <= sumf (rel_count o) todo.
Proof.
  induction todo as [|h t IH]; cbn; intros H; [tauto|]. destruct H as [E|E]; subst; [lia|]. specialize (IH E). lia.
Qed.

(* at most one thread releases a given object *)
Lemma rel_unique : forall s o t u n m, inv1 K s -> t < length (s_thr s) -> u < length (s_thr s) -> t <> u ->
  In (ARel o n) (t_todo (thr s t)) -> In (ARel o m) (t_todo (thr s u)) -> False.
Proof.
  intros s o t u n m I Ht Hu Hne H1 H2. pose proof (i_rels K s I o) as HR. unfold rels in HR.
  pose proof (sumf_nth2_le _ (fun t => sumf (rel_count o) (t_todo t)) (s_thr s) t u dthr Ht Hu Hne) as Hle. cbn beta in Hle.
  pose proof (in_todo_rel o _ _ H1) as A. pose proof (in_todo_rel o _ _ H2) as B.
  cbn in A, B. unfold eq1 in A, B. rewrite Nat.eqb_refl in A, B. unfold thr in *.
  destruct (is_releasing (hobj s o)); lia.
Qed.

Lemma rel_releasing : forall s o t n, inv1 K s -> t < length (s_thr s) ->
  In (ARel o n) (t_todo (thr s t)) -> is_releasing (hobj s o) = true.
Proof. intros s o t n I Ht H. destruct (i_acts K s I t _ Ht H) as (A & _). exact A. Qed.

End Excl.
