(* C18 -- liveness of the hand-off under weak fairness.  On every infinite run in which each thread whose next transition stays
   enabled eventually takes it, a free lock with waiters does not stay that way: the waiter the hand-off favours acquires the
   lock -- unless somebody else takes it first, or that waiter's own timeout had fired and it leaves the queue. *)
From Coq Require Import List Arith Bool Lia.
Import ListNotations.
From Muscle Require Import Conc.RwMutexModel Conc.RwMutexProofs Conc.RwMutexInv Conc.RwMutexThms Conc.RwMutexLive Conc.RwMutexExtras Conc.RwMutexProgress.

Definition wkeys (g : gst) : list tid := keys (g_ww g).
Definition rkeys (g : gst) : list tid := keys (g_wr g).
Definition drop (k : tid) (l : list tid) : list tid := filter (fun x => negb (Nat.eqb x k)) l.

(* how a queue's key list can change in one transition of thread k *)
Definition evo (k : tid) (blocked : Prop) (old new : list tid) : Prop :=
  new = old \/ (new = old ++ [k] /\ blocked) \/ new = drop k old.

Lemma keys_remove_drop : forall A k (l : list (tid * A)), keys (remove k l) = drop k (keys l).
Proof.
  induction l as [|[x v] r IH]; cbn [remove keys map fst drop filter]; auto.
  destruct (Nat.eqb x k); cbn [negb keys map fst]; [exact IH|]. unfold keys, drop in IH. rewrite IH. reflexivity.
Qed.

Lemma keys_setc : forall t c l, keys (setc t c l) = keys l.
Proof.
  intros t c l. unfold setc. destruct (find t l) eqn:E; auto.
  destruct (keys_setv _ t c l) as [H|[Hn _]]; auto. exfalso. apply Hn.
  clear -E. induction l as [|[x v] r IH]; cbn [find] in E; [discriminate|]. cbn [keys map fst].
  destruct (Nat.eqb x t) eqn:Ex; [left; apply Nat.eqb_eq; auto|right; apply IH; auto].
Qed.

Definition same_keys (g g' : gst) : Prop := wkeys g' = wkeys g /\ rkeys g' = rkeys g.

Lemma sk_all_readers : forall g, same_keys g (fst (notify_all_readers g)).
Proof. intros g. unfold notify_all_readers, same_keys, wkeys, rkeys. cbn [fst set_wr g_wr g_ww]. rewrite keys_bump. auto. Qed.

Lemma sk_next_writer : forall g, same_keys g (fst (notify_next_writer g)).
Proof.
  intros g. unfold notify_next_writer, same_keys, wkeys, rkeys. destruct (g_ww g) as [|[t c] r] eqn:E; cbn [fst set_ww g_wr g_ww]; rewrite ?E; auto.
Qed.

Section P.
Variable pref : bool.

Lemma sk_some : forall g, same_keys g (fst (notify_some pref g)).
Proof.
  intros g. unfold notify_some.
  destruct (negb (is_nil (g_wr g)) && negb (is_nil (g_ww g))); [destruct pref; auto using sk_all_readers, sk_next_writer|].
  destruct (negb (is_nil (g_wr g))); [auto using sk_all_readers|].
  destruct (negb (is_nil (g_ww g))); [auto using sk_next_writer|split; reflexivity].
Qed.

Lemma sk_maybe : forall g, same_keys g (fst (maybe_notify pref g)).
Proof. intros g. unfold maybe_notify. destruct (Nat.eqb (g_total g) 0 && is_nil (g_exec g)); [apply sk_some|split; reflexivity]. Qed.

Lemma evo_same : forall k b l, evo k b l l.
Proof. intros. left. reflexivity. Qed.

Lemma evo_setv : forall k (c : nat) (b : Prop) l, b -> evo k b (keys l) (keys (setv k c l)).
Proof. intros k c b l Hb. destruct (keys_setv _ k c l) as [H|[_ H]]; [left; auto|right; left; auto]. Qed.

Lemma evo_remove : forall k (b : Prop) (l : list (tid * nat)), evo k b (keys l) (keys (remove k l)).
Proof. intros. right. right. apply keys_remove_drop. Qed.

Lemma leave_wr_keys : forall k g b1 b2, evo k b1 (wkeys g) (wkeys (leave_wr k g)) /\ evo k b2 (rkeys g) (rkeys (leave_wr k g)).
Proof.
  intros k g b1 b2. unfold leave_wr, wkeys, rkeys. destruct (find k (g_wr g)); cbn [g_wr g_ww]; split; auto using evo_same, evo_remove.
Qed.

Lemma leave_ww_keys : forall k g b1 b2, evo k b1 (wkeys g) (wkeys (leave_ww k g)) /\ evo k b2 (rkeys g) (rkeys (leave_ww k g)).
Proof.
  intros k g b1 b2. unfold leave_ww, wkeys, rkeys. destruct (find k (g_ww g)); cbn [g_wr g_ww]; split; auto using evo_same, evo_remove.
Qed.

Definition evo2 (k : tid) (g g' : gst) : Prop :=
  evo k (ok_writer k g = false) (wkeys g) (wkeys g') /\ evo k (ok_readers pref g = false) (rkeys g) (rkeys g').

Lemma evo2_sk : forall k g g1 g2, evo2 k g g1 -> same_keys g1 g2 -> evo2 k g g2.
Proof. intros k g g1 g2 [H1 H2] [S1 S2]. unfold evo2. rewrite S1, S2. auto. Qed.

Lemma evo2_refl : forall k g, evo2 k g g.
Proof. intros. split; apply evo_same. Qed.

Lemma evo2_mk_exec : forall k g tot ex p, evo2 k g (mkG tot ex (g_wr g) (g_ww g) p).
Proof. intros. split; apply evo_same. Qed.

Lemma cs_keys : forall k a g g' ns out, cs pref k a g = Some (g', ns, out) -> evo2 k g g'.
Proof.
  intros k a g g' ns out H. destruct a; cbn [cs] in H; try discriminate; inversion H as [H1]; clear H.
  - (* enter_ro *) unfold enter_ro in H1. destruct (find k (g_exec g)); [inversion H1; subst; apply evo2_mk_exec|].
    destruct (ok_readers pref g) eqn:Hok; [inversion H1; subst; apply evo2_mk_exec|].
    destruct d; try (destruct (pool_get (g_pool g)) as [c p]); inversion H1; subst; try apply evo2_refl;
      (split; [apply evo_same|unfold rkeys; cbn [g_wr]; apply evo_setv; auto]).
  - (* enter_rw *) unfold enter_rw in H1. destruct (find k (g_exec g)) as [e|].
    + destruct (Nat.ltb 0 (e_rw e) || Nat.eqb (length (g_exec g)) 1); [inversion H1; subst; apply evo2_mk_exec|].
      destruct d; inversion H1; subst; apply evo2_refl.
    + destruct (ok_writer k g) eqn:Hok; [inversion H1; subst; apply evo2_mk_exec|].
      destruct d; try (destruct (pool_get (g_pool g)) as [c p]); inversion H1; subst; try apply evo2_refl;
        (split; [unfold wkeys; cbn [g_ww]; apply evo_setv; auto|apply evo_same]).
  - (* unlock_ro *) unfold unlock_ro in H1. destruct (find k (g_exec g)) as [e|]; [|inversion H1; subst; apply evo2_refl].
    destruct (e_ro e) as [|r]; [inversion H1; subst; apply evo2_refl|].
    destruct (Nat.eqb r 0 && Nat.eqb (e_rw e) 0).
    + destruct (maybe_notify pref (set_exec g (remove k (g_exec g)))) as [g2 ns2] eqn:E. inversion H1; subst.
      eapply evo2_sk; [|pose proof (sk_maybe (set_exec g (remove k (g_exec g)))) as S; rewrite E in S; exact S]. apply evo2_mk_exec.
    + inversion H1; subst. apply evo2_mk_exec.
  - (* unlock_rw *) unfold unlock_rw in H1. destruct (find k (g_exec g)) as [e|]; [|inversion H1; subst; apply evo2_refl].
    destruct (e_rw e) as [|w]; [inversion H1; subst; apply evo2_refl|].
    match type of H1 with context [if Nat.eqb (pred (g_total g)) 0 then ?x else ?y] =>
      destruct (if Nat.eqb (pred (g_total g)) 0 then x else y) as [g2 ns2] eqn:E end.
    inversion H1; subst. clear H1.
    match type of E with context [mkG ?a ?b ?c ?d ?e0] => assert (Hf : evo2 k g (mkG a b c d e0)) by apply evo2_mk_exec;
      assert (S : same_keys (mkG a b c d e0) g') end.
    { destruct (Nat.eqb (pred (g_total g)) 0); [destruct (Nat.ltb 0 (e_ro e))|].
      - change g' with (fst (g', ns)). rewrite <- E. apply sk_all_readers.
      - match type of E with (if ?c then _ else _) = _ => destruct c end.
        + change g' with (fst (g', ns)). rewrite <- E. apply sk_some.
        + inversion E. split; reflexivity.
      - inversion E. split; reflexivity. }
    eapply evo2_sk; eauto.
  - (* woke_ro *) unfold woke_ro in H1. destruct (negb ok).
    + destruct (maybe_notify pref (leave_wr k g)) as [g2 ns2] eqn:E. inversion H1; subst.
      eapply evo2_sk; [|pose proof (sk_maybe (leave_wr k g)) as S; rewrite E in S; exact S]. apply leave_wr_keys.
    + destruct (ok_readers pref g); inversion H1; subst; [|apply evo2_refl].
      pose proof (leave_wr_keys k (set_exec g (setv k (mkEnt 1 0) (g_exec g))) (ok_writer k g = false) (ok_readers pref g = false)) as L. exact L.
  - (* woke_rw *) unfold woke_rw in H1. destruct (negb ok).
    + destruct (maybe_notify pref (leave_ww k g)) as [g2 ns2] eqn:E. inversion H1; subst.
      eapply evo2_sk; [|pose proof (sk_maybe (leave_ww k g)) as S; rewrite E in S; exact S]. apply leave_ww_keys.
    + destruct (ok_writer k g); inversion H1; subst; [|apply evo2_refl].
      pose proof (leave_ww_keys k (mkG (S (g_total g)) (setv k (mkEnt 0 1) (g_exec g)) (g_wr g) (g_ww g) (g_pool g)) (ok_writer k g = false) (ok_readers pref g = false)) as L. exact L.
Qed.

Lemma step_keys : forall k c g l g' l' o, step pref k c g l = Some (g', l', o) -> evo2 k g g'.
Proof.
  intros k c g l g' l' o. unfold step. destruct c.
  - destruct (l_act l) eqn:Ha;
      try (unfold run_cs; rewrite Ha;
           match goal with |- context [cs pref ?tt ?a ?gg] => destruct (cs pref tt a gg) as [[[g1 ns] out]|] eqn:E end;
           [|discriminate]; apply cs_keys in E;
           destruct out; [destruct (complete l s)|..]; intros H; inversion H; subst; auto).
    + destruct (find k (g_wr g)) as [[|n]|]; try discriminate. intros H; inversion H; subst.
      split; [apply evo_same|]. unfold rkeys. cbn [set_wr g_wr]. rewrite keys_setc. apply evo_same.
    + destruct (find k (g_ww g)) as [[|n]|]; try discriminate. intros H; inversion H; subst.
      split; [|apply evo_same]. unfold wkeys. cbn [set_ww g_ww]. rewrite keys_setc. apply evo_same.
  - destruct (l_act l); try discriminate; destruct d; try discriminate; intros H; inversion H; subst; apply evo2_refl.
Qed.

End P.

(* ---- infinite runs and weak fairness ---- *)

Lemma label_eq_dec : forall a b : label, {a = b} + {a <> b}.
Proof. repeat decide equality. Qed.

Record fair_run (pref : bool) (sigma : nat -> sys) (lam : nat -> label) : Prop := mkRun {
  run_init : reachable pref (sigma 0);
  run_step : forall i, exists o, sys_step pref (sigma i) (lam i) = Some (sigma (S i), o);
  (* weak fairness, constructive form: no thread's next transition stays enabled forever without being taken *)
  run_fair : forall t i, exists j, i <= j /\ (lam j = LStep t CRun \/ step pref t CRun (s_g (sigma j)) (s_l (sigma j) t) = None)
}.

Lemma run_reach : forall pref sigma lam, fair_run pref sigma lam -> forall i, reachable pref (sigma i).
Proof.
  intros pref sigma lam R i. induction i as [|i IH]; [apply (run_init _ _ _ R)|].
  destruct (run_step _ _ _ R i) as [o Hs]. eapply reach_step; eauto.
Qed.

Section Abstract.
Variable pref : bool.
Variable t : tid.
Variables (SF wk gone : sys -> Prop).
Hypothesis H_en : forall s, reachable pref s -> SF s -> step pref t CRun (s_g s) (s_l s t) <> None.
Hypothesis H_persist : forall s lab s' o, reachable pref s -> SF s -> sys_step pref s lab = Some (s', o) -> lab <> LStep t CRun ->
  g_exec (s_g s') <> [] \/ (SF s' /\ (wk s -> wk s')).
Hypothesis H_own : forall s s' o, reachable pref s -> SF s -> sys_step pref s (LStep t CRun) = Some (s', o) ->
  g_exec (s_g s') <> [] \/ gone s' \/ (SF s' /\ wk s' /\ ~ wk s).

Variables (sigma : nat -> sys) (lam : nat -> label).
Hypothesis R : fair_run pref sigma lam.

Definition X : label := LStep t CRun.

Lemma walk : forall d i, SF (sigma i) -> (forall m, i <= m < i + d -> lam m <> X) ->
  (exists m, i <= m <= i + d /\ g_exec (s_g (sigma m)) <> []) \/ (SF (sigma (i + d)) /\ (wk (sigma i) -> wk (sigma (i + d)))).
Proof.
  induction d as [|d IH]; intros i Hsf Hno.
  - right. rewrite Nat.add_0_r. auto.
  - assert (Hno' : forall m, i <= m < i + d -> lam m <> X) by (intros m Hm; apply Hno; lia).
    destruct (IH i Hsf Hno') as [(m & Hm & He)|[Hs Hw]]; [left; exists m; split; [lia|auto]|].
    destruct (run_step _ _ _ R (i + d)) as [o Hst].
    assert (Hne : lam (i + d) <> LStep t CRun) by (apply Hno; lia).
    destruct (H_persist _ _ _ _ (run_reach _ _ _ R (i + d)) Hs Hst Hne) as [He|[Hs' Hw']].
    + left. exists (S (i + d)). split; [lia|auto].
    + right. replace (i + S d) with (S (i + d)) by lia. auto.
Qed.

Lemma first_x : forall d i, (forall m, i <= m < i + d -> lam m <> X) \/
  (exists m0, i <= m0 < i + d /\ lam m0 = X /\ forall m, i <= m < m0 -> lam m <> X).
Proof.
  induction d as [|d IH]; intros i; [left; intros m Hm; lia|].
  destruct (IH i) as [Hno|(m0 & Hm0 & Hx & Hb)]; [|right; exists m0; split; [lia|split; auto]].
  destruct (label_eq_dec (lam (i + d)) X) as [Hx|Hx].
  - right. exists (i + d). split; [lia|]. split; [exact Hx|]. intros m Hm. apply Hno. lia.
  - left. intros m Hm. destruct (Nat.eq_dec m (i + d)) as [->|Hne]; auto. apply Hno. lia.
Qed.

Lemma next_own : forall i, SF (sigma i) ->
  exists m0, i <= m0 /\ ((exists m, i <= m <= m0 /\ g_exec (s_g (sigma m)) <> []) \/
                         (SF (sigma m0) /\ (wk (sigma i) -> wk (sigma m0)) /\ lam m0 = X)).
Proof.
  intros i Hsf. destruct (run_fair _ _ _ R t i) as (j & Hj & Hf).
  destruct (first_x (S (j - i)) i) as [Hno|(m0 & Hm0 & Hx & Hb)].
  - (* t takes no step in [i, j]: impossible, its transition is enabled at j *)
    exists j. split; auto. assert (Hno' : forall m, i <= m < i + (j - i) -> lam m <> X) by (intros m Hm; apply Hno; lia).
    destruct (walk (j - i) i Hsf Hno') as [(m & Hm & He)|[Hs Hw]].
    + left. exists m. split; [lia|auto].
    + replace (i + (j - i)) with j in * by lia. exfalso. destruct Hf as [Hf|Hf].
      * apply (Hno j); [lia|exact Hf].
      * apply (H_en _ (run_reach _ _ _ R j) Hs Hf).
  - exists m0. split; [lia|]. assert (Hno' : forall m, i <= m < i + (m0 - i) -> lam m <> X) by (intros m Hm; apply Hb; lia).
    destruct (walk (m0 - i) i Hsf Hno') as [(m & Hm & He)|[Hs Hw]].
    + left. exists m. split; [lia|auto].
    + replace (i + (m0 - i)) with m0 in * by lia. right. auto.
Qed.

Theorem fair_goal : forall i, SF (sigma i) -> exists j, i <= j /\ (g_exec (s_g (sigma j)) <> [] \/ gone (sigma j)).
Proof.
  intros i Hsf. destruct (next_own i Hsf) as (m0 & Hm0 & [(m & Hm & He)|(Hs & _ & Hx)]); [exists m; split; [lia|auto]|].
  destruct (run_step _ _ _ R m0) as [o Hst]. unfold X in Hx. rewrite Hx in Hst.
  destruct (H_own _ _ _ (run_reach _ _ _ R m0) Hs Hst) as [He|[Hg|(Hs1 & Hw1 & _)]];
    [exists (S m0); split; [lia|auto] | exists (S m0); split; [lia|auto] |].
  (* second round: t is woke now, so its next own transition admits it or removes it *)
  destruct (next_own (S m0) Hs1) as (m1 & Hm1 & [(m & Hm & He)|(Hs2 & Hw2 & Hx2)]); [exists m; split; [lia|auto]|].
  destruct (run_step _ _ _ R m1) as [o1 Hst1]. unfold X in Hx2. rewrite Hx2 in Hst1.
  destruct (H_own _ _ _ (run_reach _ _ _ R m1) Hs2 Hst1) as [He|[Hg|(_ & _ & Hn)]];
    [exists (S m1); split; [lia|auto] | exists (S m1); split; [lia|auto] | exfalso; apply Hn, Hw2, Hw1].
Qed.

End Abstract.

(* ---- the two instances: the first waiting writer, a waiting reader ---- *)

Lemma keys_head : forall (l : list (tid * nat)) t r, keys l = t :: r -> exists c r', l = (t, c) :: r'.
Proof. intros [|[k c] r'] t r H; cbn in H; [discriminate|]. inversion H; subst. eauto. Qed.

Lemma keys_nil : forall (l : list (tid * nat)), keys l = [] -> l = [].
Proof. intros [|x r] H; [auto|discriminate]. Qed.

Lemma head_evo : forall k (b : Prop) t r new, evo k b (t :: r) new -> t <> k -> exists r', new = t :: r'.
Proof.
  intros k b t r new [->|[[-> _]| ->]] Hne; [eauto|cbn; eauto|].
  unfold drop. cbn [filter]. destruct (Nat.eqb t k) eqn:E; [apply Nat.eqb_eq in E; contradiction|]. cbn [negb]. eauto.
Qed.

Lemma nil_evo : forall k (b : Prop) new, evo k b [] new -> ~ b -> new = [].
Proof. intros k b new [->|[[_ Hb]| ->]] Hn; auto. contradiction. Qed.

Section Inst.
Variable pref : bool.

Definition SFavW (t : tid) (s : sys) : Prop :=
  g_exec (s_g s) = [] /\ (exists r, wkeys (s_g s) = t :: r) /\ (pref = false -> g_wr (s_g s) = []).
Definition SFavR (t : tid) (s : sys) : Prop :=
  g_exec (s_g s) = [] /\ memk t (g_wr (s_g s)) = true /\ (pref = true -> g_ww (s_g s) = []).

Lemma sys_step_keys : forall s lab s' o t, sys_step pref s lab = Some (s', o) -> lab <> LStep t CRun ->
  (s_g s' = s_g s \/ (exists p, s_g s' = set_pool (s_g s) p) \/ exists k, k <> t /\ evo2 pref k (s_g s) (s_g s') /\ frame_ok k (s_g s) (s_g s')).
Proof.
  intros s lab s' o t H Hne. destruct lab as [k op|k c|p]; cbn [sys_step] in H.
  - destruct (begin_op op (s_l s k)); inversion H; subst. left. reflexivity.
  - destruct (step pref k c (s_g s) (s_l s k)) as [[[g' l'] o']|] eqn:E; inversion H; subst. cbn [s_g].
    destruct (Nat.eq_dec k t) as [->|Hk].
    + destruct c; [exfalso; apply Hne; reflexivity|]. left. unfold step in E. destruct (l_act (s_l s t)); try discriminate; destruct d; try discriminate; inversion E; reflexivity.
    + right. right. exists k. split; auto. split; [eapply step_keys; eauto|eapply step_frame; eauto].
  - inversion H; subst. right. left. exists p. reflexivity.
Qed.

Lemma acts_stable : forall s lab s' o t, sys_step pref s lab = Some (s', o) -> lab <> LStep t CRun ->
  (woke_w (acts s) t -> woke_w (acts s') t) /\ (woke_r (acts s) t -> woke_r (acts s') t).
Proof.
  intros s lab s' o t H Hne. destruct lab as [k op|k c|p]; cbn [sys_step] in H.
  - destruct (begin_op op (s_l s k)) as [l'|] eqn:Eb; inversion H; subst. unfold woke_w, woke_r, acts. cbn [s_l]. unfold upd.
    destruct (Nat.eqb t k) eqn:Ek; [|auto]. apply Nat.eqb_eq in Ek. subst k. unfold begin_op in Eb.
    split; intros (d & ok & Ha); rewrite Ha in Eb; discriminate.
  - destruct (step pref k c (s_g s) (s_l s k)) as [[[g' l'] o']|] eqn:E; inversion H; subst. unfold woke_w, woke_r, acts. cbn [s_l]. unfold upd.
    destruct (Nat.eqb t k) eqn:Ek; [|auto]. apply Nat.eqb_eq in Ek. subst k. destruct c; [exfalso; apply Hne; reflexivity|].
    unfold step in E. split; intros (d & ok & Ha); rewrite Ha in E; discriminate.
  - inversion H; subst. auto.
Qed.

Lemma ok_readers_free : forall s, reachable pref s -> g_exec (s_g s) = [] -> pref = false -> ok_readers pref (s_g s) = true.
Proof.
  intros s Hr Hn Hp. destruct (inv_reachable pref s Hr) as [Hm _]. unfold ok_readers. rewrite (exec_nil_total _ Hm Hn), Hp. reflexivity.
Qed.

Lemma ok_writer_free : forall s k, g_exec (s_g s) = [] -> g_ww (s_g s) = [] -> ok_writer k (s_g s) = true.
Proof. intros s k Hn Hw. unfold ok_writer. rewrite Hn, Hw. reflexivity. Qed.

Lemma persistW : forall t s lab s' o, reachable pref s -> SFavW t s -> sys_step pref s lab = Some (s', o) -> lab <> LStep t CRun ->
  g_exec (s_g s') <> [] \/ (SFavW t s' /\ (woke_w (acts s) t -> woke_w (acts s') t)).
Proof.
  intros t s lab s' o Hr (Hn & (r & Hk) & Hp) H Hne.
  destruct (g_exec (s_g s')) eqn:Ex; [|left; discriminate]. right. split; [|apply (acts_stable _ _ _ _ _ H Hne)].
  destruct (sys_step_keys _ _ _ _ _ H Hne) as [Hg|[(p & Hg)|(k & Hkt & [Ew Er] & _)]].
  - unfold SFavW. rewrite Hg. eauto.
  - unfold SFavW, wkeys. rewrite Hg. cbn [set_pool g_exec g_ww g_wr]. eauto.
  - split; [auto|]. split.
    + rewrite Hk in Ew. apply head_evo in Ew; auto.
    + intros Hpf. specialize (Hp Hpf). unfold rkeys in Er. rewrite Hp in Er. cbn [keys map] in Er.
      apply nil_evo in Er; [apply keys_nil; exact Er|]. rewrite (ok_readers_free s Hr Hn Hpf). discriminate.
Qed.

Lemma persistR : forall t s lab s' o, reachable pref s -> SFavR t s -> sys_step pref s lab = Some (s', o) -> lab <> LStep t CRun ->
  g_exec (s_g s') <> [] \/ (SFavR t s' /\ (woke_r (acts s) t -> woke_r (acts s') t)).
Proof.
  intros t s lab s' o Hr (Hn & Hm & Hp) H Hne.
  destruct (g_exec (s_g s')) eqn:Ex; [|left; discriminate]. right. split; [|apply (acts_stable _ _ _ _ _ H Hne)].
  destruct (sys_step_keys _ _ _ _ _ H Hne) as [Hg|[(p & Hg)|(k & Hkt & [Ew Er] & [_ Fr _])]].
  - unfold SFavR. rewrite Hg. auto.
  - unfold SFavR. rewrite Hg. cbn [set_pool g_exec g_ww g_wr]. auto.
  - split; [auto|]. split.
    + rewrite Fr; auto.
    + intros Hpt. specialize (Hp Hpt). unfold wkeys in Ew. rewrite Hp in Ew. cbn [keys map] in Ew.
      apply nil_evo in Ew; [apply keys_nil; exact Ew|]. rewrite (ok_writer_free s k Hn Hp). discriminate.
Qed.

Lemma enabledW : forall t s, reachable pref s -> SFavW t s -> step pref t CRun (s_g s) (s_l s t) <> None.
Proof.
  intros t s Hr (Hn & (r & Hk) & Hp). destruct (keys_head _ _ _ Hk) as (c & r' & Ew).
  pose proof (J_reachable pref s Hr Hn) as HJ. unfold Jbody in HJ. destruct (inv_reachable pref s Hr) as [_ Hl].
  eapply awake_writer_enabled; [apply Hl|eapply find_head; eauto|].
  assert (Hh : head_awake (acts s) (g_ww (s_g s))).
  { destruct pref; [rewrite Ew in HJ; rewrite Ew; exact HJ|]. destruct HJ as [_ H2]. apply H2. apply Hp. reflexivity. }
  rewrite Ew in Hh. exact Hh.
Qed.

Lemma enabledR : forall t s, reachable pref s -> SFavR t s -> step pref t CRun (s_g s) (s_l s t) <> None.
Proof.
  intros t s Hr (Hn & Hm & Hp). unfold memk in Hm. destruct (find t (g_wr (s_g s))) as [c|] eqn:Ef; [|discriminate].
  pose proof (J_reachable pref s Hr Hn) as HJ. unfold Jbody in HJ. destruct (inv_reachable pref s Hr) as [_ Hl].
  eapply awake_reader_enabled; [apply Hl|exact Ef|].
  destruct pref; [rewrite (Hp eq_refl) in HJ; apply HJ; exact Ef|]. destruct HJ as [H1 _]. apply H1. exact Ef.
Qed.

Lemma ownW : forall t s s' o, reachable pref s -> SFavW t s -> sys_step pref s (LStep t CRun) = Some (s', o) ->
  g_exec (s_g s') <> [] \/ memk t (g_ww (s_g s')) = false \/ (SFavW t s' /\ woke_w (acts s') t /\ ~ woke_w (acts s) t).
Proof.
  intros t s s' o Hr (Hn & (r & Hk) & Hp) H. destruct (keys_head _ _ _ Hk) as (c & r' & Ew).
  destruct (inv_reachable pref s Hr) as [_ Hl]. destruct (Hl t) as [_ _ _ Hww].
  rewrite (head_memk _ _ _ _ Ew) in Hww. unfold inww in Hww.
  cbn [sys_step] in H. destruct (step pref t CRun (s_g s) (s_l s t)) as [[[g' l'] o']|] eqn:E; inversion H; subst; clear H. cbn [s_g].
  destruct (l_act (s_l s t)) eqn:Ha; try discriminate.
  - (* parked: Wait() returns *)
    unfold step in E. rewrite Ha in E. destruct (find t (g_ww (s_g s))) as [[|n]|]; try discriminate. inversion E; subst; clear E.
    right. right. split; [|split].
    + split; [exact Hn|]. split; [exists r; unfold wkeys; cbn [s_g set_ww g_ww]; rewrite keys_setc; exact Hk|exact Hp].
    + exists d, true. unfold acts. cbn [s_l]. rewrite upd_same. reflexivity.
    + intros (d0 & ok0 & Hc). unfold acts in Hc. rewrite Ha in Hc. discriminate.
  - destruct ok.
    + destruct (handoff_admits_writer pref s Hr Hn t c r' d Ew Ha) as (g2 & l2 & o2 & E2 & Hf2 & _).
      rewrite E in E2. inversion E2; subst. left. intros Hc. rewrite Hc in Hf2. discriminate.
    + right. left. unfold step, run_cs in E. rewrite Ha in E. cbn [cs] in E. unfold woke_rw in E. cbn [negb] in E.
      destruct (maybe_notify pref (leave_ww t (s_g s))) as [g2 ns2] eqn:Em. apply maybe_leave_ww in Em. destruct Em as (_ & Hm2 & _).
      destruct (complete (s_l s t) STimedOut). inversion E; subst. exact Hm2.
Qed.

Lemma ownR : forall t s s' o, reachable pref s -> SFavR t s -> sys_step pref s (LStep t CRun) = Some (s', o) ->
  g_exec (s_g s') <> [] \/ memk t (g_wr (s_g s')) = false \/ (SFavR t s' /\ woke_r (acts s') t /\ ~ woke_r (acts s) t).
Proof.
  intros t s s' o Hr (Hn & Hm & Hp) H.
  destruct (inv_reachable pref s Hr) as [_ Hl]. destruct (Hl t) as [_ _ Hwr _]. rewrite Hm in Hwr. unfold inwr in Hwr.
  cbn [sys_step] in H. destruct (step pref t CRun (s_g s) (s_l s t)) as [[[g' l'] o']|] eqn:E; inversion H; subst; clear H. cbn [s_g].
  destruct (l_act (s_l s t)) eqn:Ha; try discriminate.
  - unfold step in E. rewrite Ha in E. destruct (find t (g_wr (s_g s))) as [[|n]|]; try discriminate. inversion E; subst; clear E.
    right. right. split; [|split].
    + split; [exact Hn|]. split; [cbn [s_g set_wr g_wr]; rewrite memk_setc; exact Hm|exact Hp].
    + exists d, true. unfold acts. cbn [s_l]. rewrite upd_same. reflexivity.
    + intros (d0 & ok0 & Hc). unfold acts in Hc. rewrite Ha in Hc. discriminate.
  - destruct ok.
    + destruct (handoff_admits_reader pref s Hr Hn Hp t d Ha) as (g2 & l2 & o2 & E2 & Hf2 & _).
      rewrite E in E2. inversion E2; subst. left. intros Hc. rewrite Hc in Hf2. discriminate.
    + right. left. unfold step, run_cs in E. rewrite Ha in E. cbn [cs] in E. unfold woke_ro in E. cbn [negb] in E.
      destruct (maybe_notify pref (leave_wr t (s_g s))) as [g2 ns2] eqn:Em. apply maybe_leave_wr in Em. destruct Em as (_ & Hm2 & _).
      destruct (complete (s_l s t) STimedOut). inversion E; subst. exact Hm2.
Qed.

(* rw liveness of the hand-off under weak fairness: on every fair run, whenever the lock is free and somebody waits, the waiter the
   hand-off favours (t) gets the lock -- or somebody else takes it first, or t's own timeout had fired and it leaves the queue *)
Theorem fair_handoff : forall sigma lam, fair_run pref sigma lam -> forall i,
  g_exec (s_g (sigma i)) = [] -> (g_wr (s_g (sigma i)) <> [] \/ g_ww (s_g (sigma i)) <> []) ->
  exists t j, i <= j /\
    ((memk t (g_ww (s_g (sigma i))) = true /\ (g_exec (s_g (sigma j)) <> [] \/ memk t (g_ww (s_g (sigma j))) = false)) \/
     (memk t (g_wr (s_g (sigma i))) = true /\ (g_exec (s_g (sigma j)) <> [] \/ memk t (g_wr (s_g (sigma j))) = false))).
Proof.
  intros sigma lam R i Hn Hw.
  assert (HW : forall t c r, g_ww (s_g (sigma i)) = (t, c) :: r -> (pref = false -> g_wr (s_g (sigma i)) = []) ->
               exists t j, i <= j /\
    ((memk t (g_ww (s_g (sigma i))) = true /\ (g_exec (s_g (sigma j)) <> [] \/ memk t (g_ww (s_g (sigma j))) = false)) \/
     (memk t (g_wr (s_g (sigma i))) = true /\ (g_exec (s_g (sigma j)) <> [] \/ memk t (g_wr (s_g (sigma j))) = false)))).
  { intros t c r Ew Hp.
    assert (Hsf : SFavW t (sigma i)) by (split; [auto|split; [exists (keys r); unfold wkeys; rewrite Ew; reflexivity|exact Hp]]).
    destruct (fair_goal pref t (SFavW t) (fun s => woke_w (acts s) t) (fun s => memk t (g_ww (s_g s)) = false)
                (enabledW t) (persistW t) (ownW t) sigma lam R i Hsf) as (j & Hj & Hg).
    exists t, j. split; auto. left. split; auto. eapply head_memk; eauto. }
  assert (HR : forall t c, find t (g_wr (s_g (sigma i))) = Some c -> (pref = true -> g_ww (s_g (sigma i)) = []) ->
               exists t j, i <= j /\
    ((memk t (g_ww (s_g (sigma i))) = true /\ (g_exec (s_g (sigma j)) <> [] \/ memk t (g_ww (s_g (sigma j))) = false)) \/
     (memk t (g_wr (s_g (sigma i))) = true /\ (g_exec (s_g (sigma j)) <> [] \/ memk t (g_wr (s_g (sigma j))) = false)))).
  { intros t c Ef Hp.
    assert (Hm : memk t (g_wr (s_g (sigma i))) = true) by (eapply find_memk; eauto).
    assert (Hsf : SFavR t (sigma i)) by (split; [auto|split; auto]).
    destruct (fair_goal pref t (SFavR t) (fun s => woke_r (acts s) t) (fun s => memk t (g_wr (s_g s)) = false)
                (enabledR t) (persistR t) (ownR t) sigma lam R i Hsf) as (j & Hj & Hg).
    exists t, j. split; auto. }
  destruct (g_ww (s_g (sigma i))) as [|[h c] r] eqn:Ew; destruct (g_wr (s_g (sigma i))) as [|[k c'] r'] eqn:Er.
  - destruct Hw; contradiction.
  - apply (HR k c'); [cbn [find]; rewrite Nat.eqb_refl; reflexivity|auto].
  - apply (HW h c r); auto.
  - destruct pref eqn:Ep.
    + apply (HW h c r); [reflexivity|intros Hc; discriminate].
    + apply (HR k c'); [cbn [find]; rewrite Nat.eqb_refl; reflexivity|intros Hc; discriminate].
Qed.

End Inst.

(* fair runs exist: e.g. the run in which nothing but the environment moves (no thread has an enabled transition) *)
Example fair_run_exists : forall pref, fair_run pref (fun _ => sys0) (fun _ => LEnv []).
Proof.
  intros pref. constructor.
  - apply reach_init.
  - intros i. exists no_out. reflexivity.
  - intros t i. exists i. split; [lia|]. right. reflexivity.
Qed.
