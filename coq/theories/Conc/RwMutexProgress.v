(* C18 -- a free lock with waiters is never a dead end: within at most two transitions of one waiting thread, that thread holds
   the lock or has left the queue (its timeout had fired). *)
From Coq Require Import List Arith Bool Lia.
Import ListNotations.
From Muscle Require Import Conc.RwMutexModel Conc.RwMutexProofs Conc.RwMutexInv Conc.RwMutexThms Conc.RwMutexLive Conc.RwMutexExtras.

Definition nwait (g : gst) : nat := length (g_wr g) + length (g_ww g).

Lemma length_remove_le : forall A t (l : list (tid * A)), length (remove t l) <= length l.
Proof. induction l as [|[k w] r IH]; cbn [remove length]; auto. destruct (Nat.eqb k t); cbn [length]; lia. Qed.

Lemma length_remove_lt : forall A t (l : list (tid * A)), memk t l = true -> length (remove t l) < length l.
Proof.
  induction l as [|[k w] r IH]; unfold memk; cbn [find remove length]; [discriminate|].
  destruct (Nat.eqb k t) eqn:E; intros H.
  - pose proof (length_remove_le A t r). lia.
  - cbn [length]. apply IH in H. lia.
Qed.

Lemma nwait_all_readers : forall g, nwait (fst (notify_all_readers g)) = nwait g.
Proof. intros g. unfold notify_all_readers, nwait. cbn [fst set_wr g_wr g_ww]. rewrite map_length. reflexivity. Qed.

Lemma nwait_next_writer : forall g, nwait (fst (notify_next_writer g)) = nwait g.
Proof. intros g. unfold notify_next_writer, nwait. destruct (g_ww g) as [|[t c] r] eqn:E; cbn [fst set_ww g_wr g_ww]; rewrite ?E; reflexivity. Qed.

Section P.
Variable pref : bool.

Lemma nwait_some : forall g, nwait (fst (notify_some pref g)) = nwait g.
Proof.
  intros g. unfold notify_some.
  destruct (negb (is_nil (g_wr g)) && negb (is_nil (g_ww g))); [destruct pref; auto using nwait_all_readers, nwait_next_writer|].
  destruct (negb (is_nil (g_wr g))); [auto using nwait_all_readers|].
  destruct (negb (is_nil (g_ww g))); auto using nwait_next_writer.
Qed.

Lemma nwait_maybe : forall g, nwait (fst (maybe_notify pref g)) = nwait g.
Proof. intros g. unfold maybe_notify. destruct (Nat.eqb (g_total g) 0 && is_nil (g_exec g)); auto using nwait_some. Qed.

Lemma one_step_reachable : forall s t c g' l' o, reachable pref s -> step pref t c (s_g s) (s_l s t) = Some (g', l', o) ->
  reachable pref (mkS g' (upd (s_l s) t l')) /\ run pref [LStep t c] s = Some (mkS g' (upd (s_l s) t l')).
Proof.
  intros s t c g' l' o Hr E.
  assert (Hs : sys_step pref s (LStep t c) = Some (mkS g' (upd (s_l s) t l'), o)) by (cbn [sys_step]; rewrite E; reflexivity).
  split; [eapply reach_step; eauto|]. cbn [run]. rewrite Hs. reflexivity.
Qed.

Lemma upd_same : forall L t l, upd L t l t = l.
Proof. intros. unfold upd. rewrite Nat.eqb_refl. reflexivity. Qed.

(* the favoured writer *)
Lemma writer_progress : forall s, reachable pref s -> g_exec (s_g s) = [] ->
  forall h c r, g_ww (s_g s) = (h, c) :: r -> awake_w (acts s) h c ->
  exists s', (run pref [R h] s = Some s' \/ run pref [R h; R h] s = Some s') /\
             (find h (g_exec (s_g s')) <> None \/ nwait (s_g s') < nwait (s_g s)).
Proof.
  intros s Hr Hn h c r Ew Haw. destruct (inv_reachable pref s Hr) as [Hm Hl]. destruct (Hl h) as [Hwf Hex Hwr Hww].
  assert (Hmem : memk h (g_ww (s_g s)) = true) by (eapply head_memk; eauto).
  rewrite Hmem in Hww. unfold inww in Hww.
  destruct (l_act (s_l s h)) eqn:Ha; try discriminate.
  - (* parked with a pending notification: Wait() returns, then the critical section admits it *)
    destruct Haw as [Hc|(d0 & ok0 & Hk)]; [|unfold acts in Hk; rewrite Ha in Hk; discriminate].
    assert (E1 : step pref h CRun (s_g s) (s_l s h) = Some (set_ww (s_g s) (setc h 0 (g_ww (s_g s))), keep (s_l s h) (AWokeRW d true), wake_out true)).
    { unfold step. rewrite Ha. rewrite (find_head _ _ _ _ Ew). destruct c; [lia|reflexivity]. }
    destruct (one_step_reachable _ _ _ _ _ _ Hr E1) as [Hr1 Hrun1].
    set (s1 := mkS (set_ww (s_g s) (setc h 0 (g_ww (s_g s)))) (upd (s_l s) h (keep (s_l s h) (AWokeRW d true)))) in *.
    destruct (setc_head h 0 _ h c r Ew) as (x' & r' & Hs & _ & _).
    destruct (handoff_admits_writer pref s1 Hr1 Hn h x' r' d) as (g2 & l2 & o2 & E2 & Hf2 & _).
    { unfold s1. cbn [s_g set_ww g_ww]. exact Hs. }
    { unfold s1. cbn [s_l]. rewrite upd_same. reflexivity. }
    exists (mkS g2 (upd (s_l s1) h l2)). split.
    + right. change [R h; R h] with ([R h] ++ [R h]). unfold R in *. cbn [run app] in *.
      destruct (sys_step pref s (LStep h CRun)) as [[sa oa]|]; [|discriminate]. inversion Hrun1; subst sa.
      cbn [sys_step]. rewrite E2. reflexivity.
    + left. cbn [s_g]. rewrite Hf2. discriminate.
  - destruct ok.
    + (* already woken by a notification: admitted *)
      destruct (handoff_admits_writer pref s Hr Hn h c r d Ew Ha) as (g2 & l2 & o2 & E2 & Hf2 & _).
      exists (mkS g2 (upd (s_l s) h l2)). split.
      * left. apply (one_step_reachable _ _ _ _ _ _ Hr E2).
      * left. cbn [s_g]. rewrite Hf2. discriminate.
    + (* its timeout had fired: it leaves the queue (and passes the wake-up on) *)
      assert (E2 : exists g2 l2 o2, step pref h CRun (s_g s) (s_l s h) = Some (g2, l2, o2) /\ nwait g2 < nwait (s_g s)).
      { unfold step, run_cs. rewrite Ha. cbn [cs]. unfold woke_rw. cbn [negb].
        destruct (maybe_notify pref (leave_ww h (s_g s))) as [g2 ns2] eqn:E. destruct (complete (s_l s h) STimedOut) as [l2 r2].
        do 3 eexists. split; [reflexivity|].
        pose proof (nwait_maybe (leave_ww h (s_g s))) as Hnw. rewrite E in Hnw. cbn [fst] in Hnw. rewrite Hnw.
        unfold leave_ww. destruct (find h (g_ww (s_g s))) eqn:Ef; [|unfold memk in Hmem; rewrite Ef in Hmem; discriminate].
        unfold nwait. cbn [g_wr g_ww]. pose proof (length_remove_lt _ h _ Hmem). lia. }
      destruct E2 as (g2 & l2 & o2 & E2 & Hlt).
      exists (mkS g2 (upd (s_l s) h l2)). split; [left; apply (one_step_reachable _ _ _ _ _ _ Hr E2)|right; exact Hlt].
Qed.

(* a favoured reader *)
Lemma reader_progress : forall s, reachable pref s -> g_exec (s_g s) = [] -> (pref = true -> g_ww (s_g s) = []) ->
  forall k c, find k (g_wr (s_g s)) = Some c -> awake_r (acts s) k c ->
  exists s', (run pref [R k] s = Some s' \/ run pref [R k; R k] s = Some s') /\
             (find k (g_exec (s_g s')) <> None \/ nwait (s_g s') < nwait (s_g s)).
Proof.
  intros s Hr Hn Hp k c Ef Haw. destruct (inv_reachable pref s Hr) as [Hm Hl]. destruct (Hl k) as [Hwf Hex Hwr Hww].
  assert (Hmem : memk k (g_wr (s_g s)) = true) by (eapply find_memk; eauto).
  rewrite Hmem in Hwr. unfold inwr in Hwr.
  destruct (l_act (s_l s k)) eqn:Ha; try discriminate.
  - destruct Haw as [Hc|(d0 & ok0 & Hk)]; [|unfold acts in Hk; rewrite Ha in Hk; discriminate].
    assert (E1 : step pref k CRun (s_g s) (s_l s k) = Some (set_wr (s_g s) (setc k 0 (g_wr (s_g s))), keep (s_l s k) (AWokeRO d true), wake_out true)).
    { unfold step. rewrite Ha, Ef. destruct c; [lia|reflexivity]. }
    destruct (one_step_reachable _ _ _ _ _ _ Hr E1) as [Hr1 Hrun1].
    set (s1 := mkS (set_wr (s_g s) (setc k 0 (g_wr (s_g s)))) (upd (s_l s) k (keep (s_l s k) (AWokeRO d true)))) in *.
    destruct (handoff_admits_reader pref s1 Hr1 Hn Hp k d) as (g2 & l2 & o2 & E2 & Hf2 & _).
    { unfold s1. cbn [s_l]. rewrite upd_same. reflexivity. }
    exists (mkS g2 (upd (s_l s1) k l2)). split.
    + right. unfold R in *. cbn [run] in *.
      destruct (sys_step pref s (LStep k CRun)) as [[sa oa]|]; [|discriminate]. inversion Hrun1; subst sa.
      cbn [sys_step]. rewrite E2. reflexivity.
    + left. cbn [s_g]. rewrite Hf2. discriminate.
  - destruct ok.
    + destruct (handoff_admits_reader pref s Hr Hn Hp k d Ha) as (g2 & l2 & o2 & E2 & Hf2 & _).
      exists (mkS g2 (upd (s_l s) k l2)). split.
      * left. apply (one_step_reachable _ _ _ _ _ _ Hr E2).
      * left. cbn [s_g]. rewrite Hf2. discriminate.
    + assert (E2 : exists g2 l2 o2, step pref k CRun (s_g s) (s_l s k) = Some (g2, l2, o2) /\ nwait g2 < nwait (s_g s)).
      { unfold step, run_cs. rewrite Ha. cbn [cs]. unfold woke_ro. cbn [negb].
        destruct (maybe_notify pref (leave_wr k (s_g s))) as [g2 ns2] eqn:E. destruct (complete (s_l s k) STimedOut) as [l2 r2].
        do 3 eexists. split; [reflexivity|].
        pose proof (nwait_maybe (leave_wr k (s_g s))) as Hnw. rewrite E in Hnw. cbn [fst] in Hnw. rewrite Hnw.
        unfold leave_wr. rewrite Ef. unfold nwait. cbn [g_wr g_ww]. pose proof (length_remove_lt _ k _ Hmem). lia. }
      destruct E2 as (g2 & l2 & o2 & E2 & Hlt).
      exists (mkS g2 (upd (s_l s) k l2)). split; [left; apply (one_step_reachable _ _ _ _ _ _ Hr E2)|right; exact Hlt].
Qed.

End P.

(* a free lock with waiters is never a dead end *)
Theorem free_lock_progress : forall pref s, reachable pref s -> g_exec (s_g s) = [] ->
  (g_wr (s_g s) <> [] \/ g_ww (s_g s) <> []) ->
  exists t s', (run pref [R t] s = Some s' \/ run pref [R t; R t] s = Some s') /\
               (find t (g_exec (s_g s')) <> None \/ nwait (s_g s') < nwait (s_g s)).
Proof.
  intros pref s Hr Hn Hw. pose proof (J_reachable pref s Hr Hn) as HJ. unfold Jbody in HJ.
  destruct pref.
  - destruct (g_ww (s_g s)) as [|[h c] r] eqn:Ew.
    + destruct (g_wr (s_g s)) as [|[k c] r] eqn:Er; [destruct Hw; contradiction|].
      assert (Hf : find k (g_wr (s_g s)) = Some c) by (eapply find_head; eauto).
      destruct (reader_progress _ s Hr Hn (fun _ => Ew) k c Hf) as (s' & H1 & H2); [apply HJ; cbn [find]; rewrite Nat.eqb_refl; reflexivity|].
      exists k, s'. auto.
    + destruct (writer_progress _ s Hr Hn h c r Ew HJ) as (s' & H1 & H2). exists h, s'. auto.
  - destruct HJ as [Hall Hhd]. destruct (g_wr (s_g s)) as [|[k c] r] eqn:Er.
    + destruct (g_ww (s_g s)) as [|[h c] r] eqn:Ew; [destruct Hw; contradiction|].
      destruct (writer_progress _ s Hr Hn h c r Ew (Hhd eq_refl)) as (s' & H1 & H2). exists h, s'. auto.
    + assert (Hf : find k (g_wr (s_g s)) = Some c) by (eapply find_head; eauto).
      destruct (reader_progress _ s Hr Hn (fun Hc => ltac:(discriminate)) k c Hf) as (s' & H1 & H2); [apply Hall; cbn [find]; rewrite Nat.eqb_refl; reflexivity|].
      exists k, s'. auto.
Qed.

