(* C10 -- property theorems only: each is closed by [exact] of a lemma proved elsewhere. *)
From Coq Require Import List Arith.
From Muscle Require Import Conc.Pool Conc.RefCnt Conc.RefProofs.

Theorem C10_upd_length : forall A (l : list A) i v, length (upd l i v) = length l.
Proof. exact upd_length. Qed.
Print Assumptions C10_upd_length.
