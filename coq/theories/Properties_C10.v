(* C10 -- reference-counted and pooled objects are released exactly once, never early.
   Property theorems only: each is closed by [exact] of a lemma proved in Conc/. *)
From Coq Require Import List Arith Bool NArith.
From Muscle Require Import Gen.Consts Conc.Pool Conc.PoolProofs Conc.RefCnt Conc.RefInv Conc.RefActs Conc.RefProofs Conc.RefFork Conc.RefPool Conc.RefMore Conc.RefAcyc Conc.AtomicStep Conc.AtomicProofs.
Import ListNotations.

(* ---- the counting protocol: any number of threads, any programs, every reachable state ---- *)

Theorem C10_free_once_after_last : forall N K s0 s, inv1 K s0 -> progs_ok s0 -> reachable N K s0 s ->
  (forall o, o_cnt (hobj s o) + debts o s = units o s) /\
  (forall o, is_live (hobj s o) = false -> units o s = 0 /\ o_cnt (hobj s o) = 0) /\
  (forall t, t < length (s_thr s) -> bad124 (snd (step N K s t)) = false) /\
  (forall o, o < length (s_heap s) -> o_births (hobj s o) = o_deaths (hobj s o) + (if is_live (hobj s o) then 1 else 0)).
Proof. exact free_once_after_last. Qed.
Print Assumptions C10_free_once_after_last.

Theorem C10_never_early : forall N K s0 s, inv1 K s0 -> progs_ok s0 -> reachable N K s0 s ->
  forall o, slots o s <= o_cnt (hobj s o) /\ (1 <= slots o s -> is_live (hobj s o) = true).
Proof. exact never_early. Qed.
Print Assumptions C10_never_early.

Theorem C10_step_preserves : forall N K s t, inv1 K s -> progs_ok s -> t < length (s_thr s) ->
  inv1 K (fst (step N K s t)) /\ progs_ok (fst (step N K s t)) /\ bad124 (snd (step N K s t)) = false.
Proof. exact step_inv1. Qed.
Print Assumptions C10_step_preserves.

Theorem C10_initial_state : forall K max stksize progs, inv1 K (init_state max stksize progs).
Proof. exact init_inv1. Qed.
Print Assumptions C10_initial_state.

Theorem C10_no_schedule_violates : forall N K sched s, inv1 K s -> progs_ok s ->
  Forall (fun t => t < length (s_thr s)) sched ->
  forallb (fun e => negb (bad124 e)) (snd (run_sched N K s sched)) = true.
Proof. exact run_sched_safe. Qed.
Print Assumptions C10_no_schedule_violates.

(* the order of the unrepaired ConstRef::SetRef (release old, store, retain new) violates the
   property already single-threaded (finding F11; the witness is the corpus case) *)
Theorem C10_old_order_refuted :
  exists sched, existsb ev_is_bad (snd (run_sched 1 2 (init_state 0 4 [f11_prog false]) sched)) = true.
Proof. exact old_order_refuted. Qed.
Print Assumptions C10_old_order_refuted.

(* ---- the pool's bookkeeping: each critical section preserves the invariant ---- *)

Theorem C10_pool_obtain : forall N hlen p, 1 <= N -> pool_wf N hlen p ->
  let '(p', o, cr) := pool_obtain N hlen p in obtain_spec N hlen p p' o cr.
Proof. exact pool_obtain_spec. Qed.
Print Assumptions C10_pool_obtain.

Theorem C10_pool_release : forall N hlen p o, 1 <= N -> pool_wf N hlen p -> pused N (p_slabs p) o ->
  let '(p', del) := pool_release N p o in release_spec N hlen p p' o del.
Proof. exact pool_release_spec. Qed.
Print Assumptions C10_pool_release.

Theorem C10_pool_drain : forall N hlen p, 1 <= N -> pool_wf N hlen p ->
  let '(p', dels) := pool_drain N p in drain_spec N hlen p p' dels.
Proof. exact pool_drain_spec. Qed.
Print Assumptions C10_pool_drain.

Theorem C10_pool_sanity : forall N hlen p, pool_wf N hlen p ->
  p_cur p = free_total N (p_slabs p) /\
  Forall (fun s => length (sl_next s) = N /\ sl_inuse s <= N /\
                   length (free_nodes N s) = N - sl_inuse s /\ NoDup (free_nodes N s) /\
                   (forall i, In i (free_nodes N s) -> i < N)) (p_slabs p).
Proof. exact pool_wf_sanity. Qed.
Print Assumptions C10_pool_sanity.

Theorem C10_slab_created_only_when_exhausted : forall N hlen p p' o sn, 1 <= N -> pool_wf N hlen p ->
  pool_obtain N hlen p = (p', o, Some sn) -> p_cur p = 0.
Proof. exact obtain_creates_only_when_exhausted. Qed.
Print Assumptions C10_slab_created_only_when_exhausted.

(* once the count has reached zero, exactly one thread is carrying out the release *)
Theorem C10_release_in_progress : forall N K s0 s o, inv1 K s0 -> progs_ok s0 -> reachable N K s0 s ->
  is_releasing (hobj s o) = true ->
  exists t n, t < length (s_thr s) /\ In (ARel o n) (t_todo (thr s t)) /\
              forall u m, u < length (s_thr s) -> In (ARel o m) (t_todo (thr s u)) -> u = t.
Proof. exact release_in_progress. Qed.
Print Assumptions C10_release_in_progress.

Theorem C10_releasing_is_unreferenced : forall N K s0 s o, inv1 K s0 -> progs_ok s0 -> reachable N K s0 s ->
  is_releasing (hobj s o) = true -> o_cnt (hobj s o) = 0 /\ units o s = 0 /\ debts o s = 0.
Proof. exact releasing_is_unreferenced. Qed.
Print Assumptions C10_releasing_is_unreferenced.

(* a created / obtained object before its first increment has exactly one owner *)
Theorem C10_fresh_single_owner : forall N K s0 s t o, inv1 K s0 -> progs_ok s0 -> reachable N K s0 s ->
  t < length (s_thr s) -> In (AInc o None) (t_todo (thr s t)) ->
  is_live (hobj s o) = true /\ o_cnt (hobj s o) = 0 /\ units o s = 1 /\ slots o s = 0 /\
  forall u, u < length (s_thr s) -> u <> t -> thr_units o (thr s u) = 0.
Proof. exact fresh_single_owner. Qed.
Print Assumptions C10_fresh_single_owner.

(* ---- the premise of all schedule theorems, tied to the source: AtomicCounter's increment / decrement-and-test in the branch
   compiled here are ONE read-modify-write on a std::atomic whose returned value decides the answer (translator flags
   c_c10_inc_single_rmw, c_c10_dec_single_rmw, c_c10_count_is_std_atomic, re-evaluated on every run); the model's decrement step is
   exactly that step; with it, of n threads dropping the last n references exactly one is told "zero" ---- *)
Theorem C10_atomic_premise_tied :
  code_atomic_ok = true /\
  (forall h q h' z, dec_obj h q = Some (h', z) ->
     o_cnt (get_obj h' q) = o_cnt (get_obj h q) - 1 /\ z = (o_cnt (get_obj h q) - 1 =? 0)) /\
  (forall n, 1 <= n -> zeros (run_rmw n n) = 1).
Proof. exact atomic_premise_tied. Qed.
Print Assumptions C10_atomic_premise_tied.

(* a decrement split into "subtract" and a separate "load" violates the property with two threads: both are told "zero" *)
Theorem C10_split_decrement_refuted :
  exists sched, snd (run_split 2 [(0, false); (0, false)] sched) = [(2, true); (2, true)].
Proof. exact split_refuted. Qed.
Print Assumptions C10_split_decrement_refuted.

(* ---- no leaks: the reference graph stays acyclic, and an acyclic graph cannot keep itself alive ---- *)

Theorem C10_acyclic_reachable : forall N K s0 s, inv1 K s0 -> progs_ok s0 -> acyclic s0 -> reachable N K s0 s -> acyclic s.
Proof. exact reachable_acyclic. Qed.
Print Assumptions C10_acyclic_reachable.

Theorem C10_leak_free : forall K s, inv1 K s -> acyclic s -> quiescent s ->
  (forall o, is_live (hobj s o) = true -> 1 <= o_cnt (hobj s o)) ->
  forall o, is_live (hobj s o) = false.
Proof. exact leak_free. Qed.
Print Assumptions C10_leak_free.

Theorem C10_no_leak : forall N K max stksize progs s, progs_ok (init_state max stksize progs) ->
  reachable N K (init_state max stksize progs) s -> quiescent s ->
  (forall o, is_live (hobj s o) = true -> 1 <= o_cnt (hobj s o)) ->
  forall o, is_live (hobj s o) = false.
Proof. exact no_leak. Qed.
Print Assumptions C10_no_leak.

Theorem C10_fork_preserves_acyclic : forall s progs, acyclic s -> acyclic (fork_state s progs).
Proof. exact fork_acyclic. Qed.
Print Assumptions C10_fork_preserves_acyclic.

(* ---- heap states and pool bookkeeping together, in every reachable state ---- *)

Theorem C10_pool_inv : forall N K s0 s, 1 <= N -> inv1 K s0 -> plink N s0 -> progs_ok s0 -> reachable N K s0 s ->
  plink N s /\ (forall t, t < length (s_thr s) -> bad56 (snd (step N K s t)) = false).
Proof. exact pool_inv. Qed.
Print Assumptions C10_pool_inv.

Theorem C10_obtain_fresh : forall N K s0 s x, 1 <= N -> inv1 K s0 -> plink N s0 -> progs_ok s0 -> reachable N K s0 s ->
  pfree N (p_slabs (s_pool s)) x ->
  o_st (hobj s x) = Pooled /\ is_default (hobj s x) = true /\ units x s = 0.
Proof. exact obtain_fresh. Qed.
Print Assumptions C10_obtain_fresh.

Theorem C10_slab_delete_safe : forall N K s0 s t sd x, 1 <= N -> inv1 K s0 -> plink N s0 -> progs_ok s0 -> reachable N K s0 s ->
  t < length (s_thr s) -> In (ASlabDel sd) (t_todo (thr s t)) -> owns N sd x = true ->
  o_st (hobj s x) = Pooled /\ units x s = 0 /\ ~ owned_by N (p_slabs (s_pool s)) x.
Proof. exact slab_delete_safe. Qed.
Print Assumptions C10_slab_delete_safe.

Theorem C10_initial_pool_link : forall N max stksize progs, plink N (init_state max stksize progs).
Proof. exact init_plink. Qed.
Print Assumptions C10_initial_pool_link.

(* thread creation (the parent hands each new thread a copy of its references) preserves the invariant *)
Theorem C10_fork_preserves : forall K s progs, inv1 K s -> 0 < length (s_thr s) -> t_todo (thr s 0) = [] ->
  inv1 K (fork_state s progs).
Proof. exact fork_inv1. Qed.
Print Assumptions C10_fork_preserves.

Theorem C10_fork_preserves_pool_link : forall N s progs, plink N s -> plink N (fork_state s progs).
Proof. exact fork_plink. Qed.
Print Assumptions C10_fork_preserves_pool_link.

(* INVALID_NODE_INDEX (written [None] in the model) can never be a valid node index, for the constants
   translated from util/ObjectPool.h *)
Theorem C10_valid_index_not_invalid : forall N i, (N.of_nat N <= c_pool_max_objects_per_slab)%N -> i < N ->
  N.of_nat i <> (2 ^ c_pool_node_index_bits - 1)%N.
Proof. exact valid_index_not_invalid. Qed.
Print Assumptions C10_valid_index_not_invalid.

(* ---- non-vacuity ---- *)

Example C10_demo_reachable :
  let s0 := init_state 1 4 demo_progs in
  let s := fst (run_sched 2 2 s0 demo_sched) in
  inv1 2 s0 /\ progs_ok s0 /\ reachable 2 2 s0 s /\
  2 <= length (s_heap s) /\ o_cnt (hobj s 1) = 2 /\ existsb (fun ob => 1 <=? o_deaths ob) (s_heap s) = true.
Proof. exact demo_reachable. Qed.

Example C10_leak_demo :
  let s0 := init_state 0 4 [leak_demo_prog] in
  let s := fst (run_sched 2 2 s0 (repeat 0 60)) in
  progs_ok s0 /\ reachable 2 2 s0 s /\ quiescent s /\ 3 <= length (s_heap s) /\
  forallb (fun ob => negb (is_live ob)) (s_heap s) = true.
Proof. exact leak_demo. Qed.

Example C10_repaired_order_fine :
  existsb ev_is_bad (snd (run_sched 1 2 (init_state 0 4 [f11_prog true]) (repeat 0 40))) = false.
Proof. exact repaired_order_same_history_fine. Qed.

Example C10_empty_pool_wf : forall N hlen max, pool_wf N hlen (empty_pool max).
Proof. exact empty_pool_wf. Qed.
