(* C12 -- property theorems only: each is closed by [exact] of a lemma proved elsewhere. *)
From Coq Require Import List NArith.
From Muscle Require Import Common.LE Gw.Tunnel Gw.TunnelProofs Gw.TunnelSound Gw.TunnelSender Gw.TunnelComplete Gw.TunnelTheorems Gw.TunnelMulti.
From Muscle Require Import Gw.MiniTunnel Gw.MiniTunnelProofs Gw.MiniTunnelDrain.
From Muscle Require Import Gw.Packetized Gw.PacketizedProofs Gw.TunnelOverPacketized.
From Muscle Require Import Gw.TunnelMsg Gw.MiniTunnelMsg.
From Muscle Require Msg.MsgDefs Msg.MsgModel Msg.MsgExamples.
Import ListNotations.
Local Open Scope N_scope.

(* First clause: over loss / duplication / reordering / foreign datagrams / arbitrary bytes from other
   addresses, whatever is delivered under a sender's address is one of that sender's Messages. *)
Theorem C12_tunnel_sound :
  forall (rc : rcfg) (who : addr -> option sender_run) (net : list (addr * packet)) t out,
    rc_misc rc = false -> 4 <= rc_mtu rc ->
    (forall a s, who a = Some s -> sr_ok s) ->
    (forall a s p, who a = Some s -> In (a, p) net -> In p (sr_packets s) \/ foreign (rc_magic rc) p) ->
    recv_all rc [] net = (t, out) ->
    forall a s m, who a = Some s -> In (a, m) out -> In m (sr_msgs s).
Proof. exact tunnel_sound. Qed.
Print Assumptions C12_tunnel_sound.

(* First clause with SetAllowMiscIncomingData on or off: the only extra deliveries are non-tunnel datagrams, verbatim. *)
Theorem C12_tunnel_sound_misc :
  forall (rc : rcfg) (who : addr -> option sender_run) (net : list (addr * packet)) t out,
    4 <= rc_mtu rc ->
    (forall a s, who a = Some s -> sr_ok s) ->
    (forall a s p, who a = Some s -> In (a, p) net -> In p (sr_packets s) \/ foreign (rc_magic rc) p) ->
    recv_all rc [] net = (t, out) ->
    forall a s m, who a = Some s -> In (a, m) out ->
      In m (sr_msgs s) \/ exists p, In (a, p) net /\ misc_passed rc p m.
Proof. exact tunnel_sound_misc. Qed.
Print Assumptions C12_tunnel_sound_misc.

(* Second clause: every packet once and in order => exactly the completely written Messages that fit
   the receiver's limit, once each, in order; every MTU, every call pattern. *)
Theorem C12_tunnel_complete :
  forall rc c a id0 ops st pkts t0,
    scfg_ok c -> compat c rc -> id0 < two32 -> no_setid ops ->
    N.of_nat (length (added ops)) <= two32 ->
    Forall (fun m => lenN m < two32) (added ops) ->
    srun c (s_init id0) ops = (st, pkts) ->
    s_pkt st = [] ->
    tbl_wf t0 -> tbl_find a t0 = None ->
    exists done,
      added ops = done ++ s_q st
      /\ snd (recv_all rc t0 (map (pair a) pkts)) = map (pair a) (filter (fits rc) done).
Proof. exact tunnel_complete. Qed.
Print Assumptions C12_tunnel_complete.

(* Corollary of the second clause: any script followed by one DoOutput call that is not cut short
   (fuel adequacy of the output loop): every Message that fits is delivered exactly once, in order. *)
Theorem C12_tunnel_complete_drained :
  forall rc c a id0 ops mb bud t0,
    scfg_ok c -> compat c rc -> id0 < two32 -> no_setid ops ->
    N.of_nat (length (added ops)) <= two32 ->
    Forall (fun m => lenN m < two32) (added ops) ->
    (let st1 := fst (srun c (s_init id0) ops) in
     N.of_nat (out_fuel st1) * sc_mtu c < mb /\ N.of_nat (out_fuel st1) <= bud) ->
    tbl_wf t0 -> tbl_find a t0 = None ->
    snd (recv_all rc t0 (map (pair a) (snd (srun c (s_init id0) (ops ++ [SOut mb bud])))))
    = map (pair a) (filter (fits rc) (added ops)).
Proof. exact tunnel_complete_drained. Qed.
Print Assumptions C12_tunnel_complete_drained.

(* Several sources: with at most MAX_NUM_RECEIVE_STATES+1 source addresses in play (no LRU eviction) what
   is delivered under address a is what would be delivered had only a's datagrams arrived -- arbitrary
   datagrams from everybody. *)
Theorem C12_tunnel_noninterference :
  forall rc (L : list addr) net a,
    N.of_nat (length L) <= MAX_STATES + 1 ->
    (forall b p, In (b, p) net -> In b L) -> In a L ->
    filter (from a) (snd (recv_all rc [] net)) = snd (recv_all rc [] (filter (from a) net)).
Proof. exact tunnel_noninterference. Qed.
Print Assumptions C12_tunnel_noninterference.

(* Second clause for several senders whose in-order streams are interleaved arbitrarily. *)
Theorem C12_tunnel_complete_multi :
  forall rc (L : list addr) net c a id0 ops st pkts,
    N.of_nat (length L) <= MAX_STATES + 1 ->
    (forall b p, In (b, p) net -> In b L) -> In a L ->
    scfg_ok c -> compat c rc -> id0 < two32 -> no_setid ops ->
    N.of_nat (length (added ops)) <= two32 ->
    Forall (fun m => lenN m < two32) (added ops) ->
    srun c (s_init id0) ops = (st, pkts) -> s_pkt st = [] ->
    filter (from a) net = map (pair a) pkts ->
    exists done,
      added ops = done ++ s_q st
      /\ filter (from a) (snd (recv_all rc [] net)) = map (pair a) (filter (fits rc) done).
Proof. exact tunnel_complete_multi. Qed.
Print Assumptions C12_tunnel_complete_multi.

(* SetSourceExclusionID: packets carrying the receiver's own non-zero id deliver nothing and touch no state. *)
Theorem C12_tunnel_self_exclusion :
  forall rc s t a p,
    rc_misc rc = false -> sr_ok s ->
    rc_sex rc <> 0 -> sc_sex (sr_cfg s) = rc_sex rc ->
    In p (sr_packets s) ->
    recv_packet rc t a p = (t, []).
Proof. exact tunnel_self_exclusion. Qed.
Print Assumptions C12_tunnel_self_exclusion.

(* The premise "ids distinct mod 2^32" cannot be dropped: with a repeated id a reordering network splices. *)
Theorem C12_tunnel_wrap_refuted :
  exists net,
    (forall p, In p net -> In p (snd (srun wrap_cfg (s_init 0) wrap_ops)))
    /\ snd (recv_all wrap_rc [] (map (pair 5) net)) = [(5, [Byte.x01; Byte.x02; Byte.x13; Byte.x14])].
Proof. exact tunnel_wrap_refuted. Qed.
Print Assumptions C12_tunnel_wrap_refuted.

(* non-vacuity of the premises above *)
Example C12_premises_satisfiable :
  sr_ok ex_run /\ sc_mtu (sr_cfg ex_run) <= rc_mtu ex_rc /\ compat ex_cfg ex_rc.
Proof. exact ex_run_ok. Qed.
Example C12_multi_nontrivial :
  let p := sr_packets ex_run in
  let net := [(5, nth 0 p []); (9, [Byte.x00; Byte.x01]); (6, nth 0 p []); (5, nth 1 p []); (6, nth 1 p []); (5, nth 2 p [])] in
  (forall b q, In (b, q) net -> In b [5; 6; 9])
  /\ filter (from 5) (snd (recv_all ex_rc [] net)) = [(5, repeat Byte.x41 9); (5, [])]
  /\ filter (from 6) (snd (recv_all ex_rc [] net)) = [(6, repeat Byte.x41 9)].
Proof. exact multi_nontrivial. Qed.
Example C12_self_exclusion_nontrivial :
  rc_misc ex_rc7 = false /\ rc_sex ex_rc7 <> 0 /\ sc_sex (sr_cfg ex_run) = rc_sex ex_rc7
  /\ sr_packets ex_run <> [] /\ snd (recv_all ex_rc7 [] (map (pair 5) (sr_packets ex_run))) = [].
Proof. exact ex_self_exclusion. Qed.
Example C12_premises_nontrivial :
  length (sr_packets ex_run) = 8%nat
  /\ snd (recv_all ex_rc [] (map (pair 5) (sr_packets ex_run))) = [(5, repeat Byte.x41 9); (5, [])]
  /\ s_pkt (fst (srun ex_cfg (s_init 4294967295) ex_ops)) = []
  /\ s_q (fst (srun ex_cfg (s_init 4294967295) ex_ops)) = [].
Proof. exact ex_run_nontrivial. Qed.

(* ---------------------------------------------------------------- MiniPacketTunnelIOGateway *)

(* zlib (ZLibCodec::Deflate(independent=true) / Inflate) appears as the premise [inflate (deflate x) = x].
   A receiver MTU below the sender's (truncated datagrams) is covered for senders that do not compress. *)
Theorem C12_mini_sound :
  forall (deflate : N -> list Byte.byte -> option (list Byte.byte))
         (inflate : list Byte.byte -> option (list Byte.byte)),
    (forall lvl x d, deflate lvl x = Some d -> inflate d = Some x) ->
    forall (rc : rcfg) (who : addr -> option mini_run) (net : list (addr * packet)),
      rc_misc rc = false -> PHS <= rc_mtu rc ->
      (forall a s, who a = Some s -> mr_ok s /\ (mc_level (mr_cfg s) = 0 \/ mc_mtu (mr_cfg s) <= rc_mtu rc)) ->
      (forall a s p, who a = Some s -> In (a, p) net -> In p (mr_packets deflate s) \/ foreign (rc_magic rc) p) ->
      forall a s m, who a = Some s -> In (a, m) (mrecv_all inflate rc net) -> In m (mr_msgs s).
Proof. exact mini_sound. Qed.
Print Assumptions C12_mini_sound.

Theorem C12_mini_complete :
  forall (deflate : N -> list Byte.byte -> option (list Byte.byte))
         (inflate : list Byte.byte -> option (list Byte.byte)),
    (forall lvl x d, deflate lvl x = Some d -> inflate d = Some x) ->
    forall rc c a pid0 ops st pkts,
      mcfg_ok c -> rc_misc rc = false ->
      mc_magic c = rc_magic rc -> sex_ok rc (mc_sex c) = true -> mc_mtu c <= rc_mtu rc ->
      pid0 < 2 ^ 24 -> no_msetid ops ->
      Forall (fun m => lenN m < two32) (madded ops) ->
      mrun deflate c (m_init pid0) ops = (st, pkts) ->
      m_pkt st = [] ->
      exists done,
        madded ops = done ++ m_q st
        /\ mrecv_all inflate rc (map (pair a) pkts) = map (pair a) (filter (mfits c) done).
Proof. exact mini_complete. Qed.
Print Assumptions C12_mini_complete.

Theorem C12_mini_complete_drained :
  forall (deflate : N -> list Byte.byte -> option (list Byte.byte))
         (inflate : list Byte.byte -> option (list Byte.byte)),
    (forall lvl x d, deflate lvl x = Some d -> inflate d = Some x) ->
    forall rc c a pid0 ops mb bud,
      mcfg_ok c -> rc_misc rc = false ->
      mc_magic c = rc_magic rc -> sex_ok rc (mc_sex c) = true -> mc_mtu c <= rc_mtu rc ->
      pid0 < 2 ^ 24 -> no_msetid ops ->
      Forall (fun m => lenN m < two32) (madded ops) ->
      (let st1 := fst (mrun deflate c (m_init pid0) ops) in
       N.of_nat (mout_fuel st1) * mc_mtu c < mb /\ N.of_nat (mout_fuel st1) <= bud) ->
      mrecv_all inflate rc (map (pair a) (snd (mrun deflate c (m_init pid0) (ops ++ [MOut mb bud]))))
      = map (pair a) (filter (mfits c) (madded ops)).
Proof. exact mini_complete_drained. Qed.
Print Assumptions C12_mini_complete_drained.

(* several senders: the mini receiver keeps no state, so sources cannot interfere (any number of them) *)
Theorem C12_mini_noninterference :
  forall (inflate : list Byte.byte -> option (list Byte.byte)) rc a net,
    filter (mfrom a) (mrecv_all inflate rc net) = mrecv_all inflate rc (filter (mfrom a) net).
Proof. exact mini_noninterference. Qed.
Print Assumptions C12_mini_noninterference.

(* non-vacuity: a codec satisfying the zlib premise exists, and a run satisfying the other premises
   exercises the compressed path, the uncompressed-with-patched-header path, the drop of an oversize
   Message and the 24-bit packet-id wrap *)
Example C12_mini_premises_satisfiable :
  (forall lvl x d, toy_deflate lvl x = Some d -> toy_inflate d = Some x)
  /\ mr_ok toy_run /\ mc_mtu (mr_cfg toy_run) <= rc_mtu toy_rc
  /\ mc_magic toy_cfg = rc_magic toy_rc /\ sex_ok toy_rc (mc_sex toy_cfg) = true.
Proof. exact (conj toy_codec_ok toy_run_ok). Qed.
Example C12_mini_premises_nontrivial :
  map (@length Byte.byte) (mr_packets toy_deflate toy_run) = [13; 17]%nat
  /\ mrecv_all toy_inflate toy_rc (map (pair 5) (mr_packets toy_deflate toy_run)) = [(5, toy_m1); (5, toy_m2); (5, [Byte.x09])]
  /\ m_pid (fst (mrun toy_deflate toy_cfg (m_init 16777215) toy_ops)) = 1.
Proof. exact toy_run_nontrivial. Qed.

(* ---------------------------------------------------------------- PacketizedProxyDataIO (the TCP transport of testpackettunnel) *)

(* an implementation of the premise "the transport delivers every packet once and in order": for every way
   the child stream cuts the bytes up on either side, Read() hands over exactly the packets Write() accepted *)
Theorem C12_packetized_write_stream :
  forall mtu ops st st' out rs,
    pw_ok st -> wops_nonempty ops ->
    pwrites mtu st ops = (st', out, rs) ->
    pw_ok st' /\ out ++ pw_rest st' = pw_rest st ++ frames (taken ops rs).
Proof. exact packetized_write_stream. Qed.
Print Assumptions C12_packetized_write_stream.

Theorem C12_packetized_read_stream :
  forall mtu script ps st stream st' stream' rs,
    mtu < two32 -> Forall (pkt_ok mtu) ps -> Forall (fun x => mtu <= fst (fst x)) script ->
    rep st stream ps ->
    preads mtu st stream script = (st', stream', rs) ->
    Forall (fun r => r <> None) rs
    /\ exists ps', ps = handed rs ++ ps' /\ rep st' stream' ps'.
Proof. exact packetized_read_stream. Qed.
Print Assumptions C12_packetized_read_stream.

Theorem C12_packetized_transport_perfect :
  forall mtu wops wst out wrs script rst rest rrs,
    mtu < two32 -> wops_nonempty wops ->
    Forall (fun x => mtu <= fst (fst x)) script ->
    pwrites mtu pw_init wops = (wst, out, wrs) ->
    pw_buffered wst = false ->
    preads mtu pr_init out script = (rst, rest, rrs) ->
    rest = [] -> pr_hdr rst = [] ->
    handed rrs = taken wops wrs /\ Forall (fun r => r <> None) rrs.
Proof. exact packetized_transport_perfect. Qed.
Print Assumptions C12_packetized_transport_perfect.

(* with a fair reader (every Read() finds bytes available, as many calls as the stream has bytes) the end of the
   stream IS reached: every accepted packet is handed over *)
Theorem C12_packetized_transport_delivers_all :
  forall mtu wops wst out wrs script rst rest rrs,
    mtu < two32 -> wops_nonempty wops ->
    Forall (fun x => mtu <= fst (fst x) /\ 0 < snd (fst x) /\ 0 < snd x) script ->
    (length out <= length script)%nat ->
    pwrites mtu pw_init wops = (wst, out, wrs) ->
    pw_buffered wst = false ->
    preads mtu pr_init out script = (rst, rest, rrs) ->
    handed rrs = taken wops wrs /\ rest = [] /\ Forall (fun r => r <> None) rrs.
Proof. exact packetized_transport_delivers_all. Qed.
Print Assumptions C12_packetized_transport_delivers_all.

Example C12_packetized_nontrivial :
  let wops := [WWrite [Byte.x01; Byte.x02; Byte.x03] 2 0; WWrite [Byte.x09] 1 9; WWrite [Byte.x09] 9 9; WFlush 99] in
  let script := [(8, 3, 9); (8, 0, 0); (8, 1, 1); (8, 9, 2); (8, 9, 9); (8, 9, 9)] in
  let '(wst, out, wrs) := pwrites 8 pw_init wops in
  let '(rst, rest, rrs) := preads 8 pr_init out script in
  wops_nonempty wops /\ pw_buffered wst = false /\ rest = [] /\ pr_hdr rst = []
  /\ wrs = [WTook 3; WTook 0; WTook 1] /\ handed rrs = [[Byte.x01; Byte.x02; Byte.x03]; [Byte.x09]].
Proof. exact packetized_nontrivial. Qed.

(* ---------------------------------------------------------------- the read loop; end to end over PacketizedProxyDataIO *)

(* one DoInput(maxBytes) call over a device holding several packets = the consumed prefix, packet by packet *)
Theorem C12_recv_loop_prefix :
  forall rc queue t maxBytes total t' out rest,
    recv_loop rc t maxBytes total queue = (t', out, rest) ->
    exists n, rest = skipn n queue /\ recv_all rc t (firstn n queue) = (t', out).
Proof. exact recv_loop_prefix. Qed.
Print Assumptions C12_recv_loop_prefix.

Theorem C12_mrecv_loop_prefix :
  forall (inflate : list Byte.byte -> option (list Byte.byte)) rc queue maxBytes total out rest,
    mrecv_loop inflate rc maxBytes total queue = (out, rest) ->
    exists n, rest = skipn n queue /\ mrecv_all inflate rc (firstn n queue) = out.
Proof. exact mrecv_loop_prefix. Qed.
Print Assumptions C12_mrecv_loop_prefix.

(* the tunnel over the packetizer over a byte stream cut up arbitrarily on both sides *)
Theorem C12_tunnel_over_packetized_complete :
  forall rc c a id0 ops st pkts t0 mtu wops wst out wrs script rst rest rrs,
    scfg_ok c -> compat c rc -> id0 < two32 -> no_setid ops ->
    N.of_nat (length (added ops)) <= two32 ->
    Forall (fun m => lenN m < two32) (added ops) ->
    srun c (s_init id0) ops = (st, pkts) -> s_pkt st = [] ->
    tbl_wf t0 -> tbl_find a t0 = None ->
    mtu < two32 -> wops_nonempty wops -> Forall (fun x => mtu <= fst (fst x)) script ->
    pwrites mtu pw_init wops = (wst, out, wrs) -> taken wops wrs = pkts -> pw_buffered wst = false ->
    preads mtu pr_init out script = (rst, rest, rrs) -> rest = [] -> pr_hdr rst = [] ->
    exists done,
      added ops = done ++ s_q st
      /\ snd (recv_all rc t0 (map (pair a) (handed rrs))) = map (pair a) (filter (fits rc) done).
Proof. exact tunnel_over_packetized_complete. Qed.
Print Assumptions C12_tunnel_over_packetized_complete.

Theorem C12_tunnel_over_packetized_fair :
  forall rc c a id0 ops st pkts t0 mtu wops wst out wrs script rst rest rrs,
    scfg_ok c -> compat c rc -> id0 < two32 -> no_setid ops ->
    N.of_nat (length (added ops)) <= two32 ->
    Forall (fun m => lenN m < two32) (added ops) ->
    srun c (s_init id0) ops = (st, pkts) -> s_pkt st = [] ->
    tbl_wf t0 -> tbl_find a t0 = None ->
    mtu < two32 -> wops_nonempty wops ->
    Forall (fun x => mtu <= fst (fst x) /\ 0 < snd (fst x) /\ 0 < snd x) script ->
    (length out <= length script)%nat ->
    pwrites mtu pw_init wops = (wst, out, wrs) -> taken wops wrs = pkts -> pw_buffered wst = false ->
    preads mtu pr_init out script = (rst, rest, rrs) ->
    exists done,
      added ops = done ++ s_q st
      /\ snd (recv_all rc t0 (map (pair a) (handed rrs))) = map (pair a) (filter (fits rc) done).
Proof. exact tunnel_over_packetized_fair. Qed.
Print Assumptions C12_tunnel_over_packetized_fair.

Theorem C12_mini_over_packetized_complete :
  forall (deflate : N -> list Byte.byte -> option (list Byte.byte))
         (inflate : list Byte.byte -> option (list Byte.byte)),
    (forall lvl x d, deflate lvl x = Some d -> inflate d = Some x) ->
    forall rc c a pid0 ops st pkts mtu wops wst out wrs script rst rest rrs,
      mcfg_ok c -> rc_misc rc = false ->
      mc_magic c = rc_magic rc -> sex_ok rc (mc_sex c) = true -> mc_mtu c <= rc_mtu rc ->
      pid0 < 2 ^ 24 -> no_msetid ops ->
      Forall (fun m => lenN m < two32) (madded ops) ->
      mrun deflate c (m_init pid0) ops = (st, pkts) -> m_pkt st = [] ->
      mtu < two32 -> wops_nonempty wops -> Forall (fun x => mtu <= fst (fst x)) script ->
      pwrites mtu pw_init wops = (wst, out, wrs) -> taken wops wrs = pkts -> pw_buffered wst = false ->
      preads mtu pr_init out script = (rst, rest, rrs) -> rest = [] -> pr_hdr rst = [] ->
      exists done,
        madded ops = done ++ m_q st
        /\ mrecv_all inflate rc (map (pair a) (handed rrs)) = map (pair a) (filter (mfits c) done).
Proof. exact mini_over_packetized_complete. Qed.
Print Assumptions C12_mini_over_packetized_complete.

Example C12_e2e_nontrivial :
  let '(wst, out, wrs) := pwrites 30 pw_init e2e_wops in
  let '(rst, rest, rrs) := preads 30 pr_init out e2e_script in
  length e2e_pkts = 3%nat /\ taken e2e_wops wrs = e2e_pkts /\ pw_buffered wst = false /\ rest = [] /\ pr_hdr rst = []
  /\ snd (recv_all e2e_rc [] (map (pair 0) (handed rrs))) = [(0, repeat Byte.x41 9); (0, [Byte.x07])].
Proof. exact e2e_nontrivial. Qed.

(* ---------------------------------------------------------------- at the level of Messages (no slave gateway) *)

(* ProxyIOGateway without a slave gateway flattens each Message into the buffer handed to the tunnel and unflattens
   each reassembled buffer (Msg/ is C01's model of Message::Flatten/Unflatten): every Message delivered under a
   sender's address is the round-trip image rt M of a Message M that sender was given -- and flattens to M's bytes. *)
Theorem C12_tunnel_message_sound :
  forall (rc : rcfg) (who : addr -> option msg_run) (net : list (addr * packet)) t out,
    rc_misc rc = false -> 4 <= rc_mtu rc ->
    (forall a s, who a = Some s -> msg_run_ok s) ->
    (forall a s p, who a = Some s -> In (a, p) net -> In p (sr_packets (lower_run s)) \/ foreign (rc_magic rc) p) ->
    recv_all rc [] net = (t, out) ->
    forall a s D, who a = Some s -> In (a, D) (deliver_msgs out) ->
      exists M, In M (sent_msgs (mr_mops s)) /\ D = MsgModel.rt M /\ MsgModel.flatten D = MsgModel.flatten M.
Proof. exact tunnel_message_sound. Qed.
Print Assumptions C12_tunnel_message_sound.

Theorem C12_tunnel_message_complete :
  forall rc c a id0 (mops : list Mop) st pkts t0,
    scfg_ok c -> compat c rc -> id0 < two32 ->
    N.of_nat (length (sent_msgs mops)) <= two32 ->
    Forall MsgModel.wf (sent_msgs mops) ->
    srun c (s_init id0) (map lower mops) = (st, pkts) ->
    s_pkt st = [] -> s_q st = [] ->
    tbl_wf t0 -> tbl_find a t0 = None ->
    deliver_msgs (snd (recv_all rc t0 (map (pair a) pkts)))
    = map (pair a) (map MsgModel.rt (filter (fitsM rc) (sent_msgs mops))).
Proof. exact tunnel_message_complete. Qed.
Print Assumptions C12_tunnel_message_complete.

Theorem C12_mini_message_sound :
  forall (deflate : N -> list Byte.byte -> option (list Byte.byte))
         (inflate : list Byte.byte -> option (list Byte.byte)),
    (forall lvl x d, deflate lvl x = Some d -> inflate d = Some x) ->
    forall (rc : rcfg) (who : addr -> option mini_msg_run) (net : list (addr * packet)),
      rc_misc rc = false -> PHS <= rc_mtu rc ->
      (forall a s, who a = Some s -> mini_msg_run_ok s /\ (mc_level (mm_cfg s) = 0 \/ mc_mtu (mm_cfg s) <= rc_mtu rc)) ->
      (forall a s p, who a = Some s -> In (a, p) net -> In p (mr_packets deflate (mlower_run s)) \/ foreign (rc_magic rc) p) ->
      forall a s D, who a = Some s -> In (a, D) (deliver_msgs (mrecv_all inflate rc net)) ->
        exists M, In M (sent_msgs (mm_mops s)) /\ D = MsgModel.rt M /\ MsgModel.flatten D = MsgModel.flatten M.
Proof. exact mini_message_sound. Qed.
Print Assumptions C12_mini_message_sound.

Theorem C12_mini_message_complete :
  forall (deflate : N -> list Byte.byte -> option (list Byte.byte))
         (inflate : list Byte.byte -> option (list Byte.byte)),
    (forall lvl x d, deflate lvl x = Some d -> inflate d = Some x) ->
    forall rc c a pid0 (mops : list Mop) st pkts,
      mcfg_ok c -> rc_misc rc = false ->
      mc_magic c = rc_magic rc -> sex_ok rc (mc_sex c) = true -> mc_mtu c <= rc_mtu rc ->
      pid0 < 2 ^ 24 -> Forall MsgModel.wf (sent_msgs mops) ->
      mrun deflate c (m_init pid0) (map mlower mops) = (st, pkts) ->
      m_pkt st = [] -> m_q st = [] ->
      deliver_msgs (mrecv_all inflate rc (map (pair a) pkts))
      = map (pair a) (map MsgModel.rt (filter (mfitsM c) (sent_msgs mops))).
Proof. exact mini_message_complete. Qed.
Print Assumptions C12_mini_message_complete.

Example C12_message_premises_satisfiable : msg_run_ok exm_run /\ compat exm_cfg exm_rc.
Proof. exact exm_ok. Qed.
Example C12_message_nontrivial :
  let pkts := sr_packets (lower_run exm_run) in
  (10 < length pkts)%nat
  /\ deliver_msgs (snd (recv_all exm_rc [] (map (pair 5) pkts)))
     = [(5, MsgModel.rt MsgExamples.ex_msg); (5, MsgModel.rt MsgExamples.ex_sub)]
  /\ MsgModel.rt MsgExamples.ex_msg <> MsgExamples.ex_msg.
Proof. exact exm_nontrivial. Qed.
