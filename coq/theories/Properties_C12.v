(* C12 -- property theorems only: each is closed by [exact] of a lemma proved elsewhere. *)
From Coq Require Import List NArith.
From Muscle Require Import Common.LE Gw.Tunnel Gw.TunnelProofs.

Theorem C12_fragment_header_size : forall f, lenN (enc_frag f) = (FHS + lenN (f_data f))%N.
Proof. exact lenN_enc_frag. Qed.
Print Assumptions C12_fragment_header_size.
