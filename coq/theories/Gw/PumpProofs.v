(* C03 -- the send pump.  Every MUSCLE event loop (ReflectServer, ExecuteSynchronousMessaging) calls DoOutput()
   only while the gateway's own HasBytesToOutput() says true.  For each modelled sender: HasBytesToOutput() = false
   implies that nothing queued is left unsent ([*_has_bytes_rem], for EVERY sender state -- in particular the one the
   text gateway's recursion cap leaves behind: current line fully written, later lines of the same Message pending,
   where the predicate must still say true), and therefore completeness holds at the states such a pump stops in. *)
From Coq Require Import List NArith ZArith Bool Lia.
From Muscle Require Import Gen.Consts Gw.GwBase Gw.GwLemmas Gw.TransportProofs
  Gw.FrameModel Gw.FrameProofs Gw.FrameDefault Gw.TextModel Gw.TextProofs Gw.RawModel Gw.RawProofs
  Gw.SlipModel Gw.SlipProofs Gw.WsModel Gw.WsProofs Gw.WsDefault Gw.MiniModel Gw.MiniProofs.
Import ListNotations.
Local Open Scope N_scope.

(* ---------------------------------------------------------------------- HasBytesToOutput() = false -> nothing unsent *)
Lemma fs_has_bytes_rem (Msg CS : Type) (flat : CS -> Msg -> CS * bytes) (st : fsend Msg CS) :
  fs_has_bytes st = false -> fs_rem Msg CS flat st = [].
Proof.
  unfold fs_has_bytes, fs_rem. destruct (fs_buf st); [discriminate|].
  destruct (fs_q st); [reflexivity|discriminate].
Qed.

Lemma ts_has_bytes_rem (eol : bytes) (st : tsend) : ts_has_bytes st = false -> ts_rem eol st = [].
Proof.
  unfold ts_has_bytes, ts_rem. destruct (ts_cur st); [discriminate|].
  destruct (ts_q st); [reflexivity|discriminate].
Qed.

Lemma rs_has_bytes_rem (xform : list bytes -> list bytes) (st : rsend) : rs_has_bytes st = false -> rs_rem xform st = [].
Proof.
  unfold rs_has_bytes, rs_rem. destruct (rs_cur st); [discriminate|].
  destruct (rs_q st); [reflexivity|discriminate].
Qed.

Lemma mg_has_bytes_rem (st : msend) : mg_has_bytes st = false -> ms_rem st = [].
Proof. unfold mg_has_bytes, ms_rem. destruct (mg_bufs st); [reflexivity|discriminate]. Qed.

Lemma ws_has_bytes_rem (Msg : Type) (sflat : Msg -> bytes) (client : bool) (st : wsend Msg) :
  ws_has_bytes st = false -> ws_rem Msg sflat client st = [].
Proof.
  unfold ws_has_bytes, ws_rem. intros H. apply orb_false_iff in H. destruct H as [H1 H2].
  destruct (ws_q st); [|discriminate]. apply N.ltb_ge in H1.
  assert (E : drop (ws_off st) (ws_buf st) = []).
  { apply length_zero_iff_nil. pose proof (blen_drop (ws_off st) (ws_buf st)) as Hd. unfold blen in *. lia. }
  rewrite E. reflexivity.
Qed.

(* ---------------------------------------------------------------------- completeness where a HasBytesToOutput()-driven pump stops:
   the sender says it has nothing to output, nothing is in flight -> delivered = queued *)
Theorem binary_pump_completeness max_in (evs : list (event bytes)) :
  Forall (ev_wf (d_wfb max_in)) evs ->
  fs_has_bytes (s_snd (sys_run fs_queue d_do_output (d_do_input max_in) d_sys0 evs)) = false ->
  s_pipe (sys_run fs_queue d_do_output (d_do_input max_in) d_sys0 evs) = [] ->
  s_dlv (sys_run fs_queue d_do_output (d_do_input max_in) d_sys0 evs) = ev_msgs evs.
Proof. intros Hf Hh Hp. apply d_completeness; auto. apply fs_has_bytes_rem; auto. Qed.

Theorem text_pump_completeness eol (Heol : eol_ok eol) (evs : list (event (list bytes))) :
  Forall (ev_wf text_wfm) evs ->
  ts_has_bytes (s_snd (sys_run ts_queue (t_do_output eol) t_do_input text_sys0 evs)) = false ->
  s_pipe (sys_run ts_queue (t_do_output eol) t_do_input text_sys0 evs) = [] ->
  concat (s_dlv (sys_run ts_queue (t_do_output eol) t_do_input text_sys0 evs)) = concat (ev_msgs evs).
Proof. intros Hf Hh Hp. apply text_completeness; auto. apply ts_has_bytes_rem; auto. Qed.

Theorem raw_pump_completeness minc maxc (evs : list (event (list bytes))) :
  Forall (ev_wf raw_wfm) evs ->
  rs_has_bytes (s_snd (sys_run rs_queue raw_do_output (r_do_input minc maxc) raw_sys0 evs)) = false ->
  s_pipe (sys_run rs_queue raw_do_output (r_do_input minc maxc) raw_sys0 evs) = [] ->
  flat_chunks (s_dlv (sys_run rs_queue raw_do_output (r_do_input minc maxc) raw_sys0 evs))
    ++ rr_pend (s_rcv (sys_run rs_queue raw_do_output (r_do_input minc maxc) raw_sys0 evs)) = flat_chunks (ev_msgs evs).
Proof. intros Hf Hh Hp. apply raw_completeness; auto. apply rs_has_bytes_rem; auto. Qed.

Theorem slip_pump_completeness (evs : list (event (list bytes))) :
  Forall (ev_wf raw_wfm) evs ->
  rs_has_bytes (s_snd (sys_run rs_queue slip_do_output sl_do_input slip_sys0 evs)) = false ->
  s_pipe (sys_run rs_queue slip_do_output sl_do_input slip_sys0 evs) = [] ->
  concat (s_dlv (sys_run rs_queue slip_do_output sl_do_input slip_sys0 evs)) = concat (ev_msgs evs).
Proof. intros Hf Hh Hp. apply slip_completeness; auto. apply rs_has_bytes_rem; auto. Qed.

Theorem websocket_pump_completeness (client : bool) (max_in : N) (keys0 : list bytes) :
  Forall (fun k => length k = 4%nat) keys0 ->
  forall evs : list (event bytes),
  Forall (ev_wf (wsd_wfm max_in)) evs ->
  ws_has_bytes (s_snd (sys_run ws_queue (ws_do_output bytes wsd_sflat client)
                      (wr_do_input bytes (frecv unit) (wsd_sfeed max_in) (negb client)) (wsd_sys0 keys0) evs)) = false ->
  s_pipe (sys_run ws_queue (ws_do_output bytes wsd_sflat client)
                      (wr_do_input bytes (frecv unit) (wsd_sfeed max_in) (negb client)) (wsd_sys0 keys0) evs) = [] ->
  s_dlv (sys_run ws_queue (ws_do_output bytes wsd_sflat client)
                      (wr_do_input bytes (frecv unit) (wsd_sfeed max_in) (negb client)) (wsd_sys0 keys0) evs) = ev_msgs evs.
Proof. intros Hk evs Hf Hh Hp. apply wsd_completeness; auto. apply ws_has_bytes_rem; auto. Qed.

Theorem mini_to_cpp_pump_completeness max_in (evs : list (event bytes)) :
  Forall (ev_wf (d_wfb max_in)) evs ->
  mg_has_bytes (s_snd (sys_run ms_queue mg_do_output (d_do_input max_in) m2c_sys0 evs)) = false ->
  s_pipe (sys_run ms_queue mg_do_output (d_do_input max_in) m2c_sys0 evs) = [] ->
  s_dlv (sys_run ms_queue mg_do_output (d_do_input max_in) m2c_sys0 evs) = ev_msgs evs.
Proof. intros Hf Hh Hp. apply mini_to_cpp_completeness; auto. apply mg_has_bytes_rem; auto. Qed.

Theorem cpp_to_mini_pump_completeness (evs : list (event bytes)) :
  Forall (ev_wf mg_wfm) evs ->
  fs_has_bytes (s_snd (sys_run fs_queue d_do_output mg_do_input c2m_sys0 evs)) = false ->
  s_pipe (sys_run fs_queue d_do_output mg_do_input c2m_sys0 evs) = [] ->
  s_dlv (sys_run fs_queue d_do_output mg_do_input c2m_sys0 evs) = ev_msgs evs.
Proof. intros Hf Hh Hp. apply cpp_to_mini_completeness; auto. apply fs_has_bytes_rem; auto. Qed.

(* the state the recursion cap leaves behind: a Message of cap+1 empty lines, one DoOutput() call over a transport that
   takes everything: the call stops after cap lines with the current line fully written, HasBytesToOutput() must (and does) still say true *)
Lemma text_cap_state_has_bytes :
  let m := repeat ([] : bytes) (S (N.to_nat c_text_max_recurse)) in
  let '(st, w) := t_do_output [LF] (ts_queue ts_init m) c_MUSCLE_NO_LIMIT (repeat c_MUSCLE_NO_LIMIT 2000) in
  blen w = c_text_max_recurse /\ ts_off st = Z.of_N (blen (ts_text st)) /\ ts_has_bytes st = true /\ ts_rem [LF] st <> [].
Proof. vm_compute. repeat split; discriminate. Qed.
