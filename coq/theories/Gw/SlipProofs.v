(* C03 -- proofs about the SLIP gateway model: encoder/decoder round trip for every
   segmentation, and the end-to-end theorems. *)
From Coq Require Import List NArith ZArith Bool Lia ZifyBool.
From Muscle Require Import Gen.Consts Gw.GwBase Gw.GwLemmas Gw.RawModel Gw.SlipModel Gw.RawProofs Gw.TransportProofs.
Import ListNotations.
Local Open Scope N_scope.

(* side conditions on the translated constants (re-checked whenever the C++ constants change) *)
Lemma slip_esc_ne_end : (c_slip_esc =? c_slip_end) = false.
Proof. vm_compute. reflexivity. Qed.
Lemma slip_eend_ne_end : (c_slip_escape_end =? c_slip_end) = false.
Proof. vm_compute. reflexivity. Qed.
Lemma slip_eesc_ne_end : (c_slip_escape_esc =? c_slip_end) = false.
Proof. vm_compute. reflexivity. Qed.
Lemma slip_eesc_ne_eend : (c_slip_escape_esc =? c_slip_escape_end) = false.
Proof. vm_compute. reflexivity. Qed.

(* ---- the split lemma: feeding a ++ b = feeding a, then b *)
Lemma sl_feed_app a : forall st b,
  sl_feed st (a ++ b) =
  let '(st1, o1) := sl_feed st a in let '(st2, o2) := sl_feed st1 b in (st2, o1 ++ o2).
Proof.
  induction a as [|x a IH]; intros st b; cbn [app sl_feed].
  - destruct (sl_feed st b). reflexivity.
  - destruct (sl_byte st x) as [st1 o1]. rewrite IH.
    destruct (sl_feed st1 a) as [st2 o2]. destruct (sl_feed st2 b) as [st3 o3].
    now rewrite app_assoc.
Qed.

(* ---- decoding an escaped chunk *)
Lemma sl_feed_escaped c : forall p,
  sl_feed (mkSR p false) (flat_map sl_esc_byte c) = (mkSR (p ++ c) false, []).
Proof.
  induction c as [|b c IH]; intros p; cbn [flat_map].
  - cbn. now rewrite app_nil_r.
  - rewrite sl_feed_app.
    assert (Hb : sl_feed (mkSR p false) (sl_esc_byte b) = (mkSR (p ++ [b]) false, [])).
    { unfold sl_esc_byte.
      destruct (b =? c_slip_end) eqn:E1.
      - apply N.eqb_eq in E1. subst b. cbn [sl_feed sl_byte sr_esc sr_pend].
        rewrite slip_esc_ne_end, N.eqb_refl. cbn [sl_feed sl_byte sr_esc sr_pend].
        rewrite slip_eend_ne_end, N.eqb_refl. reflexivity.
      - destruct (b =? c_slip_esc) eqn:E2.
        + apply N.eqb_eq in E2. subst b. cbn [sl_feed sl_byte sr_esc sr_pend].
          rewrite slip_esc_ne_end, N.eqb_refl. cbn [sl_feed sl_byte sr_esc sr_pend].
          rewrite slip_eesc_ne_end, slip_eesc_ne_eend, N.eqb_refl. reflexivity.
        + cbn [sl_feed sl_byte sr_esc sr_pend]. rewrite E1, E2. reflexivity. }
    rewrite Hb, IH. now rewrite <- app_assoc.
Qed.

Lemma sl_feed_encode c : c <> [] -> sl_feed (mkSR [] false) (sl_encode c) = (mkSR [] false, [c]).
Proof.
  intros Hc. unfold sl_encode.
  change ([c_slip_end] ++ flat_map sl_esc_byte c ++ [c_slip_end])
    with (c_slip_end :: (flat_map sl_esc_byte c ++ [c_slip_end])).
  cbn [sl_feed]. unfold sl_byte at 1. cbn [sr_esc sr_pend]. rewrite N.eqb_refl. cbn [sl_flush].
  rewrite sl_feed_app, sl_feed_escaped. cbn [app sl_feed]. unfold sl_byte. cbn [sr_esc sr_pend].
  rewrite N.eqb_refl. destruct c; [contradiction|reflexivity].
Qed.

Lemma sl_feed_frames cs : Forall nonempty cs ->
  sl_feed (mkSR [] false) (concat (map sl_encode cs)) = (mkSR [] false, cs).
Proof.
  induction 1 as [|c t Hc _ IH]; cbn [map concat]; [reflexivity|].
  rewrite sl_feed_app, (sl_feed_encode c Hc), IH. reflexivity.
Qed.

(* ---- the SLIP gateway, end to end *)
Definition slip_xform (m : list bytes) : list bytes := map sl_encode (r_trunc m).

Lemma slip_xform_ne m : Forall nonempty (slip_xform m).
Proof.
  unfold slip_xform. apply Forall_forall. intros x Hx. apply in_map_iff in Hx.
  destruct Hx as (c & <- & _). unfold sl_encode. discriminate.
Qed.

Definition slip_wire (ms : list (list bytes)) : bytes := rs_qbytes slip_xform ms.
Definition slip_SI (st : rsend) (ms : list (list bytes)) : Prop := rs_wf st.
Definition slip_RRel (r : srecv) (c : bytes) (o : list (list bytes)) : Prop :=
  sl_feed sr_init c = (r, concat o).

Lemma slip_wire_frames ms : Forall raw_wfm ms -> slip_wire ms = concat (map sl_encode (concat ms)).
Proof.
  unfold slip_wire, rs_qbytes, slip_xform.
  induction 1 as [|m t Hm _ IH]; cbn; auto.
  rewrite IH, (r_trunc_id _ Hm), map_app, concat_app. reflexivity.
Qed.

Lemma slip_all_nonempty ms : Forall raw_wfm ms -> Forall nonempty (concat ms).
Proof.
  induction 1 as [|m t Hm _ IH]; cbn; [constructor|]. apply Forall_app; auto.
Qed.

Definition slip_sys0 := @sys0 (list bytes) (list bytes) rsend srecv rs_init sr_init.
Notation slip_run := (sys_run rs_queue slip_do_output sl_do_input).

Lemma slip_S_init : slip_SI rs_init [] /\ rs_rem slip_xform rs_init = [].
Proof. split; [exact I|reflexivity]. Qed.

Lemma slip_S_queue s ms m :
  Forall raw_wfm ms -> raw_wfm m -> slip_SI s ms ->
  slip_SI (rs_queue s m) (ms ++ [m]) /\
  exists d, rs_rem slip_xform (rs_queue s m) = rs_rem slip_xform s ++ d /\ slip_wire (ms ++ [m]) = slip_wire ms ++ d.
Proof.
  intros _ _ Hs. split.
  - unfold slip_SI, rs_wf in *. cbn. exact Hs.
  - exists (concat (slip_xform m)). split.
    + unfold rs_rem. cbn [rs_queue rs_cur rs_off rs_idx rs_q]. rewrite rs_qbytes_app, app_assoc.
      unfold rs_qbytes at 3. cbn. now rewrite app_nil_r.
    + unfold slip_wire. rewrite rs_qbytes_app. unfold rs_qbytes at 3. cbn. now rewrite app_nil_r.
Qed.

Lemma slip_S_out s ms maxb scr s' x :
  Forall raw_wfm ms -> slip_SI s ms -> slip_do_output s maxb scr = (s', x) ->
  slip_SI s' ms /\ rs_rem slip_xform s = x ++ rs_rem slip_xform s'.
Proof. intros _ Hs H. eapply r_do_output_spec; eauto. apply slip_xform_ne. Qed.

Lemma slip_R_init : slip_RRel sr_init [] [].
Proof. reflexivity. Qed.

Lemma sl_do_input_spec st maxb scr pipe st' o pipe' :
  sl_do_input st maxb scr pipe = (st', o, pipe') ->
  exists x, pipe = x ++ pipe' /\ sl_feed st x = (st', concat o) /\
            blen x = N.min (N.min (r_scratch 0 c_MUSCLE_NO_LIMIT) maxb) (N.min (io_k scr) (blen pipe)).
Proof.
  unfold sl_do_input.
  destruct (io_read (N.min (r_scratch 0 c_MUSCLE_NO_LIMIT) maxb) scr pipe) as [[x p1] s1] eqn:Er.
  apply io_read_spec in Er. destruct Er as (Hp & Hb & _).
  destruct (sl_feed st x) as [st1 frames] eqn:Ef.
  intros H. inversion H; subst; clear H.
  exists x. split; auto. split; auto.
  rewrite Ef. destruct frames; cbn; [reflexivity|now rewrite app_nil_r].
Qed.

Lemma slip_R_in (ms : list (list bytes)) r c o maxb scr pipe (rest : bytes) r' o' pipe' :
  Forall raw_wfm ms -> slip_wire ms = c ++ pipe ++ rest -> slip_RRel r c o ->
  sl_do_input r maxb scr pipe = (r', o', pipe') ->
  exists x, pipe = x ++ pipe' /\ slip_RRel r' (c ++ x) (o ++ o').
Proof.
  intros _ _ Hc H. destruct (sl_do_input_spec _ _ _ _ _ _ _ H) as (x & Hp & Hf & _).
  exists x. split; auto. unfold slip_RRel in *.
  rewrite sl_feed_app, Hc, Hf, concat_app. reflexivity.
Qed.

Lemma slip_decode_prefix ms (r : srecv) c o (rest : bytes) :
  Forall raw_wfm ms -> slip_wire ms = c ++ rest -> slip_RRel r c o ->
  exists tl, concat ms = concat o ++ tl.
Proof.
  intros Hwf Hw Hc. unfold slip_RRel in Hc.
  pose proof (sl_feed_frames (concat ms) (slip_all_nonempty ms Hwf)) as Hall.
  rewrite <- slip_wire_frames in Hall by auto. change (mkSR [] false) with sr_init in Hall.
  rewrite Hw, sl_feed_app, Hc in Hall.
  destruct (sl_feed r rest) as [r2 o2]. inversion Hall. eauto.
Qed.

Lemma slip_decode_complete ms (r : srecv) o :
  Forall raw_wfm ms -> slip_RRel r (slip_wire ms) o -> concat o ++ [] = concat ms.
Proof.
  intros Hwf Hc. unfold slip_RRel in Hc.
  pose proof (sl_feed_frames (concat ms) (slip_all_nonempty ms Hwf)) as Hall.
  rewrite <- slip_wire_frames in Hall by auto. change (mkSR [] false) with sr_init in Hall.
  rewrite Hc in Hall. inversion Hall. now rewrite app_nil_r.
Qed.

(* Every event list: the chunks delivered so far (in the order delivered, whatever their grouping
   into Messages) are a prefix of the chunks queued so far; each is bit-identical. *)
Theorem slip_prefix_safety (evs : list (event (list bytes))) :
  Forall (ev_wf raw_wfm) evs ->
  exists tl, concat (ev_msgs evs) = concat (s_dlv (slip_run slip_sys0 evs)) ++ tl.
Proof.
  apply (prefix_safety rs_queue slip_do_output sl_do_input rs_init sr_init raw_wfm slip_wire
           (@concat bytes) (@concat bytes) (rs_rem slip_xform) slip_SI slip_RRel);
    [reflexivity | exact slip_S_init | exact slip_S_queue | exact slip_S_out | exact slip_R_init
    | exact slip_R_in | exact slip_decode_prefix].
Qed.

Theorem slip_completeness (evs : list (event (list bytes))) :
  Forall (ev_wf raw_wfm) evs ->
  rs_rem slip_xform (s_snd (slip_run slip_sys0 evs)) = [] -> s_pipe (slip_run slip_sys0 evs) = [] ->
  concat (s_dlv (slip_run slip_sys0 evs)) = concat (ev_msgs evs).
Proof.
  intros Hf Hr Hp.
  pose proof (completeness rs_queue slip_do_output sl_do_input rs_init sr_init raw_wfm slip_wire
           (@concat bytes) (@concat bytes) (fun _ => []) (rs_rem slip_xform) slip_SI slip_RRel
           eq_refl slip_S_init slip_S_queue slip_S_out slip_R_init slip_R_in slip_decode_complete evs Hf Hr Hp) as H.
  now rewrite app_nil_r in H.
Qed.

Theorem slip_fair_completion (evs : list (event (list bytes))) (rs : list (list (event (list bytes)))) :
  Forall (ev_wf raw_wfm) evs -> Forall round rs ->
  (measure (rs_rem slip_xform) (fun _ => 0%nat) (slip_run slip_sys0 evs) <= length rs)%nat ->
  let st := slip_run slip_sys0 (evs ++ concat rs) in
  quiet (rs_rem slip_xform) st /\ concat (s_dlv st) = concat (ev_msgs evs).
Proof.
  intros Hf Hr Hm.
  pose proof (fair_completion rs_queue slip_do_output sl_do_input rs_init sr_init raw_wfm slip_wire
           (@concat bytes) (@concat bytes) (fun _ => []) (rs_rem slip_xform) slip_SI slip_RRel
           eq_refl slip_S_init slip_S_queue slip_S_out slip_R_init slip_R_in slip_decode_complete (fun _ => 0%nat)) as H.
  cbv zeta in *. rewrite <- (app_nil_r (concat (s_dlv _))). apply H; auto.
  - intros s ms maxb scr s' x _ Hs Ho. split; [lia|]. intros Hrem Hmx Hk. left.
    exact (r_do_output_progress slip_xform slip_xform_ne s maxb scr s' x Hs Hrem Hmx Hk Ho).
  - intros ms r c o maxb scr pipe rest r' o' pipe' _ _ _ Hi Hne Hmx Hk.
    destruct (sl_do_input_spec _ _ _ _ _ _ _ Hi) as (x & Hp & _ & Hb).
    assert (0 < blen pipe) by (apply blen_pos; auto).
    assert (1 <= r_scratch 0 c_MUSCLE_NO_LIMIT) by (vm_compute; discriminate).
    rewrite Hp, app_length. assert (0 < blen x) by lia. unfold blen in *. lia.
Qed.
