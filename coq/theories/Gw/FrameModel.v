(* C03 -- model of the standard binary gateway, iogateway/MessageIOGateway.cpp (stream mode,
   mtuSize = 0).  No proofs in this file.

   A Message is represented by its flattened bytes ("body"; the Message codec itself is C01's
   subject).  FlattenHeaderAndMessage / UnflattenHeaderAndMessage are Section variables
   [flat]/[unflat] that step an abstract send-/receive-codec state, so that the same loops serve
   the default encoding (instance at the end of this file) and the zlib encodings (ZlibModel.v).

   Code shape kept:
     sender   DoOutputImplementation (87-175): loop while maxBytes>0; pop+flatten when
              _sendBuffer is empty; SendMoreData (66-85): attempt = min(maxBytes, size-offset),
              a short write ends the call; buffer reset when offset reaches size.
     receiver DoInputImplementation (196-321): loop while maxBytes>0 and no error; a fresh
              receive starts in the 2048-byte scratch buffer; header phase reads up to hs=8
              bytes, then GetBodySize (502-510: encoding word must be in range), the
              _maxIncomingMessageSize gate, truncate-or-reallocate to hs+bodySize (uint32
              arithmetic); body phase reads up to the buffer size; on completion
              UnflattenHeaderAndMessage, reset, deliver.  ReceiveMoreData (326-342):
              attempt = min(maxBytes, target-offset), a short read ends the call. *)
From Coq Require Import List NArith Bool.
From Muscle Require Import Gen.Consts Gw.GwBase.
Import ListNotations.
Local Open Scope N_scope.

Definition f_hs : N := c_gw_header_words * 4.          (* GetHeaderSize() = 2*sizeof(uint32) *)
Definition f_scratch : N := c_gw_scratch_size.          (* _scratchRecvBufferSizeBytes *)

Section Frame.
  Variable Msg : Type.      (* what is queued and delivered: the flattened bytes of a Message for the
                               plain gateway, an abstract Message for the templating gateway *)
  Variables CS CR : Type.
  (* FlattenHeaderAndMessage: body -> header ++ payload, stepping the send codec *)
  Variable flat : CS -> Msg -> CS * bytes.
  (* UnflattenHeaderAndMessage on a complete buffer: recovered body, or None (error) *)
  Variable unflat : CR -> bytes -> CR * option Msg.
  (* GetBodySize (virtual, 500-510) on the complete header: body size, or None = B_BAD_DATA *)
  Variable body_size : bytes -> option N.
  Variable max_in : N.                                   (* _maxIncomingMessageSize *)

  (* ------------------------------------------------------------------ sender *)
  Record fsend := mkFS {
    fs_q : list Msg;            (* outgoing Message queue *)
    fs_buf : option bytes;      (* _sendBuffer._buffer *)
    fs_off : N;                 (* _sendBuffer._offset *)
    fs_cs : CS }.               (* _sendCodec state *)

  Definition fs_init (c : CS) : fsend := mkFS [] None 0 c.
  Definition fs_queue (st : fsend) (m : Msg) : fsend :=
    mkFS (fs_q st ++ [m]) (fs_buf st) (fs_off st) (fs_cs st).

  (* lines 99-149: make sure _sendBuffer holds data *)
  Definition f_fill (st : fsend) : option (fsend * bytes) :=
    match fs_buf st with
    | Some b => Some (st, b)
    | None =>
        match fs_q st with
        | [] => None
        | m :: q => let '(c', f) := flat (fs_cs st) m in Some (mkFS q (Some f) 0 c', f)
        end
    end.

  (* SendMoreData: (new state, bytes written, new maxBytes, short?) *)
  Definition f_send_more (st : fsend) (b : bytes) (maxb : N) (scr : list N)
    : fsend * bytes * N * bool :=
    let attempt := N.min maxb (blen b - fs_off st) in
    let '(x, _) := io_write (take attempt (drop (fs_off st) b)) scr in
    (mkFS (fs_q st) (fs_buf st) (fs_off st + blen x) (fs_cs st), x, maxb - blen x, blen x <? attempt).

  Fixpoint f_out_loop (scr : list N) (st : fsend) (maxb : N) (acc : bytes) {struct scr}
    : fsend * bytes :=
    if maxb =? 0 then (st, acc) else
    match f_fill st with
    | None => (st, acc)
    | Some (st1, b) =>
        let '(st2, x, maxb', short) := f_send_more st1 b maxb scr in
        if short then (st2, acc ++ x) else
        let st3 := if fs_off st2 =? blen b then mkFS (fs_q st2) None 0 (fs_cs st2) else st2 in
        match scr with
        | [] => (st3, acc ++ x)
        | _ :: scr' => f_out_loop scr' st3 maxb' (acc ++ x)
        end
    end.

  Definition f_do_output (st : fsend) (maxb : N) (scr : list N) : fsend * bytes :=
    f_out_loop scr st maxb [].

  Definition fs_has_bytes (st : fsend) : bool :=
    match fs_buf st, fs_q st with None, [] => false | _, _ => true end.

  (* ------------------------------------------------------------------ receiver *)
  Record frecv := mkFR {
    fr_buf : option (N * bytes);   (* _recvBuffer: (buffer size, bytes received so far); offset = length *)
    fr_err : bool;                 (* unrecoverable error status set *)
    fr_cr : CR }.                  (* _recvCodec state *)

  Definition fr_init (c : CR) : frecv := mkFR None false c.

  (* lines 268-299: header complete; new buffer size, or None = B_BAD_DATA.  The second size
     test (bodySize <= MUSCLE_NO_LIMIT-hs, added by the fix of finding F3) keeps hs+bodySize,
     which is uint32 arithmetic in the C++, from wrapping around. *)
  Definition f_header (cap : N) (hdr : bytes) : option N :=
    match body_size hdr with
    | Some body =>
      if (body <=? max_in) && (body <=? c_MUSCLE_NO_LIMIT - f_hs) then
        let avail := if f_hs <? cap then cap - f_hs else 0 in
        if body <=? avail then Some (f_hs + body) else Some (u32 (f_hs + body))
      else None
    | None => None
    end.

  (* ReceiveMoreData: (buffer contents, new maxBytes, script, pipe, short?) *)
  Definition f_recv_more (got : bytes) (target maxb : N) (scr : list N) (pipe : bytes)
    : bytes * N * list N * bytes * bool :=
    let attempt := N.min maxb (if blen got <? target then target - blen got else 0) in
    let '(x, pipe', scr') := io_read attempt scr pipe in
    (got ++ x, maxb - blen x, scr', pipe', blen x <? attempt).

  Inductive fphase :=
  | FStop (st : frecv) (pipe : bytes)
  | FCont (cap : N) (got : bytes) (maxb : N) (scr : list N) (pipe : bytes).

  (* lines 262-301 *)
  Definition f_header_phase (cr : CR) (cap : N) (got : bytes) (maxb : N) (scr : list N) (pipe : bytes)
    : fphase :=
    if blen got <? f_hs then
      let '(got1, maxb1, scr1, pipe1, short) := f_recv_more got f_hs maxb scr pipe in
      if short then FStop (mkFR (Some (cap, got1)) false cr) pipe1
      else if f_hs <=? blen got1 then
        match f_header cap got1 with
        | None => FStop (mkFR (Some (cap, got1)) true cr) pipe1
        | Some cap1 => FCont cap1 got1 maxb1 scr1 pipe1
        end
      else FCont cap got1 maxb1 scr1 pipe1
    else FCont cap got maxb scr pipe.

  (* result of one turn of the while loop: the call ends, or the loop goes round again *)
  Inductive fturn :=
  | FEnd (st : frecv) (outs : list Msg) (pipe : bytes)
  | FNext (st : frecv) (maxb : N) (scr : list N) (pipe : bytes) (outs : list Msg).

  (* lines 303-316: body phase *)
  Definition f_body_phase (cr : CR) (cap1 : N) (got1 : bytes) (maxb1 : N) (scr1 : list N) (pipe1 : bytes)
             (outs : list Msg) : fturn :=
    let '(got2, maxb2, scr2, pipe2, short) :=
      if blen got1 <? cap1 then f_recv_more got1 cap1 maxb1 scr1 pipe1
      else (got1, maxb1, scr1, pipe1, false) in
    if short then FEnd (mkFR (Some (cap1, got2)) false cr) outs pipe2
    else if blen got2 =? cap1 then
      match unflat cr got2 with
      | (cr', Some m) => FNext (mkFR None false cr') maxb2 scr2 pipe2 (outs ++ [m])
      | (cr', None) => FEnd (mkFR None true cr') outs pipe2
      end
    else FNext (mkFR (Some (cap1, got2)) false cr) maxb2 scr2 pipe2 outs.

  (* one turn of the loop 206-318 (stream branch), including the loop condition *)
  Definition f_turn (st : frecv) (maxb : N) (scr : list N) (pipe : bytes) (outs : list Msg) : fturn :=
    if (maxb =? 0) || fr_err st then FEnd st outs pipe else
    let '(cap, got) := match fr_buf st with Some x => x | None => (f_scratch, []) end in
    match f_header_phase (fr_cr st) cap got maxb scr pipe with
    | FStop st' pipe' => FEnd st' outs pipe'
    | FCont cap1 got1 maxb1 scr1 pipe1 =>
        if f_hs <=? blen got1 then f_body_phase (fr_cr st) cap1 got1 maxb1 scr1 pipe1 outs
        else FNext (mkFR (Some (cap1, got1)) false (fr_cr st)) maxb1 scr1 pipe1 outs
    end.

  Fixpoint f_in_loop (fuel : nat) (st : frecv) (maxb : N) (scr : list N) (pipe : bytes)
           (outs : list Msg) {struct fuel} : frecv * list Msg * bytes :=
    match fuel with
    | O => (st, outs, pipe)
    | S fuel' =>
      match f_turn st maxb scr pipe outs with
      | FEnd st' outs' pipe' => (st', outs', pipe')
      | FNext st' maxb' scr' pipe' outs' => f_in_loop fuel' st' maxb' scr' pipe' outs'
      end
    end.

  (* every loop turn that does not end the call performs at least one Read, i.e. consumes a
     script entry, and an exhausted script makes the next Read short: |scr|+1 turns suffice
     (FrameProofs.f_in_fuel_enough) *)
  Definition f_do_input (st : frecv) (maxb : N) (scr : list N) (pipe : bytes)
    : frecv * list Msg * bytes :=
    f_in_loop (S (length scr)) st maxb scr pipe [].

  (* ------------------------------------------------------------------ byte-at-a-time reference
     receiver (L0): the same header/body machine advanced one byte per step; used to state the
     split lemma and to characterise what any sequence of DoInput calls delivers. *)
  (* a complete buffer: reconstruct the Message, reset *)
  Definition f_done (cr : CR) (buf : bytes) : frecv * list Msg :=
    match unflat cr buf with
    | (cr', Some m) => (mkFR None false cr', [m])
    | (cr', None) => (mkFR None true cr', [])
    end.

  (* the 8th header byte has arrived *)
  Definition f_hdr_done (cr : CR) (cap : N) (got1 : bytes) : frecv * list Msg :=
    match f_header cap got1 with
    | None => (mkFR (Some (cap, got1)) true cr, [])
    | Some cap1 => if blen got1 =? cap1 then f_done cr got1
                   else (mkFR (Some (cap1, got1)) false cr, [])
    end.

  Definition f_byte (st : frecv) (b : byte) : frecv * list Msg :=
    if fr_err st then (st, []) else
    let '(cap, got) := match fr_buf st with Some x => x | None => (f_scratch, []) end in
    let got1 := got ++ [b] in
    if blen got <? f_hs then
      if f_hs <=? blen got1 then f_hdr_done (fr_cr st) cap got1
      else (mkFR (Some (cap, got1)) false (fr_cr st), [])
    else
      if blen got1 =? cap then f_done (fr_cr st) got1
      else (mkFR (Some (cap, got1)) false (fr_cr st), []).

  Fixpoint f_feed (st : frecv) (bs : bytes) : frecv * list Msg :=
    match bs with
    | [] => (st, [])
    | b :: t => let '(st1, o1) := f_byte st b in
                let '(st2, o2) := f_feed st1 t in (st2, o1 ++ o2)
    end.
End Frame.

Arguments mkFS {Msg CS}. Arguments fs_q {Msg CS}. Arguments fs_buf {Msg CS}. Arguments fs_off {Msg CS}. Arguments fs_cs {Msg CS}.
Arguments mkFR {CR}. Arguments fr_buf {CR}. Arguments fr_err {CR}. Arguments fr_cr {CR}.
Arguments fs_init {Msg CS}. Arguments fs_queue {Msg CS}. Arguments fr_init {CR}. Arguments fs_has_bytes {Msg CS}.

(* ---------------------------------------------------------------------- default encoding
   FlattenHeaderAndMessage (394-436) without a codec: header = le32 |body| ++ le32 ENCODING_DEFAULT.
   UnflattenHeaderAndMessage (438-489): size word must match, encoding must be DEFAULT (any
   other in-range encoding would go to zlib: see ZlibModel.v), the rest is the body (handed to
   Message::Unflatten, which is outside this model: bodies are valid flattened Messages). *)
(* MessageIOGateway::GetBodySize (500-510): the encoding word must be one of the ten known encodings *)
Definition d_body_size (hdr : bytes) : option N :=
  let enc := rd32 (drop 4 hdr) in
  if (c_MUSCLE_MESSAGE_ENCODING_DEFAULT <=? enc) && (enc <=? c_MUSCLE_MESSAGE_ENCODING_END_MARKER - 1)
  then Some (rd32 hdr) else None.

Definition d_flat (c : unit) (body : bytes) : unit * bytes :=
  (c, le32 (blen body) ++ le32 c_MUSCLE_MESSAGE_ENCODING_DEFAULT ++ body).

Definition d_unflat (c : unit) (buf : bytes) : unit * option bytes :=
  if (u32 (f_hs + rd32 buf) =? blen buf) && (rd32 (drop 4 buf) =? c_MUSCLE_MESSAGE_ENCODING_DEFAULT)
  then (c, Some (drop f_hs buf)) else (c, None).

Definition d_do_output := f_do_output bytes unit d_flat.
Definition d_do_input (max_in : N) := f_do_input bytes unit d_unflat d_body_size max_in.
Definition d_feed (max_in : N) := f_feed bytes unit d_unflat d_body_size max_in.
