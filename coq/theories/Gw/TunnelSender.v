(* C12 -- proofs about the PacketTunnelIOGateway model, part 3: what the sender puts on the wire.

   [chain c id off q fs id' off' q']: starting with the output cursor at (message id, offset, queue),
   the fragments fs are exactly the next slices, in order and without gaps, and leave the cursor at
   (id', off', q').  Every run of the sender writes packets that are encodings of consecutive pieces
   of one such chain over all the Messages it was given. *)
From Coq Require Import List Arith NArith Bool Lia.
From Coq Require Import Strings.Byte.
From Muscle Require Import Common.LE Gen.Consts Gw.Tunnel Gw.TunnelProofs Gw.TunnelSound.
Import ListNotations.
Local Open Scope N_scope.

Definition frag_of (c : scfg) (id : N) (m : msg) (off n : N) : frag :=
  mkFrag (sc_magic c) (sc_sex c) id off (lenN m) (takeN n (dropN off m)).

Inductive chain (c : scfg) : N -> N -> list msg -> list frag -> N -> N -> list msg -> Prop :=
| ch_nil id off q : chain c id off q [] id off q
| ch_part id off m q n fs id' off' q' :
    0 < n -> off + n < lenN m ->
    chain c id (off + n) (m :: q) fs id' off' q' ->
    chain c id off (m :: q) (frag_of c id m off n :: fs) id' off' q'
| ch_fin id off m q n fs id' off' q' :
    off + n = lenN m ->
    chain c (u32 (id + 1)) 0 q fs id' off' q' ->
    chain c id off (m :: q) (frag_of c id m off n :: fs) id' off' q'.

Lemma chain_app c id off q fs1 id1 off1 q1 fs2 id2 off2 q2 :
  chain c id off q fs1 id1 off1 q1 -> chain c id1 off1 q1 fs2 id2 off2 q2 ->
  chain c id off q (fs1 ++ fs2) id2 off2 q2.
Proof.
  intros H1 H2. induction H1; cbn [app].
  - exact H2.
  - eapply ch_part; eauto.
  - eapply ch_fin; eauto.
Qed.

Lemma chain_snoc c id off q fs id' off' q' m :
  chain c id off q fs id' off' q' -> chain c id off (q ++ [m]) fs id' off' (q' ++ [m]).
Proof.
  intros H. induction H; cbn [app] in *.
  - constructor.
  - eapply ch_part; eauto.
  - eapply ch_fin; eauto.
Qed.

Lemma chain_done c id off q fs id' off' q' :
  chain c id off q fs id' off' q' -> exists done, q = done ++ q'.
Proof.
  intros H. induction H.
  - now exists [].
  - exact IHchain.
  - destruct IHchain as [d ->]. now exists (m :: d).
Qed.

(* the offset cursor points inside the head of the queue (or is 0) *)
Definition cursor_ok (off : N) (q : list msg) : Prop :=
  off = 0 \/ exists m q0, q = m :: q0 /\ off < lenN m.

Lemma cursor_ok_snoc off q m : cursor_ok off q -> cursor_ok off (q ++ [m]).
Proof. intros [H|(m0 & q0 & -> & H)]; [now left|]. right. exists m0, (q0 ++ [m]). auto. Qed.

Lemma chain_cursor c id off q fs id' off' q' :
  chain c id off q fs id' off' q' -> cursor_ok off q -> cursor_ok off' q'.
Proof.
  intros H. induction H; intros Hc.
  - exact Hc.
  - apply IHchain. right. exists m, q. split; [reflexivity|lia].
  - apply IHchain. now left.
Qed.

(* ------------------------------------------------------------------ fill *)

Ltac nil_len := change (enc_frags []) with (@nil byte); rewrite ?lenN_nil; lia.

Lemma lenN_slice (m : msg) off n : off + n <= lenN m -> lenN (takeN n (dropN off m)) = n.
Proof. intros H. rewrite lenN_takeN, lenN_dropN. lia. Qed.

Lemma fill_spec c : forall q ps id off fs id' off' q',
  FHS < sc_mtu c -> cursor_ok off q -> ps <= sc_mtu c ->
  fill c ps id off q = (fs, (id', off', q')) ->
  chain c id off q fs id' off' q' /\ ps + lenN (enc_frags fs) <= sc_mtu c.
Proof.
  induction q as [|m q IH]; intros ps id off fs id' off' q' Hmtu Hcur Hps; cbn [fill].
  - intros E. injection E as <- <- <- <-. split; [|nil_len].
    destruct Hcur as [->|(m0 & q0 & E & _)]; [constructor|discriminate].
  - destruct (ps + FHS <? sc_mtu c) eqn:Hroom.
    2:{ intros E. injection E as <- <- <- <-. split; [constructor|nil_len]. }
    apply N.ltb_lt in Hroom.
    assert (Hoff : off <= lenN m).
    { destruct Hcur as [->|(m0 & q0 & E & H)]; [lia|]. injection E as <- <-. lia. }
    set (n := N.min (sc_mtu c - (ps + FHS)) (lenN m - off)).
    destruct (off + n =? lenN m) eqn:Hfin.
    + apply N.eqb_eq in Hfin.
      destruct (fill c (ps + FHS + n) (u32 (id + 1)) 0 q) as [fs1 [[id1 off1] q1]] eqn:E1.
      intros E. injection E as <- <- <- <-.
      destruct (IH (ps + FHS + n) (u32 (id + 1)) 0 fs1 id1 off1 q1 Hmtu (or_introl eq_refl) ltac:(lia) E1) as [Hch Hsz].
      split.
      * eapply ch_fin; eassumption.
      * rewrite enc_frags_cons, lenN_app, lenN_enc_frag. cbn [f_data frag_of].
        rewrite lenN_slice by lia. lia.
    + apply N.eqb_neq in Hfin.
      intros E. injection E as <- <- <- <-.
      split.
      * eapply ch_part; [lia|lia|constructor].
      * rewrite enc_frags_cons, lenN_app, lenN_enc_frag. cbn [f_data frag_of].
        rewrite lenN_slice by lia. nil_len.
Qed.

(* when only part of the head buffer fits, the packet is full: the C++ loop condition fails next time round *)
Lemma fill_partial_fills_packet c ps off (m : msg) :
  ps + FHS < sc_mtu c -> off <= lenN m ->
  let n := N.min (sc_mtu c - (ps + FHS)) (lenN m - off) in
  off + n <> lenN m -> ps + FHS + n = sc_mtu c.
Proof. intros H1 H2 n H3. subst n. lia. Qed.

(* ------------------------------------------------------------------ ids, histories *)

Fixpoint assign (id : N) (q : list msg) : hist :=
  match q with
  | [] => []
  | m :: q' => (id, m) :: assign (u32 (id + 1)) q'
  end.

Lemma u32_add_l a b : u32 (u32 a + b) = u32 (a + b).
Proof. unfold u32. apply N.add_mod_idemp_l. discriminate. Qed.

Lemma assign_in q : forall id k m,
  id < two32 ->
  In (k, m) (assign id q) -> exists i, (i < length q)%nat /\ k = u32 (id + N.of_nat i).
Proof.
  induction q as [|m0 q IH]; intros id k m Hid; cbn [assign In]; [tauto|].
  intros [E|H].
  - injection E as <- <-. exists 0%nat. split; [cbn; lia|].
    replace (id + N.of_nat 0) with id by lia. symmetry. now apply u32_small.
  - destruct (IH _ _ _ (u32_lt _) H) as (i & Hi & Hk). exists (S i). split; [cbn [length]; lia|].
    rewrite Hk, u32_add_l. f_equal. lia.
Qed.

Lemma u32_shift_inj id k : id < two32 -> 0 < k -> k < two32 -> u32 (id + k) <> id.
Proof.
  intros Hid Hk0 Hk E. unfold u32 in E.
  pose proof (N.div_mod (id + k) two32 ltac:(discriminate)) as D. rewrite E in D.
  assert (Hq : (id + k) / two32 = 0 \/ (id + k) / two32 = 1 \/ 2 <= (id + k) / two32) by lia.
  unfold two32 in *. lia.
Qed.

Lemma assign_not_in id q :
  id < two32 -> N.of_nat (length q) < two32 -> ~ In id (map fst (assign (u32 (id + 1)) q)).
Proof.
  intros Hid Hlen Hin. apply in_map_iff in Hin as ([k m'] & Ek & Hin). cbn [fst] in Ek. subst k.
  destruct (assign_in _ _ _ _ (u32_lt _) Hin) as (i & Hi & Hk).
  rewrite u32_add_l in Hk. symmetry in Hk. revert Hk.
  replace (id + 1 + N.of_nat i) with (id + (1 + N.of_nat i)) by lia.
  apply u32_shift_inj; [assumption|lia|lia].
Qed.

Lemma assign_nodup q : forall id,
  id < two32 -> N.of_nat (length q) <= two32 -> NoDup (map fst (assign id q)).
Proof.
  induction q as [|m q IH]; intros id Hid Hlen; cbn [assign map fst]; [constructor|].
  cbn [length] in Hlen. constructor.
  - apply assign_not_in; [assumption|lia].
  - apply IH; [apply u32_lt|lia].
Qed.

Lemma assign_app id q1 q2 : exists id2, assign id (q1 ++ q2) = assign id q1 ++ assign id2 q2.
Proof.
  revert id. induction q1 as [|m q1 IH]; intros id; cbn [app assign].
  - now exists id.
  - destruct (IH (u32 (id + 1))) as [id2 E]. exists id2. now rewrite E.
Qed.

Lemma assign_snd id q : map snd (assign id q) = q.
Proof. revert id. induction q as [|m q IH]; intros id; cbn [assign map snd]; [reflexivity|]. now rewrite IH. Qed.

(* every fragment of a chain is a slice of the Message that carries its id *)
Lemma chain_valid c id off q fs id' off' q' :
  chain c id off q fs id' off' q' -> Forall (valid (assign id q)) fs.
Proof.
  intros H. induction H.
  - constructor.
  - constructor.
    + exists m. cbn [frag_of f_id f_total f_off f_data assign]. rewrite lenN_slice by lia.
      repeat split; [now left|lia].
    + exact IHchain.
  - constructor.
    + exists m. cbn [frag_of f_id f_total f_off f_data assign]. rewrite lenN_slice by lia.
      repeat split; [now left|lia].
    + cbn [assign]. eapply Forall_impl; [|exact IHchain].
      intros f (m0 & Hin & Hrest). exists m0. split; [now right|exact Hrest].
Qed.

Definition scfg_ok (c : scfg) : Prop := sc_magic c < two32 /\ sc_sex c < two32 /\ FHS < sc_mtu c.

Lemma chain_wire_ok c id off q fs id' off' q' :
  chain c id off q fs id' off' q' ->
  scfg_ok c -> id < two32 -> Forall (fun m => lenN m < two32) q ->
  Forall wire_ok fs /\ id' < two32.
Proof.
  intros H (Hm & Hs & _). induction H; intros Hid Hq.
  - split; [constructor|exact Hid].
  - inversion Hq as [|? ? Hm0 Hq0]; subst.
    destruct (IHchain Hid Hq) as [Hw Hid']. split; [|exact Hid'].
    constructor; [|exact Hw]. unfold wire_ok. cbn [frag_of f_magic f_sex f_id f_off f_total f_data].
    rewrite lenN_slice by lia. repeat split; try assumption; lia.
  - inversion Hq as [|? ? Hm0 Hq0]; subst.
    destruct (IHchain (u32_lt _) Hq0) as [Hw Hid']. split; [|exact Hid'].
    constructor; [|exact Hw]. unfold wire_ok. cbn [frag_of f_magic f_sex f_id f_off f_total f_data].
    rewrite lenN_slice by lia. repeat split; try assumption; lia.
Qed.

Lemma chain_compat c id off q fs id' off' q' :
  chain c id off q fs id' off' q' ->
  Forall (fun f => f_magic f = sc_magic c /\ f_sex f = sc_sex c) fs.
Proof. intros H. induction H; constructor; auto. Qed.

(* ------------------------------------------------------------------ the run of a sender *)

Fixpoint added (ops : list sop) : list msg :=
  match ops with
  | [] => []
  | SAdd m :: ops' => m :: added ops'
  | _ :: ops' => added ops'
  end.

Fixpoint no_setid (ops : list sop) : Prop :=
  match ops with
  | [] => True
  | SSetId _ :: _ => False
  | _ :: ops' => no_setid ops'
  end.

(* ghost view of a sender state: [all] = every Message added so far, [em] = every fragment written so far *)
Definition sinv (c : scfg) (id0 : N) (all : list msg) (em : list frag) (st : sstate) : Prop :=
  (exists pend, s_pkt st = enc_frags pend
                /\ chain c id0 0 all (em ++ pend) (s_id st) (s_off st) (s_q st))
  /\ lenN (s_pkt st) <= sc_mtu c.

Lemma sinv_init c id0 : sinv c id0 [] [] (s_init id0).
Proof. split; [exists []; split; [reflexivity|cbn; apply ch_nil]|cbn [s_init s_pkt]; rewrite lenN_nil; lia]. Qed.

Lemma out_loop_spec c id0 all : forall fuel mb tot bud em st pkts st',
  FHS < sc_mtu c ->
  sinv c id0 all em st ->
  out_loop fuel c mb tot bud st = (pkts, st') ->
  exists fss, pkts = map enc_frags fss /\ sinv c id0 all (em ++ concat fss) st'
              /\ Forall (fun p => lenN p <= sc_mtu c) pkts.
Proof.
  induction fuel as [|fuel IH]; intros mb tot bud em st pkts st' Hmtu Hinv; cbn [out_loop].
  - intros E. injection E as <- <-. exists []. cbn. rewrite app_nil_r. auto.
  - destruct (tot <? mb).
    2:{ intros E. injection E as <- <-. exists []. cbn. rewrite app_nil_r. auto. }
    destruct Hinv as [(pend & Hpkt & Hch) Hsz].
    assert (Hcur : cursor_ok (s_off st) (s_q st)).
    { eapply chain_cursor; [exact Hch|now left]. }
    destruct (fill c (lenN (s_pkt st)) (s_id st) (s_off st) (s_q st)) as [fs [[id off] q]] eqn:Ef.
    destruct (fill_spec c _ _ _ _ _ _ _ _ Hmtu Hcur Hsz Ef) as [Hch2 Hsz2].
    assert (Hch3 : chain c id0 0 all (em ++ (pend ++ fs)) id off q).
    { rewrite app_assoc. eapply chain_app; eassumption. }
    assert (Hpkt3 : s_pkt st ++ enc_frags fs = enc_frags (pend ++ fs)).
    { now rewrite enc_frags_app, Hpkt. }
    assert (Hsz3 : lenN (s_pkt st ++ enc_frags fs) <= sc_mtu c) by (rewrite lenN_app; lia).
    destruct (0 <? lenN (s_pkt st ++ enc_frags fs)).
    + destruct (bud =? 0).
      * intros E. injection E as <- <-. exists []. cbn [map concat]. rewrite app_nil_r.
        split; [reflexivity|]. split; [|constructor].
        split; [|exact Hsz3]. exists (pend ++ fs). cbn [s_pkt s_id s_off s_q]. auto.
      * destruct (out_loop fuel c mb (tot + lenN (s_pkt st ++ enc_frags fs)) (bud - 1) (mkS id off q [])) as [ps st1] eqn:El.
        intros E. injection E as <- <-.
        assert (Hinv1 : sinv c id0 all (em ++ (pend ++ fs)) (mkS id off q [])).
        { split; [|cbn [s_pkt]; rewrite lenN_nil; lia]. exists []. cbn [s_pkt s_id s_off s_q]. rewrite app_nil_r. auto. }
        destruct (IH _ _ _ _ _ _ _ Hmtu Hinv1 El) as (fss & -> & Hinv2 & Hall).
        exists ((pend ++ fs) :: fss). cbn [map concat]. rewrite Hpkt3.
        split; [reflexivity|]. split; [now rewrite app_assoc|].
        constructor; [now rewrite <- Hpkt3|exact Hall].
    + intros E. injection E as <- <-. exists []. cbn [map concat]. rewrite app_nil_r.
      split; [reflexivity|]. split; [|constructor].
      split; [|exact Hsz3]. exists (pend ++ fs). cbn [s_pkt s_id s_off s_q]. auto.
Qed.

Lemma srun_spec c id0 : forall ops all em st st' pkts,
  FHS < sc_mtu c -> no_setid ops ->
  sinv c id0 all em st ->
  srun c st ops = (st', pkts) ->
  exists fss, pkts = map enc_frags fss /\ sinv c id0 (all ++ added ops) (em ++ concat fss) st'
              /\ Forall (fun p => lenN p <= sc_mtu c) pkts.
Proof.
  induction ops as [|o ops IH]; intros all em st st' pkts Hmtu Hns Hinv; cbn [srun].
  - intros E. injection E as <- <-. exists []. cbn. rewrite !app_nil_r. auto.
  - destruct o as [m|mb bud|id]; cbn [no_setid] in Hns; [| |tauto]; cbn [sstep added].
    + destruct (srun c (mkS (s_id st) (s_off st) (s_q st ++ [m]) (s_pkt st)) ops) as [st2 p2] eqn:E2.
      intros E. injection E as <- <-. cbn [app].
      assert (Hinv1 : sinv c id0 (all ++ [m]) em (mkS (s_id st) (s_off st) (s_q st ++ [m]) (s_pkt st))).
      { destruct Hinv as [(pend & Hpkt & Hch) Hsz]. split; [|exact Hsz].
        exists pend. cbn [s_pkt s_id s_off s_q]. split; [exact Hpkt|]. now apply chain_snoc. }
      destruct (IH _ _ _ _ _ Hmtu Hns Hinv1 E2) as (fss & -> & Hinv2 & Hall).
      exists fss. rewrite <- app_assoc in Hinv2. cbn [app] in Hinv2. auto.
    + destruct (out_loop (out_fuel st) c mb 0 bud st) as [ps st1] eqn:E1.
      destruct (srun c st1 ops) as [st2 p2] eqn:E2.
      intros E. injection E as <- <-.
      destruct (out_loop_spec c id0 all _ _ _ _ _ _ _ _ Hmtu Hinv E1) as (fss1 & -> & Hinv1 & Hall1).
      destruct (IH _ _ _ _ _ Hmtu Hns Hinv1 E2) as (fss2 & -> & Hinv2 & Hall2).
      exists (fss1 ++ fss2). rewrite map_app, concat_app, app_assoc.
      split; [reflexivity|]. split; [exact Hinv2|]. apply Forall_app. auto.
Qed.
