(* C03 -- proofs about the WebSocket framing model: masking is an involution, the receive loop
   refines the byte-at-a-time machine, the split lemma, every frame the sender builds (any payload
   length class, masked or not, any key) is parsed back to its payload, and the end-to-end theorems
   for a client->server or server->client pair with slave gateways. *)
From Coq Require Import List NArith ZArith Bool Lia ZifyBool.
From Muscle Require Import Gen.Consts Gw.GwBase Gw.GwLemmas Gw.WsModel Gw.TransportProofs.
Import ListNotations.
Local Open Scope N_scope.

(* ---- masking *)
Lemma ws_xor_length key : forall d i, length (ws_xor key i d) = length d.
Proof. induction d as [|x t IH]; intros i; cbn; auto. Qed.

Lemma blen_ws_xor key i d : blen (ws_xor key i d) = blen d.
Proof. unfold blen. now rewrite ws_xor_length. Qed.

Lemma ws_xor_involutive key : forall d i, ws_xor key i (ws_xor key i d) = d.
Proof.
  induction d as [|x t IH]; intros i; cbn [ws_xor]; auto.
  rewrite IH. f_equal. rewrite N.lxor_assoc, N.lxor_nilpotent. apply N.lxor_0_r.
Qed.

Section WsProofs.
  Variable Msg : Type.
  Variable SR : Type.
  Variable sflat : Msg -> bytes.
  Variable sfeed : SR -> bytes -> SR * list Msg.

  Notation wsend := (wsend Msg).
  Notation wrecv := (wrecv SR).
  Notation wr_byte := (wr_byte Msg SR sfeed).
  Notation wr_feed := (wr_feed Msg SR sfeed).
  Notation wr_in := (wr_in Msg SR sfeed).
  Notation wr_do_input := (wr_do_input Msg SR sfeed).
  Notation wr_header_done := (wr_header_done Msg SR sfeed).
  Notation wr_payload_done := (wr_payload_done Msg SR sfeed).

  (* ==================================================================== the split lemma *)
  Lemma wr_feed_app client a : forall st b,
    wr_feed client st (a ++ b) =
    let '(st1, o1) := wr_feed client st a in let '(st2, o2) := wr_feed client st1 b in (st2, o1 ++ o2).
  Proof.
    induction a as [|x a IH]; intros st b; cbn [app WsModel.wr_feed].
    - destruct (wr_feed client st b). reflexivity.
    - destruct (wr_byte client st x) as [st1 o1]. rewrite IH.
      destruct (wr_feed client st1 a) as [st2 o2]. destruct (wr_feed client st2 b) as [st3 o3].
      now rewrite app_assoc.
  Qed.

  Lemma wr_feed_err client st x : wr_err st = true -> wr_feed client st x = (st, []).
  Proof.
    intros He. induction x as [|b t IH]; cbn [WsModel.wr_feed]; auto.
    unfold WsModel.wr_byte. rewrite He, IH. reflexivity.
  Qed.

  (* ==================================================================== chunks and the byte machine *)
  Definition with_hdr (st : wrecv) (h : bytes) : wrecv :=
    mkWR h (wr_hsize st) (wr_pay st) (wr_first st) (wr_mask st) (wr_op st) (wr_closed st) (wr_err st) (wr_slave st).
  Definition with_pay (st : wrecv) (sz : N) (got : bytes) : wrecv :=
    mkWR (wr_hdr st) (wr_hsize st) (Some (sz, got)) (wr_first st) (wr_mask st) (wr_op st) (wr_closed st) (wr_err st) (wr_slave st).

  (* one byte *)
  Lemma wr_byte_hdr client st b :
    wr_err st = false -> blen (wr_hdr st) < wr_hsize st ->
    wr_byte client st b =
    (if blen (wr_hdr st) + 1 =? wr_hsize st then wr_header_done client (with_hdr st (wr_hdr st ++ [b]))
     else (with_hdr st (wr_hdr st ++ [b]), [])).
  Proof.
    intros He Hl. unfold WsModel.wr_byte, with_hdr. rewrite He.
    assert (E1 : (blen (wr_hdr st) =? wr_hsize st) = false) by lia. rewrite E1. reflexivity.
  Qed.

  Lemma wr_byte_pay client st sz got b :
    wr_err st = false -> blen (wr_hdr st) = wr_hsize st -> wr_pay st = Some (sz, got) ->
    wr_byte client st b =
    (if blen got + 1 =? sz then wr_payload_done client (with_pay st sz (got ++ [b]))
     else (with_pay st sz (got ++ [b]), [])).
  Proof.
    intros He Hh Hp. unfold WsModel.wr_byte, with_pay. rewrite He, Hp.
    assert (E1 : (blen (wr_hdr st) =? wr_hsize st) = true) by lia. rewrite E1. reflexivity.
  Qed.

  Lemma with_hdr_hdr st h h2 : with_hdr (with_hdr st h) h2 = with_hdr st h2.
  Proof. reflexivity. Qed.
  Lemma with_pay_pay st sz g sz2 g2 : with_pay (with_pay st sz g) sz2 g2 = with_pay st sz2 g2.
  Proof. reflexivity. Qed.

  (* header bytes that do not complete the header *)
  Lemma feed_hdr_partial client x : forall st,
    wr_err st = false -> blen (wr_hdr st) + blen x < wr_hsize st ->
    wr_feed client st x = (with_hdr st (wr_hdr st ++ x), []).
  Proof.
    induction x as [|b t IH]; intros st He Hl.
    - cbn. rewrite app_nil_r. destruct st; reflexivity.
    - cbn [WsModel.wr_feed]. rewrite blen_cons in Hl.
      rewrite wr_byte_hdr by (auto; lia).
      assert (E2 : (blen (wr_hdr st) + 1 =? wr_hsize st) = false) by lia. rewrite E2.
      rewrite IH.
      + cbn [with_hdr wr_hdr]. rewrite with_hdr_hdr, <- app_assoc. reflexivity.
      + exact He.
      + cbn [with_hdr wr_hdr wr_hsize]. rewrite blen_app. change (blen [b]) with 1. lia.
  Qed.

  (* header bytes that complete it *)
  Lemma feed_hdr_exact client x : forall st,
    wr_err st = false -> x <> [] -> blen (wr_hdr st) + blen x = wr_hsize st ->
    wr_feed client st x = wr_header_done client (with_hdr st (wr_hdr st ++ x)).
  Proof.
    induction x as [|b t IH]; intros st He Hx Hl; [contradiction|].
    cbn [WsModel.wr_feed]. rewrite blen_cons in Hl.
    rewrite wr_byte_hdr by (auto; lia).
    destruct t as [|b' t'].
    - change (blen []) with 0 in Hl.
      assert (E2 : (blen (wr_hdr st) + 1 =? wr_hsize st) = true) by lia. rewrite E2.
      cbn [WsModel.wr_feed]. unfold bytes, byte in *.
      destruct (wr_header_done client (with_hdr st (wr_hdr st ++ [b]))). now rewrite app_nil_r.
    - assert (E2 : (blen (wr_hdr st) + 1 =? wr_hsize st) = false) by (rewrite blen_cons in Hl; lia). rewrite E2.
      rewrite IH.
      + cbn [with_hdr wr_hdr]. rewrite with_hdr_hdr, <- app_assoc. cbn [app].
        destruct (wr_header_done client _). reflexivity.
      + exact He.
      + discriminate.
      + cbn [with_hdr wr_hdr wr_hsize]. rewrite blen_app. change (blen [b]) with 1. lia.
  Qed.

  (* payload bytes that do not complete the payload *)
  Lemma feed_pay_partial client x : forall st sz got,
    wr_err st = false -> blen (wr_hdr st) = wr_hsize st -> wr_pay st = Some (sz, got) ->
    blen got + blen x < sz ->
    wr_feed client st x = (with_pay st sz (got ++ x), []).
  Proof.
    induction x as [|b t IH]; intros st sz got He Hh Hp Hl.
    - cbn. rewrite app_nil_r. unfold with_pay. rewrite <- Hp. destruct st; reflexivity.
    - cbn [WsModel.wr_feed]. rewrite blen_cons in Hl.
      rewrite (wr_byte_pay client st sz got b He Hh Hp).
      assert (E2 : (blen got + 1 =? sz) = false) by lia. rewrite E2.
      rewrite (IH _ sz (got ++ [b])); auto.
      + rewrite with_pay_pay, <- app_assoc. reflexivity.
      + rewrite blen_app. change (blen [b]) with 1. lia.
  Qed.

  (* payload bytes that complete it *)
  Lemma feed_pay_exact client x : forall st sz got,
    wr_err st = false -> blen (wr_hdr st) = wr_hsize st -> wr_pay st = Some (sz, got) ->
    x <> [] -> blen got + blen x = sz ->
    wr_feed client st x = wr_payload_done client (with_pay st sz (got ++ x)).
  Proof.
    induction x as [|b t IH]; intros st sz got He Hh Hp Hx Hl; [contradiction|].
    cbn [WsModel.wr_feed]. rewrite blen_cons in Hl.
    rewrite (wr_byte_pay client st sz got b He Hh Hp).
    destruct t as [|b' t'].
    - change (blen []) with 0 in Hl.
      assert (E2 : (blen got + 1 =? sz) = true) by lia. rewrite E2.
      cbn [WsModel.wr_feed]. unfold bytes, byte in *.
      destruct (wr_payload_done client (with_pay st sz (got ++ [b]))). now rewrite app_nil_r.
    - assert (E2 : (blen got + 1 =? sz) = false) by (rewrite blen_cons in Hl; lia). rewrite E2.
      rewrite (IH _ sz (got ++ [b])); auto.
      + rewrite with_pay_pay, <- app_assoc. cbn [app]. destruct (wr_payload_done client _). reflexivity.
      + discriminate.
      + rewrite blen_app. change (blen [b]) with 1. lia.
  Qed.

  (* ==================================================================== the receive loop *)
  (* states of the loop: while a header is being read, a payload buffer that exists (earlier fragments of an
     unfinished message) is full; when the header is complete a payload is being received and is not yet full *)
  Definition pay_full (st : wrecv) : Prop :=
    match wr_pay st with Some (sz, got) => blen got = sz | None => True end.
  Definition wr_wf (st : wrecv) : Prop :=
    wr_err st = false ->
    (blen (wr_hdr st) < wr_hsize st /\ pay_full st) \/
    (blen (wr_hdr st) = wr_hsize st /\ exists sz got, wr_pay st = Some (sz, got) /\ blen got < sz).

  Lemma wr_execute_props st st' o :
    wr_execute Msg SR sfeed st = (st', o) ->
    wr_pay st' = None /\ wr_err st' = wr_err st /\ wr_hdr st' = wr_hdr st /\ wr_hsize st' = wr_hsize st.
  Proof.
    unfold wr_execute. destruct (wr_closed st).
    - intros H; inversion H; subst; cbn; auto.
    - destruct (wr_op st =? WS_BINARY).
      + destruct (sfeed (wr_slave st) _) as [s' o']. intros H; inversion H; subst; cbn; auto.
      + destruct (wr_op st =? WS_CLOSE); intros H; inversion H; subst; cbn; auto.
  Qed.

  Lemma wr_reset_wf st : pay_full st -> wr_wf (wr_reset_hdr SR st).
  Proof.
    intros Hp _. left. unfold wr_reset_hdr, pay_full in *. cbn [wr_pay wr_hdr wr_hsize]. split; [|exact Hp].
    change (blen []) with 0. lia.
  Qed.

  Lemma pay_full_none st : wr_pay st = None -> pay_full st.
  Proof. unfold pay_full. now intros ->. Qed.

  Lemma wr_init_payload_wf st size off st' o :
    blen (wr_hdr st) = wr_hsize st -> pay_full st ->
    wr_init_payload Msg SR sfeed st size off = (st', o) -> wr_wf st'.
  Proof.
    intros Hh Hfull. unfold wr_init_payload.
    destruct (size =? 0) eqn:Ez.
    - set (st1 := match wr_pay st with Some _ => st | None => _ end).
      assert (Hf1 : pay_full st1).
      { subst st1. unfold pay_full in *. destruct (wr_pay st) as [[sz got]|] eqn:Epay; [now rewrite Epay|exact I]. }
      destruct (WS_FIN <=? nth 0 (wr_hdr st) 0).
      + destruct (wr_execute Msg SR sfeed st1) as [st2 o2] eqn:Ee. intros H; inversion H; subst.
        apply wr_reset_wf. apply pay_full_none. apply wr_execute_props in Ee. tauto.
      + intros H; inversion H; subst. apply wr_reset_wf. exact Hf1.
    - unfold pay_full in Hfull.
      destruct (wr_pay st) as [[sz0 got0]|] eqn:Epay; intros H; injection H as <- _; intros _; right; cbn [wr_pay wr_hdr wr_hsize].
      + split; auto. exists (sz0 + size), got0. split; auto. lia.
      + split; auto. exists size, []. split; auto. change (blen []) with 0. lia.
  Qed.

  Lemma wr_header_done_wf client st st' o :
    blen (wr_hdr st) = wr_hsize st -> pay_full st ->
    wr_header_done client st = (st', o) -> wr_wf st'.
  Proof.
    intros Hh Hfull. unfold WsModel.wr_header_done.
    assert (Herr : forall (s : wrecv), wr_wf (wr_set_err SR s)) by (intros s E; cbn in E; discriminate).
    destruct (wr_hsize st =? 2) eqn:E2.
    - destruct (negb _); [intros H; inversion H; subst; apply Herr|].
      destruct (if client then _ else _); [intros H; inversion H; subst; apply Herr|].
      set (hs' := 2 + _ + _).
      destruct (hs' =? 2) eqn:Ehs.
      + apply wr_init_payload_wf; auto.
      + intros H; inversion H; subst. intros _. left. unfold wr_set_hsize, pay_full in *. cbn [wr_pay wr_hdr wr_hsize].
        split; [|exact Hfull].
        assert (2 < hs').
        { subst hs'. destruct (_ =? 126); [lia|]. destruct (_ =? 127); [lia|]. destruct (128 <=? _); [lia|]. cbn in Ehs. discriminate. }
        lia.
    - destruct (wr_hsize st =? 6); [apply wr_init_payload_wf; auto|].
      destruct ((wr_hsize st =? 4) || (wr_hsize st =? 8)); [apply wr_init_payload_wf; auto|].
      destruct ((wr_hsize st =? 10) || (wr_hsize st =? 14)).
      + destruct (9223372036854775808 <=? _); [intros H; inversion H; subst; apply Herr|].
        destruct (ws_max_payload <? _); [intros H; inversion H; subst; apply Herr|].
        apply wr_init_payload_wf; auto.
      + intros H; inversion H; subst; apply Herr.
  Qed.

  Lemma wr_payload_done_wf client st sz got st' o :
    wr_pay st = Some (sz, got) -> blen got = sz ->
    wr_payload_done client st = (st', o) -> wr_wf st'.
  Proof.
    intros Epay Hfull. unfold WsModel.wr_payload_done. rewrite Epay.
    set (st1 := if client then st else _).
    assert (Hp1 : pay_full st1).
    { subst st1. unfold pay_full. destruct client; [rewrite Epay; lia|]. cbn [wr_pay].
      rewrite blen_app, blen_ws_xor, <- blen_app, take_drop. lia. }
    destruct (wr_closed st1 || (WS_FIN <=? nth 0 (wr_hdr st) 0)).
    - destruct (wr_execute Msg SR sfeed st1) as [st2 o2] eqn:Ee. intros H; inversion H; subst.
      apply wr_reset_wf. apply pay_full_none. apply wr_execute_props in Ee. tauto.
    - intros H; inversion H; subst. apply wr_reset_wf. exact Hp1.
  Qed.

  Definition in_spec client (st : wrecv) (maxb : N) (scr : list N) (pipe : bytes) (outs : list Msg)
             (st' : wrecv) (outs' : list Msg) (pipe' : bytes) : Prop :=
    wr_wf st' /\ exists x o, pipe = x ++ pipe' /\ outs' = outs ++ o /\ wr_feed client st x = (st', o) /\
      (wr_err st = false -> 1 <= maxb -> 1 <= io_k scr -> pipe <> [] -> x <> []).

  Lemma wr_in_turn client scr st maxb pipe outs st' outs' pipe' :
    (forall st2 maxb2 pipe2 outs2, wr_wf st2 ->
        match scr with [] => (st2, outs2, pipe2) | _ :: scr' => wr_in client scr' st2 maxb2 pipe2 outs2 end = (st', outs', pipe') ->
        wr_wf st' /\ exists x o, pipe2 = x ++ pipe' /\ outs' = outs2 ++ o /\ wr_feed client st2 x = (st', o)) ->
    wr_wf st -> wr_in client scr st maxb pipe outs = (st', outs', pipe') ->
    in_spec client st maxb scr pipe outs st' outs' pipe'.
  Proof.
    intros Hrec Hwf H. unfold in_spec.
    assert (Hunf : wr_in client scr st maxb pipe outs =
      if (maxb =? 0) || wr_err st then (st, outs, pipe) else
      if blen (wr_hdr st) =? wr_hsize st then
        match wr_pay st with
        | None => (wr_set_err SR st, outs, pipe)
        | Some (sz, got) =>
            let '(x, pipe', _) := io_read (N.min maxb (sz - blen got)) scr pipe in
            if 0 <? blen x then
              let st1 := mkWR (wr_hdr st) (wr_hsize st) (Some (sz, got ++ x)) (wr_first st) (wr_mask st) (wr_op st)
                              (wr_closed st) (wr_err st) (wr_slave st) in
              let '(st2, o) := if blen got + blen x =? sz then wr_payload_done client st1 else (st1, []) in
              match scr with [] => (st2, outs ++ o, pipe') | _ :: scr' => wr_in client scr' st2 (maxb - blen x) pipe' (outs ++ o) end
            else (st, outs, pipe')
        end
      else
        let '(x, pipe', _) := io_read (N.min maxb (wr_hsize st - blen (wr_hdr st))) scr pipe in
        if 0 <? blen x then
          let st1 := mkWR (wr_hdr st ++ x) (wr_hsize st) (wr_pay st) (wr_first st) (wr_mask st) (wr_op st)
                          (wr_closed st) (wr_err st) (wr_slave st) in
          let '(st2, o) := if blen (wr_hdr st) + blen x =? wr_hsize st then wr_header_done client st1 else (st1, []) in
          match scr with [] => (st2, outs ++ o, pipe') | _ :: scr' => wr_in client scr' st2 (maxb - blen x) pipe' (outs ++ o) end
        else (st, outs, pipe')) by (destruct scr; reflexivity).
    rewrite Hunf in H. clear Hunf.
    destruct ((maxb =? 0) || wr_err st) eqn:Estop.
    { inversion H; subst. split; auto. exists [], []. rewrite app_nil_r. repeat split; auto.
      intros He Hm. rewrite He in Estop. lia. }
    apply orb_false_iff in Estop. destruct Estop as [Emax Eerr].
    assert (Hpp : pipe <> [] -> 0 < blen pipe) by apply blen_pos.
    (* finishing a turn that read x and reached (st2, o) with wr_feed st x = (st2, o) *)
    assert (Hfin : forall x p1 st2 o maxb2, pipe = x ++ p1 -> x <> [] -> wr_wf st2 -> wr_feed client st x = (st2, o) ->
               match scr with [] => (st2, outs ++ o, p1) | _ :: scr' => wr_in client scr' st2 maxb2 p1 (outs ++ o) end = (st', outs', pipe') ->
               wr_wf st' /\ exists x0 o0, pipe = x0 ++ pipe' /\ outs' = outs ++ o0 /\ wr_feed client st x0 = (st', o0) /\
                 (wr_err st = false -> 1 <= maxb -> 1 <= io_k scr -> pipe <> [] -> x0 <> [])).
    { intros x p1 st2 o maxb2 Hp Hxne Hwf2 Hf Hk.
      apply Hrec in Hk; auto. destruct Hk as (Hwf' & y & o2 & Hp2 & Ho2 & Hf2).
      split; auto. exists (x ++ y), (o ++ o2). repeat split.
      - rewrite Hp, Hp2. now rewrite app_assoc.
      - rewrite Ho2. now rewrite app_assoc.
      - rewrite wr_feed_app, Hf, Hf2. reflexivity.
      - intros _ _ _ _ E. apply app_eq_nil in E. destruct E; contradiction. }
    assert (Hnone : forall x p1, pipe = x ++ p1 -> blen x = 0 ->
               blen x = N.min (N.min maxb (if blen (wr_hdr st) =? wr_hsize st then match wr_pay st with Some (sz, got) => sz - blen got | None => 0 end else wr_hsize st - blen (wr_hdr st))) (N.min (io_k scr) (blen pipe)) ->
               (0 < (if blen (wr_hdr st) =? wr_hsize st then match wr_pay st with Some (sz, got) => sz - blen got | None => 0 end else wr_hsize st - blen (wr_hdr st))) ->
               (st, outs, p1) = (st', outs', pipe') ->
               wr_wf st' /\ exists x0 o0, pipe = x0 ++ pipe' /\ outs' = outs ++ o0 /\ wr_feed client st x0 = (st', o0) /\
                 (wr_err st = false -> 1 <= maxb -> 1 <= io_k scr -> pipe <> [] -> x0 <> [])).
    { intros x p1 Hp Hx0 Hb Hpos Hk. inversion Hk; subst. assert (x = []) by (apply blen_0; exact Hx0). subst x.
      split; auto. exists [], []. rewrite app_nil_r. repeat split; auto.
      intros _ H1 H2 H3. specialize (Hpp H3). change (blen []) with 0 in Hb. lia. }
    destruct (Hwf Eerr) as [[Hlt Hfull]|[Heq (sz & got & Epay & Hgot)]].
    - (* header phase *)
      assert (Ehdr : (blen (wr_hdr st) =? wr_hsize st) = false) by lia. rewrite Ehdr in *.
      destruct (io_read (N.min maxb (wr_hsize st - blen (wr_hdr st))) scr pipe) as [[x p1] s1] eqn:Er.
      apply io_read_spec in Er. destruct Er as (Hp & Hb & _).
      destruct (0 <? blen x) eqn:Ex; [|apply (Hnone x p1); auto; lia].
      fold (with_hdr st (wr_hdr st ++ x)) in H. cbv zeta in H.
      assert (Hxne : x <> []) by (intros ->; cbn in Ex; discriminate).
      destruct (blen (wr_hdr st) + blen x =? wr_hsize st) eqn:Efull.
      + destruct (wr_header_done client (with_hdr st (wr_hdr st ++ x))) as [st2 o] eqn:Ehd.
        apply (Hfin x p1 st2 o (maxb - blen x) Hp Hxne); [| |exact H].
        * eapply wr_header_done_wf; [| |exact Ehd].
          -- unfold with_hdr. cbn [wr_hdr wr_hsize]. rewrite blen_app. lia.
          -- exact Hfull.
        * rewrite (feed_hdr_exact client x st Eerr Hxne ltac:(lia)). exact Ehd.
      + apply (Hfin x p1 (with_hdr st (wr_hdr st ++ x)) [] (maxb - blen x) Hp Hxne); [| |exact H].
        * intros _. left. unfold with_hdr. cbn [wr_hdr wr_hsize]. rewrite blen_app. split; [lia|exact Hfull].
        * apply feed_hdr_partial; auto. lia.
    - (* payload phase *)
      assert (Ehdr : (blen (wr_hdr st) =? wr_hsize st) = true) by lia. rewrite Ehdr, Epay in *.
      destruct (io_read (N.min maxb (sz - blen got)) scr pipe) as [[x p1] s1] eqn:Er.
      apply io_read_spec in Er. destruct Er as (Hp & Hb & _).
      destruct (0 <? blen x) eqn:Ex; [|apply (Hnone x p1); auto; lia].
      cbv zeta in H.
      set (st1 := mkWR _ _ (Some (sz, got ++ x)) _ _ _ _ _ _) in H.
      assert (Est1 : st1 = with_pay st sz (got ++ x)) by reflexivity. clearbody st1. subst st1.
      assert (Hxne : x <> []) by (intros ->; cbn in Ex; discriminate).
      destruct (blen got + blen x =? sz) eqn:Efull.
      + destruct (wr_payload_done client (with_pay st sz (got ++ x))) as [st2 o] eqn:Epd.
        apply (Hfin x p1 st2 o (maxb - blen x) Hp Hxne); [| |exact H].
        * eapply wr_payload_done_wf; [| |exact Epd]; [reflexivity|rewrite blen_app; lia].
        * rewrite (feed_pay_exact client x st sz got Eerr Heq Epay Hxne ltac:(lia)). exact Epd.
      + apply (Hfin x p1 (with_pay st sz (got ++ x)) [] (maxb - blen x) Hp Hxne); [| |exact H].
        * intros _. right. unfold with_pay. cbn [wr_pay wr_hdr wr_hsize]. split; auto.
          exists sz, (got ++ x). split; auto. rewrite blen_app. lia.
        * apply feed_pay_partial; auto. lia.
  Qed.

  Lemma wr_in_spec client scr : forall st maxb pipe outs st' outs' pipe',
    wr_wf st -> wr_in client scr st maxb pipe outs = (st', outs', pipe') ->
    in_spec client st maxb scr pipe outs st' outs' pipe'.
  Proof.
    induction scr as [|k scr IH]; intros st maxb pipe outs st' outs' pipe' Hwf H.
    - apply wr_in_turn; auto. intros st2 maxb2 pipe2 outs2 Hwf2 E. inversion E; subst.
      split; auto. exists [], []. rewrite !app_nil_r. auto.
    - apply wr_in_turn; auto. intros st2 maxb2 pipe2 outs2 Hwf2 E.
      destruct (IH _ _ _ _ _ _ _ Hwf2 E) as (Hwf' & x & o & Hp & Ho & Hf & _). split; auto. exists x, o. auto.
  Qed.

  Lemma wr_do_input_spec client st maxb scr pipe st' o pipe' :
    wr_wf st -> wr_do_input client st maxb scr pipe = (st', o, pipe') ->
    wr_wf st' /\ exists x, pipe = x ++ pipe' /\ wr_feed client st x = (st', o) /\
      (wr_err st = false -> 1 <= maxb -> 1 <= io_k scr -> pipe <> [] -> x <> []).
  Proof.
    unfold WsModel.wr_do_input. intros Hwf H.
    destruct (wr_in_spec client scr _ _ _ _ _ _ _ Hwf H) as (Hwf' & x & o' & Hp & Ho & Hf & Hx).
    cbn in Ho. subst o'. eauto.
  Qed.

  (* ==================================================================== sender *)
  Variable client : bool.          (* the SENDER is the client (masks) or the server *)

  (* frames of the queued Messages, drawing keys from the key list (client only) *)
  Fixpoint ws_wire_from (keys : list bytes) (ms : list Msg) : bytes :=
    match ms with
    | [] => []
    | m :: t =>
        let key := match keys with k :: _ => k | [] => [0; 0; 0; 0] end in
        let keys' := if client then match keys with _ :: r => r | [] => [] end else keys in
        ws_frame client key WS_BINARY (sflat m) ++ ws_wire_from keys' t
    end.
  Fixpoint ws_keys_after (keys : list bytes) (ms : list Msg) : list bytes :=
    match ms with
    | [] => keys
    | _ :: t => ws_keys_after (if client then match keys with _ :: r => r | [] => [] end else keys) t
    end.

  Lemma ws_wire_from_app keys a b :
    ws_wire_from keys (a ++ b) = ws_wire_from keys a ++ ws_wire_from (ws_keys_after keys a) b.
  Proof. revert keys. induction a as [|m a IH]; intros keys; cbn; auto. now rewrite IH, app_assoc. Qed.

  Lemma ws_keys_after_app keys a b : ws_keys_after keys (a ++ b) = ws_keys_after (ws_keys_after keys a) b.
  Proof. revert keys. induction a as [|m a IH]; intros keys; cbn; auto. Qed.

  Variable keys0 : list bytes.

  Definition ws_rem (st : wsend) : bytes := drop (ws_off st) (ws_buf st) ++ ws_wire_from (ws_keys st) (ws_q st).
  Definition ws_SI (st : wsend) (ms : list Msg) : Prop :=
    ws_off st <= blen (ws_buf st) /\
    exists dn, ms = dn ++ ws_q st /\ ws_keys st = ws_keys_after keys0 dn.

  Lemma ws_frame_nonempty c key op d : ws_frame c key op d <> [].
  Proof. unfold ws_frame. discriminate. Qed.

  Lemma ws_out_spec ms fuel : forall st maxb scr acc st' acc',
    ws_SI st ms -> ws_out Msg sflat client fuel st maxb scr acc = (st', acc') ->
    ws_SI st' ms /\ exists x, acc' = acc ++ x /\ ws_rem st = x ++ ws_rem st'.
  Proof.
    induction fuel as [|fuel IH]; intros st maxb scr acc st' acc' HSI H; cbn [ws_out] in H.
    { inversion H; subst. split; auto. exists []. now rewrite app_nil_r. }
    destruct (maxb =? 0); [inversion H; subst; split; auto; exists []; now rewrite app_nil_r|].
    destruct HSI as [Hoff (dn & Hms & Hk)].
    destruct (ws_off st <? blen (ws_buf st)) eqn:Elt.
    - destruct (io_write (take (N.min (blen (ws_buf st) - ws_off st) maxb) (drop (ws_off st) (ws_buf st))) scr) as [x scr'] eqn:Ew.
      apply io_write_take in Ew. destruct Ew as (Hd & Hbx & _). rewrite blen_drop in Hbx.
      destruct (0 <? blen x) eqn:Ex.
      + apply IH in H.
        * destruct H as (HSI' & y & Hacc & Hrem). split; auto. exists (x ++ y).
          split; [now rewrite Hacc, app_assoc|]. rewrite <- app_assoc, <- Hrem.
          unfold ws_rem. cbn [ws_off ws_buf ws_keys ws_q]. rewrite Hd at 1. rewrite drop_drop, <- app_assoc. reflexivity.
        * split; [cbn [ws_off ws_buf]; lia|]. exists dn. auto.
      + inversion H; subst. split; [split; [auto|exists dn; auto]|]. exists []. now rewrite app_nil_r.
    - destruct (ws_q st) as [|m q] eqn:Eq.
      + inversion H; subst. split; [split; [auto|exists dn; rewrite Eq; auto]|]. exists []. now rewrite app_nil_r.
      + apply IH in H.
        * destruct H as (HSI' & y & Hacc & Hrem). split; auto. exists y. split; auto. rewrite <- Hrem.
          unfold ws_rem. cbn [ws_off ws_buf ws_keys ws_q]. rewrite Eq. cbn [ws_wire_from].
          rewrite drop_all by lia. rewrite drop_0. reflexivity.
        * split; [cbn [ws_off ws_buf]; lia|]. exists (dn ++ [m]). cbn [ws_q ws_keys]. split.
          -- rewrite Hms, <- app_assoc. reflexivity.
          -- rewrite ws_keys_after_app, <- Hk. reflexivity.
  Qed.

  Lemma ws_do_output_spec ms st maxb scr st' x :
    ws_SI st ms -> ws_do_output Msg sflat client st maxb scr = (st', x) ->
    ws_SI st' ms /\ ws_rem st = x ++ ws_rem st'.
  Proof.
    unfold ws_do_output. intros HSI H.
    destruct (ws_out_spec ms _ _ _ _ _ _ _ HSI H) as (HSI' & y & Hy & Hrem). cbn in Hy. subst y. auto.
  Qed.

  (* a productive call writes at least one byte while bytes remain *)
  Lemma ws_out_progress ms fuel : forall st maxb scr acc st' acc',
    ws_SI st ms -> (length (ws_q st) < fuel)%nat -> ws_rem st <> [] -> 1 <= maxb -> 1 <= io_k scr ->
    ws_out Msg sflat client fuel st maxb scr acc = (st', acc') -> (length acc < length acc')%nat.
  Proof.
    induction fuel as [|fuel IH]; intros st maxb scr acc st' acc' HSI Hf Hrem Hm Hk H; [lia|].
    cbn [ws_out] in H.
    assert (E0 : (maxb =? 0) = false) by lia. rewrite E0 in H.
    destruct HSI as [Hoff (dn & Hms & Hkeys)].
    destruct (ws_off st <? blen (ws_buf st)) eqn:Elt.
    - destruct (io_write (take (N.min (blen (ws_buf st) - ws_off st) maxb) (drop (ws_off st) (ws_buf st))) scr) as [x scr'] eqn:Ew.
      apply io_write_take in Ew. destruct Ew as (Hd & Hbx & _). rewrite blen_drop in Hbx.
      assert (Hx : 0 < blen x) by lia. assert (Ex : (0 <? blen x) = true) by lia. rewrite Ex in H.
      apply (ws_out_spec ms) in H.
      + destruct H as (_ & y & -> & _). rewrite !app_length. unfold blen in Hx. lia.
      + split; [cbn [ws_off ws_buf]; lia|]. exists dn. auto.
    - destruct (ws_q st) as [|m q] eqn:Eq.
      + exfalso. apply Hrem. unfold ws_rem. rewrite Eq. cbn [ws_wire_from]. rewrite drop_all by lia. reflexivity.
      + apply IH in H; auto.
        * split; [cbn [ws_off ws_buf]; lia|]. exists (dn ++ [m]). cbn [ws_q ws_keys]. split.
          -- rewrite Hms, <- app_assoc. reflexivity.
          -- rewrite ws_keys_after_app, <- Hkeys. reflexivity.
        * cbn [ws_q]. cbn in Hf. lia.
        * unfold ws_rem. cbn [ws_off ws_buf]. rewrite drop_0. intros E. apply app_eq_nil in E. destruct E as [E _].
          exact (ws_frame_nonempty _ _ _ _ E).
  Qed.

  Lemma ws_do_output_progress ms st maxb scr st' x :
    ws_SI st ms -> ws_rem st <> [] -> 1 <= maxb -> 1 <= io_k scr ->
    ws_do_output Msg sflat client st maxb scr = (st', x) -> x <> [].
  Proof.
    unfold ws_do_output. intros HSI Hrem Hm Hk H.
    eapply ws_out_progress in H; eauto; [|lia]. intros ->. cbn in H. lia.
  Qed.

  (* ==================================================================== parsing a frame the sender built *)
  Definition ws_idle (mask : bytes) (sl : SR) : wrecv := mkWR [] 2 None 0 mask 0 false false sl.

  Lemma rdbe_be16 n : n < 65536 -> rdbe (be16 n) 0 = n.
  Proof.
    intros H. unfold be16. cbn [rdbe].
    pose proof (N.div_mod n 256 ltac:(lia)) as Hd.
    assert (n / 256 < 256) by (apply N.div_lt_upper_bound; lia).
    rewrite (N.mod_small (n / 256) 256) by lia. lia.
  Qed.

  Lemma rdbe_be32 n acc : n < two32 -> rdbe (be32 n) acc = acc * two32 + n.
  Proof.
    intros H. unfold be32. cbn [rdbe].
    assert (E : n mod 256 + 256 * ((n / 256) mod 256) + 65536 * ((n / 65536) mod 256) + 16777216 * ((n / 16777216) mod 256) = n).
    { pose proof (rd32_le32 n [] H) as Hr. unfold le32, rd32, u32 in Hr. cbn [app] in Hr.
      rewrite N.mod_small in Hr; [exact Hr|].
      assert (Hm : forall a, a mod 256 < 256) by (intros; apply N.mod_lt; lia).
      pose proof (Hm n). pose proof (Hm (n / 256)). pose proof (Hm (n / 65536)). pose proof (Hm (n / 16777216)).
      unfold two32. lia. }
    unfold two32 in *. lia.
  Qed.

  Lemma rdbe_be64 n : n < two32 -> rdbe (be64 n) 0 = n.
  Proof.
    intros H. unfold be64.
    assert (E1 : n / two32 = 0) by (apply N.div_small; exact H).
    assert (E2 : n mod two32 = n) by (apply N.mod_small; exact H).
    rewrite E1, E2.
    assert (rdbe (be32 0 ++ be32 n) 0 = rdbe (be32 n) (rdbe (be32 0) 0)).
    { generalize (be32 n) as t. generalize 0 as a. induction (be32 0) as [|x l IH]; intros a t; cbn [rdbe app]; auto. }
    rewrite H0. rewrite rdbe_be32 by exact H. rewrite (rdbe_be32 0 0) by (unfold two32; lia). lia.
  Qed.

  Lemma ws_parse_frame key data (sl sl' : SR) (outs : list Msg) m0 :
    data <> [] -> blen data <= ws_max_payload -> (client = true -> length key = 4%nat) ->
    sfeed sl data = (sl', outs) ->
    wr_feed (negb client) (ws_idle m0 sl) (ws_frame client key WS_BINARY data)
    = (ws_idle (if client then key else [0; 0; 0; 0]) sl', outs).
  Proof.
    intros Hne Hmax Hkey Hs.
    assert (Hn1 : 1 <= blen data) by (pose proof (blen_pos _ Hne); lia).
    assert (Hmp : ws_max_payload = 10485760) by reflexivity.
    set (n := blen data) in *.
    set (mb := if client then 128 else 0).
    unfold ws_frame. fold n. fold mb.
    change (WS_FIN + WS_BINARY) with 130.
    (* the length class *)
    set (code := if 65535 <? n then 127 else if 125 <? n then 126 else n).
    set (ext := if 65535 <? n then be64 n else if 125 <? n then be16 n else []).
    assert (Elen : (if 65535 <? n then [mb + 127] ++ be64 n else if 125 <? n then [mb + 126] ++ be16 n else [mb + n]) = [mb + code] ++ ext).
    { subst code ext. destruct (65535 <? n); [reflexivity|]. destruct (125 <? n); reflexivity. }
    rewrite Elen. clear Elen.
    assert (Hcode : code < 128) by (subst code; destruct (65535 <? n) eqn:E1; [lia|destruct (125 <? n) eqn:E2; lia]).
    assert (Hext : blen ext = if code =? 126 then 2 else if code =? 127 then 8 else 0).
    { subst code ext. destruct (65535 <? n) eqn:E1; [reflexivity|]. destruct (125 <? n) eqn:E2; [reflexivity|].
      assert ((n =? 126) = false) by lia. assert ((n =? 127) = false) by lia. rewrite H, H0. reflexivity. }
    (* first two header bytes *)
    assert (Hmbit : (128 <=? mb + code) = client) by (subst mb; destruct client; lia).
    assert (Hl7 : (mb + code) mod 128 = code).
    { subst mb. destruct client; [|rewrite N.add_0_l; apply N.mod_small; exact Hcode].
      rewrite N.add_mod by lia. rewrite N.mod_same by lia. rewrite N.add_0_l, N.mod_mod by lia. apply N.mod_small; exact Hcode. }
    set (hs' := 2 + (if code =? 126 then 2 else if code =? 127 then 8 else 0) + (if client then 4 else 0)).
    assert (Hstep1 : forall rest, wr_feed (negb client) (ws_idle m0 sl) (130 :: (mb + code) :: rest) =
               let '(st1, o1) := wr_header_done (negb client) (mkWR [130; mb + code] 2 None 0 m0 0 false false sl) in
               let '(st2, o2) := wr_feed (negb client) st1 rest in (st2, o1 ++ o2)).
    { intros rest. change (130 :: (mb + code) :: rest) with ([130; mb + code] ++ rest). rewrite wr_feed_app.
      rewrite (feed_hdr_exact (negb client) [130; mb + code] (ws_idle m0 sl) eq_refl ltac:(discriminate) eq_refl). reflexivity. }
    assert (Hhd2 : wr_header_done (negb client) (mkWR [130; mb + code] 2 None 0 m0 0 false false sl) =
                   if hs' =? 2 then (mkWR [130; mb + code] 2 (Some (n, [])) 0 [0; 0; 0; 0] 2 false false sl, [])
                   else (mkWR [130; mb + code] hs' None 0 m0 0 false false sl, [])).
    { unfold WsModel.wr_header_done. cbn [wr_hdr wr_hsize nth]. change (2 =? 2) with true. cbv iota.
      change ((130 / 16) mod 8 =? 0) with true. cbn [negb]. rewrite Hmbit, Hl7.
      assert (Erole : (if negb client then client else negb client) = false) by (destruct client; reflexivity).
      rewrite Erole. fold hs'.
      destruct (hs' =? 2) eqn:Ehs; [|reflexivity].
      (* no extension, no mask: the payload size is the 7-bit code itself *)
      assert (Hc : code = n).
      { subst hs' code. destruct (65535 <? n); [cbn in Ehs; destruct client; discriminate|].
        destruct (125 <? n); [cbn in Ehs; destruct client; discriminate|reflexivity]. }
      rewrite Hc. unfold wr_init_payload. cbn [wr_hdr wr_pay nth].
      assert (E0 : (n =? 0) = false) by lia. rewrite E0. reflexivity. }
    cbn [app]. rewrite Hstep1, Hhd2. clear Hstep1 Hhd2.
    (* the payload phase, from a state whose header is complete *)
    assert (Hpay : forall hdr hsz mask pdata, blen hdr = hsz -> nth 0 hdr 0 = 130 ->
               (if client then ws_xor mask 0 pdata = data else pdata = data) -> blen pdata = n ->
               wr_feed (negb client) (mkWR hdr hsz (Some (n, [])) 0 mask 2 false false sl) pdata = (ws_idle mask sl', outs)).
    { intros hdr hsz mask pdata Hh H0 Hpd Hpl.
      assert (Hpne : pdata <> []) by (intros ->; change (blen []) with 0 in Hpl; lia).
      assert (Hsum : blen (@nil N) + blen pdata = n) by (change (blen []) with 0; lia).
      rewrite (feed_pay_exact (negb client) pdata (mkWR hdr hsz (Some (n, [])) 0 mask 2 false false sl) n [] eq_refl Hh eq_refl Hpne Hsum).
      unfold WsModel.wr_payload_done, with_pay. cbn [wr_pay wr_hdr wr_hsize wr_first wr_mask wr_op wr_closed wr_err wr_slave app].
      rewrite H0. change (WS_FIN <=? 130) with true.
      destruct client; cbn [negb].
      - cbn [wr_closed orb]. unfold wr_execute. cbn [wr_pay wr_closed wr_op wr_slave wr_hdr wr_hsize wr_mask wr_err].
        change (2 =? WS_BINARY) with true. cbv iota. cbn [take drop firstn skipn N.to_nat app].
        rewrite Hpd, Hs. reflexivity.
      - cbn [wr_closed orb]. unfold wr_execute. cbn [wr_pay wr_closed wr_op wr_slave wr_hdr wr_hsize wr_mask wr_err].
        change (2 =? WS_BINARY) with true. cbv iota. rewrite Hpd, Hs. reflexivity. }
    destruct (hs' =? 2) eqn:Ehs.
    - (* server -> client, short payload: straight to the payload *)
      assert (Hcl : client = false) by (subst hs'; destruct client; auto; destruct (code =? 126); [discriminate|destruct (code =? 127); discriminate]).
      assert (Hext0 : ext = []).
      { apply blen_0. rewrite Hext. subst hs'. rewrite Hcl in Ehs. destruct (code =? 126); [discriminate|]. destruct (code =? 127); [discriminate|reflexivity]. }
      rewrite Hext0, Hcl in *. cbn [app].
      rewrite (Hpay [130; mb + code] 2 [0; 0; 0; 0] data eq_refl eq_refl eq_refl eq_refl). reflexivity.
    - (* more header bytes: extended length and / or masking key *)
      set (hrest := ext ++ (if client then ws_key_wire key else [])).
      set (pdata := if client then ws_xor key 0 data else data).
      assert (Esplit : ext ++ (if client then ws_key_wire key ++ ws_xor key 0 data else data) = hrest ++ pdata).
      { subst hrest pdata. destruct client; [now rewrite <- app_assoc|now rewrite app_nil_r]. }
      rewrite Esplit. clear Esplit.
      assert (Hklen : client = true -> blen (ws_key_wire key) = 4) by (intros Hc; unfold blen, ws_key_wire; rewrite (Hkey Hc); reflexivity).
      assert (Hrl : 2 + blen hrest = hs').
      { subst hrest hs'. rewrite blen_app, Hext. destruct client; [rewrite (Hklen eq_refl)|change (blen []) with 0]; lia. }
      assert (Hrne : hrest <> []).
      { intros E. rewrite E in Hrl. change (blen []) with 0 in Hrl. lia. }
      rewrite wr_feed_app.
      rewrite (feed_hdr_exact (negb client) hrest (mkWR [130; mb + code] hs' None 0 m0 0 false false sl) eq_refl Hrne Hrl).
      unfold with_hdr. cbn [wr_hdr wr_hsize wr_pay wr_first wr_mask wr_op wr_closed wr_err wr_slave].
      (* the second header-complete step: payload size and mask *)
      set (fullh := [130; mb + code] ++ hrest).
      assert (Hf0 : nth 0 fullh 0 = 130) by reflexivity.
      assert (Hf1 : nth 1 fullh 0 = mb + code) by reflexivity.
      assert (Hfd : drop 2 fullh = hrest) by reflexivity.
      assert (Hfl : blen fullh = hs') by (subst fullh; rewrite blen_app; exact Hrl).
      clearbody fullh.
      assert (Hhd : wr_header_done (negb client) (mkWR fullh hs' None 0 m0 0 false false sl) =
                    (mkWR fullh hs' (Some (n, [])) 0 (if client then key else [0; 0; 0; 0]) 2 false false sl, [])).
      { unfold WsModel.wr_header_done. cbn [wr_hdr wr_hsize]. rewrite Hf0, Hf1, Ehs, Hmbit, Hl7.
        assert (Hinit : forall off, (client = true -> take 4 (drop off fullh) = key) ->
                   wr_init_payload Msg SR sfeed (mkWR fullh hs' None 0 m0 0 false false sl) n (if client then Some off else None)
                   = (mkWR fullh hs' (Some (n, [])) 0 (if client then key else [0; 0; 0; 0]) 2 false false sl, [])).
        { intros off Hoff. unfold wr_init_payload. cbn [wr_hdr wr_pay wr_hsize wr_first wr_mask wr_op wr_closed wr_err wr_slave].
          rewrite Hf0. assert (E0 : (n =? 0) = false) by lia. rewrite E0.
          destruct client; [rewrite (Hoff eq_refl)|]; reflexivity. }
        assert (Hkeyat : forall e, client = true -> hrest = e ++ ws_key_wire key -> take 4 (drop (2 + blen e) fullh) = key).
        { intros e Hc He. rewrite <- drop_drop, Hfd, He, drop_app_exact. pose proof (Hklen Hc) as Hk4.
          unfold ws_key_wire in *. apply take_all. lia. }
        (* which length class *)
        subst hs' hrest code ext.
        destruct (65535 <? n) eqn:E1.
        - (* 64-bit length *)
          change (127 =? 126) with false in *. change (127 =? 127) with true in *. cbv iota in *.
          assert (Hsz : rdbe (take 8 (drop 2 fullh)) 0 = n).
          { rewrite Hfd. change 8 with (blen (be64 n)). rewrite take_app_exact. apply rdbe_be64. unfold two32. lia. }
          assert (Ea : (9223372036854775808 <=? n) = false) by lia. assert (Eb : (ws_max_payload <? n) = false) by lia.
          destruct client; cbn [negb].
          + change (2 + 8 + 4 =? 2) with false. change (2 + 8 + 4 =? 6) with false.
            change ((2 + 8 + 4 =? 4) || (2 + 8 + 4 =? 8)) with false. change ((2 + 8 + 4 =? 10) || (2 + 8 + 4 =? 14)) with true. cbv iota.
            rewrite Hsz, Ea, Eb. unfold u32. rewrite N.mod_small by (unfold two32; lia).
            apply (Hinit 10). intros Hc. exact (Hkeyat (be64 n) Hc eq_refl).
          + change (2 + 8 + 0 =? 2) with false. change (2 + 8 + 0 =? 6) with false.
            change ((2 + 8 + 0 =? 4) || (2 + 8 + 0 =? 8)) with false. change ((2 + 8 + 0 =? 10) || (2 + 8 + 0 =? 14)) with true. cbv iota.
            rewrite Hsz, Ea, Eb. unfold u32. rewrite N.mod_small by (unfold two32; lia).
            apply (Hinit 0). discriminate.
        - destruct (125 <? n) eqn:E2.
          + (* 16-bit length *)
            change (126 =? 126) with true in *. cbv iota in *.
            assert (Hsz : rdbe (take 2 (drop 2 fullh)) 0 = n).
            { rewrite Hfd. change 2 with (blen (be16 n)). rewrite take_app_exact. apply rdbe_be16. lia. }
            destruct client; cbn [negb].
            * change (2 + 2 + 4 =? 2) with false. change (2 + 2 + 4 =? 6) with false.
              change ((2 + 2 + 4 =? 4) || (2 + 2 + 4 =? 8)) with true. cbv iota. rewrite Hsz.
              apply (Hinit 4). intros Hc. exact (Hkeyat (be16 n) Hc eq_refl).
            * change (2 + 2 + 0 =? 2) with false. change (2 + 2 + 0 =? 6) with false.
              change ((2 + 2 + 0 =? 4) || (2 + 2 + 0 =? 8)) with true. cbv iota. rewrite Hsz.
              apply (Hinit 0). discriminate.
          + (* 7-bit length with a mask (the unmasked 7-bit case has hs' = 2) *)
            assert (En126 : (n =? 126) = false) by lia. assert (En127 : (n =? 127) = false) by lia.
            rewrite En126, En127 in *. cbv iota in *.
            destruct client; cbn [negb]; [|cbn in Ehs; discriminate].
            change (2 + 0 + 4 =? 2) with false. change (2 + 0 + 4 =? 6) with true. cbv iota.
            apply (Hinit 2). intros Hc. exact (Hkeyat [] Hc eq_refl). }
      rewrite Hhd. clear Hhd.
      rewrite (Hpay fullh hs' (if client then key else [0; 0; 0; 0]) pdata).
      + reflexivity.
      + exact Hfl.
      + exact Hf0.
      + subst pdata. destruct client; [apply ws_xor_involutive|reflexivity].
      + subst pdata. destruct client; [apply blen_ws_xor|reflexivity].
  Qed.

  (* ==================================================================== end to end *)
  (* premises about the slave gateways: what the sender's slave writes for a Message of the domain is
     non-empty, within the 10 MB frame limit, and is turned back into exactly that Message by the
     receiver's slave, whose state stays in the invariant [sinv] (for MessageIOGateway slaves this is
     FrameProofs.f_feed_frame); the masking keys are four bytes long *)
  Variable wfm : Msg -> Prop.
  Variable sinv : SR -> Prop.
  Variable sl0 : SR.
  Hypothesis sinv0 : sinv sl0.
  Hypothesis slave_ok : forall sl m, sinv sl -> wfm m ->
    sflat m <> [] /\ blen (sflat m) <= ws_max_payload /\
    exists sl', sfeed sl (sflat m) = (sl', [m]) /\ sinv sl'.
  Hypothesis keys_ok : Forall (fun k => length k = 4%nat) keys0.

  Lemma keys_after_ok ms : forall keys, Forall (fun k => length k = 4%nat) keys ->
    Forall (fun k => length k = 4%nat) (ws_keys_after keys ms).
  Proof.
    induction ms as [|m t IH]; intros keys Hk; cbn; auto.
    apply IH. destruct client; auto. destruct keys; auto. inversion Hk; auto.
  Qed.

  Lemma ws_feed_wire ms : Forall wfm ms -> forall keys sl m0,
    Forall (fun k => length k = 4%nat) keys -> sinv sl ->
    exists m1 sl', wr_feed (negb client) (ws_idle m0 sl) (ws_wire_from keys ms) = (ws_idle m1 sl', ms) /\ sinv sl'.
  Proof.
    induction 1 as [|m t Hm _ IH]; intros keys sl m0 Hk Hs; cbn [ws_wire_from]; cbv zeta.
    - exists m0, sl. auto.
    - destruct (slave_ok sl m Hs Hm) as (Hne & Hmax & sl1 & Hf & Hs1).
      set (key := match keys with k :: _ => k | [] => [0; 0; 0; 0] end) in *.
      assert (Hkl : client = true -> length key = 4%nat).
      { intros _. subst key. destruct keys; [reflexivity|]. inversion Hk; auto. }
      set (keys' := if client then match keys with _ :: r => r | [] => [] end else keys) in *.
      assert (Hk' : Forall (fun k => length k = 4%nat) keys').
      { subst keys'. destruct client; auto. destruct keys; auto. inversion Hk; auto. }
      destruct (IH keys' sl1 (if client then key else [0; 0; 0; 0]) Hk' Hs1) as (m1 & sl2 & Hf2 & Hs2).
      exists m1, sl2. split; auto.
      change (wr_feed (negb client) (ws_idle m0 sl) (ws_frame client key WS_BINARY (sflat m) ++ ws_wire_from keys' t) = (ws_idle m1 sl2, m :: t)).
      rewrite wr_feed_app, (ws_parse_frame key (sflat m) sl sl1 [m] m0 Hne Hmax Hkl Hf), Hf2. reflexivity.
  Qed.

  Definition ws_wire (ms : list Msg) : bytes := ws_wire_from keys0 ms.
  Definition ws_RRel (r : wrecv) (c : bytes) (o : list Msg) : Prop :=
    wr_wf r /\ wr_feed (negb client) (wr_init sl0) c = (r, o).

  Definition ws_sys0 := @sys0 Msg Msg wsend wrecv (ws_init keys0) (wr_init sl0).
  Notation ws_run := (sys_run ws_queue (ws_do_output Msg sflat client) (wr_do_input (negb client))).

  Lemma ws_S_init : ws_SI (ws_init keys0) [] /\ ws_rem (ws_init keys0) = [].
  Proof. split; [|reflexivity]. split; [cbn; lia|]. exists []. auto. Qed.

  Lemma ws_S_queue s ms m :
    Forall wfm ms -> wfm m -> ws_SI s ms ->
    ws_SI (ws_queue s m) (ms ++ [m]) /\
    exists d, ws_rem (ws_queue s m) = ws_rem s ++ d /\ ws_wire (ms ++ [m]) = ws_wire ms ++ d.
  Proof.
    intros _ _ [Hoff (dn & Hms & Hk)]. split.
    - split; [exact Hoff|]. exists dn. cbn. split; [now rewrite Hms, app_assoc|exact Hk].
    - exists (ws_wire_from (ws_keys_after keys0 ms) [m]). split.
      + unfold ws_rem. cbn [ws_queue ws_off ws_buf ws_keys ws_q]. rewrite ws_wire_from_app, app_assoc.
        do 2 f_equal. rewrite Hms, ws_keys_after_app, Hk. reflexivity.
      + unfold ws_wire. now rewrite ws_wire_from_app.
  Qed.

  Lemma ws_S_out s ms maxb scr s' x :
    Forall wfm ms -> ws_SI s ms -> ws_do_output Msg sflat client s maxb scr = (s', x) ->
    ws_SI s' ms /\ ws_rem s = x ++ ws_rem s'.
  Proof. intros _. apply ws_do_output_spec. Qed.

  Lemma wr_init_wf : wr_wf (wr_init sl0).
  Proof. intros _. left. cbn. split; [lia|exact I]. Qed.

  Lemma ws_R_init : ws_RRel (wr_init sl0) [] [].
  Proof. split; [exact wr_init_wf|reflexivity]. Qed.

  Lemma ws_R_in (ms : list Msg) r c o maxb scr pipe (rest : bytes) r' o' pipe' :
    Forall wfm ms -> ws_wire ms = c ++ pipe ++ rest -> ws_RRel r c o ->
    wr_do_input (negb client) r maxb scr pipe = (r', o', pipe') ->
    exists x, pipe = x ++ pipe' /\ ws_RRel r' (c ++ x) (o ++ o').
  Proof.
    intros _ _ [Hwf Hc] H.
    destruct (wr_do_input_spec _ _ _ _ _ _ _ _ Hwf H) as (Hwf' & x & Hp & Hf & _).
    exists x. split; auto. split; auto. rewrite wr_feed_app, Hc, Hf. reflexivity.
  Qed.

  Lemma ws_full ms : Forall wfm ms ->
    exists m1 sl', wr_feed (negb client) (wr_init sl0) (ws_wire ms) = (ws_idle m1 sl', ms).
  Proof.
    intros Hwf. destruct (ws_feed_wire ms Hwf keys0 sl0 [0; 0; 0; 0] keys_ok sinv0) as (m1 & sl' & Hf & _).
    exists m1, sl'. exact Hf.
  Qed.

  Lemma ws_decode_prefix ms (r : wrecv) c o (rest : bytes) :
    Forall wfm ms -> ws_wire ms = c ++ rest -> ws_RRel r c o -> exists tl, ms = o ++ tl.
  Proof.
    intros Hwf Hw [_ Hc]. destruct (ws_full ms Hwf) as (m1 & sl' & Hall).
    rewrite Hw, wr_feed_app, Hc in Hall.
    destruct (wr_feed (negb client) r rest) as [r2 o2]. inversion Hall. eauto.
  Qed.

  Lemma ws_decode_complete ms (r : wrecv) o :
    Forall wfm ms -> ws_RRel r (ws_wire ms) o -> o ++ [] = ms.
  Proof.
    intros Hwf [_ Hc]. destruct (ws_full ms Hwf) as (m1 & sl' & Hall).
    rewrite Hc in Hall. inversion Hall. now rewrite app_nil_r.
  Qed.

  Lemma ws_no_error ms (r : wrecv) c o (rest : bytes) :
    Forall wfm ms -> ws_wire ms = c ++ rest -> ws_RRel r c o -> wr_err r = false.
  Proof.
    intros Hwf Hw [_ Hc]. destruct (ws_full ms Hwf) as (m1 & sl' & Hall).
    rewrite Hw, wr_feed_app, Hc in Hall.
    destruct (wr_err r) eqn:He; auto.
    rewrite (wr_feed_err (negb client) r rest He) in Hall. inversion Hall as [[H1 H2]].
    rewrite H1 in He. discriminate.
  Qed.

  Theorem ws_prefix_safety (evs : list (event Msg)) :
    Forall (ev_wf wfm) evs -> exists tl, ev_msgs evs = s_dlv (ws_run ws_sys0 evs) ++ tl.
  Proof.
    apply (prefix_safety ws_queue (ws_do_output Msg sflat client) (wr_do_input (negb client)) (ws_init keys0) (wr_init sl0)
             wfm ws_wire (fun ms : list Msg => ms) (fun o : list Msg => o) ws_rem ws_SI ws_RRel);
      [reflexivity | exact ws_S_init | exact ws_S_queue | exact ws_S_out | exact ws_R_init
      | exact ws_R_in | exact ws_decode_prefix].
  Qed.

  Theorem ws_completeness (evs : list (event Msg)) :
    Forall (ev_wf wfm) evs ->
    ws_rem (s_snd (ws_run ws_sys0 evs)) = [] -> s_pipe (ws_run ws_sys0 evs) = [] ->
    s_dlv (ws_run ws_sys0 evs) = ev_msgs evs.
  Proof.
    intros Hf Hr Hp.
    pose proof (completeness ws_queue (ws_do_output Msg sflat client) (wr_do_input (negb client)) (ws_init keys0) (wr_init sl0)
             wfm ws_wire (fun ms : list Msg => ms) (fun o : list Msg => o) (fun _ => []) ws_rem ws_SI ws_RRel
             eq_refl ws_S_init ws_S_queue ws_S_out ws_R_init ws_R_in ws_decode_complete evs Hf Hr Hp) as H.
    now rewrite app_nil_r in H.
  Qed.

  Theorem ws_fair_completion (evs : list (event Msg)) (rs : list (list (event Msg))) :
    Forall (ev_wf wfm) evs -> Forall round rs ->
    (measure ws_rem (fun _ => 0%nat) (ws_run ws_sys0 evs) <= length rs)%nat ->
    let st := ws_run ws_sys0 (evs ++ concat rs) in
    quiet ws_rem st /\ s_dlv st = ev_msgs evs.
  Proof.
    intros Hf Hr Hm.
    pose proof (fair_completion ws_queue (ws_do_output Msg sflat client) (wr_do_input (negb client)) (ws_init keys0) (wr_init sl0)
             wfm ws_wire (fun ms : list Msg => ms) (fun o : list Msg => o) (fun _ => []) ws_rem ws_SI ws_RRel
             eq_refl ws_S_init ws_S_queue ws_S_out ws_R_init ws_R_in ws_decode_complete (fun _ => 0%nat)) as H.
    cbv zeta in *. rewrite <- (app_nil_r (s_dlv _)). apply H; auto.
    - intros s ms maxb scr s' x _ Hs Ho. split; [lia|]. intros Hrem Hmx Hk. left.
      exact (ws_do_output_progress ms s maxb scr s' x Hs Hrem Hmx Hk Ho).
    - intros ms r c o maxb scr pipe rest r' o' pipe' Hwf Hw Hc Hi Hne Hmx Hk.
      pose proof (ws_no_error ms r c o (pipe ++ rest) Hwf Hw Hc) as He.
      destruct Hc as [Hwfr _].
      destruct (wr_do_input_spec _ _ _ _ _ _ _ _ Hwfr Hi) as (_ & x & Hp & _ & Hx).
      specialize (Hx He Hmx Hk Hne). rewrite Hp, app_length. destruct x; [contradiction|cbn; lia].
  Qed.
End WsProofs.
