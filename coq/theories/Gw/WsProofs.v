(* C03 -- proofs about the WebSocket framing model: masking is an involution, the receive loop
   refines the byte-at-a-time machine, the split lemma, every frame the sender builds (any payload
   length class, masked or not, any key) is parsed back to its payload, and the end-to-end theorems
   for a client->server or server->client pair with slave gateways. *)
From Coq Require Import List NArith ZArith Bool Lia ZifyBool.
From Muscle Require Import Gen.Consts Gw.GwBase Gw.GwLemmas Gw.WsModel Gw.TransportProofs.
Import ListNotations.
Local Open Scope N_scope.

(* ---- masking *)
Lemma ws_xor_length key : forall d i, length (ws_xor key i d) = length d.
Proof. induction d as [|x t IH]; intros i; cbn; auto. Qed.

Lemma blen_ws_xor key i d : blen (ws_xor key i d) = blen d.
Proof. unfold blen. now rewrite ws_xor_length. Qed.

Lemma ws_xor_involutive key : forall d i, ws_xor key i (ws_xor key i d) = d.
Proof.
  induction d as [|x t IH]; intros i; cbn [ws_xor]; auto.
  rewrite IH. f_equal. rewrite N.lxor_assoc, N.lxor_nilpotent. apply N.lxor_0_r.
Qed.

Section WsProofs.
  Variable Msg : Type.
  Variable SR : Type.
  Variable sflat : Msg -> bytes.
  Variable sfeed : SR -> bytes -> SR * list Msg.

  Notation wsend := (wsend Msg).
  Notation wrecv := (wrecv SR).
  Notation wr_byte := (wr_byte Msg SR sfeed).
  Notation wr_feed := (wr_feed Msg SR sfeed).
  Notation wr_in := (wr_in Msg SR sfeed).
  Notation wr_do_input := (wr_do_input Msg SR sfeed).
  Notation wr_header_done := (wr_header_done Msg SR sfeed).
  Notation wr_payload_done := (wr_payload_done Msg SR sfeed).

  (* ==================================================================== the split lemma *)
  Lemma wr_feed_app client a : forall st b,
    wr_feed client st (a ++ b) =
    let '(st1, o1) := wr_feed client st a in let '(st2, o2) := wr_feed client st1 b in (st2, o1 ++ o2).
  Proof.
    induction a as [|x a IH]; intros st b; cbn [app WsModel.wr_feed].
    - destruct (wr_feed client st b). reflexivity.
    - destruct (wr_byte client st x) as [st1 o1]. rewrite IH.
      destruct (wr_feed client st1 a) as [st2 o2]. destruct (wr_feed client st2 b) as [st3 o3].
      now rewrite app_assoc.
  Qed.

  Lemma wr_feed_err client st x : wr_err st = true -> wr_feed client st x = (st, []).
  Proof.
    intros He. induction x as [|b t IH]; cbn [WsModel.wr_feed]; auto.
    unfold WsModel.wr_byte. rewrite He, IH. reflexivity.
  Qed.

  (* ==================================================================== chunks and the byte machine *)
  Definition with_hdr (st : wrecv) (h : bytes) : wrecv :=
    mkWR h (wr_hsize st) (wr_pay st) (wr_first st) (wr_mask st) (wr_op st) (wr_closed st) (wr_err st) (wr_slave st).
  Definition with_pay (st : wrecv) (sz : N) (got : bytes) : wrecv :=
    mkWR (wr_hdr st) (wr_hsize st) (Some (sz, got)) (wr_first st) (wr_mask st) (wr_op st) (wr_closed st) (wr_err st) (wr_slave st).

  (* one byte *)
  Lemma wr_byte_hdr client st b :
    wr_err st = false -> blen (wr_hdr st) < wr_hsize st ->
    wr_byte client st b =
    (if blen (wr_hdr st) + 1 =? wr_hsize st then wr_header_done client (with_hdr st (wr_hdr st ++ [b]))
     else (with_hdr st (wr_hdr st ++ [b]), [])).
  Proof.
    intros He Hl. unfold WsModel.wr_byte, with_hdr. rewrite He.
    assert (E1 : (blen (wr_hdr st) =? wr_hsize st) = false) by lia. rewrite E1. reflexivity.
  Qed.

  Lemma wr_byte_pay client st sz got b :
    wr_err st = false -> blen (wr_hdr st) = wr_hsize st -> wr_pay st = Some (sz, got) ->
    wr_byte client st b =
    (if blen got + 1 =? sz then wr_payload_done client (with_pay st sz (got ++ [b]))
     else (with_pay st sz (got ++ [b]), [])).
  Proof.
    intros He Hh Hp. unfold WsModel.wr_byte, with_pay. rewrite He, Hp.
    assert (E1 : (blen (wr_hdr st) =? wr_hsize st) = true) by lia. rewrite E1. reflexivity.
  Qed.

  Lemma with_hdr_hdr st h h2 : with_hdr (with_hdr st h) h2 = with_hdr st h2.
  Proof. reflexivity. Qed.
  Lemma with_pay_pay st sz g sz2 g2 : with_pay (with_pay st sz g) sz2 g2 = with_pay st sz2 g2.
  Proof. reflexivity. Qed.

  (* header bytes that do not complete the header *)
  Lemma feed_hdr_partial client x : forall st,
    wr_err st = false -> blen (wr_hdr st) + blen x < wr_hsize st ->
    wr_feed client st x = (with_hdr st (wr_hdr st ++ x), []).
  Proof.
    induction x as [|b t IH]; intros st He Hl.
    - cbn. rewrite app_nil_r. destruct st; reflexivity.
    - cbn [WsModel.wr_feed]. rewrite blen_cons in Hl.
      rewrite wr_byte_hdr by (auto; lia).
      assert (E2 : (blen (wr_hdr st) + 1 =? wr_hsize st) = false) by lia. rewrite E2.
      rewrite IH.
      + cbn [with_hdr wr_hdr]. rewrite with_hdr_hdr, <- app_assoc. reflexivity.
      + exact He.
      + cbn [with_hdr wr_hdr wr_hsize]. rewrite blen_app. change (blen [b]) with 1. lia.
  Qed.

  (* header bytes that complete it *)
  Lemma feed_hdr_exact client x : forall st,
    wr_err st = false -> x <> [] -> blen (wr_hdr st) + blen x = wr_hsize st ->
    wr_feed client st x = wr_header_done client (with_hdr st (wr_hdr st ++ x)).
  Proof.
    induction x as [|b t IH]; intros st He Hx Hl; [contradiction|].
    cbn [WsModel.wr_feed]. rewrite blen_cons in Hl.
    rewrite wr_byte_hdr by (auto; lia).
    destruct t as [|b' t'].
    - change (blen []) with 0 in Hl.
      assert (E2 : (blen (wr_hdr st) + 1 =? wr_hsize st) = true) by lia. rewrite E2.
      cbn [WsModel.wr_feed]. unfold bytes, byte in *.
      destruct (wr_header_done client (with_hdr st (wr_hdr st ++ [b]))). now rewrite app_nil_r.
    - assert (E2 : (blen (wr_hdr st) + 1 =? wr_hsize st) = false) by (rewrite blen_cons in Hl; lia). rewrite E2.
      rewrite IH.
      + cbn [with_hdr wr_hdr]. rewrite with_hdr_hdr, <- app_assoc. cbn [app].
        destruct (wr_header_done client _). reflexivity.
      + exact He.
      + discriminate.
      + cbn [with_hdr wr_hdr wr_hsize]. rewrite blen_app. change (blen [b]) with 1. lia.
  Qed.

  (* payload bytes that do not complete the payload *)
  Lemma feed_pay_partial client x : forall st sz got,
    wr_err st = false -> blen (wr_hdr st) = wr_hsize st -> wr_pay st = Some (sz, got) ->
    blen got + blen x < sz ->
    wr_feed client st x = (with_pay st sz (got ++ x), []).
  Proof.
    induction x as [|b t IH]; intros st sz got He Hh Hp Hl.
    - cbn. rewrite app_nil_r. unfold with_pay. rewrite <- Hp. destruct st; reflexivity.
    - cbn [WsModel.wr_feed]. rewrite blen_cons in Hl.
      rewrite (wr_byte_pay client st sz got b He Hh Hp).
      assert (E2 : (blen got + 1 =? sz) = false) by lia. rewrite E2.
      rewrite (IH _ sz (got ++ [b])); auto.
      + rewrite with_pay_pay, <- app_assoc. reflexivity.
      + rewrite blen_app. change (blen [b]) with 1. lia.
  Qed.

  (* payload bytes that complete it *)
  Lemma feed_pay_exact client x : forall st sz got,
    wr_err st = false -> blen (wr_hdr st) = wr_hsize st -> wr_pay st = Some (sz, got) ->
    x <> [] -> blen got + blen x = sz ->
    wr_feed client st x = wr_payload_done client (with_pay st sz (got ++ x)).
  Proof.
    induction x as [|b t IH]; intros st sz got He Hh Hp Hx Hl; [contradiction|].
    cbn [WsModel.wr_feed]. rewrite blen_cons in Hl.
    rewrite (wr_byte_pay client st sz got b He Hh Hp).
    destruct t as [|b' t'].
    - change (blen []) with 0 in Hl.
      assert (E2 : (blen got + 1 =? sz) = true) by lia. rewrite E2.
      cbn [WsModel.wr_feed]. unfold bytes, byte in *.
      destruct (wr_payload_done client (with_pay st sz (got ++ [b]))). now rewrite app_nil_r.
    - assert (E2 : (blen got + 1 =? sz) = false) by (rewrite blen_cons in Hl; lia). rewrite E2.
      rewrite (IH _ sz (got ++ [b])); auto.
      + rewrite with_pay_pay, <- app_assoc. cbn [app]. destruct (wr_payload_done client _). reflexivity.
      + discriminate.
      + rewrite blen_app. change (blen [b]) with 1. lia.
  Qed.

  (* ==================================================================== the receive loop *)
  (* states of the loop: while a header is being read, a payload buffer that exists (earlier fragments of an
     unfinished message) is full; when the header is complete a payload is being received and is not yet full *)
  Definition pay_full (st : wrecv) : Prop :=
    match wr_pay st with Some (sz, got) => blen got = sz | None => True end.
  Definition wr_wf (st : wrecv) : Prop :=
    wr_err st = false ->
    (blen (wr_hdr st) < wr_hsize st /\ pay_full st) \/
    (blen (wr_hdr st) = wr_hsize st /\ exists sz got, wr_pay st = Some (sz, got) /\ blen got < sz).

  Lemma wr_execute_props st st' o :
    wr_execute Msg SR sfeed st = (st', o) ->
    wr_pay st' = None /\ wr_err st' = wr_err st /\ wr_hdr st' = wr_hdr st /\ wr_hsize st' = wr_hsize st.
  Proof.
    unfold wr_execute. destruct (wr_closed st).
    - intros H; inversion H; subst; cbn; auto.
    - destruct (wr_op st =? WS_BINARY).
      + destruct (sfeed (wr_slave st) _) as [s' o']. intros H; inversion H; subst; cbn; auto.
      + destruct (wr_op st =? WS_CLOSE); intros H; inversion H; subst; cbn; auto.
  Qed.

  Lemma wr_reset_wf st : pay_full st -> wr_wf (wr_reset_hdr SR st).
  Proof.
    intros Hp _. left. unfold wr_reset_hdr, pay_full in *. cbn [wr_pay wr_hdr wr_hsize]. split; [|exact Hp].
    change (blen []) with 0. lia.
  Qed.

  Lemma pay_full_none st : wr_pay st = None -> pay_full st.
  Proof. unfold pay_full. now intros ->. Qed.

  Lemma wr_init_payload_wf st size off st' o :
    blen (wr_hdr st) = wr_hsize st -> pay_full st ->
    wr_init_payload Msg SR sfeed st size off = (st', o) -> wr_wf st'.
  Proof.
    intros Hh Hfull. unfold wr_init_payload.
    destruct (size =? 0) eqn:Ez.
    - set (st1 := match wr_pay st with Some _ => st | None => _ end).
      assert (Hf1 : pay_full st1).
      { subst st1. unfold pay_full in *. destruct (wr_pay st) as [[sz got]|] eqn:Epay; [now rewrite Epay|exact I]. }
      destruct (WS_FIN <=? nth 0 (wr_hdr st) 0).
      + destruct (wr_execute Msg SR sfeed st1) as [st2 o2] eqn:Ee. intros H; inversion H; subst.
        apply wr_reset_wf. apply pay_full_none. apply wr_execute_props in Ee. tauto.
      + intros H; inversion H; subst. apply wr_reset_wf. exact Hf1.
    - unfold pay_full in Hfull.
      destruct (wr_pay st) as [[sz0 got0]|] eqn:Epay; intros H; injection H as <- _; intros _; right; cbn [wr_pay wr_hdr wr_hsize].
      + split; auto. exists (sz0 + size), got0. split; auto. lia.
      + split; auto. exists size, []. split; auto. change (blen []) with 0. lia.
  Qed.

  Lemma wr_header_done_wf client st st' o :
    blen (wr_hdr st) = wr_hsize st -> pay_full st ->
    wr_header_done client st = (st', o) -> wr_wf st'.
  Proof.
    intros Hh Hfull. unfold WsModel.wr_header_done.
    assert (Herr : forall (s : wrecv), wr_wf (wr_set_err SR s)) by (intros s E; cbn in E; discriminate).
    destruct (wr_hsize st =? 2) eqn:E2.
    - destruct (negb _); [intros H; inversion H; subst; apply Herr|].
      destruct (if client then _ else _); [intros H; inversion H; subst; apply Herr|].
      set (hs' := 2 + _ + _).
      destruct (hs' =? 2) eqn:Ehs.
      + apply wr_init_payload_wf; auto.
      + intros H; inversion H; subst. intros _. left. unfold wr_set_hsize, pay_full in *. cbn [wr_pay wr_hdr wr_hsize].
        split; [|exact Hfull].
        assert (2 < hs').
        { subst hs'. destruct (_ =? 126); [lia|]. destruct (_ =? 127); [lia|]. destruct (128 <=? _); [lia|]. cbn in Ehs. discriminate. }
        lia.
    - destruct (wr_hsize st =? 6); [apply wr_init_payload_wf; auto|].
      destruct ((wr_hsize st =? 4) || (wr_hsize st =? 8)); [apply wr_init_payload_wf; auto|].
      destruct ((wr_hsize st =? 10) || (wr_hsize st =? 14)).
      + destruct (9223372036854775808 <=? _); [intros H; inversion H; subst; apply Herr|].
        destruct (ws_max_payload <? _); [intros H; inversion H; subst; apply Herr|].
        apply wr_init_payload_wf; auto.
      + intros H; inversion H; subst; apply Herr.
  Qed.

  Lemma wr_payload_done_wf client st sz got st' o :
    wr_pay st = Some (sz, got) -> blen got = sz ->
    wr_payload_done client st = (st', o) -> wr_wf st'.
  Proof.
    intros Epay Hfull. unfold WsModel.wr_payload_done. rewrite Epay.
    set (st1 := if client then st else _).
    assert (Hp1 : pay_full st1).
    { subst st1. unfold pay_full. destruct client; [rewrite Epay; lia|]. cbn [wr_pay].
      rewrite blen_app, blen_ws_xor, <- blen_app, take_drop. lia. }
    destruct (wr_closed st1 || (WS_FIN <=? nth 0 (wr_hdr st) 0)).
    - destruct (wr_execute Msg SR sfeed st1) as [st2 o2] eqn:Ee. intros H; inversion H; subst.
      apply wr_reset_wf. apply pay_full_none. apply wr_execute_props in Ee. tauto.
    - intros H; inversion H; subst. apply wr_reset_wf. exact Hp1.
  Qed.

  Definition in_spec client (st : wrecv) (maxb : N) (scr : list N) (pipe : bytes) (outs : list Msg)
             (st' : wrecv) (outs' : list Msg) (pipe' : bytes) : Prop :=
    wr_wf st' /\ exists x o, pipe = x ++ pipe' /\ outs' = outs ++ o /\ wr_feed client st x = (st', o) /\
      (wr_err st = false -> 1 <= maxb -> 1 <= io_k scr -> pipe <> [] -> x <> []).

  Lemma wr_in_turn client scr st maxb pipe outs st' outs' pipe' :
    (forall st2 maxb2 pipe2 outs2, wr_wf st2 ->
        match scr with [] => (st2, outs2, pipe2) | _ :: scr' => wr_in client scr' st2 maxb2 pipe2 outs2 end = (st', outs', pipe') ->
        wr_wf st' /\ exists x o, pipe2 = x ++ pipe' /\ outs' = outs2 ++ o /\ wr_feed client st2 x = (st', o)) ->
    wr_wf st -> wr_in client scr st maxb pipe outs = (st', outs', pipe') ->
    in_spec client st maxb scr pipe outs st' outs' pipe'.
  Proof.
    intros Hrec Hwf H. unfold in_spec.
    assert (Hunf : wr_in client scr st maxb pipe outs =
      if (maxb =? 0) || wr_err st then (st, outs, pipe) else
      if blen (wr_hdr st) =? wr_hsize st then
        match wr_pay st with
        | None => (wr_set_err SR st, outs, pipe)
        | Some (sz, got) =>
            let '(x, pipe', _) := io_read (N.min maxb (sz - blen got)) scr pipe in
            if 0 <? blen x then
              let st1 := mkWR (wr_hdr st) (wr_hsize st) (Some (sz, got ++ x)) (wr_first st) (wr_mask st) (wr_op st)
                              (wr_closed st) (wr_err st) (wr_slave st) in
              let '(st2, o) := if blen got + blen x =? sz then wr_payload_done client st1 else (st1, []) in
              match scr with [] => (st2, outs ++ o, pipe') | _ :: scr' => wr_in client scr' st2 (maxb - blen x) pipe' (outs ++ o) end
            else (st, outs, pipe')
        end
      else
        let '(x, pipe', _) := io_read (N.min maxb (wr_hsize st - blen (wr_hdr st))) scr pipe in
        if 0 <? blen x then
          let st1 := mkWR (wr_hdr st ++ x) (wr_hsize st) (wr_pay st) (wr_first st) (wr_mask st) (wr_op st)
                          (wr_closed st) (wr_err st) (wr_slave st) in
          let '(st2, o) := if blen (wr_hdr st) + blen x =? wr_hsize st then wr_header_done client st1 else (st1, []) in
          match scr with [] => (st2, outs ++ o, pipe') | _ :: scr' => wr_in client scr' st2 (maxb - blen x) pipe' (outs ++ o) end
        else (st, outs, pipe')) by (destruct scr; reflexivity).
    rewrite Hunf in H. clear Hunf.
    destruct ((maxb =? 0) || wr_err st) eqn:Estop.
    { inversion H; subst. split; auto. exists [], []. rewrite app_nil_r. repeat split; auto.
      intros He Hm. rewrite He in Estop. lia. }
    apply orb_false_iff in Estop. destruct Estop as [Emax Eerr].
    assert (Hpp : pipe <> [] -> 0 < blen pipe) by apply blen_pos.
    (* finishing a turn that read x and reached (st2, o) with wr_feed st x = (st2, o) *)
    assert (Hfin : forall x p1 st2 o maxb2, pipe = x ++ p1 -> x <> [] -> wr_wf st2 -> wr_feed client st x = (st2, o) ->
               match scr with [] => (st2, outs ++ o, p1) | _ :: scr' => wr_in client scr' st2 maxb2 p1 (outs ++ o) end = (st', outs', pipe') ->
               wr_wf st' /\ exists x0 o0, pipe = x0 ++ pipe' /\ outs' = outs ++ o0 /\ wr_feed client st x0 = (st', o0) /\
                 (wr_err st = false -> 1 <= maxb -> 1 <= io_k scr -> pipe <> [] -> x0 <> [])).
    { intros x p1 st2 o maxb2 Hp Hxne Hwf2 Hf Hk.
      apply Hrec in Hk; auto. destruct Hk as (Hwf' & y & o2 & Hp2 & Ho2 & Hf2).
      split; auto. exists (x ++ y), (o ++ o2). repeat split.
      - rewrite Hp, Hp2. now rewrite app_assoc.
      - rewrite Ho2. now rewrite app_assoc.
      - rewrite wr_feed_app, Hf, Hf2. reflexivity.
      - intros _ _ _ _ E. apply app_eq_nil in E. destruct E; contradiction. }
    assert (Hnone : forall x p1, pipe = x ++ p1 -> blen x = 0 ->
               blen x = N.min (N.min maxb (if blen (wr_hdr st) =? wr_hsize st then match wr_pay st with Some (sz, got) => sz - blen got | None => 0 end else wr_hsize st - blen (wr_hdr st))) (N.min (io_k scr) (blen pipe)) ->
               (0 < (if blen (wr_hdr st) =? wr_hsize st then match wr_pay st with Some (sz, got) => sz - blen got | None => 0 end else wr_hsize st - blen (wr_hdr st))) ->
               (st, outs, p1) = (st', outs', pipe') ->
               wr_wf st' /\ exists x0 o0, pipe = x0 ++ pipe' /\ outs' = outs ++ o0 /\ wr_feed client st x0 = (st', o0) /\
                 (wr_err st = false -> 1 <= maxb -> 1 <= io_k scr -> pipe <> [] -> x0 <> [])).
    { intros x p1 Hp Hx0 Hb Hpos Hk. inversion Hk; subst. assert (x = []) by (apply blen_0; exact Hx0). subst x.
      split; auto. exists [], []. rewrite app_nil_r. repeat split; auto.
      intros _ H1 H2 H3. specialize (Hpp H3). change (blen []) with 0 in Hb. lia. }
    destruct (Hwf Eerr) as [[Hlt Hfull]|[Heq (sz & got & Epay & Hgot)]].
    - (* header phase *)
      assert (Ehdr : (blen (wr_hdr st) =? wr_hsize st) = false) by lia. rewrite Ehdr in *.
      destruct (io_read (N.min maxb (wr_hsize st - blen (wr_hdr st))) scr pipe) as [[x p1] s1] eqn:Er.
      apply io_read_spec in Er. destruct Er as (Hp & Hb & _).
      destruct (0 <? blen x) eqn:Ex; [|apply (Hnone x p1); auto; lia].
      fold (with_hdr st (wr_hdr st ++ x)) in H. cbv zeta in H.
      assert (Hxne : x <> []) by (intros ->; cbn in Ex; discriminate).
      destruct (blen (wr_hdr st) + blen x =? wr_hsize st) eqn:Efull.
      + destruct (wr_header_done client (with_hdr st (wr_hdr st ++ x))) as [st2 o] eqn:Ehd.
        apply (Hfin x p1 st2 o (maxb - blen x) Hp Hxne); [| |exact H].
        * eapply wr_header_done_wf; [| |exact Ehd].
          -- unfold with_hdr. cbn [wr_hdr wr_hsize]. rewrite blen_app. lia.
          -- exact Hfull.
        * rewrite (feed_hdr_exact client x st Eerr Hxne ltac:(lia)). exact Ehd.
      + apply (Hfin x p1 (with_hdr st (wr_hdr st ++ x)) [] (maxb - blen x) Hp Hxne); [| |exact H].
        * intros _. left. unfold with_hdr. cbn [wr_hdr wr_hsize]. rewrite blen_app. split; [lia|exact Hfull].
        * apply feed_hdr_partial; auto. lia.
    - (* payload phase *)
      assert (Ehdr : (blen (wr_hdr st) =? wr_hsize st) = true) by lia. rewrite Ehdr, Epay in *.
      destruct (io_read (N.min maxb (sz - blen got)) scr pipe) as [[x p1] s1] eqn:Er.
      apply io_read_spec in Er. destruct Er as (Hp & Hb & _).
      destruct (0 <? blen x) eqn:Ex; [|apply (Hnone x p1); auto; lia].
      fold (with_pay st sz (got ++ x)) in H. cbv zeta in H.
      assert (Hxne : x <> []) by (intros ->; cbn in Ex; discriminate).
      destruct (blen got + blen x =? sz) eqn:Efull.
      + destruct (wr_payload_done client (with_pay st sz (got ++ x))) as [st2 o] eqn:Epd.
        apply (Hfin x p1 st2 o (maxb - blen x) Hp Hxne); [| |exact H].
        * eapply wr_payload_done_wf; [| |exact Epd]; [reflexivity|rewrite blen_app; lia].
        * rewrite (feed_pay_exact client x st sz got Eerr Heq Epay Hxne ltac:(lia)). exact Epd.
      + apply (Hfin x p1 (with_pay st sz (got ++ x)) [] (maxb - blen x) Hp Hxne); [| |exact H].
        * intros _. right. unfold with_pay. cbn [wr_pay wr_hdr wr_hsize]. split; auto.
          exists sz, (got ++ x). split; auto. rewrite blen_app. lia.
        * apply feed_pay_partial; auto. lia.
  Qed.

  Lemma wr_in_spec client scr : forall st maxb pipe outs st' outs' pipe',
    wr_wf st -> wr_in client scr st maxb pipe outs = (st', outs', pipe') ->
    in_spec client st maxb scr pipe outs st' outs' pipe'.
  Proof.
    induction scr as [|k scr IH]; intros st maxb pipe outs st' outs' pipe' Hwf H.
    - apply wr_in_turn; auto. intros st2 maxb2 pipe2 outs2 Hwf2 E. inversion E; subst.
      split; auto. exists [], []. rewrite !app_nil_r. auto.
    - apply wr_in_turn; auto. intros st2 maxb2 pipe2 outs2 Hwf2 E.
      destruct (IH _ _ _ _ _ _ _ Hwf2 E) as (Hwf' & x & o & Hp & Ho & Hf & _). split; auto. exists x, o. auto.
  Qed.

  Lemma wr_do_input_spec client st maxb scr pipe st' o pipe' :
    wr_wf st -> wr_do_input client st maxb scr pipe = (st', o, pipe') ->
    wr_wf st' /\ exists x, pipe = x ++ pipe' /\ wr_feed client st x = (st', o) /\
      (wr_err st = false -> 1 <= maxb -> 1 <= io_k scr -> pipe <> [] -> x <> []).
  Proof.
    unfold WsModel.wr_do_input. intros Hwf H.
    destruct (wr_in_spec client scr _ _ _ _ _ _ _ Hwf H) as (Hwf' & x & o' & Hp & Ho & Hf & Hx).
    cbn in Ho. subst o'. eauto.
  Qed.
End WsProofs.
