(* C12 -- executable model of muscle::PacketTunnelIOGateway
   (iogateway/PacketTunnelIOGateway.cpp, with the buffer hand-off of iogateway/ProxyIOGateway.cpp).

   A "Message" is the byte buffer the proxy layer hands to the tunnel (the flattened Message when
   there is no slave gateway, one written packet of the slave gateway otherwise) -- the property
   compares Messages by their serialised bytes.

   Sender   (DoOutputImplementation): the output cursor (_sendMessageIDCounter,
            _currentOutputBufferOffset), the queue of buffers still to send, the output packet
            buffer (_outputPacketBuffer[0.._outputPacketSize)); several fragments per packet;
            a packet the transport refuses (Write() returns 0) is held and topped up next time.
   Receiver (DoInputImplementation): the table _receiveStates (iteration order kept: it is an LRU),
            one (message id, expected offset, reassembly buffer) per source address; the
            acceptance test literally; uint32 overflow guard on offset+chunkSize.
   Wire:    little-endian words  magic, sexID, messageID, offset, chunkSize, totalSize, then the chunk.

   Numbers the C++ keeps in uint32 are N here; the message-id counter wraps explicitly (u32).
   No proofs in this file (the model must still run when a proof breaks). *)
From Coq Require Import List NArith Bool.
From Coq Require Import Strings.Byte.
From Muscle Require Import Common.LE Gen.Consts.
Import ListNotations.
Local Open Scope N_scope.

Definition FHS : N := c_tunnel_fragment_header_words * c_C12_SIZEOF_UINT32.   (* FRAGMENT_HEADER_SIZE *)
Definition MAX_STATES : N := c_tunnel_max_receive_states.                      (* MAX_NUM_RECEIVE_STATES *)

Definition msg := list byte.
Definition packet := list byte.
Definition addr := N.      (* stands for the IPAddressAndPort a packet was received from *)

(* ------------------------------------------------------------------ fragments on the wire *)

Record frag := mkFrag { f_magic : N; f_sex : N; f_id : N; f_off : N; f_total : N; f_data : list byte }.

Definition enc_frag (f : frag) : list byte :=
  le32 (f_magic f) ++ le32 (f_sex f) ++ le32 (f_id f) ++ le32 (f_off f)
  ++ le32 (lenN (f_data f)) ++ le32 (f_total f) ++ f_data f.

Definition enc_frags (fs : list frag) : list byte := concat (map enc_frag fs).

(* ------------------------------------------------------------------ sender *)

Record scfg := mkSCfg { sc_magic : N; sc_sex : N; sc_mtu : N }.

(* constructor: _maxTransferUnit(muscleMax(maxTransferUnit, FRAGMENT_HEADER_SIZE+1)) *)
Definition clamp_mtu (m : N) : N := N.max m (FHS + 1).

Record sstate := mkS {
  s_id  : N;            (* _sendMessageIDCounter *)
  s_off : N;            (* _currentOutputBufferOffset *)
  s_q   : list msg;     (* _currentOutputBuffers followed by what the outgoing Message queue will generate *)
  s_pkt : list byte     (* _outputPacketBuffer[0 .. _outputPacketSize) *)
}.

Definition s_init (id0 : N) : sstate := mkS id0 0 [] [].

(* Step 1 of DoOutputImplementation: the inner while loop.  [psize] is _outputPacketSize.
   Returns the fragments appended to the packet buffer and the new cursor.
   When only part of the head buffer fits, the chunk takes all the room that is left, so the
   loop condition (_outputPacketSize+FRAGMENT_HEADER_SIZE < _maxTransferUnit) fails next time round:
   the recursion therefore stops there (TunnelProofs.fill_partial_fills_packet). *)
Fixpoint fill (c : scfg) (psize id off : N) (q : list msg) : list frag * (N * N * list msg) :=
  match q with
  | [] => ([], (id, off, []))
  | m :: q' =>
      if psize + FHS <? sc_mtu c then
        let sb := lenN m in
        let n := N.min (sc_mtu c - (psize + FHS)) (sb - off) in
        let f := mkFrag (sc_magic c) (sc_sex c) id off sb (takeN n (dropN off m)) in
        if off + n =? sb then
          let '(fs, st) := fill c (psize + FHS + n) (u32 (id + 1)) 0 q' in (f :: fs, st)
        else ([f], (id, off + n, q))
      else ([], (id, off, q))
  end.

(* The outer loop of DoOutputImplementation.  [total] = bytes written so far in this call,
   [budget] = number of Write() calls the transport still accepts before it returns 0
   ("would block": the packet is then held in the output buffer). *)
Fixpoint out_loop (fuel : nat) (c : scfg) (maxBytes total budget : N) (st : sstate) : list packet * sstate :=
  match fuel with
  | O => ([], st)
  | S fuel' =>
      if total <? maxBytes then
        let '(fs, (id, off, q)) := fill c (lenN (s_pkt st)) (s_id st) (s_off st) (s_q st) in
        let pkt := s_pkt st ++ enc_frags fs in
        if 0 <? lenN pkt then
          if budget =? 0 then ([], mkS id off q pkt)
          else
            let '(ps, st') := out_loop fuel' c maxBytes (total + lenN pkt) (budget - 1) (mkS id off q []) in
            (pkt :: ps, st')
        else ([], mkS id off q pkt)
      else ([], st)
  end.

Definition out_fuel (st : sstate) : nat := S (S (length (concat (s_q st)) + length (s_q st))).

Inductive sop :=
| SAdd (m : msg)                       (* AddOutgoingMessage of a Message that generates the buffer m *)
| SOut (maxBytes : N) (budget : N)     (* DoOutput(maxBytes) over a transport accepting [budget] writes *)
| SSetId (id : N).                     (* harness only: overwrite _sendMessageIDCounter (wrap-around set-up) *)

Definition sstep (c : scfg) (st : sstate) (o : sop) : sstate * list packet :=
  match o with
  | SAdd m => (mkS (s_id st) (s_off st) (s_q st ++ [m]) (s_pkt st), [])
  | SOut mb bud => let '(ps, st') := out_loop (out_fuel st) c mb 0 bud st in (st', ps)
  | SSetId id => (mkS id (s_off st) (s_q st) (s_pkt st), [])
  end.

Fixpoint srun (c : scfg) (st : sstate) (ops : list sop) : sstate * list packet :=
  match ops with
  | [] => (st, [])
  | o :: ops' =>
      let '(st1, p1) := sstep c st o in
      let '(st2, p2) := srun c st1 ops' in (st2, p1 ++ p2)
  end.

(* ------------------------------------------------------------------ receiver *)

Record rcfg := mkRCfg {
  rc_magic  : N;
  rc_sex    : N;       (* _sexID *)
  rc_mtu    : N;       (* _maxTransferUnit: size of _inputPacketBuffer, a longer packet is truncated by Read() *)
  rc_max_in : N;       (* _maxIncomingMessageSize *)
  rc_misc   : bool     (* _allowMiscData *)
}.

Record rstate := mkR { r_id : N; r_off : N; r_buf : list byte }.   (* ReceiveState: _messageID, _offset, *_buf *)

Definition table := list (addr * rstate).   (* _receiveStates in iteration order (oldest first) *)

Fixpoint tbl_find (a : addr) (t : table) : option rstate :=
  match t with
  | [] => None
  | (b, rs) :: t' => if a =? b then Some rs else tbl_find a t'
  end.

Fixpoint tbl_remove (a : addr) (t : table) : table :=
  match t with
  | [] => []
  | (b, rs) :: t' => if a =? b then t' else (b, rs) :: tbl_remove a t'
  end.

(* while(_receiveStates.GetNumItems() > MAX_NUM_RECEIVE_STATES) RemoveFirst() *)
Definition tbl_evict (t : table) : table := dropN (lenN t - MAX_STATES) t.

(* contents of a buffer after SetNumBytes(n, false) / GetByteBufferFromPool(n): indeterminate in
   the C++; never observable (a buffer is delivered only once every byte has been overwritten) *)
Definition junk (n : N) : list byte := repeat x00 (N.to_nat n).

(* if ((offset == 0)&&(messageID != rs->_messageID)) start receiving the new message *)
Definition restart_if_new (rs : rstate) (f : frag) : rstate :=
  if (f_off f =? 0) && negb (f_id f =? r_id rs) then mkR (f_id f) 0 (junk (f_total f)) else rs.

(* the acceptance test and its two outcomes *)
Definition accept (rs : rstate) (f : frag) : rstate * list msg :=
  let rsSize := lenN (r_buf rs) in
  let csz := lenN (f_data f) in
  if (f_id f =? r_id rs) && (f_total f =? rsSize) && (f_off f =? r_off rs)
     && negb (two32 <=? f_off f + csz)            (* WillUnsignedAddOverflow(offset, chunkSize)==false *)
     && (f_off f + csz <=? rsSize)
  then
    let buf' := takeN (f_off f) (r_buf rs) ++ f_data f ++ dropN (f_off f + csz) (r_buf rs) in   (* memcpy *)
    let off' := r_off rs + csz in
    if off' =? rsSize then (mkR (r_id rs) 0 [], [buf'])      (* deliver; _offset = 0; _buf->Clear() *)
    else (mkR (r_id rs) off' buf', [])
  else (mkR (r_id rs) 0 [], []).                             (* "Unknown fragment": _offset = 0; _buf->Clear() *)

Definition recv_frag (t : table) (a : addr) (f : frag) : table * list msg :=
  match tbl_find a t with
  | Some rs =>                                   (* GetAndMoveToBack *)
      let '(rs', out) := accept (restart_if_new rs f) f in
      (tbl_remove a t ++ [(a, rs')], out)
  | None =>
      let t1 := tbl_evict t in
      if f_off f =? 0 then                        (* PutAndGet(fromIAP, ReceiveState(messageID)); _buf = pool(totalSize) *)
        let '(rs', out) := accept (mkR (f_id f) 0 (junk (f_total f))) f in
        (t1 ++ [(a, rs')], out)
      else (t1, [])
  end.

Fixpoint recv_frags (t : table) (a : addr) (fs : list frag) : table * list msg :=
  match fs with
  | [] => (t, [])
  | f :: fs' =>
      let '(t1, o1) := recv_frag t a f in
      let '(t2, o2) := recv_frags t1 a fs' in (t2, o1 ++ o2)
  end.

(* the tests of the fragment loop that do not depend on the receive state.  When [frag_ok] fails
   the loop is left (break) and the rest of the packet is ignored; a fragment of a Message larger
   than _maxIncomingMessageSize is skipped on its own (SeekRelative(chunkSize); continue) *)
Definition frag_ok (rc : rcfg) (magic sex csz avail : N) : bool :=
  (magic =? rc_magic rc) && ((rc_sex rc =? 0) || negb (rc_sex rc =? sex)) && (csz <=? avail).

Fixpoint parse (fuel : nat) (rc : rcfg) (bs : list byte) : list frag :=
  match fuel with
  | O => []
  | S fuel' =>
    if FHS <=? lenN bs then
      match rd32 bs with Some (magic, b1) =>
      match rd32 b1 with Some (sex, b2) =>
      match rd32 b2 with Some (id, b3) =>
      match rd32 b3 with Some (off, b4) =>
      match rd32 b4 with Some (csz, b5) =>
      match rd32 b5 with Some (total, b6) =>
        if frag_ok rc magic sex csz (lenN b6) then
          let rest := parse fuel' rc (dropN csz b6) in
          if total <=? rc_max_in rc then mkFrag magic sex id off total (takeN csz b6) :: rest else rest
        else []
      | None => [] end | None => [] end | None => [] end
      | None => [] end | None => [] end | None => [] end
    else []
  end.

Definition first_word_is (magic : N) (bs : list byte) : bool :=
  match rd32 bs with Some (m, _) => m =? magic | None => false end.

(* one pass of the read loop of DoInputImplementation: one packet from address a *)
Definition recv_packet (rc : rcfg) (t : table) (a : addr) (p : packet) : table * list (addr * msg) :=
  let bs := takeN (rc_mtu rc) p in
  if lenN bs =? 0 then (t, [])
  else if rc_misc rc && ((lenN bs <? FHS) || negb (first_word_is (rc_magic rc) bs)) then (t, [(a, bs)])
  else let '(t', out) := recv_frags t a (parse (length bs) rc bs) in (t', map (pair a) out).

Fixpoint recv_all (rc : rcfg) (t : table) (net : list (addr * packet)) : table * list (addr * msg) :=
  match net with
  | [] => (t, [])
  | (a, p) :: net' =>
      let '(t1, o1) := recv_packet rc t a p in
      let '(t2, o2) := recv_all rc t1 net' in (t2, o1 ++ o2)
  end.

(* The read loop of DoInputImplementation(receiver, maxBytes) over a device that holds [queue]:
   packets are read while fewer than maxBytes bytes have been read in this call; a Read() that returns
   0 bytes (an empty datagram) ends the call -- that datagram is consumed.  Returns what is left queued. *)
Fixpoint recv_loop (rc : rcfg) (t : table) (maxBytes total : N) (queue : list (addr * packet))
  : table * list (addr * msg) * list (addr * packet) :=
  match queue with
  | [] => (t, [], [])
  | (a, p) :: q' =>
      if total <? maxBytes then
        let bs := takeN (rc_mtu rc) p in
        if lenN bs =? 0 then (t, [], q')
        else
          let '(t1, o1) := recv_packet rc t a p in
          let '(t2, o2, rest) := recv_loop rc t1 maxBytes (total + lenN bs) q' in (t2, o1 ++ o2, rest)
      else (t, [], queue)
  end.
