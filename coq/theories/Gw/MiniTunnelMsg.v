(* C12 at the level of Messages, mini tunnel without a slave gateway: composition of mini_sound /
   mini_complete with C01's model of Message::Flatten/Unflatten (see Gw/TunnelMsg.v). *)
From Coq Require Import List Arith NArith Bool Lia.
From Coq Require Import Strings.Byte.
From Muscle Require Import Common.LE Gen.Consts Gw.Tunnel Gw.TunnelProofs Gw.MiniTunnel Gw.MiniTunnelProofs Gw.TunnelMsg.
From Muscle Require Msg.MsgDefs Msg.MsgModel Msg.MsgReprProofs.
Import ListNotations.
Local Open Scope N_scope.

Definition mlower (o : Mop) : mop :=
  match o with MAddMsg M => MAdd (to_buffer M) | MOutput mb bud => MOut mb bud end.

Lemma madded_mlower ops : madded (map mlower ops) = map to_buffer (sent_msgs ops).
Proof. induction ops as [|[M|mb bud] ops IH]; cbn [map mlower madded sent_msgs]; [reflexivity| |exact IH]. now rewrite IH. Qed.

Lemma no_msetid_mlower ops : no_msetid (map mlower ops).
Proof. induction ops as [|[M|mb bud] ops IH]; cbn [map mlower no_msetid]; auto. Qed.

Record mini_msg_run := mkMiniMsgRun { mm_cfg : mcfg; mm_pid0 : N; mm_mops : list Mop }.

Definition mini_msg_run_ok (s : mini_msg_run) : Prop :=
  mcfg_ok (mm_cfg s) /\ mm_pid0 s < 2 ^ 24 /\ Forall MsgModel.wf (sent_msgs (mm_mops s)).

Section WithZlib.

Variable deflate : N -> list byte -> option (list byte).
Variable inflate : list byte -> option (list byte).
Hypothesis inflate_deflate : forall lvl x d, deflate lvl x = Some d -> inflate d = Some x.

Definition mlower_run (s : mini_msg_run) : mini_run := mkMRun (mm_cfg s) (mm_pid0 s) (map mlower (mm_mops s)).

Lemma mlower_run_ok s : mini_msg_run_ok s -> mr_ok (mlower_run s).
Proof.
  intros (Hc & Hpid & Hwf). unfold mr_ok, mlower_run, mr_msgs. cbn [mr_cfg mr_pid0 mr_ops].
  split; [exact Hc|]. split; [exact Hpid|]. split; [apply no_msetid_mlower|].
  rewrite madded_mlower. apply Forall_forall. intros b Hb. apply in_map_iff in Hb as (M & <- & HM).
  rewrite Forall_forall in Hwf. apply lenN_to_buffer. now apply Hwf.
Qed.

Theorem mini_message_sound :
  forall (rc : rcfg) (who : addr -> option mini_msg_run) (net : list (addr * packet)),
    rc_misc rc = false -> PHS <= rc_mtu rc ->
    (forall a s, who a = Some s -> mini_msg_run_ok s /\ (mc_level (mm_cfg s) = 0 \/ mc_mtu (mm_cfg s) <= rc_mtu rc)) ->
    (forall a s p, who a = Some s -> In (a, p) net -> In p (mr_packets deflate (mlower_run s)) \/ foreign (rc_magic rc) p) ->
    forall a s D, who a = Some s -> In (a, D) (deliver_msgs (mrecv_all inflate rc net)) ->
      exists M, In M (sent_msgs (mm_mops s)) /\ D = MsgModel.rt M /\ MsgModel.flatten D = MsgModel.flatten M.
Proof.
  intros rc who net Hmisc Hmtu Hok Hnet a s D Ha HD.
  unfold deliver_msgs in HD. apply in_flat_map in HD as ([a' b] & Hin & HD). cbn [fst snd] in HD.
  destruct (of_buffer b) as [M'|] eqn:Eb; [|destruct HD]. destruct HD as [E|[]]. injection E as -> ->.
  set (who' := fun x => option_map mlower_run (who x)).
  assert (Hb : In b (mr_msgs (mlower_run s))).
  { apply (mini_sound deflate inflate inflate_deflate rc who' net Hmisc Hmtu) with (a := a); try assumption.
    - intros x sx Hx. unfold who' in Hx. destruct (who x) as [s0|] eqn:E0; [|discriminate]. injection Hx as <-.
      destruct (Hok x s0 E0) as [H1 H2]. split; [now apply mlower_run_ok|exact H2].
    - intros x sx p Hx Hp. unfold who' in Hx. destruct (who x) as [s0|] eqn:E0; [|discriminate]. injection Hx as <-.
      eapply Hnet; eassumption.
    - unfold who'. now rewrite Ha. }
  unfold mr_msgs, mlower_run in Hb. cbn [mr_ops] in Hb. rewrite madded_mlower in Hb.
  apply in_map_iff in Hb as (M & <- & HM).
  destruct (Hok a s Ha) as [(_ & _ & Hwf) _]. rewrite Forall_forall in Hwf. specialize (Hwf M HM).
  rewrite (of_to_buffer M Hwf) in Eb. injection Eb as <-.
  exists M. split; [exact HM|]. split; [reflexivity|]. apply MsgReprProofs.reflatten. exact (proj1 Hwf).
Qed.

Definition mfitsM (c : mcfg) (M : Message) : bool := mfits c (to_buffer M).

Lemma filter_map_to_buffer_mini c Ms : filter (mfits c) (map to_buffer Ms) = map to_buffer (filter (mfitsM c) Ms).
Proof.
  induction Ms as [|M Ms IH]; [reflexivity|]. cbn [map filter]. unfold mfitsM at 1.
  destruct (mfits c (to_buffer M)); cbn [map]; now rewrite IH.
Qed.

Theorem mini_message_complete :
  forall rc c a pid0 (mops : list Mop) st pkts,
    mcfg_ok c -> rc_misc rc = false ->
    mc_magic c = rc_magic rc -> sex_ok rc (mc_sex c) = true -> mc_mtu c <= rc_mtu rc ->
    pid0 < 2 ^ 24 -> Forall MsgModel.wf (sent_msgs mops) ->
    mrun deflate c (m_init pid0) (map mlower mops) = (st, pkts) ->
    m_pkt st = [] -> m_q st = [] ->
    deliver_msgs (mrecv_all inflate rc (map (pair a) pkts))
    = map (pair a) (map MsgModel.rt (filter (mfitsM c) (sent_msgs mops))).
Proof.
  intros rc c a pid0 mops st pkts Hc Hmisc Hmg Hsx Hmtu Hpid Hwf Hrun Hpk Hq.
  assert (Hsz : Forall (fun m => lenN m < two32) (madded (map mlower mops))).
  { rewrite madded_mlower. apply Forall_forall. intros b Hb. apply in_map_iff in Hb as (M & <- & HM).
    rewrite Forall_forall in Hwf. apply lenN_to_buffer. now apply Hwf. }
  destruct (mini_complete deflate inflate inflate_deflate rc c a pid0 (map mlower mops) st pkts
              Hc Hmisc Hmg Hsx Hmtu Hpid (no_msetid_mlower _) Hsz Hrun Hpk) as (done & Hd & Hout).
  rewrite Hq, app_nil_r in Hd. subst done. rewrite Hout, madded_mlower, filter_map_to_buffer_mini.
  apply deliver_msgs_map. apply Forall_forall. intros M HM. apply filter_In in HM as [HM _].
  rewrite Forall_forall in Hwf. now apply Hwf.
Qed.

End WithZlib.
