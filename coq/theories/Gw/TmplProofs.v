(* C03 -- the templating gateway: the sender's and the receiver's template caches stay equal
   (same entries, same order, same byte tally) after every Message, every Message decodes to
   itself in whichever of the three wire forms it was sent, and therefore the end-to-end
   theorems of FrameProofs hold.  Premises: the Message-level functions (flatten/unflatten,
   templated flatten/unflatten, template hash) -- see the Section hypotheses. *)
From Coq Require Import List NArith ZArith Bool Lia ZifyBool.
From Muscle Require Import Gen.Consts Gw.GwBase Gw.GwLemmas Gw.FrameModel Gw.TmplModel Gw.TransportProofs Gw.FrameProofs.
Import ListNotations.
Local Open Scope N_scope.

Lemma rd64_le64 n rest : n < two64 -> rd64 (le64 n ++ rest) = n.
Proof.
  intros H. unfold rd64, le64. rewrite <- app_assoc.
  assert (Hlo : n mod two32 < two32) by (apply N.mod_lt; discriminate).
  assert (Hhi : n / two32 < two32).
  { apply N.div_lt_upper_bound; [discriminate|]. exact H. }
  rewrite rd32_le32 by exact Hlo.
  change 4 with (blen (le32 (n mod two32))). rewrite drop_app_exact, rd32_le32 by exact Hhi.
  pose proof (N.div_mod n two32 ltac:(discriminate)). lia.
Qed.

Lemma default_lt_flag : c_MUSCLE_MESSAGE_ENCODING_DEFAULT < flag_bit.
Proof. vm_compute. reflexivity. Qed.
Lemma flag_twice : flag_bit + flag_bit = two32.
Proof. reflexivity. Qed.

Section TmplProofs.
  Variables MSG TPL : Type.
  Variable m_trivial : MSG -> bool.
  Variable m_what : MSG -> N.
  Variable m_of_what : N -> MSG.
  Variable m_tid : MSG -> N.
  Variable m_tmpl : MSG -> TPL.
  Variable t_tid : TPL -> N.
  Variable t_size : TPL -> N.
  Variable m_flat : MSG -> bytes.
  Variable m_unflat : bytes -> option MSG.
  Variable m_tflat : TPL -> MSG -> bytes.
  Variable m_tunflat : TPL -> bytes -> option MSG.
  Variable t_describes : TPL -> MSG -> bool.
  Variable max_cache : N.
  Variable max_in : N.

  (* ---- premises about the Message-level functions, for the Messages of the domain [wfm] *)
  Variable wfm : MSG -> Prop.
  Hypothesis H_trivial : forall m, wfm m -> m_trivial m = true ->
    m = m_of_what (m_what m) /\ m_what m < two32.
  Hypothesis H_full : forall m, wfm m -> m_trivial m = false ->
    m_unflat (m_flat m) = Some m /\ blen (m_flat m) <> 4.
  (* flattening against a template that describes the Message round-trips; NO injectivity of
     TemplateHashCode64 is assumed (the repaired gateway checks the template it finds) *)
  Hypothesis H_templated : forall m t, wfm m -> m_trivial m = false -> t_describes t m = true ->
    m_tunflat t (m_tflat t m) = Some m.
  Hypothesis H_tid : forall m, wfm m -> t_tid (m_tmpl m) = m_tid m /\ m_tid m < two64.
  (* sizes: the high bit of the two header words is a flag, so bodies stay below 2^31 *)
  Hypothesis H_size : forall m t, wfm m ->
    blen (m_flat m) < flag_bit /\ blen (m_flat m) <= max_in /\
    8 + blen (m_tflat t m) < flag_bit /\ 8 + blen (m_tflat t m) <= max_in.
  Hypothesis H_max_in : 4 <= max_in.

  Notation cache := (cache TPL).
  Notation tm_flat := (tm_flat MSG TPL m_trivial m_what m_of_what m_tid m_tmpl t_size m_flat m_tflat t_describes max_cache).
  Notation tm_unflat := (tm_unflat MSG TPL m_of_what m_tmpl t_tid t_size m_unflat m_tunflat max_cache).
  Notation c_add := (c_add MSG TPL m_of_what m_tmpl t_size max_cache).
  Notation c_trim := (c_trim MSG TPL m_of_what m_tmpl t_size max_cache).

  Definition entry_ok (e : N * TPL) : Prop :=
    exists m', wfm m' /\ m_trivial m' = false /\ snd e = m_tmpl m' /\ m_tid m' = fst e.
  Definition cache_ok (c : cache) : Prop := Forall entry_ok (fst c).
  (* the lock-step relation: the two caches are EQUAL (entries, order, tally) *)
  Definition tm_sync (cs cr : cache) : Prop := cs = cr /\ cache_ok cs.

  Lemma c_find_in id l t : c_find TPL id l = Some t -> In (id, t) l.
  Proof.
    induction l as [|[k t0] r IH]; cbn; [discriminate|].
    destruct (k =? id) eqn:E.
    - intros H. inversion H; subst. apply N.eqb_eq in E. subst. now left.
    - intros H. right. auto.
  Qed.

  Lemma c_remove_incl id l : incl (c_remove TPL id l) l.
  Proof.
    induction l as [|[k t0] r IH]; cbn; [apply incl_refl|].
    destruct (k =? id); [apply incl_tl, incl_refl|].
    intros x [Hx|Hx]; [now left|right; auto].
  Qed.

  Lemma removelast_incl {A} (l : list A) : incl (removelast l) l.
  Proof.
    induction l as [|a [|b r] IH]; cbn; [apply incl_refl|intros x []|].
    intros x [Hx|Hx]; [now left|right; apply IH; exact Hx].
  Qed.

  Lemma c_trim_incl fuel : forall l tally, incl (fst (c_trim fuel l tally)) l.
  Proof.
    induction fuel as [|f IH]; intros l tally; cbn [TmplModel.c_trim]; [apply incl_refl|].
    destruct (_ && _); [|apply incl_refl].
    eapply incl_tran; [apply IH|apply removelast_incl].
  Qed.

  Lemma Forall_incl {A} (P : A -> Prop) l l' : incl l l' -> Forall P l' -> Forall P l.
  Proof. intros Hi Hf. apply Forall_forall. intros x Hx. rewrite Forall_forall in Hf. auto. Qed.

  Lemma cache_ok_touch id c : cache_ok c -> cache_ok (c_touch TPL id c).
  Proof.
    unfold cache_ok, c_touch. intros H. destruct (c_find TPL id (fst c)) as [t|] eqn:Ef; [|exact H].
    cbn [fst]. constructor.
    - rewrite Forall_forall in H. apply (H (id, t)). now apply c_find_in.
    - eapply Forall_incl; [apply c_remove_incl|exact H].
  Qed.

  Lemma cache_ok_add id t c : entry_ok (id, t) -> cache_ok c -> cache_ok (c_add id t c).
  Proof.
    unfold cache_ok, TmplModel.c_add. intros He H.
    eapply Forall_incl; [apply c_trim_incl|].
    constructor; auto. eapply Forall_incl; [apply c_remove_incl|exact H].
  Qed.

  Lemma tm_flat_len c m : f_hs <= blen (snd (tm_flat c m)).
  Proof.
    unfold TmplModel.tm_flat. destruct (m_trivial m); [|destruct (c_find TPL (m_tid m) (fst c)) as [t|]; [destruct (t_describes t m)|]];
      cbn [snd]; unfold tm_header; rewrite !blen_app, !blen_le32, f_hs_is_8; lia.
  Qed.

  Lemma tm_body_size_hdr n create payload :
    n < flag_bit ->
    tm_body_size (tm_header n create payload) = Some n.
  Proof.
    intros Hn. unfold tm_body_size, tm_header.
    pose proof default_lt_flag as Hd. pose proof flag_twice as Ht.
    assert (E1 : rd32 (drop 4 (le32 (n + (if create then flag_bit else 0)) ++ le32 (c_MUSCLE_MESSAGE_ENCODING_DEFAULT + (if payload then flag_bit else 0))))
                 = c_MUSCLE_MESSAGE_ENCODING_DEFAULT + (if payload then flag_bit else 0)).
    { change 4 with (blen (le32 (n + (if create then flag_bit else 0)))). rewrite drop_app_exact.
      rewrite <- (app_nil_r (le32 _)). apply rd32_le32. destruct payload; lia. }
    assert (E2 : rd32 (le32 (n + (if create then flag_bit else 0)) ++ le32 (c_MUSCLE_MESSAGE_ENCODING_DEFAULT + (if payload then flag_bit else 0)))
                 = n + (if create then flag_bit else 0)).
    { apply rd32_le32. destruct create; lia. }
    rewrite E1, E2.
    assert (E3 : (c_MUSCLE_MESSAGE_ENCODING_DEFAULT + (if payload then flag_bit else 0)) mod flag_bit = c_MUSCLE_MESSAGE_ENCODING_DEFAULT).
    { destruct payload.
      - rewrite N.add_mod by discriminate. rewrite N.mod_same by discriminate. rewrite N.add_0_r, N.mod_mod by discriminate.
        apply N.mod_small. exact Hd.
      - rewrite N.add_0_r. apply N.mod_small. exact Hd. }
    assert (E4 : (n + (if create then flag_bit else 0)) mod flag_bit = n).
    { destruct create.
      - rewrite N.add_mod by discriminate. rewrite N.mod_same by discriminate. rewrite N.add_0_r, N.mod_mod by discriminate.
        apply N.mod_small. exact Hn.
      - rewrite N.add_0_r. apply N.mod_small. exact Hn. }
    rewrite E3, E4.
    assert (E5 : (c_MUSCLE_MESSAGE_ENCODING_DEFAULT <=? c_MUSCLE_MESSAGE_ENCODING_DEFAULT) && (c_MUSCLE_MESSAGE_ENCODING_DEFAULT <=? c_MUSCLE_MESSAGE_ENCODING_END_MARKER - 1) = true) by (vm_compute; reflexivity).
    now rewrite E5.
  Qed.

  (* decoding the two header words of a frame the sender built *)
  Lemma tm_unflat_head n create payload body :
    n = blen body -> n < flag_bit ->
    let buf := tm_header n create payload ++ body in
    rd32 buf = n + (if create then flag_bit else 0) /\
    rd32 (drop 4 buf) = c_MUSCLE_MESSAGE_ENCODING_DEFAULT + (if payload then flag_bit else 0) /\
    drop f_hs buf = body /\ blen buf = f_hs + n.
  Proof.
    intros -> Hn buf. subst buf. unfold tm_header.
    pose proof default_lt_flag as Hd. pose proof flag_twice as Ht.
    rewrite <- app_assoc. split; [|split; [|split]].
    - apply rd32_le32. destruct create; lia.
    - change 4 with (blen (le32 (blen body + (if create then flag_bit else 0)))). rewrite drop_app_exact.
      apply rd32_le32. destruct payload; lia.
    - rewrite app_assoc.
      change f_hs with (blen (le32 (blen body + (if create then flag_bit else 0)) ++ le32 (c_MUSCLE_MESSAGE_ENCODING_DEFAULT + (if payload then flag_bit else 0)))).
      apply drop_app_exact.
    - rewrite !blen_app, !blen_le32, f_hs_is_8. lia.
  Qed.

  Lemma tm_codec_sync cs cr m : tm_sync cs cr -> wfm m ->
    exists hdr payload cr',
      snd (tm_flat cs m) = hdr ++ payload /\ blen hdr = f_hs /\
      tm_body_size hdr = Some (blen payload) /\
      blen payload <= max_in /\ f_hs + blen payload < two32 /\
      tm_unflat cr (snd (tm_flat cs m)) = (cr', Some m) /\ tm_sync (fst (tm_flat cs m)) cr'.
  Proof.
    intros [<- Hok] Hm. unfold TmplModel.tm_flat.
    pose proof default_lt_flag as Hd. pose proof flag_twice as Ht.
    assert (Hfb : 8 <= flag_bit) by (vm_compute; discriminate).
    assert (Hmod : forall x, x < flag_bit -> (x + flag_bit) mod flag_bit = x /\ x mod flag_bit = x).
    { intros x Hx. split; [|now apply N.mod_small].
      rewrite N.add_mod by discriminate. rewrite N.mod_same by discriminate. rewrite N.add_0_r, N.mod_mod by discriminate.
      now apply N.mod_small. }
    destruct (m_trivial m) eqn:Etriv.
    - (* what-code only *)
      destruct (H_trivial m Hm Etriv) as [Hmw Hw].
      exists (tm_header 4 false false), (le32 (m_what m)), cs. cbn [fst snd].
      split; [reflexivity|]. split; [reflexivity|].
      split; [apply tm_body_size_hdr; vm_compute; reflexivity|].
      split; [exact H_max_in|]. split; [vm_compute; reflexivity|]. split; [|split; auto].
      destruct (tm_unflat_head 4 false false (le32 (m_what m)) eq_refl ltac:(vm_compute; reflexivity)) as (E1 & E2 & E3 & E4).
      unfold TmplModel.tm_unflat. rewrite E1, E2, E3, E4. rewrite !N.add_0_r.
      assert (F1 : (u32 (f_hs + 4 mod flag_bit) =? f_hs + 4) = true) by (vm_compute; reflexivity). rewrite F1.
      rewrite (proj2 (Hmod _ Hd)), N.eqb_refl. cbn [negb].
      assert (F2 : (flag_bit <=? c_MUSCLE_MESSAGE_ENCODING_DEFAULT) = false) by lia. rewrite F2.
      change (blen (le32 (m_what m)) =? 4) with true. cbv iota.
      rewrite <- (app_nil_r (le32 (m_what m))), rd32_le32 by exact Hw.
      assert (F3 : (flag_bit <=? 4) = false) by (vm_compute; reflexivity). rewrite F3.
      rewrite <- Hmw. reflexivity.
    - destruct (H_tid m Hm) as [Htid Hid64].
      destruct (c_find TPL (m_tid m) (fst cs)) as [t|] eqn:Efind.
      + destruct (t_describes t m) eqn:Edesc.
        2:{ (* same hash, other shape: plain format, caches untouched *)
          destruct (H_full m Hm Etriv) as [Hun Hne4].
          destruct (H_size m (m_tmpl m) Hm) as (Hs1 & Hs2 & _ & _).
          exists (tm_header (blen (m_flat m)) false false), (m_flat m), cs. cbn [fst snd].
          split; [reflexivity|]. split; [reflexivity|].
          split; [apply tm_body_size_hdr; lia|]. split; [lia|]. split; [rewrite f_hs_is_8; lia|].
          split; [|split; [reflexivity|exact Hok]].
          destruct (tm_unflat_head (blen (m_flat m)) false false (m_flat m) eq_refl Hs1) as (E1 & E2 & E3 & E4).
          unfold TmplModel.tm_unflat. rewrite E1, E2, E3, E4. rewrite !N.add_0_r.
          rewrite (proj2 (Hmod (blen (m_flat m)) Hs1)).
          assert (F1 : (u32 (f_hs + blen (m_flat m)) =? f_hs + blen (m_flat m)) = true).
          { unfold u32. rewrite N.mod_small; [lia|]. rewrite f_hs_is_8. lia. }
          rewrite F1. rewrite (proj2 (Hmod _ Hd)), N.eqb_refl. cbn [negb].
          assert (F2 : (flag_bit <=? c_MUSCLE_MESSAGE_ENCODING_DEFAULT) = false) by lia. rewrite F2.
          assert (F3 : (blen (m_flat m) =? 4) = false) by lia. rewrite F3, Hun.
          assert (F4 : (flag_bit <=? blen (m_flat m)) = false) by lia. rewrite F4. reflexivity. }
        (* payload only, against the cached template *)
        destruct (H_size m t Hm) as (_ & _ & Hs1 & Hs2).
        set (body := le64 (m_tid m) ++ m_tflat t m).
        assert (Hbl : blen body = 8 + blen (m_tflat t m)) by (unfold body, le64; rewrite !blen_app, !blen_le32; lia).
        exists (tm_header (blen body) false true), body, (c_touch TPL (m_tid m) cs). cbn [fst snd].
        split; [reflexivity|]. split; [reflexivity|].
        split; [apply tm_body_size_hdr; lia|]. split; [lia|]. split; [rewrite f_hs_is_8; lia|].
        split; [|split; [reflexivity|apply cache_ok_touch; exact Hok]].
        destruct (tm_unflat_head (blen body) false true body eq_refl ltac:(lia)) as (E1 & E2 & E3 & E4).
        unfold TmplModel.tm_unflat. rewrite E1, E2, E3, E4. rewrite N.add_0_r.
        rewrite (proj2 (Hmod (blen body) ltac:(lia))).
        assert (F1 : (u32 (f_hs + blen body) =? f_hs + blen body) = true).
        { unfold u32. rewrite N.mod_small; [lia|]. rewrite f_hs_is_8. lia. }
        rewrite F1. rewrite (proj1 (Hmod _ Hd)), N.eqb_refl. cbn [negb].
        assert (F2 : (flag_bit <=? c_MUSCLE_MESSAGE_ENCODING_DEFAULT + flag_bit) = true) by lia. rewrite F2.
        assert (F3 : (flag_bit <=? blen body) = false) by lia. rewrite F3.
        assert (F4 : (8 <=? blen body) = true) by lia. rewrite F4.
        assert (Hrd : rd64 body = m_tid m) by (unfold body; apply rd64_le64; exact Hid64).
        assert (Hdrop : drop 8 body = m_tflat t m).
        { unfold body. exact (drop_app_exact (le64 (m_tid m)) (m_tflat t m)). }
        rewrite Hrd, Efind, Hdrop. f_equal. apply H_templated; auto.
      + (* full Message, the receiver creates the template too *)
        destruct (H_full m Hm Etriv) as [Hun Hne4].
        destruct (H_size m (m_tmpl m) Hm) as (Hs1 & Hs2 & _ & _).
        exists (tm_header (blen (m_flat m)) true false), (m_flat m), (c_add (m_tid m) (m_tmpl m) cs). cbn [fst snd].
        split; [reflexivity|]. split; [reflexivity|].
        split; [apply tm_body_size_hdr; lia|]. split; [lia|]. split; [rewrite f_hs_is_8; lia|].
        split.
        * destruct (tm_unflat_head (blen (m_flat m)) true false (m_flat m) eq_refl Hs1) as (E1 & E2 & E3 & E4).
          unfold TmplModel.tm_unflat. rewrite E1, E2, E3, E4. rewrite N.add_0_r.
          rewrite (proj1 (Hmod (blen (m_flat m)) Hs1)).
          assert (F1 : (u32 (f_hs + blen (m_flat m)) =? f_hs + blen (m_flat m)) = true).
          { unfold u32. rewrite N.mod_small; [lia|]. rewrite f_hs_is_8. lia. }
          rewrite F1. rewrite (proj2 (Hmod _ Hd)), N.eqb_refl. cbn [negb].
          assert (F2 : (flag_bit <=? c_MUSCLE_MESSAGE_ENCODING_DEFAULT) = false) by lia. rewrite F2.
          assert (F3 : (blen (m_flat m) =? 4) = false) by lia. rewrite F3, Hun.
          assert (F4 : (flag_bit <=? blen (m_flat m) + flag_bit) = true) by lia. rewrite F4.
          rewrite Htid. reflexivity.
        * split; [reflexivity|]. apply cache_ok_add; auto.
          exists m. cbn [fst snd]. auto.
  Qed.

  Notation tm_run := (sys_run fs_queue (tm_do_output MSG TPL m_trivial m_what m_of_what m_tid m_tmpl t_size m_flat m_tflat t_describes max_cache)
                        (tm_do_input MSG TPL m_of_what m_tmpl t_tid t_size m_unflat m_tunflat max_cache max_in)).
  Definition tm_sys0 := f_sys0 MSG cache cache (cache0 TPL) (cache0 TPL).
  Definition tm_rem := fs_rem MSG cache tm_flat.

  Lemma tm_sync0 : tm_sync (cache0 TPL) (cache0 TPL).
  Proof. split; [reflexivity|constructor]. Qed.

  Theorem tm_prefix_safety (evs : list (event MSG)) :
    Forall (ev_wf wfm) evs -> exists tl, ev_msgs evs = s_dlv (tm_run tm_sys0 evs) ++ tl.
  Proof.
    exact (frame_prefix_safety MSG cache cache tm_flat tm_unflat tm_body_size max_in (cache0 TPL) (cache0 TPL)
             tm_flat_len tm_sync wfm tm_sync0 tm_codec_sync evs).
  Qed.

  Theorem tm_completeness (evs : list (event MSG)) :
    Forall (ev_wf wfm) evs ->
    tm_rem (s_snd (tm_run tm_sys0 evs)) = [] -> s_pipe (tm_run tm_sys0 evs) = [] ->
    s_dlv (tm_run tm_sys0 evs) = ev_msgs evs.
  Proof.
    exact (frame_completeness MSG cache cache tm_flat tm_unflat tm_body_size max_in (cache0 TPL) (cache0 TPL)
             tm_flat_len tm_sync wfm tm_sync0 tm_codec_sync evs).
  Qed.

  Theorem tm_fair_completion (evs : list (event MSG)) (rs : list (list (event MSG))) :
    Forall (ev_wf wfm) evs -> Forall round rs ->
    (measure tm_rem (fun _ => 0%nat) (tm_run tm_sys0 evs) <= length rs)%nat ->
    let st := tm_run tm_sys0 (evs ++ concat rs) in
    quiet tm_rem st /\ s_dlv st = ev_msgs evs.
  Proof.
    exact (frame_fair_completion MSG cache cache tm_flat tm_unflat tm_body_size max_in (cache0 TPL) (cache0 TPL)
             tm_flat_len tm_sync wfm tm_sync0 tm_codec_sync evs rs).
  Qed.

  (* the lock-step statement itself: whatever has happened, once the receiver has consumed
     everything the sender produced the two template caches are equal (entries, order, tally) *)
  Lemma tm_caches_in_step ms : Forall wfm ms -> forall cs cr, tm_sync cs cr ->
    exists cr', f_feed MSG cache tm_unflat tm_body_size max_in (idle cache cr) (wire_from MSG cache tm_flat cs ms) = (idle cache cr', ms) /\
                tm_sync (cs_after MSG cache tm_flat cs ms) cr'.
  Proof.
    intros H cs cr Hs.
    exact (f_feed_wire MSG cache cache tm_flat tm_unflat tm_body_size max_in tm_flat_len tm_sync wfm tm_codec_sync ms H cs cr Hs).
  Qed.
End TmplProofs.

(* ---------------------------------------------------------------------- the premises are satisfiable:
   a toy Message type (what-code, list of field values); the "template" of a Message is its
   field count, the template hash is injective on it. *)
Module Toy.
  Definition MSG := (N * list N)%type.
  Definition TPL := nat.
  Definition m_trivial (m : MSG) : bool := match snd m with [] => true | _ => false end.
  Definition m_what (m : MSG) : N := fst m.
  Definition m_of_what (w : N) : MSG := (w, []).
  Definition m_tmpl (m : MSG) : TPL := length (snd m).
  Definition t_tid (t : TPL) : N := N.of_nat t + 1.
  Definition m_tid (m : MSG) : N := t_tid (m_tmpl m).
  Definition t_size (t : TPL) : N := 12 + N.of_nat t.
  Definition m_flat (m : MSG) : bytes := le32 (fst m) ++ le32 (blen (snd m)) ++ snd m.
  Definition m_unflat (b : bytes) : option MSG :=
    if (8 <=? blen b) && (rd32 (drop 4 b) =? blen (drop 8 b)) then Some (rd32 b, drop 8 b) else None.
  Definition m_tflat (t : TPL) (m : MSG) : bytes := le32 (fst m) ++ snd m.
  Definition m_tunflat (t : TPL) (b : bytes) : option MSG :=
    if blen b =? 4 + N.of_nat t then Some (rd32 b, drop 4 b) else None.
  Definition t_describes (t : TPL) (m : MSG) : bool := Nat.eqb t (length (snd m)).
  Definition wfm (m : MSG) : Prop := fst m < two32 /\ blen (snd m) < 1000.

  Lemma H_trivial m : wfm m -> m_trivial m = true -> m = m_of_what (m_what m) /\ m_what m < two32.
  Proof.
    destruct m as [w fs]. unfold wfm, m_trivial, m_of_what, m_what. cbn. intros [Hw _] Hf.
    destruct fs; [auto|discriminate].
  Qed.

  Lemma H_full m : wfm m -> m_trivial m = false -> m_unflat (m_flat m) = Some m /\ blen (m_flat m) <> 4.
  Proof.
    destruct m as [w fs]. unfold wfm, m_trivial, m_flat, m_unflat. cbn [fst snd]. intros [Hw Hl] Hf.
    assert (E1 : rd32 (le32 w ++ le32 (blen fs) ++ fs) = w) by (apply rd32_le32; exact Hw).
    assert (E2 : drop 4 (le32 w ++ le32 (blen fs) ++ fs) = le32 (blen fs) ++ fs) by (exact (drop_app_exact (le32 w) _)).
    assert (E3 : drop 8 (le32 w ++ le32 (blen fs) ++ fs) = fs).
    { rewrite app_assoc. exact (drop_app_exact (le32 w ++ le32 (blen fs)) fs). }
    rewrite E1, E2, E3, rd32_le32 by (unfold two32; lia). rewrite N.eqb_refl.
    rewrite !blen_app, !blen_le32.
    assert ((8 <=? 4 + (4 + blen fs)) = true) by lia. rewrite H. split; [reflexivity|lia].
  Qed.

  Lemma H_templated m t : wfm m -> m_trivial m = false -> t_describes t m = true ->
    m_tunflat t (m_tflat t m) = Some m.
  Proof.
    destruct m as [w fs]. unfold wfm, t_describes, m_tunflat, m_tflat. cbn [fst snd].
    intros [Hw _] _ Hd. apply Nat.eqb_eq in Hd. subst t.
    rewrite blen_app, blen_le32. unfold blen. rewrite N.eqb_refl.
    rewrite rd32_le32 by exact Hw.
    assert (E : drop 4 (le32 w ++ fs) = fs) by exact (drop_app_exact (le32 w) fs).
    unfold bytes, byte in *. rewrite E. reflexivity.
  Qed.

  Lemma H_tid m : wfm m -> t_tid (m_tmpl m) = m_tid m /\ m_tid m < two64.
  Proof.
    destruct m as [w fs]. unfold wfm, m_tid, t_tid, m_tmpl. cbn [fst snd]. intros [_ Hl].
    split; [reflexivity|]. unfold blen, two64 in *. lia.
  Qed.

  Lemma H_size m (t : TPL) : wfm m ->
    blen (m_flat m) < flag_bit /\ blen (m_flat m) <= c_MUSCLE_NO_LIMIT /\
    8 + blen (m_tflat t m) < flag_bit /\ 8 + blen (m_tflat t m) <= c_MUSCLE_NO_LIMIT.
  Proof.
    destruct m as [w fs]. unfold wfm, m_flat, m_tflat. cbn [fst snd]. intros [_ Hl].
    rewrite !blen_app, !blen_le32.
    assert (flag_bit = 2147483648) by reflexivity. assert (c_MUSCLE_NO_LIMIT = 4294967295) by reflexivity. lia.
  Qed.
End Toy.

(* ---------------------------------------------------------------------- the hash-collision finding.
   A toy instance in which every template hashes to the same id and TemplatedFlatten pads /
   truncates to the template's shape (as the real one does).  Trusting the hash
   ([t_describes := fun _ _ => true], the behaviour before the fix) delivers an ALTERED second
   Message; with the template check the same run delivers exactly what was sent.  The real-code
   replay is the directed case "P:0:..|q:{a:int32x3,b:int32x1};q:{a:int32x1,b:int32x2};.." of
   checks/c03.py. *)
Module ToyCollide.
  Import Toy.
  Definition c_tid (_ : MSG) : N := 7.
  Definition c_ttid (_ : TPL) : N := 7.
  Definition c_tflat (t : TPL) (m : MSG) : bytes := le32 (fst m) ++ firstn t (snd m ++ repeat 0 t).
  Definition big : N := c_MUSCLE_NO_LIMIT.
  Definition A : MSG := (1, [1; 2; 3]).
  Definition B : MSG := (1, [5]).
  Definition evs : list (event MSG) :=
    [EQueue A; EQueue B; EOut big [big; big; big]; EIn big [big; big; big; big; big; big]].
  Definition run (describes : TPL -> MSG -> bool) :=
    sys_run fs_queue
      (tm_do_output MSG TPL m_trivial m_what m_of_what c_tid m_tmpl t_size m_flat c_tflat describes 1000)
      (tm_do_input MSG TPL m_of_what m_tmpl c_ttid t_size m_unflat m_tunflat 1000 big)
      (tm_sys0 MSG TPL) evs.

  Lemma tm_collision_refuted :
    ev_msgs evs = [A; B] /\
    s_dlv (run (fun _ _ => true)) = [A; (1, [5; 0; 0])] /\      (* hash trusted: altered *)
    s_dlv (run t_describes) = [A; B].                           (* template checked: exact *)
  Proof. vm_compute. auto. Qed.
End ToyCollide.
