(* C12 -- proofs about the PacketTunnelIOGateway model, part 4: completeness of the receiver.

   A receiver whose state for a source is "in step" with that source's output cursor stays in step
   while it is fed the source's fragments in order, and hands over exactly the Messages the chain
   completes (those that fit _maxIncomingMessageSize), once each, in order. *)
From Coq Require Import List Arith NArith Bool Lia.
From Coq Require Import Strings.Byte.
From Muscle Require Import Common.LE Gen.Consts Gw.Tunnel Gw.TunnelProofs Gw.TunnelSound Gw.TunnelSender.
Import ListNotations.
Local Open Scope N_scope.

Definition fits (rc : rcfg) (m : msg) : bool := lenN m <=? rc_max_in rc.

(* sender and receiver are configured for each other *)
Definition compat (c : scfg) (rc : rcfg) : Prop :=
  sc_magic c = rc_magic rc /\ sex_ok rc (sc_sex c) = true /\ sc_mtu c <= rc_mtu rc.

(* the receive state does not carry the id of any of the next n Messages *)
Definition idle (o : option rstate) (id : N) (n : nat) : Prop :=
  match o with
  | None => True
  | Some rs => forall i, (i < n)%nat -> r_id rs <> u32 (id + N.of_nat i)
  end.

(* the receive state is in step with the output cursor (id, off, q) *)
Definition sync (rc : rcfg) (o : option rstate) (id off : N) (q : list msg) : Prop :=
  match q with
  | [] => True
  | m :: _ =>
      if (off =? 0) || negb (fits rc m) then idle o id (length q)
      else exists rs, o = Some rs /\ r_id rs = id /\ r_off rs = off /\ lenN (r_buf rs) = lenN m
                      /\ takeN off (r_buf rs) = takeN off m
  end.

Lemma rs_steps_app o fs1 fs2 :
  rs_steps o (fs1 ++ fs2) =
    let '(o1, out1) := rs_steps o fs1 in let '(o2, out2) := rs_steps o1 fs2 in (o2, out1 ++ out2).
Proof.
  revert o. induction fs1 as [|f fs1 IH]; intros o; cbn [app rs_steps].
  - destruct (rs_steps o fs2). reflexivity.
  - destruct (rs_step o f) as [o1 out1]. rewrite IH.
    destruct (rs_steps o1 fs1) as [o2 out2]. destruct (rs_steps o2 fs2) as [o3 out3].
    now rewrite app_assoc.
Qed.

(* ------------------------------------------------------------------ one slice arriving where it is expected *)

Lemma accept_slice c id (m : msg) off n buf :
  lenN buf = lenN m -> takeN off buf = takeN off m -> off + n <= lenN m -> lenN m < two32 ->
  exists buf',
    accept (mkR id off buf) (frag_of c id m off n) =
      (if off + n =? lenN m then (mkR id 0 [], [m]) else (mkR id (off + n) buf', []))
    /\ lenN buf' = lenN m /\ takeN (off + n) buf' = takeN (off + n) m.
Proof.
  intros HL HP Hle Hm.
  set (dat := takeN n (dropN off m)).
  assert (Hd : lenN dat = n) by (apply lenN_slice; exact Hle).
  exists (takeN off buf ++ dat ++ dropN (off + n) buf).
  assert (HL' : lenN (takeN off buf ++ dat ++ dropN (off + n) buf) = lenN m).
  { rewrite <- Hd at 1. rewrite splice_length; lia. }
  assert (HP' : takeN (off + n) (takeN off buf ++ dat ++ dropN (off + n) buf) = takeN (off + n) m).
  { rewrite <- Hd. apply splice_prefix; [lia|exact HP|]. unfold dat at 1. now rewrite Hd. }
  split; [|split; assumption].
  unfold accept. cbn [frag_of f_id f_total f_off f_data r_id r_off r_buf]. fold dat. rewrite Hd.
  rewrite N.eqb_refl. rewrite HL, !N.eqb_refl. cbn [andb].
  assert (T4 : (two32 <=? off + n) = false) by (apply N.leb_gt; lia).
  assert (T5 : (off + n <=? lenN m) = true) by (apply N.leb_le; lia).
  rewrite T4, T5. cbn [negb andb].
  destruct (off + n =? lenN m) eqn:Tfin; [|reflexivity].
  apply N.eqb_eq in Tfin. f_equal. f_equal.
  apply list_eq_of_takeN; [exact HL'|]. rewrite HL', <- Tfin. exact HP'.
Qed.

Lemma rs_step_first c o id (m : msg) n :
  match o with None => True | Some rs => r_id rs <> id end ->
  rs_step o (frag_of c id m 0 n) =
    let '(rs', out) := accept (mkR id 0 (junk (lenN m))) (frag_of c id m 0 n) in (Some rs', out).
Proof.
  intros H. unfold rs_step. destruct o as [rs|].
  - unfold restart_if_new. cbn [frag_of f_off f_id f_total]. rewrite N.eqb_refl.
    destruct (N.eqb_spec id (r_id rs)) as [E|E]; [congruence|]. cbn [negb andb]. reflexivity.
  - cbn [frag_of f_off f_id f_total]. rewrite N.eqb_refl. reflexivity.
Qed.

Lemma idle_head o id n : id < two32 -> idle o id (S n) -> match o with None => True | Some rs => r_id rs <> id end.
Proof.
  intros Hid H. destruct o as [rs|]; [|exact I]. cbn [idle] in H.
  specialize (H 0%nat ltac:(lia)). replace (id + N.of_nat 0) with id in H by lia.
  now rewrite u32_small in H.
Qed.

Lemma idle_tail o id n : idle o id (S n) -> idle o (u32 (id + 1)) n.
Proof.
  destruct o as [rs|]; [|trivial]. cbn [idle]. intros H i Hi.
  specialize (H (S i) ltac:(lia)). rewrite u32_add_l. replace (id + 1 + N.of_nat i) with (id + N.of_nat (S i)) by lia.
  exact H.
Qed.

Lemma idle_after_delivery id n :
  id < two32 -> N.of_nat n < two32 -> idle (Some (mkR id 0 [])) (u32 (id + 1)) n.
Proof.
  intros Hid Hn. cbn [idle r_id]. intros i Hi E. symmetry in E. revert E.
  rewrite u32_add_l. replace (id + 1 + N.of_nat i) with (id + (1 + N.of_nat i)) by lia.
  apply u32_shift_inj; [assumption|lia|lia].
Qed.

(* a slice of a Message that fits, arriving at a receiver in step *)
Lemma rs_step_slice rc c o id off (m : msg) q n :
  id < two32 -> lenN m < two32 -> off + n <= lenN m ->
  fits rc m = true -> sync rc o id off (m :: q) ->
  exists rs',
    rs_step o (frag_of c id m off n) = (Some rs', if off + n =? lenN m then [m] else [])
    /\ if off + n =? lenN m then rs' = mkR id 0 []
       else r_id rs' = id /\ r_off rs' = off + n /\ lenN (r_buf rs') = lenN m
            /\ takeN (off + n) (r_buf rs') = takeN (off + n) m.
Proof.
  intros Hid Hm Hle Hfit Hs. cbn [sync] in Hs. rewrite Hfit in Hs. cbn [negb] in Hs. rewrite orb_false_r in Hs.
  destruct (N.eqb_spec off 0) as [->|Hoff].
  - apply idle_head in Hs; [|exact Hid].
    rewrite (rs_step_first c o id m n Hs).
    destruct (accept_slice c id m 0 n (junk (lenN m)) (lenN_junk _) eq_refl Hle Hm) as (buf' & Ha & HL & HP).
    rewrite Ha. destruct (0 + n =? lenN m).
    + exists (mkR id 0 []). auto.
    + exists (mkR id (0 + n) buf'). cbn [r_id r_off r_buf]. auto.
  - destruct Hs as (rs & -> & Hrid & Hroff & HL & HP).
    unfold rs_step, restart_if_new. cbn [frag_of f_off f_id f_total].
    destruct (N.eqb_spec off 0) as [E|_]; [congruence|]. cbn [andb].
    destruct rs as [rid roff rbuf]. cbn [r_id r_off r_buf] in *. subst rid roff.
    destruct (accept_slice c id m off n rbuf HL HP Hle Hm) as (buf' & Ha & HL' & HP').
    change (mkFrag (sc_magic c) (sc_sex c) id off (lenN m) (takeN n (dropN off m))) with (frag_of c id m off n).
    rewrite Ha. destruct (off + n =? lenN m).
    + exists (mkR id 0 []). auto.
    + exists (mkR id (off + n) buf'). cbn [r_id r_off r_buf]. auto.
Qed.

(* ------------------------------------------------------------------ a whole chain *)

Definition frag_compat (c : scfg) (rc : rcfg) : Prop := sc_magic c = rc_magic rc /\ sex_ok rc (sc_sex c) = true.

Lemma accepted_frag_of rc c id (m : msg) off n fs :
  frag_compat c rc ->
  accepted rc (frag_of c id m off n :: fs) =
    if fits rc m then frag_of c id m off n :: accepted rc fs else accepted rc fs.
Proof.
  intros [Hm Hs]. cbn [accepted frag_of f_magic f_sex f_total].
  rewrite Hm, N.eqb_refl, Hs. reflexivity.
Qed.

Lemma rs_chain rc c id off q fs id' off' q' :
  chain c id off q fs id' off' q' ->
  frag_compat c rc ->
  id < two32 -> N.of_nat (length q) <= two32 -> Forall (fun m => lenN m < two32) q ->
  forall o, sync rc o id off q ->
  exists o' done,
    q = done ++ q'
    /\ rs_steps o (accepted rc fs) = (o', filter (fits rc) done)
    /\ sync rc o' id' off' q'.
Proof.
  intros H Hc. induction H; intros Hid Hlen Hq o Hs.
  - exists o, []. cbn. auto.
  - (* a slice that leaves the Message unfinished *)
    inversion Hq as [|? ? Hm Hq0]; subst.
    rewrite accepted_frag_of by assumption.
    destruct (fits rc m) eqn:Hfit.
    + destruct (rs_step_slice rc c o id off m q n Hid Hm ltac:(lia) Hfit Hs) as (rs' & Hstep & Hrs').
      assert (Hne : (off + n =? lenN m) = false) by (apply N.eqb_neq; lia).
      rewrite Hne in Hstep, Hrs'. destruct Hrs' as (R1 & R2 & R3 & R4).
      assert (Hs' : sync rc (Some rs') id (off + n) (m :: q)).
      { cbn [sync]. rewrite Hfit. cbn [negb]. rewrite orb_false_r.
        destruct (N.eqb_spec (off + n) 0) as [E|_]; [lia|]. exists rs'. auto. }
      destruct (IHchain Hid Hlen Hq (Some rs') Hs') as (o' & done & Hd & Hst & Hsy).
      exists o', done. split; [exact Hd|]. split; [|exact Hsy].
      cbn [rs_steps]. rewrite Hstep, Hst. reflexivity.
    + assert (Hs' : sync rc o id (off + n) (m :: q)).
      { cbn [sync] in *. rewrite Hfit in *. cbn [negb] in *. rewrite orb_true_r in *. exact Hs. }
      exact (IHchain Hid Hlen Hq o Hs').
  - (* the slice that completes the Message *)
    inversion Hq as [|? ? Hm Hq0]; subst.
    cbn [length] in Hlen.
    rewrite accepted_frag_of by assumption.
    destruct (fits rc m) eqn:Hfit.
    + destruct (rs_step_slice rc c o id off m q n Hid Hm ltac:(lia) Hfit Hs) as (rs' & Hstep & Hrs').
      assert (Heq : (off + n =? lenN m) = true) by (apply N.eqb_eq; lia).
      rewrite Heq in Hstep, Hrs'. subst rs'.
      assert (Hs' : sync rc (Some (mkR id 0 [])) (u32 (id + 1)) 0 q).
      { destruct q as [|m1 q1]; [exact I|]. cbn [sync]. rewrite N.eqb_refl. cbn [orb].
        apply idle_after_delivery; [exact Hid|]. cbn [length] in *. lia. }
      destruct (IHchain (u32_lt _) ltac:(lia) Hq0 _ Hs') as (o' & done & Hd & Hst & Hsy).
      exists o', (m :: done). split; [now rewrite Hd|]. split; [|exact Hsy].
      cbn [rs_steps filter]. rewrite Hfit, Hstep, Hst. reflexivity.
    + assert (Hs' : sync rc o (u32 (id + 1)) 0 q).
      { destruct q as [|m1 q1]; [exact I|]. cbn [sync] in *. rewrite Hfit in Hs. cbn [negb] in Hs.
        rewrite orb_true_r in Hs. rewrite N.eqb_refl. cbn [orb]. apply idle_tail. exact Hs. }
      destruct (IHchain (u32_lt _) ltac:(lia) Hq0 _ Hs') as (o' & done & Hd & Hst & Hsy).
      exists o', (m :: done). split; [now rewrite Hd|]. split; [|exact Hsy].
      cbn [filter]. rewrite Hfit. exact Hst.
Qed.

(* ------------------------------------------------------------------ packets *)

Lemma accepted_compat rc fs :
  Forall (fun f => (f_magic f =? rc_magic rc) && sex_ok rc (f_sex f) = true) fs ->
  accepted rc fs = filter (fun f => f_total f <=? rc_max_in rc) fs.
Proof.
  induction fs as [|f fs IH]; intros H; [reflexivity|].
  inversion H as [|? ? Hf Hfs]; subst. cbn [accepted filter]. rewrite Hf, IH by assumption. reflexivity.
Qed.

Lemma accepted_app_compat rc fs1 fs2 :
  Forall (fun f => (f_magic f =? rc_magic rc) && sex_ok rc (f_sex f) = true) fs1 ->
  accepted rc (fs1 ++ fs2) = accepted rc fs1 ++ accepted rc fs2.
Proof.
  induction fs1 as [|f fs1 IH]; intros H; [reflexivity|].
  inversion H as [|? ? Hf Hfs]; subst. cbn [accepted app]. rewrite Hf, IH by assumption.
  destruct (f_total f <=? rc_max_in rc); reflexivity.
Qed.

Lemma first_word_enc_frags magic f fs :
  f_magic f = magic -> magic < two32 -> first_word_is magic (enc_frags (f :: fs)) = true.
Proof.
  intros Hm Hlt. unfold first_word_is. rewrite enc_frags_cons. unfold enc_frag. rewrite <- !app_assoc.
  rewrite rd32_le32, Hm, u32_small by assumption. apply N.eqb_refl.
Qed.

(* the receiver fed one packet that is the encoding of fs, from source a *)
Lemma recv_packet_enc rc t a fs :
  tbl_wf t -> Forall wire_ok fs -> lenN (enc_frags fs) <= rc_mtu rc ->
  Forall (fun f => f_magic f = rc_magic rc) fs ->
  let '(t', out) := recv_packet rc t a (enc_frags fs) in
  let '(o', out') := rs_steps (tbl_find a t) (accepted rc fs) in
  tbl_wf t' /\ tbl_find a t' = o' /\ out = map (pair a) out'.
Proof.
  intros Hwf Hw Hlen Hmg. unfold recv_packet. rewrite takeN_all by exact Hlen.
  destruct fs as [|f fs].
  - cbn. auto.
  - assert (Hpos : (lenN (enc_frags (f :: fs)) =? 0) = false).
    { apply N.eqb_neq. rewrite enc_frags_cons, lenN_app, lenN_enc_frag, FHS_val. lia. }
    rewrite Hpos.
    assert (Hmisc : (lenN (enc_frags (f :: fs)) <? FHS) || negb (first_word_is (rc_magic rc) (enc_frags (f :: fs))) = false).
    { inversion Hmg as [|? ? Hf _]; subst. inversion Hw as [|? ? Hwf0 _]; subst.
      rewrite first_word_enc_frags; [|exact Hf|rewrite <- Hf; apply Hwf0].
      cbn [negb]. rewrite orb_false_r. apply N.ltb_ge.
      rewrite enc_frags_cons, lenN_app, lenN_enc_frag. lia. }
    rewrite Hmisc, andb_false_r.
    rewrite parse_enc; [|exact Hw|apply length_enc_frags].
    pose proof (recv_frags_own t a (accepted rc (f :: fs)) Hwf) as Hown.
    destruct (recv_frags t a (accepted rc (f :: fs))) as [t1 o1].
    destruct (rs_steps (tbl_find a t) (accepted rc (f :: fs))) as [r1 p1].
    destruct Hown as (H1 & H2 & H3). subst. auto.
Qed.

Lemma recv_all_enc rc a fss : forall t,
  tbl_wf t ->
  Forall (fun fs => Forall wire_ok fs /\ lenN (enc_frags fs) <= rc_mtu rc
                    /\ Forall (fun f => (f_magic f =? rc_magic rc) && sex_ok rc (f_sex f) = true) fs) fss ->
  let '(t', out) := recv_all rc t (map (pair a) (map enc_frags fss)) in
  let '(o', out') := rs_steps (tbl_find a t) (accepted rc (concat fss)) in
  tbl_wf t' /\ tbl_find a t' = o' /\ out = map (pair a) out'.
Proof.
  induction fss as [|fs fss IH]; intros t Hwf Hall.
  - cbn. auto.
  - inversion Hall as [|? ? (Hw & Hlen & Hc) Hrest]; subst.
    cbn [map recv_all concat].
    assert (Hmg : Forall (fun f => f_magic f = rc_magic rc) fs).
    { eapply Forall_impl; [|exact Hc]. intros f Hf. apply andb_prop in Hf as [Hf _]. now apply N.eqb_eq. }
    pose proof (recv_packet_enc rc t a fs Hwf Hw Hlen Hmg) as H1.
    destruct (recv_packet rc t a (enc_frags fs)) as [t1 o1].
    rewrite accepted_app_compat by exact Hc. rewrite rs_steps_app.
    destruct (rs_steps (tbl_find a t) (accepted rc fs)) as [r1 p1].
    destruct H1 as (Hwf1 & Hf1 & Ho1). subst r1 o1.
    specialize (IH t1 Hwf1 Hrest).
    destruct (recv_all rc t1 (map (pair a) (map enc_frags fss))) as [t2 o2].
    destruct (rs_steps (tbl_find a t1) (accepted rc (concat fss))) as [r2 p2].
    destruct IH as (Hwf2 & Hf2 & Ho2). subst. rewrite map_app. auto.
Qed.
