(* C03 -- model of lang/c/minimessage/MiniMessageGateway.c (the C "mini" gateway, which speaks the
   binary gateway's DEFAULT encoding).  No proofs in this file.  A Message is its flattened bytes.

   Sender   MGAddOutgoingMessage (66-93) builds the whole frame (size word, 'Enc0', flattened Message) when
            the Message is queued; MGDoOutput (96-127): while there is a buffer, send
            min(bytes left in it, maxBytes); a complete buffer is dropped; a short write ends the call.
   Receiver MGDoInput (132-219): read up to _maxInputPos (8 for the header, then 8+bodySize); header
            complete: bodySize 0 or an encoding other than 'Enc0' or bodySize+8 wrapping is an error
            (-1), the input buffer is replaced by one of 2*(bodySize+8) bytes when it is too small (error if
            that doubles past 2^32); body complete: MMUnflattenMessage, reset, RETURN the Message (at most
            one Message per call); a short read ends the call.  After an error the C code keeps no flag:
            the state simply stays full (_curInputPos = _maxInputPos), so later calls read nothing. *)
From Coq Require Import List NArith Bool.
From Muscle Require Import Gen.Consts Gw.GwBase.
Import ListNotations.
Local Open Scope N_scope.

Definition mg_hs : N := 8.
Definition mg_shrink : N := 65536.       (* "For input buffers over 64KB ... reclaim the extra space" *)

Definition mg_frame (body : bytes) : bytes :=
  le32 (blen body) ++ le32 c_MUSCLE_MESSAGE_ENCODING_DEFAULT ++ body.

(* ---------------------------------------------------------------------- sender *)
Record msend := mkMS {
  mg_bufs : list bytes;     (* the linked list of output buffers (frames) *)
  mg_off : N }.             (* _curOutputPos, counted from the first frame byte *)

Definition ms_init : msend := mkMS [] 0.
Definition ms_queue (st : msend) (m : bytes) : msend := mkMS (mg_bufs st ++ [mg_frame m]) (mg_off st).
(* MGHasBytesToOutput: _curOutput != NULL *)
Definition mg_has_bytes (st : msend) : bool := match mg_bufs st with [] => false | _ => true end.

Fixpoint mg_out (scr : list N) (st : msend) (maxb : N) (acc : bytes) {struct scr} : msend * bytes :=
  match mg_bufs st with
  | [] => (st, acc)
  | b :: r =>
      let tosend := N.min (blen b - mg_off st) maxb in
      if tosend =? 0 then (st, acc) else
      let '(x, _) := io_write (take tosend (drop (mg_off st) b)) scr in
      let st' := if mg_off st + blen x =? blen b then mkMS r 0 else mkMS (b :: r) (mg_off st + blen x) in
      if blen x <? tosend then (st', acc ++ x) else
      match scr with
      | [] => (st', acc ++ x)
      | _ :: scr' => mg_out scr' st' (maxb - blen x) (acc ++ x)
      end
  end.

Definition mg_do_output (st : msend) (maxb : N) (scr : list N) : msend * bytes := mg_out scr st maxb [].

(* ---------------------------------------------------------------------- receiver *)
Record mrecv := mkMR {
  mr_got : bytes;        (* _curInput[0.._curInputPos) *)
  mr_max : N;            (* _maxInputPos *)
  mr_size : N }.         (* _curInput->numBytes *)

Definition mr_init : mrecv := mkMR [] mg_hs mg_hs.

(* the input position has reached _maxInputPos (lines 150-213): new state, Message to return, error? *)
Definition mg_complete (st : mrecv) : mrecv * list bytes * bool :=
  let got := mr_got st in
  if mg_hs <? blen got then
    (* body complete; MMUnflattenMessage is outside this model (bodies are valid flattened Messages) *)
    (mkMR [] mg_hs (if mg_shrink <? mr_size st then mg_shrink else mr_size st), [drop mg_hs got], false)
  else
    let body := rd32 got in
    let enc := rd32 (drop 4 got) in
    if (body =? 0) || negb (enc =? c_MUSCLE_MESSAGE_ENCODING_DEFAULT) then (st, [], true)
    else if two32 <=? body + mg_hs then (st, [], true)
    else
      let total := body + mg_hs in
      if mr_size st <? total then
        if two32 <=? 2 * total then (st, [], true)
        else (mkMR got total (2 * total), [], false)
      else (mkMR got total (mr_size st), [], false).

(* result of a call: state, Message returned (at most one), rest of the pipe, error (-1) *)
Fixpoint mg_in (scr : list N) (st : mrecv) (maxb : N) (pipe : bytes) {struct scr}
  : mrecv * list bytes * bytes * bool :=
  let torecv := N.min (mr_max st - blen (mr_got st)) maxb in
  if torecv =? 0 then (st, [], pipe, false) else
  let '(x, pipe', _) := io_read torecv scr pipe in
  let st1 := mkMR (mr_got st ++ x) (mr_max st) (mr_size st) in
  let '(st2, o, err) := if blen (mr_got st) + blen x =? mr_max st then mg_complete st1 else (st1, [], false) in
  if err then (st2, [], pipe', true)
  else match o with
       | _ :: _ => (st2, o, pipe', false)                       (* "return it to him now" *)
       | [] =>
           if blen x <? torecv then (st2, [], pipe', false) else
           match scr with
           | [] => (st2, [], pipe', false)
           | _ :: scr' => mg_in scr' st2 (maxb - blen x) pipe'
           end
       end.

Definition mg_do_input (st : mrecv) (maxb : N) (scr : list N) (pipe : bytes) : mrecv * list bytes * bytes :=
  let '(st', o, p, _) := mg_in scr st maxb pipe in (st', o, p).

(* byte-at-a-time reference machine *)
Definition mg_byte (st : mrecv) (b : byte) : mrecv * list bytes :=
  if mr_max st <=? blen (mr_got st) then (st, [])            (* full: stuck after an error *)
  else
    let st1 := mkMR (mr_got st ++ [b]) (mr_max st) (mr_size st) in
    if blen (mr_got st) + 1 =? mr_max st then let '(st2, o, _) := mg_complete st1 in (st2, o) else (st1, []).

Fixpoint mg_feed (st : mrecv) (bs : bytes) : mrecv * list bytes :=
  match bs with
  | [] => (st, [])
  | b :: t => let '(st1, o1) := mg_byte st b in
              let '(st2, o2) := mg_feed st1 t in (st2, o1 ++ o2)
  end.
