(* C12 -- proofs about the PacketTunnelIOGateway model, part 6: several sources.

   Non-interference: as long as no more than MAX_NUM_RECEIVE_STATES+1 source addresses are in play
   (so that the LRU never evicts a state), what the receiver delivers under address a is exactly what
   it would deliver had only a's datagrams arrived -- for ARBITRARY datagrams from everybody.
   Together with tunnel_complete this is the completeness clause for several senders whose
   in-order streams are interleaved arbitrarily. *)
From Coq Require Import List Arith NArith Bool Lia.
From Coq Require Import Strings.Byte.
From Muscle Require Import Common.LE Gen.Consts Gw.Tunnel Gw.TunnelProofs Gw.TunnelSound Gw.TunnelSender Gw.TunnelComplete Gw.TunnelTheorems.
Import ListNotations.
Local Open Scope N_scope.

Lemma tbl_remove_keys a t : incl (map fst (tbl_remove a t)) (map fst t).
Proof. intros b. apply tbl_remove_keys_incl. Qed.

Lemma tbl_evict_keys t : incl (map fst (tbl_evict t)) (map fst t).
Proof. intros b H. unfold tbl_evict, dropN in H. eapply skipn_keys_incl; eassumption. Qed.

(* the keys after one fragment from a: the old ones, and possibly a *)
Lemma recv_frag_keys t a f : incl (map fst (fst (recv_frag t a f))) (a :: map fst t).
Proof.
  unfold recv_frag. destruct (tbl_find a t) as [rs|].
  - destruct (accept (restart_if_new rs f) f) as [rs' out]. cbn [fst]. rewrite map_app. cbn [map fst].
    intros b Hb. apply in_app_iff in Hb as [Hb|[<-|[]]]; [right; now apply tbl_remove_keys in Hb|now left].
  - destruct (f_off f =? 0).
    + destruct (accept (mkR (f_id f) 0 (junk (f_total f))) f) as [rs' out]. cbn [fst]. rewrite map_app. cbn [map fst].
      intros b Hb. apply in_app_iff in Hb as [Hb|[<-|[]]]; [right; now apply tbl_evict_keys in Hb|now left].
    + cbn [fst]. intros b Hb. right. now apply tbl_evict_keys in Hb.
Qed.

(* without eviction the entries of the other sources are untouched *)
Lemma recv_frag_other_keep t a b f :
  tbl_wf t -> a <> b -> (tbl_find a t = None -> lenN t <= MAX_STATES) ->
  tbl_find b (fst (recv_frag t a f)) = tbl_find b t.
Proof.
  intros Hwf Hab Hsmall. unfold recv_frag.
  destruct (tbl_find a t) as [rs|] eqn:Hf.
  - destruct (accept (restart_if_new rs f) f) as [rs' out]. cbn [fst].
    rewrite tbl_find_app, tbl_find_remove_other by assumption.
    destruct (tbl_find b t); [reflexivity|]. cbn [tbl_find].
    destruct (N.eqb_spec b a); [congruence|reflexivity].
  - rewrite tbl_evict_small by (now apply Hsmall).
    destruct (f_off f =? 0).
    + destruct (accept (mkR (f_id f) 0 (junk (f_total f))) f) as [rs' out]. cbn [fst].
      rewrite tbl_find_app. destruct (tbl_find b t); [reflexivity|]. cbn [tbl_find].
      destruct (N.eqb_spec b a); [congruence|reflexivity].
    + reflexivity.
Qed.

Lemma recv_packet_tag rc t a p : forall d, In d (snd (recv_packet rc t a p)) -> fst d = a.
Proof.
  unfold recv_packet.
  destruct (lenN (takeN (rc_mtu rc) p) =? 0); [intros d []|].
  destruct (rc_misc rc && ((lenN (takeN (rc_mtu rc) p) <? FHS) || negb (first_word_is (rc_magic rc) (takeN (rc_mtu rc) p)))).
  - intros d [<-|[]]. reflexivity.
  - destruct (recv_frags t a (parse (length (takeN (rc_mtu rc) p)) rc (takeN (rc_mtu rc) p))) as [t' out]. cbn [snd].
    intros d Hd. apply in_map_iff in Hd as (m & <- & _). reflexivity.
Qed.

Definition from (a : addr) {X} (d : addr * X) : bool := fst d =? a.

Lemma filter_from_all {X} a (l : list (addr * X)) : (forall d, In d l -> fst d = a) -> filter (from a) l = l.
Proof.
  induction l as [|d l IH]; intros H; [reflexivity|]. cbn [filter]. unfold from at 1.
  rewrite (H d (or_introl eq_refl)), N.eqb_refl. f_equal. apply IH. intros d' Hd'. apply H. now right.
Qed.

Lemma filter_from_none {X} a b (l : list (addr * X)) : b <> a -> (forall d, In d l -> fst d = b) -> filter (from a) l = [].
Proof.
  intros Hba. induction l as [|d l IH]; intros H; [reflexivity|]. cbn [filter]. unfold from at 1.
  rewrite (H d (or_introl eq_refl)). destruct (N.eqb_spec b a); [congruence|]. apply IH. intros d' Hd'. apply H. now right.
Qed.

Section Bounded.

Variable L : list addr.                     (* every source address that ever appears *)
Hypothesis L_small : N.of_nat (length L) <= MAX_STATES + 1.

Definition bounded (t : table) : Prop := tbl_wf t /\ incl (map fst t) L.

Lemma bounded_miss t a : bounded t -> In a L -> tbl_find a t = None -> lenN t <= MAX_STATES.
Proof.
  intros [Hwf Hincl] Ha Hnone. apply tbl_find_none_iff in Hnone.
  assert (Hnd : NoDup (a :: map fst t)) by (constructor; assumption).
  assert (Hin : incl (a :: map fst t) L) by (intros b [<-|Hb]; [exact Ha|now apply Hincl]).
  pose proof (NoDup_incl_length Hnd Hin) as Hlen. cbn [length] in Hlen. rewrite map_length in Hlen.
  unfold lenN. lia.
Qed.

Lemma recv_frag_bounded t a f : bounded t -> In a L -> bounded (fst (recv_frag t a f)).
Proof.
  intros [Hwf Hincl] Ha. split.
  - pose proof (recv_frag_own t a f Hwf) as H. destruct (recv_frag t a f) as [t' o]. destruct (rs_step (tbl_find a t) f). tauto.
  - intros b Hb. apply recv_frag_keys in Hb as [<-|Hb]; [exact Ha|now apply Hincl].
Qed.

Lemma recv_frags_bounded_other fs : forall t a b,
  bounded t -> In a L -> a <> b ->
  bounded (fst (recv_frags t a fs)) /\ tbl_find b (fst (recv_frags t a fs)) = tbl_find b t.
Proof.
  induction fs as [|f fs IH]; intros t a b Hb Ha Hab; cbn [recv_frags].
  - cbn [fst]. auto.
  - pose proof (recv_frag_bounded t a f Hb Ha) as Hb1.
    pose proof (recv_frag_other_keep t a b f (proj1 Hb) Hab (bounded_miss t a Hb Ha)) as Hk1.
    destruct (recv_frag t a f) as [t1 o1]. cbn [fst] in Hb1, Hk1.
    destruct (IH t1 a b Hb1 Ha Hab) as [Hb2 Hk2].
    destruct (recv_frags t1 a fs) as [t2 o2]. cbn [fst] in *. split; [exact Hb2|congruence].
Qed.

Lemma recv_packet_other rc t a b p :
  bounded t -> In a L -> a <> b ->
  bounded (fst (recv_packet rc t a p)) /\ tbl_find b (fst (recv_packet rc t a p)) = tbl_find b t.
Proof.
  intros Hb Ha Hab. unfold recv_packet.
  destruct (lenN (takeN (rc_mtu rc) p) =? 0); [cbn [fst]; split; [exact Hb|reflexivity]|].
  destruct (rc_misc rc && ((lenN (takeN (rc_mtu rc) p) <? FHS) || negb (first_word_is (rc_magic rc) (takeN (rc_mtu rc) p))));
    [cbn [fst]; split; [exact Hb|reflexivity]|].
  pose proof (recv_frags_bounded_other (parse (length (takeN (rc_mtu rc) p)) rc (takeN (rc_mtu rc) p)) t a b Hb Ha Hab) as H.
  destruct (recv_frags t a (parse (length (takeN (rc_mtu rc) p)) rc (takeN (rc_mtu rc) p))) as [t' out].
  cbn [fst] in *. exact H.
Qed.

(* a's own datagram: the joint table and the solo table agree on a's entry before, hence after, and on the output *)
Lemma recv_packet_same rc t ts a p :
  tbl_wf t -> tbl_wf ts -> tbl_find a t = tbl_find a ts ->
  tbl_find a (fst (recv_packet rc t a p)) = tbl_find a (fst (recv_packet rc ts a p))
  /\ snd (recv_packet rc t a p) = snd (recv_packet rc ts a p)
  /\ tbl_wf (fst (recv_packet rc ts a p)).
Proof.
  intros Hwf Hwfs Heq. unfold recv_packet.
  destruct (lenN (takeN (rc_mtu rc) p) =? 0); [cbn [fst snd]; auto|].
  destruct (rc_misc rc && ((lenN (takeN (rc_mtu rc) p) <? FHS) || negb (first_word_is (rc_magic rc) (takeN (rc_mtu rc) p)))); [cbn [fst snd]; auto|].
  set (fs := parse (length (takeN (rc_mtu rc) p)) rc (takeN (rc_mtu rc) p)).
  pose proof (recv_frags_own t a fs Hwf) as H1. pose proof (recv_frags_own ts a fs Hwfs) as H2.
  destruct (recv_frags t a fs) as [t1 o1]. destruct (recv_frags ts a fs) as [t2 o2].
  rewrite Heq in H1. destruct (rs_steps (tbl_find a ts) fs) as [r p1].
  destruct H1 as (_ & F1 & O1). destruct H2 as (W2 & F2 & O2). cbn [fst snd]. subst. auto.
Qed.

Lemma recv_all_project rc a net : forall t ts,
  In a L -> (forall b p, In (b, p) net -> In b L) ->
  bounded t -> tbl_wf ts -> tbl_find a t = tbl_find a ts ->
  filter (from a) (snd (recv_all rc t net)) = snd (recv_all rc ts (filter (from a) net)).
Proof.
  induction net as [|[b p] net IH]; intros t ts Ha Hnet Hb Hwfs Heq; cbn [recv_all filter].
  - reflexivity.
  - assert (HbL : In b L) by (apply (Hnet b p); now left).
    assert (Hnet' : forall b' p', In (b', p') net -> In b' L) by (intros b' p' H; apply (Hnet b' p'); now right).
    unfold from at 2. cbn [fst].
    destruct (N.eqb_spec b a) as [->|Hba].
    + cbn [recv_all].
      destruct (recv_packet_same rc t ts a p (proj1 Hb) Hwfs Heq) as (F & O & W).
      assert (Hb1 : bounded (fst (recv_packet rc t a p))).
      { unfold recv_packet.
        destruct (lenN (takeN (rc_mtu rc) p) =? 0); [exact Hb|].
        destruct (rc_misc rc && ((lenN (takeN (rc_mtu rc) p) <? FHS) || negb (first_word_is (rc_magic rc) (takeN (rc_mtu rc) p)))); [exact Hb|].
        set (fs := parse (length (takeN (rc_mtu rc) p)) rc (takeN (rc_mtu rc) p)).
        assert (G : forall fs t0, bounded t0 -> bounded (fst (recv_frags t0 a fs))).
        { clear - Ha L_small. induction fs as [|f fs IHf]; intros t0 H0; cbn [recv_frags]; [exact H0|].
          pose proof (recv_frag_bounded t0 a f H0 Ha) as H1. destruct (recv_frag t0 a f) as [t1 o1]. cbn [fst] in H1.
          specialize (IHf t1 H1). destruct (recv_frags t1 a fs) as [t2 o2]. exact IHf. }
        specialize (G fs t Hb). destruct (recv_frags t a fs) as [t' out]. exact G. }
      pose proof (recv_packet_tag rc t a p) as Htag0.
      destruct (recv_packet rc t a p) as [t1 o1]. destruct (recv_packet rc ts a p) as [ts1 os1]. cbn [fst snd] in *.
      specialize (IH t1 ts1 Ha Hnet' Hb1 W F).
      destruct (recv_all rc t1 net) as [t2 o2]. destruct (recv_all rc ts1 (filter (from a) net)) as [ts2 os2].
      cbn [snd] in *. rewrite filter_app, IH. f_equal. subst os1. apply filter_from_all. exact Htag0.
    + destruct (recv_packet_other rc t b a p Hb HbL Hba) as (Hb1 & Hk).
      pose proof (recv_packet_tag rc t b p) as Htag.
      destruct (recv_packet rc t b p) as [t1 o1]. cbn [fst snd] in *.
      specialize (IH t1 ts Ha Hnet' Hb1 Hwfs ltac:(congruence)).
      destruct (recv_all rc t1 net) as [t2 o2]. cbn [snd] in *.
      rewrite filter_app, IH.
      rewrite (filter_from_none a b o1 Hba Htag). reflexivity.
Qed.

End Bounded.

(* ------------------------------------------------------------------ theorems *)

(* Sources do not interfere: at most MAX_NUM_RECEIVE_STATES+1 source addresses, arbitrary datagrams. *)
Theorem tunnel_noninterference :
  forall rc (L : list addr) net a,
    N.of_nat (length L) <= MAX_STATES + 1 ->
    (forall b p, In (b, p) net -> In b L) -> In a L ->
    filter (from a) (snd (recv_all rc [] net)) = snd (recv_all rc [] (filter (from a) net)).
Proof.
  intros rc L net a Hlen Hnet Ha.
  apply (recv_all_project L Hlen rc a net [] [] Ha Hnet).
  - split; [constructor|]. intros b [].
  - constructor.
  - reflexivity.
Qed.

(* THE PROPERTY, second clause, several senders: each sender's packets arrive once and in order, the
   streams interleaved arbitrarily with each other and with any other traffic, at most
   MAX_NUM_RECEIVE_STATES+1 source addresses in all: every sender's completely written Messages that
   fit are delivered under its address exactly once, in order. *)
Theorem tunnel_complete_multi :
  forall rc (L : list addr) net c a id0 ops st pkts,
    N.of_nat (length L) <= MAX_STATES + 1 ->
    (forall b p, In (b, p) net -> In b L) -> In a L ->
    scfg_ok c -> compat c rc -> id0 < two32 -> no_setid ops ->
    N.of_nat (length (added ops)) <= two32 ->
    Forall (fun m => lenN m < two32) (added ops) ->
    srun c (s_init id0) ops = (st, pkts) -> s_pkt st = [] ->
    filter (from a) net = map (pair a) pkts ->
    exists done,
      added ops = done ++ s_q st
      /\ filter (from a) (snd (recv_all rc [] net)) = map (pair a) (filter (fits rc) done).
Proof.
  intros rc L net c a id0 ops st pkts Hlen Hnet Ha Hc Hcompat Hid Hns Hcnt Hsz Hrun Hpk Hproj.
  rewrite (tunnel_noninterference rc L net a Hlen Hnet Ha), Hproj.
  apply (tunnel_complete rc c a id0 ops st pkts [] Hc Hcompat Hid Hns Hcnt Hsz Hrun Hpk); [constructor|reflexivity].
Qed.

(* non-vacuity: two senders interleaved, plus a stranger *)
Example multi_nontrivial :
  let p := sr_packets ex_run in
  let net := [(5, nth 0 p []); (9, [x00; x01]); (6, nth 0 p []); (5, nth 1 p []); (6, nth 1 p []); (5, nth 2 p [])] in
  (forall b q, In (b, q) net -> In b [5; 6; 9])
  /\ filter (from 5) (snd (recv_all ex_rc [] net)) = [(5, repeat x41 9); (5, [])]
  /\ filter (from 6) (snd (recv_all ex_rc [] net)) = [(6, repeat x41 9)].
Proof.
  cbv zeta. split.
  - intros b q H. apply (in_map fst) in H. cbn [fst map] in H. cbn [In] in *. intuition.
  - vm_compute. split; reflexivity.
Qed.
