(* C12 -- proofs about the PacketTunnelIOGateway model, part 5: fuel adequacy of the output loop.

   [out_loop] recurses on explicit fuel; [sstep] supplies [out_fuel st].  That is enough: a DoOutput
   call whose byte limit and transport do not cut it short leaves nothing queued and nothing held. *)
From Coq Require Import List Arith NArith Bool Lia.
From Coq Require Import Strings.Byte.
From Muscle Require Import Common.LE Gen.Consts Gw.Tunnel Gw.TunnelProofs Gw.TunnelSound Gw.TunnelSender.
Import ListNotations.
Local Open Scope N_scope.

(* bytes still to send plus Messages still to finish *)
Definition work (off : N) (q : list msg) : nat := (length (concat q) - N.to_nat off + length q)%nat.

Lemma work_nil off : work off [] = 0%nat.
Proof. unfold work. cbn. lia. Qed.

Lemma work_cons off (m : msg) q :
  off <= lenN m -> work off (m :: q) = (length m - N.to_nat off + S (work 0 q))%nat.
Proof.
  unfold work, lenN. intros H. cbn [concat length]. rewrite app_length. cbn. lia.
Qed.

Lemma cursor_le off (m : msg) q : cursor_ok off (m :: q) -> off <= lenN m.
Proof. intros [->|(m0 & q0 & E & H)]; [lia|]. injection E as <- <-. lia. Qed.

(* fill never adds work, and removes some whenever it has room and something to send *)
Lemma fill_work c : forall q ps id off fs id' off' q',
  cursor_ok off q ->
  fill c ps id off q = (fs, (id', off', q')) ->
  (work off' q' <= work off q)%nat
  /\ (q <> [] -> ps + FHS < sc_mtu c -> (work off' q' < work off q)%nat /\ fs <> []).
Proof.
  induction q as [|m q IH]; intros ps id off fs id' off' q' Hcur; cbn [fill].
  - intros E. injection E as <- <- <- <-. split; [lia|]. intros H. now contradiction H.
  - pose proof (cursor_le _ _ _ Hcur) as Hoff.
    destruct (ps + FHS <? sc_mtu c) eqn:Hroom.
    2:{ intros E. injection E as <- <- <- <-. split; [lia|]. intros _ H. apply N.ltb_ge in Hroom. lia. }
    apply N.ltb_lt in Hroom.
    set (n := N.min (sc_mtu c - (ps + FHS)) (lenN m - off)).
    destruct (off + n =? lenN m) eqn:Hfin.
    + apply N.eqb_eq in Hfin.
      destruct (fill c (ps + FHS + n) (u32 (id + 1)) 0 q) as [fs1 [[id1 off1] q1]] eqn:E1.
      intros E. injection E as <- <- <- <-.
      destruct (IH _ _ _ _ _ _ _ (or_introl eq_refl) E1) as [Hle _].
      rewrite (work_cons off m q Hoff).
      split; [lia|]. intros _ _. split; [lia|discriminate].
    + apply N.eqb_neq in Hfin.
      intros E. injection E as <- <- <- <-.
      assert (Hn : 0 < n /\ off + n < lenN m) by (subst n; lia).
      rewrite (work_cons off m q Hoff), (work_cons (off + n) m q) by lia.
      unfold lenN in *. split; [lia|]. intros _ _. split; [lia|discriminate].
Qed.

Definition pending (st : sstate) : nat := (work (s_off st) (s_q st) + (if (lenN (s_pkt st) =? 0)%N then 0 else 1))%nat.

Lemma lenN_enc_frags_pos fs : fs <> [] -> 0 < lenN (enc_frags fs).
Proof.
  destruct fs as [|f fs]; [congruence|]. intros _.
  rewrite enc_frags_cons, lenN_app, lenN_enc_frag, FHS_val. lia.
Qed.

Lemma out_loop_drains c : forall fuel mb tot bud st pkts st',
  FHS < sc_mtu c ->
  cursor_ok (s_off st) (s_q st) -> lenN (s_pkt st) <= sc_mtu c ->
  (pending st <= fuel)%nat ->
  tot + N.of_nat fuel * sc_mtu c < mb -> N.of_nat fuel <= bud ->
  out_loop fuel c mb tot bud st = (pkts, st') ->
  s_q st' = [] /\ s_pkt st' = [].
Proof.
  induction fuel as [|fuel IH]; intros mb tot bud st pkts st' Hmtu Hcur Hsz Hpend Hmb Hbud; cbn [out_loop].
  - intros E. injection E as <- <-. unfold pending in Hpend.
    destruct (lenN (s_pkt st) =? 0) eqn:Hz; [|lia].
    apply N.eqb_eq in Hz. apply lenN_0_nil in Hz. split; [|exact Hz].
    destruct (s_q st) as [|m q] eqn:Eq; [reflexivity|].
    pose proof (cursor_le _ _ _ Hcur) as Hoff. rewrite work_cons in Hpend by exact Hoff. lia.
  - assert (Htot : (tot <? mb) = true) by (apply N.ltb_lt; lia).
    rewrite Htot.
    destruct (fill c (lenN (s_pkt st)) (s_id st) (s_off st) (s_q st)) as [fs [[id off] q]] eqn:Ef.
    destruct (fill_work c _ _ _ _ _ _ _ _ Hcur Ef) as [Hle Hprog].
    destruct (fill_spec c _ _ _ _ _ _ _ _ Hmtu Hcur Hsz Ef) as [Hch Hsz2].
    assert (Hcur2 : cursor_ok off q) by (eapply chain_cursor; eassumption).
    destruct (0 <? lenN (s_pkt st ++ enc_frags fs)) eqn:Hpos.
    + assert (Hb : (bud =? 0) = false) by (apply N.eqb_neq; lia).
      rewrite Hb.
      destruct (out_loop fuel c mb (tot + lenN (s_pkt st ++ enc_frags fs)) (bud - 1) (mkS id off q [])) as [ps st1] eqn:El.
      intros E. injection E as <- <-.
      assert (Hsz3 : lenN (s_pkt st ++ enc_frags fs) <= sc_mtu c) by (rewrite lenN_app; lia).
      apply (IH mb (tot + lenN (s_pkt st ++ enc_frags fs)) (bud - 1) (mkS id off q []) ps st1 Hmtu); cbn [s_off s_q s_pkt]; try assumption.
      * change (lenN (@nil byte)) with 0. lia.
      * (* the measure went down *)
        unfold pending in *. cbn [s_off s_q s_pkt]. change (lenN (@nil byte) =? 0) with true. cbv iota.
        destruct (lenN (s_pkt st) =? 0) eqn:Hz.
        -- apply N.eqb_eq in Hz.
           destruct (s_q st) as [|m0 q0] eqn:Eq.
           ++ (* nothing queued and nothing held: the packet cannot be non-empty *)
              cbn [fill] in Ef. injection Ef as <- <- <- <-. apply lenN_0_nil in Hz. rewrite Hz in Hpos. cbn in Hpos. discriminate.
           ++ destruct (Hprog ltac:(discriminate) ltac:(lia)) as [Hlt _]. lia.
        -- lia.
      * lia.
      * lia.
    + intros E. injection E as <- <-. cbn [s_q s_pkt].
      apply N.ltb_ge in Hpos. assert (Hz : lenN (s_pkt st ++ enc_frags fs) = 0) by lia.
      apply lenN_0_nil in Hz. split; [|exact Hz].
      apply app_eq_nil in Hz as [Hz1 Hz2].
      destruct (s_q st) as [|m0 q0] eqn:Eq.
      * cbn [fill] in Ef. now injection Ef as <- <- <- <-.
      * exfalso. rewrite Hz1 in Hprog. change (lenN (@nil byte)) with 0 in Hprog.
        destruct (Hprog ltac:(discriminate) ltac:(lia)) as [_ Hne].
        apply lenN_enc_frags_pos in Hne. rewrite Hz2 in Hne. cbn in Hne. lia.
Qed.

Lemma pending_le_out_fuel st : cursor_ok (s_off st) (s_q st) -> (pending st <= out_fuel st)%nat.
Proof.
  intros Hcur. unfold pending, out_fuel, work. destruct (lenN (s_pkt st) =? 0); lia.
Qed.

(* a DoOutput call that is not cut short drains the sender *)
Lemma sstep_out_drains c st mb bud st' pkts :
  FHS < sc_mtu c ->
  cursor_ok (s_off st) (s_q st) -> lenN (s_pkt st) <= sc_mtu c ->
  N.of_nat (out_fuel st) * sc_mtu c < mb -> N.of_nat (out_fuel st) <= bud ->
  sstep c st (SOut mb bud) = (st', pkts) ->
  s_q st' = [] /\ s_pkt st' = [].
Proof.
  intros Hmtu Hcur Hsz Hmb Hbud. cbn [sstep].
  destruct (out_loop (out_fuel st) c mb 0 bud st) as [ps st1] eqn:E. intros E1. injection E1 as <- <-.
  apply (out_loop_drains c (out_fuel st) mb 0 bud st ps st1 Hmtu Hcur Hsz (pending_le_out_fuel st Hcur)); [lia|exact Hbud|exact E].
Qed.
