(* C03 -- list / byte-count / transport-script lemmas shared by the gateway proofs. *)
From Coq Require Import List NArith ZArith Bool Lia ZifyBool.
From Muscle Require Import Gw.GwBase.
Import ListNotations.
Local Open Scope N_scope.

Lemma blen_nil : blen [] = 0.
Proof. reflexivity. Qed.

Lemma blen_app a b : blen (a ++ b) = blen a + blen b.
Proof. unfold blen. rewrite app_length. lia. Qed.

Lemma blen_cons x a : blen (x :: a) = 1 + blen a.
Proof. unfold blen. cbn [length]. lia. Qed.

Lemma blen_0 a : blen a = 0 -> a = [].
Proof. destruct a; auto. unfold blen; cbn; lia. Qed.

Lemma blen_pos a : a <> [] -> 0 < blen a.
Proof. destruct a; [congruence|]. intros _. rewrite blen_cons. lia. Qed.

Lemma take_drop n b : take n b ++ drop n b = b.
Proof. apply firstn_skipn. Qed.

Lemma blen_take n b : blen (take n b) = N.min n (blen b).
Proof. unfold blen, take. rewrite firstn_length. lia. Qed.

Lemma blen_drop n b : blen (drop n b) = blen b - n.
Proof. unfold blen, drop. rewrite skipn_length. lia. Qed.

Lemma take_all n b : blen b <= n -> take n b = b.
Proof. intros H. unfold take. apply firstn_all2. unfold blen in H. lia. Qed.

Lemma drop_all n b : blen b <= n -> drop n b = [].
Proof. intros H. unfold drop. apply skipn_all2. unfold blen in H. lia. Qed.

Lemma take_0 b : take 0 b = [].
Proof. reflexivity. Qed.

Lemma drop_0 b : drop 0 b = b.
Proof. reflexivity. Qed.

Lemma take_app_exact a b : take (blen a) (a ++ b) = a.
Proof.
  unfold take, blen. rewrite Nat2N.id.
  rewrite firstn_app, Nat.sub_diag, firstn_all. cbn. apply app_nil_r.
Qed.

Lemma drop_app_exact a b : drop (blen a) (a ++ b) = b.
Proof.
  unfold drop, blen. rewrite Nat2N.id.
  rewrite skipn_app, Nat.sub_diag, skipn_all. reflexivity.
Qed.

Lemma skipn_skipn' {A} (n m : nat) (l : list A) : skipn n (skipn m l) = skipn (m + n) l.
Proof.
  revert l. induction m as [|m IH]; intros l; cbn; auto.
  destruct l; cbn; [now destruct n|]. apply IH.
Qed.

Lemma drop_drop n m b : drop n (drop m b) = drop (m + n) b.
Proof.
  unfold drop. rewrite skipn_skipn'. f_equal. lia.
Qed.

(* a prefix of a given length taken out of the tail at an offset *)
Lemma drop_take_split off n b :
  drop off b = take n (drop off b) ++ drop (off + n) b.
Proof. rewrite <- drop_drop. symmetry. apply take_drop. Qed.

(* ---- transport script *)
Lemma io_read_spec a scr pipe x pipe' scr' :
  io_read a scr pipe = (x, pipe', scr') ->
  pipe = x ++ pipe' /\ blen x = N.min a (N.min (io_k scr) (blen pipe)) /\ scr' = io_tl scr.
Proof.
  unfold io_read. intros H. inversion H; subst; clear H.
  split; [symmetry; apply take_drop|]. split; auto.
  rewrite blen_take. lia.
Qed.

Lemma io_write_spec data scr x scr' :
  io_write data scr = (x, scr') ->
  data = x ++ drop (blen x) data /\ blen x = N.min (blen data) (io_k scr) /\ scr' = io_tl scr.
Proof.
  unfold io_write. intros H. inversion H; subst; clear H.
  split; [|split; auto].
  - rewrite blen_take.
    replace (N.min (N.min (blen data) (io_k scr)) (blen data)) with (N.min (blen data) (io_k scr)) by lia.
    symmetry; apply take_drop.
  - rewrite blen_take. lia.
Qed.

Lemma io_tl_length scr : (length (io_tl scr) <= length scr)%nat.
Proof. destruct scr; cbn; lia. Qed.

Lemma io_k_nil : io_k [] = 0.
Proof. reflexivity. Qed.

(* ---- little-endian words *)
Lemma rd32_le32 n rest : n < two32 -> rd32 (le32 n ++ rest) = n.
Proof.
  intros H. unfold le32, rd32, u32, two32 in *. cbn [app].
  assert (E : n mod 256 + 256 * ((n / 256) mod 256) + 65536 * ((n / 65536) mod 256) + 16777216 * ((n / 16777216) mod 256) = n).
  { replace (n / 65536) with (n / 256 / 256) by (rewrite N.div_div by lia; reflexivity).
    replace (n / 16777216) with (n / 256 / 256 / 256) by (rewrite !N.div_div by lia; reflexivity).
    pose proof (N.div_mod n 256 ltac:(lia)) as H0.
    pose proof (N.div_mod (n / 256) 256 ltac:(lia)) as H1.
    pose proof (N.div_mod (n / 256 / 256) 256 ltac:(lia)) as H2.
    pose proof (N.div_mod (n / 256 / 256 / 256) 256 ltac:(lia)) as H3.
    assert (H4 : n / 256 / 256 / 256 / 256 = 0).
    { rewrite !N.div_div by lia. apply N.div_small. exact H. }
    rewrite H4 in H3.
    set (q1 := n / 256) in *. set (q2 := q1 / 256) in *. set (q3 := q2 / 256) in *.
    set (a := n mod 256) in *. set (b := q1 mod 256) in *.
    set (c := q2 mod 256) in *. set (d := q3 mod 256) in *.
    clearbody a b c d q3. clearbody q2. clearbody q1. lia. }
  rewrite E. apply N.mod_small. exact H.
Qed.

Lemma blen_le32 n : blen (le32 n) = 4.
Proof. reflexivity. Qed.

Lemma length_le32 n : length (le32 n) = 4%nat.
Proof. reflexivity. Qed.

Lemma take_take m n b : take m (take n b) = take (N.min m n) b.
Proof.
  unfold take. rewrite firstn_firstn. f_equal. lia.
Qed.

Lemma io_write_take n d scr x scr' :
  io_write (take n d) scr = (x, scr') ->
  d = x ++ drop (blen x) d /\ blen x = N.min (N.min n (blen d)) (io_k scr) /\ scr' = io_tl scr.
Proof.
  unfold io_write. intros H. inversion H; subst; clear H.
  rewrite take_take, !blen_take.
  split; [|split; auto].
  - replace (N.min (N.min (N.min (N.min n (blen d)) (io_k scr)) n) (blen d))
      with (N.min (N.min (N.min n (blen d)) (io_k scr)) n) by lia.
    symmetry. apply take_drop.
  - lia.
Qed.

Lemma skipn_nth_error {A} (l : list A) n c : nth_error l n = Some c -> skipn n l = c :: skipn (S n) l.
Proof.
  revert l. induction n as [|n IH]; intros [|a l] H; cbn in *; try discriminate.
  - now inversion H.
  - now apply IH.
Qed.

Lemma skipn_nth_none {A} (l : list A) n : nth_error l n = None -> skipn n l = [].
Proof. intros H. apply skipn_all2. now apply nth_error_None. Qed.

Lemma nth_error_nth' {A} (l : list A) n c d : nth_error l n = Some c -> nth n l d = c.
Proof. intros H. now apply nth_error_nth. Qed.

Lemma concat_nonempty_head (cs : list bytes) :
  Forall (fun c => c <> []) cs -> concat cs = [] -> cs = [].
Proof.
  destruct cs as [|c t]; auto. intros Hf Hc. inversion Hf; subst. cbn in Hc.
  apply app_eq_nil in Hc. destruct Hc; contradiction.
Qed.
