(* C03 -- proofs about the plain-text gateway model: sender, line splitter (chunk processing =
   folding the byte step, for NUL-free text), decoding of CR / LF / CRLF terminated lines for
   every segmentation, the NUL counter-example, and the end-to-end theorems. *)
From Coq Require Import List NArith ZArith Bool Lia ZifyBool.
From Muscle Require Import Gen.Consts Gw.GwBase Gw.GwLemmas Gw.TextModel Gw.TransportProofs.
Import ListNotations.
Local Open Scope N_scope.

Local Arguments skipn : simpl never.
Local Arguments firstn : simpl never.
Local Arguments nth : simpl never.

(* ====================================================================== sender *)
Section TextSend.
  Variable eol : bytes.
  Hypothesis eol_ne : eol <> [].

  Definition ts_wf (st : tsend) : Prop :=
    match ts_cur st with
    | None => True
    | Some lines =>
        ((ts_off st < 0)%Z /\ ts_idx st = (-1)%Z) \/
        ((0 <= ts_idx st < Z.of_nat (length lines))%Z /\
         ts_text st = nth (Z.to_nat (ts_idx st)) lines [] ++ eol /\
         (0 <= ts_off st <= Z.of_N (blen (ts_text st)))%Z)
    end.

  Definition t_qbytes (q : list (list bytes)) : bytes := concat (map (t_wire_msg eol) q).

  Definition ts_rem (st : tsend) : bytes :=
    match ts_cur st with
    | None => []
    | Some lines =>
        if (ts_off st <? 0)%Z then t_wire_msg eol lines
        else drop (Z.to_N (ts_off st)) (ts_text st)
             ++ t_wire_msg eol (skipn (S (Z.to_nat (ts_idx st))) lines)
    end ++ t_qbytes (ts_q st).

  Definition ts_mu (st : tsend) : nat :=
    (length (ts_q st) + match ts_cur st with Some _ => 1 | None => 0 end)%nat.

  Lemma t_qbytes_app q1 q2 : t_qbytes (q1 ++ q2) = t_qbytes q1 ++ t_qbytes q2.
  Proof. unfold t_qbytes. now rewrite map_app, concat_app. Qed.

  (* lines 105-117 *)
  Lemma t_send_spec st maxb scr st3 x cont :
    (0 <= ts_off st <= Z.of_N (blen (ts_text st)))%Z ->
    t_send st maxb scr = (st3, x, cont) ->
    drop (Z.to_N (ts_off st)) (ts_text st) = x ++ drop (Z.to_N (ts_off st) + blen x) (ts_text st) /\
    (0 <= ts_off st + Z.of_N (blen x) <= Z.of_N (blen (ts_text st)))%Z /\
    match cont with
    | Some (maxb', scr') =>
        st3 = mkTS (ts_q st) (ts_cur st) (ts_idx st) (ts_text st) (ts_off st + Z.of_N (blen x)) /\
        x <> [] /\ (length scr' <= length scr)%nat
    | None => st3 = st /\ x = [] /\
              ((ts_off st < Z.of_N (blen (ts_text st)))%Z -> 1 <= maxb -> 1 <= io_k scr -> False)
    end.
  Proof.
    intros Hoff H. unfold t_send in H.
    destruct (ts_off st <? Z.of_N (blen (ts_text st)))%Z eqn:Elt.
    - destruct (io_write (take (N.min (blen (ts_text st) - Z.to_N (ts_off st)) maxb)
                               (drop (Z.to_N (ts_off st)) (ts_text st))) scr) as [y scr'] eqn:Ew.
      apply io_write_take in Ew. destruct Ew as (Hd & Hb & Hs).
      rewrite blen_drop in Hb.
      destruct (0 <? blen y) eqn:Ey; inversion H; subst; clear H.
      + split; [rewrite Hd at 1; f_equal; rewrite drop_drop; reflexivity|].
        split; [lia|]. split; auto. split; [intros ->; cbn in Ey; lia|apply io_tl_length].
      + assert (y = []) by (apply blen_0; lia). subst y. cbn [app blen length N.of_nat].
        rewrite N.add_0_r. split; auto. split; [lia|]. split; auto. split; auto.
        intros. cbn in Hb. lia.
    - inversion H; subst; clear H. cbn [app blen length N.of_nat].
      rewrite N.add_0_r. split; auto. split; [lia|]. split; auto. split; auto. intros. lia.
  Qed.

  Lemma t_out_spec fuel : forall st maxb scr acc st' acc',
    ts_wf st -> t_out_aux fuel eol st maxb scr acc = (st', acc') ->
    ts_wf st' /\ (ts_mu st' <= ts_mu st)%nat /\ exists x, acc' = acc ++ x /\ ts_rem st = x ++ ts_rem st'.
  Proof.
    induction fuel as [|fuel IH]; intros st maxb scr acc st' acc' Hwf H; cbn [t_out_aux] in H.
    { inversion H; subst. split; auto. split; auto. exists []. now rewrite app_nil_r. }
    set (st1 := match ts_cur st with
                | Some _ => st
                | None => match ts_q st with
                          | [] => mkTS [] None (-1) (ts_text st) (-1)
                          | m :: q => mkTS q (Some m) (-1) (ts_text st) (-1)
                          end
                end) in *.
    assert (H1 : ts_wf st1 /\ ts_rem st1 = ts_rem st /\ (ts_mu st1 <= ts_mu st)%nat).
    { subst st1. destruct (ts_cur st) eqn:Ec; [auto|].
      destruct (ts_q st) as [|m q] eqn:Eq.
      - split; [exact I|]. split; [unfold ts_rem; cbn; rewrite Ec, Eq; reflexivity|].
        unfold ts_mu; cbn; lia.
      - split; [|split].
        + unfold ts_wf. cbn. left. lia.
        + unfold ts_rem. cbn. rewrite Ec, Eq. reflexivity.
        + unfold ts_mu. cbn. rewrite Ec, Eq. cbn. lia. }
    destruct H1 as (Hwf1 & Hrem1 & Hmu1). rewrite <- Hrem1. clear Hrem1 Hwf.
    assert (Hmu : forall k, (k <= ts_mu st1)%nat -> (k <= ts_mu st)%nat) by (intros; lia).
    clear Hmu1. clearbody st1.
    destruct (ts_cur st1) as [lines|] eqn:Ec1.
    2:{ inversion H; subst. split; auto. split; auto. exists []. now rewrite app_nil_r. }
    unfold ts_wf in Hwf1. rewrite Ec1 in Hwf1.
    (* what a completed t_send + recursion gives *)
    assert (Hsend : forall st2, ts_cur st2 = Some lines -> ts_q st2 = ts_q st1 ->
                (0 <= ts_idx st2 < Z.of_nat (length lines))%Z ->
                ts_text st2 = nth (Z.to_nat (ts_idx st2)) lines [] ++ eol ->
                (0 <= ts_off st2 <= Z.of_N (blen (ts_text st2)))%Z ->
                match t_send st2 maxb scr with
                | (st3, x, Some (maxb', scr')) => t_out_aux fuel eol st3 maxb' scr' (acc ++ x)
                | (st3, x, None) => (st3, acc ++ x)
                end = (st', acc') ->
                ts_wf st' /\ (ts_mu st' <= ts_mu st1)%nat /\
                exists x, acc' = acc ++ x /\ ts_rem st2 = x ++ ts_rem st').
    { intros st2 Hc2 Hq2 Hi2 Ht2 Ho2 H2.
      destruct (t_send st2 maxb scr) as [[st3 x] cont] eqn:Es.
      destruct (t_send_spec _ _ _ _ _ _ Ho2 Es) as (Hd & Hoff & Hcont).
      assert (Hrem3 : forall st3', ts_cur st3' = Some lines -> ts_q st3' = ts_q st2 -> ts_idx st3' = ts_idx st2 ->
                        ts_text st3' = ts_text st2 -> ts_off st3' = (ts_off st2 + Z.of_N (blen x))%Z ->
                        ts_rem st2 = x ++ ts_rem st3').
      { intros st3' Hc3 Hq3 Hi3 Ht3 Ho3. unfold ts_rem. rewrite Hc2, Hc3, Hq3, Hi3, Ht3, Ho3.
        assert (E1 : (ts_off st2 <? 0)%Z = false) by lia.
        assert (E2 : (ts_off st2 + Z.of_N (blen x) <? 0)%Z = false) by lia.
        rewrite E1, E2. rewrite Hd at 1. rewrite <- !app_assoc. do 2 f_equal. f_equal. lia. }
      destruct cont as [[maxb' scr']|].
      - destruct Hcont as (-> & Hx & _).
        eapply IH in H2.
        + destruct H2 as (Hwf' & Hmu' & y & Hacc & Hrem). split; auto. split.
          * unfold ts_mu in *. cbn [ts_q ts_cur] in Hmu'. rewrite Hc2, Hq2 in Hmu'. rewrite Ec1. exact Hmu'.
          * exists (x ++ y). split; [now rewrite Hacc, app_assoc|].
            rewrite <- app_assoc, <- Hrem. apply Hrem3; auto.
        + unfold ts_wf. cbn [ts_cur ts_idx ts_text ts_off]. rewrite Hc2. right. split; auto.
      - destruct Hcont as (-> & -> & _). inversion H2; subst; clear H2.
        split; [unfold ts_wf; rewrite Hc2; right; auto|]. split.
        + unfold ts_mu. rewrite Hc2, Hq2, Ec1. lia.
        + exists []. split; [reflexivity|reflexivity]. }
    destruct ((ts_off st1 <? 0) || (Z.of_N (blen (ts_text st1)) <=? ts_off st1))%Z eqn:Esel.
    - destruct (nth_error lines (Z.to_nat (ts_idx st1 + 1))) as [l|] eqn:En.
      + (* next line *)
        set (st2 := mkTS (ts_q st1) (Some lines) (ts_idx st1 + 1) (l ++ eol) 0) in *.
        assert (Hidx : (-1 <= ts_idx st1)%Z) by (destruct Hwf1 as [[_ ->]|[[? ?] _]]; lia).
        assert (Hl : nth (Z.to_nat (ts_idx st1 + 1)) lines [] = l) by (eapply nth_error_nth'; eauto).
        assert (Hlt : (Z.to_nat (ts_idx st1 + 1) < length lines)%nat) by (apply nth_error_Some; congruence).
        assert (Hrem2 : ts_rem st1 = ts_rem st2).
        { unfold ts_rem, st2. cbn [ts_cur ts_off ts_idx ts_text ts_q]. rewrite Ec1. f_equal.
          change (0 <? 0)%Z with false. change (Z.to_N 0) with 0. rewrite drop_0.
          destruct Hwf1 as [[Hoff Hi]|[[Hi1 Hi2] [Htext Hoff]]].
          - assert (E : (ts_off st1 <? 0)%Z = true) by lia. rewrite E.
            rewrite Hi in *. change (Z.to_nat (-1 + 1)) with 0%nat in *.
            destruct lines as [|l0 t]; cbn in En; [discriminate|]. inversion En; subst l0. reflexivity.
          - assert (E : (ts_off st1 <? 0)%Z = false) by lia. rewrite E.
            rewrite drop_all by lia. cbn [app].
            replace (S (Z.to_nat (ts_idx st1))) with (Z.to_nat (ts_idx st1 + 1)) by lia.
            rewrite (skipn_nth_error _ _ _ En). reflexivity. }
        rewrite Hrem2.
        destruct (Hsend st2) as (Hwf' & Hmu' & x & Hacc & Hrem); auto.
        * unfold st2; cbn [ts_idx]. lia.
        * unfold st2; cbn [ts_text ts_idx]. now rewrite Hl.
        * unfold st2; cbn [ts_off ts_text]. lia.
        * split; auto. split; [apply Hmu; auto|]. eauto.
      + (* no more lines: Message done *)
        eapply IH in H; [|exact I].
        destruct H as (Hwf' & Hmu' & y & Hacc & Hrem). split; auto. split.
        * apply Hmu. unfold ts_mu in *. cbn [ts_q ts_cur] in Hmu'. rewrite Ec1. lia.
        * exists y. split; auto. rewrite <- Hrem.
          unfold ts_rem. cbn [ts_cur ts_q]. rewrite Ec1.
          destruct Hwf1 as [[Hoff Hi]|[[Hi1 Hi2] [Htext Hoff]]].
          -- assert (E : (ts_off st1 <? 0)%Z = true) by lia. rewrite E.
             rewrite Hi in En. change (Z.to_nat (-1 + 1)) with 0%nat in En.
             destruct lines; [reflexivity|discriminate].
          -- assert (E : (ts_off st1 <? 0)%Z = false) by lia. rewrite E.
             rewrite drop_all by lia. cbn [app].
             replace (S (Z.to_nat (ts_idx st1))) with (Z.to_nat (ts_idx st1 + 1)) by lia.
             rewrite (skipn_nth_none _ _ En). reflexivity.
    - destruct Hwf1 as [[Hoff Hi]|[[Hi1 Hi2] [Htext Hoff]]]; [lia|].
      destruct (Hsend st1) as (Hwf' & Hmu' & x & Hacc & Hrem); auto.
      split; auto. split; [apply Hmu; auto|]. eauto.
  Qed.

  Lemma t_do_output_spec st maxb scr st' x :
    ts_wf st -> t_do_output eol st maxb scr = (st', x) ->
    ts_wf st' /\ (ts_mu st' <= ts_mu st)%nat /\ ts_rem st = x ++ ts_rem st'.
  Proof.
    unfold t_do_output. intros Hwf H.
    destruct (t_out_spec _ _ _ _ _ _ _ Hwf H) as (Hwf' & Hmu & y & Hy & Hrem).
    cbn in Hy. subst y. auto.
  Qed.

  (* a productive call writes a byte or finishes an (empty) Message, while bytes remain *)
  Lemma t_out_progress fuel st maxb scr acc st' acc' :
    ts_wf st -> ts_rem st <> [] -> 1 <= maxb -> 1 <= io_k scr ->
    t_out_aux (S fuel) eol st maxb scr acc = (st', acc') ->
    (length acc < length acc')%nat \/ (ts_mu st' < ts_mu st)%nat.
  Proof.
    intros Hwf Hrem Hm Hk H. cbn [t_out_aux] in H.
    set (st1 := match ts_cur st with
                | Some _ => st
                | None => match ts_q st with
                          | [] => mkTS [] None (-1) (ts_text st) (-1)
                          | m :: q => mkTS q (Some m) (-1) (ts_text st) (-1)
                          end
                end) in *.
    assert (H1 : ts_wf st1 /\ ts_rem st1 = ts_rem st /\ (ts_mu st1 <= ts_mu st)%nat /\
                 (ts_cur st1 = None -> ts_q st1 = [])).
    { subst st1. destruct (ts_cur st) eqn:Ec.
      - repeat split; auto. congruence.
      - destruct (ts_q st) as [|m q] eqn:Eq.
        + split; [exact I|]. split; [unfold ts_rem; cbn; rewrite Ec, Eq; reflexivity|].
          split; [unfold ts_mu; cbn; lia|]. reflexivity.
        + split; [|split; [|split]].
          * unfold ts_wf. cbn. left. lia.
          * unfold ts_rem. cbn. rewrite Ec, Eq. reflexivity.
          * unfold ts_mu. cbn. rewrite Ec, Eq. cbn. lia.
          * cbn. discriminate. }
    destruct H1 as (Hwf1 & Hrem1 & Hmu1 & Hq1). rewrite <- Hrem1 in Hrem. clear Hrem1 Hwf.
    clearbody st1.
    destruct (ts_cur st1) as [lines|] eqn:Ec1.
    2:{ exfalso. apply Hrem. unfold ts_rem. rewrite Ec1, (Hq1 eq_refl). reflexivity. }
    clear Hq1. unfold ts_wf in Hwf1. rewrite Ec1 in Hwf1.
    assert (Hsend : forall st2, ts_cur st2 = Some lines ->
                (0 <= ts_idx st2 < Z.of_nat (length lines))%Z ->
                ts_text st2 = nth (Z.to_nat (ts_idx st2)) lines [] ++ eol ->
                (0 <= ts_off st2 < Z.of_N (blen (ts_text st2)))%Z ->
                match t_send st2 maxb scr with
                | (st3, x, Some (maxb', scr')) => t_out_aux fuel eol st3 maxb' scr' (acc ++ x)
                | (st3, x, None) => (st3, acc ++ x)
                end = (st', acc') -> (length acc < length acc')%nat).
    { intros st2 Hc2 Hi2 Ht2 Ho2 H2.
      destruct (t_send st2 maxb scr) as [[st3 x] cont] eqn:Es.
      assert (Ho2' : (0 <= ts_off st2 <= Z.of_N (blen (ts_text st2)))%Z) by lia.
      destruct (t_send_spec _ _ _ _ _ _ Ho2' Es) as (Hd & Hoff & Hcont).
      destruct cont as [[maxb' scr']|].
      - destruct Hcont as (-> & Hx & _).
        apply t_out_spec in H2.
        + destruct H2 as (_ & _ & y & -> & _). rewrite !app_length. destruct x; [contradiction|cbn; lia].
        + unfold ts_wf. cbn [ts_cur ts_idx ts_text ts_off]. rewrite Hc2. right. split; auto.
      - destruct Hcont as (_ & _ & Hf). exfalso. apply Hf; auto. lia. }
    destruct ((ts_off st1 <? 0) || (Z.of_N (blen (ts_text st1)) <=? ts_off st1))%Z eqn:Esel.
    - destruct (nth_error lines (Z.to_nat (ts_idx st1 + 1))) as [l|] eqn:En.
      + left.
        assert (Hidx : (-1 <= ts_idx st1)%Z) by (destruct Hwf1 as [[_ ->]|[[? ?] _]]; lia).
        assert (Hl : nth (Z.to_nat (ts_idx st1 + 1)) lines [] = l) by (eapply nth_error_nth'; eauto).
        assert (Hlt : (Z.to_nat (ts_idx st1 + 1) < length lines)%nat) by (apply nth_error_Some; congruence).
        apply (Hsend (mkTS (ts_q st1) (Some lines) (ts_idx st1 + 1) (l ++ eol) 0)); auto.
        * cbn [ts_idx]. lia.
        * cbn [ts_text ts_idx]. now rewrite Hl.
        * cbn [ts_off ts_text]. rewrite blen_app. pose proof (blen_pos _ eol_ne). lia.
      + right. apply t_out_spec in H; [|exact I].
        destruct H as (_ & Hmu' & _). unfold ts_mu in *. cbn [ts_q ts_cur] in Hmu'. rewrite Ec1 in Hmu1. lia.
    - left. destruct Hwf1 as [[Hoff Hi]|[[Hi1 Hi2] [Htext Hoff]]]; [lia|].
      apply (Hsend st1); auto. lia.
  Qed.

  Lemma text_fuel_pos : exists n, N.to_nat c_text_max_recurse = S n.
  Proof. vm_compute. eauto. Qed.

  Lemma t_do_output_progress st maxb scr st' x :
    ts_wf st -> ts_rem st <> [] -> 1 <= maxb -> 1 <= io_k scr ->
    t_do_output eol st maxb scr = (st', x) -> x <> [] \/ (ts_mu st' < ts_mu st)%nat.
  Proof.
    unfold t_do_output. destruct text_fuel_pos as [n ->]. intros Hwf Hrem Hm Hk H.
    destruct (t_out_progress _ _ _ _ _ _ _ Hwf Hrem Hm Hk H) as [Hl|Hmu]; auto.
    left. intros ->. cbn in Hl. lia.
  Qed.
End TextSend.

(* ====================================================================== receiver *)
Definition nul_free (b : bytes) : Prop := Forall (fun c => c <> 0) b.
Definition line_ok (l : bytes) : Prop := Forall (fun c => c <> CR /\ c <> LF /\ c <> 0) l.

Lemma cstr_id b : nul_free b -> cstr b = b.
Proof.
  induction 1 as [|c t Hc _ IH]; cbn; auto.
  destruct (c =? 0) eqn:E; [apply N.eqb_eq in E; contradiction|]. now rewrite IH.
Qed.

Lemma nul_free_app a b : nul_free (a ++ b) <-> nul_free a /\ nul_free b.
Proof. apply Forall_app. Qed.

(* ---- the split lemma for the byte-level splitter *)
Lemma t_feed_app a : forall st b,
  t_feed st (a ++ b) =
  let '(st1, o1) := t_feed st a in let '(st2, o2) := t_feed st1 b in (st2, o1 ++ o2).
Proof.
  induction a as [|x a IH]; intros st b; cbn [app t_feed].
  - destruct (t_feed st b). reflexivity.
  - destruct (t_byte st x) as [st1 o1]. rewrite IH.
    destruct (t_feed st1 a) as [st2 o2]. destruct (t_feed st2 b) as [st3 o3].
    now rewrite app_assoc.
Qed.

(* ---- processing one read chunk = folding the byte step over it (NUL-free text) *)
Lemma t_scan_feed chunk : forall cur inc pcr lines inc' pcr' lines' cur',
  nul_free chunk -> nul_free cur -> (pcr = true -> cur = []) ->
  t_scan chunk cur inc pcr lines = (inc', pcr', lines', cur') ->
  exists new, lines' = lines ++ new /\
              t_feed (inc ++ cur, pcr) chunk = ((inc' ++ cur', pcr'), new) /\
              nul_free cur' /\ (pcr' = true -> cur' = []).
Proof.
  induction chunk as [|c t IH]; intros cur inc pcr lines inc' pcr' lines' cur' Hn Hcur Hp H; cbn [t_scan] in H.
  - inversion H; subst. exists []. rewrite app_nil_r. cbn. auto.
  - inversion Hn as [|? ? Hc Ht]; subst. cbn [t_feed]. unfold t_byte.
    destruct ((c =? CR) || (c =? LF)) eqn:Eterm.
    + destruct ((c =? CR) || negb pcr) eqn:Eemit.
      * apply IH in H; auto; try solve [constructor]; try (intros _; reflexivity).
        destruct H as (new & Hl & Hf & Hc' & Hp').
        rewrite cstr_id in Hl by auto.
        exists ((inc ++ cur) :: new). rewrite Hl, <- app_assoc. split; [reflexivity|].
        cbn [app] in Hf. rewrite Hf. auto.
      * assert (pcr = true) by (destruct pcr; auto; rewrite orb_true_r in Eemit; discriminate).
        rewrite (Hp H0) in *. rewrite app_nil_r.
        apply IH in H; auto; try solve [constructor]; try (intros _; reflexivity).
        destruct H as (new & Hl & Hf & Hc' & Hp').
        exists new. split; auto. rewrite app_nil_r in Hf.
        assert (Ecr : (c =? CR) = false) by (destruct (c =? CR); auto; discriminate).
        rewrite Ecr in Hf. unfold bytes, byte in *. rewrite Hf. auto.
    + apply IH in H; auto.
      * destruct H as (new & Hl & Hf & Hc' & Hp').
        exists new. split; auto. rewrite <- app_assoc. unfold bytes, byte in *. rewrite Hf. auto.
      * apply Forall_app; split; auto.
      * discriminate.
Qed.

Lemma t_do_input_spec st maxb scr pipe st' o pipe' :
  nul_free pipe -> (tr_cr st = true -> tr_text st = []) ->
  t_do_input st maxb scr pipe = (st', o, pipe') ->
  exists x, pipe = x ++ pipe' /\
            t_feed (tr_text st, tr_cr st) x = ((tr_text st', tr_cr st'), concat o) /\
            blen x = N.min (N.min maxb (c_text_buf_size - 1)) (N.min (io_k scr) (blen pipe)).
Proof.
  intros Hn Hinv. unfold t_do_input.
  destruct (io_read (N.min maxb (c_text_buf_size - 1)) scr pipe) as [[x p1] s1] eqn:Er.
  apply io_read_spec in Er. destruct Er as (Hp & Hb & _).
  destruct (blen x =? 0) eqn:E0.
  - intros H. inversion H; subst; clear H. assert (x = []) by (apply blen_0; lia). subst x.
    exists []. cbn. auto.
  - destruct (t_scan x [] (tr_text st) (tr_cr st) []) as [[[inc pcr] lines] cur] eqn:Es.
    intros H. inversion H; subst; clear H.
    assert (Hnx : nul_free x) by (apply nul_free_app in Hn; tauto).
    apply t_scan_feed in Es; auto; [|constructor].
    destruct Es as (new & Hl & Hf & Hc & _). cbn in Hl. subst new. rewrite app_nil_r in Hf.
    exists x. split; auto. split; auto. cbn [tr_text tr_cr].
    unfold bytes, byte in *. rewrite Hf. f_equal.
    + f_equal. destruct cur; [now rewrite app_nil_r|]. now rewrite cstr_id.
    + destruct lines; cbn; [reflexivity|now rewrite app_nil_r].
Qed.

(* ---- the invariant "previous char was CR => no pending text" *)
Lemma t_byte_inv st c st' o :
  (snd st = true -> fst st = []) -> t_byte st c = (st', o) -> (snd st' = true -> fst st' = []).
Proof.
  destruct st as [line pcr]. unfold t_byte. cbn [fst snd]. intros Hi H.
  destruct ((c =? CR) || (c =? LF)); [destruct ((c =? CR) || negb pcr)|]; inversion H; subst; cbn; auto; discriminate.
Qed.

Lemma t_feed_inv bs : forall st st' o,
  (snd st = true -> fst st = []) -> t_feed st bs = (st', o) -> (snd st' = true -> fst st' = []).
Proof.
  induction bs as [|c t IH]; intros st st' o Hi H; cbn [t_feed] in H.
  - inversion H; subst; auto.
  - destruct (t_byte st c) as [st1 o1] eqn:Eb. destruct (t_feed st1 t) as [st2 o2] eqn:Ef.
    inversion H; subst. apply (IH st1 st' o2); auto. apply (t_byte_inv st c st1 o1); auto.
Qed.

(* ---- decoding terminated lines *)
Lemma t_feed_line l : forall p b, line_ok l ->
  t_feed (p, b) l = ((p ++ l, match l with [] => b | _ => false end), []).
Proof.
  induction l as [|c t IH]; intros p b Hl; cbn [t_feed].
  - now rewrite app_nil_r.
  - inversion Hl as [|? ? [H1 [H2 H3]] Ht]; subst. unfold t_byte.
    assert (E1 : (c =? CR) = false) by (apply N.eqb_neq; auto).
    assert (E2 : (c =? LF) = false) by (apply N.eqb_neq; auto).
    rewrite E1, E2. cbn [orb]. rewrite IH by auto. rewrite <- app_assoc. cbn [app].
    destruct t; reflexivity.
Qed.

Definition eol_ok (eol : bytes) : Prop := eol = [CR; LF] \/ eol = [CR] \/ eol = [LF].
(* the "previous char was CR" flag that may hold at the start of a line *)
Definition start_ok (eol : bytes) (b : bool) : Prop := b = false \/ eol = [CR].

Lemma t_feed_line_eol eol l b : eol_ok eol -> start_ok eol b -> line_ok l ->
  exists b', t_feed ([], b) (l ++ eol) = (([], b'), [l]) /\ start_ok eol b'.
Proof.
  intros He Hs Hl. rewrite t_feed_app, t_feed_line by auto. cbn [app].
  destruct He as [-> | [-> | ->]].
  - exists false. split; [|left; auto]. cbn [t_feed t_byte]. unfold t_byte. cbn. reflexivity.
  - exists true. split; [|right; auto]. cbn [t_feed]. unfold t_byte. cbn. reflexivity.
  - exists false. split; [|left; auto]. cbn [t_feed]. unfold t_byte.
    assert (Hb : match l with [] => b | _ => false end = false).
    { destruct l; auto. destruct Hs as [-> | Hs]; auto. discriminate. }
    rewrite Hb. cbn. reflexivity.
Qed.

Lemma t_feed_lines eol lines : eol_ok eol -> Forall line_ok lines -> forall b, start_ok eol b ->
  exists b', t_feed ([], b) (t_wire_msg eol lines) = (([], b'), lines) /\ start_ok eol b'.
Proof.
  intros He. induction 1 as [|l t Hl _ IH]; intros b Hs; cbn [t_wire_msg flat_map].
  - exists b. auto.
  - destruct (t_feed_line_eol eol l b He Hs Hl) as (b1 & Hf1 & Hs1).
    destruct (IH b1 Hs1) as (b2 & Hf2 & Hs2).
    exists b2. split; auto. rewrite t_feed_app, Hf1. unfold t_wire_msg in Hf2. rewrite Hf2. reflexivity.
Qed.

(* ---- the NUL counter-example: with a NUL byte in the stream the delivered text depends on
   where the read boundary falls ("ab\0cd\n" in one read gives the line "ab"; with the
   boundary after the NUL it gives "abcd").  NUL is outside the property's domain of text lines;
   the correspondence stream text-foreign replays exactly this on the real code. *)
Definition nul_stream : bytes := [97; 98; 0; 99; 100; 10].
Lemma text_nul_refuted :
  let big := c_MUSCLE_NO_LIMIT in
  let '(_, o1, _) := t_do_input tr_init big [big] nul_stream in
  let '(r2, o2a, p2) := t_do_input tr_init big [3] nul_stream in
  let '(_, o2b, _) := t_do_input r2 big [big] p2 in
  concat o1 = [[97; 98]] /\ concat (o2a ++ o2b) = [[97; 98; 99; 100]].
Proof. vm_compute. auto. Qed.

(* ====================================================================== end to end *)
Section TextE2E.
  Variable eol : bytes.
  Hypothesis eol_is_ok : eol_ok eol.

  Lemma eol_ne : eol <> [].
  Proof. destruct eol_is_ok as [-> | [-> | ->]]; discriminate. Qed.

  Lemma eol_nul_free : nul_free eol.
  Proof. destruct eol_is_ok as [-> | [-> | ->]]; repeat constructor; discriminate. Qed.

  Definition text_wfm (m : list bytes) : Prop := Forall line_ok m.
  Definition text_wire (ms : list (list bytes)) : bytes := t_qbytes eol ms.
  Definition text_SI (st : tsend) (ms : list (list bytes)) : Prop := ts_wf eol st.
  Definition text_RRel (r : trecv) (c : bytes) (o : list (list bytes)) : Prop :=
    t_feed ([], false) c = ((tr_text r, tr_cr r), concat o).

  Lemma text_wire_lines ms : text_wire ms = t_wire_msg eol (concat ms).
  Proof.
    unfold text_wire, t_qbytes, t_wire_msg. induction ms as [|m t IH]; cbn; auto.
    rewrite IH, flat_map_app. reflexivity.
  Qed.

  Lemma text_all_ok ms : Forall text_wfm ms -> Forall line_ok (concat ms).
  Proof. induction 1 as [|m t Hm _ IH]; cbn; [constructor|]. apply Forall_app; auto. Qed.

  Lemma line_nul_free l : line_ok l -> nul_free l.
  Proof. apply Forall_impl. tauto. Qed.

  Lemma text_wire_nul_free ms : Forall text_wfm ms -> nul_free (text_wire ms).
  Proof.
    intros H. rewrite text_wire_lines. apply text_all_ok in H.
    induction H as [|l t Hl _ IH]; cbn; [constructor|].
    apply nul_free_app; split; auto. apply nul_free_app; split; [apply line_nul_free; auto|apply eol_nul_free].
  Qed.

  Definition text_sys0 := @sys0 (list bytes) (list bytes) tsend trecv ts_init tr_init.
  Notation text_run := (sys_run ts_queue (t_do_output eol) t_do_input).

  Lemma text_S_init : text_SI ts_init [] /\ ts_rem eol ts_init = [].
  Proof. split; [exact I|reflexivity]. Qed.

  Lemma text_S_queue s ms m :
    Forall text_wfm ms -> text_wfm m -> text_SI s ms ->
    text_SI (ts_queue s m) (ms ++ [m]) /\
    exists d, ts_rem eol (ts_queue s m) = ts_rem eol s ++ d /\ text_wire (ms ++ [m]) = text_wire ms ++ d.
  Proof.
    intros _ _ Hs. split.
    - unfold text_SI, ts_wf in *. cbn. exact Hs.
    - exists (t_wire_msg eol m). split.
      + unfold ts_rem. cbn [ts_queue ts_cur ts_off ts_idx ts_q ts_text]. rewrite t_qbytes_app, app_assoc.
        unfold t_qbytes at 3. cbn. now rewrite app_nil_r.
      + unfold text_wire. rewrite t_qbytes_app. unfold t_qbytes at 3. cbn. now rewrite app_nil_r.
  Qed.

  Lemma text_S_out s ms maxb scr s' x :
    Forall text_wfm ms -> text_SI s ms -> t_do_output eol s maxb scr = (s', x) ->
    text_SI s' ms /\ ts_rem eol s = x ++ ts_rem eol s'.
  Proof. intros _ Hs H. destruct (t_do_output_spec eol s maxb scr s' x Hs H) as (? & _ & ?). auto. Qed.

  Lemma text_R_init : text_RRel tr_init [] [].
  Proof. reflexivity. Qed.

  Lemma text_R_in (ms : list (list bytes)) r c o maxb scr pipe (rest : bytes) r' o' pipe' :
    Forall text_wfm ms -> text_wire ms = c ++ pipe ++ rest -> text_RRel r c o ->
    t_do_input r maxb scr pipe = (r', o', pipe') ->
    exists x, pipe = x ++ pipe' /\ text_RRel r' (c ++ x) (o ++ o').
  Proof.
    intros Hwf Hw Hc H.
    assert (Hn : nul_free pipe).
    { pose proof (text_wire_nul_free ms Hwf) as Hnf. rewrite Hw in Hnf.
      apply nul_free_app in Hnf. destruct Hnf as [_ Hnf]. apply nul_free_app in Hnf. tauto. }
    assert (Hinv : tr_cr r = true -> tr_text r = []).
    { unfold text_RRel in Hc. apply (t_feed_inv c ([], false) (tr_text r, tr_cr r) (concat o)); auto. }
    destruct (t_do_input_spec _ _ _ _ _ _ _ Hn Hinv H) as (x & Hp & Hf & _).
    exists x. split; auto. unfold text_RRel in *.
    rewrite t_feed_app, Hc, Hf, concat_app. reflexivity.
  Qed.

  Lemma text_full_decode ms : Forall text_wfm ms ->
    exists b, t_feed ([], false) (text_wire ms) = (([], b), concat ms).
  Proof.
    intros Hwf. rewrite text_wire_lines.
    destruct (t_feed_lines eol (concat ms) eol_is_ok (text_all_ok ms Hwf) false (or_introl eq_refl)) as (b & Hf & _).
    eauto.
  Qed.

  Lemma text_decode_prefix ms (r : trecv) c o (rest : bytes) :
    Forall text_wfm ms -> text_wire ms = c ++ rest -> text_RRel r c o ->
    exists tl, concat ms = concat o ++ tl.
  Proof.
    intros Hwf Hw Hc. unfold text_RRel in Hc.
    destruct (text_full_decode ms Hwf) as (b & Hall).
    rewrite Hw, t_feed_app, Hc in Hall.
    destruct (t_feed (tr_text r, tr_cr r) rest) as [r2 o2]. inversion Hall. eauto.
  Qed.

  Lemma text_decode_complete ms (r : trecv) o :
    Forall text_wfm ms -> text_RRel r (text_wire ms) o -> concat o ++ [] = concat ms.
  Proof.
    intros Hwf Hc. unfold text_RRel in Hc.
    destruct (text_full_decode ms Hwf) as (b & Hall).
    rewrite Hc in Hall. inversion Hall. now rewrite app_nil_r.
  Qed.

  (* Every event list: the text lines delivered so far (whatever their grouping into Messages)
     are a prefix of the lines queued so far, each bit-identical. *)
  Theorem text_prefix_safety (evs : list (event (list bytes))) :
    Forall (ev_wf text_wfm) evs ->
    exists tl, concat (ev_msgs evs) = concat (s_dlv (text_run text_sys0 evs)) ++ tl.
  Proof.
    apply (prefix_safety ts_queue (t_do_output eol) t_do_input ts_init tr_init text_wfm text_wire
             (@concat bytes) (@concat bytes) (ts_rem eol) text_SI text_RRel);
      [reflexivity | exact text_S_init | exact text_S_queue | exact text_S_out | exact text_R_init
      | exact text_R_in | exact text_decode_prefix].
  Qed.

  Theorem text_completeness (evs : list (event (list bytes))) :
    Forall (ev_wf text_wfm) evs ->
    ts_rem eol (s_snd (text_run text_sys0 evs)) = [] -> s_pipe (text_run text_sys0 evs) = [] ->
    concat (s_dlv (text_run text_sys0 evs)) = concat (ev_msgs evs).
  Proof.
    intros Hf Hr Hp.
    pose proof (completeness ts_queue (t_do_output eol) t_do_input ts_init tr_init text_wfm text_wire
             (@concat bytes) (@concat bytes) (fun _ => []) (ts_rem eol) text_SI text_RRel
             eq_refl text_S_init text_S_queue text_S_out text_R_init text_R_in text_decode_complete evs Hf Hr Hp) as H.
    now rewrite app_nil_r in H.
  Qed.

  Theorem text_fair_completion (evs : list (event (list bytes))) (rs : list (list (event (list bytes)))) :
    Forall (ev_wf text_wfm) evs -> Forall round rs ->
    (measure (ts_rem eol) ts_mu (text_run text_sys0 evs) <= length rs)%nat ->
    let st := text_run text_sys0 (evs ++ concat rs) in
    quiet (ts_rem eol) st /\ concat (s_dlv st) = concat (ev_msgs evs).
  Proof.
    intros Hf Hr Hm.
    pose proof (fair_completion ts_queue (t_do_output eol) t_do_input ts_init tr_init text_wfm text_wire
             (@concat bytes) (@concat bytes) (fun _ => []) (ts_rem eol) text_SI text_RRel
             eq_refl text_S_init text_S_queue text_S_out text_R_init text_R_in text_decode_complete ts_mu) as H.
    cbv zeta in *. rewrite <- (app_nil_r (concat (s_dlv _))). apply H; auto.
    - intros s ms maxb scr s' x _ Hs Ho. split.
      + destruct (t_do_output_spec eol s maxb scr s' x Hs Ho) as (_ & Hmu & _). exact Hmu.
      + intros Hrem Hmx Hk. exact (t_do_output_progress eol eol_ne s maxb scr s' x Hs Hrem Hmx Hk Ho).
    - intros ms r c o maxb scr pipe rest r' o' pipe' Hwf Hw Hc Hi Hne Hmx Hk.
      assert (Hn : nul_free pipe).
      { pose proof (text_wire_nul_free ms Hwf) as Hnf. rewrite Hw in Hnf.
        apply nul_free_app in Hnf. destruct Hnf as [_ Hnf]. apply nul_free_app in Hnf. tauto. }
      assert (Hinv : tr_cr r = true -> tr_text r = []).
      { unfold text_RRel in Hc. apply (t_feed_inv c ([], false) (tr_text r, tr_cr r) (concat o)); auto. }
      destruct (t_do_input_spec _ _ _ _ _ _ _ Hn Hinv Hi) as (x & Hp & _ & Hb).
      assert (0 < blen pipe) by (apply blen_pos; auto).
      assert (1 <= c_text_buf_size - 1) by (vm_compute; discriminate).
      rewrite Hp, app_length. assert (0 < blen x) by lia. unfold blen in *. lia.
  Qed.
End TextE2E.

(* ====================================================================== receiver alone, foreign senders:
   every line may have its OWN terminator (CR, LF or CRLF), as long as the stream is not inherently
   ambiguous (a CR-terminated line directly followed by an empty LF-terminated line reads as one CRLF).
   For every sequence of DoInput calls, with any maxBytes and any read scripts, over such a stream:
   what has been delivered is the decoding of the bytes consumed so far, hence a prefix of the lines,
   and all of them once the stream has been consumed. *)
Definition ends_cr (t : bytes) : bool := match t with [13] => true | _ => false end.

Fixpoint mixed_ok (b : bool) (lts : list (bytes * bytes)) : Prop :=
  match lts with
  | [] => True
  | (l, t) :: r =>
      line_ok l /\ eol_ok t /\ ~ (b = true /\ l = [] /\ t = [LF]) /\ mixed_ok (ends_cr t) r
  end.

Definition mixed_wire (lts : list (bytes * bytes)) : bytes := flat_map (fun lt => fst lt ++ snd lt) lts.

Lemma t_feed_mixed lts : forall b, mixed_ok b lts ->
  exists b', t_feed ([], b) (mixed_wire lts) = (([], b'), map fst lts).
Proof.
  induction lts as [|[l t] r IH]; intros b H; cbn [mixed_wire flat_map map fst snd].
  - exists b. reflexivity.
  - destruct H as (Hl & Ht & Hamb & Hr).
    destruct (IH _ Hr) as (b2 & Hf2).
    exists b2. rewrite <- app_assoc, t_feed_app, t_feed_line by auto. cbn [app].
    set (pcr := match l with [] => b | _ => false end).
    assert (Hstep : t_feed (l, pcr) t = (([], ends_cr t), [l])).
    { destruct Ht as [-> | [-> | ->]].
      - cbn [t_feed]. unfold t_byte. cbn. reflexivity.
      - cbn [t_feed]. unfold t_byte. cbn. reflexivity.
      - assert (Hp : pcr = false).
        { subst pcr. destruct l; auto. destruct b; auto. exfalso. apply Hamb. auto. }
        rewrite Hp. cbn [t_feed]. unfold t_byte. cbn. reflexivity. }
    unfold bytes, byte in *. rewrite (t_feed_app t (l, pcr)), Hstep. fold (mixed_wire r). unfold bytes, byte in *. rewrite Hf2. reflexivity.
Qed.

Lemma mixed_wire_nul_free lts : forall b, mixed_ok b lts -> nul_free (mixed_wire lts).
Proof.
  induction lts as [|[l t] r IH]; intros b H; cbn [mixed_wire flat_map fst snd]; [constructor|].
  destruct H as (Hl & Ht & _ & Hr). apply nul_free_app; split; [|exact (IH _ Hr)].
  apply nul_free_app; split.
  - eapply Forall_impl; [|exact Hl]. intros a Ha. cbv beta in Ha. destruct Ha as (_ & _ & Ha). exact Ha.
  - destruct Ht as [-> | [-> | ->]]; repeat constructor; discriminate.
Qed.

(* a sequence of DoInput calls: (maxBytes, read script) each *)
Fixpoint t_recv_run (st : trecv) (pipe : bytes) (calls : list (N * list N)) : trecv * list (list bytes) * bytes :=
  match calls with
  | [] => (st, [], pipe)
  | (maxb, scr) :: r =>
      let '(st1, o1, p1) := t_do_input st maxb scr pipe in
      let '(st2, o2, p2) := t_recv_run st1 p1 r in (st2, o1 ++ o2, p2)
  end.

Lemma t_recv_run_spec calls : forall st pipe st' outs pipe',
  nul_free pipe -> (tr_cr st = true -> tr_text st = []) ->
  t_recv_run st pipe calls = (st', outs, pipe') ->
  exists x, pipe = x ++ pipe' /\
            t_feed (tr_text st, tr_cr st) x = ((tr_text st', tr_cr st'), concat outs) /\
            (tr_cr st' = true -> tr_text st' = []).
Proof.
  induction calls as [|[maxb scr] r IH]; intros st pipe st' outs pipe' Hn Hinv H; cbn [t_recv_run] in H.
  - inversion H; subst. exists []. cbn. auto.
  - destruct (t_do_input st maxb scr pipe) as [[st1 o1] p1] eqn:E1.
    destruct (t_recv_run st1 p1 r) as [[st2 o2] p2] eqn:E2. inversion H; subst; clear H.
    destruct (t_do_input_spec _ _ _ _ _ _ _ Hn Hinv E1) as (x1 & Hp1 & Hf1 & _).
    assert (Hinv1 : tr_cr st1 = true -> tr_text st1 = []).
    { apply (t_feed_inv x1 (tr_text st, tr_cr st) (tr_text st1, tr_cr st1) (concat o1)); auto. }
    assert (Hn1 : nul_free p1) by (rewrite Hp1 in Hn; apply nul_free_app in Hn; tauto).
    destruct (IH _ _ _ _ _ Hn1 Hinv1 E2) as (x2 & Hp2 & Hf2 & Hinv2).
    exists (x1 ++ x2). split; [rewrite Hp1, Hp2; now rewrite app_assoc|]. split; auto.
    rewrite t_feed_app, Hf1, Hf2, concat_app. reflexivity.
Qed.

Theorem text_mixed_terminators (lts : list (bytes * bytes)) (calls : list (N * list N)) :
  mixed_ok false lts ->
  let '(st', outs, pipe') := t_recv_run tr_init (mixed_wire lts) calls in
  (exists tl, map fst lts = concat outs ++ tl) /\
  (pipe' = [] -> concat outs = map fst lts /\ tr_text st' = []).
Proof.
  intros Hok.
  destruct (t_recv_run tr_init (mixed_wire lts) calls) as [[st' outs] pipe'] eqn:E.
  destruct (t_recv_run_spec calls tr_init _ _ _ _ (mixed_wire_nul_free lts false Hok) ltac:(discriminate) E) as (x & Hp & Hf & _).
  destruct (t_feed_mixed lts false Hok) as (b' & Hall).
  change (tr_text tr_init, tr_cr tr_init) with (@nil N, false) in Hf. unfold bytes, byte in *.
  split.
  - rewrite Hp, t_feed_app, Hf in Hall.
    set (q := t_feed _ pipe') in Hall. destruct q as [s2 o2]. inversion Hall. eauto.
  - intros ->. rewrite app_nil_r in Hp. subst x. rewrite Hall in Hf. inversion Hf. auto.
Qed.
