(* C03 -- model of iogateway/WebSocketMessageIOGateway.cpp after the HTTP handshake (the gateways are
   constructed in the WEBSOCKET_HANDSHAKE_NONE state), with a slave gateway on both ends.  No proofs
   in this file.

   Sender   DoOutputImplementation (445-537) + CreateReplyFrame (539-588): every outgoing Message is
            turned into bytes by the slave gateway and wrapped in ONE binary frame with FIN set:
            0x82, length field (7 bit / 126 + 16 bit / 127 + 64 bit, big-endian), and for a client the
            four masking-key bytes followed by the payload XOR-ed with them (key byte i mod 4).  The
            key is random in the C++; here it is taken from a list the theorems quantify over.
            The model follows the repaired code, which writes the key bytes in the order it masks
            with (finding: WriteInt32 of the key through a BigEndianDataFlattener reversed them on a
            little-endian host); [ws_key_wire] is the identity now and was [rev] before.
   Receiver DoInputImplementation (243-417): header bytes (2, then up to 14 depending on the length
            code and the mask bit), payload bytes, un-masking when the payload is complete
            (from _firstByteToMask on), ExecuteReceivedFrame (619-703) when FIN is set: a binary
            payload is handed to the slave gateway, whose DoInput is run until it reads nothing more
            -- modelled by feeding the payload to the slave's byte-level machine (that this is what
            a MessageIOGateway's DoInput calls amount to is FrameProofs.f_do_input_spec).
            Modelled opcodes: BINARY, CLOSE, CONTINUATION (logged and dropped), PONG (ignored);
            TEXT and PING (which create Messages of their own) are outside this model and outside the
            correspondence streams.  Fragmented messages (FIN = 0) are accumulated as in the code. *)
From Coq Require Import List NArith Bool.
From Muscle Require Import Gen.Consts Gw.GwBase.
Import ListNotations.
Local Open Scope N_scope.

Definition WS_BINARY : N := 2.
Definition WS_CLOSE : N := 8.
Definition WS_FIN : N := 128.
Definition ws_max_payload : N := 10485760.        (* 10*1024*1024, line 392 *)

Definition be16 (n : N) : bytes := [(n / 256) mod 256; n mod 256].
Definition be32 (n : N) : bytes := [(n / 16777216) mod 256; (n / 65536) mod 256; (n / 256) mod 256; n mod 256].
Definition be64 (n : N) : bytes := be32 (n / two32) ++ be32 (n mod two32).
Fixpoint rdbe (b : bytes) (acc : N) : N := match b with [] => acc | x :: t => rdbe t (acc * 256 + x) end.

(* payload[i] ^= key[(i - first) mod 4] for i >= first; [i] counts from [first] *)
Fixpoint ws_xor (key : bytes) (i : nat) (data : bytes) : bytes :=
  match data with
  | [] => []
  | d :: t => N.lxor d (nth (Nat.modulo i 4) key 0) :: ws_xor key (S i) t
  end.

(* how the four key bytes used for masking appear in the frame header *)
Definition ws_key_wire (key : bytes) : bytes := key.

(* CreateReplyFrame *)
Definition ws_frame (client : bool) (key : bytes) (op : N) (data : bytes) : bytes :=
  let n := blen data in
  let mb := if client then 128 else 0 in
  [WS_FIN + op]
  ++ (if 65535 <? n then [mb + 127] ++ be64 n
      else if 125 <? n then [mb + 126] ++ be16 n
      else [mb + n])
  ++ (if client then ws_key_wire key ++ ws_xor key 0 data else data).

Section Ws.
  Variable Msg : Type.
  Variable SR : Type.                                   (* slave receiver state *)
  Variable sflat : Msg -> bytes.                        (* what the sender's slave gateway writes for one Message *)
  Variable sfeed : SR -> bytes -> SR * list Msg.        (* the receiver's slave gateway fed a payload *)

  (* ------------------------------------------------------------------ sender *)
  Record wsend := mkWS {
    ws_q : list Msg;
    ws_buf : bytes;        (* _outputBuf *)
    ws_off : N;            (* _outputBytesWritten *)
    ws_keys : list bytes }.  (* masking keys still to be drawn (client only) *)

  Definition ws_init (keys : list bytes) : wsend := mkWS [] [] 0 keys.
  Definition ws_queue (st : wsend) (m : Msg) : wsend := mkWS (ws_q st ++ [m]) (ws_buf st) (ws_off st) (ws_keys st).

  (* HasBytesToOutput() after the handshake: _outputBytesWritten < _outputBuf.GetNumBytes() || queue.HasItems() *)
  Definition ws_has_bytes (st : wsend) : bool :=
    (ws_off st <? blen (ws_buf st)) || match ws_q st with [] => false | _ => true end.

  Fixpoint ws_out (client : bool) (fuel : nat) (st : wsend) (maxb : N) (scr : list N) (acc : bytes) {struct fuel}
    : wsend * bytes :=
    match fuel with
    | O => (st, acc)
    | S fuel' =>
      if maxb =? 0 then (st, acc) else
      if ws_off st <? blen (ws_buf st) then
        let '(x, scr') := io_write (take (N.min (blen (ws_buf st) - ws_off st) maxb) (drop (ws_off st) (ws_buf st))) scr in
        if 0 <? blen x
        then ws_out client fuel' (mkWS (ws_q st) (ws_buf st) (ws_off st + blen x) (ws_keys st)) (maxb - blen x) scr' (acc ++ x)
        else (st, acc)
      else
        match ws_q st with
        | m :: q =>
            let key := match ws_keys st with k :: _ => k | [] => [0; 0; 0; 0] end in
            let keys' := if client then match ws_keys st with _ :: t => t | [] => [] end else ws_keys st in
            ws_out client fuel' (mkWS q (ws_frame client key WS_BINARY (sflat m)) 0 keys') maxb scr acc
        | [] => (st, acc)
        end
    end.

  (* every turn consumes a script entry or a queued Message *)
  Definition ws_do_output (client : bool) (st : wsend) (maxb : N) (scr : list N) : wsend * bytes :=
    ws_out client (S (length scr + length (ws_q st))) st maxb scr [].

  (* ------------------------------------------------------------------ receiver *)
  Record wrecv := mkWR {
    wr_hdr : bytes;                 (* _headerBytes[0.._headerBytesReceived) *)
    wr_hsize : N;                   (* _headerSize *)
    wr_pay : option (N * bytes);    (* _payload: (size, bytes received so far = _payloadBytesRead) *)
    wr_first : N;                   (* _firstByteToMask *)
    wr_mask : bytes;                (* _mask *)
    wr_op : N;                      (* _opCode *)
    wr_closed : bool;               (* _inputClosed *)
    wr_err : bool;                  (* unrecoverable error status set *)
    wr_slave : SR }.

  Definition wr_init (s : SR) : wrecv := mkWR [] 2 None 0 [0; 0; 0; 0] 0 false false s.

  Definition wr_reset_hdr (st : wrecv) : wrecv :=
    mkWR [] 2 (wr_pay st) (wr_first st) (wr_mask st) (wr_op st) (wr_closed st) (wr_err st) (wr_slave st).

  (* ExecuteReceivedFrame (619-703) *)
  Definition wr_execute (st : wrecv) : wrecv * list Msg :=
    let payload := match wr_pay st with Some (_, b) => b | None => [] end in
    let '(closed', slave', outs) :=
      if wr_closed st then (true, wr_slave st, [])
      else if wr_op st =? WS_BINARY then let '(s', o) := sfeed (wr_slave st) payload in (false, s', o)
      else if wr_op st =? WS_CLOSE then (true, wr_slave st, [])
      else (false, wr_slave st, []) in
    (mkWR (wr_hdr st) (wr_hsize st) None 0 (wr_mask st) 0 closed' (wr_err st) slave', outs).

  (* InitializeIncomingPayload (590-617); the header is complete *)
  Definition wr_init_payload (st : wrecv) (size : N) (mask_off : option N) : wrecv * list Msg :=
    let h0 := nth 0 (wr_hdr st) 0 in
    if size =? 0 then
      let st1 := match wr_pay st with
                 | Some _ => st
                 | None => mkWR (wr_hdr st) (wr_hsize st) None (wr_first st) (wr_mask st) (h0 mod 16) (wr_closed st) (wr_err st) (wr_slave st)
                 end in
      let '(st2, o) := if WS_FIN <=? h0 then wr_execute st1 else (st1, []) in
      (wr_reset_hdr st2, o)
    else
      let mask := match mask_off with Some off => take 4 (drop off (wr_hdr st)) | None => [0; 0; 0; 0] end in
      match wr_pay st with
      | Some (sz, got) =>
          (mkWR (wr_hdr st) (wr_hsize st) (Some (sz + size, got)) (wr_first st) mask (wr_op st) (wr_closed st) (wr_err st) (wr_slave st), [])
      | None =>
          (mkWR (wr_hdr st) (wr_hsize st) (Some (size, [])) (wr_first st) mask (h0 mod 16) (wr_closed st) (wr_err st) (wr_slave st), [])
      end.

  Definition wr_set_err (st : wrecv) : wrecv :=
    mkWR (wr_hdr st) (wr_hsize st) (wr_pay st) (wr_first st) (wr_mask st) (wr_op st) (wr_closed st) true (wr_slave st).
  Definition wr_set_hsize (st : wrecv) (n : N) : wrecv :=
    mkWR (wr_hdr st) n (wr_pay st) (wr_first st) (wr_mask st) (wr_op st) (wr_closed st) (wr_err st) (wr_slave st).

  (* the switch(_headerSize) at lines 345-404, run when _headerBytesReceived == _headerSize *)
  Definition wr_header_done (client : bool) (st : wrecv) : wrecv * list Msg :=
    let h0 := nth 0 (wr_hdr st) 0 in
    let h1 := nth 1 (wr_hdr st) 0 in
    let maskbit := 128 <=? h1 in
    let len7 := h1 mod 128 in
    let hs := wr_hsize st in
    if hs =? 2 then
      if negb ((h0 / 16) mod 8 =? 0) then (wr_set_err st, [])                    (* reserved bits *)
      else if (if client then maskbit else negb maskbit) then (wr_set_err st, [])    (* wrong masking for this peer *)
      else
        let hs' := 2 + (if len7 =? 126 then 2 else if len7 =? 127 then 8 else 0) + (if maskbit then 4 else 0) in
        if hs' =? 2 then wr_init_payload st len7 None else (wr_set_hsize st hs', [])
    else if hs =? 6 then wr_init_payload st len7 (Some 2)
    else if (hs =? 4) || (hs =? 8) then wr_init_payload st (rdbe (take 2 (drop 2 (wr_hdr st))) 0) (if maskbit then Some 4 else None)
    else if (hs =? 10) || (hs =? 14) then
      let size := rdbe (take 8 (drop 2 (wr_hdr st))) 0 in
      if 9223372036854775808 <=? size then (wr_set_err st, [])
      else if ws_max_payload <? size then (wr_set_err st, [])
      else wr_init_payload st (u32 size) (if maskbit then Some 10 else None)
    else (wr_set_err st, []).

  (* a payload that has just become complete (lines 293-308) *)
  Definition wr_payload_done (client : bool) (st : wrecv) : wrecv * list Msg :=
    match wr_pay st with
    | None => (st, [])
    | Some (sz, got) =>
        let st1 :=
          if client then st
          else mkWR (wr_hdr st) (wr_hsize st)
                    (Some (sz, take (wr_first st) got ++ ws_xor (wr_mask st) 0 (drop (wr_first st) got)))
                    sz (wr_mask st) (wr_op st) (wr_closed st) (wr_err st) (wr_slave st) in
        let h0 := nth 0 (wr_hdr st) 0 in
        let '(st2, o) := if wr_closed st1 || (WS_FIN <=? h0) then wr_execute st1 else (st1, []) in
        (wr_reset_hdr st2, o)
    end.

  (* one byte arriving: the byte-at-a-time reference machine (L0) *)
  Definition wr_byte (client : bool) (st : wrecv) (b : byte) : wrecv * list Msg :=
    if wr_err st then (st, []) else
    if blen (wr_hdr st) =? wr_hsize st then
      match wr_pay st with
      | None => (wr_set_err st, [])                       (* "no _payload buffer is present": B_LOGIC_ERROR *)
      | Some (sz, got) =>
          let st1 := mkWR (wr_hdr st) (wr_hsize st) (Some (sz, got ++ [b])) (wr_first st) (wr_mask st) (wr_op st)
                          (wr_closed st) (wr_err st) (wr_slave st) in
          if blen got + 1 =? sz then wr_payload_done client st1 else (st1, [])
      end
    else
      let st1 := mkWR (wr_hdr st ++ [b]) (wr_hsize st) (wr_pay st) (wr_first st) (wr_mask st) (wr_op st)
                      (wr_closed st) (wr_err st) (wr_slave st) in
      if blen (wr_hdr st) + 1 =? wr_hsize st then wr_header_done client st1 else (st1, []).

  Fixpoint wr_feed (client : bool) (st : wrecv) (bs : bytes) : wrecv * list Msg :=
    match bs with
    | [] => (st, [])
    | b :: t => let '(st1, o1) := wr_byte client st b in
                let '(st2, o2) := wr_feed client st1 t in (st2, o1 ++ o2)
    end.

  (* the loop of DoInputImplementation: one Read per turn *)
  Fixpoint wr_in (client : bool) (scr : list N) (st : wrecv) (maxb : N) (pipe : bytes) (outs : list Msg) {struct scr}
    : wrecv * list Msg * bytes :=
    if (maxb =? 0) || wr_err st then (st, outs, pipe) else
    if blen (wr_hdr st) =? wr_hsize st then
      match wr_pay st with
      | None => (wr_set_err st, outs, pipe)
      | Some (sz, got) =>
          let '(x, pipe', _) := io_read (N.min maxb (sz - blen got)) scr pipe in
          if 0 <? blen x then
            let st1 := mkWR (wr_hdr st) (wr_hsize st) (Some (sz, got ++ x)) (wr_first st) (wr_mask st) (wr_op st)
                            (wr_closed st) (wr_err st) (wr_slave st) in
            let '(st2, o) := if blen got + blen x =? sz then wr_payload_done client st1 else (st1, []) in
            match scr with
            | [] => (st2, outs ++ o, pipe')
            | _ :: scr' => wr_in client scr' st2 (maxb - blen x) pipe' (outs ++ o)
            end
          else (st, outs, pipe')
      end
    else
      let '(x, pipe', _) := io_read (N.min maxb (wr_hsize st - blen (wr_hdr st))) scr pipe in
      if 0 <? blen x then
        let st1 := mkWR (wr_hdr st ++ x) (wr_hsize st) (wr_pay st) (wr_first st) (wr_mask st) (wr_op st)
                        (wr_closed st) (wr_err st) (wr_slave st) in
        let '(st2, o) := if blen (wr_hdr st) + blen x =? wr_hsize st then wr_header_done client st1 else (st1, []) in
        match scr with
        | [] => (st2, outs ++ o, pipe')
        | _ :: scr' => wr_in client scr' st2 (maxb - blen x) pipe' (outs ++ o)
        end
      else (st, outs, pipe').

  Definition wr_do_input (client : bool) (st : wrecv) (maxb : N) (scr : list N) (pipe : bytes)
    : wrecv * list Msg * bytes :=
    wr_in client scr st maxb pipe [].
End Ws.

Arguments mkWS {Msg}. Arguments ws_q {Msg}. Arguments ws_buf {Msg}. Arguments ws_off {Msg}. Arguments ws_keys {Msg}.
Arguments ws_init {Msg}. Arguments ws_queue {Msg}. Arguments ws_has_bytes {Msg}.
Arguments mkWR {SR}. Arguments wr_hdr {SR}. Arguments wr_hsize {SR}. Arguments wr_pay {SR}. Arguments wr_first {SR}.
Arguments wr_mask {SR}. Arguments wr_op {SR}. Arguments wr_closed {SR}. Arguments wr_err {SR}. Arguments wr_slave {SR}.
Arguments wr_init {SR}.
