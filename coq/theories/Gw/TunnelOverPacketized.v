(* C12 -- end to end: the tunnel gateways over dataio/PacketizedProxyDataIO (what test/testpackettunnel.cpp
   runs for tcp=...): whatever way the byte stream is cut up on the writing and on the reading side, every
   completely written Message that fits the limits is delivered exactly once, in order.
   Composition of tunnel_complete / mini_complete with packetized_transport_perfect. *)
From Coq Require Import List Arith NArith Bool Lia.
From Coq Require Import Strings.Byte.
From Muscle Require Import Common.LE Gen.Consts Gw.Tunnel Gw.TunnelProofs Gw.TunnelSound Gw.TunnelSender
                           Gw.TunnelComplete Gw.TunnelTheorems Gw.MiniTunnel Gw.MiniTunnelProofs
                           Gw.Packetized Gw.PacketizedProofs.
Import ListNotations.
Local Open Scope N_scope.

(* [wops]: the Write()/WriteBufferedOutput() calls the sending side made on the packetizer (a refused
   packet is offered again, so the packets TAKEN are the packets the gateway wrote: [taken wops wrs = pkts]);
   [script]: the Read() calls of the receiving side.  All packets arrive under the one address a (a stream
   has no per-packet source). *)
Theorem tunnel_over_packetized_complete :
  forall rc c a id0 ops st pkts t0 mtu wops wst out wrs script rst rest rrs,
    scfg_ok c -> compat c rc -> id0 < two32 -> no_setid ops ->
    N.of_nat (length (added ops)) <= two32 ->
    Forall (fun m => lenN m < two32) (added ops) ->
    srun c (s_init id0) ops = (st, pkts) -> s_pkt st = [] ->
    tbl_wf t0 -> tbl_find a t0 = None ->
    mtu < two32 -> wops_nonempty wops -> Forall (fun x => mtu <= fst (fst x)) script ->
    pwrites mtu pw_init wops = (wst, out, wrs) -> taken wops wrs = pkts -> pw_buffered wst = false ->
    preads mtu pr_init out script = (rst, rest, rrs) -> rest = [] -> pr_hdr rst = [] ->
    exists done,
      added ops = done ++ s_q st
      /\ snd (recv_all rc t0 (map (pair a) (handed rrs))) = map (pair a) (filter (fits rc) done).
Proof.
  intros rc c a id0 ops st pkts t0 mtu wops wst out wrs script rst rest rrs
         Hc Hcompat Hid Hns Hlen Hsz Hrun Hpk Hwf Hnone Hmtu Hne Hsc Hw Htk Hnb Hr Hrest Hh.
  destruct (packetized_transport_perfect mtu wops wst out wrs script rst rest rrs Hmtu Hne Hsc Hw Hnb Hr Hrest Hh) as [Hhd _].
  rewrite Hhd, Htk.
  exact (tunnel_complete rc c a id0 ops st pkts t0 Hc Hcompat Hid Hns Hlen Hsz Hrun Hpk Hwf Hnone).
Qed.

(* the same with a fair reader instead of "the stream was read to its end": as many Read() calls as the stream has
   bytes, each finding bytes available on the child *)
Theorem tunnel_over_packetized_fair :
  forall rc c a id0 ops st pkts t0 mtu wops wst out wrs script rst rest rrs,
    scfg_ok c -> compat c rc -> id0 < two32 -> no_setid ops ->
    N.of_nat (length (added ops)) <= two32 ->
    Forall (fun m => lenN m < two32) (added ops) ->
    srun c (s_init id0) ops = (st, pkts) -> s_pkt st = [] ->
    tbl_wf t0 -> tbl_find a t0 = None ->
    mtu < two32 -> wops_nonempty wops ->
    Forall (fun x => mtu <= fst (fst x) /\ 0 < snd (fst x) /\ 0 < snd x) script ->
    (length out <= length script)%nat ->
    pwrites mtu pw_init wops = (wst, out, wrs) -> taken wops wrs = pkts -> pw_buffered wst = false ->
    preads mtu pr_init out script = (rst, rest, rrs) ->
    exists done,
      added ops = done ++ s_q st
      /\ snd (recv_all rc t0 (map (pair a) (handed rrs))) = map (pair a) (filter (fits rc) done).
Proof.
  intros rc c a id0 ops st pkts t0 mtu wops wst out wrs script rst rest rrs
         Hc Hcompat Hid Hns Hlen Hsz Hrun Hpk Hwf Hnone Hmtu Hne Hsc Hl Hw Htk Hnb Hr.
  destruct (packetized_transport_delivers_all mtu wops wst out wrs script rst rest rrs Hmtu Hne Hsc Hl Hw Hnb Hr) as [Hhd _].
  rewrite Hhd, Htk.
  exact (tunnel_complete rc c a id0 ops st pkts t0 Hc Hcompat Hid Hns Hlen Hsz Hrun Hpk Hwf Hnone).
Qed.

Section MiniOverPacketized.

Variable deflate : N -> list byte -> option (list byte).
Variable inflate : list byte -> option (list byte).
Hypothesis inflate_deflate : forall lvl x d, deflate lvl x = Some d -> inflate d = Some x.

Theorem mini_over_packetized_complete :
  forall rc c a pid0 ops st pkts mtu wops wst out wrs script rst rest rrs,
    mcfg_ok c -> rc_misc rc = false ->
    mc_magic c = rc_magic rc -> sex_ok rc (mc_sex c) = true -> mc_mtu c <= rc_mtu rc ->
    pid0 < 2 ^ 24 -> no_msetid ops ->
    Forall (fun m => lenN m < two32) (madded ops) ->
    mrun deflate c (m_init pid0) ops = (st, pkts) -> m_pkt st = [] ->
    mtu < two32 -> wops_nonempty wops -> Forall (fun x => mtu <= fst (fst x)) script ->
    pwrites mtu pw_init wops = (wst, out, wrs) -> taken wops wrs = pkts -> pw_buffered wst = false ->
    preads mtu pr_init out script = (rst, rest, rrs) -> rest = [] -> pr_hdr rst = [] ->
    exists done,
      madded ops = done ++ m_q st
      /\ mrecv_all inflate rc (map (pair a) (handed rrs)) = map (pair a) (filter (mfits c) done).
Proof.
  intros rc c a pid0 ops st pkts mtu wops wst out wrs script rst rest rrs
         Hc Hmisc Hmg Hsx Hcm Hpid Hns Hsm Hrun Hpk Hmtu Hne Hsc Hw Htk Hnb Hr Hrest Hh.
  destruct (packetized_transport_perfect mtu wops wst out wrs script rst rest rrs Hmtu Hne Hsc Hw Hnb Hr Hrest Hh) as [Hhd _].
  rewrite Hhd, Htk.
  exact (mini_complete deflate inflate inflate_deflate rc c a pid0 ops st pkts Hc Hmisc Hmg Hsx Hcm Hpid Hns Hsm Hrun Hpk).
Qed.

End MiniOverPacketized.

(* non-vacuity: the three packets of a two-Message run, written through a packetizer whose child takes a few
   bytes at a time, read back a few bytes at a time *)
Definition e2e_cfg : scfg := mkSCfg c_DEFAULT_TUNNEL_IOGATEWAY_MAGIC 0 (clamp_mtu 30).
Definition e2e_rc : rcfg := mkRCfg c_DEFAULT_TUNNEL_IOGATEWAY_MAGIC 0 (clamp_mtu 30) 4294967295 false.
Definition e2e_ops : list sop := [SAdd (repeat x41 9); SAdd [x07]; SOut 4294967295 100].
Definition e2e_pkts : list packet := snd (srun e2e_cfg (s_init 0) e2e_ops).
Definition e2e_wops : list wop :=
  flat_map (fun p => [WWrite p 5 0; WFlush 7; WFlush 100]) e2e_pkts.
Definition e2e_script : list (N * N * N) := repeat (30, 3, 11) 40.

Example e2e_nontrivial :
  let '(wst, out, wrs) := pwrites 30 pw_init e2e_wops in
  let '(rst, rest, rrs) := preads 30 pr_init out e2e_script in
  length e2e_pkts = 3%nat /\ taken e2e_wops wrs = e2e_pkts /\ pw_buffered wst = false /\ rest = [] /\ pr_hdr rst = []
  /\ snd (recv_all e2e_rc [] (map (pair 0) (handed rrs))) = [(0, repeat x41 9); (0, [x07])].
Proof. vm_compute. repeat split; reflexivity. Qed.
