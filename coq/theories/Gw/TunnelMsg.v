(* C12 at the level of Messages: the tunnel used without a slave gateway (iogateway/ProxyIOGateway.cpp:
   GenerateOutgoingByteBuffers flattens the Message into the buffer handed to the tunnel,
   HandleIncomingByteBuffer unflattens a reassembled buffer and hands the Message over iff that succeeds).
   Composition of the C12 theorems about buffers with C01's model of Message::Flatten/Unflatten (Msg/):
   every delivered Message is the round-trip image [rt M] of a sent Message M -- same what-code, fields,
   types, item bytes, and it re-serialises to exactly M's bytes. *)
From Coq Require Import List Arith NArith Bool Lia.
From Coq Require Import Strings.Byte.
From Muscle Require Import Common.LE Gen.Consts Gw.Tunnel Gw.TunnelProofs Gw.TunnelSound Gw.TunnelSender
                           Gw.TunnelComplete Gw.TunnelTheorems.
From Muscle Require Msg.MsgDefs Msg.MsgModel Msg.MsgBytesProofs Msg.MsgSizeProofs Msg.MsgRoundTrip Msg.MsgReprProofs Msg.MsgExamples.
Import ListNotations.
Local Open Scope N_scope.

Definition Message := MsgDefs.msg.

(* no slave gateway: the buffer is the flattened Message ... *)
Definition to_buffer (M : Message) : msg := MsgModel.flatten M.
(* ... and a reassembled buffer becomes a Message iff Unflatten accepts it *)
Definition of_buffer (b : msg) : option Message :=
  match MsgModel.unflatten b with MsgDefs.Ok M => Some M | _ => None end.

Inductive Mop :=
| MAddMsg (M : Message)               (* AddOutgoingMessage *)
| MOutput (maxBytes budget : N).      (* DoOutput *)

Definition lower (o : Mop) : sop :=
  match o with MAddMsg M => SAdd (to_buffer M) | MOutput mb bud => SOut mb bud end.

Fixpoint sent_msgs (ops : list Mop) : list Message :=
  match ops with
  | [] => []
  | MAddMsg M :: ops' => M :: sent_msgs ops'
  | _ :: ops' => sent_msgs ops'
  end.

Definition deliver_msgs (out : list (addr * msg)) : list (addr * Message) :=
  flat_map (fun d => match of_buffer (snd d) with Some M => [(fst d, M)] | None => [] end) out.

Lemma added_lower ops : added (map lower ops) = map to_buffer (sent_msgs ops).
Proof. induction ops as [|[M|mb bud] ops IH]; cbn [map lower added sent_msgs]; [reflexivity| |exact IH]. now rewrite IH. Qed.

Lemma no_setid_lower ops : no_setid (map lower ops).
Proof. induction ops as [|[M|mb bud] ops IH]; cbn [map lower no_setid]; auto. Qed.

Lemma lenN_to_buffer M : MsgModel.wf M -> lenN (to_buffer M) < two32.
Proof.
  intros [Hwf Hsz]. unfold to_buffer, lenN. rewrite <- MsgBytesProofs.len_length.
  rewrite (MsgSizeProofs.flatten_length M Hwf). exact Hsz.
Qed.

Lemma of_to_buffer M : MsgModel.wf M -> of_buffer (to_buffer M) = Some (MsgModel.rt M).
Proof. intros H. unfold of_buffer, to_buffer. now rewrite (MsgRoundTrip.unflatten_flatten M H). Qed.

(* a sender described at the level of Messages *)
Record msg_run := mkMsgRun { mr_scfg : scfg; mr_id0 : N; mr_mops : list Mop }.
Definition lower_run (s : msg_run) : sender_run := mkRun (mr_scfg s) (mr_id0 s) (map lower (mr_mops s)).

Definition msg_run_ok (s : msg_run) : Prop :=
  scfg_ok (mr_scfg s) /\ mr_id0 s < two32
  /\ N.of_nat (length (sent_msgs (mr_mops s))) <= two32
  /\ Forall MsgModel.wf (sent_msgs (mr_mops s)).

Lemma lower_run_ok s : msg_run_ok s -> sr_ok (lower_run s).
Proof.
  intros (Hc & Hid & Hlen & Hwf). unfold sr_ok, lower_run, sr_msgs. cbn [sr_cfg sr_id0 sr_ops].
  rewrite added_lower, map_length.
  split; [exact Hc|]. split; [exact Hid|]. split; [apply no_setid_lower|]. split; [exact Hlen|].
  apply Forall_forall. intros b Hb. apply in_map_iff in Hb as (M & <- & HM).
  rewrite Forall_forall in Hwf. apply lenN_to_buffer. now apply Hwf.
Qed.

(* THE PROPERTY, first clause, for Messages: over loss, duplication, reordering, foreign datagrams and arbitrary
   bytes from other addresses, every Message handed to the receiver under a sender's address is the round-trip
   image of a Message that sender was given, and serialises to exactly the same bytes. *)
Theorem tunnel_message_sound :
  forall (rc : rcfg) (who : addr -> option msg_run) (net : list (addr * packet)) t out,
    rc_misc rc = false -> 4 <= rc_mtu rc ->
    (forall a s, who a = Some s -> msg_run_ok s) ->
    (forall a s p, who a = Some s -> In (a, p) net -> In p (sr_packets (lower_run s)) \/ foreign (rc_magic rc) p) ->
    recv_all rc [] net = (t, out) ->
    forall a s D, who a = Some s -> In (a, D) (deliver_msgs out) ->
      exists M, In M (sent_msgs (mr_mops s)) /\ D = MsgModel.rt M /\ MsgModel.flatten D = MsgModel.flatten M.
Proof.
  intros rc who net t out Hmisc Hmtu Hok Hnet Hrun a s D Ha HD.
  unfold deliver_msgs in HD. apply in_flat_map in HD as ([a' b] & Hin & HD). cbn [fst snd] in HD.
  destruct (of_buffer b) as [M'|] eqn:Eb; [|destruct HD]. destruct HD as [E|[]]. injection E as -> ->.
  set (who' := fun x => option_map lower_run (who x)).
  assert (Hb : In b (sr_msgs (lower_run s))).
  { apply (tunnel_sound rc who' net t out Hmisc Hmtu) with (a := a); try assumption.
    - intros x sx Hx. unfold who' in Hx. destruct (who x) as [s0|] eqn:E0; [|discriminate]. injection Hx as <-.
      apply lower_run_ok. eapply Hok; eassumption.
    - intros x sx p Hx Hp. unfold who' in Hx. destruct (who x) as [s0|] eqn:E0; [|discriminate]. injection Hx as <-.
      eapply Hnet; eassumption.
    - unfold who'. now rewrite Ha. }
  unfold sr_msgs, lower_run in Hb. cbn [sr_ops] in Hb. rewrite added_lower in Hb.
  apply in_map_iff in Hb as (M & <- & HM).
  destruct (Hok a s Ha) as (_ & _ & _ & Hwf). rewrite Forall_forall in Hwf. specialize (Hwf M HM).
  rewrite (of_to_buffer M Hwf) in Eb. injection Eb as <-.
  exists M. split; [exact HM|]. split; [reflexivity|]. apply MsgReprProofs.reflatten. exact (proj1 Hwf).
Qed.

Definition fitsM (rc : rcfg) (M : Message) : bool := fits rc (to_buffer M).

Lemma deliver_msgs_map a Ms :
  Forall MsgModel.wf Ms ->
  deliver_msgs (map (pair a) (map to_buffer Ms)) = map (pair a) (map MsgModel.rt Ms).
Proof.
  induction Ms as [|M Ms IH]; intros H; [reflexivity|]. inversion H; subst.
  unfold deliver_msgs in *. cbn [map flat_map fst snd]. rewrite of_to_buffer by assumption. cbn [app]. now rewrite IH.
Qed.

Lemma filter_map_to_buffer rc Ms : filter (fits rc) (map to_buffer Ms) = map to_buffer (filter (fitsM rc) Ms).
Proof.
  induction Ms as [|M Ms IH]; [reflexivity|]. cbn [map filter]. unfold fitsM at 1.
  destruct (fits rc (to_buffer M)); cbn [map]; now rewrite IH.
Qed.

(* THE PROPERTY, second clause, for Messages: every packet once and in order => exactly the completely written
   Messages whose flattened size fits the receiver's limit, as their round-trip images, once each, in order. *)
Theorem tunnel_message_complete :
  forall rc c a id0 (mops : list Mop) st pkts t0,
    scfg_ok c -> compat c rc -> id0 < two32 ->
    N.of_nat (length (sent_msgs mops)) <= two32 ->
    Forall MsgModel.wf (sent_msgs mops) ->
    srun c (s_init id0) (map lower mops) = (st, pkts) ->
    s_pkt st = [] -> s_q st = [] ->
    tbl_wf t0 -> tbl_find a t0 = None ->
    deliver_msgs (snd (recv_all rc t0 (map (pair a) pkts)))
    = map (pair a) (map MsgModel.rt (filter (fitsM rc) (sent_msgs mops))).
Proof.
  intros rc c a id0 mops st pkts t0 Hc Hcompat Hid Hlen Hwf Hrun Hpk Hq Hwft Hnone.
  assert (Hsz : Forall (fun m => lenN m < two32) (added (map lower mops))).
  { rewrite added_lower. apply Forall_forall. intros b Hb. apply in_map_iff in Hb as (M & <- & HM).
    rewrite Forall_forall in Hwf. apply lenN_to_buffer. now apply Hwf. }
  assert (Hlen' : N.of_nat (length (added (map lower mops))) <= two32) by (now rewrite added_lower, map_length).
  destruct (tunnel_complete rc c a id0 (map lower mops) st pkts t0 Hc Hcompat Hid (no_setid_lower _) Hlen' Hsz Hrun Hpk Hwft Hnone)
    as (done & Hd & Hout).
  rewrite Hq, app_nil_r in Hd. subst done. rewrite Hout, added_lower, filter_map_to_buffer.
  apply deliver_msgs_map. apply Forall_forall. intros M HM. apply filter_In in HM as [HM _].
  rewrite Forall_forall in Hwf. now apply Hwf.
Qed.

(* ------------------------------------------------------------------ non-vacuity *)

(* C01's example Message (nested sub-Messages, an array, a pointer field that is never written) and its
   sub-Message, through MTU 40: the premises hold, and the round trip really changes the Message (rt M <> M) *)
Example ex_sub_wf : MsgModel.wf MsgExamples.ex_sub.
Proof.
  split; [|vm_compute; reflexivity].
  cbn [MsgExamples.ex_sub MsgModel.wf_msg MsgModel.wf_fields MsgModel.wf_repr MsgModel.wf_items MsgDefs.fnames].
  repeat split; try (vm_compute; reflexivity); try exact I;
    try (repeat constructor; cbn [In]; intuition discriminate).
Qed.

Definition exm_cfg : scfg := mkSCfg c_DEFAULT_TUNNEL_IOGATEWAY_MAGIC 0 (clamp_mtu 40).
Definition exm_rc : rcfg := mkRCfg c_DEFAULT_TUNNEL_IOGATEWAY_MAGIC 0 (clamp_mtu 40) 4294967295 false.
Definition exm_ops : list Mop := [MAddMsg MsgExamples.ex_msg; MAddMsg MsgExamples.ex_sub; MOutput 4294967295 1000].
Definition exm_run : msg_run := mkMsgRun exm_cfg 4294967294 exm_ops.

Example exm_ok : msg_run_ok exm_run /\ compat exm_cfg exm_rc.
Proof.
  split.
  - unfold msg_run_ok. cbn [mr_scfg mr_id0 mr_mops exm_run exm_ops sent_msgs].
    split; [unfold scfg_ok; split; [vm_compute; reflexivity|split; vm_compute; reflexivity]|].
    split; [vm_compute; reflexivity|]. split; [vm_compute; discriminate|].
    constructor; [exact MsgExamples.ex_wf|constructor; [exact ex_sub_wf|constructor]].
  - unfold compat. split; [vm_compute; reflexivity|split; [vm_compute; reflexivity|vm_compute; discriminate]].
Qed.

Example exm_nontrivial :
  let pkts := sr_packets (lower_run exm_run) in
  (10 < length pkts)%nat
  /\ deliver_msgs (snd (recv_all exm_rc [] (map (pair 5) pkts)))
     = [(5, MsgModel.rt MsgExamples.ex_msg); (5, MsgModel.rt MsgExamples.ex_sub)]
  /\ MsgModel.rt MsgExamples.ex_msg <> MsgExamples.ex_msg.
Proof. cbv zeta. split; [vm_compute; lia|]. split; [vm_compute; reflexivity|exact MsgExamples.ex_rt_differs]. Qed.
