(* C03 -- model of iogateway/PlainTextMessageIOGateway.cpp (stream mode).  No proofs here.

   A Message is the list of its PR_NAME_TEXT_LINE strings (byte lists).
   Sender  DoOutputImplementationAux (72-120): recursion depth capped at 1024 (translated
           constant c_text_max_recurse); state _currentSendingMessage, _currentSendLineIndex,
           _currentSendText (= line ++ eol), _currentSendOffset (both int32, -1 = none).
   Receiver DoInputImplementation stream branch (213-247): ONE Read of at most
           tempBufSize-1 bytes per call, line splitter with _prevCharWasCarriageReturn and
           _incomingText carried between calls; the C-string handling is kept: a line handed to
           AddIncomingText is &buf[beginAt] up to the first NUL. *)
From Coq Require Import List NArith ZArith Bool.
From Muscle Require Import Gen.Consts Gw.GwBase.
Import ListNotations.
Local Open Scope N_scope.

Definition CR : N := 13.
Definition LF : N := 10.

(* ---------------------------------------------------------------------- sender *)
Record tsend := mkTS {
  ts_q : list (list bytes);        (* outgoing queue *)
  ts_cur : option (list bytes);    (* _currentSendingMessage *)
  ts_idx : Z;                      (* _currentSendLineIndex *)
  ts_text : bytes;                 (* _currentSendText *)
  ts_off : Z }.                    (* _currentSendOffset *)

Definition ts_init : tsend := mkTS [] None (-1) [] (-1).
Definition ts_queue (st : tsend) (m : list bytes) : tsend :=
  mkTS (ts_q st ++ [m]) (ts_cur st) (ts_idx st) (ts_text st) (ts_off st).

(* lines 105-117: send as much as we can of the current text line; [None] = stop here *)
Definition t_send (st : tsend) (maxb : N) (scr : list N) : tsend * bytes * option (N * list N) :=
  if (ts_off st <? Z.of_N (blen (ts_text st)))%Z then
    let off := Z.to_N (ts_off st) in
    let '(x, scr') := io_write (take (N.min (blen (ts_text st) - off) maxb) (drop off (ts_text st))) scr in
    if 0 <? blen x then
      (mkTS (ts_q st) (ts_cur st) (ts_idx st) (ts_text st) (ts_off st + Z.of_N (blen x)), x, Some (maxb - blen x, scr'))
    else (st, [], None)
  else (st, [], None).

Fixpoint t_out_aux (fuel : nat) (eol : bytes) (st : tsend) (maxb : N) (scr : list N) (acc : bytes)
  {struct fuel} : tsend * bytes :=
  match fuel with
  | O => (st, acc)                                      (* recurseDepth >= 1024 *)
  | S fuel' =>
    (* 78-85 *)
    let st1 := match ts_cur st with
               | Some _ => st
               | None => match ts_q st with
                         | [] => mkTS [] None (-1) (ts_text st) (-1)
                         | m :: q => mkTS q (Some m) (-1) (ts_text st) (-1)
                         end
               end in
    match ts_cur st1 with
    | None => (st1, acc)
    | Some lines =>
      if ((ts_off st1 <? 0) || (Z.of_N (blen (ts_text st1)) <=? ts_off st1))%Z then
        (* 91-101: next line of the Message *)
        let idx := (ts_idx st1 + 1)%Z in
        match nth_error lines (Z.to_nat idx) with
        | Some l =>
            let st2 := mkTS (ts_q st1) (ts_cur st1) idx (l ++ eol) 0 in
            match t_send st2 maxb scr with
            | (st3, x, Some (maxb', scr')) => t_out_aux fuel' eol st3 maxb' scr' (acc ++ x)
            | (st3, x, None) => (st3, acc ++ x)
            end
        | None => t_out_aux fuel' eol (mkTS (ts_q st1) None idx (ts_text st1) (ts_off st1)) maxb scr acc
        end
      else
        match t_send st1 maxb scr with
        | (st3, x, Some (maxb', scr')) => t_out_aux fuel' eol st3 maxb' scr' (acc ++ x)
        | (st3, x, None) => (st3, acc ++ x)
        end
    end
  end.

Definition t_do_output (eol : bytes) (st : tsend) (maxb : N) (scr : list N) : tsend * bytes :=
  t_out_aux (N.to_nat c_text_max_recurse) eol st maxb scr [].

Definition ts_has_bytes (st : tsend) : bool :=
  match ts_cur st, ts_q st with None, [] => false | _, _ => true end.

(* ---------------------------------------------------------------------- receiver *)
Record trecv := mkTR {
  tr_text : bytes;       (* _incomingText *)
  tr_cr : bool }.        (* _prevCharWasCarriageReturn *)

Definition tr_init : trecv := mkTR [] false.

(* a C string starting at a buffer position: bytes up to the first NUL *)
Fixpoint cstr (b : bytes) : bytes :=
  match b with
  | [] => []
  | c :: t => if c =? 0 then [] else c :: cstr t
  end.

(* the for-loop 226-236 over the bytes of one read; [cur] = buf[beginAt .. i), [inc] = _incomingText *)
Fixpoint t_scan (chunk cur inc : bytes) (pcr : bool) (lines : list bytes)
  : bytes * bool * list bytes * bytes :=
  match chunk with
  | [] => (inc, pcr, lines, cur)
  | c :: t =>
      if (c =? CR) || (c =? LF) then
        if (c =? CR) || negb pcr
        then t_scan t [] [] (c =? CR) (lines ++ [inc ++ cstr cur])     (* AddIncomingText *)
        else t_scan t [] inc (c =? CR) lines
      else t_scan t (cur ++ [c]) inc false lines
  end.

Definition t_do_input (st : trecv) (maxb : N) (scr : list N) (pipe : bytes)
  : trecv * list (list bytes) * bytes :=
  let '(x, pipe', _) := io_read (N.min maxb (c_text_buf_size - 1)) scr pipe in
  if blen x =? 0 then (st, [], pipe') else
  let '(inc, pcr, lines, cur) := t_scan x [] (tr_text st) (tr_cr st) [] in
  let inc' := match cur with [] => inc | _ => inc ++ cstr cur end in     (* 237-241 *)
  (mkTR inc' pcr, match lines with [] => [] | _ => [lines] end, pipe').

(* ---------------------------------------------------------------------- byte-at-a-time reference
   splitter (L0): state = (text of the line in progress, previous byte was CR) *)
Definition t_byte (st : bytes * bool) (c : byte) : (bytes * bool) * list bytes :=
  let '(line, pcr) := st in
  if (c =? CR) || (c =? LF) then
    if (c =? CR) || negb pcr then (([], c =? CR), [line]) else ((line, false), [])
  else ((line ++ [c], false), []).

Fixpoint t_feed (st : bytes * bool) (bs : bytes) : (bytes * bool) * list bytes :=
  match bs with
  | [] => (st, [])
  | b :: t => let '(st1, o1) := t_byte st b in
              let '(st2, o2) := t_feed st1 t in (st2, o1 ++ o2)
  end.

(* what the sender puts on the wire for a list of Messages *)
Definition t_wire_msg (eol : bytes) (m : list bytes) : bytes := flat_map (fun l => l ++ eol) m.
