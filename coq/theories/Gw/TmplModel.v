(* C03 -- model of iogateway/TemplatingMessageIOGateway.cpp (DEFAULT outgoing encoding; with a
   zlib encoding the gateway additionally deflates the body, which is exercised by the harness
   oracle only).  No proofs in this file.

   The Message-level functions the gateway calls are external here (Section variables):
   GetNumNames()==0, what, TemplateHashCode64(), CreateMessageTemplate(), FlattenedSize() of a
   template, Flatten/Unflatten, TemplatedFlatten/TemplatedUnflatten.  What is modelled is the
   gateway: which of the wire forms a Message takes (what-code only: 4 bytes; full with
   CREATE_TEMPLATE_BIT in the length word; payload-only = template id + templated bytes with
   PAYLOAD_ENCODING_BIT in the encoding word; plain full Message when the cached template with
   the same hash does not describe the Message), GetBodySize masking the two flag bits, and the two
   LRU caches (_outgoingTemplates / _incomingTemplates: GetAndMoveToFront, PutAtFront,
   TrimLRUCache by byte budget, lines 250-270) that the two ends must keep in step.
   The send/receive loops are those of MessageIOGateway (FrameModel), instantiated with
   FlattenHeaderAndMessage / UnflattenHeaderAndMessage / GetBodySize of this class. *)
From Coq Require Import List NArith Bool.
From Muscle Require Import Gen.Consts Gw.GwBase Gw.FrameModel.
Import ListNotations.
Local Open Scope N_scope.

Definition flag_bit : N := 2147483648.        (* CREATE_TEMPLATE_BIT = PAYLOAD_ENCODING_BIT = 1<<31 *)
Definition two64 : N := 18446744073709551616.
Definition le64 (n : N) : bytes := le32 (n mod two32) ++ le32 (n / two32).
Definition rd64 (b : bytes) : N := rd32 b + two32 * rd32 (drop 4 b).

(* TemplatingMessageIOGateway::GetBodySize (20-31) *)
Definition tm_body_size (hdr : bytes) : option N :=
  let enc := rd32 (drop 4 hdr) mod flag_bit in
  if (c_MUSCLE_MESSAGE_ENCODING_DEFAULT <=? enc) && (enc <=? c_MUSCLE_MESSAGE_ENCODING_END_MARKER - 1)
  then Some (rd32 hdr mod flag_bit) else None.

Section Tmpl.
  Variables MSG TPL : Type.
  Variable m_trivial : MSG -> bool.            (* GetNumNames() == 0 *)
  Variable m_what : MSG -> N.
  Variable m_of_what : N -> MSG.               (* the Message that has only this what-code *)
  Variable m_tid : MSG -> N.                   (* msg.TemplateHashCode64() *)
  Variable m_tmpl : MSG -> TPL.                (* msg.CreateMessageTemplate() *)
  Variable t_tid : TPL -> N.                   (* templateMsg.TemplateHashCode64() *)
  Variable t_size : TPL -> N.                  (* templateMsg.FlattenedSize() *)
  Variable m_flat : MSG -> bytes.
  Variable m_unflat : bytes -> option MSG.
  Variable m_tflat : TPL -> MSG -> bytes.
  Variable m_tunflat : TPL -> bytes -> option MSG.
  (* DoesTemplateDescribeMessage(template, msg): same flattenable fields, types, item counts
     (added by the fix of the template-hash-collision finding; before it the gateway trusted
     hash equality, which is the behaviour of [fun _ _ => true]) *)
  Variable t_describes : TPL -> MSG -> bool.
  Variable max_cache : N.                      (* _maxLRUCacheSizeBytes *)

  (* an LRU cache: entries most-recently-used first, and the byte tally *)
  Definition cache := (list (N * TPL) * N)%type.
  Definition cache0 : cache := ([], 0).

  Fixpoint c_find (id : N) (l : list (N * TPL)) : option TPL :=
    match l with
    | [] => None
    | (k, t) :: r => if k =? id then Some t else c_find id r
    end.
  Fixpoint c_remove (id : N) (l : list (N * TPL)) : list (N * TPL) :=
    match l with
    | [] => []
    | (k, t) :: r => if k =? id then r else (k, t) :: c_remove id r
    end.

  (* TrimLRUCache: while more than one entry and over budget, drop the last entry *)
  Fixpoint c_trim (fuel : nat) (l : list (N * TPL)) (tally : N) : list (N * TPL) * N :=
    match fuel with
    | O => (l, tally)
    | S fuel' =>
        if (1 <? N.of_nat (length l)) && (max_cache <? tally) then
          let lastSize := match last l (0, m_tmpl (m_of_what 0)) with (_, t) => t_size t end in
          c_trim fuel' (removelast l) (if lastSize <=? tally then tally - lastSize else 0)
        else (l, tally)
    end.

  (* GetAndMoveToFront *)
  Definition c_touch (id : N) (c : cache) : cache :=
    match c_find id (fst c) with
    | Some t => ((id, t) :: c_remove id (fst c), snd c)
    | None => c
    end.
  (* PutAtFront of a new template, tally, trim (50-56 and 219-229) *)
  Definition c_add (id : N) (t : TPL) (c : cache) : cache :=
    let l0 := fst c in
    let tally0 := match c_find id l0 with Some old => snd c - t_size old | None => snd c end in
    let l1 := (id, t) :: c_remove id l0 in
    c_trim (length l1) l1 (tally0 + t_size t).

  Definition tm_header (bodylen : N) (create payload : bool) : bytes :=
    le32 (bodylen + (if create then flag_bit else 0))
    ++ le32 (c_MUSCLE_MESSAGE_ENCODING_DEFAULT + (if payload then flag_bit else 0)).

  (* FlattenHeaderAndMessage (33-113) *)
  Definition tm_flat (c : cache) (m : MSG) : cache * bytes :=
    if m_trivial m then (c, tm_header 4 false false ++ le32 (m_what m))
    else
      let id := m_tid m in
      match c_find id (fst c) with
      | Some t =>
          if t_describes t m then
            let body := le64 id ++ m_tflat t m in
            (c_touch id c, tm_header (blen body) false true ++ body)
          else
            (* same hash, different shape: plain format, caches left alone *)
            let body := m_flat m in
            (c, tm_header (blen body) false false ++ body)
      | None =>
          let body := m_flat m in
          (c_add id (m_tmpl m) c, tm_header (blen body) true false ++ body)
      end.

  (* UnflattenHeaderAndMessage (115-240) *)
  Definition tm_unflat (c : cache) (buf : bytes) : cache * option MSG :=
    let lengthWord := rd32 buf in
    let lhb := lengthWord mod flag_bit in
    if negb (u32 (f_hs + lhb) =? blen buf) then (c, None) else
    let encodingWord := rd32 (drop 4 buf) in
    if negb (encodingWord mod flag_bit =? c_MUSCLE_MESSAGE_ENCODING_DEFAULT) then (c, None) else
    let create := flag_bit <=? lengthWord in
    let body := drop f_hs buf in
    if flag_bit <=? encodingWord then
      if create then (c, None)
      else if 8 <=? blen body then
        let id := rd64 body in
        match c_find id (fst c) with
        | Some t => (c_touch id c, m_tunflat t (drop 8 body))
        | None => (c, None)
        end
      else (c, None)
    else
      match (if blen body =? 4 then Some (m_of_what (rd32 body)) else m_unflat body) with
      | None => (c, None)
      | Some m =>
          if create then let t := m_tmpl m in (c_add (t_tid t) t c, Some m) else (c, Some m)
      end.

  Definition tm_do_output := f_do_output MSG cache tm_flat.
  Definition tm_do_input (max_in : N) := f_do_input MSG cache tm_unflat tm_body_size max_in.
End Tmpl.
