(* C03 -- the zlib encodings of MessageIOGateway (MUSCLE_MESSAGE_ENCODING_ZLIB_1..9).
   No proofs in this file.

   zlib itself is external: [deflate]/[inflate] are Section variables over abstract stream states
   (deflate(Z_SYNC_FLUSH) on a z_stream that keeps its history from one Message to the next,
   unless the "independent" flag resets it first).  What is modelled is the code around it:

   FlattenHeaderAndMessage (MessageIOGateway.cpp 394-436): a buffer (header + flattened Message)
     shorter than 32 bytes is sent as it is with a DEFAULT header and the send codec is NOT
     touched; otherwise GetCodec (345-362) creates the ZLibCodec on first use (or when the level
     changed) and ZLibCodec::Deflate prefixes the deflated bytes with its own 8-byte header
     (magic 'zlib'/'zlic' = dependent/independent, raw length); the gateway header carries the
     size of all that and the encoding word ZLIB_1+level-1.
   UnflattenHeaderAndMessage (438-489): size word must match; a zlib encoding word selects /
     creates the receive codec by level, ZLibCodec::Inflate (GetInflatedSizeAux 33-47, Inflate
     147-178) checks the magic, takes the raw length as int32, returns an empty buffer for length
     0 without touching the stream, resets the stream for 'zlic', inflates and compares the
     length; any other (i.e. the DEFAULT) encoding word leaves the receive codec untouched. *)
From Coq Require Import List NArith Bool.
From Muscle Require Import Gen.Consts Gw.GwBase Gw.FrameModel.
Import ListNotations.
Local Open Scope N_scope.

Definition z_enc1 : N := c_MUSCLE_MESSAGE_ENCODING_ZLIB_1.
Definition z_enc9 : N := c_MUSCLE_MESSAGE_ENCODING_ZLIB_9.
Definition z_hdr : N := 8.                       (* ZLIB_CODEC_HEADER_SIZE *)

Section Zlib.
  Variables DS IS : Type.                                  (* deflate / inflate stream states *)
  Variable ds_init : N -> DS.                              (* deflateInit(level) *)
  Variable is_init : IS.                                   (* inflateInit *)
  Variable deflate : DS -> bool -> bytes -> DS * bytes.    (* [deflateReset if independent;] deflate(Z_SYNC_FLUSH) *)
  Variable inflate : IS -> bool -> bytes -> N -> IS * option bytes.
     (* [inflateReset if independent;] inflate into a buffer of the given raw length; None = zlib
        error or produced length <> raw length *)
  Variable oenc : N.        (* _outgoingEncoding *)
  Variable indep : bool.    (* AreOutgoingMessagesIndependent() *)

  Definition zcs := option (N * DS).    (* _sendCodec: NULL, or (compression level, deflate stream) *)
  Definition zcr := option (N * IS).    (* _recvCodec *)

  Definition z_in_range (e : N) : bool := (z_enc1 <=? e) && (e <=? z_enc9).

  Definition z_flat (c : zcs) (body : bytes) : zcs * bytes :=
    if (c_gw_zlib_min_size <=? f_hs + blen body) && z_in_range oenc then
      let level := oenc - z_enc1 + 1 in
      let ds := match c with
                | Some (l, d) => if l =? level then d else ds_init level
                | None => ds_init level
                end in
      let '(ds', defl) := deflate ds indep body in
      let payload := le32 (if indep then c_zlib_hdr_independent else c_zlib_hdr_dependent)
                     ++ le32 (blen body) ++ defl in
      (Some (level, ds'), le32 (blen payload) ++ le32 (z_enc1 + level - 1) ++ payload)
    else (c, le32 (blen body) ++ le32 c_MUSCLE_MESSAGE_ENCODING_DEFAULT ++ body).

  Definition z_unflat (c : zcr) (buf : bytes) : zcr * option bytes :=
    if negb (u32 (f_hs + rd32 buf) =? blen buf) then (c, None) else
    let enc := rd32 (drop 4 buf) in
    if z_in_range enc then
      let level := enc - z_enc1 + 1 in
      let is := match c with
                | Some (l, i) => if l =? level then i else is_init
                | None => is_init
                end in
      let payload := drop f_hs buf in
      let magic := rd32 payload in
      if (z_hdr <=? blen payload) && ((magic =? c_zlib_hdr_independent) || (magic =? c_zlib_hdr_dependent)) then
        let rawlen := rd32 (drop 4 payload) in
        if 2147483648 <=? rawlen then (Some (level, is), None)          (* negative as int32 *)
        else if rawlen =? 0 then (Some (level, is), Some [])
        else
          let '(is', r) := inflate is (magic =? c_zlib_hdr_independent) (drop z_hdr payload) rawlen in
          (Some (level, is'), r)
      else (Some (level, is), None)
    else if enc =? c_MUSCLE_MESSAGE_ENCODING_DEFAULT then (c, Some (drop f_hs buf))
    else (c, None).

  Definition z_do_output := f_do_output bytes zcs z_flat.
  Definition z_do_input (max_in : N) := f_do_input bytes zcr z_unflat d_body_size max_in.
End Zlib.
