(* C03 -- proofs about the binary gateway model (MessageIOGateway): the send loop, the receive
   loop as a refinement of the byte-at-a-time machine, the split lemma, decoding of a framed
   stream, and the end-to-end theorems, for any codec satisfying the premise [codec_sync]
   (default encoding: discharged at the end of this file; zlib: ZlibProofs.v). *)
From Coq Require Import List NArith ZArith Bool Lia ZifyBool.
From Muscle Require Import Gen.Consts Gw.GwBase Gw.GwLemmas Gw.FrameModel Gw.TransportProofs.
Import ListNotations.
Local Open Scope N_scope.

Lemma f_hs_is_8 : f_hs = 8.
Proof. reflexivity. Qed.
Lemma f_scratch_ge_hs : f_hs <= f_scratch.
Proof. vm_compute. discriminate. Qed.

Section FrameProofs.
  Variable Msg : Type.
  Variables CS CR : Type.
  Variable flat : CS -> Msg -> CS * bytes.
  Variable unflat : CR -> bytes -> CR * option Msg.
  Variable body_size : bytes -> option N.
  Variable max_in : N.
  Variable cs0 : CS.
  Variable cr0 : CR.

  Notation fsend := (fsend Msg CS).
  Notation frecv := (frecv CR).
  Notation f_fill := (f_fill Msg CS flat).
  Notation f_out_loop := (f_out_loop Msg CS flat).
  Notation f_do_output := (f_do_output Msg CS flat).
  Notation f_turn := (f_turn Msg CR unflat body_size max_in).
  Notation f_in_loop := (f_in_loop Msg CR unflat body_size max_in).
  Notation f_do_input := (f_do_input Msg CR unflat body_size max_in).
  Notation f_byte := (f_byte Msg CR unflat body_size max_in).
  Notation f_feed := (f_feed Msg CR unflat body_size max_in).
  Notation f_header := (f_header body_size max_in).

  (* ==================================================================== sender *)
  Fixpoint cs_after (c : CS) (ms : list Msg) : CS :=
    match ms with [] => c | m :: t => cs_after (fst (flat c m)) t end.
  Fixpoint wire_from (c : CS) (ms : list Msg) : bytes :=
    match ms with [] => [] | m :: t => snd (flat c m) ++ wire_from (fst (flat c m)) t end.

  Lemma cs_after_app c a b : cs_after c (a ++ b) = cs_after (cs_after c a) b.
  Proof. revert c. induction a as [|m a IH]; intros c; cbn; auto. Qed.

  Lemma wire_from_app c a b : wire_from c (a ++ b) = wire_from c a ++ wire_from (cs_after c a) b.
  Proof. revert c. induction a as [|m a IH]; intros c; cbn; auto. now rewrite IH, app_assoc. Qed.

  Hypothesis flat_len : forall c m, f_hs <= blen (snd (flat c m)).

  Definition fs_rem (st : fsend) : bytes :=
    match fs_buf st with Some b => drop (fs_off st) b | None => [] end ++ wire_from (fs_cs st) (fs_q st).
  Definition fs_wf (st : fsend) : Prop :=
    match fs_buf st with Some b => fs_off st < blen b | None => fs_off st = 0 end.
  Definition fs_SI (st : fsend) (ms : list Msg) : Prop :=
    fs_wf st /\ exists done, ms = done ++ fs_q st /\ fs_cs st = cs_after cs0 done.

  Lemma f_fill_some st ms st1 b :
    fs_SI st ms -> f_fill st = Some (st1, b) ->
    fs_SI st1 ms /\ fs_buf st1 = Some b /\ fs_rem st1 = fs_rem st.
  Proof.
    intros [Hwf (dn & Hms & Hcs)] H. unfold FrameModel.f_fill in H.
    destruct (fs_buf st) as [b0|] eqn:Eb.
    - inversion H; subst. repeat split; auto. exists dn; auto.
    - destruct (fs_q st) as [|m q] eqn:Eq; [discriminate|].
      destruct (flat (fs_cs st) m) as [c' f] eqn:Ef. inversion H; subst; clear H.
      split; [|split; auto].
      + split.
        * unfold fs_wf. cbn [fs_buf fs_off]. pose proof (flat_len (fs_cs st) m) as Hl. rewrite Ef in Hl.
          cbn [snd] in Hl. rewrite f_hs_is_8 in Hl. lia.
        * exists (dn ++ [m]). cbn. split; [now rewrite <- app_assoc|].
          rewrite cs_after_app, <- Hcs. cbn. now rewrite Ef.
      + unfold fs_rem. cbn [fs_buf fs_off fs_q fs_cs]. rewrite Eb, Eq. cbn [wire_from app].
        rewrite Ef. cbn [fst snd]. now rewrite drop_0.
  Qed.

  Lemma f_fill_none st : f_fill st = None -> fs_rem st = [].
  Proof.
    unfold FrameModel.f_fill, fs_rem. destruct (fs_buf st); [discriminate|].
    destruct (fs_q st) as [|m q]; [reflexivity|]. destruct (flat (fs_cs st) m). discriminate.
  Qed.

  Lemma f_send_more_spec st b maxb scr st2 x maxb' short :
    fs_buf st = Some b -> fs_off st < blen b ->
    f_send_more Msg CS st b maxb scr = (st2, x, maxb', short) ->
    st2 = mkFS (fs_q st) (fs_buf st) (fs_off st + blen x) (fs_cs st) /\
    drop (fs_off st) b = x ++ drop (fs_off st + blen x) b /\
    blen x = N.min (N.min maxb (blen b - fs_off st)) (io_k scr) /\
    maxb' = maxb - blen x /\
    short = (blen x <? N.min maxb (blen b - fs_off st)).
  Proof.
    intros Hb Hoff H. unfold f_send_more in H.
    destruct (io_write (take (N.min maxb (blen b - fs_off st)) (drop (fs_off st) b)) scr) as [y s1] eqn:Ew.
    inversion H; subst; clear H.
    apply io_write_take in Ew. destruct Ew as (Hd & Hbx & _). rewrite blen_drop in Hbx.
    split; auto. split; [rewrite Hd at 1; f_equal; now rewrite drop_drop|].
    split; [lia|]. split; auto.
  Qed.

  Lemma f_out_spec ms scr : forall st maxb acc st' acc',
    fs_SI st ms -> f_out_loop scr st maxb acc = (st', acc') ->
    fs_SI st' ms /\ exists x, acc' = acc ++ x /\ fs_rem st = x ++ fs_rem st'.
  Proof.
    assert (Hstop : forall st acc, fs_SI st ms -> fs_SI st ms /\ exists x, acc = acc ++ x /\ fs_rem st = x ++ fs_rem st).
    { intros. split; auto. exists []. now rewrite app_nil_r. }
    assert (Hturn : forall scr st maxb acc st' acc',
               (forall st3 maxb3 acc3, fs_SI st3 ms ->
                   match scr with [] => (st3, acc3) | _ :: scr' => f_out_loop scr' st3 maxb3 acc3 end = (st', acc') ->
                   fs_SI st' ms /\ exists x, acc' = acc3 ++ x /\ fs_rem st3 = x ++ fs_rem st') ->
               fs_SI st ms -> f_out_loop scr st maxb acc = (st', acc') ->
               fs_SI st' ms /\ exists x, acc' = acc ++ x /\ fs_rem st = x ++ fs_rem st').
    { clear scr. intros scr st maxb acc st' acc' Hrec HSI H.
      assert (Hunf : f_out_loop scr st maxb acc =
                if maxb =? 0 then (st, acc) else
                match f_fill st with
                | None => (st, acc)
                | Some (st1, b) =>
                    let '(st2, x, maxb', short) := f_send_more Msg CS st1 b maxb scr in
                    if short then (st2, acc ++ x) else
                    let st3 := if fs_off st2 =? blen b then mkFS (fs_q st2) None 0 (fs_cs st2) else st2 in
                    match scr with [] => (st3, acc ++ x) | _ :: scr' => f_out_loop scr' st3 maxb' (acc ++ x) end
                end) by (destruct scr; reflexivity).
      rewrite Hunf in H. clear Hunf.
      destruct (maxb =? 0); [inversion H; subst; apply Hstop; auto|].
      destruct (f_fill st) as [[st1 b]|] eqn:Efill; [|inversion H; subst; apply Hstop; auto].
      destruct (f_fill_some _ _ _ _ HSI Efill) as (HSI1 & Hb1 & Hrem1). rewrite <- Hrem1.
      assert (Hoff1 : fs_off st1 < blen b) by (destruct HSI1 as [Hw _]; unfold fs_wf in Hw; now rewrite Hb1 in Hw).
      destruct (f_send_more Msg CS st1 b maxb scr) as [[[st2 x] maxb'] short] eqn:Esm.
      destruct (f_send_more_spec _ _ _ _ _ _ _ _ Hb1 Hoff1 Esm) as (-> & Hd & Hbx & -> & ->).
      assert (Hrem2 : fs_rem st1 = x ++ fs_rem (mkFS (fs_q st1) (fs_buf st1) (fs_off st1 + blen x) (fs_cs st1))).
      { unfold fs_rem. cbn. rewrite Hb1. rewrite Hd at 1. now rewrite app_assoc. }
      assert (HSI2 : fs_off st1 + blen x < blen b -> fs_SI (mkFS (fs_q st1) (fs_buf st1) (fs_off st1 + blen x) (fs_cs st1)) ms).
      { intros Hlt. destruct HSI1 as [_ Hd1]. split; [unfold fs_wf; cbn; now rewrite Hb1|exact Hd1]. }
      destruct (blen x <? N.min maxb (blen b - fs_off st1)) eqn:Eshort.
      - inversion H; subst; clear H. split; [apply HSI2; lia|]. exists x. auto.
      - cbn [fs_off fs_q fs_cs] in H.
        destruct (fs_off st1 + blen x =? blen b) eqn:Efull.
        + apply Hrec in H.
          * destruct H as (HSI' & y & Hacc & Hrem). split; auto. exists (x ++ y).
            split; [now rewrite Hacc, app_assoc|]. rewrite Hrem2, <- app_assoc. f_equal.
            rewrite <- Hrem. unfold fs_rem. cbn. rewrite Hb1. rewrite drop_all by lia. reflexivity.
          * destruct HSI1 as [_ Hd1]. split; [reflexivity|exact Hd1].
        + apply Hrec in H.
          * destruct H as (HSI' & y & Hacc & Hrem). split; auto. exists (x ++ y).
            split; [now rewrite Hacc, app_assoc|]. now rewrite Hrem2, <- app_assoc, <- Hrem.
          * apply HSI2. lia. }
    induction scr as [|k scr IH]; intros st maxb acc st' acc' HSI H.
    - eapply Hturn; eauto. intros st3 maxb3 acc3 H3 E. cbn in E. inversion E; subst. apply Hstop; auto.
    - eapply Hturn; eauto. intros st3 maxb3 acc3 H3 E. cbn in E. eapply IH; eauto.
  Qed.

  Lemma f_do_output_spec ms st maxb scr st' x :
    fs_SI st ms -> f_do_output st maxb scr = (st', x) -> fs_SI st' ms /\ fs_rem st = x ++ fs_rem st'.
  Proof.
    unfold FrameModel.f_do_output. intros HSI H.
    destruct (f_out_spec ms _ _ _ _ _ _ HSI H) as (HSI' & y & Hy & Hrem). cbn in Hy. subst y. auto.
  Qed.

  Lemma f_do_output_progress ms st maxb scr st' x :
    fs_SI st ms -> fs_rem st <> [] -> 1 <= maxb -> 1 <= io_k scr ->
    f_do_output st maxb scr = (st', x) -> x <> [].
  Proof.
    unfold FrameModel.f_do_output. intros HSI Hrem Hm Hk H.
    assert (Hunf : f_out_loop scr st maxb [] =
              if maxb =? 0 then (st, []) else
              match f_fill st with
              | None => (st, [])
              | Some (st1, b) =>
                  let '(st2, x, maxb', short) := f_send_more Msg CS st1 b maxb scr in
                  if short then (st2, [] ++ x) else
                  let st3 := if fs_off st2 =? blen b then mkFS (fs_q st2) None 0 (fs_cs st2) else st2 in
                  match scr with [] => (st3, [] ++ x) | _ :: scr' => f_out_loop scr' st3 maxb' ([] ++ x) end
              end) by (destruct scr; reflexivity).
    rewrite Hunf in H. clear Hunf.
    assert (E0 : (maxb =? 0) = false) by lia. rewrite E0 in H.
    destruct (f_fill st) as [[st1 b]|] eqn:Efill; [|apply f_fill_none in Efill; contradiction].
    destruct (f_fill_some _ _ _ _ HSI Efill) as (HSI1 & Hb1 & Hrem1).
    assert (Hoff1 : fs_off st1 < blen b) by (destruct HSI1 as [Hw _]; unfold fs_wf in Hw; now rewrite Hb1 in Hw).
    destruct (f_send_more Msg CS st1 b maxb scr) as [[[st2 y] maxb'] short] eqn:Esm.
    destruct (f_send_more_spec _ _ _ _ _ _ _ _ Hb1 Hoff1 Esm) as (-> & Hd & Hbx & -> & ->).
    assert (Hy : y <> []) by (intros ->; cbn in Hbx; lia).
    destruct (blen y <? N.min maxb (blen b - fs_off st1)).
    - inversion H; subst. exact Hy.
    - cbn [app] in H. destruct scr as [|k scr'].
      + inversion H; subst. exact Hy.
      + set (st3 := if _ =? _ then _ else _) in H.
        assert (HSI3 : fs_SI st3 ms).
        { subst st3. cbn [fs_off fs_q fs_cs]. destruct HSI1 as [_ Hd1].
          destruct (fs_off st1 + blen y =? blen b) eqn:Efull; split; auto.
          - reflexivity.
          - unfold fs_wf. cbn. rewrite Hb1. lia. }
        destruct (f_out_spec ms _ _ _ _ _ _ HSI3 H) as (_ & z & -> & _).
        destruct y; [contradiction|discriminate].
  Qed.

  (* ==================================================================== receiver *)
  (* the C++ allocates the next receive buffer before it knows whether a byte will arrive, so
     "no buffer" and "scratch buffer with nothing in it" are the same protocol state *)
  Definition fr_norm (st : frecv) : frecv :=
    match fr_buf st with
    | Some (_, []) => mkFR None (fr_err st) (fr_cr st)
    | _ => st
    end.

  Definition fr_wf (st : frecv) : Prop :=
    fr_err st = false ->
    match fr_buf st with
    | None => True
    | Some (cap, got) => (blen got < f_hs -> cap = f_scratch) /\ (f_hs <= blen got -> blen got < cap)
    end.

  Definition mkR (cap : N) (got : bytes) (cr : CR) : frecv := mkFR (Some (cap, got)) false cr.

  Lemma fr_norm_nonempty cap got e cr : got <> [] -> fr_norm (mkFR (Some (cap, got)) e cr) = mkFR (Some (cap, got)) e cr.
  Proof. destruct got; [contradiction|reflexivity]. Qed.

  Lemma fr_norm_none e cr : fr_norm (mkFR None e cr) = mkFR None e cr.
  Proof. reflexivity. Qed.

  Lemma fr_norm_idem st : fr_norm (fr_norm st) = fr_norm st.
  Proof. unfold fr_norm. destruct st as [[[cap [|b got]]|] e cr]; reflexivity. Qed.

  Lemma f_byte_norm st b : fr_wf st -> fr_err st = false -> f_byte (fr_norm st) b = f_byte st b.
  Proof.
    intros Hwf He. destruct st as [[[cap [|b0 got]]|] e cr]; try reflexivity.
    cbn in He. subst e. specialize (Hwf eq_refl). cbn in Hwf. destruct Hwf as [Hc _].
    rewrite Hc by lia. reflexivity.
  Qed.

  Lemma f_feed_err st x : fr_err st = true -> f_feed st x = (st, []).
  Proof.
    intros He. induction x as [|b t IH]; cbn [FrameModel.f_feed]; auto.
    unfold FrameModel.f_byte. rewrite He, IH. reflexivity.
  Qed.

  (* ---- the split lemma *)
  Lemma f_feed_app a : forall st b,
    f_feed st (a ++ b) =
    let '(st1, o1) := f_feed st a in let '(st2, o2) := f_feed st1 b in (st2, o1 ++ o2).
  Proof.
    induction a as [|x a IH]; intros st b; cbn [app FrameModel.f_feed].
    - destruct (f_feed st b). reflexivity.
    - destruct (f_byte st x) as [st1 o1]. rewrite IH.
      destruct (f_feed st1 a) as [st2 o2]. destruct (f_feed st2 b) as [st3 o3].
      now rewrite app_assoc.
  Qed.

  (* ---- absorbing a chunk that does not reach a boundary *)
  Lemma f_byte_partial cap got cr b :
    (blen got + 1 < f_hs \/ (f_hs <= blen got /\ blen got + 1 < cap)) ->
    f_byte (mkR cap got cr) b = (mkR cap (got ++ [b]) cr, []).
  Proof.
    intros H. unfold FrameModel.f_byte, mkR. cbn [fr_err fr_buf fr_cr].
    rewrite blen_app. change (blen [b]) with 1.
    destruct H as [H|[H1 H2]].
    - assert (E1 : (blen got <? f_hs) = true) by lia. assert (E2 : (f_hs <=? blen got + 1) = false) by lia.
      now rewrite E1, E2.
    - assert (E1 : (blen got <? f_hs) = false) by lia. assert (E2 : (blen got + 1 =? cap) = false) by lia.
      now rewrite E1, E2.
  Qed.

  Lemma feed_partial x : forall got cap cr,
    (blen got < f_hs -> cap = f_scratch) ->
    (blen got + blen x < f_hs \/ (f_hs <= blen got /\ blen got + blen x < cap)) ->
    f_feed (fr_norm (mkR cap got cr)) x = (fr_norm (mkR cap (got ++ x) cr), []).
  Proof.
    induction x as [|b t IH]; intros got cap cr Hc H.
    - now rewrite app_nil_r.
    - cbn [FrameModel.f_feed]. rewrite blen_cons in H.
      rewrite f_byte_norm; [|intros _; unfold mkR; cbn [fr_buf]; split; [auto|lia]|reflexivity].
      rewrite f_byte_partial by lia.
      assert (Hn : fr_norm (mkR cap (got ++ [b]) cr) = mkR cap (got ++ [b]) cr).
      { apply fr_norm_nonempty. destruct got; discriminate. }
      unfold bytes, byte in *. rewrite <- Hn, IH.
      + now rewrite <- app_assoc.
      + rewrite blen_app. change (blen [b]) with 1. intros. apply Hc. lia.
      + rewrite blen_app. change (blen [b]) with 1. lia.
  Qed.

  (* ---- a chunk that ends exactly at the end of the header *)
  Lemma feed_hdr_exact x : forall got cap cr,
    cap = f_scratch -> x <> [] -> blen got + blen x = f_hs ->
    f_feed (fr_norm (mkR cap got cr)) x = f_hdr_done Msg CR unflat body_size max_in cr cap (got ++ x).
  Proof.
    induction x as [|b t IH]; intros got cap cr Hc Hx H; [contradiction|].
    cbn [FrameModel.f_feed]. rewrite blen_cons in H.
    rewrite f_byte_norm; [|intros _; unfold mkR; cbn [fr_buf]; split; [auto|lia]|reflexivity].
    destruct t as [|b' t'].
    - cbn [FrameModel.f_feed]. unfold FrameModel.f_byte, mkR. cbn [fr_err fr_buf fr_cr].
      rewrite blen_app. change (blen [b]) with 1. change (blen []) with 0 in H.
      assert (E1 : (blen got <? f_hs) = true) by lia. assert (E2 : (f_hs <=? blen got + 1) = true) by lia.
      rewrite E1, E2. unfold bytes, byte in *. destruct (f_hdr_done Msg CR unflat body_size max_in cr cap (got ++ [b])). now rewrite app_nil_r.
    - rewrite f_byte_partial by (rewrite blen_cons in H; lia).
      assert (Hn : fr_norm (mkR cap (got ++ [b]) cr) = mkR cap (got ++ [b]) cr).
      { apply fr_norm_nonempty. destruct got; discriminate. }
      unfold bytes, byte in *. rewrite <- Hn, IH; auto.
      + rewrite <- app_assoc. cbn [app]. destruct (f_hdr_done Msg CR unflat body_size max_in cr cap (got ++ b :: b' :: t')). reflexivity.
      + discriminate.
      + rewrite blen_app. change (blen [b]) with 1. lia.
  Qed.

  (* ---- a chunk that ends exactly at the end of the body *)
  Lemma feed_body_exact x : forall got cap cr,
    f_hs <= blen got -> x <> [] -> blen got + blen x = cap ->
    f_feed (mkR cap got cr) x = f_done Msg CR unflat cr (got ++ x).
  Proof.
    induction x as [|b t IH]; intros got cap cr Hg Hx H; [contradiction|].
    cbn [FrameModel.f_feed]. rewrite blen_cons in H.
    destruct t as [|b' t'].
    - cbn [FrameModel.f_feed]. unfold FrameModel.f_byte, mkR. cbn [fr_err fr_buf fr_cr].
      rewrite blen_app. change (blen [b]) with 1. change (blen []) with 0 in H.
      assert (E1 : (blen got <? f_hs) = false) by lia. assert (E2 : (blen got + 1 =? cap) = true) by lia.
      rewrite E1, E2. unfold bytes, byte in *. destruct (f_done Msg CR unflat cr (got ++ [b])). now rewrite app_nil_r.
    - rewrite f_byte_partial by (rewrite blen_cons in H; lia).
      rewrite IH; auto.
      + rewrite <- app_assoc. cbn [app]. destruct (f_done Msg CR unflat cr (got ++ b :: b' :: t')). reflexivity.
      + rewrite blen_app. change (blen [b]) with 1. lia.
      + discriminate.
      + rewrite blen_app. change (blen [b]) with 1. lia.
  Qed.

  (* ---- one Read *)
  Lemma f_recv_more_spec got target maxb scr pipe got' maxb' scr' pipe' short :
    f_recv_more got target maxb scr pipe = (got', maxb', scr', pipe', short) ->
    exists x, got' = got ++ x /\ pipe = x ++ pipe' /\
      blen x = N.min (N.min maxb (if blen got <? target then target - blen got else 0)) (N.min (io_k scr) (blen pipe)) /\
      maxb' = maxb - blen x /\ scr' = io_tl scr /\
      short = (blen x <? N.min maxb (if blen got <? target then target - blen got else 0)).
  Proof.
    unfold f_recv_more.
    destruct (io_read (N.min maxb (if blen got <? target then target - blen got else 0)) scr pipe) as [[x p1] s1] eqn:Er.
    apply io_read_spec in Er. destruct Er as (Hp & Hb & Hs).
    intros H. inversion H; subst; clear H. exists x. repeat split; auto.
  Qed.

  Lemma f_header_ge cap hdr cap1 : f_header cap hdr = Some cap1 -> f_hs <= cap1.
  Proof.
    unfold FrameModel.f_header.
    destruct (body_size hdr) as [body|]; [|discriminate].
    destruct ((body <=? max_in) && (body <=? c_MUSCLE_NO_LIMIT - f_hs)) eqn:Eb; [|discriminate].
    apply andb_true_iff in Eb. destruct Eb as [_ Eb].
    assert (Hnl : c_MUSCLE_NO_LIMIT = two32 - 1) by reflexivity.
    destruct (body <=? (if f_hs <? cap then cap - f_hs else 0)).
    - intros H. assert (cap1 = f_hs + body) by congruence. lia.
    - intros H. assert (cap1 = u32 (f_hs + body)) by congruence. subst cap1.
      unfold u32. rewrite N.mod_small; [lia|]. rewrite f_hs_is_8 in *. unfold two32 in *. lia.
  Qed.

  Definition turn_res (t : fturn Msg CR) : frecv * list Msg * bytes :=
    match t with FEnd _ _ st o p => (st, o, p) | FNext _ _ st _ _ p o => (st, o, p) end.
  Definition turn_scr (t : fturn Msg CR) (scr : list N) : Prop :=
    match t with FEnd _ _ _ _ _ => True | FNext _ _ _ _ scr' _ _ => (length scr' < length scr)%nat end.

  Lemma mkR_norm cap got cr : f_hs <= blen got -> fr_norm (mkR cap got cr) = mkR cap got cr.
  Proof. intros H. apply fr_norm_nonempty. intros ->. change (blen []) with 0 in H. rewrite f_hs_is_8 in H. lia. Qed.

  (* ---- body phase *)
  Lemma body_phase_spec cr cap1 got1 maxb1 scr1 pipe1 outs :
    f_hs <= blen got1 -> blen got1 <= cap1 ->
    let '(st', outs', pipe') := turn_res (f_body_phase Msg CR unflat cr cap1 got1 maxb1 scr1 pipe1 outs) in
    fr_wf st' /\ exists x o, pipe1 = x ++ pipe' /\ outs' = outs ++ o /\
      (if blen got1 =? cap1 then f_done Msg CR unflat cr got1 else f_feed (mkR cap1 got1 cr) x) = (fr_norm st', o) /\
      (blen got1 = cap1 -> x = []) /\
      (blen got1 < cap1 -> blen x = N.min (N.min maxb1 (cap1 - blen got1)) (N.min (io_k scr1) (blen pipe1))).
  Proof.
    intros Hg Hc. unfold f_body_phase.
    destruct (blen got1 <? cap1) eqn:Elt.
    - destruct (f_recv_more got1 cap1 maxb1 scr1 pipe1) as [[[[got2 maxb2] scr2] pipe2] short] eqn:Er.
      destruct (f_recv_more_spec _ _ _ _ _ _ _ _ _ _ Er) as (x & -> & Hp & Hb & -> & -> & ->).
      rewrite Elt in *.
      assert (Ene : (blen got1 =? cap1) = false) by lia. rewrite Ene.
      destruct (blen x <? N.min maxb1 (cap1 - blen got1)) eqn:Eshort.
      + cbn [turn_res]. split.
        * intros _. cbn [fr_buf]. rewrite blen_app. split; lia.
        * exists x, []. rewrite app_nil_r. repeat split; auto; try lia.
          rewrite <- (mkR_norm cap1 got1 cr Hg). apply feed_partial; [lia|]. right. lia.
      + rewrite blen_app.
        destruct (blen got1 + blen x =? cap1) eqn:Efull.
        * assert (Hx : x <> []) by (intros ->; cbn in Efull; lia).
          pose proof (feed_body_exact x got1 cap1 cr Hg Hx ltac:(lia)) as Hf.
          unfold f_done in *. destruct (unflat cr (got1 ++ x)) as [cr' [m|]]; cbn [turn_res].
          -- split; [intros _; exact I|]. exists x, [m]. repeat split; auto; lia.
          -- split; [intros E; discriminate|]. exists x, []. rewrite app_nil_r. repeat split; auto; lia.
        * cbn [turn_res]. split.
          -- intros _. cbn [fr_buf]. rewrite blen_app. split; lia.
          -- exists x, []. rewrite app_nil_r. repeat split; auto; try lia.
             rewrite <- (mkR_norm cap1 got1 cr Hg). apply feed_partial; [lia|]. right. lia.
    - assert (Eeq : (blen got1 =? cap1) = true) by lia. rewrite Eeq.
      unfold f_done. destruct (unflat cr got1) as [cr' [m|]]; cbn [turn_res].
      + split; [intros _; exact I|]. exists [], [m]. repeat split; auto; lia.
      + split; [intros E; discriminate|]. exists [], []. rewrite app_nil_r. repeat split; auto; lia.
  Qed.

  Lemma body_phase_scr cr cap1 got1 maxb1 scr1 pipe1 outs :
    blen got1 < cap1 -> 1 <= maxb1 -> turn_scr (f_body_phase Msg CR unflat cr cap1 got1 maxb1 scr1 pipe1 outs) scr1.
  Proof.
    intros Hlt Hm. unfold f_body_phase.
    assert (Elt : (blen got1 <? cap1) = true) by lia. rewrite Elt.
    destruct (f_recv_more got1 cap1 maxb1 scr1 pipe1) as [[[[got2 maxb2] scr2] pipe2] short] eqn:Er.
    destruct (f_recv_more_spec _ _ _ _ _ _ _ _ _ _ Er) as (x & -> & Hp & Hb & -> & -> & ->).
    rewrite Elt in *.
    destruct (blen x <? N.min maxb1 (cap1 - blen got1)) eqn:Eshort; [exact I|].
    assert (Hk : 1 <= io_k scr1) by lia.
    assert (Hs : (length (io_tl scr1) < length scr1)%nat) by (destruct scr1; cbn in *; lia).
    destruct (blen (got1 ++ x) =? cap1); [|exact Hs].
    destruct (unflat cr (got1 ++ x)) as [cr' [m|]]; [exact Hs|exact I].
  Qed.

  (* ---- one turn of the receive loop = feeding the bytes it read to the byte machine *)
  Lemma f_turn_spec st maxb scr pipe outs :
    fr_wf st ->
    let '(st', outs', pipe') := turn_res (f_turn st maxb scr pipe outs) in
    fr_wf st' /\ exists x o, pipe = x ++ pipe' /\ outs' = outs ++ o /\
      f_feed (fr_norm st) x = (fr_norm st', o) /\
      (fr_err st = false -> 1 <= maxb -> 1 <= io_k scr -> pipe <> [] -> x <> []).
  Proof.
    intros Hwf. unfold FrameModel.f_turn.
    destruct ((maxb =? 0) || fr_err st) eqn:Estop.
    { cbn [turn_res]. split; auto. exists [], []. rewrite app_nil_r. repeat split; auto.
      intros He Hm. rewrite He in Estop. lia. }
    apply orb_false_iff in Estop. destruct Estop as [Emax Eerr].
    specialize (Hwf Eerr).
    set (cr := fr_cr st).
    (* the buffer in use *)
    assert (Hbuf : exists cap got, match fr_buf st with Some x => x | None => (f_scratch, []) end = (cap, got) /\
                     fr_norm st = fr_norm (mkR cap got cr) /\
                     (blen got < f_hs -> cap = f_scratch) /\ (f_hs <= blen got -> blen got < cap)).
    { destruct st as [[[cap got]|] e cr1]; cbn [fr_buf fr_err fr_cr] in *; subst e.
      - exists cap, got. repeat split; tauto.
      - exists f_scratch, []. split; [reflexivity|]. split; [reflexivity|]. split; [auto|].
        change (blen []) with 0. rewrite f_hs_is_8. lia. }
    destruct Hbuf as (cap & got & -> & Hnorm & Hcap & Hgot). rewrite Hnorm. clear Hnorm Hwf.
    assert (Hpp : pipe <> [] -> 0 < blen pipe) by apply blen_pos.
    unfold FrameModel.f_header_phase.
    destruct (blen got <? f_hs) eqn:Ehdr.
    - (* header phase *)
      destruct (f_recv_more got f_hs maxb scr pipe) as [[[[got1 maxb1] scr1] pipe1] short] eqn:Er.
      destruct (f_recv_more_spec _ _ _ _ _ _ _ _ _ _ Er) as (x1 & -> & Hp & Hb & -> & -> & ->).
      rewrite Ehdr in *.
      assert (Hx1 : 1 <= maxb -> 1 <= io_k scr -> pipe <> [] -> x1 <> []).
      { intros H1 H2 H3 ->. specialize (Hpp H3). change (blen []) with 0 in Hb. lia. }
      destruct (blen x1 <? N.min maxb (f_hs - blen got)) eqn:Eshort.
      + (* short read *)
        cbn [turn_res]. split.
        * intros _. cbn [fr_buf]. rewrite blen_app. split; [intros; apply Hcap; lia|lia].
        * exists x1, []. rewrite app_nil_r. repeat split; auto.
          apply feed_partial; [lia|]. left. lia.
      + rewrite blen_app.
        destruct (f_hs <=? blen got + blen x1) eqn:Ecomplete.
        * (* header complete *)
          assert (Hxne : x1 <> []) by (intros ->; change (blen []) with 0 in *; lia).
          pose proof (feed_hdr_exact x1 got cap cr (Hcap ltac:(lia)) Hxne ltac:(lia)) as Hf.
          unfold f_hdr_done in Hf.
          destruct (f_header cap (got ++ x1)) as [cap1|] eqn:Eh.
          -- pose proof (f_header_ge _ _ _ Eh) as Hge.
             assert (Eg : (f_hs <=? blen (got ++ x1)) = true) by (rewrite blen_app; lia). rewrite Eg.
             pose proof (body_phase_spec cr cap1 (got ++ x1) (maxb - blen x1) (io_tl scr) pipe1 outs
                           ltac:(rewrite blen_app; lia) ltac:(rewrite blen_app; lia)) as Hbody.
             destruct (turn_res (f_body_phase Msg CR unflat cr cap1 (got ++ x1) (maxb - blen x1) (io_tl scr) pipe1 outs))
               as [[st' outs'] pipe'].
             destruct Hbody as (Hwf' & x2 & o & Hp2 & Ho & Hfeed & Hx2 & _).
             split; auto. exists (x1 ++ x2), o. repeat split; auto.
             ++ rewrite Hp, Hp2. now rewrite app_assoc.
             ++ rewrite f_feed_app, Hf.
                destruct (blen (got ++ x1) =? cap1) eqn:Eeq.
                ** rewrite (Hx2 ltac:(lia)). unfold f_done in *.
                   destruct (unflat cr (got ++ x1)) as [cr' [m|]]; cbn [FrameModel.f_feed];
                     rewrite app_nil_r; exact Hfeed.
                ** unfold mkR in Hfeed. rewrite Hfeed. reflexivity.
             ++ intros _ H1 H2 H3 E. apply app_eq_nil in E. destruct E as [E _]. exact (Hx1 H1 H2 H3 E).
          -- cbn [turn_res]. split; [intros E; discriminate|].
             exists x1, []. rewrite app_nil_r. repeat split; auto.
             rewrite Hf. f_equal. symmetry. apply fr_norm_nonempty. destruct got; [exact Hxne|discriminate].
        * (* maxBytes ran out inside the header *)
          assert (Eg : (f_hs <=? blen (got ++ x1)) = false) by (rewrite blen_app; lia). rewrite Eg.
          cbn [turn_res]. split.
          -- intros _. cbn [fr_buf]. rewrite blen_app. split; [intros; apply Hcap; lia|lia].
          -- exists x1, []. rewrite app_nil_r. repeat split; auto.
             apply feed_partial; [lia|]. left. lia.
    - (* body phase straight away *)
      assert (Eg : (f_hs <=? blen got) = true) by lia. rewrite Eg.
      pose proof (body_phase_spec cr cap got maxb scr pipe outs ltac:(lia) ltac:(lia)) as Hbody.
      destruct (turn_res (f_body_phase Msg CR unflat cr cap got maxb scr pipe outs)) as [[st' outs'] pipe'].
      destruct Hbody as (Hwf' & x2 & o & Hp2 & Ho & Hfeed & _ & Hbx).
      assert (Ene : (blen got =? cap) = false) by lia. rewrite Ene in Hfeed.
      split; auto. exists x2, o. repeat split; auto.
      + rewrite mkR_norm by lia. exact Hfeed.
      + intros _ H1 H2 H3 ->. specialize (Hpp H3). specialize (Hbx ltac:(lia)). change (blen []) with 0 in Hbx. lia.
  Qed.

  Lemma f_turn_scr st maxb scr pipe outs : fr_wf st -> turn_scr (f_turn st maxb scr pipe outs) scr.
  Proof.
    intros Hwf. unfold FrameModel.f_turn.
    destruct ((maxb =? 0) || fr_err st) eqn:Estop; [exact I|].
    apply orb_false_iff in Estop. destruct Estop as [Emax Eerr]. specialize (Hwf Eerr).
    assert (Hbuf : exists cap got, match fr_buf st with Some x => x | None => (f_scratch, []) end = (cap, got) /\
                     (f_hs <= blen got -> blen got < cap)).
    { destruct st as [[[cap got]|] e cr1]; cbn [fr_buf fr_err fr_cr] in *.
      - exists cap, got. split; tauto.
      - exists f_scratch, []. split; [reflexivity|]. change (blen []) with 0. rewrite f_hs_is_8. lia. }
    destruct Hbuf as (cap & got & -> & Hgot).
    unfold FrameModel.f_header_phase.
    destruct (blen got <? f_hs) eqn:Ehdr.
    - destruct (f_recv_more got f_hs maxb scr pipe) as [[[[got1 maxb1] scr1] pipe1] short] eqn:Er.
      destruct (f_recv_more_spec _ _ _ _ _ _ _ _ _ _ Er) as (x1 & -> & Hp & Hb & -> & -> & ->).
      rewrite Ehdr in *.
      destruct (blen x1 <? N.min maxb (f_hs - blen got)) eqn:Eshort; [exact I|].
      assert (Hk : 1 <= io_k scr) by lia.
      assert (Hs : (length (io_tl scr) < length scr)%nat) by (destruct scr; cbn in *; lia).
      destruct (f_hs <=? blen (got ++ x1)) eqn:Ecomplete.
      + destruct (f_header cap (got ++ x1)) as [cap1|] eqn:Eh; [|exact I].
        rewrite Ecomplete. unfold f_body_phase.
        destruct (blen (got ++ x1) <? cap1) eqn:Elt.
        * destruct (f_recv_more (got ++ x1) cap1 (maxb - blen x1) (io_tl scr) pipe1) as [[[[got2 maxb2] scr2] pipe2] short] eqn:Er2.
          destruct (f_recv_more_spec _ _ _ _ _ _ _ _ _ _ Er2) as (x2 & -> & Hp2 & Hb2 & -> & -> & ->).
          assert (Hs2 : (length (io_tl (io_tl scr)) < length scr)%nat) by (destruct scr as [|? [|? ?]]; cbn in *; lia).
          destruct (blen x2 <? _); [exact I|].
          destruct (blen ((got ++ x1) ++ x2) =? cap1); [|exact Hs2].
          destruct (unflat (fr_cr st) ((got ++ x1) ++ x2)) as [cr' [m|]]; [exact Hs2|exact I].
        * destruct (blen (got ++ x1) =? cap1); [|exact Hs].
          destruct (unflat (fr_cr st) (got ++ x1)) as [cr' [m|]]; [exact Hs|exact I].
      + rewrite Ecomplete. exact Hs.
    - assert (Eg : (f_hs <=? blen got) = true) by lia. rewrite Eg.
      apply body_phase_scr; lia.
  Qed.

  (* ---- the whole loop, any fuel *)
  Lemma f_in_loop_spec fuel : forall st maxb scr pipe outs st' outs' pipe',
    fr_wf st -> f_in_loop fuel st maxb scr pipe outs = (st', outs', pipe') ->
    fr_wf st' /\ exists x o, pipe = x ++ pipe' /\ outs' = outs ++ o /\ f_feed (fr_norm st) x = (fr_norm st', o).
  Proof.
    induction fuel as [|fuel IH]; intros st maxb scr pipe outs st' outs' pipe' Hwf H; cbn [FrameModel.f_in_loop] in H.
    - inversion H; subst. split; auto. exists [], []. rewrite app_nil_r. auto.
    - pose proof (f_turn_spec st maxb scr pipe outs Hwf) as Ht.
      destruct (f_turn st maxb scr pipe outs) as [st1 o1 p1|st1 maxb1 scr1 p1 o1]; cbn [turn_res] in Ht.
      + inversion H; subst. destruct Ht as (Hwf' & x & o & Hp & Ho & Hf & _). split; auto. exists x, o. auto.
      + destruct Ht as (Hwf1 & x & o & Hp & Ho & Hf & _).
        apply IH in H; auto. destruct H as (Hwf' & y & o2 & Hp2 & Ho2 & Hf2).
        split; auto. exists (x ++ y), (o ++ o2). repeat split.
        * rewrite Hp, Hp2. now rewrite app_assoc.
        * rewrite Ho2, Ho. now rewrite app_assoc.
        * rewrite f_feed_app, Hf, Hf2. reflexivity.
  Qed.

  Lemma f_do_input_spec st maxb scr pipe st' o pipe' :
    fr_wf st -> f_do_input st maxb scr pipe = (st', o, pipe') ->
    fr_wf st' /\ exists x, pipe = x ++ pipe' /\ f_feed (fr_norm st) x = (fr_norm st', o).
  Proof.
    unfold FrameModel.f_do_input. intros Hwf H.
    destruct (f_in_loop_spec _ _ _ _ _ _ _ _ _ Hwf H) as (Hwf' & x & o' & Hp & Ho & Hf).
    cbn in Ho. subst o'. eauto.
  Qed.

  Lemma f_do_input_progress st maxb scr pipe st' o pipe' :
    fr_wf st -> fr_err st = false -> 1 <= maxb -> 1 <= io_k scr -> pipe <> [] ->
    f_do_input st maxb scr pipe = (st', o, pipe') -> (length pipe' < length pipe)%nat.
  Proof.
    unfold FrameModel.f_do_input. intros Hwf He Hm Hk Hne H. cbn [FrameModel.f_in_loop] in H.
    pose proof (f_turn_spec st maxb scr pipe [] Hwf) as Ht.
    destruct (f_turn st maxb scr pipe []) as [st1 o1 p1|st1 maxb1 scr1 p1 o1]; cbn [turn_res] in Ht;
      destruct Ht as (Hwf1 & x & o' & Hp & Ho & Hf & Hx); specialize (Hx He Hm Hk Hne).
    - inversion H; subst. rewrite app_length. destruct x; [contradiction|cbn; lia].
    - apply f_in_loop_spec in H; auto. destruct H as (_ & y & _ & Hp2 & _).
      rewrite Hp, Hp2, !app_length. destruct x; [contradiction|cbn; lia].
  Qed.

  (* ---- fuel adequacy: |scr|+1 turns always suffice *)
  Lemma f_in_fuel_enough fuel : forall st maxb scr pipe outs,
    fr_wf st -> (length scr < fuel)%nat ->
    f_in_loop fuel st maxb scr pipe outs = f_in_loop (S fuel) st maxb scr pipe outs.
  Proof.
    induction fuel as [|fuel IH]; intros st maxb scr pipe outs Hwf Hf; [lia|].
    remember (S fuel) as f1. rewrite Heqf1 at 1. cbn [FrameModel.f_in_loop].
    pose proof (f_turn_scr st maxb scr pipe outs Hwf) as Hs.
    pose proof (f_turn_spec st maxb scr pipe outs Hwf) as Ht.
    destruct (f_turn st maxb scr pipe outs) as [st1 o1 p1|st1 maxb1 scr1 p1 o1]; [reflexivity|].
    cbn [turn_scr turn_res] in *. destruct Ht as (Hwf1 & _). subst f1. apply IH; auto. lia.
  Qed.

  (* ==================================================================== decoding a framed stream *)
  (* The premise about the codec pair (FlattenHeaderAndMessage on one side,
     UnflattenHeaderAndMessage on the other): starting from states in step, the sender's buffer
     for a body m of the domain is header (size word, in-range encoding word) ++ payload, the
     receiver turns that buffer back into m, and the states are in step again. *)
  Variable sync : CS -> CR -> Prop.
  Variable wfb : Msg -> Prop.
  Hypothesis sync0 : sync cs0 cr0.
  Hypothesis codec_sync : forall cs cr m, sync cs cr -> wfb m ->
    exists hdr payload cr',
      snd (flat cs m) = hdr ++ payload /\ blen hdr = f_hs /\
      body_size hdr = Some (blen payload) /\
      blen payload <= max_in /\ f_hs + blen payload < two32 /\
      unflat cr (snd (flat cs m)) = (cr', Some m) /\ sync (fst (flat cs m)) cr'.

  Definition idle (cr : CR) : frecv := mkFR None false cr.

  Lemma f_header_frame cap hdr payload :
    cap = f_scratch -> body_size hdr = Some (blen payload) ->
    blen payload <= max_in -> f_hs + blen payload < two32 ->
    f_header cap hdr = Some (f_hs + blen payload).
  Proof.
    intros -> Hb Hm Hs. unfold FrameModel.f_header. rewrite Hb.
    assert (Hnl : c_MUSCLE_NO_LIMIT = two32 - 1) by reflexivity.
    assert (E2 : (blen payload <=? max_in) && (blen payload <=? c_MUSCLE_NO_LIMIT - f_hs) = true).
    { rewrite f_hs_is_8 in *. unfold two32 in *. lia. }
    rewrite E2.
    assert (E3 : (f_hs <? f_scratch) = true) by (vm_compute; reflexivity). rewrite E3.
    destruct (blen payload <=? f_scratch - f_hs); [reflexivity|].
    unfold u32. rewrite N.mod_small by exact Hs. reflexivity.
  Qed.

  Lemma f_feed_frame cs cr m : sync cs cr -> wfb m ->
    exists cr', f_feed (idle cr) (snd (flat cs m)) = (idle cr', [m]) /\ sync (fst (flat cs m)) cr'.
  Proof.
    intros Hs Hm. destruct (codec_sync cs cr m Hs Hm) as (hdr & payload & cr' & Hflat & Hhl & Hbs & Hmax & Hsz & Hun & Hs').
    exists cr'. split; auto.
    rewrite Hflat in *. rewrite f_feed_app.
    assert (Hidle : idle cr = fr_norm (mkR f_scratch [] cr)) by reflexivity.
    rewrite Hidle.
    assert (Hne : hdr <> []) by (intros ->; change (blen []) with 0 in Hhl; rewrite f_hs_is_8 in Hhl; lia).
    rewrite (feed_hdr_exact hdr [] f_scratch cr eq_refl Hne); [|exact Hhl].
    cbn [app]. unfold f_hdr_done. rewrite (f_header_frame f_scratch hdr payload); auto. rewrite Hhl.
    destruct (f_hs =? f_hs + blen payload) eqn:Ez.
    - assert (payload = []) by (apply blen_0; lia). subst payload. rewrite !app_nil_r in *.
      unfold f_done. unfold bytes, byte in *. rewrite Hun. reflexivity.
    - assert (Hp : payload <> []) by (intros ->; change (blen []) with 0 in Ez; lia).
      fold (mkR (f_hs + blen payload) hdr cr).
      rewrite (feed_body_exact payload _ _ cr); auto; try (rewrite Hhl; lia).
      unfold f_done. unfold bytes, byte in *. rewrite Hun. reflexivity.
  Qed.

  Lemma f_feed_wire ms : Forall wfb ms -> forall cs cr, sync cs cr ->
    exists cr', f_feed (idle cr) (wire_from cs ms) = (idle cr', ms) /\ sync (cs_after cs ms) cr'.
  Proof.
    induction 1 as [|m t Hm _ IH]; intros cs cr Hs; cbn [wire_from cs_after].
    - exists cr. auto.
    - destruct (f_feed_frame cs cr m Hs Hm) as (cr1 & Hf1 & Hs1).
      destruct (IH _ _ Hs1) as (cr2 & Hf2 & Hs2).
      exists cr2. split; auto. rewrite f_feed_app, Hf1, Hf2. reflexivity.
  Qed.

  (* ==================================================================== end to end *)
  Definition f_wire (ms : list Msg) : bytes := wire_from cs0 ms.
  Definition f_RRel (r : frecv) (c : bytes) (o : list Msg) : Prop :=
    fr_wf r /\ f_feed (idle cr0) c = (fr_norm r, o).

  Definition f_sys0 := @sys0 Msg Msg fsend frecv (fs_init cs0) (fr_init cr0).
  Notation f_run := (sys_run fs_queue f_do_output f_do_input).

  Lemma f_S_init : fs_SI (fs_init cs0) [] /\ fs_rem (fs_init cs0) = [].
  Proof. split; [|reflexivity]. split; [reflexivity|]. exists []. auto. Qed.

  Lemma f_S_queue s ms m :
    Forall wfb ms -> wfb m -> fs_SI s ms ->
    fs_SI (fs_queue s m) (ms ++ [m]) /\
    exists d, fs_rem (fs_queue s m) = fs_rem s ++ d /\ f_wire (ms ++ [m]) = f_wire ms ++ d.
  Proof.
    intros _ _ [Hwf (dn & Hms & Hcs)]. split.
    - split; [exact Hwf|]. exists dn. cbn. split; [now rewrite Hms, app_assoc|exact Hcs].
    - exists (snd (flat (cs_after cs0 ms) m)). split.
      + unfold fs_rem. cbn [fs_queue fs_buf fs_off fs_q fs_cs]. rewrite wire_from_app, app_assoc.
        cbn [wire_from]. rewrite app_nil_r. do 2 f_equal. rewrite Hms, cs_after_app, Hcs. reflexivity.
      + unfold f_wire. rewrite wire_from_app. cbn [wire_from]. now rewrite app_nil_r.
  Qed.

  Lemma f_S_out s ms maxb scr s' x :
    Forall wfb ms -> fs_SI s ms -> f_do_output s maxb scr = (s', x) ->
    fs_SI s' ms /\ fs_rem s = x ++ fs_rem s'.
  Proof. intros _. apply f_do_output_spec. Qed.

  Lemma f_R_init : f_RRel (fr_init cr0) [] [].
  Proof. split; [intros _; exact I|reflexivity]. Qed.

  Lemma f_R_in (ms : list Msg) r c o maxb scr pipe (rest : bytes) r' o' pipe' :
    Forall wfb ms -> f_wire ms = c ++ pipe ++ rest -> f_RRel r c o ->
    f_do_input r maxb scr pipe = (r', o', pipe') ->
    exists x, pipe = x ++ pipe' /\ f_RRel r' (c ++ x) (o ++ o').
  Proof.
    intros _ _ [Hwf Hc] H.
    destruct (f_do_input_spec _ _ _ _ _ _ _ Hwf H) as (Hwf' & x & Hp & Hf).
    exists x. split; auto. split; auto. rewrite f_feed_app, Hc, Hf. reflexivity.
  Qed.

  Lemma f_decode_prefix ms (r : frecv) c o (rest : bytes) :
    Forall wfb ms -> f_wire ms = c ++ rest -> f_RRel r c o -> exists tl, ms = o ++ tl.
  Proof.
    intros Hwf Hw [_ Hc].
    destruct (f_feed_wire ms Hwf cs0 cr0 sync0) as (cr' & Hall & _).
    fold (f_wire ms) in Hall. rewrite Hw, f_feed_app, Hc in Hall.
    destruct (f_feed (fr_norm r) rest) as [r2 o2]. inversion Hall. eauto.
  Qed.

  Lemma f_decode_complete ms (r : frecv) o :
    Forall wfb ms -> f_RRel r (f_wire ms) o -> o ++ [] = ms.
  Proof.
    intros Hwf [_ Hc].
    destruct (f_feed_wire ms Hwf cs0 cr0 sync0) as (cr' & Hall & _).
    fold (f_wire ms) in Hall. rewrite Hc in Hall. inversion Hall. now rewrite app_nil_r.
  Qed.

  (* a receiver that has consumed a prefix of a well-formed stream is not in the error state *)
  Lemma f_no_error ms (r : frecv) c o (rest : bytes) :
    Forall wfb ms -> f_wire ms = c ++ rest -> f_RRel r c o -> fr_err r = false.
  Proof.
    intros Hwf Hw [_ Hc].
    destruct (f_feed_wire ms Hwf cs0 cr0 sync0) as (cr' & Hall & _).
    fold (f_wire ms) in Hall. rewrite Hw, f_feed_app, Hc in Hall.
    destruct (fr_err r) eqn:He; auto.
    assert (He' : fr_err (fr_norm r) = true).
    { unfold fr_norm. destruct (fr_buf r) as [[? [|? ?]]|]; cbn; auto. }
    rewrite (f_feed_err _ rest He') in Hall. inversion Hall as [[H1 H2]].
    rewrite H1 in He'. discriminate.
  Qed.

  (* Every event list: the Messages delivered so far are a prefix, as a list of Messages, of the
     Messages queued so far: nothing lost, duplicated, merged, split, reordered or altered. *)
  Theorem frame_prefix_safety (evs : list (event Msg)) :
    Forall (ev_wf wfb) evs ->
    exists tl, ev_msgs evs = s_dlv (f_run f_sys0 evs) ++ tl.
  Proof.
    apply (prefix_safety fs_queue f_do_output f_do_input (fs_init cs0) (fr_init cr0) wfb f_wire
             (fun ms : list Msg => ms) (fun o : list Msg => o) fs_rem fs_SI f_RRel);
      [reflexivity | exact f_S_init | exact f_S_queue | exact f_S_out | exact f_R_init
      | exact f_R_in | exact f_decode_prefix].
  Qed.

  Theorem frame_completeness (evs : list (event Msg)) :
    Forall (ev_wf wfb) evs ->
    fs_rem (s_snd (f_run f_sys0 evs)) = [] -> s_pipe (f_run f_sys0 evs) = [] ->
    s_dlv (f_run f_sys0 evs) = ev_msgs evs.
  Proof.
    intros Hf Hr Hp.
    pose proof (completeness fs_queue f_do_output f_do_input (fs_init cs0) (fr_init cr0) wfb f_wire
             (fun ms : list Msg => ms) (fun o : list Msg => o) (fun _ => []) fs_rem fs_SI f_RRel
             eq_refl f_S_init f_S_queue f_S_out f_R_init f_R_in f_decode_complete evs Hf Hr Hp) as H.
    now rewrite app_nil_r in H.
  Qed.

  Theorem frame_fair_completion (evs : list (event Msg)) (rs : list (list (event Msg))) :
    Forall (ev_wf wfb) evs -> Forall round rs ->
    (measure fs_rem (fun _ => 0%nat) (f_run f_sys0 evs) <= length rs)%nat ->
    let st := f_run f_sys0 (evs ++ concat rs) in
    quiet fs_rem st /\ s_dlv st = ev_msgs evs.
  Proof.
    intros Hf Hr Hm.
    pose proof (fair_completion fs_queue f_do_output f_do_input (fs_init cs0) (fr_init cr0) wfb f_wire
             (fun ms : list Msg => ms) (fun o : list Msg => o) (fun _ => []) fs_rem fs_SI f_RRel
             eq_refl f_S_init f_S_queue f_S_out f_R_init f_R_in f_decode_complete (fun _ => 0%nat)) as H.
    cbv zeta in *. rewrite <- (app_nil_r (s_dlv _)). apply H; auto.
    - intros s ms maxb scr s' x _ Hs Ho. split; [lia|]. intros Hrem Hmx Hk. left.
      exact (f_do_output_progress ms s maxb scr s' x Hs Hrem Hmx Hk Ho).
    - intros ms r c o maxb scr pipe rest r' o' pipe' Hwf Hw Hc Hi Hne Hmx Hk.
      pose proof (f_no_error ms r c o (pipe ++ rest) Hwf Hw Hc) as He.
      destruct Hc as [Hwfr _].
      exact (f_do_input_progress r maxb scr pipe r' o' pipe' Hwfr He Hmx Hk Hne Hi).
  Qed.

  (* the receiver is back in its idle state (no partial Message buffered) once everything sent
     has been consumed *)
  Theorem frame_receiver_idle (evs : list (event Msg)) :
    Forall (ev_wf wfb) evs ->
    fs_rem (s_snd (f_run f_sys0 evs)) = [] -> s_pipe (f_run f_sys0 evs) = [] ->
    exists cr', fr_norm (s_rcv (f_run f_sys0 evs)) = idle cr'.
  Proof.
    intros Hf Hr Hp.
    destruct (sys_inv_run fs_queue f_do_output f_do_input wfb f_wire fs_rem fs_SI f_RRel
                f_S_queue f_S_out f_R_in evs f_sys0
                (sys_inv_init (fs_init cs0) (fr_init cr0) wfb f_wire fs_rem fs_SI f_RRel eq_refl f_S_init f_R_init) Hf)
      as (Hwf & _ & c & Hw & [_ Hc]).
    rewrite Hr, Hp in Hw. cbn [app] in Hw. rewrite app_nil_r in Hw. subst c.
    destruct (f_feed_wire _ Hwf cs0 cr0 sync0) as (cr' & Hall & _).
    fold (f_wire (s_sent (f_run f_sys0 evs))) in Hall. rewrite Hc in Hall. inversion Hall. eauto.
  Qed.
End FrameProofs.
