(* C03 -- proofs about the binary gateway model (work in progress). *)
From Coq Require Import List NArith Bool Lia.
From Muscle Require Import Gen.Consts Gw.GwBase Gw.FrameModel.
Import ListNotations.
Local Open Scope N_scope.

Lemma f_hs_is_8 : f_hs = 8.
Proof. reflexivity. Qed.
