(* Gw/GwRecvProofs.v -- C02: soundness of the MessageIOGateway receive machine (model: Gw/RecvInstr.v).

   For the repaired code (fx3 = true), every maximum incoming size, every Message parser [unflat] (zlib included) and
   every byte stream under every segmentation:
     recv_writes_in_bounds   every Read() target range and the header memcpy lie inside the buffer they write to
     recv_alloc_bounded      every buffer request is at most max(scratch, headerSize + min(maxIncoming, 2^32-1-headerSize))
     recv_fuel_enough        DoInput terminates: every turn of its loop that does not end the call consumes input
   and for the pinned code (fx3 = false) [recv_f3_refuted]: an 8-byte header makes it copy the header into a 0-byte buffer. *)
From Coq Require Import List NArith Bool Lia ZifyBool.
From Muscle Require Import Gen.Consts Msg.MsgDefs Msg.MsgInstrProofs Gw.RecvInstr.
Import ListNotations.
Local Open Scope N_scope.

Lemma g_hs_val : g_hs = 8.  Proof. reflexivity. Qed.
Lemma g_scratch_ge : g_hs <= g_scratch.  Proof. vm_compute. discriminate. Qed.
Lemma g_nolim_val : g_nolim = 4294967295.  Proof. reflexivity. Qed.

Section RecvProofs.
  Variable max_in : N.
  Variable unflat : bytes -> bool.

  Definition abound : N := N.max g_scratch (g_hs + N.min max_in (g_nolim - g_hs)).

  (* at every turn boundary: the buffer holds at least a header, the cursor is inside it, and a cursor past the header
     has not reached the end (a complete buffer is consumed in the turn that completes it) *)
  Definition ginv (st : gstate) : Prop :=
    match g_cap st with
    | None => True
    | Some c => g_hs <= c /\ g_off st <= c /\ (g_hs <= g_off st -> g_off st < c)
    end.
  Definition glok (l : glog) : Prop := Forall write_ok (gl_writes l) /\ Forall (fun n => n <= abound) (gl_allocs l).

  Lemma glok_write cap off k l : glok l -> off + k <= cap -> glok (gw_write cap off k l).
  Proof. intros [H1 H2] H. split; [constructor; [exact H | exact H1] | exact H2]. Qed.
  Lemma glok_alloc n l : glok l -> n <= abound -> glok (gw_alloc n l).
  Proof. intros [H1 H2] H. split; [exact H1 | constructor; [exact H | exact H2]]. Qed.
  Lemma glok_deliver b l : glok l -> glok (gw_deliver b l).
  Proof. intros [H1 H2]. split; assumption. Qed.

  Lemma scratch_le_abound : g_scratch <= abound.  Proof. unfold abound. lia. Qed.
  Lemma hs_le_abound : g_hs <= abound.  Proof. pose proof g_scratch_ge. unfold abound. lia. Qed.

  (* ReceiveMoreData: the write stays inside [0, target) <= cap, the cursor does not pass the target, input shrinks by
     what was read; a read that is not short read its whole (non-empty when off < target and maxb > 0) attempt *)
  Lemma recv_more_spec st cap l inp maxb target :
    glok l -> g_off st <= target -> target <= cap ->
    let '(st1, l1, inp1, maxb1, short) := recv_more st cap l inp maxb target in
    glok l1 /\ g_cap st1 = g_cap st /\ g_off st <= g_off st1 /\ g_off st1 <= target /\ g_err st1 = g_err st /\
    g_scr st1 = g_scr st /\ len inp1 + (g_off st1 - g_off st) = len inp /\
    (short = false -> 0 < maxb -> g_off st < target -> g_off st < g_off st1) /\
    (short = false -> g_off st1 = g_off st + N.min maxb (target - g_off st)) /\
    (short = true -> g_off st1 < target).
  Proof.
    intros Hl Ho Ht. unfold recv_more. cbn [g_cap g_off g_err g_scr].
    set (att := N.min maxb (if g_off st <? target then target - g_off st else 0)).
    assert (Hatt : att <= target - g_off st).
    { unfold att. destruct (N.ltb_spec (g_off st) target); lia. }
    assert (Hatt2 : g_off st < target -> att = N.min maxb (target - g_off st)).
    { intro. unfold att. destruct (N.ltb_spec (g_off st) target); lia. }
    assert (Hk : N.min att (len inp) <= att) by lia.
    split; [apply glok_write; [exact Hl | lia]|].
    split; [reflexivity|]. split; [lia|]. split; [lia|]. split; [reflexivity|]. split; [reflexivity|].
    split; [rewrite len_dropN; lia|].
    split; [|split].
    - intros Hs Hm Hlt. destruct (N.ltb_spec (N.min att (len inp)) att); [discriminate|]. rewrite Hatt2 in * by lia. lia.
    - intros Hs. destruct (N.ltb_spec (N.min att (len inp)) att); [discriminate|].
      destruct (N.ltb_spec (g_off st) target); [rewrite Hatt2 in * by lia; lia|].
      unfold att in *. destruct (N.ltb_spec (g_off st) target); lia.
    - intros Hs. destruct (N.ltb_spec (N.min att (len inp)) att); [lia|discriminate].
  Qed.

  (* one turn of the loop, repaired code *)
  Lemma recv_turn_spec st l inp maxb :
    ginv st -> glok l -> g_err st = false -> 0 < maxb ->
    match recv_turn true max_in unflat st l inp maxb with
    | TStop s lg i => (g_err s = true \/ ginv s) /\ glok lg /\ len i <= len inp
    | TGo s lg i mb => ginv s /\ glok lg /\ g_err s = false /\ len i < len inp
    end.
  Proof.
    intros Hi Hl He Hm. pose proof g_scratch_ge as Hsc. pose proof g_hs_val as Hh. pose proof g_nolim_val as Hn.
    pose proof scratch_le_abound as Hsa. pose proof hs_le_abound as Hha.
    unfold recv_turn.
    (* the receive buffer of this turn *)
    set (pre := match g_cap st with
                | Some c => (st, l, c)
                | None => _ end).
    assert (Hpre : let '(st0, l0, cap0) := pre in
                   g_cap st0 = Some cap0 /\ g_hs <= cap0 /\ g_off st0 <= cap0 /\ (g_hs <= g_off st0 -> g_off st0 < cap0) /\
                   glok l0 /\ g_err st0 = false).
    { unfold pre, ginv in *. destruct (g_cap st) as [c|] eqn:Ec.
      - destruct Hi as (A & B & C). destruct Hl as [Hl1 Hl2]. repeat split; assumption.
      - destruct (N.leb_spec g_hs g_scratch); [|lia].
        assert (Hl1 : glok (if g_scr st then l else gw_alloc g_scratch l))
          by (destruct (g_scr st); [exact Hl | apply glok_alloc; assumption]).
        cbn [g_cap g_off g_err]. split; [reflexivity|]. split; [lia|]. split; [lia|]. split; [lia|]. split; [exact Hl1 | exact He]. }
    destruct pre as [[st0 l0] cap0]. destruct Hpre as (Hc0 & Hhc & Hoc & Hlt0 & Hl0 & He0).
    destruct (N.ltb_spec (g_off st0) g_hs) as [Hhdr|Hbody].
    - (* header phase *)
      pose proof (recv_more_spec st0 cap0 l0 inp maxb g_hs Hl0 ltac:(lia) Hhc) as R.
      destruct (recv_more st0 cap0 l0 inp maxb g_hs) as [[[[st1 l1] inp1] maxb1] short].
      destruct R as (Rl & Rc & Ro1 & Ro2 & Re & Rs & Rlen & Rpos & Rex & Rsh).
      destruct short.
      + (* short read: break *)
        specialize (Rsh eq_refl).
        split; [right; unfold ginv; rewrite Rc, Hc0; repeat split; lia | split; [exact Rl | lia]].
      + specialize (Rpos eq_refl Hm Hhdr). specialize (Rex eq_refl).
        destruct (N.leb_spec g_hs (g_off st1)) as [Hfull|Hpart].
        * (* the header is complete: GetBodySize and the size gate *)
          destruct ((c_MUSCLE_MESSAGE_ENCODING_DEFAULT <=? enc_word (g_data st1)) && (enc_word (g_data st1) <=? c_MUSCLE_MESSAGE_ENCODING_END_MARKER - 1)).
          2:{ cbn [g_err]. split; [left; reflexivity | split; [exact Rl | lia]]. }
          set (body := body_size (g_data st1)).
          destruct (N.leb_spec body max_in) as [Hbm|Hbm]; cbn [andb].
          2:{ cbn [g_err]. split; [left; reflexivity | split; [exact Rl | lia]]. }
          destruct (N.leb_spec body (g_nolim - g_hs)) as [Hbn|Hbn].
          2:{ cbn [g_err]. split; [left; reflexivity | split; [exact Rl | lia]]. }
          assert (Ho8 : g_off st1 = g_hs) by lia.
          destruct (N.leb_spec body (if g_hs <? cap0 then cap0 - g_hs else 0)) as [Hfit|Hbig].
          -- (* TruncateToLength(hs+bodySize) *)
             cbn [g_off g_cap g_data g_err g_scr]. rewrite Ho8.
             destruct (N.leb_spec g_hs g_hs); [|lia].
             destruct (N.ltb_spec g_hs (g_hs + body)) as [Hnz|Hz].
             ++ pose proof (recv_more_spec (mkG (Some (g_hs + body)) g_hs (g_data st1) false (g_scr st1)) (g_hs + body) l1 inp1 maxb1 (g_hs + body) Rl
                              ltac:(cbn [g_off]; lia) ltac:(lia)) as R2.
                cbn [g_off] in R2.
                destruct (recv_more _ (g_hs + body) l1 inp1 maxb1 (g_hs + body)) as [[[[st3 l3] inp3] maxb3] short3].
                cbn [g_off g_cap g_err g_scr] in R2. destruct R2 as (R2l & R2c & R2o1 & R2o2 & R2e & R2s & R2len & R2pos & R2ex & R2sh).
                destruct short3.
                ** specialize (R2sh eq_refl). split; [right; unfold ginv; rewrite R2c; repeat split; lia | split; [exact R2l | lia]].
                ** destruct (N.eqb_spec (g_off st3) (g_hs + body)) as [Hdone|Hmore].
                   --- destruct (unflat (g_data st3)).
                       +++ cbn [g_err g_cap]. repeat split; try exact I; try (apply glok_deliver; exact R2l); lia.
                       +++ cbn [g_err]. split; [left; reflexivity | split; [exact R2l | lia]].
                   --- split; [unfold ginv; rewrite R2c; repeat split; lia | split; [exact R2l | split; [lia | lia]]].
             ++ (* empty body: the buffer is complete as it stands *)
                cbn [g_off g_cap g_data g_err g_scr].
                destruct (N.eqb_spec g_hs (g_hs + body)) as [_|Hne]; [|lia].
                destruct (unflat (g_data st1)).
                ** cbn [g_err g_cap]. repeat split; try exact I; try (apply glok_deliver; exact Rl); lia.
                ** cbn [g_err]. split; [left; reflexivity | split; [exact Rl | lia]].
          -- (* a bigger buffer: GetByteBufferFromPool(hs+bodySize), memcpy of the header *)
             assert (Hu : u32 (g_hs + body) = g_hs + body) by (unfold u32, two32; apply N.mod_small; lia).
             rewrite Hu. cbn [g_off g_cap g_data g_err g_scr]. rewrite Ho8.
             assert (Hlb : glok (gw_write (g_hs + body) 0 g_hs (gw_alloc (g_hs + body) l1))).
             { apply glok_write; [apply glok_alloc; [exact Rl | unfold abound; lia] | lia]. }
             destruct (N.leb_spec g_hs g_hs); [|lia].
             destruct (N.ltb_spec g_hs (g_hs + body)) as [Hnz|Hz].
             ++ pose proof (recv_more_spec (mkG (Some (g_hs + body)) g_hs (g_data st1) false (g_scr st1)) (g_hs + body) _ inp1 maxb1 (g_hs + body) Hlb
                              ltac:(cbn [g_off]; lia) ltac:(lia)) as R2.
                cbn [g_off] in R2.
                destruct (recv_more _ (g_hs + body) _ inp1 maxb1 (g_hs + body)) as [[[[st3 l3] inp3] maxb3] short3].
                cbn [g_off g_cap g_err g_scr] in R2. destruct R2 as (R2l & R2c & R2o1 & R2o2 & R2e & R2s & R2len & R2pos & R2ex & R2sh).
                destruct short3.
                ** specialize (R2sh eq_refl). split; [right; unfold ginv; rewrite R2c; repeat split; lia | split; [exact R2l | lia]].
                ** destruct (N.eqb_spec (g_off st3) (g_hs + body)) as [Hdone|Hmore].
                   --- destruct (unflat (g_data st3)).
                       +++ cbn [g_err g_cap]. repeat split; try exact I; try (apply glok_deliver; exact R2l); lia.
                       +++ cbn [g_err]. split; [left; reflexivity | split; [exact R2l | lia]].
                   --- split; [unfold ginv; rewrite R2c; repeat split; lia | split; [exact R2l | split; [lia | lia]]].
             ++ exfalso. destruct (N.ltb_spec g_hs cap0); lia.
        * (* the header is still incomplete (maxBytes ran out): next turn *)
          destruct (N.leb_spec g_hs (g_off st1)); [lia|].
          split; [unfold ginv; rewrite Rc, Hc0; repeat split; lia | split; [exact Rl | split; [lia | lia]]].
    - (* body phase from the start of the turn *)
      destruct (N.leb_spec g_hs (g_off st0)); [|lia].
      specialize (Hlt0 ltac:(lia)).
      destruct (N.ltb_spec (g_off st0) cap0); [|lia].
      pose proof (recv_more_spec st0 cap0 l0 inp maxb cap0 Hl0 ltac:(lia) ltac:(lia)) as R.
      destruct (recv_more st0 cap0 l0 inp maxb cap0) as [[[[st3 l3] inp3] maxb3] short3].
      destruct R as (Rl & Rc & Ro1 & Ro2 & Re & Rs & Rlen & Rpos & Rex & Rsh).
      destruct short3.
      + specialize (Rsh eq_refl). split; [right; unfold ginv; rewrite Rc, Hc0; repeat split; lia | split; [exact Rl | lia]].
      + specialize (Rpos eq_refl Hm ltac:(lia)).
        destruct (N.eqb_spec (g_off st3) cap0) as [Hdone|Hmore].
        * destruct (unflat (g_data st3)).
          -- cbn [g_err g_cap]. repeat split; try exact I; try (apply glok_deliver; exact Rl); lia.
          -- cbn [g_err]. split; [left; reflexivity | split; [exact Rl | lia]].
        * split; [unfold ginv; rewrite Rc, Hc0; repeat split; lia | split; [exact Rl | split; [lia | lia]]].
  Qed.

  (* the whole loop: soundness and termination *)
  Lemma recv_loop_spec fuel : forall st l inp maxb,
    (g_err st = true \/ ginv st) -> glok l -> (length inp < fuel)%nat ->
    exists s lg i, recv_loop true max_in unflat fuel st l inp maxb = Some (s, lg, i) /\
                   (g_err s = true \/ ginv s) /\ glok lg /\ len i <= len inp.
  Proof.
    induction fuel as [|f IH]; intros st l inp maxb Hi Hl Hf; [lia|].
    cbn [recv_loop].
    destruct (N.eqb_spec maxb 0) as [Hz|Hz]; cbn [orb].
    - exists st, l, inp. split; [reflexivity | split; [assumption | split; [assumption | lia]]].
    - destruct (g_err st) eqn:Ee.
      + exists st, l, inp. split; [reflexivity | split; [left; exact Ee | split; [assumption | lia]]].
      + destruct Hi as [Hi|Hi]; [congruence|].
        pose proof (recv_turn_spec st l inp maxb Hi Hl Ee ltac:(lia)) as T.
        destruct (recv_turn true max_in unflat st l inp maxb) as [s lg i|s lg i mb].
        * exists s, lg, i. destruct T as (T1 & T2 & T3). split; [reflexivity | split; [assumption | split; assumption]].
        * destruct T as (T1 & T2 & T3 & T4).
          assert (Hlen : (length i < length inp)%nat) by (rewrite !len_nat in T4; lia).
          destruct (IH s lg i mb (or_intror T1) T2 ltac:(lia)) as (s' & lg' & i' & E & A & B & C).
          exists s', lg', i'. split; [exact E | split; [assumption | split; [assumption | lia]]].
  Qed.

  Lemma drive_spec fuel : forall st l inp,
    (g_err st = true \/ ginv st) -> glok l -> (length inp < fuel)%nat ->
    exists s lg i, drive true max_in unflat fuel st l inp = Some (s, lg, i) /\ (g_err s = true \/ ginv s) /\ glok lg.
  Proof.
    induction fuel as [|f IH]; intros st l inp Hi Hl Hf; [lia|].
    cbn [drive]. unfold do_input.
    destruct (recv_loop_spec (S (S (length inp))) st l inp g_nolim Hi Hl ltac:(lia)) as (s & lg & i & E & A & B & C).
    rewrite E.
    destruct (N.ltb_spec (len i) (len inp)) as [Hlt|Hge].
    - assert (Hlen : (length i < length inp)%nat) by (rewrite !len_nat in Hlt; lia).
      apply (IH s lg i A B). lia.
    - exists s, lg, i. split; [reflexivity | split; assumption].
  Qed.

  Lemma feed_spec : forall segs st l,
    (g_err st = true \/ ginv st) -> glok l ->
    exists s lg, feed true max_in unflat st l segs = Some (s, lg) /\ (g_err s = true \/ ginv s) /\ glok lg.
  Proof.
    induction segs as [|sg t IH]; intros st l Hi Hl; cbn [feed].
    - exists st, l. split; [reflexivity | split; assumption].
    - unfold feed_segment.
      destruct (drive_spec (S (length sg)) st l sg Hi Hl ltac:(lia)) as (s & lg & i & E & A & B).
      rewrite E. apply IH; assumption.
  Qed.
End RecvProofs.

(* ------------------------------------------------------------------ the theorems *)
(* every segmentation of every byte stream, every parser, every configured maximum: all writes in bounds, all buffer
   requests bounded, and the run terminates *)
Theorem recv_sound_proof : forall max_in unflat (segs : list bytes),
  exists s lg, feed true max_in unflat g_init glog0 segs = Some (s, lg) /\
    Forall write_ok (gl_writes lg) /\
    Forall (fun n => n <= N.max g_scratch (g_hs + N.min max_in (g_nolim - g_hs))) (gl_allocs lg).
Proof.
  intros max_in unflat segs.
  destruct (feed_spec max_in unflat segs g_init glog0) as (s & lg & E & _ & [A B]).
  - right. exact I.
  - split; constructor.
  - exists s, lg. repeat split; assumption.
Qed.

(* finding F3 in the pinned code: the header (bodySize = 2^32-8, default encoding) alone makes the machine request a
   0-byte buffer and copy the 8 header bytes into it *)
Definition f3_header : bytes := le32 4294967288 ++ le32 c_MUSCLE_MESSAGE_ENCODING_DEFAULT.
Theorem recv_f3_refuted_proof :
  exists s lg i mb, recv_turn false g_nolim (fun _ => false) g_init glog0 f3_header g_nolim = TGo s lg i mb /\
                    In (0, 0, g_hs) (gl_writes lg) /\ ~ write_ok (0, 0, g_hs).
Proof.
  eexists _, _, _, _. split; [vm_compute; reflexivity|]. split.
  - cbn. left. reflexivity.
  - unfold write_ok. vm_compute. intro H. apply H. reflexivity.
Qed.

(* ... and after that copy its loop makes no progress any more (cursor 8 beyond a 0-byte buffer): no fuel suffices *)
Theorem recv_f3_spins_proof : feed false g_nolim (fun _ => false) g_init glog0 [f3_header] = None.
Proof. vm_compute. reflexivity. Qed.
