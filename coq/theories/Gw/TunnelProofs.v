(* C12 -- proofs about the PacketTunnelIOGateway model (Gw/Tunnel.v). *)
From Coq Require Import List Arith NArith Bool Lia.
From Coq Require Import Strings.Byte.
From Muscle Require Import Common.LE Gen.Consts Gw.Tunnel.
Import ListNotations.
Local Open Scope N_scope.

(* side conditions on the translated constants: a changed constant re-checks these *)
Lemma FHS_val : FHS = 24.
Proof. reflexivity. Qed.

Lemma lenN_enc_frag f : lenN (enc_frag f) = FHS + lenN (f_data f).
Proof. unfold enc_frag. rewrite !lenN_app, !lenN_le32, FHS_val. lia. Qed.
