(* C12 -- proofs about the PacketTunnelIOGateway model (Gw/Tunnel.v), part 1:
   constants, the wire codec (parse o encode), the receive-state table seen from one source. *)
From Coq Require Import List Arith NArith Bool Lia.
From Coq Require Import Strings.Byte.
From Muscle Require Import Common.LE Gen.Consts Gw.Tunnel.
Import ListNotations.
Local Open Scope N_scope.

(* ------------------------------------------------------------------ translated constants *)

(* side conditions on the translated constants: a changed constant re-checks these *)
Lemma FHS_val : FHS = 24.
Proof. reflexivity. Qed.

Lemma MAX_STATES_pos : 0 < MAX_STATES.
Proof. reflexivity. Qed.

Lemma lenN_enc_frag f : lenN (enc_frag f) = FHS + lenN (f_data f).
Proof. unfold enc_frag. rewrite !lenN_app, !lenN_le32, FHS_val. lia. Qed.

Lemma clamp_mtu_gt m : FHS < clamp_mtu m.
Proof. unfold clamp_mtu. lia. Qed.

(* ------------------------------------------------------------------ small list facts *)

Lemma lenN_length {A} (l : list A) : N.to_nat (lenN l) = length l.
Proof. unfold lenN. apply Nat2N.id. Qed.

Lemma takeN_app_le {A} n (a b : list A) : n <= lenN a -> takeN n (a ++ b) = takeN n a.
Proof.
  unfold takeN, lenN. intros H. rewrite firstn_app.
  replace (N.to_nat n - length a)%nat with 0%nat by lia. cbn. apply app_nil_r.
Qed.

Lemma takeN_app_ge {A} n (a b : list A) : lenN a <= n -> takeN n (a ++ b) = a ++ takeN (n - lenN a) b.
Proof.
  unfold takeN, lenN. intros H. rewrite firstn_app.
  rewrite firstn_all2 by lia. f_equal. f_equal. lia.
Qed.

Lemma dropN_app_ge {A} n (a b : list A) : lenN a <= n -> dropN n (a ++ b) = dropN (n - lenN a) b.
Proof.
  unfold dropN, lenN. intros H. rewrite skipn_app.
  rewrite skipn_all2 by lia. cbn. f_equal. lia.
Qed.

Lemma takeN_takeN {A} a b (l : list A) : takeN a (takeN b l) = takeN (N.min a b) l.
Proof. unfold takeN. rewrite firstn_firstn. f_equal. lia. Qed.

Lemma takeN_add {A} a b (l : list A) : takeN (a + b) l = takeN a l ++ takeN b (dropN a l).
Proof.
  unfold takeN, dropN. rewrite N2Nat.inj_add.
  rewrite <- (firstn_skipn (N.to_nat a) l) at 1.
  rewrite firstn_app. rewrite firstn_length.
  destruct (Nat.le_gt_cases (N.to_nat a) (length l)) as [H|H].
  - rewrite Nat.min_l by lia.
    replace (N.to_nat a + N.to_nat b - N.to_nat a)%nat with (N.to_nat b) by lia.
    rewrite firstn_all2; [reflexivity|]. rewrite firstn_length. lia.
  - rewrite (skipn_all2 l) by lia. rewrite !firstn_nil, !app_nil_r.
    rewrite !firstn_all2; try reflexivity; try lia. rewrite firstn_length. lia.
Qed.

Lemma lenN_repeat {A} (x : A) n : lenN (repeat x n) = N.of_nat n.
Proof. unfold lenN. now rewrite repeat_length. Qed.

Lemma lenN_junk n : lenN (junk n) = n.
Proof. unfold junk. rewrite lenN_repeat. apply N2Nat.id. Qed.

Lemma list_eq_of_takeN {A} (a b : list A) : lenN a = lenN b -> takeN (lenN a) a = takeN (lenN a) b -> a = b.
Proof.
  intros HL HT. rewrite takeN_all in HT by lia. rewrite HL in HT. rewrite takeN_all in HT by lia. exact HT.
Qed.

(* ------------------------------------------------------------------ wire codec *)

Definition wire_ok (f : frag) : Prop :=
  f_magic f < two32 /\ f_sex f < two32 /\ f_id f < two32 /\ f_off f < two32
  /\ f_total f < two32 /\ lenN (f_data f) < two32.

Definition sex_ok (rc : rcfg) (sex : N) : bool := (rc_sex rc =? 0) || negb (rc_sex rc =? sex).

(* what the fragment loop makes of a packet that really is a sequence of encoded fragments *)
Fixpoint accepted (rc : rcfg) (fs : list frag) : list frag :=
  match fs with
  | [] => []
  | f :: fs' =>
      if (f_magic f =? rc_magic rc) && sex_ok rc (f_sex f) then
        if f_total f <=? rc_max_in rc then f :: accepted rc fs' else accepted rc fs'
      else []
  end.

Lemma enc_frags_cons f fs : enc_frags (f :: fs) = enc_frag f ++ enc_frags fs.
Proof. reflexivity. Qed.

Lemma enc_frags_app a b : enc_frags (a ++ b) = enc_frags a ++ enc_frags b.
Proof. unfold enc_frags. now rewrite map_app, concat_app. Qed.

Lemma length_enc_frags fs : (length fs <= length (enc_frags fs))%nat.
Proof.
  induction fs as [|f fs IH]; [cbn; lia|].
  rewrite enc_frags_cons, app_length. cbn [length].
  pose proof (lenN_enc_frag f) as H. unfold lenN in H. rewrite FHS_val in H. lia.
Qed.

(* one iteration of the fragment loop on an encoded fragment followed by anything *)
Lemma parse_step fuel rc f tail :
  wire_ok f ->
  parse (S fuel) rc (enc_frag f ++ tail) =
    if (f_magic f =? rc_magic rc) && sex_ok rc (f_sex f) then
      if f_total f <=? rc_max_in rc then f :: parse fuel rc tail else parse fuel rc tail
    else [].
Proof.
  intros (Hm & Hs & Hi & Ho & Ht & Hd).
  cbn [parse].
  assert (HL : (FHS <=? lenN (enc_frag f ++ tail)) = true).
  { apply N.leb_le. rewrite lenN_app, lenN_enc_frag. lia. }
  rewrite HL. unfold enc_frag. rewrite <- !app_assoc.
  rewrite rd32_le32. rewrite rd32_le32. rewrite rd32_le32. rewrite rd32_le32. rewrite rd32_le32. rewrite rd32_le32.
  rewrite !u32_small by assumption.
  unfold frag_ok. fold (sex_ok rc (f_sex f)).
  assert (HC : (lenN (f_data f) <=? lenN (f_data f ++ tail)) = true).
  { apply N.leb_le. rewrite lenN_app. lia. }
  rewrite HC, andb_true_r.
  rewrite takeN_app_exact, dropN_app_exact.
  destruct f as [mg sx id off tot dat]; cbn [f_magic f_sex f_id f_off f_total f_data]. reflexivity.
Qed.

Lemma parse_nil fuel rc : parse fuel rc [] = [].
Proof. destruct fuel; reflexivity. Qed.

Lemma parse_enc rc fs : forall fuel,
  Forall wire_ok fs -> (length fs <= fuel)%nat ->
  parse fuel rc (enc_frags fs) = accepted rc fs.
Proof.
  induction fs as [|f fs IH]; intros fuel HW HF.
  - cbn. apply parse_nil.
  - destruct fuel as [|fuel]; [cbn in HF; lia|].
    inversion HW as [|? ? Hf Hfs]; subst.
    rewrite enc_frags_cons, parse_step by assumption.
    cbn [accepted]. cbn [length] in HF.
    rewrite IH by (assumption || lia). reflexivity.
Qed.

(* a receiver with a smaller MTU sees only a prefix of the datagram: it still extracts nothing but
   fragments that were put there (a cut-off fragment fails the "chunk fits" test and ends the loop) *)
Definition hdr_of (f : frag) : list byte :=
  le32 (f_magic f) ++ le32 (f_sex f) ++ le32 (f_id f) ++ le32 (f_off f)
  ++ le32 (lenN (f_data f)) ++ le32 (f_total f).

Lemma enc_frag_hdr f : enc_frag f = hdr_of f ++ f_data f.
Proof. unfold enc_frag, hdr_of. now rewrite <- !app_assoc. Qed.

Lemma lenN_hdr_of f : lenN (hdr_of f) = FHS.
Proof. unfold hdr_of. rewrite !lenN_app, !lenN_le32, FHS_val. reflexivity. Qed.

Lemma parse_cut fuel rc f d' :
  wire_ok f -> lenN d' < lenN (f_data f) -> parse fuel rc (hdr_of f ++ d') = [].
Proof.
  intros (Hm & Hs & Hi & Ho & Ht & Hd) Hshort. destruct fuel as [|fuel]; [reflexivity|].
  cbn [parse].
  destruct (FHS <=? lenN (hdr_of f ++ d')); [|reflexivity].
  unfold hdr_of. rewrite <- !app_assoc.
  rewrite rd32_le32. rewrite rd32_le32. rewrite rd32_le32. rewrite rd32_le32. rewrite rd32_le32. rewrite rd32_le32.
  rewrite !u32_small by assumption. unfold frag_ok.
  assert (HC : (lenN (f_data f) <=? lenN d') = false) by (apply N.leb_gt; exact Hshort).
  rewrite HC, andb_false_r. reflexivity.
Qed.

Lemma parse_short fuel rc bs : lenN bs < FHS -> parse fuel rc bs = [].
Proof.
  intros H. destruct fuel as [|fuel]; [reflexivity|]. cbn [parse].
  assert (E : (FHS <=? lenN bs) = false) by (apply N.leb_gt; exact H). now rewrite E.
Qed.

Lemma parse_truncated_Forall (P : frag -> Prop) rc fs : forall fuel k,
  Forall wire_ok fs -> Forall P fs -> Forall P (parse fuel rc (takeN k (enc_frags fs))).
Proof.
  induction fs as [|f fs IH]; intros fuel k HW HP.
  - unfold takeN. cbn [enc_frags map concat]. rewrite firstn_nil, parse_nil. constructor.
  - inversion HW as [|? ? Hf Hfs]; subst. inversion HP as [|? ? Pf Pfs]; subst.
    rewrite enc_frags_cons.
    destruct (N.le_gt_cases (lenN (enc_frag f)) k) as [Hk|Hk].
    + rewrite takeN_app_ge by exact Hk.
      destruct fuel as [|fuel]; [constructor|].
      rewrite parse_step by exact Hf.
      destruct ((f_magic f =? rc_magic rc) && sex_ok rc (f_sex f)); [|constructor].
      destruct (f_total f <=? rc_max_in rc); [constructor; [exact Pf|]|]; now apply IH.
    + rewrite takeN_app_le by lia.
      rewrite lenN_enc_frag in Hk.
      destruct (N.lt_ge_cases k FHS) as [Hk2|Hk2].
      * rewrite parse_short; [constructor|]. rewrite lenN_takeN. lia.
      * rewrite enc_frag_hdr. rewrite takeN_app_ge by (rewrite lenN_hdr_of; exact Hk2).
        rewrite parse_cut; [constructor|exact Hf|]. rewrite lenN_takeN, lenN_hdr_of. lia.
Qed.

(* a datagram that does not start with our magic (or is too short to have one) yields no fragment *)
Definition foreign (magic : N) (p : packet) : Prop := first_word_is magic p = false.

Lemma parse_foreign fuel rc bs : first_word_is (rc_magic rc) bs = false -> parse fuel rc bs = [].
Proof.
  intros H. destruct fuel as [|fuel]; [reflexivity|]. cbn [parse].
  destruct (FHS <=? lenN bs); [|reflexivity].
  unfold first_word_is in H.
  destruct (rd32 bs) as [[magic b1]|]; [|reflexivity].
  destruct (rd32 b1) as [[sex b2]|]; [|reflexivity].
  destruct (rd32 b2) as [[id b3]|]; [|reflexivity].
  destruct (rd32 b3) as [[off b4]|]; [|reflexivity].
  destruct (rd32 b4) as [[csz b5]|]; [|reflexivity].
  destruct (rd32 b5) as [[total b6]|]; [|reflexivity].
  unfold frag_ok. rewrite H. reflexivity.
Qed.

Lemma first_word_takeN magic n p : 4 <= n -> first_word_is magic (takeN n p) = first_word_is magic p.
Proof.
  intros Hn. unfold first_word_is, takeN.
  destruct p as [|b0 [|b1 [|b2 [|b3 r]]]].
  - now rewrite firstn_nil.
  - rewrite firstn_all2 by (cbn; lia). reflexivity.
  - rewrite firstn_all2 by (cbn; lia). reflexivity.
  - rewrite firstn_all2 by (cbn; lia). reflexivity.
  - destruct (N.to_nat n) as [|[|[|[|k]]]] eqn:E; try lia. cbn [firstn rd32]. reflexivity.
Qed.

(* ------------------------------------------------------------------ the table seen from one source *)

Definition tbl_wf (t : table) : Prop := NoDup (map fst t).

(* the evolution of one source's receive state, without the table around it *)
Definition rs_step (o : option rstate) (f : frag) : option rstate * list msg :=
  match o with
  | Some rs => let '(rs', out) := accept (restart_if_new rs f) f in (Some rs', out)
  | None =>
      if f_off f =? 0 then
        let '(rs', out) := accept (mkR (f_id f) 0 (junk (f_total f))) f in (Some rs', out)
      else (None, [])
  end.

Fixpoint rs_steps (o : option rstate) (fs : list frag) : option rstate * list msg :=
  match fs with
  | [] => (o, [])
  | f :: fs' =>
      let '(o1, out1) := rs_step o f in
      let '(o2, out2) := rs_steps o1 fs' in (o2, out1 ++ out2)
  end.

Lemma tbl_find_app a t1 t2 :
  tbl_find a (t1 ++ t2) = match tbl_find a t1 with Some rs => Some rs | None => tbl_find a t2 end.
Proof.
  induction t1 as [|[b rs] t1 IH]; [reflexivity|]. cbn [app tbl_find].
  destruct (a =? b); [reflexivity|exact IH].
Qed.

Lemma tbl_find_none_iff a t : tbl_find a t = None <-> ~ In a (map fst t).
Proof.
  induction t as [|[b rs] t IH]; cbn [tbl_find map fst In].
  - tauto.
  - destruct (N.eqb_spec a b) as [E|E].
    + subst. split; [discriminate|]. intros H. exfalso. apply H. now left.
    + rewrite IH. split; intros H; [intros [H1|H1]; [congruence|tauto]|tauto].
Qed.

Lemma tbl_remove_keys_incl a t b : In b (map fst (tbl_remove a t)) -> In b (map fst t).
Proof.
  induction t as [|[c rs] t IH]; cbn [tbl_remove map fst In]; [tauto|].
  destruct (a =? c); cbn [map fst In]; tauto.
Qed.

Lemma tbl_remove_wf a t : tbl_wf t -> tbl_wf (tbl_remove a t).
Proof.
  unfold tbl_wf. induction t as [|[c rs] t IH]; cbn [tbl_remove map fst]; intros H; [exact H|].
  inversion H as [|? ? Hn Hd]; subst.
  destruct (a =? c); [exact Hd|]. cbn [map fst]. constructor; [|now apply IH].
  intros Hin. apply Hn. eapply tbl_remove_keys_incl; eassumption.
Qed.

Lemma tbl_find_remove_same a t : tbl_wf t -> tbl_find a (tbl_remove a t) = None.
Proof.
  unfold tbl_wf. induction t as [|[c rs] t IH]; cbn [tbl_remove map fst tbl_find]; intros H; [reflexivity|].
  inversion H as [|? ? Hn Hd]; subst.
  destruct (N.eqb_spec a c) as [E|E].
  - subst. now apply tbl_find_none_iff.
  - cbn [tbl_find]. destruct (N.eqb_spec a c); [congruence|]. now apply IH.
Qed.

Lemma tbl_find_remove_other a b t : a <> b -> tbl_find b (tbl_remove a t) = tbl_find b t.
Proof.
  intros Hab. induction t as [|[c rs] t IH]; cbn [tbl_remove tbl_find]; [reflexivity|].
  destruct (N.eqb_spec a c) as [E|E].
  - subst. destruct (N.eqb_spec b c); [congruence|reflexivity].
  - cbn [tbl_find]. destruct (b =? c); [reflexivity|exact IH].
Qed.

Lemma skipn_keys_incl {A B} n (t : list (A * B)) b : In b (map fst (skipn n t)) -> In b (map fst t).
Proof.
  revert t. induction n as [|n IH]; intros t; [cbn; tauto|].
  destruct t as [|x t]; cbn [skipn map In]; [tauto|]. intros H. right. now apply IH.
Qed.

Lemma skipn_NoDup {A} n (l : list A) : NoDup l -> NoDup (skipn n l).
Proof.
  revert l. induction n as [|n IH]; intros l H; [exact H|].
  destruct l as [|x l]; [exact H|]. cbn [skipn]. inversion H; subst. now apply IH.
Qed.

Lemma tbl_evict_wf t : tbl_wf t -> tbl_wf (tbl_evict t).
Proof.
  unfold tbl_wf, tbl_evict, dropN. intros H. rewrite <- skipn_map. now apply skipn_NoDup.
Qed.

Lemma tbl_evict_find_none a t : tbl_find a t = None -> tbl_find a (tbl_evict t) = None.
Proof.
  rewrite !tbl_find_none_iff. intros H Hin. apply H.
  unfold tbl_evict, dropN in Hin. eapply skipn_keys_incl; eassumption.
Qed.

Lemma tbl_evict_small t : lenN t <= MAX_STATES -> tbl_evict t = t.
Proof. unfold tbl_evict. intros H. replace (lenN t - MAX_STATES) with 0 by lia. apply dropN_0. Qed.

(* eviction keeps an entry or loses it; it never alters one *)
Lemma tbl_evict_find a t : tbl_wf t -> tbl_find a (tbl_evict t) = tbl_find a t \/ tbl_find a (tbl_evict t) = None.
Proof.
  unfold tbl_evict, dropN. generalize (N.to_nat (lenN t - MAX_STATES)) as n.
  intros n. revert t. induction n as [|n IH]; intros t Hwf; [left; reflexivity|].
  destruct t as [|[c rs] t]; [left; reflexivity|].
  cbn [skipn tbl_find]. unfold tbl_wf in Hwf. cbn [map fst] in Hwf. inversion Hwf as [|? ? Hn Hd]; subst.
  destruct (N.eqb_spec a c) as [E|E].
  - subst. right. apply tbl_find_none_iff. intros Hin. apply Hn. eapply skipn_keys_incl; eassumption.
  - now apply IH.
Qed.

Lemma app_keys_wf t a (rs : rstate) : tbl_wf t -> tbl_find a t = None -> tbl_wf (t ++ [(a, rs)]).
Proof.
  unfold tbl_wf. intros Hwf Hn. rewrite map_app. cbn [map fst].
  apply tbl_find_none_iff in Hn.
  induction (map fst t) as [|x l IH]; cbn [app].
  - constructor; [intros []|constructor].
  - inversion Hwf; subst. constructor.
    + rewrite in_app_iff. cbn [In]. intros [H|[H|[]]]; [tauto|]. subst. apply Hn. now left.
    + apply IH; [assumption|]. intros H. apply Hn. now right.
Qed.

(* recv_frag = rs_step on the source's own entry ... *)
Lemma recv_frag_own t a f :
  tbl_wf t ->
  let '(t', out) := recv_frag t a f in
  let '(o', out') := rs_step (tbl_find a t) f in
  tbl_wf t' /\ tbl_find a t' = o' /\ out = out'.
Proof.
  intros Hwf. unfold recv_frag, rs_step.
  destruct (tbl_find a t) as [rs|] eqn:Hf.
  - destruct (accept (restart_if_new rs f) f) as [rs' out] eqn:Ha.
    split; [|split; [|reflexivity]].
    + apply app_keys_wf; [now apply tbl_remove_wf|now apply tbl_find_remove_same].
    + rewrite tbl_find_app, tbl_find_remove_same by assumption. cbn [tbl_find]. now rewrite N.eqb_refl.
  - destruct (f_off f =? 0).
    + destruct (accept (mkR (f_id f) 0 (junk (f_total f))) f) as [rs' out] eqn:Ha.
      split; [|split; [|reflexivity]].
      * apply app_keys_wf; [now apply tbl_evict_wf|now apply tbl_evict_find_none].
      * rewrite tbl_find_app, tbl_evict_find_none by assumption. cbn [tbl_find]. now rewrite N.eqb_refl.
    + split; [now apply tbl_evict_wf|]. split; [now apply tbl_evict_find_none|reflexivity].
Qed.

(* ... and for every other source the entry is kept as it is, or lost (evicted), never altered *)
Lemma recv_frag_other t a b f :
  tbl_wf t -> a <> b ->
  tbl_find b (fst (recv_frag t a f)) = tbl_find b t \/ tbl_find b (fst (recv_frag t a f)) = None.
Proof.
  intros Hwf Hab. unfold recv_frag.
  destruct (tbl_find a t) as [rs|] eqn:Hf.
  - destruct (accept (restart_if_new rs f) f) as [rs' out]. cbn [fst].
    left. rewrite tbl_find_app, tbl_find_remove_other by assumption.
    destruct (tbl_find b t); [reflexivity|]. cbn [tbl_find].
    destruct (N.eqb_spec b a); [congruence|reflexivity].
  - assert (HE : forall t2, tbl_find b t2 = None ->
                 tbl_find b (tbl_evict t ++ t2) = tbl_find b t \/ tbl_find b (tbl_evict t ++ t2) = None).
    { intros t2 H2. rewrite tbl_find_app.
      destruct (tbl_evict_find b t Hwf) as [E|E]; rewrite E.
      - left. destruct (tbl_find b t); [reflexivity|exact H2].
      - right. exact H2. }
    destruct (f_off f =? 0).
    + destruct (accept (mkR (f_id f) 0 (junk (f_total f))) f) as [rs' out]. cbn [fst].
      apply HE. cbn [tbl_find]. destruct (N.eqb_spec b a); [congruence|reflexivity].
    + cbn [fst]. specialize (HE [] eq_refl). now rewrite app_nil_r in HE.
Qed.

Lemma recv_frags_own t a fs :
  tbl_wf t ->
  let '(t', out) := recv_frags t a fs in
  let '(o', out') := rs_steps (tbl_find a t) fs in
  tbl_wf t' /\ tbl_find a t' = o' /\ out = out'.
Proof.
  revert t. induction fs as [|f fs IH]; intros t Hwf.
  - cbn. auto.
  - cbn [recv_frags rs_steps].
    pose proof (recv_frag_own t a f Hwf) as H1.
    destruct (recv_frag t a f) as [t1 o1]. destruct (rs_step (tbl_find a t) f) as [r1 p1].
    destruct H1 as (Hwf1 & Hf1 & Ho1). subst.
    specialize (IH t1 Hwf1).
    destruct (recv_frags t1 a fs) as [t2 o2]. destruct (rs_steps (tbl_find a t1) fs) as [r2 p2].
    destruct IH as (Hwf2 & Hf2 & Ho2). subst. auto.
Qed.

Lemma recv_frags_other t a b fs :
  tbl_wf t -> a <> b ->
  tbl_find b (fst (recv_frags t a fs)) = tbl_find b t \/ tbl_find b (fst (recv_frags t a fs)) = None.
Proof.
  intros Hwf Hab. revert t Hwf. induction fs as [|f fs IH]; intros t Hwf.
  - left. reflexivity.
  - cbn [recv_frags].
    pose proof (recv_frag_own t a f Hwf) as H1.
    pose proof (recv_frag_other t a b f Hwf Hab) as H2.
    destruct (recv_frag t a f) as [t1 o1]. destruct (rs_step (tbl_find a t) f) as [r1 p1].
    destruct H1 as (Hwf1 & _ & _). cbn [fst] in H2.
    specialize (IH t1 Hwf1).
    destruct (recv_frags t1 a fs) as [t2 o2]. cbn [fst] in *.
    destruct IH as [E|E]; [|right; exact E]. rewrite E. exact H2.
Qed.
