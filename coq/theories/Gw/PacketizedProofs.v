(* C12 -- proofs about the PacketizedProxyDataIO model (Gw/Packetized.v): for every way the child
   stream cuts the bytes up, on the writing and on the reading side, the packets come out once each,
   in order, unchanged. *)
From Coq Require Import List Arith NArith Bool Lia.
From Coq Require Import Strings.Byte.
From Muscle Require Import Common.LE Gw.Packetized.
Import ListNotations.
Local Open Scope N_scope.

Lemma lenN_frame p : lenN (frame p) = SZW + lenN p.
Proof. unfold frame. rewrite lenN_app, lenN_le32. reflexivity. Qed.

Lemma frames_cons p ps : frames (p :: ps) = frame p ++ frames ps.
Proof. reflexivity. Qed.

Lemma frames_app a b : frames (a ++ b) = frames a ++ frames b.
Proof. unfold frames. now rewrite map_app, concat_app. Qed.

Lemma skipn_skipn' {A} a : forall b (l : list A), skipn a (skipn b l) = skipn (b + a) l.
Proof.
  induction b as [|b IH]; intros l; [reflexivity|].
  destruct l as [|x l]; cbn [skipn Nat.add]; [now rewrite !skipn_nil|apply IH].
Qed.

Lemma dropN_dropN {A} a b (l : list A) : dropN a (dropN b l) = dropN (b + a) l.
Proof. unfold dropN. rewrite skipn_skipn'. f_equal. lia. Qed.

Lemma dropN_all {A} n (l : list A) : lenN l <= n -> dropN n l = [].
Proof. unfold dropN, lenN. intros. apply skipn_all2. lia. Qed.

Lemma takeN_dropN_split {A} n (l : list A) : l = takeN n l ++ dropN n l.
Proof. symmetry. apply takeN_dropN. Qed.

(* ------------------------------------------------------------------ writer *)

(* the packets a writing session took (Write() returned their size); empty packets are excluded by premise *)
Fixpoint taken (ops : list wop) (rs : list wres) : list (list byte) :=
  match ops, rs with
  | WWrite p _ _ :: ops', WTook n :: rs' => if n =? 0 then taken ops' rs' else p :: taken ops' rs'
  | WWrite _ _ _ :: ops', WErr :: rs' => taken ops' rs'
  | WFlush _ :: ops', _ => taken ops' rs
  | _, _ => []
  end.

Definition pw_ok (st : pwtr) : Prop := pw_sent st <= lenN (pw_buf st) /\ (pw_buf st = [] -> pw_sent st = 0).

(* what is still to go out *)
Definition pw_rest (st : pwtr) : list byte := dropN (pw_sent st) (pw_buf st).

Lemma pw_flush_spec st acc st' out :
  pw_ok st -> pw_flush st acc = (st', out) ->
  pw_ok st' /\ out ++ pw_rest st' = pw_rest st.
Proof.
  intros [Hle Hnil]. unfold pw_flush, pw_rest.
  destruct (pw_sent st <? lenN (pw_buf st)) eqn:Hb.
  - apply N.ltb_lt in Hb.
    set (rest := dropN (pw_sent st) (pw_buf st)).
    assert (Hr : lenN rest = lenN (pw_buf st) - pw_sent st) by (unfold rest; apply lenN_dropN).
    destruct (pw_sent st + N.min acc (lenN rest) =? lenN (pw_buf st)) eqn:Hf; intros E; injection E as <- <-.
    + apply N.eqb_eq in Hf. split; [split; cbn; [change (lenN (@nil byte)) with 0; lia|reflexivity]|].
      cbn [pw_sent pw_buf]. unfold dropN at 1. cbn. rewrite app_nil_r. apply takeN_all. lia.
    + apply N.eqb_neq in Hf. unfold pw_ok. cbn [pw_sent pw_buf]. split.
      * split; [lia|]. intros E. rewrite E in Hb. change (lenN (@nil byte)) with 0 in Hb. lia.
      * unfold rest. rewrite <- dropN_dropN. apply takeN_dropN.
  - intros E. injection E as <- <-. split; [split; assumption|reflexivity].
Qed.

Lemma pw_rest_fresh p : pw_rest (mkPW (frame p) 0) = frame p.
Proof. reflexivity. Qed.

Lemma pw_ok_fresh p : pw_ok (mkPW (frame p) 0).
Proof.
  split; cbn [pw_sent pw_buf]; [lia|]. intros E. exfalso.
  assert (H : lenN (frame p) = 0) by now rewrite E. rewrite lenN_frame in H. unfold SZW in H. lia.
Qed.

Lemma pw_not_buffered_rest st : pw_ok st -> pw_buffered st = false -> pw_rest st = [].
Proof.
  intros [Hle _] Hb. unfold pw_buffered in Hb. apply N.ltb_ge in Hb. unfold pw_rest. apply dropN_all. lia.
Qed.

Lemma pwrite_spec mtu st p a1 a2 st' out r :
  pw_ok st -> 0 < lenN p ->
  pwrite mtu st p a1 a2 = (st', out, r) ->
  pw_ok st' /\
  out ++ pw_rest st' = pw_rest st ++ (match r with WTook n => if n =? 0 then [] else frame p | WErr => [] end)
  /\ (match r with WTook n => n = 0 \/ n = lenN p | WErr => mtu < lenN p end).
Proof.
  intros Hok Hp. unfold pwrite.
  destruct (mtu <? lenN p) eqn:Hm.
  { intros E. injection E as <- <- <-. apply N.ltb_lt in Hm. rewrite !app_nil_r. cbn [app]. auto. }
  assert (Hnz : (lenN p =? 0) = false) by (apply N.eqb_neq; lia).
  destruct (pw_buffered st) eqn:Hb.
  - destruct (pw_flush st a1) as [st1 o1] eqn:E1.
    destruct (pw_flush_spec _ _ _ _ Hok E1) as [Hok1 Ho1].
    destruct (pw_buffered st1) eqn:Hb1.
    + intros E. injection E as <- <- <-. cbn [N.eqb]. rewrite app_nil_r. auto.
    + destruct (pw_flush (mkPW (frame p) 0) a2) as [st2 o2] eqn:E2.
      destruct (pw_flush_spec _ _ _ _ (pw_ok_fresh p) E2) as [Hok2 Ho2].
      intros E. injection E as <- <- <-. rewrite Hnz. split; [exact Hok2|]. split; [|now right].
      rewrite <- app_assoc, Ho2, pw_rest_fresh, <- Ho1.
      now rewrite (pw_not_buffered_rest st1 Hok1 Hb1), app_nil_r.
  - destruct (pw_flush (mkPW (frame p) 0) a1) as [st1 o1] eqn:E1.
    destruct (pw_flush_spec _ _ _ _ (pw_ok_fresh p) E1) as [Hok1 Ho1].
    intros E. injection E as <- <- <-. rewrite Hnz. split; [exact Hok1|]. split; [|now right].
    now rewrite Ho1, pw_rest_fresh, (pw_not_buffered_rest st Hok Hb).
Qed.

Fixpoint wops_nonempty (ops : list wop) : Prop :=
  match ops with
  | [] => True
  | WWrite p _ _ :: ops' => 0 < lenN p /\ wops_nonempty ops'
  | WFlush _ :: ops' => wops_nonempty ops'
  end.

(* Writing side: whatever the child took, plus what is still buffered, is exactly the framing of the
   packets that Write() accepted, in order -- for every acceptance pattern of the child. *)
Theorem packetized_write_stream mtu : forall ops st st' out rs,
  pw_ok st -> wops_nonempty ops ->
  pwrites mtu st ops = (st', out, rs) ->
  pw_ok st' /\ out ++ pw_rest st' = pw_rest st ++ frames (taken ops rs).
Proof.
  induction ops as [|o ops IH]; intros st st' out rs Hok Hne; cbn [pwrites].
  - intros E. injection E as <- <- <-. cbn. rewrite app_nil_r. auto.
  - destruct o as [p a1 a2|acc]; cbn [wops_nonempty] in Hne.
    + destruct Hne as [Hp Hne].
      destruct (pwrite mtu st p a1 a2) as [[st1 o1] r] eqn:E1.
      destruct (pwrites mtu st1 ops) as [[st2 o2] rs2] eqn:E2.
      intros E. injection E as <- <- <-.
      destruct (pwrite_spec _ _ _ _ _ _ _ _ Hok Hp E1) as (Hok1 & Ho1 & Hr).
      destruct (IH _ _ _ _ Hok1 Hne E2) as (Hok2 & Ho2).
      split; [exact Hok2|]. rewrite <- app_assoc, Ho2, app_assoc, Ho1, <- app_assoc. f_equal.
      cbn [taken]. destruct r as [n|]; [|reflexivity].
      destruct (n =? 0); [reflexivity|]. now rewrite frames_cons.
    + destruct (pw_flush st acc) as [st1 o1] eqn:E1.
      destruct (pwrites mtu st1 ops) as [[st2 o2] rs2] eqn:E2.
      intros E. injection E as <- <- <-.
      destruct (pw_flush_spec _ _ _ _ Hok E1) as [Hok1 Ho1].
      destruct (IH _ _ _ _ Hok1 Hne E2) as (Hok2 & Ho2).
      split; [exact Hok2|]. rewrite <- app_assoc, Ho2, app_assoc, Ho1. reflexivity.
Qed.

(* ------------------------------------------------------------------ reader *)

(* reader state st together with the unread stream stands for the packets ps still to be handed over *)
Definition rep (st : prdr) (stream : list byte) (ps : list (list byte)) : Prop :=
  pr_err st = false /\
  ((lenN (pr_hdr st) < SZW /\ pr_size st = 0 /\ pr_data st = [] /\ pr_hdr st ++ stream = frames ps)
   \/
   (exists p ps', ps = p :: ps' /\ pr_hdr st = le32 (lenN p) /\ pr_size st = lenN p
                  /\ lenN (pr_data st) < lenN p /\ pr_data st ++ stream = p ++ frames ps')).

Definition pkt_ok (mtu : N) (p : list byte) : Prop := 0 < lenN p /\ lenN p <= mtu.

Lemma rep_init ps : rep pr_init (frames ps) ps.
Proof. split; [reflexivity|]. left. cbn. repeat split; unfold SZW; lia. Qed.

Lemma takeN_app_le' {A} n (a b : list A) : n <= lenN a -> takeN n (a ++ b) = takeN n a.
Proof.
  unfold takeN, lenN. intros H. rewrite firstn_app.
  replace (N.to_nat n - length a)%nat with 0%nat by lia. cbn. apply app_nil_r.
Qed.

Lemma dropN_app_le {A} n (a b : list A) : n <= lenN a -> dropN n (a ++ b) = dropN n a ++ b.
Proof.
  unfold dropN, lenN. intros H. rewrite skipn_app.
  replace (N.to_nat n - length a)%nat with 0%nat by lia. reflexivity.
Qed.

Lemma app_eq_prefix {A} (a b c d : list A) : a ++ b = c ++ d -> lenN a <= lenN c -> exists e, c = a ++ e /\ b = e ++ d.
Proof.
  revert c. induction a as [|x a IH]; intros c E H.
  - exists c. auto.
  - destruct c as [|y c]; [rewrite lenN_cons, lenN_nil in H; lia|].
    cbn [app] in E. injection E as -> E. rewrite !lenN_cons in H.
    destruct (IH c E ltac:(lia)) as (e & -> & ->). exists e. auto.
Qed.

(* one Read(): hands over nothing and stays in step, or hands over the next packet *)
Lemma pread_spec mtu st u stream a1 a2 ps st' stream' r :
  mtu < two32 -> Forall (pkt_ok mtu) ps -> mtu <= u ->
  rep st stream ps ->
  pread mtu st u stream a1 a2 = (st', stream', r) ->
  (r = Some [] /\ rep st' stream' ps)
  \/ (exists p ps', ps = p :: ps' /\ r = Some p /\ rep st' stream' ps').
Proof.
  intros Hmtu Hps Hu [Herr Hrep]. unfold pread. rewrite Herr.
  (* phase 1 *)
  assert (P1 : exists st1 stream1, pread_hdr mtu st stream a1 = (st1, stream1, false) /\ rep st1 stream1 ps).
  { unfold pread_hdr. destruct (lenN (pr_hdr st) <? SZW) eqn:Hh.
    2:{ exists st, stream. split; [reflexivity|split; assumption]. }
    apply N.ltb_lt in Hh.
    destruct Hrep as [(_ & Hsz & Hdat & Hfr)|(p & ps' & _ & Hhd & _)].
    2:{ rewrite Hhd, lenN_le32 in Hh. unfold SZW in Hh. lia. }
    cbv zeta. set (n := N.min a1 (SZW - lenN (pr_hdr st))).
    destruct (lenN (pr_hdr st ++ takeN n stream) =? SZW) eqn:Hfull.
    - apply N.eqb_eq in Hfull.
      (* the four bytes are the size word of the next packet *)
      destruct ps as [|p ps'].
      { exfalso. cbn in Hfr. apply app_eq_nil in Hfr as [E1 E2]. rewrite E1, E2 in Hfull.
        unfold takeN in Hfull. rewrite firstn_nil in Hfull. cbn in Hfull. unfold SZW in Hfull. lia. }
      rewrite frames_cons in Hfr. unfold frame in Hfr. rewrite <- app_assoc in Hfr.
      assert (Hhdr : pr_hdr st ++ takeN n stream = le32 (lenN p) /\ dropN n stream = p ++ frames ps').
      { rewrite (takeN_dropN_split n stream) in Hfr at 1. rewrite app_assoc in Hfr.
        destruct (app_eq_prefix _ _ _ _ Hfr) as (e & E1 & E2); [rewrite Hfull, lenN_le32; unfold SZW; lia|].
        assert (e = []).
        { apply lenN_0_nil. assert (H4 : lenN (le32 (lenN p)) = 4) by apply lenN_le32.
          rewrite E1, lenN_app, Hfull in H4. unfold SZW in H4. lia. }
        subst e. rewrite app_nil_r in E1. cbn [app] in E2. auto. }
      destruct Hhdr as [Hh1 Hh2]. rewrite Hh1.
      inversion Hps as [|? ? [Hp0 Hpm] Hps']; subst.
      rewrite <- (app_nil_r (le32 (lenN p))), rd32_le32, u32_small by (unfold two32 in *; lia).
      assert (E1 : (mtu <? lenN p) = false) by (apply N.ltb_ge; lia).
      assert (E2 : (lenN p =? 0) = false) by (apply N.eqb_neq; lia).
      rewrite E1, E2. eexists _, _. split; [reflexivity|].
      split; [reflexivity|]. right. exists p, ps'. cbn [pr_hdr pr_size pr_data].
      rewrite app_nil_r. repeat split; try assumption; try reflexivity; change (lenN (@nil byte)) with 0; lia.
    - apply N.eqb_neq in Hfull. eexists _, _. split; [reflexivity|].
      split; [reflexivity|]. left. cbn [pr_hdr pr_size pr_data].
      assert (Hlen : lenN (pr_hdr st ++ takeN n stream) <= SZW).
      { rewrite lenN_app, lenN_takeN. subst n. lia. }
      repeat split; try assumption; [lia|].
      rewrite <- app_assoc, takeN_dropN. exact Hfr. }
  destruct P1 as (st1 & stream1 & -> & [Herr1 Hrep1]).
  (* phase 2 *)
  destruct ((lenN (pr_hdr st1) =? SZW) && (lenN (pr_data st1) <? pr_size st1)) eqn:Hph.
  2:{ intros E. injection E as <- <- <-. left. split; [reflexivity|split; assumption]. }
  apply andb_prop in Hph as [Hh4 Hlt]. apply N.eqb_eq in Hh4. apply N.ltb_lt in Hlt.
  destruct Hrep1 as [(Hh & _)|(p & ps' & -> & Hhd & Hsz & Hdl & Hfr)]; [lia|].
  cbv zeta. set (n := N.min a2 (pr_size st1 - lenN (pr_data st1))).
  rewrite Hsz in *.
  assert (Hpre : exists e, p = (pr_data st1 ++ takeN n stream1) ++ e /\ dropN n stream1 = e ++ frames ps').
  { rewrite (takeN_dropN_split n stream1) in Hfr at 1. rewrite app_assoc in Hfr.
    apply app_eq_prefix; [exact Hfr|]. rewrite lenN_app, lenN_takeN. subst n. lia. }
  destruct Hpre as (e & Ep & Es).
  destruct (lenN (pr_data st1 ++ takeN n stream1) =? lenN p) eqn:Hfin; intros E; injection E as <- <- <-.
  - apply N.eqb_eq in Hfin. right. exists p, ps'.
    assert (e = []).
    { apply lenN_0_nil. assert (H : lenN p = lenN ((pr_data st1 ++ takeN n stream1) ++ e)) by now rewrite <- Ep.
      rewrite lenN_app in H. lia. }
    subst e. rewrite app_nil_r in Ep. cbn [app] in Es.
    assert (Hpk : pkt_ok mtu p) by (inversion Hps; assumption). destruct Hpk as [Hp0 Hpm].
    split; [reflexivity|]. split; [rewrite <- Ep, takeN_all by lia; reflexivity|].
    split; [reflexivity|]. left. cbn [pr_hdr pr_size pr_data]. split; [unfold SZW; change (lenN (@nil byte)) with 0; lia|]. split; [reflexivity|]. split; [reflexivity|exact Es].
  - apply N.eqb_neq in Hfin. left. split; [reflexivity|]. split; [reflexivity|]. right.
    exists p, ps'. cbn [pr_hdr pr_size pr_data]. repeat split; try assumption.
    + assert (H : lenN p = lenN ((pr_data st1 ++ takeN n stream1) ++ e)) by now rewrite <- Ep.
      rewrite lenN_app in H. lia.
    + rewrite Es, app_assoc, <- Ep. reflexivity.
Qed.

(* the packets a reading session handed over *)
Fixpoint handed (rs : list (option (list byte))) : list (list byte) :=
  match rs with
  | [] => []
  | Some [] :: rs' => handed rs'
  | Some p :: rs' => p :: handed rs'
  | None :: rs' => handed rs'
  end.

(* Reading side: whatever way the stream arrives, no Read() fails, and the packets handed over are the
   framed packets, in order, unchanged, none skipped, none repeated; those not yet handed over are still
   represented by the reader state and the unread stream. *)
Theorem packetized_read_stream mtu : forall script ps st stream st' stream' rs,
  mtu < two32 -> Forall (pkt_ok mtu) ps -> Forall (fun x => mtu <= fst (fst x)) script ->
  rep st stream ps ->
  preads mtu st stream script = (st', stream', rs) ->
  Forall (fun r => r <> None) rs
  /\ exists ps', ps = handed rs ++ ps' /\ rep st' stream' ps'.
Proof.
  induction script as [|[[u a1] a2] script IH]; intros ps st stream st' stream' rs Hmtu Hps Hsc Hrep; cbn [preads].
  - intros E. injection E as <- <- <-. split; [constructor|]. exists ps. auto.
  - inversion Hsc as [|? ? Hu Hsc']; subst. cbn [fst] in Hu.
    destruct (pread mtu st u stream a1 a2) as [[st1 stream1] r] eqn:E1.
    destruct (preads mtu st1 stream1 script) as [[st2 stream2] rs2] eqn:E2.
    intros E. injection E as <- <- <-.
    destruct (pread_spec _ _ _ _ _ _ _ _ _ _ Hmtu Hps Hu Hrep E1) as [[-> Hrep1]|(p & ps1 & -> & -> & Hrep1)].
    + destruct (IH _ _ _ _ _ _ Hmtu Hps Hsc' Hrep1 E2) as [Hne (ps' & Hd & Hr)].
      split; [constructor; [discriminate|exact Hne]|]. exists ps'. cbn [handed]. auto.
    + inversion Hps as [|? ? [Hp0 _] Hps1]; subst.
      destruct (IH _ _ _ _ _ _ Hmtu Hps1 Hsc' Hrep1 E2) as [Hne (ps' & Hd & Hr)].
      split; [constructor; [discriminate|exact Hne]|]. exists ps'. split; [|exact Hr].
      cbn [handed]. destruct p as [|b p]; [cbn in Hp0; lia|]. cbn [app]. now rewrite Hd.
Qed.

(* when the stream has been read to its end and no packet is half-read, every packet has been handed over *)
Lemma rep_exhausted st ps : rep st [] ps -> pr_hdr st = [] -> ps = [].
Proof.
  intros [_ [(_ & _ & _ & Hfr)|(p & ps' & _ & Hhd & _)]] Hh.
  - rewrite Hh in Hfr. cbn in Hfr. destruct ps as [|p ps]; [reflexivity|].
    exfalso. assert (H : lenN (frames (p :: ps)) = 0) by now rewrite <- Hfr.
    rewrite frames_cons, lenN_app, lenN_frame in H. unfold SZW in H. lia.
  - exfalso. rewrite Hh in Hhd. assert (H : lenN (le32 (lenN p)) = 0) by now rewrite <- Hhd.
    rewrite lenN_le32 in H. lia.
Qed.

(* End to end: the packets Write() accepted, once the writer has nothing buffered and the reader has read
   the stream to its end with no packet half-read, are exactly the packets Read() handed over. *)
Theorem packetized_transport_perfect :
  forall mtu wops wst out wrs script rst rest rrs,
    mtu < two32 -> wops_nonempty wops ->
    Forall (fun x => mtu <= fst (fst x)) script ->
    pwrites mtu pw_init wops = (wst, out, wrs) ->
    pw_buffered wst = false ->
    preads mtu pr_init out script = (rst, rest, rrs) ->
    rest = [] -> pr_hdr rst = [] ->
    handed rrs = taken wops wrs /\ Forall (fun r => r <> None) rrs.
Proof.
  intros mtu wops wst out wrs script rst rest rrs Hmtu Hne Hsc Hw Hnb Hr -> Hh.
  assert (Hok0 : pw_ok pw_init) by (split; cbn; [lia|reflexivity]).
  destruct (packetized_write_stream mtu wops pw_init wst out wrs Hok0 Hne Hw) as [Hok Hout].
  rewrite (pw_not_buffered_rest wst Hok Hnb), app_nil_r in Hout. cbn [pw_rest pw_init pw_sent pw_buf] in Hout.
  unfold dropN in Hout. cbn [N.to_nat skipn app] in Hout.
  (* every packet taken is non-empty and within the MTU *)
  assert (Htk : Forall (pkt_ok mtu) (taken wops wrs)).
  { clear - Hw Hne Hok0. revert wst out wrs Hw Hne. generalize pw_init as st0, Hok0.
    induction wops as [|o ops IH]; intros st0 Hok wst out wrs; cbn [pwrites].
    - intros E _. injection E as <- <- <-. constructor.
    - destruct o as [p a1 a2|acc]; cbn [wops_nonempty].
      + destruct (pwrite mtu st0 p a1 a2) as [[st1 o1] r] eqn:E1.
        destruct (pwrites mtu st1 ops) as [[st2 o2] rs2] eqn:E2.
        intros E [Hp Hne']. injection E as <- <- <-.
        destruct (pwrite_spec _ _ _ _ _ _ _ _ Hok Hp E1) as (Hok1 & _ & Hr).
        specialize (IH st1 Hok1 _ _ _ E2 Hne'). cbn [taken]. destruct r as [n|]; [|exact IH].
        destruct (n =? 0) eqn:Hn; [exact IH|]. constructor; [|exact IH].
        split; [exact Hp|]. unfold pwrite in E1. destruct (mtu <? lenN p) eqn:Hm; [injection E1 as _ _ E; discriminate|].
        apply N.ltb_ge in Hm. exact Hm.
      + destruct (pw_flush st0 acc) as [st1 o1] eqn:E1.
        destruct (pwrites mtu st1 ops) as [[st2 o2] rs2] eqn:E2.
        intros E Hne'. injection E as <- <- <-.
        destruct (pw_flush_spec _ _ _ _ Hok E1) as [Hok1 _].
        cbn [taken]. exact (IH st1 Hok1 _ _ _ E2 Hne'). }
  rewrite Hout in Hr.
  destruct (packetized_read_stream mtu script _ _ _ _ _ _ Hmtu Htk Hsc (rep_init _) Hr) as [Hnone (ps' & Hd & Hrep)].
  apply rep_exhausted in Hrep; [|exact Hh]. subst ps'. rewrite app_nil_r in Hd. auto.
Qed.

(* non-vacuity: a busy writer (second Write returns 0 and is retried), partial flushes, a reader fed a few bytes at a time *)
Example packetized_nontrivial :
  let wops := [WWrite [x01; x02; x03] 2 0; WWrite [x09] 1 9; WWrite [x09] 9 9; WFlush 99] in
  let script := [(8, 3, 9); (8, 0, 0); (8, 1, 1); (8, 9, 2); (8, 9, 9); (8, 9, 9)] in
  let '(wst, out, wrs) := pwrites 8 pw_init wops in
  let '(rst, rest, rrs) := preads 8 pr_init out script in
  wops_nonempty wops /\ pw_buffered wst = false /\ rest = [] /\ pr_hdr rst = []
  /\ wrs = [WTook 3; WTook 0; WTook 1] /\ handed rrs = [[x01; x02; x03]; [x09]].
Proof. vm_compute. repeat split; reflexivity. Qed.

(* ------------------------------------------------------------------ progress: the end of the stream is reached *)

Ltac split_pread E :=
  repeat first
    [ progress cbv beta iota zeta in E
    | match type of E with
      | context [if ?c then _ else _] => destruct c
      | context [match ?c with Some _ => _ | None => _ end] => destruct c as [[? ?]|]
      end ].

(* Read() only ever removes bytes from the front of the stream *)
Lemma pread_shrinks mtu st u stream a1 a2 st' stream' r :
  pread mtu st u stream a1 a2 = (st', stream', r) -> lenN stream' <= lenN stream.
Proof.
  unfold pread, pread_hdr. intros E. split_pread E; injection E as _ <- _; rewrite ?lenN_dropN; lia.
Qed.

(* a Read() that finds bytes available on both of its child reads consumes at least one byte *)
Lemma pread_progress mtu st u stream a1 a2 ps st' stream' r :
  rep st stream ps -> 0 < a1 -> 0 < a2 -> stream <> [] ->
  pread mtu st u stream a1 a2 = (st', stream', r) ->
  lenN stream' < lenN stream.
Proof.
  intros [Herr Hrep] Ha1 Ha2 Hne. unfold pread. rewrite Herr.
  assert (Hpos : 0 < lenN stream) by (destruct stream; [congruence|rewrite lenN_cons; lia]).
  destruct (lenN (pr_hdr st) <? SZW) eqn:Hh.
  - (* the size word is incomplete: the first child read takes at least one byte; the second read can only take more *)
    apply N.ltb_lt in Hh.
    destruct (pread_hdr mtu st stream a1) as [[st1 stream1] bad] eqn:E1.
    assert (H1 : lenN stream1 < lenN stream).
    { unfold pread_hdr in E1. assert (Hh' : (lenN (pr_hdr st) <? SZW) = true) by now apply N.ltb_lt.
      rewrite Hh' in E1. cbv zeta in E1.
      set (n := N.min a1 (SZW - lenN (pr_hdr st))) in *.
      assert (Hn : 0 < n) by (subst n; lia).
      assert (Hd : lenN (dropN n stream) < lenN stream) by (rewrite lenN_dropN; lia).
      split_pread E1; injection E1 as _ <- _; exact Hd. }
    intros E. split_pread E; injection E as _ <- _; rewrite ?lenN_dropN; lia.
  - (* the size word is complete: the payload read takes at least one byte *)
    apply N.ltb_ge in Hh.
    destruct Hrep as [(Hlt & _)|(p & ps' & _ & Hhd & Hsz & Hdl & _)]; [lia|].
    unfold pread_hdr. assert (Hh' : (lenN (pr_hdr st) <? SZW) = false) by now apply N.ltb_ge.
    rewrite Hh'.
    assert (H4 : lenN (pr_hdr st) = SZW) by (rewrite Hhd, lenN_le32; reflexivity).
    assert (E1 : (lenN (pr_hdr st) =? SZW) = true) by (now apply N.eqb_eq).
    assert (E2 : (lenN (pr_data st) <? pr_size st) = true) by (apply N.ltb_lt; lia).
    cbv beta iota. rewrite E1, E2. cbn [andb]. cbv zeta.
    set (n := N.min a2 (pr_size st - lenN (pr_data st))).
    assert (Hn : 0 < n) by (subst n; lia).
    destruct (lenN (pr_data st ++ takeN n stream) =? pr_size st); intros E; injection E as <- <- <-; rewrite lenN_dropN; lia.
Qed.

(* once the stream is read to its end no packet is half-read and none is outstanding *)
Lemma rep_stream_end st ps : rep st [] ps -> pr_hdr st = [] /\ ps = [].
Proof.
  intros H. assert (Hh : pr_hdr st = []).
  { destruct H as [_ [(Hlt & _ & _ & Hfr)|(p & ps' & _ & _ & _ & Hdl & Hfr)]].
    - rewrite app_nil_r in Hfr. destruct ps as [|p ps]; [exact Hfr|]. exfalso.
      assert (E : lenN (pr_hdr st) = lenN (frames (p :: ps))) by now rewrite Hfr.
      rewrite frames_cons, lenN_app, lenN_frame in E. lia.
    - exfalso. rewrite app_nil_r in Hfr. assert (E : lenN (pr_data st) = lenN (p ++ frames ps')) by now rewrite Hfr.
      rewrite lenN_app in E. lia. }
  split; [exact Hh|]. eapply rep_exhausted; eassumption.
Qed.

(* as many Read() calls as there are bytes, each finding bytes available, read the stream to its end *)
Lemma preads_exhaust mtu : forall script ps st stream st' stream' rs,
  mtu < two32 -> Forall (pkt_ok mtu) ps ->
  Forall (fun x => mtu <= fst (fst x) /\ 0 < snd (fst x) /\ 0 < snd x) script ->
  rep st stream ps -> (length stream <= length script)%nat ->
  preads mtu st stream script = (st', stream', rs) ->
  stream' = [].
Proof.
  induction script as [|[[u a1] a2] script IH]; intros ps st stream st' stream' rs Hmtu Hps Hsc Hrep Hlen; cbn [preads].
  - intros E. injection E as <- <- <-. destruct stream; [reflexivity|cbn in Hlen; lia].
  - inversion Hsc as [|? ? (Hu & H1 & H2) Hsc']; subst. cbn [fst snd] in *.
    destruct (pread mtu st u stream a1 a2) as [[st1 stream1] r] eqn:E1.
    destruct (preads mtu st1 stream1 script) as [[st2 stream2] rs2] eqn:E2.
    intros E. injection E as <- <- <-.
    assert (Hshort : (length stream1 <= length script)%nat).
    { destruct stream as [|b stream].
      - pose proof (pread_shrinks _ _ _ _ _ _ _ _ _ E1) as Hs. unfold lenN in Hs. cbn [length] in Hs. lia.
      - pose proof (pread_progress _ _ _ _ _ _ _ _ _ _ Hrep H1 H2 ltac:(discriminate) E1) as Hp.
        unfold lenN in Hp. cbn [length] in *. lia. }
    destruct (pread_spec _ _ _ _ _ _ _ _ _ _ Hmtu Hps Hu Hrep E1) as [[_ Hrep1]|(p & ps1 & -> & _ & Hrep1)].
    + eapply IH; [exact Hmtu|exact Hps|exact Hsc'|exact Hrep1|exact Hshort|exact E2].
    + inversion Hps as [|? ? _ Hps1]; subst.
      eapply IH; [exact Hmtu|exact Hps1|exact Hsc'|exact Hrep1|exact Hshort|exact E2].
Qed.

(* End to end with a fair reader: whatever the cuts, after as many Read() calls as the stream has bytes, each finding
   bytes available, every packet Write() accepted has been handed over, once, in order, unchanged. *)
Theorem packetized_transport_delivers_all :
  forall mtu wops wst out wrs script rst rest rrs,
    mtu < two32 -> wops_nonempty wops ->
    Forall (fun x => mtu <= fst (fst x) /\ 0 < snd (fst x) /\ 0 < snd x) script ->
    (length out <= length script)%nat ->
    pwrites mtu pw_init wops = (wst, out, wrs) ->
    pw_buffered wst = false ->
    preads mtu pr_init out script = (rst, rest, rrs) ->
    handed rrs = taken wops wrs /\ rest = [] /\ Forall (fun r => r <> None) rrs.
Proof.
  intros mtu wops wst out wrs script rst rest rrs Hmtu Hne Hsc Hlen Hw Hnb Hr.
  assert (Hsc' : Forall (fun x => mtu <= fst (fst x)) script) by (eapply Forall_impl; [|exact Hsc]; intros x (H & _); exact H).
  assert (Hok0 : pw_ok pw_init) by (split; cbn; [lia|reflexivity]).
  destruct (packetized_write_stream mtu wops pw_init wst out wrs Hok0 Hne Hw) as [Hok Hout].
  rewrite (pw_not_buffered_rest wst Hok Hnb), app_nil_r in Hout. cbn [pw_rest pw_init pw_sent pw_buf] in Hout.
  unfold dropN in Hout. cbn [N.to_nat skipn app] in Hout.
  assert (Htk : Forall (pkt_ok mtu) (taken wops wrs)).
  { clear - Hw Hne Hok0. revert wst out wrs Hw Hne. generalize pw_init as st0, Hok0.
    induction wops as [|o ops IH]; intros st0 Hok wst out wrs; cbn [pwrites].
    - intros E _. injection E as <- <- <-. constructor.
    - destruct o as [p a1 a2|acc]; cbn [wops_nonempty].
      + destruct (pwrite mtu st0 p a1 a2) as [[st1 o1] r] eqn:E1.
        destruct (pwrites mtu st1 ops) as [[st2 o2] rs2] eqn:E2.
        intros E [Hp Hne']. injection E as <- <- <-.
        destruct (pwrite_spec _ _ _ _ _ _ _ _ Hok Hp E1) as (Hok1 & _ & Hr).
        specialize (IH st1 Hok1 _ _ _ E2 Hne'). cbn [taken]. destruct r as [n|]; [|exact IH].
        destruct (n =? 0) eqn:Hn; [exact IH|]. constructor; [|exact IH].
        split; [exact Hp|]. unfold pwrite in E1. destruct (mtu <? lenN p) eqn:Hm; [injection E1 as _ _ E; discriminate|].
        apply N.ltb_ge in Hm. exact Hm.
      + destruct (pw_flush st0 acc) as [st1 o1] eqn:E1.
        destruct (pwrites mtu st1 ops) as [[st2 o2] rs2] eqn:E2.
        intros E Hne'. injection E as <- <- <-.
        destruct (pw_flush_spec _ _ _ _ Hok E1) as [Hok1 _].
        cbn [taken]. exact (IH st1 Hok1 _ _ _ E2 Hne'). }
  rewrite Hout in Hr, Hlen.
  pose proof (preads_exhaust mtu script _ _ _ _ _ _ Hmtu Htk Hsc (rep_init _) Hlen Hr) as Hrest. subst rest.
  destruct (packetized_read_stream mtu script _ _ _ _ _ _ Hmtu Htk Hsc' (rep_init _) Hr) as [Hnone (ps' & Hd & Hrep)].
  destruct (rep_stream_end _ _ Hrep) as [_ ->]. rewrite app_nil_r in Hd. auto.
Qed.
