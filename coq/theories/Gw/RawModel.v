(* C03 -- model of iogateway/RawDataMessageIOGateway.cpp (stream mode).  No proofs here.

   A Message is the list of its PR_NAME_DATA_CHUNKS items (byte lists).
   Sender  DoOutputImplementation (31-99): self-recursive; state _sendMsgRef, _sendBufIndex,
           _sendBufByteOffset, _sendBufLength (int32, -1 = none).  [xform] is what
           PopNextOutgoingMessage does to a Message when it is popped (identity here; the SLIP
           subclass encodes every chunk).  An EMPTY chunk ends the DoOutput call (offset 0 is
           not < length 0, so the function returns 0 without recursing) -- kept.
   Receiver DoInputImplementation (134-203): immediate-forward mode (minChunkSize = 0): one
           Read of at most min(max(1,maxChunkSize), 8192) bytes per call, delivered as one
           single-chunk Message; minimum-chunk mode (minChunkSize > 0): fills a chunk of
           exactly minChunkSize bytes, recursing after each full chunk. *)
From Coq Require Import List NArith ZArith Bool.
From Muscle Require Import Gen.Consts Gw.GwBase.
Import ListNotations.
Local Open Scope N_scope.

Section Raw.
  Variable xform : list bytes -> list bytes.

  Record rsend := mkRS {
    rs_q : list (list bytes);
    rs_cur : option (list bytes);   (* _sendMsgRef (after xform) *)
    rs_idx : Z;                     (* _sendBufIndex *)
    rs_off : Z;                     (* _sendBufByteOffset *)
    rs_len : Z }.                   (* _sendBufLength *)

  Definition rs_init : rsend := mkRS [] None (-1) (-1) (-1).
  Definition rs_queue (st : rsend) (m : list bytes) : rsend :=
    mkRS (rs_q st ++ [m]) (rs_cur st) (rs_idx st) (rs_off st) (rs_len st).

  Definition rs_chunk (st : rsend) : bytes :=
    match rs_cur st with
    | Some cs => nth (Z.to_nat (rs_idx st)) cs []
    | None => []
    end.

  Fixpoint r_out (fuel : nat) (st : rsend) (maxb : N) (scr : list N) (acc : bytes) {struct fuel}
    : rsend * bytes :=
    match fuel with
    | O => (st, acc)
    | S fuel' =>
      (* 37-44 *)
      let st1 := match rs_cur st with
                 | Some _ => st
                 | None => match rs_q st with
                           | [] => mkRS [] None (-1) (-1) (-1)
                           | m :: q => mkRS q (Some (xform m)) (-1) (-1) (-1)
                           end
                 end in
      match rs_cur st1 with
      | None => (st1, acc)
      | Some cs =>
        (* 48-62 *)
        let nxt :=
          if ((rs_off st1 <? 0) || (rs_len st1 <=? rs_off st1))%Z then
            let idx := (rs_idx st1 + 1)%Z in
            match nth_error cs (Z.to_nat idx) with
            | Some c => inl (mkRS (rs_q st1) (rs_cur st1) idx 0 (Z.of_N (blen c)))
            | None => inr (mkRS (rs_q st1) None idx (rs_off st1) (rs_len st1))
            end
          else inl st1 in
        match nxt with
        | inr st2 => r_out fuel' st2 maxb scr acc
        | inl st2 =>
          (* 65-95, stream branch *)
          if (rs_off st2 <? rs_len st2)%Z then
            let off := Z.to_N (rs_off st2) in
            let '(x, scr') := io_write (take (N.min maxb (Z.to_N (rs_len st2) - off)) (drop off (rs_chunk st2))) scr in
            if 0 <? blen x then
              r_out fuel' (mkRS (rs_q st2) (rs_cur st2) (rs_idx st2) (rs_off st2 + Z.of_N (blen x)) (rs_len st2))
                    (maxb - blen x) scr' (acc ++ x)
            else (st2, acc)
          else (st2, acc)
        end
      end
    end.

  (* recursion happens after a positive write (consumes a script entry) or at the end of a
     Message (consumes a queue entry or the current Message): RawProofs.r_out_fuel_enough *)
  Definition r_do_output (st : rsend) (maxb : N) (scr : list N) : rsend * bytes :=
    r_out (S (S (length scr + length (rs_q st)))) st maxb scr [].

  Definition rs_has_bytes (st : rsend) : bool :=
    match rs_cur st, rs_q st with None, [] => false | _, _ => true end.
End Raw.

Arguments mkRS. Arguments rs_q. Arguments rs_cur. Arguments rs_idx. Arguments rs_off. Arguments rs_len.

(* ---------------------------------------------------------------------- receiver *)
Record rrecv := mkRR { rr_cur : option bytes }.   (* _recvMsgRef's chunk filled so far (min-chunk mode) *)
Definition rr_init : rrecv := mkRR None.

Definition r_scratch (minc maxc : N) : N :=
  N.min (N.max 1 (N.max minc maxc)) c_raw_max_scratch.     (* _maxChunkSize = max(1,min,max); 181 *)

Fixpoint r_in_min (scr : list N) (minc : N) (st : rrecv) (maxb : N) (pipe : bytes) (outs : list (list bytes))
  {struct scr} : rrecv * list (list bytes) * bytes :=
  let cur := match rr_cur st with Some c => c | None => [] end in
  let '(x, pipe', _) := io_read (N.min maxb (minc - blen cur)) scr pipe in
  if 0 <? blen x then
    let cur' := cur ++ x in
    if blen cur' =? minc then
      match scr with
      | [] => (mkRR None, outs ++ [[cur']], pipe')
      | _ :: scr' => r_in_min scr' minc (mkRR None) (maxb - blen x) pipe' (outs ++ [[cur']])
      end
    else (mkRR (Some cur'), outs, pipe')
  else (mkRR (Some cur), outs, pipe').

Definition r_do_input (minc maxc : N) (st : rrecv) (maxb : N) (scr : list N) (pipe : bytes)
  : rrecv * list (list bytes) * bytes :=
  if 0 <? minc then r_in_min scr minc st maxb pipe []
  else
    let '(x, pipe', _) := io_read (N.min (r_scratch minc maxc) maxb) scr pipe in
    (st, (if 0 <? blen x then [[x]] else []), pipe').

(* Message::FindData fails on a zero-length item (message/Message.cpp 1636-1647: a NULL buffer
   pointer is a B_TYPE_MISMATCH), so the loops "for (i=0; FindData(..i..).IsOK(); i++)" of the raw
   and SLIP senders see a Message as ending at its first empty chunk. *)
Fixpoint r_trunc (cs : list bytes) : list bytes :=
  match cs with
  | [] => []
  | c :: t => match c with [] => [] | _ => c :: r_trunc t end
  end.

Definition raw_do_output := r_do_output r_trunc.
Definition r_wire_msg (m : list bytes) : bytes := concat (r_trunc m).
