(* C12 -- proofs about the PacketTunnelIOGateway model, part 2: soundness of the receiver.

   For a source whose fragments all describe slices of Messages of a history with pairwise
   distinct ids, every buffer the receiver delivers for that source is one of those Messages --
   whatever the order, loss or duplication of the fragments, and whatever arrives from the other
   sources (their datagrams are arbitrary bytes). *)
From Coq Require Import List Arith NArith Bool Lia.
From Coq Require Import Strings.Byte.
From Muscle Require Import Common.LE Gen.Consts Gw.Tunnel Gw.TunnelProofs.
Import ListNotations.
Local Open Scope N_scope.

Definition hist := list (N * msg).     (* (message id, Message bytes) of everything one source ever sent *)

(* the fragment is a slice of the Message that carries its id *)
Definition valid (h : hist) (f : frag) : Prop :=
  exists m, In (f_id f, m) h /\ f_total f = lenN m /\ f_off f + lenN (f_data f) <= lenN m
            /\ f_data f = takeN (lenN (f_data f)) (dropN (f_off f) m).

(* invariant of one source's receive state *)
Definition good (h : hist) (o : option rstate) : Prop :=
  match o with
  | None => True
  | Some rs =>
      r_off rs = 0 \/
      exists m, In (r_id rs, m) h /\ lenN (r_buf rs) = lenN m /\ r_off rs <= lenN m
                /\ takeN (r_off rs) (r_buf rs) = takeN (r_off rs) m
  end.

Lemma hist_functional (h : hist) k m1 m2 :
  NoDup (map fst h) -> In (k, m1) h -> In (k, m2) h -> m1 = m2.
Proof.
  induction h as [|[k0 m0] h IH]; cbn [map fst In]; intros Hnd H1 H2; [tauto|].
  inversion Hnd as [|? ? Hn Hd]; subst.
  destruct H1 as [H1|H1], H2 as [H2|H2].
  - congruence.
  - injection H1 as -> ->. exfalso. apply Hn. apply in_map_iff. now exists (k, m2).
  - injection H2 as -> ->. exfalso. apply Hn. apply in_map_iff. now exists (k, m1).
  - now apply IH.
Qed.

Lemma splice_length (buf dat : list byte) off :
  off + lenN dat <= lenN buf ->
  lenN (takeN off buf ++ dat ++ dropN (off + lenN dat) buf) = lenN buf.
Proof. intros H. rewrite !lenN_app, lenN_takeN, lenN_dropN. lia. Qed.

Lemma splice_prefix (buf dat m : list byte) off :
  off + lenN dat <= lenN buf ->
  takeN off buf = takeN off m ->
  dat = takeN (lenN dat) (dropN off m) ->
  takeN (off + lenN dat) (takeN off buf ++ dat ++ dropN (off + lenN dat) buf) = takeN (off + lenN dat) m.
Proof.
  intros HL HP HD.
  assert (Ho : lenN (takeN off buf) = off) by (rewrite lenN_takeN; lia).
  rewrite takeN_app_ge by lia. rewrite Ho.
  replace (off + lenN dat - off) with (lenN dat) by lia.
  rewrite takeN_app_exact. rewrite takeN_add, <- HD, HP. reflexivity.
Qed.

Lemma accept_sound h rs f rs' out :
  NoDup (map fst h) -> valid h f -> good h (Some rs) ->
  accept rs f = (rs', out) ->
  good h (Some rs') /\ forall b, In b out -> In b (map snd h).
Proof.
  intros Hnd (m & Hin & Htot & Hle & Hdat) Hg. unfold accept.
  destruct ((f_id f =? r_id rs) && (f_total f =? lenN (r_buf rs)) && (f_off f =? r_off rs)
            && negb (two32 <=? f_off f + lenN (f_data f)) && (f_off f + lenN (f_data f) <=? lenN (r_buf rs))) eqn:T.
  - apply andb_prop in T as [T T5]. apply andb_prop in T as [T T4]. apply andb_prop in T as [T T3].
    apply andb_prop in T as [T1 T2].
    apply N.eqb_eq in T1, T2, T3. apply N.leb_le in T5.
    (* the buffer is being assembled for the very Message the fragment is a slice of *)
    assert (HB : lenN (r_buf rs) = lenN m /\ takeN (r_off rs) (r_buf rs) = takeN (r_off rs) m).
    { cbn [good] in Hg. destruct Hg as [Hz|(m0 & Hin0 & HL0 & Hoff0 & HP0)].
      - split; [congruence|]. rewrite Hz. reflexivity.
      - assert (m0 = m) by (eapply hist_functional; [eassumption| |]; [exact Hin0|rewrite <- T1; exact Hin]).
        subst m0. auto. }
    destruct HB as [HL HP]. rewrite <- T3 in HP.
    set (buf' := takeN (f_off f) (r_buf rs) ++ f_data f ++ dropN (f_off f + lenN (f_data f)) (r_buf rs)).
    assert (HL' : lenN buf' = lenN m) by (unfold buf'; rewrite splice_length; lia).
    assert (HP' : takeN (f_off f + lenN (f_data f)) buf' = takeN (f_off f + lenN (f_data f)) m).
    { unfold buf'. apply splice_prefix; assumption. }
    destruct (r_off rs + lenN (f_data f) =? lenN (r_buf rs)) eqn:Tfin; intros E; injection E as <- <-.
    + apply N.eqb_eq in Tfin. split; [left; reflexivity|].
      intros b [<-|[]]. apply in_map_iff. exists (f_id f, m). split; [|exact Hin]. cbn [snd].
      symmetry. apply list_eq_of_takeN; [lia|].
      replace (lenN buf') with (f_off f + lenN (f_data f)) by lia. exact HP'.
    + split; [|intros b []]. right. exists m. cbn [r_id r_off r_buf].
      rewrite <- T1, <- T3. repeat split; try assumption; lia.
  - intros E. injection E as <- <-. split; [left; reflexivity|intros b []].
Qed.

Lemma rs_step_sound h o f o' out :
  NoDup (map fst h) -> valid h f -> good h o ->
  rs_step o f = (o', out) ->
  good h o' /\ forall b, In b out -> In b (map snd h).
Proof.
  intros Hnd Hv Hg. unfold rs_step. destruct o as [rs|].
  - destruct (accept (restart_if_new rs f) f) as [rs' out'] eqn:Ha. intros E. injection E as <- <-.
    apply (accept_sound h (restart_if_new rs f) f rs' out' Hnd Hv); [|exact Ha].
    unfold restart_if_new. destruct ((f_off f =? 0) && negb (f_id f =? r_id rs)); [cbn [good]; left; reflexivity|exact Hg].
  - destruct (f_off f =? 0).
    + destruct (accept (mkR (f_id f) 0 (junk (f_total f))) f) as [rs' out'] eqn:Ha. intros E. injection E as <- <-.
      apply (accept_sound h (mkR (f_id f) 0 (junk (f_total f))) f rs' out' Hnd Hv); [|exact Ha]. cbn [good]. left; reflexivity.
    + intros E. injection E as <- <-. split; [exact I|intros b []].
Qed.

Lemma rs_steps_sound h fs : forall o o' out,
  NoDup (map fst h) -> Forall (valid h) fs -> good h o ->
  rs_steps o fs = (o', out) ->
  good h o' /\ forall b, In b out -> In b (map snd h).
Proof.
  induction fs as [|f fs IH]; intros o o' out Hnd Hv Hg; cbn [rs_steps].
  - intros E. injection E as <- <-. split; [exact Hg|intros b []].
  - inversion Hv as [|? ? Hf Hfs]; subst.
    destruct (rs_step o f) as [o1 out1] eqn:E1. destruct (rs_steps o1 fs) as [o2 out2] eqn:E2.
    intros E. injection E as <- <-.
    destruct (rs_step_sound h o f o1 out1 Hnd Hf Hg E1) as [Hg1 Ho1].
    destruct (IH o1 o2 out2 Hnd Hfs Hg1 E2) as [Hg2 Ho2].
    split; [exact Hg2|]. intros b Hb. apply in_app_iff in Hb as [Hb|Hb]; auto.
Qed.

(* ------------------------------------------------------------------ the whole table, the whole network *)

Section Network.

Variable rc : rcfg.
Variable who : addr -> option hist.      (* the genuine sources and what each of them ever sent *)

Definition tbl_good (t : table) : Prop :=
  tbl_wf t /\ forall a h, who a = Some h -> good h (tbl_find a t).

(* what the receiver extracts from a datagram *)
Definition frags_of (p : packet) : list frag :=
  let bs := takeN (rc_mtu rc) p in parse (length bs) rc bs.

Lemma recv_packet_sound t a p t' out :
  rc_misc rc = false ->
  (forall h, who a = Some h -> NoDup (map fst h) /\ Forall (valid h) (frags_of p)) ->
  tbl_good t ->
  recv_packet rc t a p = (t', out) ->
  tbl_good t' /\ forall b m, In (b, m) out -> b = a /\ forall h, who a = Some h -> In m (map snd h).
Proof.
  intros Hmisc Hgen [Hwf Hg]. unfold recv_packet. rewrite Hmisc. cbn [andb].
  destruct (lenN (takeN (rc_mtu rc) p) =? 0).
  { intros E. injection E as <- <-. split; [split; assumption|intros b m []]. }
  fold (frags_of p).
  pose proof (recv_frags_own t a (frags_of p) Hwf) as Hown.
  destruct (recv_frags t a (frags_of p)) as [t1 o1] eqn:E1.
  destruct (rs_steps (tbl_find a t) (frags_of p)) as [r1 p1] eqn:E2.
  destruct Hown as (Hwf1 & Hf1 & Ho1). subst p1.
  intros E. injection E as <- <-.
  split.
  - split; [exact Hwf1|]. intros b h Hb.
    destruct (N.eq_dec a b) as [->|Hab].
    + rewrite Hf1. destruct (Hgen h Hb) as [Hnd Hv].
      eapply rs_steps_sound; try eassumption. now apply Hg.
    + pose proof (recv_frags_other t a b (frags_of p) Hwf Hab) as Hoth. rewrite E1 in Hoth. cbn [fst] in Hoth.
      destruct Hoth as [E|E]; rewrite E; [now apply Hg|exact I].
  - intros b m Hin. apply in_map_iff in Hin as (m' & E & Hin'). injection E as <- <-.
    split; [reflexivity|]. intros h Hb. destruct (Hgen h Hb) as [Hnd Hv].
    eapply (rs_steps_sound h (frags_of p)); try eassumption. now apply Hg.
Qed.

Lemma recv_all_sound net : forall t t' out,
  rc_misc rc = false ->
  (forall a p h, In (a, p) net -> who a = Some h -> NoDup (map fst h) /\ Forall (valid h) (frags_of p)) ->
  tbl_good t ->
  recv_all rc t net = (t', out) ->
  tbl_good t' /\ forall a m h, In (a, m) out -> who a = Some h -> In m (map snd h).
Proof.
  induction net as [|[a p] net IH]; intros t t' out Hmisc Hgen Hg; cbn [recv_all].
  - intros E. injection E as <- <-. split; [exact Hg|intros a m h []].
  - destruct (recv_packet rc t a p) as [t1 o1] eqn:E1. destruct (recv_all rc t1 net) as [t2 o2] eqn:E2.
    intros E. injection E as <- <-.
    destruct (recv_packet_sound t a p t1 o1 Hmisc (fun h Hh => Hgen a p h (or_introl eq_refl) Hh) Hg E1) as [Hg1 Ho1].
    destruct (IH t1 t2 o2 Hmisc (fun a' p' h' Hin Hh => Hgen a' p' h' (or_intror Hin) Hh) Hg1 E2) as [Hg2 Ho2].
    split; [exact Hg2|]. intros b m h Hin Hb. apply in_app_iff in Hin as [Hin|Hin].
    + destruct (Ho1 b m Hin) as [-> Hm]. now apply Hm.
    + eapply Ho2; eassumption.
Qed.

(* the same with the misc-data mode on or off: besides a source's Messages the receiver hands over only
   datagrams that are not in tunnel format, verbatim (as cut to its MTU), and only when told to *)
Definition misc_passed (p : packet) (m : msg) : Prop :=
  rc_misc rc = true /\ m = takeN (rc_mtu rc) p
  /\ (lenN m < FHS \/ first_word_is (rc_magic rc) m = false).

Lemma recv_packet_sound_g t a p t' out :
  (forall h, who a = Some h -> NoDup (map fst h) /\ Forall (valid h) (frags_of p)) ->
  tbl_good t ->
  recv_packet rc t a p = (t', out) ->
  tbl_good t' /\ forall b m, In (b, m) out -> b = a /\ (misc_passed p m \/ forall h, who a = Some h -> In m (map snd h)).
Proof.
  intros Hgen Hg. destruct (rc_misc rc) eqn:Hmisc.
  2:{ intros E. destruct (recv_packet_sound t a p t' out Hmisc Hgen Hg E) as [H1 H2]. split; [exact H1|].
      intros b m Hin. destruct (H2 b m Hin) as [Hb Hm]. split; [exact Hb|right; exact Hm]. }
  unfold recv_packet. rewrite Hmisc. cbn [andb].
  destruct (lenN (takeN (rc_mtu rc) p) =? 0).
  { intros E. injection E as <- <-. split; [exact Hg|intros b m []]. }
  destruct ((lenN (takeN (rc_mtu rc) p) <? FHS) || negb (first_word_is (rc_magic rc) (takeN (rc_mtu rc) p))) eqn:Hm.
  - intros E. injection E as <- <-. split; [exact Hg|]. intros b m [E|[]]. injection E as <- <-.
    split; [reflexivity|]. left. split; [exact Hmisc|]. split; [reflexivity|].
    apply orb_prop in Hm as [Hm|Hm]; [left; now apply N.ltb_lt|right]. now apply negb_true_iff in Hm.
  - (* tunnel format: as with the mode off *)
    fold (frags_of p).
    destruct Hg as [Hwf Hg].
    pose proof (recv_frags_own t a (frags_of p) Hwf) as Hown.
    destruct (recv_frags t a (frags_of p)) as [t1 o1] eqn:E1.
    destruct (rs_steps (tbl_find a t) (frags_of p)) as [r1 p1] eqn:E2.
    destruct Hown as (Hwf1 & Hf1 & Ho1). subst p1.
    intros E. injection E as <- <-.
    split.
    + split; [exact Hwf1|]. intros b h Hb.
      destruct (N.eq_dec a b) as [->|Hab].
      * rewrite Hf1. destruct (Hgen h Hb) as [Hnd Hv].
        eapply rs_steps_sound; try eassumption. now apply Hg.
      * pose proof (recv_frags_other t a b (frags_of p) Hwf Hab) as Hoth. rewrite E1 in Hoth. cbn [fst] in Hoth.
        destruct Hoth as [E|E]; rewrite E; [now apply Hg|exact I].
    + intros b m Hin. apply in_map_iff in Hin as (m' & E & Hin'). injection E as <- <-.
      split; [reflexivity|]. right. intros h Hb. destruct (Hgen h Hb) as [Hnd Hv].
      eapply (rs_steps_sound h (frags_of p)); try eassumption. now apply Hg.
Qed.

Lemma recv_all_sound_g net : forall t t' out,
  (forall a p h, In (a, p) net -> who a = Some h -> NoDup (map fst h) /\ Forall (valid h) (frags_of p)) ->
  tbl_good t ->
  recv_all rc t net = (t', out) ->
  tbl_good t' /\ forall a m h, In (a, m) out -> who a = Some h ->
                   In m (map snd h) \/ exists p, In (a, p) net /\ misc_passed p m.
Proof.
  induction net as [|[a p] net IH]; intros t t' out Hgen Hg; cbn [recv_all].
  - intros E. injection E as <- <-. split; [exact Hg|intros a m h []].
  - destruct (recv_packet rc t a p) as [t1 o1] eqn:E1. destruct (recv_all rc t1 net) as [t2 o2] eqn:E2.
    intros E. injection E as <- <-.
    destruct (recv_packet_sound_g t a p t1 o1 (fun h Hh => Hgen a p h (or_introl eq_refl) Hh) Hg E1) as [Hg1 Ho1].
    destruct (IH t1 t2 o2 (fun a' p' h' Hin Hh => Hgen a' p' h' (or_intror Hin) Hh) Hg1 E2) as [Hg2 Ho2].
    split; [exact Hg2|]. intros b m h Hin Hb. apply in_app_iff in Hin as [Hin|Hin].
    + destruct (Ho1 b m Hin) as [-> [Hm|Hm]].
      * right. exists p. split; [now left|exact Hm].
      * left. now apply Hm.
    + destruct (Ho2 b m h Hin Hb) as [Hm|(p' & Hp' & Hm)]; [now left|].
      right. exists p'. split; [now right|exact Hm].
Qed.

Lemma tbl_good_nil : tbl_good [].
Proof. split; [constructor|]. intros a h _. exact I. Qed.

End Network.
