(* C12 -- MiniPacketTunnelIOGateway model: fuel adequacy of the output loop, and the corollary
   "every Message that can fit into a packet is delivered" for scripts that end with a DoOutput call
   that is not cut short. *)
From Coq Require Import List Arith NArith Bool Lia.
From Coq Require Import Strings.Byte.
From Muscle Require Import Common.LE Gen.Consts Gw.Tunnel Gw.TunnelProofs Gw.MiniTunnel Gw.MiniTunnelProofs.
Import ListNotations.
Local Open Scope N_scope.

Lemma mfill_progress c pid : forall q pkt pkt' q',
  PHS + CHS < mc_mtu c ->
  mfill c pid pkt q = (pkt', q') ->
  (length q' <= length q)%nat
  /\ (lenN pkt <= lenN pkt')
  /\ (pkt = [] -> (pkt' = [] -> q' = []) /\ (q <> [] -> (length q' < length q)%nat)).
Proof.
  induction q as [|m q IH]; intros pkt pkt' q' Hmtu; cbn [mfill].
  - intros E. injection E as <- <-. split; [lia|]. split; [lia|]. intros _. split; [auto|congruence].
  - destruct (mc_mtu c <? PHS + CHS + lenN m) eqn:Hbig.
    + intros E. destruct (IH _ _ _ Hmtu E) as (H1 & H2 & H3). cbn [length]. split; [lia|]. split; [exact H2|].
      intros Hp. destruct (H3 Hp) as [H4 H5]. split; [exact H4|]. intros _. lia.
    + apply N.ltb_ge in Hbig.
      destruct (lenN pkt + (if lenN pkt =? 0 then PHS else 0) + CHS + lenN m <=? mc_mtu c) eqn:Hroom.
      * intros E. destruct (IH _ _ _ Hmtu E) as (H1 & H2 & _). cbn [length]. split; [lia|].
        assert (Hgrow : lenN pkt < lenN ((if lenN pkt =? 0 then mheader c pid else pkt) ++ enc_chunk m)).
        { rewrite lenN_app, lenN_enc_chunk, CHS_val. destruct (lenN pkt =? 0) eqn:Hz.
          - apply N.eqb_eq in Hz. rewrite Hz. lia.
          - lia. }
        split; [lia|]. intros Hp. split.
        -- intros ->. change (lenN (@nil byte)) with 0 in H2. lia.
        -- intros _. lia.
      * intros E. injection E as <- <-. split; [lia|]. split; [lia|]. intros ->.
        exfalso. apply N.leb_gt in Hroom. change (lenN (@nil byte)) with 0 in Hroom. cbn [N.eqb] in Hroom. lia.
Qed.

Lemma mfill_size c pid : forall q pkt pkt' q',
  lenN pkt <= mc_mtu c -> mfill c pid pkt q = (pkt', q') -> lenN pkt' <= mc_mtu c.
Proof.
  induction q as [|m q IH]; intros pkt pkt' q' Hsz; cbn [mfill].
  - intros E. now injection E as <- <-.
  - destruct (mc_mtu c <? PHS + CHS + lenN m); [now apply IH|].
    destruct (lenN pkt + (if lenN pkt =? 0 then PHS else 0) + CHS + lenN m <=? mc_mtu c) eqn:Hr.
    + apply IH. apply N.leb_le in Hr. rewrite lenN_app, lenN_enc_chunk. destruct (lenN pkt =? 0) eqn:Hz.
      * unfold mheader. rewrite !lenN_app, !lenN_le32. apply N.eqb_eq in Hz. rewrite PHS_val in *. lia.
      * lia.
    + intros E. now injection E as <- <-.
Qed.

(* the packet buffer is empty or starts with a whole packet header *)
Lemma mfill_shape c pid : forall q pkt pkt' q',
  PHS + CHS < mc_mtu c ->
  (pkt = [] \/ PHS <= lenN pkt) -> mfill c pid pkt q = (pkt', q') -> (pkt' = [] \/ PHS <= lenN pkt').
Proof.
  induction q as [|m q IH]; intros pkt pkt' q' Hmtu Hsh; cbn [mfill].
  - intros E. now injection E as <- <-.
  - destruct (mc_mtu c <? PHS + CHS + lenN m); [now apply IH|].
    destruct (lenN pkt + (if lenN pkt =? 0 then PHS else 0) + CHS + lenN m <=? mc_mtu c).
    + apply IH; [exact Hmtu|]. right. rewrite lenN_app, lenN_enc_chunk.
      destruct Hsh as [->|Hge].
      * change (lenN (@nil byte)) with 0. cbn [N.eqb]. unfold mheader. rewrite !lenN_app, !lenN_le32, PHS_val. lia.
      * destruct (lenN pkt =? 0) eqn:Hz; [apply N.eqb_eq in Hz; rewrite PHS_val in *; lia|lia].
    + intros E. now injection E as <- <-.
Qed.

Section WithDeflate.

Variable deflate : N -> list byte -> option (list byte).

Lemma lenN_mwire c pid pkt :
  PHS <= lenN pkt -> lenN (fst (mwire deflate c pid pkt)) <= lenN pkt /\ lenN (snd (mwire deflate c pid pkt)) = lenN pkt.
Proof.
  intros Hlen. unfold mwire. rewrite W2_val.
  assert (Hpatched : lenN (takeN 8 pkt ++ le32 pid ++ dropN PHS pkt) = lenN pkt).
  { rewrite !lenN_app, lenN_takeN, lenN_dropN, lenN_le32. rewrite PHS_val in *. lia. }
  destruct (0 <? mc_level c); [|cbn [fst snd]; lia].
  destruct (deflate (mc_level c) (dropN PHS pkt)) as [d|]; [|cbn [fst snd]; lia].
  destruct (PHS + lenN d <? lenN pkt) eqn:Hs; [|cbn [fst snd]; lia].
  apply N.ltb_lt in Hs. cbn [fst snd]. split; [|reflexivity].
  rewrite !lenN_app, lenN_takeN, lenN_le32. rewrite PHS_val in *. lia.
Qed.

Definition mpending (st : mstate) : nat := (length (m_q st) + (if (lenN (m_pkt st) =? 0)%N then 0 else 1))%nat.

Lemma mout_loop_drains c : forall fuel mb tot bud st pkts st',
  PHS + CHS < mc_mtu c ->
  lenN (m_pkt st) <= mc_mtu c -> (m_pkt st = [] \/ PHS <= lenN (m_pkt st)) ->
  (mpending st <= fuel)%nat ->
  tot + N.of_nat fuel * mc_mtu c < mb -> N.of_nat fuel <= bud ->
  mout_loop deflate fuel c mb tot bud st = (pkts, st') ->
  m_q st' = [] /\ m_pkt st' = [].
Proof.
  induction fuel as [|fuel IH]; intros mb tot bud st pkts st' Hmtu Hsz Hshape Hpend Hmb Hbud; cbn [mout_loop].
  - intros E. injection E as <- <-. unfold mpending in Hpend.
    destruct (lenN (m_pkt st) =? 0) eqn:Hz; [|lia]. apply N.eqb_eq in Hz. apply lenN_0_nil in Hz.
    split; [|exact Hz]. destruct (m_q st); [reflexivity|cbn in Hpend; lia].
  - assert (Htot : (tot <? mb) = true) by (apply N.ltb_lt; lia). rewrite Htot.
    destruct (mfill c (m_pid st) (m_pkt st) (m_q st)) as [pkt q] eqn:Ef.
    destruct (mfill_progress c _ _ _ _ _ Hmtu Ef) as (Hle & Hgrow & Hprog).
    pose proof (mfill_size c _ _ _ _ _ Hsz Ef) as Hsz2.
    pose proof (mfill_shape c _ _ _ _ _ Hmtu Hshape Ef) as Hshape2.
    destruct (0 <? lenN pkt) eqn:Hpos.
    + apply N.ltb_lt in Hpos.
      assert (Hphs : PHS <= lenN pkt) by (destruct Hshape2 as [->|H]; [cbn in Hpos; lia|exact H]).
      destruct (mwire deflate c (m_pid st) pkt) as [w pkt'] eqn:Ew.
      destruct (lenN_mwire c (m_pid st) pkt Hphs) as [Hw1 Hw2]. rewrite Ew in Hw1, Hw2. cbn [fst snd] in Hw1, Hw2.
      assert (Hb : (bud =? 0) = false) by (apply N.eqb_neq; lia). rewrite Hb.
      destruct (mout_loop deflate fuel c mb (tot + lenN w) (bud - 1) (mkM ((m_pid st + 1) mod PID_MOD) q [])) as [ps st1] eqn:El.
      intros E. injection E as <- <-.
      apply (IH mb (tot + lenN w) (bud - 1) (mkM ((m_pid st + 1) mod PID_MOD) q []) ps st1 Hmtu); cbn [m_q m_pkt]; try assumption.
      * change (lenN (@nil byte)) with 0. lia.
      * now left.
      * unfold mpending in *. cbn [m_q m_pkt]. change (lenN (@nil byte) =? 0) with true. cbv iota.
        destruct (lenN (m_pkt st) =? 0) eqn:Hz.
        -- apply N.eqb_eq in Hz. apply lenN_0_nil in Hz. destruct (Hprog Hz) as [_ Hlt].
           destruct (m_q st) as [|m0 q0] eqn:Eq.
           ++ rewrite Hz in Ef. cbn [mfill] in Ef. injection Ef as <- <-. cbn in Hpos. lia.
           ++ specialize (Hlt ltac:(discriminate)). lia.
        -- lia.
      * lia.
      * lia.
    + intros E. injection E as <- <-. cbn [m_q m_pkt].
      apply N.ltb_ge in Hpos. assert (Hz : lenN pkt = 0) by lia. apply lenN_0_nil in Hz. split; [|exact Hz].
      assert (Hz0 : m_pkt st = []).
      { apply lenN_0_nil. rewrite Hz in Hgrow. change (lenN (@nil byte)) with 0 in Hgrow. lia. }
      destruct (Hprog Hz0) as [Hq _]. now apply Hq.
Qed.

End WithDeflate.

Section Drained.

Variable deflate : N -> list byte -> option (list byte).
Variable inflate : list byte -> option (list byte).
Hypothesis inflate_deflate : forall lvl x d, deflate lvl x = Some d -> inflate d = Some x.

Lemma mrun_app c ops1 ops2 st :
  mrun deflate c st (ops1 ++ ops2) =
    let '(st1, p1) := mrun deflate c st ops1 in let '(st2, p2) := mrun deflate c st1 ops2 in (st2, p1 ++ p2).
Proof.
  revert st. induction ops1 as [|o ops1 IH]; intros st; cbn [app mrun].
  - destruct (mrun deflate c st ops2). reflexivity.
  - destruct (mstep deflate c st o) as [st1 p1]. rewrite IH.
    destruct (mrun deflate c st1 ops1) as [st2 p2]. destruct (mrun deflate c st2 ops2) as [st3 p3]. now rewrite app_assoc.
Qed.

Lemma madded_app ops1 ops2 : madded (ops1 ++ ops2) = madded ops1 ++ madded ops2.
Proof. induction ops1 as [|[m|mb bud|id] ops1 IH]; cbn [app madded]; [reflexivity| |exact IH|exact IH]. now rewrite IH. Qed.

Lemma no_msetid_app ops1 ops2 : no_msetid ops1 -> no_msetid ops2 -> no_msetid (ops1 ++ ops2).
Proof. induction ops1 as [|[m|mb bud|id] ops1 IH]; cbn [app no_msetid]; tauto. Qed.

(* Corollary: any script followed by one DoOutput call that is not cut short: EVERY Message that can fit
   into a packet at all is delivered, exactly once, in order -- with or without compression. *)
Theorem mini_complete_drained :
  forall rc c a pid0 ops mb bud,
    mcfg_ok c -> rc_misc rc = false ->
    mc_magic c = rc_magic rc -> sex_ok rc (mc_sex c) = true -> mc_mtu c <= rc_mtu rc ->
    pid0 < 2 ^ 24 -> no_msetid ops ->
    Forall (fun m => lenN m < two32) (madded ops) ->
    (let st1 := fst (mrun deflate c (m_init pid0) ops) in
     N.of_nat (mout_fuel st1) * mc_mtu c < mb /\ N.of_nat (mout_fuel st1) <= bud) ->
    mrecv_all inflate rc (map (pair a) (snd (mrun deflate c (m_init pid0) (ops ++ [MOut mb bud]))))
    = map (pair a) (filter (mfits c) (madded ops)).
Proof.
  intros rc c a pid0 ops mb bud Hc Hmisc Hmg Hsx Hmtu Hpid Hns Hsm Hbig.
  destruct (mrun deflate c (m_init pid0) (ops ++ [MOut mb bud])) as [st pkts] eqn:Hrun.
  assert (Hadd : madded (ops ++ [MOut mb bud]) = madded ops) by (rewrite madded_app; cbn; apply app_nil_r).
  assert (Hns2 : no_msetid (ops ++ [MOut mb bud])) by (apply no_msetid_app; cbn; auto).
  assert (Hdr : m_q st = [] /\ m_pkt st = []).
  { rewrite mrun_app in Hrun. destruct (mrun deflate c (m_init pid0) ops) as [st1 p1] eqn:E1. cbn [fst] in Hbig.
    cbn [mrun mstep] in Hrun. destruct (mout_loop deflate (mout_fuel st1) c mb 0 bud st1) as [p2 st2] eqn:E2.
    injection Hrun as <- <-.
    assert (Hsm0 : Forall (fun m => lenN m < two32) ([] ++ madded ops)) by exact Hsm.
    destruct (mrun_spec deflate inflate inflate_deflate c rc a ops [] [] _ _ _ Hc Hmisc Hmtu Hns Hsm0 (minv_init _ _ Hpid) E1)
      as (mss & _ & (_ & Hpsz & pend & d & Hpk & _ & _)).
    destruct Hbig as [Hb1 Hb2]. destruct Hc as (_ & _ & _ & Hc4).
    assert (Hshape : m_pkt st1 = [] \/ PHS <= lenN (m_pkt st1)).
    { destruct Hpk as [[-> _]|(w0 & _ & _ & ->)]; [now left|right]. rewrite lenN_shape. lia. }
    assert (Hpend : (mpending st1 <= mout_fuel st1)%nat).
    { unfold mpending, mout_fuel. destruct (lenN (m_pkt st1) =? 0); lia. }
    apply (mout_loop_drains deflate c (mout_fuel st1) mb 0 bud st1 p2 st2 Hc4 Hpsz Hshape Hpend); [lia|exact Hb2|exact E2]. }
  destruct Hdr as [Hq Hp].
  rewrite <- Hadd in Hsm.
  destruct (mini_complete deflate inflate inflate_deflate rc c a pid0 _ st pkts Hc Hmisc Hmg Hsx Hmtu Hpid Hns2 Hsm Hrun Hp)
    as (done & Hd & Hout).
  rewrite Hq, app_nil_r in Hd. cbn [snd]. rewrite Hout, <- Hd, Hadd. reflexivity.
Qed.

End Drained.

(* ------------------------------------------------------------------ several senders *)

Section MiniMulti.

Variable inflate : list byte -> option (list byte).

Definition mfrom (a : addr) {X} (d : addr * X) : bool := fst d =? a.

Lemma mrecv_packet_tag rc a p : forall d, In d (mrecv_packet inflate rc a p) -> fst d = a.
Proof.
  unfold mrecv_packet.
  destruct (lenN (takeN (rc_mtu rc) p) =? 0); [intros d []|].
  destruct (rc_misc rc && ((lenN (takeN (rc_mtu rc) p) <? PHS) || negb (first_word_is (rc_magic rc) (takeN (rc_mtu rc) p)))).
  { intros d [<-|[]]. reflexivity. }
  destruct (PHS <=? lenN (takeN (rc_mtu rc) p)); [|intros d []].
  destruct (rd32 (takeN (rc_mtu rc) p)) as [[mg b1]|]; [|intros d []].
  destruct (rd32 b1) as [[sx b2]|]; [|intros d []].
  destruct (rd32 b2) as [[cl b3]|]; [|intros d []].
  destruct ((mg =? rc_magic rc) && ((rc_sex rc =? 0) || negb (rc_sex rc =? sx))); [|intros d []].
  intros d Hd. apply in_map_iff in Hd as (m & <- & _). reflexivity.
Qed.

(* the mini receiver keeps no state: what it delivers under address a depends on a's datagrams only,
   for any number of sources and arbitrary datagrams *)
Theorem mini_noninterference rc a net :
  filter (mfrom a) (mrecv_all inflate rc net) = mrecv_all inflate rc (filter (mfrom a) net).
Proof.
  induction net as [|[b p] net IH]; [reflexivity|]. cbn [mrecv_all filter]. rewrite filter_app, IH.
  unfold mfrom at 3. cbn [fst]. destruct (N.eqb_spec b a) as [->|Hba].
  - cbn [mrecv_all]. f_equal.
    pose proof (mrecv_packet_tag rc a p) as Htag. induction (mrecv_packet inflate rc a p) as [|d l IHl]; [reflexivity|].
    cbn [filter]. unfold mfrom at 1. rewrite (Htag d (or_introl eq_refl)), N.eqb_refl. f_equal.
    apply IHl. intros d' Hd'. apply Htag. now right.
  - replace (filter (mfrom a) (mrecv_packet inflate rc b p)) with (@nil (addr * msg)); [reflexivity|].
    symmetry. pose proof (mrecv_packet_tag rc b p) as Htag. induction (mrecv_packet inflate rc b p) as [|d l IHl]; [reflexivity|].
    cbn [filter]. unfold mfrom at 1. rewrite (Htag d (or_introl eq_refl)).
    destruct (N.eqb_spec b a); [congruence|]. apply IHl. intros d' Hd'. apply Htag. now right.
Qed.

End MiniMulti.

Section MiniLoop.

Variable inflate : list byte -> option (list byte).

(* one DoInput(maxBytes) call = the consumed prefix of the queue, packet by packet *)
Theorem mrecv_loop_prefix : forall rc queue maxBytes total out rest,
  mrecv_loop inflate rc maxBytes total queue = (out, rest) ->
  exists n, rest = skipn n queue /\ mrecv_all inflate rc (firstn n queue) = out.
Proof.
  intros rc. induction queue as [|[a p] q IH]; intros mb tot out rest; cbn [mrecv_loop].
  - intros E. injection E as <- <-. exists 0%nat. auto.
  - destruct (tot <? mb).
    2:{ intros E. injection E as <- <-. exists 0%nat. auto. }
    destruct (lenN (takeN (rc_mtu rc) p) =? 0) eqn:Hz.
    + intros E. injection E as <- <-. exists 1%nat. split; [reflexivity|].
      cbn [firstn mrecv_all]. unfold mrecv_packet. rewrite Hz. reflexivity.
    + destruct (mrecv_loop inflate rc mb (tot + lenN (takeN (rc_mtu rc) p)) q) as [o2 r2] eqn:E2.
      intros E. injection E as <- <-.
      destruct (IH _ _ _ _ E2) as (n & Hr & Ha). exists (S n). split; [exact Hr|].
      cbn [firstn mrecv_all]. now rewrite Ha.
Qed.

End MiniLoop.
