(* C03 -- WebSocket pair whose slave gateways are MessageIOGateways with the DEFAULT encoding: the
   slave premise of WsProofs is discharged from FrameProofs/FrameDefault, giving theorems whose only
   hypotheses are the Message domain and "masking keys are four bytes".  Also the finding about the
   client's masking-key byte order as a refuted lemma. *)
From Coq Require Import List NArith ZArith Bool Lia ZifyBool.
From Muscle Require Import Gen.Consts Gw.GwBase Gw.GwLemmas Gw.FrameModel Gw.FrameProofs Gw.FrameDefault
  Gw.WsModel Gw.WsProofs Gw.TransportProofs.
Import ListNotations.
Local Open Scope N_scope.

Section WsDefault.
  Variable client : bool.          (* true: the sender is the client (masked frames), the receiver the server *)
  Variable max_in : N.             (* the receiving slave's incoming size limit *)
  Variable keys0 : list bytes.     (* the masking keys the client will draw, in order *)

  Definition wsd_sflat (m : bytes) : bytes := snd (d_flat tt m).
  Definition wsd_sfeed := d_feed max_in.
  Definition wsd_wfm (m : bytes) : Prop := d_wfb max_in m /\ f_hs + blen m <= ws_max_payload.
  Definition wsd_sinv (s : frecv unit) : Prop := s = idle unit tt.

  Lemma wsd_slave_ok sl m : wsd_sinv sl -> wsd_wfm m ->
    wsd_sflat m <> [] /\ blen (wsd_sflat m) <= ws_max_payload /\
    exists sl', wsd_sfeed sl (wsd_sflat m) = (sl', [m]) /\ wsd_sinv sl'.
  Proof.
    intros -> [Hw Hsz]. unfold wsd_sflat, d_flat. cbn [snd]. split; [discriminate|]. split.
    - rewrite !blen_app, !blen_le32. rewrite f_hs_is_8 in Hsz. lia.
    - destruct (f_feed_frame bytes unit unit d_flat d_unflat d_body_size max_in d_flat_len (fun _ _ => True) (d_wfb max_in)
                  (d_codec_sync max_in) tt tt m I Hw) as ([] & Hf & _).
      exists (idle unit tt). split; [exact Hf|reflexivity].
  Qed.

  Notation wsd_run := (sys_run ws_queue (ws_do_output bytes wsd_sflat client) (wr_do_input bytes (frecv unit) wsd_sfeed (negb client))).
  Definition wsd_sys0 := ws_sys0 bytes (frecv unit) keys0 (idle unit tt).
  Definition wsd_rem := ws_rem bytes wsd_sflat client.

  Hypothesis keys_ok : Forall (fun k => length k = 4%nat) keys0.

  Theorem wsd_prefix_safety (evs : list (event bytes)) :
    Forall (ev_wf wsd_wfm) evs -> exists tl, ev_msgs evs = s_dlv (wsd_run wsd_sys0 evs) ++ tl.
  Proof.
    exact (ws_prefix_safety bytes (frecv unit) wsd_sflat wsd_sfeed client keys0 wsd_wfm wsd_sinv (idle unit tt) eq_refl wsd_slave_ok keys_ok evs).
  Qed.

  Theorem wsd_completeness (evs : list (event bytes)) :
    Forall (ev_wf wsd_wfm) evs ->
    wsd_rem (s_snd (wsd_run wsd_sys0 evs)) = [] -> s_pipe (wsd_run wsd_sys0 evs) = [] ->
    s_dlv (wsd_run wsd_sys0 evs) = ev_msgs evs.
  Proof.
    exact (ws_completeness bytes (frecv unit) wsd_sflat wsd_sfeed client keys0 wsd_wfm wsd_sinv (idle unit tt) eq_refl wsd_slave_ok keys_ok evs).
  Qed.

  Theorem wsd_fair_completion (evs : list (event bytes)) (rs : list (list (event bytes))) :
    Forall (ev_wf wsd_wfm) evs -> Forall round rs ->
    (measure wsd_rem (fun _ => 0%nat) (wsd_run wsd_sys0 evs) <= length rs)%nat ->
    let st := wsd_run wsd_sys0 (evs ++ concat rs) in
    quiet wsd_rem st /\ s_dlv st = ev_msgs evs.
  Proof.
    exact (ws_fair_completion bytes (frecv unit) wsd_sflat wsd_sfeed client keys0 wsd_wfm wsd_sinv (idle unit tt) eq_refl wsd_slave_ok keys_ok evs rs).
  Qed.
End WsDefault.

(* ---- the finding: before the fix the client put the masking key on the wire byte-reversed
   (WriteInt32 through a BigEndianDataFlattener on a little-endian host) while masking the payload
   with the un-reversed bytes.  A frame built that way is un-masked by the (RFC-conformant) server
   to something other than the payload unless the key is a palindrome; here: key 1,2,3,4 and payload
   10,20,30,40,50 arrive as 15,21,31,45,55. *)
Definition ws_frame_old (key : bytes) (op : N) (data : bytes) : bytes :=
  [WS_FIN + op] ++ [128 + blen data] ++ rev key ++ ws_xor key 0 data.

Lemma ws_mask_order_refuted :
  let key := [1; 2; 3; 4] in let data := [10; 20; 30; 40; 50] in
  let echo (s : unit) (d : bytes) := (s, [d]) in
  snd (wr_feed bytes unit echo false (wr_init tt) (ws_frame_old key WS_BINARY data)) = [[15; 21; 31; 45; 55]] /\
  snd (wr_feed bytes unit echo false (wr_init tt) (ws_frame true key WS_BINARY data)) = [data].
Proof. vm_compute. auto. Qed.
