(* C12 -- proofs about the MiniPacketTunnelIOGateway model (Gw/MiniTunnel.v).

   zlib is external: the theorems are stated in a Section whose variables stand for
   ZLibCodec::Deflate(independent=true) / ZLibCodec::Inflate and whose single hypothesis
   (whatever deflate produced, inflate turns back into the input) becomes a premise. *)
From Coq Require Import List Arith NArith Bool Lia.
From Coq Require Import Strings.Byte.
From Muscle Require Import Common.LE Gen.Consts Gw.Tunnel Gw.TunnelProofs Gw.MiniTunnel.
Import ListNotations.
Local Open Scope N_scope.

(* ------------------------------------------------------------------ translated constants *)

Lemma PHS_val : PHS = 12. Proof. reflexivity. Qed.
Lemma CHS_val : CHS = 4. Proof. reflexivity. Qed.
Lemma PID_MOD_val : PID_MOD = 2 ^ 24. Proof. reflexivity. Qed.
Lemma CL_SHIFT_val : CL_SHIFT = 24. Proof. reflexivity. Qed.
Lemma W2_val : 2 * c_C12_SIZEOF_UINT32 = 8. Proof. reflexivity. Qed.

(* ------------------------------------------------------------------ chunks *)

Lemma lenN_enc_chunk (m : msg) : lenN (enc_chunk m) = CHS + lenN m.
Proof. unfold enc_chunk. rewrite lenN_app, lenN_le32, CHS_val. reflexivity. Qed.

Lemma enc_chunks_cons m ms : enc_chunks (m :: ms) = enc_chunk m ++ enc_chunks ms.
Proof. reflexivity. Qed.

Lemma enc_chunks_app a b : enc_chunks (a ++ b) = enc_chunks a ++ enc_chunks b.
Proof. unfold enc_chunks. now rewrite map_app, concat_app. Qed.

Lemma length_enc_chunks ms : (length ms <= length (enc_chunks ms))%nat.
Proof.
  induction ms as [|m ms IH]; [cbn; lia|].
  rewrite enc_chunks_cons, app_length. cbn [length].
  pose proof (lenN_enc_chunk m) as H. unfold lenN in H. rewrite CHS_val in H. lia.
Qed.

Lemma mparse_enc ms : forall fuel,
  Forall (fun m => lenN m < two32) ms -> (length ms <= fuel)%nat ->
  mparse fuel (enc_chunks ms) = ms.
Proof.
  induction ms as [|m ms IH]; intros fuel Hs Hf.
  - destruct fuel; reflexivity.
  - destruct fuel as [|fuel]; [cbn in Hf; lia|]. inversion Hs as [|? ? Hm Hms]; subst.
    cbn [mparse]. rewrite enc_chunks_cons.
    assert (HL : (CHS <=? lenN (enc_chunk m ++ enc_chunks ms)) = true).
    { apply N.leb_le. rewrite lenN_app, lenN_enc_chunk. lia. }
    rewrite HL. unfold enc_chunk. rewrite <- app_assoc, rd32_le32, u32_small by exact Hm.
    assert (HC : (lenN m <=? lenN (m ++ enc_chunks ms)) = true).
    { apply N.leb_le. rewrite lenN_app. lia. }
    rewrite HC, takeN_app_exact, dropN_app_exact. cbn [length] in Hf. rewrite IH by (assumption || lia). reflexivity.
Qed.

(* a receiver with a smaller MTU sees a prefix of the chunk sequence: it extracts nothing but chunks that are there *)
Lemma mparse_truncated_Forall (P : msg -> Prop) ms : forall fuel k,
  Forall (fun m => lenN m < two32) ms -> Forall P ms ->
  Forall P (mparse fuel (takeN k (enc_chunks ms))).
Proof.
  induction ms as [|m ms IH]; intros fuel k Hs HP.
  - unfold takeN. cbn [enc_chunks map concat]. rewrite firstn_nil. destruct fuel; constructor.
  - inversion Hs as [|? ? Hm Hms]; subst. inversion HP as [|? ? Pm Pms]; subst.
    destruct fuel as [|fuel]; [constructor|].
    rewrite enc_chunks_cons.
    destruct (N.le_gt_cases (lenN (enc_chunk m)) k) as [Hk|Hk].
    + rewrite takeN_app_ge by exact Hk. cbn [mparse].
      assert (HL : (CHS <=? lenN (enc_chunk m ++ takeN (k - lenN (enc_chunk m)) (enc_chunks ms))) = true).
      { apply N.leb_le. rewrite lenN_app, lenN_enc_chunk. lia. }
      rewrite HL. unfold enc_chunk. rewrite <- app_assoc, rd32_le32, u32_small by exact Hm.
      assert (HC : (lenN m <=? lenN (m ++ takeN (k - lenN (le32 (lenN m) ++ m)) (enc_chunks ms))) = true).
      { apply N.leb_le. rewrite lenN_app. lia. }
      rewrite HC, takeN_app_exact, dropN_app_exact. constructor; [exact Pm|]. now apply IH.
    + rewrite takeN_app_le by lia. rewrite lenN_enc_chunk in Hk. cbn [mparse].
      destruct (CHS <=? lenN (takeN k (enc_chunk m))) eqn:H4; [|constructor].
      apply N.leb_le in H4. rewrite lenN_takeN, lenN_enc_chunk in H4.
      unfold enc_chunk. rewrite takeN_app_ge by (rewrite lenN_le32; rewrite CHS_val in H4; lia).
      rewrite rd32_le32, u32_small by exact Hm.
      assert (HC : (lenN m <=? lenN (takeN (k - lenN (le32 (lenN m))) m)) = false).
      { apply N.leb_gt. rewrite lenN_takeN, lenN_le32. rewrite CHS_val in *. lia. }
      rewrite HC. constructor.
Qed.

(* ------------------------------------------------------------------ the header word *)

Lemma land_low_shift pid lvl : pid < 2 ^ 24 -> N.land pid (N.shiftl lvl 24) = 0.
Proof.
  intros Hp. apply N.bits_inj_0. intros i. rewrite N.land_spec.
  destruct (N.lt_ge_cases i 24) as [Hi|Hi].
  - rewrite (N.shiftl_spec_low lvl 24 i Hi). apply andb_false_r.
  - rewrite <- (N.mod_small pid (2 ^ 24)) by exact Hp.
    rewrite N.mod_pow2_bits_high by exact Hi. reflexivity.
Qed.

Lemma cl_word_spec pid lvl :
  pid < 2 ^ 24 -> lvl < 256 ->
  let w := N.lor pid (N.shiftl lvl CL_SHIFT) in
  w < two32 /\ (w / 2 ^ CL_SHIFT) mod 256 = lvl.
Proof.
  intros Hp Hl. rewrite CL_SHIFT_val. cbv zeta.
  assert (E : N.lor pid (N.shiftl lvl 24) = pid + lvl * 2 ^ 24).
  { rewrite <- N.lxor_lor by (now apply land_low_shift).
    rewrite <- N.add_nocarry_lxor by (now apply land_low_shift).
    now rewrite N.shiftl_mul_pow2. }
  rewrite E. split.
  - unfold two32. change (2 ^ 24) with 16777216 in *. lia.
  - rewrite N.div_add by discriminate. rewrite N.div_small by exact Hp. cbn [N.add]. now apply N.mod_small.
Qed.

Lemma plain_word_spec w : w < 2 ^ 24 -> (w / 2 ^ CL_SHIFT) mod 256 = 0.
Proof. intros H. rewrite CL_SHIFT_val, N.div_small by exact H. reflexivity. Qed.

(* ------------------------------------------------------------------ shapes of the packet buffer *)

Definition shape (c : mcfg) (w0 : N) (ms : list msg) : list byte :=
  le32 (mc_magic c) ++ le32 (mc_sex c) ++ le32 w0 ++ enc_chunks ms.

Definition mcfg_ok (c : mcfg) : Prop :=
  mc_magic c < two32 /\ mc_sex c < two32 /\ mc_level c < 256 /\ PHS + CHS < mc_mtu c.

(* the packet buffer is empty, or a header followed by the chunks ms *)
Definition pkt_is (c : mcfg) (pkt : list byte) (ms : list msg) : Prop :=
  (pkt = [] /\ ms = []) \/
  (exists w0, w0 < two32 /\ (mc_level c = 0 -> w0 < 2 ^ 24) /\ pkt = shape c w0 ms).

Definition mfits (c : mcfg) (m : msg) : bool := PHS + CHS + lenN m <=? mc_mtu c.

Lemma lenN_shape c w0 ms : lenN (shape c w0 ms) = PHS + lenN (enc_chunks ms).
Proof. unfold shape. rewrite !lenN_app, !lenN_le32, PHS_val. lia. Qed.

Lemma shape_snoc c w0 ms m : shape c w0 ms ++ enc_chunk m = shape c w0 (ms ++ [m]).
Proof.
  unfold shape. rewrite <- !app_assoc. do 3 f_equal.
  rewrite enc_chunks_app. cbn [enc_chunks map concat]. now rewrite app_nil_r.
Qed.

Lemma mheader_shape c pid : mheader c pid ++ [] = shape c (N.lor pid (N.shiftl (mc_level c) CL_SHIFT)) [].
Proof. unfold mheader, shape. cbn [enc_chunks map concat]. now rewrite <- !app_assoc. Qed.

Lemma mfill_spec c pid : forall q pkt ms0 pkt' q',
  mcfg_ok c -> pid < 2 ^ 24 ->
  pkt_is c pkt ms0 -> lenN pkt <= mc_mtu c ->
  mfill c pid pkt q = (pkt', q') ->
  exists ms1 d,
    pkt_is c pkt' (ms0 ++ ms1) /\ lenN pkt' <= mc_mtu c
    /\ q = d ++ q' /\ filter (mfits c) d = ms1.
Proof.
  induction q as [|m q IH]; intros pkt ms0 pkt' q' Hc Hpid Hpk Hsz; cbn [mfill].
  - intros E. injection E as <- <-. exists [], []. rewrite app_nil_r. auto.
  - destruct (mc_mtu c <? PHS + CHS + lenN m) eqn:Hbig.
    + (* can never fit: dropped *)
      intros E. destruct (IH _ _ _ _ Hc Hpid Hpk Hsz E) as (ms1 & d & H1 & H2 & H3 & H4).
      exists ms1, (m :: d). split; [exact H1|]. split; [exact H2|]. split; [now rewrite H3|].
      cbn [filter]. unfold mfits at 1. apply N.ltb_lt in Hbig.
      destruct (N.leb_spec (PHS + CHS + lenN m) (mc_mtu c)); [lia|exact H4].
    + apply N.ltb_ge in Hbig.
      destruct (lenN pkt + (if lenN pkt =? 0 then PHS else 0) + CHS + lenN m <=? mc_mtu c) eqn:Hroom.
      * apply N.leb_le in Hroom.
        set (pkt1 := if lenN pkt =? 0 then mheader c pid else pkt) in *.
        assert (Hpk1 : pkt_is c (pkt1 ++ enc_chunk m) (ms0 ++ [m]) /\ lenN (pkt1 ++ enc_chunk m) <= mc_mtu c).
        { destruct Hpk as [[-> ->]|(w0 & Hw0 & Hlv & ->)].
          - subst pkt1. cbn [lenN length N.of_nat N.eqb] in *. change (lenN (@nil byte)) with 0 in *. cbn [N.eqb] in *.
            split.
            + right. exists (N.lor pid (N.shiftl (mc_level c) CL_SHIFT)).
              destruct Hc as (_ & _ & Hlvl & _).
              destruct (cl_word_spec pid (mc_level c) Hpid Hlvl) as [Hw _].
              split; [exact Hw|]. split.
              * intros E0. rewrite E0. rewrite N.shiftl_0_l, N.lor_0_r. exact Hpid.
              * rewrite <- (app_nil_r (mheader c pid)), mheader_shape. cbn [app]. apply shape_snoc.
            + rewrite lenN_app, lenN_enc_chunk. unfold mheader. rewrite !lenN_app, !lenN_le32.
              rewrite PHS_val, CHS_val in *. lia.
          - assert (Hnz : (lenN (shape c w0 ms0) =? 0) = false).
            { apply N.eqb_neq. rewrite lenN_shape, PHS_val. lia. }
            subst pkt1. rewrite Hnz in *. split.
            + right. exists w0. rewrite shape_snoc. auto.
            + rewrite lenN_app, lenN_enc_chunk. lia. }
        destruct Hpk1 as [Hpk1 Hsz1].
        intros E. destruct (IH _ _ _ _ Hc Hpid Hpk1 Hsz1 E) as (ms1 & d & H1 & H2 & H3 & H4).
        exists (m :: ms1), (m :: d). rewrite <- app_assoc in H1. cbn [app] in H1.
        split; [exact H1|]. split; [exact H2|]. split; [now rewrite H3|].
        cbn [filter]. unfold mfits at 1. destruct (N.leb_spec (PHS + CHS + lenN m) (mc_mtu c)); [now rewrite H4|lia].
      * intros E. injection E as <- <-. exists [], []. rewrite app_nil_r. auto.
Qed.

(* ------------------------------------------------------------------ what the receiver makes of a packet *)

Section WithZlib.

Variable deflate : N -> list byte -> option (list byte).
Variable inflate : list byte -> option (list byte).
Hypothesis inflate_deflate : forall lvl x d, deflate lvl x = Some d -> inflate d = Some x.

(* a datagram made of a well-formed header followed by [body] *)
Lemma mrecv_header rc a mg sx w body :
  mg < two32 -> sx < two32 -> w < two32 ->
  rc_misc rc = false ->
  PHS + lenN body <= rc_mtu rc ->
  mrecv_packet inflate rc a (le32 mg ++ le32 sx ++ le32 w ++ body) =
    if (mg =? rc_magic rc) && sex_ok rc sx then
      let clevel := (w / 2 ^ CL_SHIFT) mod 256 in
      let b := if 0 <? clevel then match inflate body with Some x => x | None => [] end else body in
      map (pair a) (mparse (length b) b)
    else [].
Proof.
  intros Hmg Hsx Hw Hmisc Hlen. unfold mrecv_packet.
  assert (HL : lenN (le32 mg ++ le32 sx ++ le32 w ++ body) = PHS + lenN body).
  { rewrite !lenN_app, !lenN_le32, PHS_val. lia. }
  rewrite takeN_all by lia. rewrite HL.
  assert (H0 : (PHS + lenN body =? 0) = false) by (apply N.eqb_neq; rewrite PHS_val; lia).
  rewrite H0, Hmisc. cbn [andb].
  assert (H1 : (PHS <=? PHS + lenN body) = true) by (apply N.leb_le; lia).
  rewrite H1. rewrite rd32_le32, rd32_le32, rd32_le32. rewrite !u32_small by assumption.
  unfold sex_ok. reflexivity.
Qed.

(* a genuine packet: the wire form of a packet buffer that holds the chunks ms *)
Lemma mrecv_wire c rc a pid w0 ms :
  mcfg_ok c -> pid < 2 ^ 24 -> w0 < two32 -> (mc_level c = 0 -> w0 < 2 ^ 24) ->
  Forall (fun m => lenN m < two32) ms ->
  rc_misc rc = false -> lenN (shape c w0 ms) <= rc_mtu rc ->
  let '(w, pkt') := mwire deflate c pid (shape c w0 ms) in
  mrecv_packet inflate rc a w =
    (if (mc_magic c =? rc_magic rc) && sex_ok rc (mc_sex c) then map (pair a) ms else [])
  /\ pkt_is c pkt' ms /\ lenN pkt' = lenN (shape c w0 ms) /\ lenN w <= lenN (shape c w0 ms)
  /\ (mc_level c = 0 -> w = shape c w0 ms).
Proof.
  intros (Hmg & Hsx & Hlvl & Hmtu) Hpid Hw0 Hw0l Hms Hmisc Hlen.
  rewrite lenN_shape in Hlen.
  assert (Hparse : mparse (length (enc_chunks ms)) (enc_chunks ms) = ms).
  { apply mparse_enc; [exact Hms|apply length_enc_chunks]. }
  (* the three parts of the buffer *)
  assert (T8 : takeN (2 * c_C12_SIZEOF_UINT32) (shape c w0 ms) = le32 (mc_magic c) ++ le32 (mc_sex c)).
  { unfold shape. rewrite W2_val. rewrite app_assoc.
    change 8 with (lenN (le32 (mc_magic c) ++ le32 (mc_sex c))). apply takeN_app_exact. }
  assert (D12 : dropN PHS (shape c w0 ms) = enc_chunks ms).
  { unfold shape. rewrite PHS_val. rewrite !app_assoc.
    change 12 with (lenN (((le32 (mc_magic c) ++ le32 (mc_sex c)) ++ le32 w0))). apply dropN_app_exact. }
  (* the uncompressed form with the level patched out of the header *)
  assert (Hpatched :
    mrecv_packet inflate rc a (le32 (mc_magic c) ++ le32 (mc_sex c) ++ le32 pid ++ enc_chunks ms) =
      (if (mc_magic c =? rc_magic rc) && sex_ok rc (mc_sex c) then map (pair a) ms else [])).
  { rewrite mrecv_header; try assumption; [|unfold two32; change (2 ^ 24) with 16777216 in Hpid; lia].
    destruct ((mc_magic c =? rc_magic rc) && sex_ok rc (mc_sex c)); [|reflexivity].
    cbv zeta. rewrite plain_word_spec by exact Hpid. cbn [N.ltb N.compare]. now rewrite Hparse. }
  unfold mwire. destruct (0 <? mc_level c) eqn:Hl.
  - apply N.ltb_lt in Hl. rewrite T8, D12.
    assert (Hpatch_all :
      mrecv_packet inflate rc a ((le32 (mc_magic c) ++ le32 (mc_sex c)) ++ le32 pid ++ enc_chunks ms) =
        (if (mc_magic c =? rc_magic rc) && sex_ok rc (mc_sex c) then map (pair a) ms else [])
      /\ pkt_is c ((le32 (mc_magic c) ++ le32 (mc_sex c)) ++ le32 pid ++ enc_chunks ms) ms
      /\ lenN ((le32 (mc_magic c) ++ le32 (mc_sex c)) ++ le32 pid ++ enc_chunks ms) = lenN (shape c w0 ms)
      /\ lenN ((le32 (mc_magic c) ++ le32 (mc_sex c)) ++ le32 pid ++ enc_chunks ms) <= lenN (shape c w0 ms)
      /\ (mc_level c = 0 -> (le32 (mc_magic c) ++ le32 (mc_sex c)) ++ le32 pid ++ enc_chunks ms = shape c w0 ms)).
    { rewrite <- app_assoc. split; [exact Hpatched|]. split.
      - right. exists pid. split; [unfold two32; change (2 ^ 24) with 16777216 in Hpid; lia|]. split; [lia|reflexivity].
      - unfold shape. rewrite !lenN_app, !lenN_le32. split; [lia|]. split; [lia|]. intros E0. lia. }
    destruct (deflate (mc_level c) (enc_chunks ms)) as [d|] eqn:Hd; [|exact Hpatch_all].
    destruct (PHS + lenN d <? lenN (shape c w0 ms)) eqn:Hsm; [|exact Hpatch_all].
    apply N.ltb_lt in Hsm. rewrite lenN_shape in Hsm.
    destruct (cl_word_spec pid (mc_level c) Hpid Hlvl) as [Hw Hcl].
    split; [|split; [|split; [|split]]]; [| | | |intros E0; lia].
    + rewrite <- app_assoc. rewrite mrecv_header; try assumption; [|lia].
      destruct ((mc_magic c =? rc_magic rc) && sex_ok rc (mc_sex c)); [|reflexivity].
      cbv zeta. rewrite Hcl.
      assert (Hlt : (0 <? mc_level c) = true) by now apply N.ltb_lt.
      rewrite Hlt, (inflate_deflate _ _ _ Hd), Hparse. reflexivity.
    + right. exists w0. auto.
    + reflexivity.
    + rewrite !lenN_app, !lenN_le32, lenN_shape. rewrite PHS_val in *. lia.
  - apply N.ltb_ge in Hl. assert (Hl0 : mc_level c = 0) by lia.
    split; [|split; [|split; [|split]]]; [| | | |reflexivity].
    + unfold shape. rewrite mrecv_header; try assumption.
      destruct ((mc_magic c =? rc_magic rc) && sex_ok rc (mc_sex c)); [|reflexivity].
      cbv zeta. rewrite plain_word_spec by (now apply Hw0l). cbn [N.ltb N.compare]. now rewrite Hparse.
    + right. exists w0. auto.
    + reflexivity.
    + lia.
Qed.

(* ------------------------------------------------------------------ the run of a sender *)

Fixpoint madded (ops : list mop) : list msg :=
  match ops with
  | [] => []
  | MAdd m :: ops' => m :: madded ops'
  | _ :: ops' => madded ops'
  end.

Fixpoint no_msetid (ops : list mop) : Prop :=
  match ops with
  | [] => True
  | MSetId _ :: _ => False
  | _ :: ops' => no_msetid ops'
  end.

(* every written packet w_i is, to a receiver at address a, exactly the chunk list mss_i *)
Definition wires_ok (c : mcfg) (rc : rcfg) (a : addr) (pkts : list packet) (mss : list (list msg)) : Prop :=
  Forall2 (fun w ms => mrecv_packet inflate rc a w =
                       (if (mc_magic c =? rc_magic rc) && sex_ok rc (mc_sex c) then map (pair a) ms else [])
                       /\ (mc_level c = 0 -> exists w0, w0 < 2 ^ 24 /\ w = shape c w0 ms))
          pkts mss.

(* ghost view: [all] = every Message added so far; [mss] = the chunk lists of the packets written so far;
   the packet buffer holds [pend]; the Messages that can fit at all are those written, pending or queued *)
Definition minv (c : mcfg) (all : list msg) (mss : list (list msg)) (st : mstate) : Prop :=
  m_pid st < 2 ^ 24 /\ lenN (m_pkt st) <= mc_mtu c /\
  exists pend d, pkt_is c (m_pkt st) pend /\ all = d ++ m_q st /\ filter (mfits c) d = concat mss ++ pend.

Lemma mout_loop_spec c rc a all : forall fuel mb tot bud mss st pkts st',
  mcfg_ok c -> rc_misc rc = false -> mc_mtu c <= rc_mtu rc ->
  Forall (fun m => lenN m < two32) all ->
  minv c all mss st ->
  mout_loop deflate fuel c mb tot bud st = (pkts, st') ->
  exists mss', wires_ok c rc a pkts mss' /\ minv c all (mss ++ mss') st'.
Proof.
  induction fuel as [|fuel IH]; intros mb tot bud mss st pkts st' Hc Hmisc Hmtu Hall Hinv; cbn [mout_loop].
  - intros E. injection E as <- <-. exists []. rewrite app_nil_r. split; [constructor|exact Hinv].
  - destruct (tot <? mb).
    2:{ intros E. injection E as <- <-. exists []. rewrite app_nil_r. split; [constructor|exact Hinv]. }
    destruct Hinv as (Hpid & Hsz & pend & d & Hpk & Hd & Hf).
    destruct (mfill c (m_pid st) (m_pkt st) (m_q st)) as [pkt q] eqn:Ef.
    destruct (mfill_spec c (m_pid st) _ _ _ _ _ Hc Hpid Hpk Hsz Ef) as (ms1 & d1 & Hpk1 & Hsz1 & Hq & Hf1).
    assert (Hd1 : all = (d ++ d1) ++ q) by (rewrite <- app_assoc, <- Hq; exact Hd).
    assert (Hf2 : filter (mfits c) (d ++ d1) = concat mss ++ (pend ++ ms1)).
    { rewrite filter_app, Hf, Hf1. now rewrite app_assoc. }
    assert (Hsmall : Forall (fun m => lenN m < two32) (pend ++ ms1)).
    { apply Forall_forall. intros m Hm. rewrite Forall_forall in Hall. apply Hall.
      assert (Hin : In m (filter (mfits c) (d ++ d1))) by (rewrite Hf2; apply in_app_iff; now right).
      apply filter_In in Hin as [Hin _]. rewrite Hd1. apply in_app_iff. now left. }
    destruct (0 <? lenN pkt) eqn:Hpos.
    + apply N.ltb_lt in Hpos.
      destruct Hpk1 as [[-> _]|(w0 & Hw0 & Hlv & ->)]; [cbn in Hpos; lia|].
      pose proof (mrecv_wire c rc a (m_pid st) w0 (pend ++ ms1) Hc Hpid Hw0 Hlv Hsmall Hmisc ltac:(lia)) as Hw.
      destruct (mwire deflate c (m_pid st) (shape c w0 (pend ++ ms1))) as [w pkt'] eqn:Ew.
      destruct Hw as (Hrecv & Hpk' & Hlen' & Hwlen & Hplain).
      destruct (bud =? 0).
      * intros E. injection E as <- <-. exists []. rewrite app_nil_r. split; [constructor|].
        split; [exact Hpid|]. cbn [m_pid m_q m_pkt]. split; [lia|]. exists (pend ++ ms1), (d ++ d1). auto.
      * destruct (mout_loop deflate fuel c mb (tot + lenN w) (bud - 1) (mkM ((m_pid st + 1) mod PID_MOD) q [])) as [ps st1] eqn:El.
        intros E. injection E as <- <-.
        assert (Hinv1 : minv c all (mss ++ [pend ++ ms1]) (mkM ((m_pid st + 1) mod PID_MOD) q [])).
        { split; [cbn [m_pid]; rewrite PID_MOD_val; apply N.mod_upper_bound; discriminate|].
          cbn [m_pid m_q m_pkt]. split; [change (lenN (@nil byte)) with 0; lia|].
          exists [], (d ++ d1). split; [left; auto|]. split; [exact Hd1|].
          rewrite concat_app. cbn [concat]. rewrite !app_nil_r. exact Hf2. }
        destruct (IH _ _ _ _ _ _ _ Hc Hmisc Hmtu Hall Hinv1 El) as (mss' & Hw' & Hinv').
        exists ((pend ++ ms1) :: mss'). split; [constructor; [split; [exact Hrecv|intros E0; exists w0; split; [now apply Hlv|now apply Hplain]]|exact Hw']|].
        rewrite <- app_assoc in Hinv'. exact Hinv'.
    + intros E. injection E as <- <-. exists []. rewrite app_nil_r. split; [constructor|].
      split; [exact Hpid|]. cbn [m_pid m_q m_pkt]. split; [exact Hsz1|]. exists (pend ++ ms1), (d ++ d1). auto.
Qed.

Lemma minv_init c pid0 : pid0 < 2 ^ 24 -> minv c [] [] (m_init pid0).
Proof.
  intros H. split; [exact H|]. cbn [m_init m_pid m_q m_pkt]. split; [change (lenN (@nil byte)) with 0; lia|].
  exists [], []. split; [left; auto|]. auto.
Qed.

Lemma mrun_spec c rc a : forall ops all mss st st' pkts,
  mcfg_ok c -> rc_misc rc = false -> mc_mtu c <= rc_mtu rc -> no_msetid ops ->
  Forall (fun m => lenN m < two32) (all ++ madded ops) ->
  minv c all mss st ->
  mrun deflate c st ops = (st', pkts) ->
  exists mss', wires_ok c rc a pkts mss' /\ minv c (all ++ madded ops) (mss ++ mss') st'.
Proof.
  induction ops as [|o ops IH]; intros all mss st st' pkts Hc Hmisc Hmtu Hns Hall Hinv; cbn [mrun].
  - intros E. injection E as <- <-. exists []. cbn [madded]. rewrite !app_nil_r. split; [constructor|exact Hinv].
  - destruct o as [m|mb bud|pid]; cbn [no_msetid] in Hns; [| |tauto]; cbn [mstep madded] in *.
    + destruct (mrun deflate c (mkM (m_pid st) (m_q st ++ [m]) (m_pkt st)) ops) as [st2 p2] eqn:E2.
      intros E. injection E as <- <-. cbn [app].
      assert (Hinv1 : minv c (all ++ [m]) mss (mkM (m_pid st) (m_q st ++ [m]) (m_pkt st))).
      { destruct Hinv as (Hpid & Hsz & pend & d & Hpk & Hd & Hf). split; [exact Hpid|]. split; [exact Hsz|].
        exists pend, d. cbn [m_pkt m_q]. split; [exact Hpk|]. split; [now rewrite Hd, app_assoc|exact Hf]. }
      replace (all ++ m :: madded ops) with ((all ++ [m]) ++ madded ops) in * by (now rewrite <- app_assoc).
      exact (IH _ _ _ _ _ Hc Hmisc Hmtu Hns Hall Hinv1 E2).
    + destruct (mout_loop deflate (mout_fuel st) c mb 0 bud st) as [ps st1] eqn:E1.
      destruct (mrun deflate c st1 ops) as [st2 p2] eqn:E2.
      intros E. injection E as <- <-.
      assert (Hall0 : Forall (fun m => lenN m < two32) all) by (apply Forall_app in Hall; tauto).
      destruct (mout_loop_spec c rc a all _ _ _ _ _ _ _ _ Hc Hmisc Hmtu Hall0 Hinv E1) as (mss1 & Hw1 & Hinv1).
      destruct (IH _ _ _ _ _ Hc Hmisc Hmtu Hns Hall Hinv1 E2) as (mss2 & Hw2 & Hinv2).
      exists (mss1 ++ mss2). rewrite app_assoc. split; [|exact Hinv2].
      unfold wires_ok in *. now apply Forall2_app.
Qed.

(* ------------------------------------------------------------------ theorems *)

Record mini_run := mkMRun { mr_cfg : mcfg; mr_pid0 : N; mr_ops : list mop }.

Definition mr_packets (s : mini_run) : list packet := snd (mrun deflate (mr_cfg s) (m_init (mr_pid0 s)) (mr_ops s)).
Definition mr_msgs (s : mini_run) : list msg := madded (mr_ops s).

Definition mr_ok (s : mini_run) : Prop :=
  mcfg_ok (mr_cfg s) /\ mr_pid0 s < 2 ^ 24 /\ no_msetid (mr_ops s)
  /\ Forall (fun m => lenN m < two32) (mr_msgs s).

Lemma mrecv_all_app rc n1 n2 : mrecv_all inflate rc (n1 ++ n2) = mrecv_all inflate rc n1 ++ mrecv_all inflate rc n2.
Proof.
  induction n1 as [|[a p] n1 IH]; [reflexivity|]. cbn [app mrecv_all]. now rewrite IH, app_assoc.
Qed.

Lemma mrecv_foreign rc a p : rc_misc rc = false -> PHS <= rc_mtu rc -> foreign (rc_magic rc) p -> mrecv_packet inflate rc a p = [].
Proof.
  intros Hmisc Hmtu Hf. unfold mrecv_packet. rewrite Hmisc. cbn [andb].
  destruct (lenN (takeN (rc_mtu rc) p) =? 0); [reflexivity|].
  destruct (PHS <=? lenN (takeN (rc_mtu rc) p)); [|reflexivity].
  unfold foreign in Hf. rewrite <- (first_word_takeN _ (rc_mtu rc)) in Hf by (rewrite PHS_val in Hmtu; lia).
  unfold first_word_is in Hf.
  destruct (rd32 (takeN (rc_mtu rc) p)) as [[mg b1]|]; [|reflexivity].
  destruct (rd32 b1) as [[sx b2]|]; [|reflexivity].
  destruct (rd32 b2) as [[cl b3]|]; [|reflexivity].
  rewrite Hf. reflexivity.
Qed.

Lemma mrecv_packet_idem rc a p : mrecv_packet inflate rc a (takeN (rc_mtu rc) p) = mrecv_packet inflate rc a p.
Proof. unfold mrecv_packet. rewrite takeN_takeN, N.min_id. reflexivity. Qed.

(* an uncompressed packet cut to a smaller MTU still yields nothing but its own chunks *)
Lemma mrecv_shape_trunc c rc a w0 ms :
  mcfg_ok c -> w0 < 2 ^ 24 -> Forall (fun m => lenN m < two32) ms ->
  rc_misc rc = false -> PHS <= rc_mtu rc ->
  forall d, In d (mrecv_packet inflate rc a (shape c w0 ms)) -> fst d = a /\ In (snd d) ms.
Proof.
  intros (Hmg & Hsx & _ & _) Hw0 Hms Hmisc Hmtu d. rewrite <- mrecv_packet_idem.
  assert (HT : takeN (rc_mtu rc) (shape c w0 ms)
               = le32 (mc_magic c) ++ le32 (mc_sex c) ++ le32 w0 ++ takeN (rc_mtu rc - PHS) (enc_chunks ms)).
  { unfold shape. rewrite !app_assoc. rewrite takeN_app_ge by (rewrite !lenN_app, !lenN_le32, PHS_val in *; lia).
    rewrite !lenN_app, !lenN_le32, PHS_val. reflexivity. }
  rewrite HT. rewrite mrecv_header; try assumption.
  2:{ unfold two32. change (2 ^ 24) with 16777216 in Hw0. lia. }
  2:{ rewrite lenN_takeN. lia. }
  destruct ((mc_magic c =? rc_magic rc) && sex_ok rc (mc_sex c)); [|intros []].
  cbv zeta. rewrite plain_word_spec by exact Hw0. cbn [N.ltb N.compare].
  intros Hd. apply in_map_iff in Hd as (m & <- & Hm). cbn [fst snd]. split; [reflexivity|].
  pose proof (mparse_truncated_Forall (fun x => In x ms) ms (length (takeN (rc_mtu rc - PHS) (enc_chunks ms))) (rc_mtu rc - PHS) Hms) as HF.
  assert (HF2 : Forall (fun x => In x ms) ms) by (apply Forall_forall; auto).
  specialize (HF HF2). rewrite Forall_forall in HF. now apply HF.
Qed.

(* one genuine packet, as seen by a receiver whose MTU may be smaller when the packet is not compressed *)
Lemma mini_packet_sound rc s a p m :
  rc_misc rc = false -> PHS <= rc_mtu rc -> mr_ok s ->
  (mc_level (mr_cfg s) = 0 \/ mc_mtu (mr_cfg s) <= rc_mtu rc) ->
  In p (mr_packets s) -> In (a, m) (mrecv_packet inflate rc a p) -> In m (mr_msgs s).
Proof.
  intros Hmisc Hrmtu (Hc & Hpid & Hns & Hsm) Hcase Hsent Hin.
  unfold mr_packets in Hsent.
  destruct (mrun deflate (mr_cfg s) (m_init (mr_pid0 s)) (mr_ops s)) as [st pkts] eqn:E. cbn [snd] in Hsent.
  (* whichever receiver the run is specified against, a chunk of a written packet is one of the Messages *)
  assert (Htail : forall mss pend d ms, In ms mss -> In m ms ->
            mr_msgs s = d ++ m_q st -> filter (mfits (mr_cfg s)) d = concat mss ++ pend -> In m (mr_msgs s)).
  { intros mss pend d ms Hms Hm Hd Hf.
    assert (Hin2 : In m (filter (mfits (mr_cfg s)) d)).
    { rewrite Hf. apply in_app_iff. left. apply in_concat. exists ms. auto. }
    apply filter_In in Hin2 as [Hin2 _]. rewrite Hd. apply in_app_iff. now left. }
  destruct Hcase as [Hl0|Hmtu].
  - set (rc' := mkRCfg (rc_magic rc) (rc_sex rc) (N.max (rc_mtu rc) (mc_mtu (mr_cfg s))) (rc_max_in rc) false).
    assert (Hmtu' : mc_mtu (mr_cfg s) <= rc_mtu rc') by (cbn [rc_mtu rc']; lia).
    destruct (mrun_spec (mr_cfg s) rc' a (mr_ops s) [] [] _ _ _ Hc eq_refl Hmtu' Hns Hsm (minv_init _ _ Hpid) E)
      as (mss & Hw & (_ & _ & pend & d & _ & Hd & Hf)).
    cbn [app] in Hd, Hf. unfold wires_ok in Hw.
    assert (Hex : exists ms w0, In ms mss /\ w0 < 2 ^ 24 /\ p = shape (mr_cfg s) w0 ms).
    { clear - Hw Hsent Hl0. induction Hw as [|w ms ws mss0 Hwm _ IHw]; [destruct Hsent|].
      destruct Hsent as [<-|Hs].
      - destruct (proj2 Hwm Hl0) as (w0 & H0 & H1). exists ms, w0. split; [now left|auto].
      - destruct (IHw Hs) as (ms' & w0 & H1 & H2). exists ms', w0. split; [now right|exact H2]. }
    destruct Hex as (ms & w0 & Hms & Hw0 & ->).
    assert (Hsmall : Forall (fun x => lenN x < two32) ms).
    { apply Forall_forall. intros x Hx. rewrite Forall_forall in Hsm. apply Hsm.
      assert (Hin2 : In x (filter (mfits (mr_cfg s)) d)).
      { rewrite Hf. apply in_app_iff. left. apply in_concat. exists ms. auto. }
      apply filter_In in Hin2 as [Hin2 _]. unfold mr_msgs. rewrite Hd. apply in_app_iff. now left. }
    destruct (mrecv_shape_trunc (mr_cfg s) rc a w0 ms Hc Hw0 Hsmall Hmisc Hrmtu _ Hin) as [_ Hm]. cbn [snd] in Hm.
    eapply Htail; eassumption.
  - destruct (mrun_spec (mr_cfg s) rc a (mr_ops s) [] [] _ _ _ Hc Hmisc Hmtu Hns Hsm (minv_init _ _ Hpid) E)
      as (mss & Hw & (_ & _ & pend & d & _ & Hd & Hf)).
    cbn [app] in Hd, Hf. unfold wires_ok in Hw.
    assert (Hex : exists ms, In ms mss /\ In (a, m) (if (mc_magic (mr_cfg s) =? rc_magic rc) && sex_ok rc (mc_sex (mr_cfg s)) then map (pair a) ms else [])).
    { clear - Hw Hsent Hin. induction Hw as [|w ms ws mss0 Hwm _ IHw]; [destruct Hsent|].
      destruct Hsent as [<-|Hs].
      - exists ms. split; [now left|]. now rewrite <- (proj1 Hwm).
      - destruct (IHw Hs) as (ms' & H1 & H2). exists ms'. split; [now right|exact H2]. }
    destruct Hex as (ms & Hms & Hm).
    destruct ((mc_magic (mr_cfg s) =? rc_magic rc) && sex_ok rc (mc_sex (mr_cfg s))); [|destruct Hm].
    apply in_map_iff in Hm as (m' & E' & Hm'). injection E' as ->.
    eapply Htail; eassumption.
Qed.

(* THE PROPERTY (mini tunnel), first clause: over loss, duplication, reordering, foreign datagrams under a
   sender's address and arbitrary bytes under any other address, whatever is delivered under a sender's
   address is one of that sender's Messages -- with or without compression, given the zlib premise.
   A receiver with a smaller MTU (truncated datagrams) is covered for senders that do not compress; what
   zlib makes of a truncated deflate stream is outside the premise, so compressing senders need
   receiver MTU >= sender MTU. *)
Theorem mini_sound :
  forall (rc : rcfg) (who : addr -> option mini_run) (net : list (addr * packet)),
    rc_misc rc = false -> PHS <= rc_mtu rc ->
    (forall a s, who a = Some s -> mr_ok s /\ (mc_level (mr_cfg s) = 0 \/ mc_mtu (mr_cfg s) <= rc_mtu rc)) ->
    (forall a s p, who a = Some s -> In (a, p) net -> In p (mr_packets s) \/ foreign (rc_magic rc) p) ->
    forall a s m, who a = Some s -> In (a, m) (mrecv_all inflate rc net) -> In m (mr_msgs s).
Proof.
  intros rc who net Hmisc Hrmtu Hok Hnet a s m Ha.
  induction net as [|[b p] net IH]; cbn [mrecv_all]; [intros []|].
  intros Hin. apply in_app_iff in Hin as [Hin|Hin].
  2:{ apply IH; [|exact Hin]. intros a' s' p' Ha' Hin'. apply (Hnet a' s' p' Ha'). now right. }
  assert (Hba : b = a).
  { unfold mrecv_packet in Hin. rewrite Hmisc in Hin. cbn [andb] in Hin.
    destruct (lenN (takeN (rc_mtu rc) p) =? 0); [destruct Hin|].
    destruct (PHS <=? lenN (takeN (rc_mtu rc) p)); [|destruct Hin].
    destruct (rd32 (takeN (rc_mtu rc) p)) as [[mg b1]|]; [|destruct Hin].
    destruct (rd32 b1) as [[sx b2]|]; [|destruct Hin].
    destruct (rd32 b2) as [[cl b3]|]; [|destruct Hin].
    destruct ((mg =? rc_magic rc) && ((rc_sex rc =? 0) || negb (rc_sex rc =? sx))); [|destruct Hin].
    apply in_map_iff in Hin as (x & E & _). now injection E. }
  subst b. destruct (Hok a s Ha) as [Hsok Hcase].
  destruct (Hnet a s p Ha (or_introl eq_refl)) as [Hsent|Hfor].
  - eapply mini_packet_sound; eassumption.
  - rewrite mrecv_foreign in Hin by assumption. destruct Hin.
Qed.

(* THE PROPERTY (mini tunnel), second clause: every packet once and in order => exactly the Messages that
   were completely written and that can fit into a packet at all, once each, in order; for every MTU,
   compression level and call pattern.  [m_pkt st = []]: nothing is held back; [m_q st]: not yet written. *)
Theorem mini_complete :
  forall rc c a pid0 ops st pkts,
    mcfg_ok c -> rc_misc rc = false ->
    mc_magic c = rc_magic rc -> sex_ok rc (mc_sex c) = true -> mc_mtu c <= rc_mtu rc ->
    pid0 < 2 ^ 24 -> no_msetid ops ->
    Forall (fun m => lenN m < two32) (madded ops) ->
    mrun deflate c (m_init pid0) ops = (st, pkts) ->
    m_pkt st = [] ->
    exists done,
      madded ops = done ++ m_q st
      /\ mrecv_all inflate rc (map (pair a) pkts) = map (pair a) (filter (mfits c) done).
Proof.
  intros rc c a pid0 ops st pkts Hc Hmisc Hmg Hsx Hmtu Hpid Hns Hsm Hrun Hpk.
  destruct (mrun_spec c rc a ops [] [] _ _ _ Hc Hmisc Hmtu Hns Hsm (minv_init _ _ Hpid) Hrun)
    as (mss & Hw & (_ & _ & pend & d & Hpend & Hd & Hf)).
  cbn [app] in Hd, Hf.
  assert (pend = []).
  { destruct Hpend as [[_ ->]|(w0 & _ & _ & E)]; [reflexivity|]. rewrite Hpk in E.
    exfalso. assert (H : lenN (shape c w0 pend) = 0) by now rewrite <- E.
    rewrite lenN_shape, PHS_val in H. lia. }
  subst pend. rewrite app_nil_r in Hf.
  exists d. split; [exact Hd|]. rewrite Hf.
  unfold wires_ok in Hw. rewrite Hmg, N.eqb_refl, Hsx in Hw. cbn [andb] in Hw.
  clear - Hw. induction Hw as [|w ms ws mss0 Hwm _ IHw]; [reflexivity|].
  cbn [map mrecv_all concat]. rewrite (proj1 Hwm), IHw, map_app. reflexivity.
Qed.

End WithZlib.

(* ------------------------------------------------------------------ non-vacuity *)

(* a toy codec that satisfies the zlib premise and does compress one payload: the two chunks of the
   example below become a single byte *)
Definition toy_m1 : msg := repeat x41 9.
Definition toy_m2 : msg := [x01; x02; x03].
Definition toy_payload : list byte := enc_chunks [toy_m1; toy_m2].
Definition toy_deflate (lvl : N) (x : list byte) : option (list byte) :=
  if list_eq_dec Byte.byte_eq_dec x toy_payload then Some [xff] else None.
Definition toy_inflate (d : list byte) : option (list byte) :=
  if list_eq_dec Byte.byte_eq_dec d [xff] then Some toy_payload else None.

Lemma toy_codec_ok : forall lvl x d, toy_deflate lvl x = Some d -> toy_inflate d = Some x.
Proof.
  intros lvl x d. unfold toy_deflate, toy_inflate.
  destruct (list_eq_dec Byte.byte_eq_dec x toy_payload) as [->|]; [|discriminate].
  intros E. injection E as <-. destruct (list_eq_dec Byte.byte_eq_dec [xff] [xff]); [reflexivity|congruence].
Qed.

Definition toy_cfg : mcfg := mkMCfg c_DEFAULT_MINI_TUNNEL_IOGATEWAY_MAGIC 7 (mclamp_mtu 40) 6.
Definition toy_rc : rcfg := mkRCfg c_DEFAULT_MINI_TUNNEL_IOGATEWAY_MAGIC 0 (mclamp_mtu 40) 4294967295 false.
Definition toy_ops : list mop :=
  [MAdd toy_m1; MAdd toy_m2; MAdd (repeat x43 40); MOut 4294967295 100; MAdd [x09]; MOut 4294967295 100].
Definition toy_run : mini_run := mkMRun toy_cfg 16777215 toy_ops.

Ltac mdec := vm_compute; (reflexivity || discriminate || exact I).

Example toy_run_ok :
  mr_ok toy_run /\ mc_mtu (mr_cfg toy_run) <= rc_mtu toy_rc
  /\ mc_magic toy_cfg = rc_magic toy_rc /\ sex_ok toy_rc (mc_sex toy_cfg) = true.
Proof.
  split; [|split; [mdec|split; mdec]].
  unfold mr_ok, mcfg_ok. cbn [mr_cfg mr_pid0 mr_ops toy_run].
  split; [split; [mdec|split; [mdec|split; mdec]]|]. split; [mdec|]. split; [mdec|].
  unfold mr_msgs. cbn [mr_ops toy_run toy_ops madded]. repeat constructor; mdec.
Qed.

(* the first packet goes out compressed (header + 1 byte), the 40-byte Message is dropped, the last
   packet goes out uncompressed with its header patched; the packet id wraps from 2^24-1 to 0 *)
Example toy_run_nontrivial :
  map (@length byte) (mr_packets toy_deflate toy_run) = [13; 17]%nat
  /\ mrecv_all toy_inflate toy_rc (map (pair 5) (mr_packets toy_deflate toy_run)) = [(5, toy_m1); (5, toy_m2); (5, [x09])]
  /\ m_pid (fst (mrun toy_deflate toy_cfg (m_init 16777215) toy_ops)) = 1.
Proof. vm_compute. repeat split; reflexivity. Qed.
