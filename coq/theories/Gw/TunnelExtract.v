(* Extraction of the packet-tunnel models (C12) for the correspondence run (ExtrOcamlBasic only). *)
From Coq Require Import ExtrOcamlBasic.
From Coq Require Extraction.
From Coq Require Import NArith.
From Coq Require Import Strings.Byte.
From Muscle Require Import Common.LE Gen.Consts Gw.Tunnel Gw.MiniTunnel Gw.Packetized.
Extraction "tunnel_model.ml" byte_of_N Byte.to_N clamp_mtu s_init sstep recv_packet recv_loop
                             mclamp_mtu m_init mstep mrecv_packet mrecv_loop
                             pw_init pw_flush pwrite pr_init pread.
