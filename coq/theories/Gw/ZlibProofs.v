(* C03 -- the zlib encodings: the codec premise of FrameProofs is derived from a premise about
   zlib itself (inflate undoes deflate on streams that are in step), so the end-to-end theorems
   hold for every zlib level, for dependent and independent deflation, and for streams that mix
   compressed Messages with Messages too small to be compressed. *)
From Coq Require Import List NArith ZArith Bool Lia ZifyBool.
From Muscle Require Import Gen.Consts Gw.GwBase Gw.GwLemmas Gw.FrameModel Gw.ZlibModel Gw.TransportProofs Gw.FrameProofs Gw.FrameDefault.
Import ListNotations.
Local Open Scope N_scope.

Lemma z_default_not_zlib : z_in_range c_MUSCLE_MESSAGE_ENCODING_DEFAULT = false.
Proof. vm_compute. reflexivity. Qed.
Lemma z_range_in_gateway_range e : z_in_range e = true ->
  c_MUSCLE_MESSAGE_ENCODING_DEFAULT <= e <= c_MUSCLE_MESSAGE_ENCODING_END_MARKER - 1.
Proof.
  unfold z_in_range, z_enc1, z_enc9. intros H. apply andb_true_iff in H. destruct H as [H1 H2].
  assert (c_MUSCLE_MESSAGE_ENCODING_DEFAULT <= c_MUSCLE_MESSAGE_ENCODING_ZLIB_1) by (vm_compute; discriminate).
  assert (c_MUSCLE_MESSAGE_ENCODING_ZLIB_9 <= c_MUSCLE_MESSAGE_ENCODING_END_MARKER - 1) by (vm_compute; discriminate).
  lia.
Qed.
Lemma z_magics_differ : (c_zlib_hdr_dependent =? c_zlib_hdr_independent) = false.
Proof. vm_compute. reflexivity. Qed.
Lemma z_magic_small : c_zlib_hdr_dependent < two32 /\ c_zlib_hdr_independent < two32.
Proof. vm_compute. auto. Qed.
Lemma z_min_size_pos : f_hs < c_gw_zlib_min_size.
Proof. vm_compute. reflexivity. Qed.

Section ZlibProofs.
  Variables DS IS : Type.
  Variable ds_init : N -> DS.
  Variable is_init : IS.
  Variable deflate : DS -> bool -> bytes -> DS * bytes.
  Variable inflate : IS -> bool -> bytes -> N -> IS * option bytes.
  Variable oenc : N.
  Variable indep : bool.
  Variable max_in : N.

  (* ---- the premise about zlib *)
  Variable zsync : DS -> IS -> Prop.          (* deflate and inflate streams in step *)
  Hypothesis zsync_init : forall level, zsync (ds_init level) is_init.
  Hypothesis zlib_roundtrip : forall ds is b, zsync ds is -> b <> [] ->
    exists is', inflate is indep (snd (deflate ds indep b)) (blen b) = (is', Some b) /\
                zsync (fst (deflate ds indep b)) is'.
  (* the domain of bodies: fits the receiver's limit and the size words, compressed or not *)
  Definition z_wfb (b : bytes) : Prop :=
    blen b <= max_in /\ f_hs + blen b < two32 /\ blen b < 2147483648 /\
    forall ds, z_hdr + blen (snd (deflate ds indep b)) <= max_in /\
               f_hs + z_hdr + blen (snd (deflate ds indep b)) < two32.

  Notation z_flat := (z_flat DS ds_init deflate oenc indep).
  Notation z_unflat := (z_unflat IS is_init inflate).
  Definition z_level : N := oenc - z_enc1 + 1.

  Definition z_sync (cs : zcs DS) (cr : zcr IS) : Prop :=
    match cs, cr with
    | None, None => True
    | Some (l, d), Some (l', i) => l = z_level /\ l' = z_level /\ zsync d i
    | _, _ => False
    end.

  Lemma z_flat_len c m : f_hs <= blen (snd (z_flat c m)).
  Proof.
    unfold ZlibModel.z_flat. destruct (_ && _).
    - destruct (deflate _ indep m) as [ds' defl]. cbn [snd]. rewrite !blen_app, !blen_le32, f_hs_is_8. lia.
    - cbn [snd]. rewrite !blen_app, !blen_le32, f_hs_is_8. lia.
  Qed.

  Lemma z_codec_sync cs cr m : z_sync cs cr -> z_wfb m ->
    exists hdr payload cr',
      snd (z_flat cs m) = hdr ++ payload /\ blen hdr = f_hs /\
      d_body_size hdr = Some (blen payload) /\
      blen payload <= max_in /\ f_hs + blen payload < two32 /\
      z_unflat cr (snd (z_flat cs m)) = (cr', Some m) /\ z_sync (fst (z_flat cs m)) cr'.
  Proof.
    intros Hs (Hm1 & Hm2 & Hm3 & Hdefl). unfold ZlibModel.z_flat.
    destruct ((c_gw_zlib_min_size <=? f_hs + blen m) && z_in_range oenc) eqn:Ecomp.
    - (* compressed *)
      apply andb_true_iff in Ecomp. destruct Ecomp as [Ebig Erange].
      fold z_level.
      set (ds := match cs with Some (l, d) => if l =? z_level then d else ds_init z_level | None => ds_init z_level end).
      set (is := match cr with Some (l, i) => if l =? z_level then i else is_init | None => is_init end).
      assert (Hz : zsync ds is).
      { subst ds is. destruct cs as [[l d]|], cr as [[l' i]|]; cbn in Hs; try contradiction; auto.
        destruct Hs as (-> & -> & Hz). now rewrite N.eqb_refl. }
      assert (Hmne : m <> []).
      { intros ->. change (blen []) with 0 in Ebig. pose proof z_min_size_pos. lia. }
      destruct (zlib_roundtrip ds is m Hz Hmne) as (is' & Hinf & Hz').
      specialize (Hdefl ds).
      destruct (deflate ds indep m) as [ds' defl] eqn:Ed. cbn [fst snd] in *.
      set (magic := if indep then c_zlib_hdr_independent else c_zlib_hdr_dependent).
      set (payload := le32 magic ++ le32 (blen m) ++ defl).
      assert (Hpl : blen payload = z_hdr + blen defl) by (unfold payload, z_hdr; rewrite !blen_app, !blen_le32; lia).
      assert (Henc : z_enc1 + z_level - 1 = oenc).
      { unfold z_level. unfold z_in_range in Erange. lia. }
      rewrite Henc.
      exists (le32 (blen payload) ++ le32 oenc), payload, (Some (z_level, is')).
      split; [now rewrite <- app_assoc|]. split; [reflexivity|].
      split; [apply d_body_size_hdr; [rewrite f_hs_is_8 in *; lia|apply z_range_in_gateway_range; exact Erange]|].
      split; [lia|]. split; [lia|]. split; [|cbn; auto].
      (* the receiver side *)
      unfold ZlibModel.z_unflat.
      assert (E1 : rd32 (le32 (blen payload) ++ le32 oenc ++ payload) = blen payload).
      { apply rd32_le32. rewrite f_hs_is_8 in *. lia. }
      assert (E2 : rd32 (drop 4 (le32 (blen payload) ++ le32 oenc ++ payload)) = oenc).
      { change 4 with (blen (le32 (blen payload))). rewrite drop_app_exact. apply rd32_le32.
        pose proof (z_range_in_gateway_range _ Erange).
        assert (c_MUSCLE_MESSAGE_ENCODING_END_MARKER < two32) by (vm_compute; reflexivity). lia. }
      assert (E3 : drop f_hs (le32 (blen payload) ++ le32 oenc ++ payload) = payload).
      { rewrite app_assoc. change f_hs with (blen (le32 (blen payload) ++ le32 oenc)). apply drop_app_exact. }
      rewrite E1, E2, E3.
      assert (E4 : (u32 (f_hs + blen payload) =? blen (le32 (blen payload) ++ le32 oenc ++ payload)) = true).
      { unfold u32. rewrite N.mod_small by lia. rewrite !blen_app, !blen_le32, f_hs_is_8. lia. }
      rewrite E4. cbn [negb]. rewrite Erange. fold z_level. fold is.
      assert (E5 : rd32 payload = magic).
      { unfold payload. apply rd32_le32. unfold magic. destruct indep; apply z_magic_small. }
      assert (E6 : rd32 (drop 4 payload) = blen m).
      { unfold payload. change 4 with (blen (le32 magic)). rewrite drop_app_exact. apply rd32_le32. unfold two32. lia. }
      assert (E7 : drop z_hdr payload = defl).
      { unfold payload. rewrite app_assoc. change z_hdr with (blen (le32 magic ++ le32 (blen m))). apply drop_app_exact. }
      rewrite E5, E6, E7.
      assert (E8 : (z_hdr <=? blen payload) && ((magic =? c_zlib_hdr_independent) || (magic =? c_zlib_hdr_dependent)) = true).
      { assert ((z_hdr <=? blen payload) = true) by lia. rewrite H. unfold magic. destruct indep; rewrite N.eqb_refl; auto using orb_true_r. }
      rewrite E8.
      assert (E9 : (2147483648 <=? blen m) = false) by lia. rewrite E9.
      assert (E10 : (blen m =? 0) = false).
      { pose proof (blen_pos _ Hmne). lia. }
      rewrite E10.
      assert (E11 : (magic =? c_zlib_hdr_independent) = indep).
      { unfold magic. destruct indep; [apply N.eqb_refl|apply z_magics_differ]. }
      rewrite E11, Hinf. reflexivity.
    - (* sent as it is, DEFAULT header, codecs untouched *)
      cbn [fst snd].
      exists (le32 (blen m) ++ le32 c_MUSCLE_MESSAGE_ENCODING_DEFAULT), m, cr.
      split; [now rewrite <- app_assoc|]. split; [reflexivity|].
      split; [apply d_body_size_hdr; [rewrite f_hs_is_8 in *; lia|vm_compute; split; discriminate]|].
      split; auto. split; auto. split; [|exact Hs].
      unfold ZlibModel.z_unflat.
      assert (E1 : rd32 (le32 (blen m) ++ le32 c_MUSCLE_MESSAGE_ENCODING_DEFAULT ++ m) = blen m).
      { apply rd32_le32. rewrite f_hs_is_8 in *. lia. }
      assert (E2 : rd32 (drop 4 (le32 (blen m) ++ le32 c_MUSCLE_MESSAGE_ENCODING_DEFAULT ++ m)) = c_MUSCLE_MESSAGE_ENCODING_DEFAULT).
      { change 4 with (blen (le32 (blen m))). rewrite drop_app_exact. apply rd32_le32. vm_compute. reflexivity. }
      rewrite E1, E2, z_default_not_zlib, N.eqb_refl.
      assert (E4 : (u32 (f_hs + blen m) =? blen (le32 (blen m) ++ le32 c_MUSCLE_MESSAGE_ENCODING_DEFAULT ++ m)) = true).
      { unfold u32. rewrite N.mod_small by lia. rewrite !blen_app, !blen_le32, f_hs_is_8. lia. }
      rewrite E4. cbn [negb]. reflexivity.
  Qed.

  Notation zd_run := (sys_run fs_queue (z_do_output DS ds_init deflate oenc indep) (z_do_input IS is_init inflate max_in)).
  Definition z_sys0 := f_sys0 bytes (zcs DS) (zcr IS) None None.
  Definition z_rem := fs_rem bytes (zcs DS) z_flat.

  Theorem z_prefix_safety (evs : list (event bytes)) :
    Forall (ev_wf z_wfb) evs -> exists tl, ev_msgs evs = s_dlv (zd_run z_sys0 evs) ++ tl.
  Proof.
    exact (frame_prefix_safety bytes (zcs DS) (zcr IS) z_flat z_unflat d_body_size max_in None None z_flat_len z_sync z_wfb I z_codec_sync evs).
  Qed.

  Theorem z_completeness (evs : list (event bytes)) :
    Forall (ev_wf z_wfb) evs ->
    z_rem (s_snd (zd_run z_sys0 evs)) = [] -> s_pipe (zd_run z_sys0 evs) = [] ->
    s_dlv (zd_run z_sys0 evs) = ev_msgs evs.
  Proof.
    exact (frame_completeness bytes (zcs DS) (zcr IS) z_flat z_unflat d_body_size max_in None None z_flat_len z_sync z_wfb I z_codec_sync evs).
  Qed.

  Theorem z_fair_completion (evs : list (event bytes)) (rs : list (list (event bytes))) :
    Forall (ev_wf z_wfb) evs -> Forall round rs ->
    (measure z_rem (fun _ => 0%nat) (zd_run z_sys0 evs) <= length rs)%nat ->
    let st := zd_run z_sys0 (evs ++ concat rs) in
    quiet z_rem st /\ s_dlv st = ev_msgs evs.
  Proof.
    exact (frame_fair_completion bytes (zcs DS) (zcr IS) z_flat z_unflat d_body_size max_in None None z_flat_len z_sync z_wfb I z_codec_sync evs rs).
  Qed.
End ZlibProofs.
