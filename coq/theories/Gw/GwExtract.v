(* Extraction of the gateway models for the correspondence run (ExtrOcamlBasic only). *)
From Coq Require Import ExtrOcamlBasic.
From Coq Require Extraction.
From Coq Require Import NArith ZArith List.
From Muscle Require Import Gen.Consts Gw.GwBase Gw.FrameModel Gw.ZlibModel Gw.TmplModel Gw.WsModel Gw.TextModel Gw.RawModel Gw.SlipModel Gw.MiniModel.
Extraction "gw_model.ml"
  blen d_do_output d_do_input d_feed fs_init fs_queue fr_init
  t_do_output t_do_input ts_init ts_queue tr_init t_feed
  raw_do_output slip_do_output rs_init rs_queue r_do_input rr_init
  sl_do_input sr_init sl_feed f_scratch
  z_do_output z_do_input tm_do_output tm_do_input cache0
  ws_do_output wr_do_input ws_init ws_queue wr_init d_flat
  mg_do_output mg_in ms_init ms_queue mr_init
  fs_has_bytes ts_has_bytes rs_has_bytes ws_has_bytes mg_has_bytes.
