(* C03 -- the binary gateway with MUSCLE_MESSAGE_ENCODING_DEFAULT: the codec premise of
   FrameProofs is discharged by computation, giving closed end-to-end theorems. *)
From Coq Require Import List NArith ZArith Bool Lia ZifyBool.
From Muscle Require Import Gen.Consts Gw.GwBase Gw.GwLemmas Gw.FrameModel Gw.TransportProofs Gw.FrameProofs.
Import ListNotations.
Local Open Scope N_scope.

Lemma d_body_size_hdr n enc :
  n < two32 ->
  c_MUSCLE_MESSAGE_ENCODING_DEFAULT <= enc <= c_MUSCLE_MESSAGE_ENCODING_END_MARKER - 1 ->
  d_body_size (le32 n ++ le32 enc) = Some n.
Proof.
  intros Hn He. unfold d_body_size.
  assert (E1 : rd32 (drop 4 (le32 n ++ le32 enc)) = enc).
  { change 4 with (blen (le32 n)). rewrite drop_app_exact. rewrite <- (app_nil_r (le32 enc)). apply rd32_le32.
    assert (c_MUSCLE_MESSAGE_ENCODING_END_MARKER < two32) by (vm_compute; reflexivity). lia. }
  rewrite E1, (rd32_le32 n (le32 enc) Hn).
  assert (E2 : (c_MUSCLE_MESSAGE_ENCODING_DEFAULT <=? enc) && (enc <=? c_MUSCLE_MESSAGE_ENCODING_END_MARKER - 1) = true) by lia.
  now rewrite E2.
Qed.

Section Default.
  Variable max_in : N.     (* the receiver's SetMaxIncomingMessageSize; MUSCLE_NO_LIMIT by default *)

  (* the domain: flattened Messages that fit the receiver's limit and the 32-bit size word *)
  Definition d_wfb (m : bytes) : Prop := blen m <= max_in /\ f_hs + blen m < two32.

  Lemma d_flat_len (c : unit) m : f_hs <= blen (snd (d_flat c m)).
  Proof. unfold d_flat. cbn [snd]. rewrite !blen_app, !blen_le32, f_hs_is_8. lia. Qed.

  Lemma d_codec_sync (cs cr : unit) m : True -> d_wfb m ->
    exists hdr payload cr',
      snd (d_flat cs m) = hdr ++ payload /\ blen hdr = f_hs /\
      d_body_size hdr = Some (blen payload) /\
      blen payload <= max_in /\ f_hs + blen payload < two32 /\
      d_unflat cr (snd (d_flat cs m)) = (cr', Some m) /\ True.
  Proof.
    intros _ [Hm Hs].
    exists (le32 (blen m) ++ le32 c_MUSCLE_MESSAGE_ENCODING_DEFAULT), m, cr.
    split; [unfold d_flat; cbn [snd]; now rewrite <- app_assoc|]. split; [reflexivity|].
    split; [apply d_body_size_hdr; [rewrite f_hs_is_8 in Hs; lia|vm_compute; split; discriminate]|].
    split; auto. split; auto. split; auto.
    unfold d_flat, d_unflat. cbn [snd].
    assert (E1 : rd32 (le32 (blen m) ++ le32 c_MUSCLE_MESSAGE_ENCODING_DEFAULT ++ m) = blen m).
    { apply rd32_le32. rewrite f_hs_is_8 in Hs. lia. }
    assert (E2 : rd32 (drop 4 (le32 (blen m) ++ le32 c_MUSCLE_MESSAGE_ENCODING_DEFAULT ++ m)) = c_MUSCLE_MESSAGE_ENCODING_DEFAULT).
    { change 4 with (blen (le32 (blen m))). rewrite drop_app_exact. apply rd32_le32. vm_compute. reflexivity. }
    rewrite E1, E2, N.eqb_refl.
    assert (E3 : (u32 (f_hs + blen m) =? blen (le32 (blen m) ++ le32 c_MUSCLE_MESSAGE_ENCODING_DEFAULT ++ m)) = true).
    { unfold u32. rewrite N.mod_small by exact Hs. rewrite !blen_app, !blen_le32, f_hs_is_8. lia. }
    rewrite E3. cbn [andb]. reflexivity.
  Qed.

  Notation d_run := (sys_run fs_queue d_do_output (d_do_input max_in)).
  Definition d_sys0 := f_sys0 bytes unit unit tt tt.
  Definition d_rem := fs_rem bytes unit d_flat.

  (* For every list of events -- queue a Message, DoOutput(maxBytes) under any write script,
     DoInput(maxBytes) under any read script, in any order -- the Messages handed to the receiver
     so far are a prefix (as a list of Messages) of the Messages queued so far. *)
  Theorem d_prefix_safety (evs : list (event bytes)) :
    Forall (ev_wf d_wfb) evs -> exists tl, ev_msgs evs = s_dlv (d_run d_sys0 evs) ++ tl.
  Proof.
    exact (frame_prefix_safety bytes unit unit d_flat d_unflat d_body_size max_in tt tt d_flat_len (fun _ _ => True) d_wfb I d_codec_sync evs).
  Qed.

  Theorem d_completeness (evs : list (event bytes)) :
    Forall (ev_wf d_wfb) evs ->
    d_rem (s_snd (d_run d_sys0 evs)) = [] -> s_pipe (d_run d_sys0 evs) = [] ->
    s_dlv (d_run d_sys0 evs) = ev_msgs evs.
  Proof.
    exact (frame_completeness bytes unit unit d_flat d_unflat d_body_size max_in tt tt d_flat_len (fun _ _ => True) d_wfb I d_codec_sync evs).
  Qed.

  Theorem d_fair_completion (evs : list (event bytes)) (rs : list (list (event bytes))) :
    Forall (ev_wf d_wfb) evs -> Forall round rs ->
    (measure d_rem (fun _ => 0%nat) (d_run d_sys0 evs) <= length rs)%nat ->
    let st := d_run d_sys0 (evs ++ concat rs) in
    quiet d_rem st /\ s_dlv st = ev_msgs evs.
  Proof.
    exact (frame_fair_completion bytes unit unit d_flat d_unflat d_body_size max_in tt tt d_flat_len (fun _ _ => True) d_wfb I d_codec_sync evs rs).
  Qed.

  Theorem d_receiver_idle (evs : list (event bytes)) :
    Forall (ev_wf d_wfb) evs ->
    d_rem (s_snd (d_run d_sys0 evs)) = [] -> s_pipe (d_run d_sys0 evs) = [] ->
    exists cr', fr_norm unit (s_rcv (d_run d_sys0 evs)) = idle unit cr'.
  Proof.
    exact (frame_receiver_idle bytes unit unit d_flat d_unflat d_body_size max_in tt tt d_flat_len (fun _ _ => True) d_wfb I d_codec_sync evs).
  Qed.

  (* HasBytesToOutput() = false is exactly "nothing left to write" *)
  Lemma d_has_bytes_rem (st : fsend bytes unit) ms :
    fs_SI bytes unit d_flat tt st ms -> fs_has_bytes st = false -> d_rem st = [].
  Proof.
    intros _. unfold fs_has_bytes, d_rem, fs_rem. destruct (fs_buf st); [discriminate|].
    destruct (fs_q st); [reflexivity|discriminate].
  Qed.
End Default.

(* the split lemma, as the brief states it: outputs of feeding a ++ b = outputs of feeding a,
   then b from the state reached *)
Lemma d_feed_split max_in st a b :
  snd (d_feed max_in st (a ++ b)) =
  snd (d_feed max_in st a) ++ snd (d_feed max_in (fst (d_feed max_in st a)) b).
Proof.
  unfold d_feed. rewrite f_feed_app.
  destruct (f_feed bytes unit d_unflat d_body_size max_in st a) as [st1 o1]. cbn [fst snd].
  destruct (f_feed bytes unit d_unflat d_body_size max_in st1 b) as [st2 o2]. reflexivity.
Qed.

(* non-vacuity: a 12-byte Message (what-code only) is in the domain for the default limit *)
Example d_wfb_example : d_wfb c_MUSCLE_NO_LIMIT (le32 c_CURRENT_PROTOCOL_VERSION ++ le32 7 ++ le32 0).
Proof. vm_compute. split; [discriminate|reflexivity]. Qed.
