(* C03 -- shared definitions for the gateway models (no proofs in this file).

   Bytes are naturals (N); the theorems never need a range fact about payload bytes, so they
   hold for arbitrary N-lists (in particular for every list of real octets).  Lengths, counts,
   offsets and maxBytes arguments are N.

   Transport script.  Every DoOutput / DoInput call of a gateway is given the script of the
   DataIO calls it will make: the k-th Write(buf,n) accepts min(n, script[k]) bytes, the k-th
   Read(buf,n) returns min(n, script[k], bytes-in-flight) bytes; calls beyond the end of the
   script move 0 bytes (would-block).  The theorems quantify over every script. *)
From Coq Require Import List NArith Bool.
Import ListNotations.
Local Open Scope N_scope.

Definition byte := N.
Definition bytes := list N.

Definition blen (b : bytes) : N := N.of_nat (length b).
Definition take (n : N) (b : bytes) : bytes := firstn (N.to_nat n) b.
Definition drop (n : N) (b : bytes) : bytes := skipn (N.to_nat n) b.

(* uint32 *)
Definition two32 : N := 4294967296.
Definition u32 (n : N) : N := n mod two32.

(* little-endian 32-bit words (DefaultEndianConverter::Export / Import<uint32>) *)
Definition le32 (n : N) : bytes :=
  [n mod 256; (n / 256) mod 256; (n / 65536) mod 256; (n / 16777216) mod 256].
Definition rd32 (b : bytes) : N :=
  match b with
  | b0 :: b1 :: b2 :: b3 :: _ => u32 (b0 + 256 * b1 + 65536 * b2 + 16777216 * b3)
  | _ => 0
  end.

(* transport script access: amount offered by the next DataIO call, and the rest of the script *)
Definition io_k (scr : list N) : N := match scr with [] => 0 | k :: _ => k end.
Definition io_tl (scr : list N) : list N := match scr with [] => [] | _ :: t => t end.

(* one Read(buf, attempt) against the bytes in flight: (bytes obtained, rest of the pipe, rest of script) *)
Definition io_read (attempt : N) (scr : list N) (pipe : bytes) : bytes * bytes * list N :=
  let n := N.min attempt (N.min (io_k scr) (blen pipe)) in
  (take n pipe, drop n pipe, io_tl scr).

(* one Write(buf, attempt) of the bytes [data] (|data| = attempt): (bytes accepted, rest of script) *)
Definition io_write (data : bytes) (scr : list N) : bytes * list N :=
  (take (N.min (blen data) (io_k scr)) data, io_tl scr).

(* ---------------------------------------------------------------- the closed system *)
Section Sys.
  Variables (M O S R : Type).
  Variable queue : S -> M -> S.                                   (* AddOutgoingMessage *)
  Variable do_out : S -> N -> list N -> S * bytes.                (* DoOutput(maxBytes) under a write script *)
  Variable do_in : R -> N -> list N -> bytes -> R * list O * bytes. (* DoInput(maxBytes) under a read script *)

  Inductive event :=
  | EQueue (m : M)
  | EOut (maxb : N) (scr : list N)
  | EIn (maxb : N) (scr : list N).

  Record sys := mkSys { s_snd : S; s_pipe : bytes; s_rcv : R; s_dlv : list O; s_sent : list M }.

  Definition sys_step (st : sys) (e : event) : sys :=
    match e with
    | EQueue m => mkSys (queue (s_snd st) m) (s_pipe st) (s_rcv st) (s_dlv st) (s_sent st ++ [m])
    | EOut maxb scr =>
        let '(s', x) := do_out (s_snd st) maxb scr in
        mkSys s' (s_pipe st ++ x) (s_rcv st) (s_dlv st) (s_sent st)
    | EIn maxb scr =>
        let '(r', o, p') := do_in (s_rcv st) maxb scr (s_pipe st) in
        mkSys (s_snd st) p' r' (s_dlv st ++ o) (s_sent st)
    end.

  Definition sys_run (st : sys) (evs : list event) : sys := fold_left sys_step evs st.

  Definition ev_msgs (evs : list event) : list M :=
    flat_map (fun e => match e with EQueue m => [m] | _ => [] end) evs.
End Sys.

Arguments EQueue {M}. Arguments EOut {M}. Arguments EIn {M}.
Arguments mkSys {M O S R}. Arguments s_snd {M O S R}. Arguments s_pipe {M O S R}.
Arguments s_rcv {M O S R}. Arguments s_dlv {M O S R}. Arguments s_sent {M O S R}.
Arguments sys_step {M O S R}. Arguments sys_run {M O S R}. Arguments ev_msgs {M}.
