(* C03 -- model of iogateway/SLIPFramedDataMessageIOGateway.cpp.  No proofs here.

   Sender   = the raw sender with PopNextOutgoingMessage (92-114) SLIP-encoding every chunk
              (SLIPEncodeBytes 48-90: END, escaped bytes, END).
   Receiver = the raw receiver in immediate-forward mode feeding MessageReceivedFromGateway
              (142-191), a byte loop with _lastReceivedCharWasEscape and _pendingBuffer; frames
              completed during one DoInput call are collected in _pendingMessage and delivered
              as ONE Message at the end of the call (18-28).  An empty frame is never delivered
              (FlushCurrentIncomingSLIPFrame 127-139 ignores an empty pending buffer). *)
From Coq Require Import List NArith ZArith Bool.
From Muscle Require Import Gen.Consts Gw.GwBase Gw.RawModel.
Import ListNotations.
Local Open Scope N_scope.

Definition sl_esc_byte (b : byte) : bytes :=
  if b =? c_slip_end then [c_slip_esc; c_slip_escape_end]
  else if b =? c_slip_esc then [c_slip_esc; c_slip_escape_esc]
  else [b].

Definition sl_encode (chunk : bytes) : bytes :=
  [c_slip_end] ++ flat_map sl_esc_byte chunk ++ [c_slip_end].

Definition slip_do_output := r_do_output (fun m => map sl_encode (r_trunc m)).

Record srecv := mkSR {
  sr_pend : bytes;      (* _pendingBuffer contents ([] = NULL: the buffer is never empty when present) *)
  sr_esc : bool }.      (* _lastReceivedCharWasEscape *)
Definition sr_init : srecv := mkSR [] false.

Definition sl_flush (pend : bytes) : list bytes := match pend with [] => [] | _ => [pend] end.

(* one turn of the byte loop 150-181 *)
Definition sl_byte (st : srecv) (b : byte) : srecv * list bytes :=
  if sr_esc st then
    if b =? c_slip_end then (mkSR [] false, sl_flush (sr_pend st))
    else if b =? c_slip_escape_end then (mkSR (sr_pend st ++ [c_slip_end]) false, [])
    else if b =? c_slip_escape_esc then (mkSR (sr_pend st ++ [c_slip_esc]) false, [])
    else (mkSR (sr_pend st ++ [b]) false, [])
  else
    if b =? c_slip_end then (mkSR [] false, sl_flush (sr_pend st))
    else if b =? c_slip_esc then (mkSR (sr_pend st) true, [])
    else (mkSR (sr_pend st ++ [b]) false, []).

Fixpoint sl_feed (st : srecv) (bs : bytes) : srecv * list bytes :=
  match bs with
  | [] => (st, [])
  | b :: t => let '(st1, o1) := sl_byte st b in
              let '(st2, o2) := sl_feed st1 t in (st2, o1 ++ o2)
  end.

Definition sl_do_input (st : srecv) (maxb : N) (scr : list N) (pipe : bytes)
  : srecv * list (list bytes) * bytes :=
  let '(x, pipe', _) := io_read (N.min (r_scratch 0 c_MUSCLE_NO_LIMIT) maxb) scr pipe in
  let '(st', frames) := sl_feed st x in
  (st', (match frames with [] => [] | _ => [frames] end), pipe').

Definition sl_wire_msg (m : list bytes) : bytes := concat (map sl_encode (r_trunc m)).
