(* Gw/RecvInstr.v -- C02: instrumented model of the receive side of iogateway/MessageIOGateway.cpp in stream mode
   (DoInputImplementation 196-321, ReceiveMoreData 326-342, GetBodySize 500-510, GetScratchReceiveBuffer 179-184).
   No proofs in this file (GwRecvProofs.v).

   The question here is not which Messages come out (C03) but whether the machine is SOUND against any byte stream:
   every write into the receive buffer (each Read() target range, and the memcpy of the header into a freshly
   allocated bigger buffer) is logged as (capacity of the buffer written to, offset, length), every buffer request as
   its size; hs+bodySize is computed in uint32 arithmetic exactly as the C++ does.

   fx3 = false: the pinned code (finding F3: for bodySize >= 2^32-hs the sum wraps, a 0..7-byte buffer is requested
                and the 8 header bytes are copied into it);
   fx3 = true:  the repaired code (bodySize > MUSCLE_NO_LIMIT-hs is treated like any other out-of-range size).

   The Message parser that runs on a complete buffer is a parameter [unflat] (true = a Message came out): the
   soundness theorems hold for every such function, zlib decoding included.  The DataIO is modelled by the bytes it
   will hand out: a Read(attempt) returns min(attempt, what is left of the current segment). *)
From Coq Require Import List NArith Bool.
From Muscle Require Import Gen.Consts Msg.MsgDefs.
Import ListNotations.
Local Open Scope N_scope.

Definition g_hs : N := c_gw_header_words * c_SIZEOF_uint32.     (* GetHeaderSize() *)
Definition g_scratch : N := c_gw_scratch_size.                   (* _scratchRecvBufferSizeBytes *)
Definition g_nolim : N := c_MUSCLE_NO_LIMIT.

Record gstate := mkG {
  g_cap : option N;        (* _recvBuffer._buffer: None = NULL, Some n = a ByteBuffer of n bytes *)
  g_off : N;               (* _recvBuffer._offset *)
  g_data : bytes;          (* the bytes received into the buffer so far (positions 0 .. g_off-1) *)
  g_err : bool;            (* GetUnrecoverableErrorStatus().IsError() *)
  g_scr : bool }.          (* the scratch buffer has been allocated already *)

Record glog := mkGL {
  gl_writes : list (N * N * N);   (* (capacity, offset, length) of every write into a receive buffer *)
  gl_allocs : list N;             (* size of every buffer requested *)
  gl_msgs : list bytes }.         (* complete buffers handed to UnflattenHeaderAndMessage that produced a Message *)

Definition g_init : gstate := mkG None 0 [] false false.
Definition glog0 : glog := mkGL [] [] [].

Definition gw_write (cap off k : N) (l : glog) : glog := mkGL ((cap, off, k) :: gl_writes l) (gl_allocs l) (gl_msgs l).
Definition gw_alloc (n : N) (l : glog) : glog := mkGL (gl_writes l) (n :: gl_allocs l) (gl_msgs l).
Definition gw_deliver (b : bytes) (l : glog) : glog := mkGL (gl_writes l) (gl_allocs l) (gl_msgs l ++ [b]).

Section Recv.
  Variable fx3 : bool.
  Variable max_in : N.                    (* _maxIncomingMessageSize *)
  Variable unflat : bytes -> bool.        (* UnflattenHeaderAndMessage on a complete buffer yields a Message *)

  Definition body_size (hdr : bytes) : N := le_dec (takeN 4 hdr).
  Definition enc_word (hdr : bytes) : N := le_dec (takeN 4 (dropN 4 hdr)).

  (* ReceiveMoreData(readBytes, maxBytes, maxArraySize): (state, log, rest of the segment, maxBytes, short read?) *)
  Definition recv_more (st : gstate) (cap : N) (l : glog) (inp : bytes) (maxb target : N)
    : gstate * glog * bytes * N * bool :=
    let attempt := N.min maxb (if g_off st <? target then target - g_off st else 0) in
    let k := N.min attempt (len inp) in
    (mkG (g_cap st) (g_off st + k) (g_data st ++ takeN k inp) (g_err st) (g_scr st),
     gw_write cap (g_off st) attempt l,        (* Read(buffer+offset, attemptSize) may fill the whole range *)
     dropN k inp, maxb - k, k <? attempt).

  Inductive turn :=
  | TStop (st : gstate) (l : glog) (inp : bytes)                  (* break / return *)
  | TGo (st : gstate) (l : glog) (inp : bytes) (maxb : N).        (* next turn of the while loop *)

  (* one turn of the while loop of DoInputImplementation (mtuSize = 0) *)
  Definition recv_turn (st : gstate) (l : glog) (inp : bytes) (maxb : N) : turn :=
    (* 250-259: make sure there is a receive buffer *)
    let '(st0, l0, cap0) :=
      match g_cap st with
      | Some c => (st, l, c)
      | None =>
          let l1 := if g_scr st then l else gw_alloc g_scratch l in          (* GetScratchReceiveBuffer *)
          if g_hs <=? g_scratch
          then (mkG (Some g_scratch) 0 [] (g_err st) true, l1, g_scratch)
          else (mkG (Some g_hs) 0 [] (g_err st) true, gw_alloc g_hs l1, g_hs)
      end in
    (* 262-301: header phase *)
    let hdr_phase : option (gstate * glog * bytes * N * N) + (gstate * glog * bytes) :=
      if g_off st0 <? g_hs then
        let '(st1, l1, inp1, maxb1, short) := recv_more st0 cap0 l0 inp maxb g_hs in
        if short then inr (st1, l1, inp1)
        else if g_hs <=? g_off st1 then
          let e := enc_word (g_data st1) in
          if (c_MUSCLE_MESSAGE_ENCODING_DEFAULT <=? e) && (e <=? c_MUSCLE_MESSAGE_ENCODING_END_MARKER - 1) then
            let body := body_size (g_data st1) in
            if (body <=? max_in) && (if fx3 then body <=? g_nolim - g_hs else true) then
              let availb := if g_hs <? cap0 then cap0 - g_hs else 0 in
              if body <=? availb
              then inl (Some (mkG (Some (g_hs + body)) (g_off st1) (g_data st1) false (g_scr st1), l1, inp1, maxb1, g_hs + body))   (* TruncateToLength *)
              else
                let big := u32 (g_hs + body) in                              (* GetByteBufferFromPool(hs+bodySize) *)
                inl (Some (mkG (Some big) (g_off st1) (g_data st1) false (g_scr st1),
                           gw_write big 0 g_hs (gw_alloc big l1),            (* memcpy(bigBuf, bb, hs) *)
                           inp1, maxb1, big))
            else inr (mkG (g_cap st1) (g_off st1) (g_data st1) true (g_scr st1), l1, inp1)     (* B_BAD_DATA *)
          else inr (mkG (g_cap st1) (g_off st1) (g_data st1) true (g_scr st1), l1, inp1)
        else inl (Some (st1, l1, inp1, maxb1, cap0))
      else inl (Some (st0, l0, inp, maxb, cap0)) in
    match hdr_phase with
    | inr (s, lg, i) => TStop s lg i
    | inl None => TStop st0 l0 inp
    | inl (Some (st2, l2, inp2, maxb2, cap2)) =>
        (* 303-316: body phase *)
        if g_hs <=? g_off st2 then
          let '(st3, l3, inp3, maxb3, short) :=
            if g_off st2 <? cap2 then recv_more st2 cap2 l2 inp2 maxb2 cap2 else (st2, l2, inp2, maxb2, false) in
          if short then TStop st3 l3 inp3
          else if g_off st3 =? cap2 then
            if unflat (g_data st3)
            then TGo (mkG None 0 [] false (g_scr st3)) (gw_deliver (g_data st3) l3) inp3 maxb3
            else TStop (mkG None 0 [] true (g_scr st3)) l3 inp3
          else TGo st3 l3 inp3 maxb3
        else TGo st2 l2 inp2 maxb2
    end.

  Fixpoint recv_loop (fuel : nat) (st : gstate) (l : glog) (inp : bytes) (maxb : N) : option (gstate * glog * bytes) :=
    if (maxb =? 0) || g_err st then Some (st, l, inp) else
    match fuel with
    | O => None
    | S f =>
        match recv_turn st l inp maxb with
        | TStop s lg i => Some (s, lg, i)
        | TGo s lg i mb => recv_loop f s lg i mb
        end
    end.

  (* one DoInput(receiver, maxBytes) call against what is left of the current segment *)
  Definition do_input (st : gstate) (l : glog) (inp : bytes) (maxb : N) : option (gstate * glog * bytes) :=
    recv_loop (S (S (length inp))) st l inp maxb.

  (* the harness's drive: a segment is offered until DoInput() reports no progress (it reads nothing more) *)
  Fixpoint drive (fuel : nat) (st : gstate) (l : glog) (inp : bytes) : option (gstate * glog * bytes) :=
    match fuel with
    | O => None
    | S f =>
        match do_input st l inp g_nolim with
        | None => None
        | Some (s, lg, i) => if len i <? len inp then drive f s lg i else Some (s, lg, i)
        end
    end.
  Definition feed_segment (st : gstate) (l : glog) (seg : bytes) : option (gstate * glog * bytes) :=
    drive (S (length seg)) st l seg.

  Fixpoint feed (st : gstate) (l : glog) (segs : list bytes) : option (gstate * glog) :=
    match segs with
    | [] => Some (st, l)
    | s :: t => match feed_segment st l s with
                | None => None
                | Some (st1, l1, _) => feed st1 l1 t
                end
    end.
End Recv.

Definition write_ok (w : N * N * N) : Prop := let '(cap, off, k) := w in off + k <= cap.
