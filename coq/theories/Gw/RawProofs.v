(* C03 -- proofs about the raw gateway model: the sender (shared with SLIP through [xform]),
   the two receive modes, and the end-to-end theorems for the raw gateway. *)
From Coq Require Import List NArith ZArith Bool Lia ZifyBool.
From Muscle Require Import Gen.Consts Gw.GwBase Gw.GwLemmas Gw.RawModel Gw.TransportProofs.
Import ListNotations.
Local Open Scope N_scope.

Local Arguments skipn : simpl never.
Local Arguments firstn : simpl never.
Local Arguments nth : simpl never.

Definition nonempty (c : bytes) : Prop := c <> [].

Section RawSend.
  Variable xform : list bytes -> list bytes.
  Hypothesis xform_ne : forall m, Forall nonempty (xform m).

  Definition rs_wf (st : rsend) : Prop :=
    match rs_cur st with
    | None => True
    | Some cs =>
        Forall nonempty cs /\
        (((rs_off st < 0)%Z /\ rs_idx st = (-1)%Z) \/
         ((0 <= rs_idx st < Z.of_nat (length cs))%Z /\
          rs_len st = Z.of_N (blen (nth (Z.to_nat (rs_idx st)) cs [])) /\
          (0 <= rs_off st <= rs_len st)%Z))
    end.

  Definition rs_qbytes (q : list (list bytes)) : bytes := concat (map (fun m => concat (xform m)) q).

  Definition rs_rem (st : rsend) : bytes :=
    match rs_cur st with
    | None => []
    | Some cs =>
        if (rs_off st <? 0)%Z then concat cs
        else drop (Z.to_N (rs_off st)) (nth (Z.to_nat (rs_idx st)) cs [])
             ++ concat (skipn (S (Z.to_nat (rs_idx st))) cs)
    end ++ rs_qbytes (rs_q st).

  Lemma rs_qbytes_cons m q : rs_qbytes (m :: q) = concat (xform m) ++ rs_qbytes q.
  Proof. reflexivity. Qed.

  Lemma rs_qbytes_app q1 q2 : rs_qbytes (q1 ++ q2) = rs_qbytes q1 ++ rs_qbytes q2.
  Proof. unfold rs_qbytes. now rewrite map_app, concat_app. Qed.

  Lemma r_out_spec fuel : forall st maxb scr acc st' acc',
    rs_wf st -> r_out xform fuel st maxb scr acc = (st', acc') ->
    rs_wf st' /\ exists x, acc' = acc ++ x /\ rs_rem st = x ++ rs_rem st'.
  Proof.
    induction fuel as [|fuel IH]; intros st maxb scr acc st' acc' Hwf H; cbn [r_out] in H.
    { inversion H; subst. split; auto. exists []. now rewrite app_nil_r. }
    (* st1: after the pop *)
    set (st1 := match rs_cur st with
                | Some _ => st
                | None => match rs_q st with
                          | [] => mkRS [] None (-1) (-1) (-1)
                          | m :: q => mkRS q (Some (xform m)) (-1) (-1) (-1)
                          end
                end) in *.
    assert (H1 : rs_wf st1 /\ rs_rem st1 = rs_rem st).
    { subst st1. destruct (rs_cur st) eqn:Ec; [auto|].
      destruct (rs_q st) as [|m q] eqn:Eq.
      - split; [exact I|]. unfold rs_rem. cbn. rewrite Ec, Eq. reflexivity.
      - split.
        + unfold rs_wf. cbn. split; [apply xform_ne|]. left. lia.
        + unfold rs_rem. cbn. rewrite Ec, Eq. reflexivity. }
    destruct H1 as [Hwf1 Hrem1]. rewrite <- Hrem1. clear Hrem1 Hwf.
    clearbody st1.
    destruct (rs_cur st1) as [cs|] eqn:Ec1.
    2:{ inversion H; subst. split; auto. exists []. now rewrite app_nil_r. }
    unfold rs_wf in Hwf1. rewrite Ec1 in Hwf1. destruct Hwf1 as [Hne Hpos].
    (* next chunk selection *)
    destruct ((rs_off st1 <? 0) || (rs_len st1 <=? rs_off st1))%Z eqn:Esel.
    - (* select the next chunk *)
      destruct (nth_error cs (Z.to_nat (rs_idx st1 + 1))) as [c|] eqn:En.
      + (* chunk found *)
        set (st2 := mkRS (rs_q st1) (Some cs) (rs_idx st1 + 1) 0 (Z.of_N (blen c))) in *.
        assert (Hidx : (-1 <= rs_idx st1)%Z) by (destruct Hpos as [[_ ->]|[[? ?] _]]; lia).
        assert (Hc : nth (Z.to_nat (rs_idx st1 + 1)) cs [] = c) by (eapply nth_error_nth'; eauto).
        assert (Hcne : c <> []).
        { rewrite Forall_forall in Hne. apply Hne. eapply nth_error_In; eauto. }
        assert (Hwf2 : rs_wf st2).
        { unfold rs_wf, st2. cbn. split; auto. right.
          assert (Z.to_nat (rs_idx st1 + 1) < length cs)%nat by (apply nth_error_Some; congruence).
          rewrite Hc. lia. }
        assert (Hrem2 : rs_rem st1 = rs_rem st2).
        { unfold rs_rem, st2. cbn [rs_cur rs_off rs_idx rs_len rs_q]. rewrite Ec1. f_equal.
          change (0 <? 0)%Z with false. change (Z.to_N 0) with 0. rewrite drop_0, Hc.
          destruct Hpos as [[Hoff Hi]|[[Hi1 Hi2] [Hlen Hoff]]].
          - assert (E : (rs_off st1 <? 0)%Z = true) by lia. rewrite E.
            rewrite Hi in *. change (Z.to_nat (-1 + 1)) with 0%nat in *.
            destruct cs as [|c0 t]; cbn in En; [discriminate|].
            inversion En; subst c0. reflexivity.
          - assert (E : (rs_off st1 <? 0)%Z = false) by lia. rewrite E.
            assert (Hoff' : rs_off st1 = rs_len st1) by lia.
            rewrite drop_all by (rewrite Hoff', Hlen; lia). cbn [app].
            replace (S (Z.to_nat (rs_idx st1))) with (Z.to_nat (rs_idx st1 + 1)) by lia.
            rewrite (skipn_nth_error _ _ _ En). reflexivity. }
        rewrite Hrem2. clear Hrem2.
        (* the write *)
        assert (Hlt : (rs_off st2 <? rs_len st2)%Z = true).
        { unfold st2; cbn. pose proof (blen_pos _ Hcne). lia. }
        rewrite Hlt in H.
        destruct (io_write (take (N.min maxb (Z.to_N (rs_len st2) - Z.to_N (rs_off st2))) (drop (Z.to_N (rs_off st2)) (rs_chunk st2))) scr) as [x scr'] eqn:Ew.
        assert (Hchunk : rs_chunk st2 = c).
        { unfold rs_chunk, st2. cbn [rs_cur rs_idx]. exact Hc. }
        apply io_write_take in Ew. destruct Ew as (Hd & Hbx & _).
        destruct (0 <? blen x) eqn:Epos.
        * eapply IH in H.
          2:{ unfold rs_wf, st2 in *. cbn [rs_cur rs_idx rs_off rs_len] in *. split; auto. right.
              destruct Hwf2 as [_ [[? ?]|[Hi [Hl Ho]]]]; [lia|].
              split; auto. split; auto. rewrite Hchunk, blen_drop in Hbx. lia. }
          destruct H as (Hwf' & y & Hacc & Hrem). split; auto.
          exists (x ++ y). split; [now rewrite Hacc, app_assoc|].
          rewrite <- app_assoc, <- Hrem.
          unfold rs_rem, st2. cbn [rs_cur rs_idx rs_off rs_len rs_q]. rewrite Hc.
          change (0 <? 0)%Z with false. change (Z.to_N 0) with 0.
          assert (E : (0 + Z.of_N (blen x) <? 0)%Z = false) by lia. rewrite E.
          rewrite !app_assoc. f_equal. f_equal.
          rewrite Hchunk in Hd. unfold st2 in Hd. cbn [rs_off] in Hd. change (Z.to_N 0) with 0 in Hd.
          rewrite drop_0 in *.
          replace (Z.to_N (0 + Z.of_N (blen x))) with (blen x) by lia. exact Hd.
        * inversion H; subst. split; auto. exists []. now rewrite app_nil_r.
      + (* no more chunks: Message done *)
        eapply IH in H.
        2:{ unfold rs_wf. cbn. exact I. }
        destruct H as (Hwf' & y & Hacc & Hrem). split; auto.
        exists y. split; auto. rewrite <- Hrem.
        unfold rs_rem. cbn. rewrite Ec1.
        destruct Hpos as [[Hoff Hi]|[[Hi1 Hi2] [Hlen Hoff]]].
        * assert (E : (rs_off st1 <? 0)%Z = true) by lia. rewrite E.
          rewrite Hi in En. cbn in En. destruct cs; [reflexivity|discriminate].
        * assert (E : (rs_off st1 <? 0)%Z = false) by lia. rewrite E.
          assert (Hoff' : rs_off st1 = rs_len st1) by lia.
          rewrite drop_all by (rewrite Hoff', Hlen; lia). cbn [app].
          replace (S (Z.to_nat (rs_idx st1))) with (Z.to_nat (rs_idx st1 + 1)) by lia.
          rewrite (skipn_nth_none _ _ En). reflexivity.
    - (* continue with the current chunk *)
      destruct Hpos as [[Hoff Hi]|[[Hi1 Hi2] [Hlen Hoff]]]; [lia|].
      assert (Hlt : (rs_off st1 <? rs_len st1)%Z = true) by lia.
      rewrite Hlt in H.
      destruct (io_write (take (N.min maxb (Z.to_N (rs_len st1) - Z.to_N (rs_off st1))) (drop (Z.to_N (rs_off st1)) (rs_chunk st1))) scr) as [x scr'] eqn:Ew.
      assert (Hchunk : rs_chunk st1 = nth (Z.to_nat (rs_idx st1)) cs []).
      { unfold rs_chunk. rewrite Ec1. reflexivity. }
      apply io_write_take in Ew. destruct Ew as (Hd & Hbx & _).
      destruct (0 <? blen x) eqn:Epos.
      + eapply IH in H.
        2:{ unfold rs_wf. cbn. rewrite Ec1. split; auto. right.
            split; auto. split; auto. rewrite Hchunk, blen_drop in Hbx. lia. }
        destruct H as (Hwf' & y & Hacc & Hrem). split; auto.
        exists (x ++ y). split; [now rewrite Hacc, app_assoc|].
        rewrite <- app_assoc, <- Hrem.
        unfold rs_rem. cbn. rewrite Ec1.
        assert (E : (rs_off st1 <? 0)%Z = false) by lia. rewrite E.
        assert (E2 : (rs_off st1 + Z.of_N (blen x) <? 0)%Z = false) by lia. rewrite E2.
        rewrite !app_assoc. f_equal. f_equal.
        rewrite Hchunk in Hd. rewrite Hd at 1. f_equal.
        rewrite drop_drop. f_equal. lia.
      + inversion H; subst. split.
        * unfold rs_wf. rewrite Ec1. split; auto.
        * exists []. now rewrite app_nil_r.
  Qed.

  (* ---- DoOutput as a whole *)
  Lemma r_do_output_spec st maxb scr st' x :
    rs_wf st -> r_do_output xform st maxb scr = (st', x) ->
    rs_wf st' /\ rs_rem st = x ++ rs_rem st'.
  Proof.
    unfold r_do_output. intros Hwf H.
    destruct (r_out_spec _ _ _ _ _ _ _ Hwf H) as (Hwf' & y & Hy & Hrem).
    cbn in Hy. subst y. auto.
  Qed.

  Definition rs_m (st : rsend) : nat :=
    (length (rs_q st) + match rs_cur st with Some _ => 1 | None => 0 end)%nat.

  (* a productive call writes at least one byte while bytes remain *)
  Lemma r_out_progress fuel : forall st maxb scr acc st' acc',
    rs_wf st -> (rs_m st < fuel)%nat -> rs_rem st <> [] -> 1 <= maxb -> 1 <= io_k scr ->
    r_out xform fuel st maxb scr acc = (st', acc') -> (length acc < length acc')%nat.
  Proof.
    induction fuel as [|fuel IH]; intros st maxb scr acc st' acc' Hwf Hf Hrem Hm Hk H; [lia|].
    cbn [r_out] in H.
    set (st1 := match rs_cur st with
                | Some _ => st
                | None => match rs_q st with
                          | [] => mkRS [] None (-1) (-1) (-1)
                          | m :: q => mkRS q (Some (xform m)) (-1) (-1) (-1)
                          end
                end) in *.
    assert (H1 : rs_wf st1 /\ rs_rem st1 = rs_rem st /\ (rs_m st1 <= rs_m st)%nat /\
                 (rs_cur st1 = None -> rs_q st1 = [])).
    { subst st1. destruct (rs_cur st) eqn:Ec.
      - repeat split; auto. congruence.
      - destruct (rs_q st) as [|m q] eqn:Eq.
        + split; [exact I|]. split; [unfold rs_rem; cbn; rewrite Ec, Eq; reflexivity|].
          split; [unfold rs_m; cbn; lia|]. reflexivity.
        + split; [|split; [|split]].
          * unfold rs_wf. cbn. split; [apply xform_ne|]. left. lia.
          * unfold rs_rem. cbn. rewrite Ec, Eq. reflexivity.
          * unfold rs_m. cbn. rewrite Ec, Eq. cbn. lia.
          * cbn. discriminate. }
    destruct H1 as (Hwf1 & Hrem1 & Hm1 & Hq1). rewrite <- Hrem1 in Hrem. clear Hrem1 Hwf.
    assert (Hf1 : (rs_m st1 < S fuel)%nat) by lia. clear Hf Hm1. clearbody st1.
    destruct (rs_cur st1) as [cs|] eqn:Ec1.
    2:{ exfalso. apply Hrem. unfold rs_rem. rewrite Ec1, (Hq1 eq_refl). reflexivity. }
    clear Hq1.
    unfold rs_wf in Hwf1. rewrite Ec1 in Hwf1. destruct Hwf1 as [Hne Hpos].
    assert (Hlen_acc : forall (a x y : bytes), x <> [] -> (length a < length ((a ++ x) ++ y))%nat).
    { intros a x y Hx. rewrite !app_length. destruct x; [contradiction|cbn; lia]. }
    destruct ((rs_off st1 <? 0) || (rs_len st1 <=? rs_off st1))%Z eqn:Esel.
    - destruct (nth_error cs (Z.to_nat (rs_idx st1 + 1))) as [c|] eqn:En.
      + set (st2 := mkRS (rs_q st1) (Some cs) (rs_idx st1 + 1) 0 (Z.of_N (blen c))) in *.
        assert (Hc : nth (Z.to_nat (rs_idx st1 + 1)) cs [] = c) by (eapply nth_error_nth'; eauto).
        assert (Hcne : c <> []).
        { rewrite Forall_forall in Hne. apply Hne. eapply nth_error_In; eauto. }
        assert (Hlt : (rs_off st2 <? rs_len st2)%Z = true).
        { unfold st2; cbn. pose proof (blen_pos _ Hcne). lia. }
        rewrite Hlt in H.
        destruct (io_write (take (N.min maxb (Z.to_N (rs_len st2) - Z.to_N (rs_off st2))) (drop (Z.to_N (rs_off st2)) (rs_chunk st2))) scr) as [x scr'] eqn:Ew.
        assert (Hchunk : rs_chunk st2 = c) by (unfold rs_chunk, st2; cbn [rs_cur rs_idx]; exact Hc).
        apply io_write_take in Ew. destruct Ew as (Hd & Hbx & _).
        rewrite Hchunk, blen_drop in Hbx. unfold st2 in Hbx. cbn [rs_off rs_len] in Hbx.
        pose proof (blen_pos _ Hcne) as Hcp.
        assert (Hxp : 0 < blen x) by lia.
        assert (E : (0 <? blen x) = true) by lia. rewrite E in H.
        assert (Hxne : x <> []) by (intros ->; cbn in Hxp; lia).
        apply r_out_spec in H.
        * destruct H as (_ & y & -> & _). apply Hlen_acc; auto.
        * unfold rs_wf, st2. cbn [rs_cur rs_idx rs_off rs_len]. split; auto. right.
          assert (Z.to_nat (rs_idx st1 + 1) < length cs)%nat by (apply nth_error_Some; congruence).
          assert (Hidx : (-1 <= rs_idx st1)%Z) by (destruct Hpos as [[_ ->]|[[? ?] _]]; lia).
          rewrite Hc. lia.
      + eapply IH in H; eauto.
        * unfold rs_wf. cbn. exact I.
        * unfold rs_m in *. cbn. rewrite Ec1 in Hf1. lia.
        * intros Hr. apply Hrem. unfold rs_rem in *. cbn in Hr. rewrite Ec1.
          destruct Hpos as [[Hoff Hi]|[[Hi1 Hi2] [Hlen Hoff]]].
          -- assert (E : (rs_off st1 <? 0)%Z = true) by lia. rewrite E.
             rewrite Hi in En. change (Z.to_nat (-1 + 1)) with 0%nat in En.
             destruct cs; [exact Hr|discriminate].
          -- assert (E : (rs_off st1 <? 0)%Z = false) by lia. rewrite E.
             assert (Hoff' : rs_off st1 = rs_len st1) by lia.
             rewrite drop_all by (rewrite Hoff', Hlen; lia). cbn [app].
             replace (S (Z.to_nat (rs_idx st1))) with (Z.to_nat (rs_idx st1 + 1)) by lia.
             rewrite (skipn_nth_none _ _ En). exact Hr.
    - destruct Hpos as [[Hoff Hi]|[[Hi1 Hi2] [Hlen Hoff]]]; [lia|].
      assert (Hlt : (rs_off st1 <? rs_len st1)%Z = true) by lia.
      rewrite Hlt in H.
      destruct (io_write (take (N.min maxb (Z.to_N (rs_len st1) - Z.to_N (rs_off st1))) (drop (Z.to_N (rs_off st1)) (rs_chunk st1))) scr) as [x scr'] eqn:Ew.
      assert (Hchunk : rs_chunk st1 = nth (Z.to_nat (rs_idx st1)) cs []).
      { unfold rs_chunk. rewrite Ec1. reflexivity. }
      apply io_write_take in Ew. destruct Ew as (Hd & Hbx & _).
      rewrite Hchunk, blen_drop in Hbx.
      assert (Hxp : 0 < blen x) by lia.
      assert (E : (0 <? blen x) = true) by lia. rewrite E in H.
      assert (Hxne : x <> []) by (intros ->; cbn in Hxp; lia).
      apply r_out_spec in H.
      + destruct H as (_ & y & -> & _). apply Hlen_acc; auto.
      + unfold rs_wf. cbn [rs_cur rs_idx rs_off rs_len]. rewrite Ec1. split; auto. right.
        split; auto. split; auto. lia.
  Qed.

  Lemma r_do_output_progress st maxb scr st' x :
    rs_wf st -> rs_rem st <> [] -> 1 <= maxb -> 1 <= io_k scr ->
    r_do_output xform st maxb scr = (st', x) -> x <> [].
  Proof.
    unfold r_do_output. intros Hwf Hrem Hm Hk H.
    eapply r_out_progress in H; eauto.
    - intros ->. cbn in H. lia.
    - unfold rs_m. destruct (rs_cur st); lia.
  Qed.

  (* ---- fuel adequacy: the fuel of r_do_output is never the reason a call ends *)
  Lemma r_out_fuel_enough fuel : forall st maxb scr acc,
    rs_wf st -> (length scr + rs_m st < fuel)%nat ->
    r_out xform fuel st maxb scr acc = r_out xform (S fuel) st maxb scr acc.
  Proof.
    induction fuel as [|fuel IH]; intros st maxb scr acc Hwf Hf; [lia|].
    remember (S fuel) as f1 eqn:Ef1.
    rewrite Ef1 at 1. cbn [r_out].
    set (st1 := match rs_cur st with
                | Some _ => st
                | None => match rs_q st with
                          | [] => mkRS [] None (-1) (-1) (-1)
                          | m :: q => mkRS q (Some (xform m)) (-1) (-1) (-1)
                          end
                end) in *.
    assert (H1 : rs_wf st1 /\ (rs_m st1 <= rs_m st)%nat).
    { subst st1. destruct (rs_cur st) eqn:Ec; [auto|].
      destruct (rs_q st) as [|m q] eqn:Eq.
      - split; [exact I|]. unfold rs_m; cbn; lia.
      - split.
        + unfold rs_wf. cbn. split; [apply xform_ne|]. left. lia.
        + unfold rs_m. cbn. rewrite Ec, Eq. cbn. lia. }
    destruct H1 as (Hwf1 & Hm1).
    assert (Hf1 : (length scr + rs_m st1 < S fuel)%nat) by lia. clear Hf Hm1 Hwf. clearbody st1.
    destruct (rs_cur st1) as [cs|] eqn:Ec1; [|reflexivity].
    unfold rs_wf in Hwf1. rewrite Ec1 in Hwf1. destruct Hwf1 as [Hne Hpos].
    assert (Hscr : forall d x scr', io_write d scr = (x, scr') -> (0 <? blen x) = true -> (S (length scr') <= length scr)%nat).
    { intros d x scr' Hw Hx. apply io_write_spec in Hw. destruct Hw as (_ & Hb & ->).
      destruct scr; cbn in *; [|lia]. rewrite N.min_0_r in Hb. lia. }
    destruct ((rs_off st1 <? 0) || (rs_len st1 <=? rs_off st1))%Z eqn:Esel.
    - destruct (nth_error cs (Z.to_nat (rs_idx st1 + 1))) as [c|] eqn:En.
      + set (st2 := mkRS (rs_q st1) (Some cs) (rs_idx st1 + 1) 0 (Z.of_N (blen c))) in *.
        destruct (rs_off st2 <? rs_len st2)%Z eqn:Hlt; [|reflexivity].
        destruct (io_write (take (N.min maxb (Z.to_N (rs_len st2) - Z.to_N (rs_off st2))) (drop (Z.to_N (rs_off st2)) (rs_chunk st2))) scr) as [x scr'] eqn:Ew.
        destruct (0 <? blen x) eqn:Ex; [|reflexivity].
        pose proof (Hscr _ _ _ Ew Ex) as Hl.
        assert (Hc : nth (Z.to_nat (rs_idx st1 + 1)) cs [] = c) by (eapply nth_error_nth'; eauto).
        apply io_write_take in Ew. destruct Ew as (Hd & Hbx & _).
        apply IH.
        * unfold rs_wf, st2. cbn [rs_cur rs_idx rs_off rs_len]. split; auto. right.
          assert (Z.to_nat (rs_idx st1 + 1) < length cs)%nat by (apply nth_error_Some; congruence).
          assert (Hidx : (-1 <= rs_idx st1)%Z) by (destruct Hpos as [[_ ->]|[[? ?] _]]; lia).
          rewrite Hc.
          assert (Hchunk : rs_chunk st2 = c) by (unfold rs_chunk, st2; cbn [rs_cur rs_idx]; exact Hc).
          rewrite Hchunk, blen_drop in Hbx. unfold st2 in Hbx. cbn [rs_off rs_len] in Hbx. lia.
        * unfold rs_m, st2 in *. cbn [rs_q rs_cur] in *. rewrite Ec1 in Hf1. lia.
      + apply IH.
        * exact I.
        * unfold rs_m in *. cbn [rs_q rs_cur]. rewrite Ec1 in Hf1. lia.
    - destruct (rs_off st1 <? rs_len st1)%Z eqn:Hlt; [|reflexivity].
      destruct (io_write (take (N.min maxb (Z.to_N (rs_len st1) - Z.to_N (rs_off st1))) (drop (Z.to_N (rs_off st1)) (rs_chunk st1))) scr) as [x scr'] eqn:Ew.
      destruct (0 <? blen x) eqn:Ex; [|reflexivity].
      pose proof (Hscr _ _ _ Ew Ex) as Hl.
      apply io_write_take in Ew. destruct Ew as (Hd & Hbx & _).
      destruct Hpos as [[Hoff Hi]|[[Hi1 Hi2] [Hlen Hoff]]]; [lia|].
      apply IH.
      + unfold rs_wf. cbn [rs_cur rs_idx rs_off rs_len]. rewrite Ec1. split; auto. right.
        split; auto. split; auto.
        assert (Hchunk : rs_chunk st1 = nth (Z.to_nat (rs_idx st1)) cs []) by (unfold rs_chunk; rewrite Ec1; reflexivity).
        rewrite Hchunk, blen_drop in Hbx. lia.
      + unfold rs_m in *. cbn [rs_q rs_cur]. rewrite Ec1 in *. lia.
  Qed.

  Lemma r_do_output_fuel st maxb scr extra :
    rs_wf st ->
    r_out xform (extra + S (S (length scr + length (rs_q st)))) st maxb scr [] = r_do_output xform st maxb scr.
  Proof.
    intros Hwf. unfold r_do_output. induction extra as [|e IH]; [reflexivity|].
    cbn [plus]. rewrite <- r_out_fuel_enough; auto.
    unfold rs_m. destruct (rs_cur st); lia.
  Qed.
End RawSend.

(* ---------------------------------------------------------------------- r_trunc *)
Lemma r_trunc_ne m : Forall nonempty (r_trunc m).
Proof.
  induction m as [|c t IH]; cbn; [constructor|].
  destruct c; [constructor|]. constructor; [discriminate|exact IH].
Qed.

Lemma r_trunc_id m : Forall nonempty m -> r_trunc m = m.
Proof.
  induction 1 as [|c t Hc _ IH]; cbn; auto.
  destruct c; [contradiction Hc; reflexivity|]. now rewrite IH.
Qed.

(* ---------------------------------------------------------------------- receiver *)
Definition rr_pend (st : rrecv) : bytes := match rr_cur st with Some c => c | None => [] end.
Definition flat_chunks (o : list (list bytes)) : bytes := concat (map (@concat N) o).

Lemma flat_chunks_app a b : flat_chunks (a ++ b) = flat_chunks a ++ flat_chunks b.
Proof. unfold flat_chunks. now rewrite map_app, concat_app. Qed.

Lemma r_in_min_unfold scr minc st maxb pipe outs :
  r_in_min scr minc st maxb pipe outs =
  let '(x, pipe', _) := io_read (N.min maxb (minc - blen (rr_pend st))) scr pipe in
  if 0 <? blen x then
    if blen (rr_pend st ++ x) =? minc then
      match scr with
      | [] => (mkRR None, outs ++ [[rr_pend st ++ x]], pipe')
      | _ :: scr' => r_in_min scr' minc (mkRR None) (maxb - blen x) pipe' (outs ++ [[rr_pend st ++ x]])
      end
    else (mkRR (Some (rr_pend st ++ x)), outs, pipe')
  else (mkRR (Some (rr_pend st)), outs, pipe').
Proof. destruct scr; reflexivity. Qed.

Lemma r_in_min_spec scr : forall minc st maxb pipe outs st' outs' pipe',
  r_in_min scr minc st maxb pipe outs = (st', outs', pipe') ->
  exists x o, pipe = x ++ pipe' /\ outs' = outs ++ o /\
              rr_pend st ++ x = flat_chunks o ++ rr_pend st'.
Proof.
  induction scr as [|k scr IH]; intros minc st maxb pipe outs st' outs' pipe' H;
    rewrite r_in_min_unfold in H;
    destruct (io_read (N.min maxb (minc - blen (rr_pend st))) _ pipe) as [[x p1] s1] eqn:Er;
    apply io_read_spec in Er; destruct Er as (Hp & Hb & _);
    (destruct (0 <? blen x) eqn:Ex;
     [ destruct (blen (rr_pend st ++ x) =? minc) eqn:Efull
     | inversion H; subst; clear H; assert (x = []) by (apply blen_0; lia); subst x;
       exists [], []; rewrite !app_nil_r; repeat split; auto ]).
  - inversion H; subst; clear H. exists x, [[rr_pend st ++ x]]. repeat split; auto.
    unfold flat_chunks; cbn. now rewrite !app_nil_r.
  - inversion H; subst; clear H. exists x, []. rewrite app_nil_r. repeat split; auto.
  - apply IH in H. destruct H as (y & o & Hp1 & Ho & Hpend).
    exists (x ++ y), ([[rr_pend st ++ x]] ++ o). repeat split.
    + rewrite Hp, Hp1. now rewrite app_assoc.
    + rewrite Ho. now rewrite <- app_assoc.
    + rewrite flat_chunks_app. cbn in Hpend. rewrite <- app_assoc, <- Hpend.
      unfold flat_chunks; cbn. now rewrite !app_nil_r, <- app_assoc.
  - inversion H; subst; clear H. exists x, []. rewrite app_nil_r. repeat split; auto.
Qed.

Lemma r_in_min_pend scr : forall minc st maxb pipe outs st' outs' pipe',
  0 < minc -> blen (rr_pend st) < minc ->
  r_in_min scr minc st maxb pipe outs = (st', outs', pipe') -> blen (rr_pend st') < minc.
Proof.
  induction scr as [|k scr IH]; intros minc st maxb pipe outs st' outs' pipe' Hm Hlt H;
    rewrite r_in_min_unfold in H;
    destruct (io_read (N.min maxb (minc - blen (rr_pend st))) _ pipe) as [[x p1] s1] eqn:Er;
    apply io_read_spec in Er; destruct Er as (Hp & Hb & _);
    (destruct (0 <? blen x) eqn:Ex;
     [ destruct (blen (rr_pend st ++ x) =? minc) eqn:Efull
     | inversion H; subst; clear H; cbn; exact Hlt ]).
  - inversion H; subst; clear H; cbn; auto.
  - inversion H; subst; clear H. cbn. rewrite blen_app in *. lia.
  - apply IH in H; auto.
  - inversion H; subst; clear H. cbn. rewrite blen_app in *. lia.
Qed.

Lemma r_do_input_spec minc maxc st maxb scr pipe st' o pipe' :
  (minc = 0 -> rr_pend st = []) ->
  r_do_input minc maxc st maxb scr pipe = (st', o, pipe') ->
  exists x, pipe = x ++ pipe' /\ rr_pend st ++ x = flat_chunks o ++ rr_pend st'.
Proof.
  intros H0. unfold r_do_input. destruct (0 <? minc) eqn:Em.
  - intros H. apply r_in_min_spec in H. destruct H as (x & o' & Hp & Ho & Hpend).
    cbn in Ho. subst o'. eauto.
  - destruct (io_read (N.min (r_scratch minc maxc) maxb) scr pipe) as [[x p1] s1] eqn:Er.
    intros H. inversion H; subst; clear H.
    apply io_read_spec in Er. destruct Er as (Hp & Hb & _).
    exists x. split; auto. rewrite H0 by lia.
    destruct (0 <? blen x) eqn:Ex.
    + unfold flat_chunks; cbn. now rewrite !app_nil_r.
    + assert (x = []) by (apply blen_0; lia). subst x. reflexivity.
Qed.

Lemma r_do_input_progress minc maxc st maxb scr pipe st' o pipe' :
  blen (rr_pend st) < minc \/ minc = 0 ->
  r_do_input minc maxc st maxb scr pipe = (st', o, pipe') ->
  pipe <> [] -> 1 <= maxb -> 1 <= io_k scr -> (length pipe' < length pipe)%nat.
Proof.
  intros Hpend H Hne Hm Hk.
  assert (Hpp : 0 < blen pipe) by (apply blen_pos; auto).
  assert (Hgoal : forall x, pipe = x ++ pipe' -> 0 < blen x -> (length pipe' < length pipe)%nat).
  { intros x -> Hx. rewrite app_length. unfold blen in Hx. lia. }
  unfold r_do_input in H. destruct (0 <? minc) eqn:Em.
  - rewrite r_in_min_unfold in H.
    destruct (io_read (N.min maxb (minc - blen (rr_pend st))) scr pipe) as [[x p1] s1] eqn:Er.
    apply io_read_spec in Er. destruct Er as (Hp & Hb & _).
    assert (Hx : 0 < blen x) by lia.
    assert (E : (0 <? blen x) = true) by lia. rewrite E in H.
    destruct (blen (rr_pend st ++ x) =? minc).
    + destruct scr as [|k scr]; [inversion H; subst; eapply Hgoal; eauto|].
      apply r_in_min_spec in H. destruct H as (y & o' & Hp1 & _ & _).
      apply (Hgoal (x ++ y)).
      * rewrite Hp, Hp1. now rewrite app_assoc.
      * rewrite blen_app. lia.
    + inversion H; subst. eapply Hgoal; eauto.
  - destruct (io_read (N.min (r_scratch minc maxc) maxb) scr pipe) as [[x p1] s1] eqn:Er.
    inversion H; subst; clear H.
    apply io_read_spec in Er. destruct Er as (Hp & Hb & _).
    apply (Hgoal x); auto.
    assert (1 <= r_scratch minc maxc) by (unfold r_scratch; change c_raw_max_scratch with 8192; lia).
    lia.
Qed.

(* ---------------------------------------------------------------------- the raw gateway, end to end *)
Section RawE2E.
  Variables minc maxc : N.

  Definition raw_wfm (m : list bytes) : Prop := Forall nonempty m.        (* chunks are non-empty *)
  Definition raw_wire (ms : list (list bytes)) : bytes := rs_qbytes r_trunc ms.
  Definition raw_flat_m (ms : list (list bytes)) : bytes := flat_chunks ms.
  Definition raw_SI (st : rsend) (ms : list (list bytes)) : Prop := rs_wf st.
  Definition raw_RRel (r : rrecv) (c : bytes) (o : list (list bytes)) : Prop :=
    flat_chunks o ++ rr_pend r = c /\ (blen (rr_pend r) < minc \/ (minc = 0 /\ rr_pend r = [])).

  Lemma raw_wire_flat ms : Forall raw_wfm ms -> raw_wire ms = raw_flat_m ms.
  Proof.
    unfold raw_wire, raw_flat_m, rs_qbytes, flat_chunks.
    induction 1 as [|m t Hm _ IH]; cbn; auto. rewrite IH, (r_trunc_id _ Hm). reflexivity.
  Qed.

  Definition raw_sys0 := @sys0 (list bytes) (list bytes) rsend rrecv rs_init rr_init.
  Notation raw_run := (sys_run rs_queue raw_do_output (r_do_input minc maxc)).

  Lemma raw_S_init : raw_SI rs_init [] /\ rs_rem r_trunc rs_init = [].
  Proof. split; [exact I|reflexivity]. Qed.

  Lemma raw_S_queue s ms m :
    Forall raw_wfm ms -> raw_wfm m -> raw_SI s ms ->
    raw_SI (rs_queue s m) (ms ++ [m]) /\
    exists d, rs_rem r_trunc (rs_queue s m) = rs_rem r_trunc s ++ d /\ raw_wire (ms ++ [m]) = raw_wire ms ++ d.
  Proof.
    intros _ _ Hs. split.
    - unfold raw_SI, rs_wf in *. cbn. exact Hs.
    - exists (concat (r_trunc m)). split.
      + unfold rs_rem. cbn [rs_queue rs_cur rs_off rs_idx rs_q]. rewrite rs_qbytes_app, app_assoc.
        unfold rs_qbytes at 3. cbn. now rewrite app_nil_r.
      + unfold raw_wire. rewrite rs_qbytes_app. unfold rs_qbytes at 3. cbn. now rewrite app_nil_r.
  Qed.

  Lemma raw_S_out s ms maxb scr s' x :
    Forall raw_wfm ms -> raw_SI s ms -> raw_do_output s maxb scr = (s', x) ->
    raw_SI s' ms /\ rs_rem r_trunc s = x ++ rs_rem r_trunc s'.
  Proof. intros _ Hs H. eapply r_do_output_spec; eauto. apply r_trunc_ne. Qed.

  Lemma raw_R_init : raw_RRel rr_init [] [].
  Proof.
    split; [reflexivity|]. cbn. destruct (N.eq_dec minc 0); [right; auto|left; lia].
  Qed.

  Lemma raw_R_in (ms : list (list bytes)) r c o maxb scr pipe (rest : bytes) r' o' pipe' :
    Forall raw_wfm ms -> raw_wire ms = c ++ pipe ++ rest -> raw_RRel r c o ->
    r_do_input minc maxc r maxb scr pipe = (r', o', pipe') ->
    exists x, pipe = x ++ pipe' /\ raw_RRel r' (c ++ x) (o ++ o').
  Proof.
    intros _ _ [Hc Hp] H.
    assert (H0 : minc = 0 -> rr_pend r = []) by (intros E0; destruct Hp as [Hp|[_ Hp]]; [lia|auto]).
    destruct (r_do_input_spec _ _ _ _ _ _ _ _ _ H0 H) as (x & Hx & Hpend).
    exists x. split; auto. split.
    - rewrite flat_chunks_app, <- app_assoc, <- Hpend, app_assoc, Hc. reflexivity.
    - unfold r_do_input in H. destruct (0 <? minc) eqn:Em.
      + left. destruct Hp as [Hp|[Hp _]]; [|lia].
        eapply r_in_min_pend; eauto. lia.
      + right. destruct Hp as [Hp|[Hp Hq]]; [lia|]. split; auto.
        destruct (io_read (N.min (r_scratch minc maxc) maxb) scr pipe) as [[y p1] s1].
        inversion H; subst. exact Hq.
  Qed.

  Lemma raw_decode_prefix ms (r : rrecv) c o (rest : bytes) :
    Forall raw_wfm ms -> raw_wire ms = c ++ rest -> raw_RRel r c o ->
    exists tl, raw_flat_m ms = flat_chunks o ++ tl.
  Proof.
    intros Hwf Hw [Hc _]. rewrite <- (raw_wire_flat ms Hwf). rewrite Hw, <- Hc.
    exists (rr_pend r ++ rest). now rewrite app_assoc.
  Qed.

  Lemma raw_decode_complete ms r o :
    Forall raw_wfm ms -> raw_RRel r (raw_wire ms) o -> flat_chunks o ++ rr_pend r = raw_flat_m ms.
  Proof. intros Hwf [Hc _]. rewrite <- (raw_wire_flat ms Hwf). exact Hc. Qed.

  (* Every event list: the bytes delivered so far are a prefix of the bytes queued so far. *)
  Theorem raw_prefix_safety (evs : list (event (list bytes))) :
    Forall (ev_wf raw_wfm) evs ->
    exists tl, flat_chunks (ev_msgs evs) = flat_chunks (s_dlv (raw_run raw_sys0 evs)) ++ tl.
  Proof.
    apply (prefix_safety rs_queue raw_do_output (r_do_input minc maxc) rs_init rr_init raw_wfm raw_wire
             raw_flat_m flat_chunks (rs_rem r_trunc) raw_SI raw_RRel);
      [reflexivity | exact raw_S_init | exact raw_S_queue | exact raw_S_out | exact raw_R_init
      | exact raw_R_in | exact raw_decode_prefix].
  Qed.

  (* Once the sender has nothing left to write and nothing is in flight: delivered ++ the partial
     chunk the receiver is still assembling (always [] in immediate-forward mode) = queued. *)
  Theorem raw_completeness (evs : list (event (list bytes))) :
    Forall (ev_wf raw_wfm) evs ->
    rs_rem r_trunc (s_snd (raw_run raw_sys0 evs)) = [] -> s_pipe (raw_run raw_sys0 evs) = [] ->
    flat_chunks (s_dlv (raw_run raw_sys0 evs)) ++ rr_pend (s_rcv (raw_run raw_sys0 evs)) = flat_chunks (ev_msgs evs).
  Proof.
    apply (completeness rs_queue raw_do_output (r_do_input minc maxc) rs_init rr_init raw_wfm raw_wire
             raw_flat_m flat_chunks rr_pend (rs_rem r_trunc) raw_SI raw_RRel);
      [reflexivity | exact raw_S_init | exact raw_S_queue | exact raw_S_out | exact raw_R_init
      | exact raw_R_in | exact raw_decode_complete].
  Qed.

  Theorem raw_fair_completion (evs : list (event (list bytes))) (rs : list (list (event (list bytes)))) :
    Forall (ev_wf raw_wfm) evs -> Forall round rs ->
    (measure (rs_rem r_trunc) (fun _ => 0%nat) (raw_run raw_sys0 evs) <= length rs)%nat ->
    let st := raw_run raw_sys0 (evs ++ concat rs) in
    quiet (rs_rem r_trunc) st /\ flat_chunks (s_dlv st) ++ rr_pend (s_rcv st) = flat_chunks (ev_msgs evs).
  Proof.
    apply (fair_completion rs_queue raw_do_output (r_do_input minc maxc) rs_init rr_init raw_wfm raw_wire
             raw_flat_m flat_chunks rr_pend (rs_rem r_trunc) raw_SI raw_RRel);
      [reflexivity | exact raw_S_init | exact raw_S_queue | exact raw_S_out | exact raw_R_init
      | exact raw_R_in | exact raw_decode_complete | | ].
    - intros s ms maxb scr s' x _ Hs H. split; [lia|]. intros Hr Hm Hk. left.
      exact (r_do_output_progress r_trunc r_trunc_ne s maxb scr s' x Hs Hr Hm Hk H).
    - intros ms r c o maxb scr pipe rest r' o' pipe' _ _ [_ Hp] H Hne Hm Hk.
      apply (r_do_input_progress minc maxc r maxb scr pipe r' o' pipe'); auto.
      destruct Hp as [Hp|[Hp _]]; auto.
  Qed.
End RawE2E.
