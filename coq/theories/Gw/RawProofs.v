(* C03 -- proofs about the raw gateway model: the sender (shared with SLIP through [xform]),
   the two receive modes, and the end-to-end theorems for the raw gateway. *)
From Coq Require Import List NArith ZArith Bool Lia.
From Muscle Require Import Gen.Consts Gw.GwBase Gw.GwLemmas Gw.RawModel Gw.TransportProofs.
Import ListNotations.
Local Open Scope N_scope.

Definition nonempty (c : bytes) : Prop := c <> [].

Section RawSend.
  Variable xform : list bytes -> list bytes.
  Hypothesis xform_ne : forall m, Forall nonempty (xform m).

  Definition rs_wf (st : rsend) : Prop :=
    match rs_cur st with
    | None => True
    | Some cs =>
        Forall nonempty cs /\
        (((rs_off st < 0)%Z /\ rs_idx st = (-1)%Z) \/
         ((0 <= rs_idx st < Z.of_nat (length cs))%Z /\
          rs_len st = Z.of_N (blen (nth (Z.to_nat (rs_idx st)) cs [])) /\
          (0 <= rs_off st <= rs_len st)%Z))
    end.

  Definition rs_qbytes (q : list (list bytes)) : bytes := concat (map (fun m => concat (xform m)) q).

  Definition rs_rem (st : rsend) : bytes :=
    match rs_cur st with
    | None => []
    | Some cs =>
        if (rs_off st <? 0)%Z then concat cs
        else drop (Z.to_N (rs_off st)) (nth (Z.to_nat (rs_idx st)) cs [])
             ++ concat (skipn (S (Z.to_nat (rs_idx st))) cs)
    end ++ rs_qbytes (rs_q st).

  Lemma rs_qbytes_cons m q : rs_qbytes (m :: q) = concat (xform m) ++ rs_qbytes q.
  Proof. reflexivity. Qed.

  Lemma rs_qbytes_app q1 q2 : rs_qbytes (q1 ++ q2) = rs_qbytes q1 ++ rs_qbytes q2.
  Proof. unfold rs_qbytes. now rewrite map_app, concat_app. Qed.

  Lemma r_out_spec fuel : forall st maxb scr acc st' acc',
    rs_wf st -> r_out xform fuel st maxb scr acc = (st', acc') ->
    rs_wf st' /\ exists x, acc' = acc ++ x /\ rs_rem st = x ++ rs_rem st'.
  Proof.
    induction fuel as [|fuel IH]; intros st maxb scr acc st' acc' Hwf H; cbn [r_out] in H.
    { inversion H; subst. split; auto. exists []. now rewrite app_nil_r. }
    (* st1: after the pop *)
    set (st1 := match rs_cur st with
                | Some _ => st
                | None => match rs_q st with
                          | [] => mkRS [] None (-1) (-1) (-1)
                          | m :: q => mkRS q (Some (xform m)) (-1) (-1) (-1)
                          end
                end) in *.
    assert (H1 : rs_wf st1 /\ rs_rem st1 = rs_rem st).
    { subst st1. destruct (rs_cur st) eqn:Ec; [auto|].
      destruct (rs_q st) as [|m q] eqn:Eq.
      - split; [exact I|]. unfold rs_rem. cbn. rewrite Ec, Eq. reflexivity.
      - split.
        + unfold rs_wf. cbn. split; [apply xform_ne|]. left. lia.
        + unfold rs_rem. cbn. rewrite Ec, Eq. reflexivity. }
    destruct H1 as [Hwf1 Hrem1]. rewrite <- Hrem1. clear Hrem1 Hwf.
    clearbody st1.
    destruct (rs_cur st1) as [cs|] eqn:Ec1.
    2:{ inversion H; subst. split; auto. exists []. now rewrite app_nil_r. }
    unfold rs_wf in Hwf1. rewrite Ec1 in Hwf1. destruct Hwf1 as [Hne Hpos].
    (* next chunk selection *)
    destruct ((rs_off st1 <? 0) || (rs_len st1 <=? rs_off st1))%Z eqn:Esel.
    - (* select the next chunk *)
      destruct (nth_error cs (Z.to_nat (rs_idx st1 + 1))) as [c|] eqn:En.
      + (* chunk found *)
        set (st2 := mkRS (rs_q st1) (rs_cur st1) (rs_idx st1 + 1) 0 (Z.of_N (blen c))) in *.
        assert (Hidx : (-1 <= rs_idx st1)%Z) by (destruct Hpos as [[_ ->]|[[? ?] _]]; lia).
        assert (Hc : nth (Z.to_nat (rs_idx st1 + 1)) cs [] = c) by (eapply nth_error_nth'; eauto).
        assert (Hcne : c <> []).
        { rewrite Forall_forall in Hne. apply Hne. eapply nth_error_In; eauto. }
        assert (Hwf2 : rs_wf st2).
        { unfold rs_wf, st2. cbn. rewrite Ec1. split; auto. right.
          assert (Z.to_nat (rs_idx st1 + 1) < length cs)%nat by (apply nth_error_Some; congruence).
          rewrite Hc. lia. }
        assert (Hrem2 : rs_rem st1 = rs_rem st2).
        { unfold rs_rem, st2. cbn [rs_cur rs_off rs_idx rs_len rs_q]. rewrite Ec1. f_equal.
          change (0 <? 0)%Z with false. change (Z.to_N 0) with 0. rewrite drop_0, Hc.
          destruct Hpos as [[Hoff Hi]|[[Hi1 Hi2] [Hlen Hoff]]].
          - assert (E : (rs_off st1 <? 0)%Z = true) by lia. rewrite E.
            rewrite Hi in *. change (Z.to_nat (-1 + 1)) with 0%nat in *.
            destruct cs as [|c0 t]; cbn in En; [discriminate|].
            inversion En; subst c0. reflexivity.
          - assert (E : (rs_off st1 <? 0)%Z = false) by lia. rewrite E.
            assert (Hoff' : rs_off st1 = rs_len st1) by lia.
            rewrite drop_all by (rewrite Hoff', Hlen; lia). cbn [app].
            replace (S (Z.to_nat (rs_idx st1))) with (Z.to_nat (rs_idx st1 + 1)) by lia.
            rewrite (skipn_nth_error _ _ _ En). reflexivity. }
        rewrite Hrem2. clear Hrem2.
        (* the write *)
        assert (Hlt : (rs_off st2 <? rs_len st2)%Z = true).
        { unfold st2; cbn. pose proof (blen_pos _ Hcne). lia. }
        fold st2 in H. rewrite Hlt in H.
        destruct (io_write (take (N.min maxb (Z.to_N (rs_len st2) - Z.to_N (rs_off st2))) (drop (Z.to_N (rs_off st2)) (rs_chunk st2))) scr) as [x scr'] eqn:Ew.
        assert (Hchunk : rs_chunk st2 = c).
        { unfold rs_chunk, st2. cbn. rewrite Ec1. exact Hc. }
        apply io_write_take in Ew. destruct Ew as (Hd & Hbx & _).
        destruct (0 <? blen x) eqn:Epos.
        * eapply IH in H.
          2:{ unfold rs_wf, st2 in *. cbn in *. rewrite Ec1 in *. split; auto. right.
              destruct Hwf2 as [_ [[? ?]|[Hi [Hl Ho]]]]; [lia|].
              split; auto. split; auto. rewrite Hchunk, blen_drop in Hbx. lia. }
          destruct H as (Hwf' & y & Hacc & Hrem). split; auto.
          exists (x ++ y). split; [now rewrite Hacc, app_assoc|].
          rewrite <- app_assoc, <- Hrem.
          unfold rs_rem, st2. cbn. rewrite Ec1, Hc.
          change (0 <? 0)%Z with false. cbn [Z.to_N].
          assert (E : (0 + Z.of_N (blen x) <? 0)%Z = false) by lia. rewrite E.
          rewrite !app_assoc. f_equal. f_equal.
          rewrite Hchunk in Hd. cbn [rs_off st2 Z.to_N] in Hd. rewrite drop_0 in *.
          replace (Z.to_N (0 + Z.of_N (blen x))) with (blen x) by lia. exact Hd.
        * inversion H; subst. split; auto. exists []. now rewrite app_nil_r.
      + (* no more chunks: Message done *)
        eapply IH in H.
        2:{ unfold rs_wf. cbn. exact I. }
        destruct H as (Hwf' & y & Hacc & Hrem). split; auto.
        exists y. split; auto. rewrite <- Hrem.
        unfold rs_rem. cbn. rewrite Ec1.
        destruct Hpos as [[Hoff Hi]|[[Hi1 Hi2] [Hlen Hoff]]].
        * assert (E : (rs_off st1 <? 0)%Z = true) by lia. rewrite E.
          rewrite Hi in En. cbn in En. destruct cs; [reflexivity|discriminate].
        * assert (E : (rs_off st1 <? 0)%Z = false) by lia. rewrite E.
          assert (Hoff' : rs_off st1 = rs_len st1) by lia.
          rewrite drop_all by (rewrite Hoff', Hlen; lia). cbn [app].
          replace (S (Z.to_nat (rs_idx st1))) with (Z.to_nat (rs_idx st1 + 1)) by lia.
          rewrite (skipn_nth_none _ _ En). reflexivity.
    - (* continue with the current chunk *)
      destruct Hpos as [[Hoff Hi]|[[Hi1 Hi2] [Hlen Hoff]]]; [lia|].
      assert (Hlt : (rs_off st1 <? rs_len st1)%Z = true) by lia.
      rewrite Hlt in H.
      destruct (io_write (take (N.min maxb (Z.to_N (rs_len st1) - Z.to_N (rs_off st1))) (drop (Z.to_N (rs_off st1)) (rs_chunk st1))) scr) as [x scr'] eqn:Ew.
      assert (Hchunk : rs_chunk st1 = nth (Z.to_nat (rs_idx st1)) cs []).
      { unfold rs_chunk. rewrite Ec1. reflexivity. }
      apply io_write_take in Ew. destruct Ew as (Hd & Hbx & _).
      destruct (0 <? blen x) eqn:Epos.
      + eapply IH in H.
        2:{ unfold rs_wf. cbn. rewrite Ec1. split; auto. right.
            split; auto. split; auto. rewrite Hchunk, blen_drop in Hbx. lia. }
        destruct H as (Hwf' & y & Hacc & Hrem). split; auto.
        exists (x ++ y). split; [now rewrite Hacc, app_assoc|].
        rewrite <- app_assoc, <- Hrem.
        unfold rs_rem. cbn. rewrite Ec1.
        assert (E : (rs_off st1 <? 0)%Z = false) by lia. rewrite E.
        assert (E2 : (rs_off st1 + Z.of_N (blen x) <? 0)%Z = false) by lia. rewrite E2.
        rewrite !app_assoc. f_equal. f_equal.
        rewrite Hchunk in Hd. rewrite Hd at 1. f_equal.
        rewrite drop_drop. f_equal. lia.
      + inversion H; subst. split.
        * unfold rs_wf. rewrite Ec1. split; auto.
        * exists []. now rewrite app_nil_r.
  Qed.
End RawSend.
