(* C12 -- the theorems about the PacketTunnelIOGateway model, assembled from parts 1-4. *)
From Coq Require Import List Arith NArith Bool Lia.
From Coq Require Import Strings.Byte.
From Muscle Require Import Common.LE Gen.Consts Gw.Tunnel Gw.TunnelProofs Gw.TunnelSound Gw.TunnelSender Gw.TunnelComplete Gw.TunnelDrain.
Import ListNotations.
Local Open Scope N_scope.

(* ------------------------------------------------------------------ a sender's whole life *)

Record sender_run := mkRun { sr_cfg : scfg; sr_id0 : N; sr_ops : list sop }.

Definition sr_packets (s : sender_run) : list packet := snd (srun (sr_cfg s) (s_init (sr_id0 s)) (sr_ops s)).
Definition sr_msgs (s : sender_run) : list msg := added (sr_ops s).
Definition sr_hist (s : sender_run) : hist := assign (sr_id0 s) (sr_msgs s).

(* the premises of the property about one sender: its message ids never repeat (at most 2^32
   Messages in its life), sizes are uint32, the harness-only counter poke is not used *)
Definition sr_ok (s : sender_run) : Prop :=
  scfg_ok (sr_cfg s) /\ sr_id0 s < two32 /\ no_setid (sr_ops s)
  /\ N.of_nat (length (sr_msgs s)) <= two32 /\ Forall (fun m => lenN m < two32) (sr_msgs s).

Lemma Forall_concat_inv {A} (P : A -> Prop) (ls : list (list A)) :
  Forall P (concat ls) -> Forall (Forall P) ls.
Proof.
  induction ls as [|l ls IH]; cbn [concat]; intros H; [constructor|].
  apply Forall_app in H as [H1 H2]. constructor; auto.
Qed.

Lemma enc_frags_nil_inv fs : enc_frags fs = [] -> fs = [].
Proof.
  destruct fs as [|f fs]; [reflexivity|]. intros E. exfalso.
  assert (H : lenN (enc_frags (f :: fs)) = 0) by now rewrite E.
  rewrite enc_frags_cons, lenN_app, lenN_enc_frag, FHS_val in H. lia.
Qed.

(* everything a sender writes is the encoding of slices of its own Messages, under their own ids *)
Lemma sent_packets_spec s :
  sr_ok s ->
  exists fss pend,
    sr_packets s = map enc_frags fss
    /\ Forall (Forall (valid (sr_hist s))) fss
    /\ Forall (Forall wire_ok) fss
    /\ Forall (fun p => lenN p <= sc_mtu (sr_cfg s)) (sr_packets s)
    /\ (let st := fst (srun (sr_cfg s) (s_init (sr_id0 s)) (sr_ops s)) in
        s_pkt st = enc_frags pend
        /\ chain (sr_cfg s) (sr_id0 s) 0 (sr_msgs s) (concat fss ++ pend) (s_id st) (s_off st) (s_q st)).
Proof.
  intros (Hc & Hid & Hns & Hlen & Hsz). unfold sr_packets.
  destruct (srun (sr_cfg s) (s_init (sr_id0 s)) (sr_ops s)) as [st pkts] eqn:E.
  destruct Hc as (Hc1 & Hc2 & Hc3).
  destruct (srun_spec (sr_cfg s) (sr_id0 s) (sr_ops s) [] [] _ _ _ Hc3 Hns (sinv_init _ _) E)
    as (fss & -> & [(pend & Hpkt & Hch) _] & Hall).
  cbn [app] in Hch. fold (sr_msgs s) in Hch.
  exists fss, pend. cbn [fst snd].
  pose proof (chain_valid _ _ _ _ _ _ _ _ Hch) as Hv. apply Forall_app in Hv as [Hv _].
  destruct (chain_wire_ok _ _ _ _ _ _ _ _ Hch (conj Hc1 (conj Hc2 Hc3)) Hid Hsz) as [Hw _].
  apply Forall_app in Hw as [Hw _].
  repeat split; try assumption; now apply Forall_concat_inv.
Qed.

Lemma accepted_Forall rc (P : frag -> Prop) fs : Forall P fs -> Forall P (accepted rc fs).
Proof.
  induction fs as [|f fs IH]; intros H; [constructor|]. inversion H; subst. cbn [accepted].
  destruct ((f_magic f =? rc_magic rc) && sex_ok rc (f_sex f)); [|constructor].
  destruct (f_total f <=? rc_max_in rc); [constructor|]; auto.
Qed.

(* ------------------------------------------------------------------ soundness *)

(* THE PROPERTY, first clause.  Over a network that may lose, duplicate and reorder packets, inject
   datagrams not carrying the tunnel's magic under a sender's address, and inject ARBITRARY bytes
   under any other address: every buffer handed to the receiver under the address of a sender is
   bit-identical to a Message that this sender was given.  (Fragments of different Messages or of
   different senders are never combined.)  No relation between the MTUs is assumed: a receiver with
   a smaller MTU sees truncated datagrams. *)
Theorem tunnel_sound :
  forall (rc : rcfg) (who : addr -> option sender_run) (net : list (addr * packet)) t out,
    rc_misc rc = false -> 4 <= rc_mtu rc ->
    (forall a s, who a = Some s -> sr_ok s) ->
    (forall a s p, who a = Some s -> In (a, p) net -> In p (sr_packets s) \/ foreign (rc_magic rc) p) ->
    recv_all rc [] net = (t, out) ->
    forall a s m, who a = Some s -> In (a, m) out -> In m (sr_msgs s).
Proof.
  intros rc who net t out Hmisc Hmtu Hok Hnet Hrun a s m Ha Hin.
  set (who' := fun b => option_map sr_hist (who b)).
  assert (Hgen : forall b p h, In (b, p) net -> who' b = Some h ->
                   NoDup (map fst h) /\ Forall (valid h) (frags_of rc p)).
  { intros b p h Hbp Hb. unfold who' in Hb. destruct (who b) as [sb|] eqn:Ewb; [|discriminate].
    injection Hb as <-. pose proof (Hok b sb Ewb) as Hsok.
    split.
    - destruct Hsok as (_ & Hid & _ & Hlen & _). now apply assign_nodup.
    - unfold frags_of. destruct (Hnet b sb p Ewb Hbp) as [Hsent|Hfor].
      + destruct (sent_packets_spec sb Hsok) as (fss & pend & Epk & Hv & Hw & Hsz & _).
        rewrite Epk in Hsent. apply in_map_iff in Hsent as (fs & <- & Hfs).
        rewrite Forall_forall in Hv, Hw.
        apply parse_truncated_Forall; [now apply Hw|now apply Hv].
      + rewrite parse_foreign; [constructor|]. unfold foreign in Hfor. now rewrite first_word_takeN. }
  destruct (recv_all_sound rc who' net [] t out Hmisc Hgen (tbl_good_nil _) Hrun) as [_ Hout].
  specialize (Hout a m (sr_hist s) Hin). unfold who' in Hout. rewrite Ha in Hout. specialize (Hout eq_refl).
  unfold sr_hist in Hout. now rewrite assign_snd in Hout.
Qed.

(* The same for either setting of SetAllowMiscIncomingData: with the mode on, the only additional things
   handed over are datagrams that are NOT in tunnel format (too short for a fragment header, or not
   starting with the magic), verbatim as cut to the receiver's MTU. *)
Theorem tunnel_sound_misc :
  forall (rc : rcfg) (who : addr -> option sender_run) (net : list (addr * packet)) t out,
    4 <= rc_mtu rc ->
    (forall a s, who a = Some s -> sr_ok s) ->
    (forall a s p, who a = Some s -> In (a, p) net -> In p (sr_packets s) \/ foreign (rc_magic rc) p) ->
    recv_all rc [] net = (t, out) ->
    forall a s m, who a = Some s -> In (a, m) out ->
      In m (sr_msgs s) \/ exists p, In (a, p) net /\ misc_passed rc p m.
Proof.
  intros rc who net t out Hmtu Hok Hnet Hrun a s m Ha Hin.
  set (who' := fun b => option_map sr_hist (who b)).
  assert (Hgen : forall b p h, In (b, p) net -> who' b = Some h ->
                   NoDup (map fst h) /\ Forall (valid h) (frags_of rc p)).
  { intros b p h Hbp Hb. unfold who' in Hb. destruct (who b) as [sb|] eqn:Ewb; [|discriminate].
    injection Hb as <-. pose proof (Hok b sb Ewb) as Hsok.
    split.
    - destruct Hsok as (_ & Hid & _ & Hlen & _). now apply assign_nodup.
    - unfold frags_of. destruct (Hnet b sb p Ewb Hbp) as [Hsent|Hfor].
      + destruct (sent_packets_spec sb Hsok) as (fss & pend & Epk & Hv & Hw & Hsz & _).
        rewrite Epk in Hsent. apply in_map_iff in Hsent as (fs & <- & Hfs).
        rewrite Forall_forall in Hv, Hw.
        apply parse_truncated_Forall; [now apply Hw|now apply Hv].
      + rewrite parse_foreign; [constructor|]. unfold foreign in Hfor. now rewrite first_word_takeN. }
  destruct (recv_all_sound_g rc who' net [] t out Hgen (tbl_good_nil _) Hrun) as [_ Hout].
  specialize (Hout a m (sr_hist s) Hin). unfold who' in Hout. rewrite Ha in Hout. specialize (Hout eq_refl).
  unfold sr_hist in Hout. now rewrite assign_snd in Hout.
Qed.

(* ------------------------------------------------------------------ completeness *)

(* THE PROPERTY, second clause.  When the transport delivers every packet once and in order (to a
   receiver that has no state for this source yet -- whatever it holds for other sources), the
   receiver hands over exactly the Messages the sender has completely written, that fit the
   receiver's size limit: once each, in order; for every MTU, every interleaving of
   AddOutgoingMessage / DoOutput calls, every byte limit, every pattern of the transport refusing writes.
   [s_pkt st = []]: no packet is still held back by the sender; [s_q st] are the Messages not yet
   (completely) written. *)
Theorem tunnel_complete :
  forall rc c a id0 ops st pkts t0,
    scfg_ok c -> compat c rc -> id0 < two32 -> no_setid ops ->
    N.of_nat (length (added ops)) <= two32 ->
    Forall (fun m => lenN m < two32) (added ops) ->
    srun c (s_init id0) ops = (st, pkts) ->
    s_pkt st = [] ->
    tbl_wf t0 -> tbl_find a t0 = None ->
    exists done,
      added ops = done ++ s_q st
      /\ snd (recv_all rc t0 (map (pair a) pkts)) = map (pair a) (filter (fits rc) done).
Proof.
  intros rc c a id0 ops st pkts t0 Hc Hcompat Hid Hns Hlen Hsz Hrun Hpk Hwf Hnone.
  unfold compat in Hcompat. destruct Hcompat as (Hmg & Hsx & Hmtu).
  pose (s := mkRun c id0 ops).
  destruct (sent_packets_spec s (conj Hc (conj Hid (conj Hns (conj Hlen Hsz)))))
    as (fss & pend & Epk & Hv & Hw & Hsizes & Hst).
  unfold sr_packets, s in Epk, Hsizes, Hst. cbn [sr_cfg sr_id0 sr_ops] in Epk, Hsizes, Hst.
  rewrite Hrun in Epk, Hsizes, Hst. cbn [fst snd] in Epk, Hsizes, Hst.
  destruct Hst as [Hpend Hch]. rewrite Hpk in Hpend. symmetry in Hpend. apply enc_frags_nil_inv in Hpend. subst pend.
  rewrite app_nil_r in Hch. unfold sr_msgs in Hch. cbn [sr_ops] in Hch.
  assert (Hsync : sync rc None id0 0 (added ops)).
  { destruct (added ops); [exact I|]. cbn [sync]. rewrite N.eqb_refl. exact I. }
  destruct (rs_chain rc c _ _ _ _ _ _ _ Hch (conj Hmg Hsx) Hid Hlen Hsz None Hsync) as (o' & done & Hd & Hsteps & _).
  exists done. split; [exact Hd|].
  assert (Hall : Forall (fun fs => Forall wire_ok fs /\ lenN (enc_frags fs) <= rc_mtu rc
                    /\ Forall (fun f => (f_magic f =? rc_magic rc) && sex_ok rc (f_sex f) = true) fs) fss).
  { pose proof (chain_compat _ _ _ _ _ _ _ _ Hch) as Hcp. apply Forall_concat_inv in Hcp.
    rewrite Forall_forall in Hw, Hcp, Hsizes. apply Forall_forall. intros fs Hfs.
    split; [now apply Hw|]. split.
    - specialize (Hsizes (enc_frags fs)). rewrite Epk in Hsizes. specialize (Hsizes (in_map _ _ _ Hfs)). lia.
    - eapply Forall_impl; [|exact (Hcp fs Hfs)]. intros f [E1 E2]. rewrite E1, E2, Hmg, N.eqb_refl, Hsx. reflexivity. }
  pose proof (recv_all_enc rc a fss t0 Hwf Hall) as H. rewrite <- Epk in H.
  rewrite Hnone, Hsteps in H.
  assert (H2 : forall (r : table * list (addr * msg)) X,
             (let '(t', out) := r in tbl_wf t' /\ tbl_find a t' = o' /\ out = X) -> snd r = X).
  { intros [t' out] X (_ & _ & ->). reflexivity. }
  apply H2. exact H.
Qed.

Lemma srun_app c ops1 ops2 st :
  srun c st (ops1 ++ ops2) =
    let '(st1, p1) := srun c st ops1 in let '(st2, p2) := srun c st1 ops2 in (st2, p1 ++ p2).
Proof.
  revert st. induction ops1 as [|o ops1 IH]; intros st; cbn [app srun].
  - destruct (srun c st ops2). reflexivity.
  - destruct (sstep c st o) as [st1 p1]. rewrite IH.
    destruct (srun c st1 ops1) as [st2 p2]. destruct (srun c st2 ops2) as [st3 p3]. now rewrite app_assoc.
Qed.

Lemma added_app ops1 ops2 : added (ops1 ++ ops2) = added ops1 ++ added ops2.
Proof. induction ops1 as [|[m|mb bud|id] ops1 IH]; cbn [app added]; [reflexivity| |exact IH|exact IH]. now rewrite IH. Qed.

Lemma no_setid_app ops1 ops2 : no_setid ops1 -> no_setid ops2 -> no_setid (ops1 ++ ops2).
Proof. induction ops1 as [|[m|mb bud|id] ops1 IH]; cbn [app no_setid]; tauto. Qed.

(* Corollary: any script at all, followed by one DoOutput call that is not cut short (byte limit and
   transport budget above what [out_fuel] bounds): EVERY Message that fits the receiver's limit is
   delivered, exactly once, in order. *)
Theorem tunnel_complete_drained :
  forall rc c a id0 ops mb bud t0,
    scfg_ok c -> compat c rc -> id0 < two32 -> no_setid ops ->
    N.of_nat (length (added ops)) <= two32 ->
    Forall (fun m => lenN m < two32) (added ops) ->
    (let st1 := fst (srun c (s_init id0) ops) in
     N.of_nat (out_fuel st1) * sc_mtu c < mb /\ N.of_nat (out_fuel st1) <= bud) ->
    tbl_wf t0 -> tbl_find a t0 = None ->
    snd (recv_all rc t0 (map (pair a) (snd (srun c (s_init id0) (ops ++ [SOut mb bud])))))
    = map (pair a) (filter (fits rc) (added ops)).
Proof.
  intros rc c a id0 ops mb bud t0 Hc Hcompat Hid Hns Hlen Hsz Hbig Hwf Hnone.
  destruct (srun c (s_init id0) (ops ++ [SOut mb bud])) as [st pkts] eqn:Hrun.
  assert (Hadd : added (ops ++ [SOut mb bud]) = added ops) by (rewrite added_app; cbn; apply app_nil_r).
  assert (Hns2 : no_setid (ops ++ [SOut mb bud])) by (apply no_setid_app; cbn; auto).
  (* the last call drains the sender *)
  assert (Hdr : s_q st = [] /\ s_pkt st = []).
  { rewrite srun_app in Hrun. destruct (srun c (s_init id0) ops) as [st1 p1] eqn:E1. cbn [fst] in Hbig.
    cbn [srun] in Hrun. destruct (sstep c st1 (SOut mb bud)) as [st2 p2] eqn:E2.
    injection Hrun as <- <-.
    destruct Hc as (Hc1 & Hc2 & Hc3).
    destruct (srun_spec c id0 ops [] [] _ _ _ Hc3 Hns (sinv_init _ _) E1) as (fss & _ & [(pend & _ & Hch) Hpsz] & _).
    destruct Hbig as [Hb1 Hb2].
    eapply sstep_out_drains; try eassumption.
    eapply chain_cursor; [exact Hch|now left]. }
  destruct Hdr as [Hq Hp].
  rewrite <- Hadd in Hlen, Hsz.
  destruct (tunnel_complete rc c a id0 _ st pkts t0 Hc Hcompat Hid Hns2 Hlen Hsz Hrun Hp Hwf Hnone) as (done & Hd & Hout).
  rewrite Hq, app_nil_r in Hd. cbn [snd]. rewrite Hout, <- Hd, Hadd. reflexivity.
Qed.

(* ------------------------------------------------------------------ source exclusion *)

Lemma parse_excluded rc fs : forall fuel k,
  Forall wire_ok fs -> Forall (fun f => sex_ok rc (f_sex f) = false) fs ->
  parse fuel rc (takeN k (enc_frags fs)) = [].
Proof.
  intros fuel k HW HS. destruct fs as [|f fs].
  - unfold takeN. cbn [enc_frags map concat]. rewrite firstn_nil. apply parse_nil.
  - inversion HW as [|? ? Hf _]; subst. inversion HS as [|? ? Sf _]; subst.
    rewrite enc_frags_cons.
    destruct (N.le_gt_cases (lenN (enc_frag f)) k) as [Hk|Hk].
    + rewrite takeN_app_ge by exact Hk. destruct fuel as [|fuel]; [reflexivity|].
      rewrite parse_step by exact Hf. rewrite Sf, andb_false_r. reflexivity.
    + rewrite takeN_app_le by lia. rewrite lenN_enc_frag in Hk.
      destruct (N.lt_ge_cases k FHS) as [Hk2|Hk2].
      * apply parse_short. rewrite lenN_takeN. lia.
      * rewrite enc_frag_hdr. rewrite takeN_app_ge by (rewrite lenN_hdr_of; exact Hk2).
        apply parse_cut; [exact Hf|]. rewrite lenN_takeN, lenN_hdr_of. lia.
Qed.

(* SetSourceExclusionID: a receiver ignores every packet of a sender that carries its own non-zero id --
   nothing is delivered and no receive state is created or touched *)
Theorem tunnel_self_exclusion :
  forall rc s t a p,
    rc_misc rc = false -> sr_ok s ->
    rc_sex rc <> 0 -> sc_sex (sr_cfg s) = rc_sex rc ->
    In p (sr_packets s) ->
    recv_packet rc t a p = (t, []).
Proof.
  intros rc s t a p Hmisc Hok Hnz Hsame Hin.
  destruct (sent_packets_spec s Hok) as (fss & pend & Epk & _ & Hw & _ & Hst).
  cbv zeta in Hst. destruct Hst as [_ Hch].
  rewrite Epk in Hin. apply in_map_iff in Hin as (fs & <- & Hfs).
  pose proof (chain_compat _ _ _ _ _ _ _ _ Hch) as Hcp. apply Forall_app in Hcp as [Hcp _].
  apply Forall_concat_inv in Hcp. rewrite Forall_forall in Hw, Hcp.
  assert (Hex : Forall (fun f => sex_ok rc (f_sex f) = false) fs).
  { eapply Forall_impl; [|exact (Hcp fs Hfs)]. intros f [_ E]. unfold sex_ok. rewrite E, Hsame, N.eqb_refl.
    destruct (N.eqb_spec (rc_sex rc) 0); [contradiction|reflexivity]. }
  unfold recv_packet. rewrite Hmisc. cbn [andb].
  destruct (lenN (takeN (rc_mtu rc) (enc_frags fs)) =? 0); [reflexivity|].
  rewrite (parse_excluded rc fs _ _ (Hw fs Hfs) Hex). reflexivity.
Qed.

(* ------------------------------------------------------------------ the edge of the guarantee *)

(* Message ids wrap at 2^32 by design.  Two same-length Messages whose ids coincide (2^32 apart in the
   sender's life, here: the counter forced back) CAN be spliced by a reordering network: the premise
   "at most 2^32 Messages per sender" of tunnel_sound cannot be dropped. *)
Definition wrap_cfg : scfg := mkSCfg c_DEFAULT_TUNNEL_IOGATEWAY_MAGIC 0 (clamp_mtu 26).
Definition wrap_rc : rcfg := mkRCfg c_DEFAULT_TUNNEL_IOGATEWAY_MAGIC 0 (clamp_mtu 26) 4294967295 false.
Definition wrap_m1 : msg := [x01; x02; x03; x04].
Definition wrap_m2 : msg := [x11; x12; x13; x14].
Definition wrap_ops : list sop := [SAdd wrap_m1; SOut 4294967295 100; SSetId 0; SAdd wrap_m2; SOut 4294967295 100].

Lemma tunnel_wrap_refuted :
  exists net,
    (forall p, In p net -> In p (snd (srun wrap_cfg (s_init 0) wrap_ops)))
    /\ snd (recv_all wrap_rc [] (map (pair 5) net)) = [(5, [x01; x02; x13; x14])].
Proof.
  exists [nth 0 (snd (srun wrap_cfg (s_init 0) wrap_ops)) []; nth 3 (snd (srun wrap_cfg (s_init 0) wrap_ops)) []].
  split.
  - intros p [<-|[<-|[]]]; vm_compute; tauto.
  - vm_compute. reflexivity.
Qed.

(* ------------------------------------------------------------------ non-vacuity *)

(* the premises of tunnel_sound / tunnel_complete are satisfiable by a non-trivial run: three Messages
   (9, 0 and 30 bytes) through MTU 30, written by two DoOutput calls, one of which is cut short by the transport *)
Definition ex_cfg : scfg := mkSCfg c_DEFAULT_TUNNEL_IOGATEWAY_MAGIC 7 (clamp_mtu 30).
Definition ex_rc : rcfg := mkRCfg c_DEFAULT_TUNNEL_IOGATEWAY_MAGIC 0 (clamp_mtu 30) 20 false.
Definition ex_ops : list sop :=
  [SAdd (repeat x41 9); SAdd []; SOut 4294967295 1; SAdd (repeat x42 30); SOut 4294967295 100].
Definition ex_run : sender_run := mkRun ex_cfg 4294967295 ex_ops.

Ltac dec := vm_compute; (reflexivity || discriminate || exact I).

Example ex_run_ok : sr_ok ex_run /\ sc_mtu (sr_cfg ex_run) <= rc_mtu ex_rc /\ compat ex_cfg ex_rc.
Proof.
  split; [|split].
  - unfold sr_ok, scfg_ok. cbn [sr_cfg sr_id0 sr_ops ex_run].
    split; [split; [dec|split; dec]|]. split; [dec|]. split; [dec|]. split; [dec|].
    unfold sr_msgs. cbn [sr_ops ex_run ex_ops added]. repeat constructor; dec.
  - dec.
  - unfold compat. split; [dec|split; dec].
Qed.

Example ex_run_nontrivial :
  length (sr_packets ex_run) = 8%nat
  /\ snd (recv_all ex_rc [] (map (pair 5) (sr_packets ex_run))) = [(5, repeat x41 9); (5, [])]
  /\ s_pkt (fst (srun ex_cfg (s_init 4294967295) ex_ops)) = []
  /\ s_q (fst (srun ex_cfg (s_init 4294967295) ex_ops)) = [].
Proof. vm_compute. repeat split; reflexivity. Qed.

(* non-vacuity of tunnel_self_exclusion: the same run seen by a receiver whose own id is 7 *)
Definition ex_rc7 : rcfg := mkRCfg c_DEFAULT_TUNNEL_IOGATEWAY_MAGIC 7 (clamp_mtu 30) 20 false.
Example ex_self_exclusion :
  rc_misc ex_rc7 = false /\ rc_sex ex_rc7 <> 0 /\ sc_sex (sr_cfg ex_run) = rc_sex ex_rc7
  /\ sr_packets ex_run <> [] /\ snd (recv_all ex_rc7 [] (map (pair 5) (sr_packets ex_run))) = [].
Proof. vm_compute. repeat split; discriminate. Qed.

(* ------------------------------------------------------------------ the read loop *)

(* One DoInput(maxBytes) call over a device holding [queue] does to the receiver exactly what the
   packets it consumed -- a prefix of the queue -- do one by one; what it did not consume stays queued.
   So every theorem about [recv_all] over arbitrary networks speaks about any sequence of DoInput calls. *)
Theorem recv_loop_prefix : forall rc queue t maxBytes total t' out rest,
  recv_loop rc t maxBytes total queue = (t', out, rest) ->
  exists n, rest = skipn n queue /\ recv_all rc t (firstn n queue) = (t', out).
Proof.
  intros rc. induction queue as [|[a p] q IH]; intros t mb tot t' out rest; cbn [recv_loop].
  - intros E. injection E as <- <- <-. exists 0%nat. auto.
  - destruct (tot <? mb).
    2:{ intros E. injection E as <- <- <-. exists 0%nat. auto. }
    destruct (lenN (takeN (rc_mtu rc) p) =? 0) eqn:Hz.
    + intros E. injection E as <- <- <-. exists 1%nat. split; [reflexivity|].
      cbn [firstn recv_all]. unfold recv_packet. rewrite Hz. reflexivity.
    + destruct (recv_packet rc t a p) as [t1 o1] eqn:E1.
      destruct (recv_loop rc t1 mb (tot + lenN (takeN (rc_mtu rc) p)) q) as [[t2 o2] r2] eqn:E2.
      intros E. injection E as <- <- <-.
      destruct (IH _ _ _ _ _ _ E2) as (n & Hr & Ha). exists (S n). split; [exact Hr|].
      cbn [firstn recv_all]. rewrite E1, Ha. reflexivity.
Qed.
