(* C12 -- executable model of muscle::MiniPacketTunnelIOGateway
   (iogateway/MiniPacketTunnelIOGateway.cpp).

   Whole Messages ("chunks") per packet, never fragmented: a packet is
      magic, sexID, (compressionLevel<<24)|packetID          (PACKET_HEADER_SIZE = 3 words)
   followed by any number of   chunkSize, chunk bytes        (CHUNK_HEADER_SIZE = 1 word);
   when a compression level is set the part after the packet header is replaced by
   ZLibCodec::Deflate(.., independent=true, ..) of it -- provided that made the packet smaller;
   otherwise the packet goes out uncompressed with the level in its header patched to 0.

   zlib is external: [deflate]/[inflate] are Section variables (they become parameters of the
   extracted functions, instantiated by the driver with the graph of the real codec, and premises
   of the theorems).  No proofs in this file. *)
From Coq Require Import List NArith Bool.
From Coq Require Import Strings.Byte.
From Muscle Require Import Common.LE Gen.Consts Gw.Tunnel.
Import ListNotations.
Local Open Scope N_scope.

Definition PHS : N := c_mini_packet_header_words * c_C12_SIZEOF_UINT32.   (* PACKET_HEADER_SIZE *)
Definition CHS : N := c_mini_chunk_header_words * c_C12_SIZEOF_UINT32.    (* CHUNK_HEADER_SIZE *)
Definition PID_MOD : N := c_mini_packet_id_modulus.                        (* 24-bit packet id *)
Definition CL_SHIFT : N := c_mini_clevel_shift.

Definition enc_chunk (m : msg) : list byte := le32 (lenN m) ++ m.
Definition enc_chunks (ms : list msg) : list byte := concat (map enc_chunk ms).

Section Mini.

(* ZLibCodec(level)::Deflate(payload, independent=true): the codec header and the deflated stream;
   None when the codec reports failure *)
Variable deflate : N -> list byte -> option (list byte).
(* ZLibCodec::Inflate: None when it fails *)
Variable inflate : list byte -> option (list byte).

(* ------------------------------------------------------------------ sender *)

Record mcfg := mkMCfg { mc_magic : N; mc_sex : N; mc_mtu : N; mc_level : N }.

(* constructor: _maxTransferUnit(muscleMax(maxTransferUnit, PACKET_HEADER_SIZE+CHUNK_HEADER_SIZE+1)) *)
Definition mclamp_mtu (m : N) : N := N.max m (PHS + CHS + 1).

Record mstate := mkM {
  m_pid : N;            (* _sendPacketIDCounter *)
  m_q   : list msg;     (* _currentOutputBuffers followed by what the outgoing Message queue will generate *)
  m_pkt : list byte     (* _outputPacketBuffer[0 .. flat.GetNumBytesWritten()) : header and chunks, uncompressed *)
}.

Definition m_init (pid0 : N) : mstate := mkM pid0 [] [].

Definition mheader (c : mcfg) (pid : N) : list byte :=
  le32 (mc_magic c) ++ le32 (mc_sex c) ++ le32 (N.lor pid (N.shiftl (mc_level c) CL_SHIFT)).

(* Step 1: add as many whole buffers as fit; a buffer that can never fit is dropped *)
Fixpoint mfill (c : mcfg) (pid : N) (pkt : list byte) (q : list msg) : list byte * list msg :=
  match q with
  | [] => (pkt, [])
  | m :: q' =>
      let sb := lenN m in
      if mc_mtu c <? PHS + CHS + sb then mfill c pid pkt q'                         (* "Dropping it" *)
      else if lenN pkt + (if lenN pkt =? 0 then PHS else 0) + CHS + sb <=? mc_mtu c then
        let pkt1 := if lenN pkt =? 0 then mheader c pid else pkt in
        mfill c pid (pkt1 ++ enc_chunk m) q'
      else (pkt, q)
  end.

(* Step 2: what is handed to Write() for the packet buffer [pkt], and what the packet buffer holds
   afterwards: when the packet goes out uncompressed although a level is set, the level in the header
   of _outputPacketBuffer itself is patched to 0 (and stays so if the transport then refuses the packet);
   when it goes out compressed the header copy in front of the deflated bytes gets the level (re)written *)
Definition mwire (c : mcfg) (pid : N) (pkt : list byte) : list byte * list byte :=
  if 0 <? mc_level c then
    let w2 := 2 * c_C12_SIZEOF_UINT32 in
    let patched := takeN w2 pkt ++ le32 pid ++ dropN PHS pkt in
    match deflate (mc_level c) (dropN PHS pkt) with
    | Some d =>
        if PHS + lenN d <? lenN pkt
        then (takeN w2 pkt ++ le32 (N.lor pid (N.shiftl (mc_level c) CL_SHIFT)) ++ d, pkt)
        else (patched, patched)
    | None => (patched, patched)
    end
  else (pkt, pkt).

Fixpoint mout_loop (fuel : nat) (c : mcfg) (maxBytes total budget : N) (st : mstate) : list packet * mstate :=
  match fuel with
  | O => ([], st)
  | S fuel' =>
      if total <? maxBytes then
        let '(pkt, q) := mfill c (m_pid st) (m_pkt st) (m_q st) in
        if 0 <? lenN pkt then
          let '(w, pkt') := mwire c (m_pid st) pkt in
          if budget =? 0 then ([], mkM (m_pid st) q pkt')      (* Write() returned 0: held for the next call *)
          else
            let '(ps, st') := mout_loop fuel' c maxBytes (total + lenN w) (budget - 1)
                                        (mkM ((m_pid st + 1) mod PID_MOD) q []) in
            (w :: ps, st')
        else ([], mkM (m_pid st) q pkt)
      else ([], st)
  end.

Definition mout_fuel (st : mstate) : nat := S (S (length (m_q st))).

Inductive mop :=
| MAdd (m : msg)
| MOut (maxBytes : N) (budget : N)
| MSetId (pid : N).               (* harness only: overwrite _sendPacketIDCounter *)

Definition mstep (c : mcfg) (st : mstate) (o : mop) : mstate * list packet :=
  match o with
  | MAdd m => (mkM (m_pid st) (m_q st ++ [m]) (m_pkt st), [])
  | MOut mb bud => let '(ps, st') := mout_loop (mout_fuel st) c mb 0 bud st in (st', ps)
  | MSetId pid => (mkM pid (m_q st) (m_pkt st), [])
  end.

Fixpoint mrun (c : mcfg) (st : mstate) (ops : list mop) : mstate * list packet :=
  match ops with
  | [] => (st, [])
  | o :: ops' =>
      let '(st1, p1) := mstep c st o in
      let '(st2, p2) := mrun c st1 ops' in (st2, p1 ++ p2)
  end.

(* ------------------------------------------------------------------ receiver (stateless) *)

Fixpoint mparse (fuel : nat) (bs : list byte) : list msg :=
  match fuel with
  | O => []
  | S fuel' =>
      if CHS <=? lenN bs then
        match rd32 bs with
        | Some (csz, b1) =>
            if csz <=? lenN b1 then takeN csz b1 :: mparse fuel' (dropN csz b1) else []
        | None => []
        end
      else []
  end.

Definition mrecv_packet (rc : rcfg) (a : addr) (p : packet) : list (addr * msg) :=
  let bs := takeN (rc_mtu rc) p in
  if lenN bs =? 0 then []
  else if rc_misc rc && ((lenN bs <? PHS) || negb (first_word_is (rc_magic rc) bs)) then [(a, bs)]
  else if PHS <=? lenN bs then
    match rd32 bs with Some (magic, b1) =>
    match rd32 b1 with Some (sex, b2) =>
    match rd32 b2 with Some (cl, b3) =>
      if (magic =? rc_magic rc) && ((rc_sex rc =? 0) || negb (rc_sex rc =? sex)) then
        let clevel := (cl / 2 ^ CL_SHIFT) mod 256 in
        let body := if 0 <? clevel then match inflate b3 with Some x => x | None => [] end else b3 in
        map (pair a) (mparse (length body) body)
      else []
    | None => [] end | None => [] end | None => [] end
  else [].

Fixpoint mrecv_all (rc : rcfg) (net : list (addr * packet)) : list (addr * msg) :=
  match net with
  | [] => []
  | (a, p) :: net' => mrecv_packet rc a p ++ mrecv_all rc net'
  end.

(* the read loop of DoInputImplementation(receiver, maxBytes): as for the big tunnel *)
Fixpoint mrecv_loop (rc : rcfg) (maxBytes total : N) (queue : list (addr * packet))
  : list (addr * msg) * list (addr * packet) :=
  match queue with
  | [] => ([], [])
  | (a, p) :: q' =>
      if total <? maxBytes then
        let bs := takeN (rc_mtu rc) p in
        if lenN bs =? 0 then ([], q')
        else
          let '(o2, rest) := mrecv_loop rc maxBytes (total + lenN bs) q' in (mrecv_packet rc a p ++ o2, rest)
      else ([], queue)
  end.

End Mini.
