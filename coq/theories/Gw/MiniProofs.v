(* C03 -- the C "mini" gateway (lang/c/minimessage/MiniMessageGateway.c) talking to the C++ MessageIOGateway
   (DEFAULT encoding), in both directions: the mini sender's bytes are exactly the frames the C++ receiver
   decodes, the mini receive loop refines its byte-at-a-time machine and decodes the frames the C++ sender
   builds; end-to-end theorems for every event list, from the generic argument of TransportProofs. *)
From Coq Require Import List NArith ZArith Bool Lia ZifyBool.
From Muscle Require Import Gen.Consts Gw.GwBase Gw.GwLemmas Gw.FrameModel Gw.FrameProofs Gw.FrameDefault
  Gw.MiniModel Gw.TransportProofs.
Import ListNotations.
Local Open Scope N_scope.

Lemma mg_frame_is_d_flat m : mg_frame m = snd (d_flat tt m).
Proof. reflexivity. Qed.

Lemma blen_mg_frame m : blen (mg_frame m) = mg_hs + blen m.
Proof. unfold mg_frame, mg_hs. rewrite !blen_app, !blen_le32. lia. Qed.

Definition mg_wire (ms : list bytes) : bytes := concat (map mg_frame ms).

Lemma mg_wire_is_frame_wire ms : mg_wire ms = wire_from bytes unit d_flat tt ms.
Proof. unfold mg_wire. induction ms as [|m t IH]; cbn; auto. now rewrite IH. Qed.

Lemma mg_wire_app a b : mg_wire (a ++ b) = mg_wire a ++ mg_wire b.
Proof. unfold mg_wire. now rewrite map_app, concat_app. Qed.

(* ====================================================================== sender *)
Definition ms_rem (st : msend) : bytes :=
  match mg_bufs st with [] => [] | b :: r => drop (mg_off st) b ++ concat r end.
Definition ms_wf (st : msend) : Prop :=
  match mg_bufs st with [] => mg_off st = 0 | b :: _ => mg_off st < blen b end /\
  Forall (fun b => 0 < blen b) (mg_bufs st).

Lemma mg_out_spec scr : forall st maxb acc st' acc',
  ms_wf st -> mg_out scr st maxb acc = (st', acc') ->
  ms_wf st' /\ exists x, acc' = acc ++ x /\ ms_rem st = x ++ ms_rem st' /\
    (ms_rem st <> [] -> 1 <= maxb -> 1 <= io_k scr -> x <> []).
Proof.
  assert (Hunf : forall scr st maxb acc, mg_out scr st maxb acc =
    match mg_bufs st with
    | [] => (st, acc)
    | b :: r =>
        let tosend := N.min (blen b - mg_off st) maxb in
        if tosend =? 0 then (st, acc) else
        let '(x, _) := io_write (take tosend (drop (mg_off st) b)) scr in
        let st' := if mg_off st + blen x =? blen b then mkMS r 0 else mkMS (b :: r) (mg_off st + blen x) in
        if blen x <? tosend then (st', acc ++ x) else
        match scr with [] => (st', acc ++ x) | _ :: scr' => mg_out scr' st' (maxb - blen x) (acc ++ x) end
    end) by (intros [|k s]; reflexivity).
  induction scr as [|k scr IH]; intros st maxb acc st' acc' Hwf H; rewrite Hunf in H; clear Hunf.
  - destruct Hwf as [Hoff Hall]. destruct (mg_bufs st) as [|b r] eqn:Eb.
    + inversion H; subst. split; [split; [rewrite Eb; auto|rewrite Eb; auto]|]. exists []. rewrite app_nil_r. unfold ms_rem. rewrite Eb. repeat split; auto.
    + cbv zeta in H. destruct (N.min (blen b - mg_off st) maxb =? 0) eqn:E0.
      * inversion H; subst. split; [split; rewrite Eb; auto|]. exists []. rewrite app_nil_r. repeat split; auto;
          try (intros; cbn [io_k] in *; lia).
      * cbn [io_write io_k] in H. rewrite N.min_0_r in H. cbn [take N.to_nat firstn blen length N.of_nat] in H.
        rewrite N.add_0_r in H.
        assert (E1 : (mg_off st =? blen b) = false) by lia. rewrite E1 in H.
        assert (E2 : (0 <? N.min (blen b - mg_off st) maxb) = true) by lia. rewrite E2 in H.
        inversion H; subst. split; [split; cbn [mg_bufs mg_off]; auto|]. exists []. rewrite !app_nil_r.
        unfold ms_rem. cbn [mg_bufs mg_off]. rewrite Eb. repeat split; auto; try (intros; cbn [io_k] in *; lia).
  - destruct Hwf as [Hoff Hall]. destruct (mg_bufs st) as [|b r] eqn:Eb.
    + inversion H; subst. split; [split; rewrite Eb; auto|]. exists []. rewrite app_nil_r. unfold ms_rem. rewrite Eb. repeat split; auto.
    + cbv zeta in H. destruct (N.min (blen b - mg_off st) maxb =? 0) eqn:E0.
      * inversion H; subst. split; [split; rewrite Eb; auto|]. exists []. rewrite app_nil_r. repeat split; auto;
          try (intros; cbn [io_k] in *; lia).
      * destruct (io_write (take (N.min (blen b - mg_off st) maxb) (drop (mg_off st) b)) (k :: scr)) as [x s1] eqn:Ew.
        apply io_write_take in Ew. destruct Ew as (Hd & Hbx & _). rewrite blen_drop in Hbx. cbn [io_k] in Hbx.
        inversion Hall as [|? ? Hb0 Hr0]; subst.
        set (st1 := if mg_off st + blen x =? blen b then mkMS r 0 else mkMS (b :: r) (mg_off st + blen x)) in *.
        assert (Hwf1 : ms_wf st1).
        { subst st1. destruct (mg_off st + blen x =? blen b) eqn:Ef; split; cbn [mg_bufs mg_off]; auto.
          - destruct r as [|b2 r2]; auto. inversion Hr0; auto.
          - lia. }
        assert (Hrem1 : ms_rem st = x ++ ms_rem st1).
        { unfold ms_rem. rewrite Eb. subst st1. destruct (mg_off st + blen x =? blen b) eqn:Ef; cbn [mg_bufs mg_off].
          - rewrite Hd at 1. rewrite drop_drop, drop_all by lia. rewrite <- app_assoc. cbn [app].
            destruct r as [|b2 r2]; reflexivity.
          - rewrite Hd at 1. rewrite drop_drop, <- app_assoc. reflexivity. }
        assert (Hx : 1 <= maxb -> 1 <= k -> x <> []).
        { intros H1 H2 ->. change (blen []) with 0 in Hbx. lia. }
        destruct (blen x <? N.min (blen b - mg_off st) maxb) eqn:Eshort.
        -- inversion H; subst. split; auto. exists x. repeat split; auto.
        -- apply IH in H; auto. destruct H as (Hwf' & y & Hacc & Hrem & _). split; auto.
           exists (x ++ y). split; [now rewrite Hacc, app_assoc|]. split; [now rewrite Hrem1, Hrem, app_assoc|].
           intros _ H1 H2 E. apply app_eq_nil in E. destruct E as [E _]. exact (Hx H1 H2 E).
Qed.

(* ====================================================================== receiver *)
Definition with_got (st : mrecv) (g : bytes) : mrecv := mkMR g (mr_max st) (mr_size st).

Lemma mg_feed_app a : forall st b,
  mg_feed st (a ++ b) = let '(st1, o1) := mg_feed st a in let '(st2, o2) := mg_feed st1 b in (st2, o1 ++ o2).
Proof.
  induction a as [|x a IH]; intros st b; cbn [app mg_feed].
  - destruct (mg_feed st b). reflexivity.
  - destruct (mg_byte st x) as [st1 o1]. rewrite IH.
    destruct (mg_feed st1 a) as [st2 o2]. destruct (mg_feed st2 b) as [st3 o3]. now rewrite app_assoc.
Qed.

Lemma mg_feed_stuck st x : mr_max st <= blen (mr_got st) -> mg_feed st x = (st, []).
Proof.
  intros H. induction x as [|b t IH]; cbn [mg_feed]; auto.
  unfold mg_byte. assert (E : (mr_max st <=? blen (mr_got st)) = true) by lia. rewrite E, IH. reflexivity.
Qed.

Lemma mg_feed_partial x : forall st,
  blen (mr_got st) + blen x < mr_max st -> mg_feed st x = (with_got st (mr_got st ++ x), []).
Proof.
  induction x as [|b t IH]; intros st H.
  - cbn. rewrite app_nil_r. destruct st; reflexivity.
  - cbn [mg_feed]. rewrite blen_cons in H. unfold mg_byte.
    assert (E1 : (mr_max st <=? blen (mr_got st)) = false) by lia.
    assert (E2 : (blen (mr_got st) + 1 =? mr_max st) = false) by lia. rewrite E1, E2.
    change (mkMR (mr_got st ++ [b]) (mr_max st) (mr_size st)) with (with_got st (mr_got st ++ [b])). rewrite IH.
    + unfold with_got. cbn. now rewrite <- app_assoc.
    + unfold with_got. cbn [mr_got mr_max]. rewrite blen_app. change (blen [b]) with 1. lia.
Qed.

Definition mg_complete2 (st : mrecv) : mrecv * list bytes := let '(st2, o, _) := mg_complete st in (st2, o).

Lemma mg_feed_exact x : forall st,
  x <> [] -> blen (mr_got st) + blen x = mr_max st -> mg_feed st x = mg_complete2 (with_got st (mr_got st ++ x)).
Proof.
  induction x as [|b t IH]; intros st Hx H; [contradiction|].
  cbn [mg_feed]. rewrite blen_cons in H. unfold mg_byte.
  assert (E1 : (mr_max st <=? blen (mr_got st)) = false) by lia. rewrite E1.
  destruct t as [|b' t'].
  - change (blen []) with 0 in H. assert (E2 : (blen (mr_got st) + 1 =? mr_max st) = true) by lia. rewrite E2.
    unfold mg_complete2, with_got. cbn [mg_feed]. unfold bytes, byte in *.
    destruct (mg_complete (mkMR (mr_got st ++ [b]) (mr_max st) (mr_size st))) as [[st2 o] e]. cbv iota beta. now rewrite app_nil_r.
  - assert (E2 : (blen (mr_got st) + 1 =? mr_max st) = false) by (rewrite blen_cons in H; lia). rewrite E2.
    change (mkMR (mr_got st ++ [b]) (mr_max st) (mr_size st)) with (with_got st (mr_got st ++ [b])). rewrite IH.
    + unfold with_got. cbn [mr_got mr_max mr_size]. rewrite <- app_assoc. cbn [app].
      destruct (mg_complete2 _). reflexivity.
    + discriminate.
    + unfold with_got. cbn [mr_got mr_max]. rewrite blen_app. change (blen [b]) with 1. lia.
Qed.

Lemma mg_complete_err st st2 o : mg_complete st = (st2, o, true) -> o = [].
Proof.
  unfold mg_complete. destruct (mg_hs <? blen (mr_got st)); [intros H; inversion H|].
  destruct (_ || _); [intros H; inversion H; auto|].
  destruct (two32 <=? _); [intros H; inversion H; auto|].
  destruct (mr_size st <? _); [destruct (two32 <=? _)|]; intros H; inversion H; auto.
Qed.

(* the mini receive loop = feeding the bytes it read to the byte machine; at most the Message it returns *)
Lemma mg_in_spec scr : forall st maxb pipe st' o pipe' err,
  mg_in scr st maxb pipe = (st', o, pipe', err) ->
  exists x, pipe = x ++ pipe' /\
    mg_feed st x = (st', o) /\
    (blen (mr_got st) < mr_max st -> 1 <= maxb -> 1 <= io_k scr -> pipe <> [] -> x <> []).
Proof.
  assert (Hunf : forall scr st maxb pipe, mg_in scr st maxb pipe =
    let torecv := N.min (mr_max st - blen (mr_got st)) maxb in
    if torecv =? 0 then (st, [], pipe, false) else
    let '(x, pipe', _) := io_read torecv scr pipe in
    let st1 := mkMR (mr_got st ++ x) (mr_max st) (mr_size st) in
    let '(st2, o, err) := if blen (mr_got st) + blen x =? mr_max st then mg_complete st1 else (st1, [], false) in
    if err then (st2, [], pipe', true)
    else match o with
         | _ :: _ => (st2, o, pipe', false)
         | [] => if blen x <? torecv then (st2, [], pipe', false) else
                 match scr with [] => (st2, [], pipe', false) | _ :: scr' => mg_in scr' st2 (maxb - blen x) pipe' end
         end) by (intros [|k s]; reflexivity).
  induction scr as [|k scr IH]; intros st maxb pipe st' o pipe' err H; rewrite Hunf in H; clear Hunf; cbv zeta in H.
  - destruct (N.min (mr_max st - blen (mr_got st)) maxb =? 0) eqn:E0.
    + inversion H; subst. exists []. repeat split; auto; try (intros; lia).
    + cbn [io_read io_k io_tl] in H. rewrite N.min_0_l, N.min_0_r in H. cbn [take drop N.to_nat firstn skipn] in H.
      rewrite app_nil_r in H. change (blen []) with 0 in H. rewrite N.add_0_r in H.
      assert (E1 : (blen (mr_got st) =? mr_max st) = false) by lia. rewrite E1 in H.
      assert (E2 : (0 <? N.min (mr_max st - blen (mr_got st)) maxb) = true) by lia. rewrite E2 in H.
      inversion H; subst. exists []. repeat split; auto; try (destruct st; reflexivity); try (intros _ _ Hk; cbn in Hk; lia).
  - destruct (N.min (mr_max st - blen (mr_got st)) maxb =? 0) eqn:E0.
    + inversion H; subst. exists []. repeat split; auto; try (intros; lia).
    + destruct (io_read (N.min (mr_max st - blen (mr_got st)) maxb) (k :: scr) pipe) as [[x p1] s1] eqn:Er.
      apply io_read_spec in Er. destruct Er as (Hp & Hb & _). cbn [io_k] in Hb.
      fold (with_got st (mr_got st ++ x)) in H.
      assert (Hxne : blen (mr_got st) < mr_max st -> 1 <= maxb -> 1 <= k -> pipe <> [] -> x <> []).
      { intros H1 H2 H3 H4 ->. pose proof (blen_pos _ H4). change (blen []) with 0 in Hb. lia. }
      destruct (blen (mr_got st) + blen x =? mr_max st) eqn:Efull.
      * assert (Hx0 : x <> []) by (intros ->; change (blen []) with 0 in *; lia).
        pose proof (mg_feed_exact x st Hx0 ltac:(lia)) as Hf. unfold mg_complete2 in Hf.
        destruct (mg_complete (with_got st (mr_got st ++ x))) as [[st2 o2] e2] eqn:Ec.
        destruct e2.
        -- inversion H; subst. exists x. repeat split; auto. rewrite Hf. now rewrite (mg_complete_err _ _ _ Ec).
        -- destruct o2 as [|m o2'].
           ++ assert (E3 : (blen x <? N.min (mr_max st - blen (mr_got st)) maxb) = false) by lia. rewrite E3 in H.
              apply IH in H. destruct H as (y & Hp2 & Hf2 & _).
              exists (x ++ y). split; [rewrite Hp, Hp2; now rewrite app_assoc|]. split.
              ** rewrite mg_feed_app, Hf, Hf2. reflexivity.
              ** intros H1 H2 H3 H4 E. apply app_eq_nil in E. destruct E; contradiction.
           ++ inversion H; subst. exists x. repeat split; auto.
      * destruct (blen x <? N.min (mr_max st - blen (mr_got st)) maxb) eqn:Eshort.
        -- inversion H; subst. exists x. repeat split; auto. apply mg_feed_partial. lia.
        -- apply IH in H. destruct H as (y & Hp2 & Hf2 & _).
           exists (x ++ y). split; [rewrite Hp, Hp2; now rewrite app_assoc|]. split.
           ** rewrite mg_feed_app, (mg_feed_partial x st ltac:(lia)), Hf2. reflexivity.
           ** intros H1 H2 H3 H4 E. apply app_eq_nil in E. destruct E as [E _]. exact (Hxne H1 H2 H3 H4 E).
Qed.

(* ---- decoding a frame *)
Definition mg_wfm (m : bytes) : Prop := 1 <= blen m /\ 2 * (blen m + mg_hs) < two32.
Definition mr_idle (st : mrecv) : Prop := mr_got st = [] /\ mr_max st = mg_hs.

Lemma mg_feed_frame st m : mr_idle st -> mg_wfm m ->
  exists st', mg_feed st (mg_frame m) = (st', [m]) /\ mr_idle st'.
Proof.
  intros [Hg Hm] [H1 H2]. destruct st as [got mx sz]. cbn in Hg, Hm. subst got mx.
  unfold mg_frame. rewrite app_assoc, mg_feed_app.
  set (hdr := le32 (blen m) ++ le32 c_MUSCLE_MESSAGE_ENCODING_DEFAULT).
  assert (Hhl : blen hdr = mg_hs) by reflexivity.
  rewrite (mg_feed_exact hdr (mkMR [] mg_hs sz)); [|discriminate|exact Hhl].
  unfold mg_complete2, with_got. cbn [mr_got mr_max mr_size app]. unfold mg_complete. cbn [mr_got mr_size mr_max].
  rewrite Hhl. assert (E0 : (mg_hs <? mg_hs) = false) by lia. rewrite E0.
  assert (Eb : rd32 hdr = blen m) by (unfold hdr; apply rd32_le32; unfold two32, mg_hs in *; lia).
  assert (Ee : rd32 (drop 4 hdr) = c_MUSCLE_MESSAGE_ENCODING_DEFAULT).
  { unfold hdr. change 4 with (blen (le32 (blen m))). rewrite drop_app_exact. rewrite <- (app_nil_r (le32 _)). apply rd32_le32. vm_compute. reflexivity. }
  rewrite Eb, Ee, N.eqb_refl. assert (E1 : (blen m =? 0) = false) by lia. rewrite E1. cbn [orb negb].
  assert (E2 : (two32 <=? blen m + mg_hs) = false) by lia. rewrite E2.
  assert (Hbody : forall sz', mg_feed (mkMR hdr (blen m + mg_hs) sz') m =
                    (mkMR [] mg_hs (if mg_shrink <? sz' then mg_shrink else sz'), [m])).
  { intros sz'. assert (Hmne : m <> []) by (intros ->; change (blen []) with 0 in H1; lia).
    rewrite (mg_feed_exact m (mkMR hdr (blen m + mg_hs) sz') Hmne); [|cbn [mr_got mr_max]; rewrite Hhl; lia].
    unfold mg_complete2, with_got. cbn [mr_got mr_max mr_size]. unfold mg_complete. cbn [mr_got mr_size mr_max].
    rewrite blen_app, Hhl. assert (E3 : (mg_hs <? mg_hs + blen m) = true) by lia. rewrite E3.
    change mg_hs with (blen hdr) at 2. rewrite drop_app_exact. reflexivity. }
  destruct (sz <? blen m + mg_hs).
  - assert (E3 : (two32 <=? 2 * (blen m + mg_hs)) = false) by lia. rewrite E3.
    rewrite Hbody. eexists. split; [reflexivity|split; reflexivity].
  - rewrite Hbody. eexists. split; [reflexivity|split; reflexivity].
Qed.

Lemma mg_feed_wire ms : Forall mg_wfm ms -> forall st, mr_idle st ->
  exists st', mg_feed st (mg_wire ms) = (st', ms) /\ mr_idle st'.
Proof.
  induction 1 as [|m t Hm _ IH]; intros st Hi; cbn [mg_wire map concat].
  - exists st. auto.
  - destruct (mg_feed_frame st m Hi Hm) as (st1 & Hf1 & Hi1).
    destruct (IH st1 Hi1) as (st2 & Hf2 & Hi2). exists st2. split; auto.
    fold (mg_wire t). rewrite mg_feed_app, Hf1, Hf2. reflexivity.
Qed.

(* ====================================================================== mini sender -> C++ receiver *)
Section MiniToCpp.
  Variable max_in : N.

  Lemma ms_S_init : ms_wf ms_init /\ ms_rem ms_init = [].
  Proof. split; [split; [reflexivity|constructor]|reflexivity]. Qed.

  Lemma ms_S_queue s (ms : list bytes) m :
    Forall (d_wfb max_in) ms -> d_wfb max_in m -> ms_wf s ->
    ms_wf (ms_queue s m) /\ exists d, ms_rem (ms_queue s m) = ms_rem s ++ d /\ mg_wire (ms ++ [m]) = mg_wire ms ++ d.
  Proof.
    intros _ _ [Hoff Hall].
    assert (Hfp : 0 < blen (mg_frame m)) by (rewrite blen_mg_frame; unfold mg_hs; lia).
    split.
    - split; cbn [ms_queue mg_bufs mg_off].
      + destruct (mg_bufs s); cbn [app]; [lia|exact Hoff].
      + apply Forall_app; split; auto.
    - exists (mg_frame m). split.
      + unfold ms_rem. cbn [ms_queue mg_bufs mg_off]. destruct (mg_bufs s) as [|b r]; cbn [app].
        * rewrite Hoff, drop_0. cbn. now rewrite app_nil_r.
        * rewrite concat_app. cbn. now rewrite app_nil_r, app_assoc.
      + rewrite mg_wire_app. unfold mg_wire at 3. cbn. now rewrite app_nil_r.
  Qed.

  Lemma ms_S_out s (ms : list bytes) maxb scr s' x :
    Forall (d_wfb max_in) ms -> ms_wf s -> mg_do_output s maxb scr = (s', x) -> ms_wf s' /\ ms_rem s = x ++ ms_rem s'.
  Proof.
    intros _ Hwf H. unfold mg_do_output in H.
    destruct (mg_out_spec _ _ _ _ _ _ Hwf H) as (Hwf' & y & Hy & Hrem & _). cbn in Hy. subst y. auto.
  Qed.

  Notation RRel := (f_RRel bytes unit d_unflat d_body_size max_in tt).

  Lemma m2c_R_in (ms : list bytes) r c o maxb scr pipe (rest : bytes) r' o' pipe' :
    Forall (d_wfb max_in) ms -> mg_wire ms = c ++ pipe ++ rest -> RRel r c o ->
    d_do_input max_in r maxb scr pipe = (r', o', pipe') ->
    exists x, pipe = x ++ pipe' /\ RRel r' (c ++ x) (o ++ o').
  Proof.
    intros Hwf Hw. rewrite mg_wire_is_frame_wire in Hw.
    exact (f_R_in bytes unit unit d_flat d_unflat d_body_size max_in tt tt d_flat_len (d_wfb max_in) ms r c o maxb scr pipe rest r' o' pipe' Hwf Hw).
  Qed.

  Lemma m2c_decode_prefix (ms : list bytes) r c o (rest : bytes) :
    Forall (d_wfb max_in) ms -> mg_wire ms = c ++ rest -> RRel r c o -> exists tl, ms = o ++ tl.
  Proof.
    intros Hwf Hw. rewrite mg_wire_is_frame_wire in Hw.
    exact (f_decode_prefix bytes unit unit d_flat d_unflat d_body_size max_in tt tt d_flat_len (fun _ _ => True) (d_wfb max_in) I (d_codec_sync max_in) ms r c o rest Hwf Hw).
  Qed.

  Lemma m2c_decode_complete (ms : list bytes) r o :
    Forall (d_wfb max_in) ms -> RRel r (mg_wire ms) o -> o ++ [] = ms.
  Proof.
    intros Hwf. rewrite mg_wire_is_frame_wire.
    exact (f_decode_complete bytes unit unit d_flat d_unflat d_body_size max_in tt tt d_flat_len (fun _ _ => True) (d_wfb max_in) I (d_codec_sync max_in) ms r o Hwf).
  Qed.

  Definition m2c_sys0 := @sys0 bytes bytes msend (frecv unit) ms_init (fr_init tt).
  Notation m2c_run := (sys_run ms_queue mg_do_output (d_do_input max_in)).

  Theorem mini_to_cpp_prefix_safety (evs : list (event bytes)) :
    Forall (ev_wf (d_wfb max_in)) evs -> exists tl, ev_msgs evs = s_dlv (m2c_run m2c_sys0 evs) ++ tl.
  Proof.
    apply (prefix_safety ms_queue mg_do_output (d_do_input max_in) ms_init (fr_init tt) (d_wfb max_in) mg_wire
             (fun ms : list bytes => ms) (fun o : list bytes => o) ms_rem (fun s _ => ms_wf s) RRel);
      [reflexivity | exact ms_S_init | exact ms_S_queue | exact ms_S_out
      | exact (f_R_init bytes unit d_unflat d_body_size max_in tt) | exact m2c_R_in | exact m2c_decode_prefix].
  Qed.

  Theorem mini_to_cpp_completeness (evs : list (event bytes)) :
    Forall (ev_wf (d_wfb max_in)) evs ->
    ms_rem (s_snd (m2c_run m2c_sys0 evs)) = [] -> s_pipe (m2c_run m2c_sys0 evs) = [] ->
    s_dlv (m2c_run m2c_sys0 evs) = ev_msgs evs.
  Proof.
    intros Hf Hr Hp.
    pose proof (completeness ms_queue mg_do_output (d_do_input max_in) ms_init (fr_init tt) (d_wfb max_in) mg_wire
             (fun ms : list bytes => ms) (fun o : list bytes => o) (fun _ => []) ms_rem (fun s _ => ms_wf s) RRel
             eq_refl ms_S_init ms_S_queue ms_S_out (f_R_init bytes unit d_unflat d_body_size max_in tt) m2c_R_in m2c_decode_complete evs Hf Hr Hp) as H.
    now rewrite app_nil_r in H.
  Qed.
  Theorem mini_to_cpp_fair_completion (evs : list (event bytes)) (rs : list (list (event bytes))) :
    Forall (ev_wf (d_wfb max_in)) evs -> Forall round rs ->
    (measure ms_rem (fun _ => 0%nat) (m2c_run m2c_sys0 evs) <= length rs)%nat ->
    let st := m2c_run m2c_sys0 (evs ++ concat rs) in
    quiet ms_rem st /\ s_dlv st = ev_msgs evs.
  Proof.
    intros Hf Hr Hm.
    pose proof (fair_completion ms_queue mg_do_output (d_do_input max_in) ms_init (fr_init tt) (d_wfb max_in) mg_wire
             (fun ms : list bytes => ms) (fun o : list bytes => o) (fun _ => []) ms_rem (fun s _ => ms_wf s) RRel
             eq_refl ms_S_init ms_S_queue ms_S_out (f_R_init bytes unit d_unflat d_body_size max_in tt) m2c_R_in m2c_decode_complete
             (fun _ => 0%nat)) as H.
    cbv zeta in *. rewrite <- (app_nil_r (s_dlv _)). apply H; auto.
    - intros s ms maxb scr s' x _ Hs Ho. split; [lia|]. intros Hrem Hmx Hk. left.
      unfold mg_do_output in Ho.
      destruct (mg_out_spec scr s maxb [] s' x Hs Ho) as (_ & y & Hy & _ & Hpr).
      cbn in Hy. subst y. auto.
    - intros ms r c o maxb scr pipe rest r' o' pipe' Hwf Hw Hc Hi Hne Hmx Hk.
      rewrite mg_wire_is_frame_wire in Hw.
      pose proof (f_no_error bytes unit unit d_flat d_unflat d_body_size max_in tt tt d_flat_len (fun _ _ => True) (d_wfb max_in) I
                    (d_codec_sync max_in) ms r c o (pipe ++ rest) Hwf Hw Hc) as He.
      destruct Hc as [Hwfr _].
      exact (f_do_input_progress bytes unit unit d_flat d_unflat d_body_size max_in tt d_flat_len r maxb scr pipe r' o' pipe' Hwfr He Hmx Hk Hne Hi).
  Qed.
End MiniToCpp.

(* ====================================================================== C++ sender -> mini receiver *)
Section CppToMini.
  Definition c2m_wire (ms : list bytes) : bytes := wire_from bytes unit d_flat tt ms.
  Definition c2m_RRel (r : mrecv) (c : bytes) (o : list bytes) : Prop := mg_feed mr_init c = (r, o).
  Notation SI := (fs_SI bytes unit d_flat tt).
  Notation rem := (fs_rem bytes unit d_flat).

  Lemma c2m_R_in (ms : list bytes) r c o maxb scr pipe (rest : bytes) r' o' pipe' :
    Forall mg_wfm ms -> c2m_wire ms = c ++ pipe ++ rest -> c2m_RRel r c o ->
    mg_do_input r maxb scr pipe = (r', o', pipe') ->
    exists x, pipe = x ++ pipe' /\ c2m_RRel r' (c ++ x) (o ++ o').
  Proof.
    intros _ _ Hc H. unfold mg_do_input in H.
    destruct (mg_in scr r maxb pipe) as [[[st2 o2] p2] e] eqn:E. inversion H; subst; clear H.
    destruct (mg_in_spec _ _ _ _ _ _ _ _ E) as (x & Hp & Hf & _).
    exists x. split; auto. unfold c2m_RRel in *. rewrite mg_feed_app, Hc, Hf. reflexivity.
  Qed.

  Lemma c2m_full ms : Forall mg_wfm ms -> exists st', mg_feed mr_init (c2m_wire ms) = (st', ms) /\ mr_idle st'.
  Proof.
    intros Hwf. unfold c2m_wire. rewrite <- mg_wire_is_frame_wire.
    apply mg_feed_wire; auto. split; reflexivity.
  Qed.

  Lemma c2m_decode_prefix (ms : list bytes) (r : mrecv) c o (rest : bytes) :
    Forall mg_wfm ms -> c2m_wire ms = c ++ rest -> c2m_RRel r c o -> exists tl, ms = o ++ tl.
  Proof.
    intros Hwf Hw Hc. destruct (c2m_full ms Hwf) as (st' & Hall & _).
    rewrite Hw, mg_feed_app, Hc in Hall. destruct (mg_feed r rest) as [r2 o2]. inversion Hall. eauto.
  Qed.

  Lemma c2m_decode_complete (ms : list bytes) (r : mrecv) o :
    Forall mg_wfm ms -> c2m_RRel r (c2m_wire ms) o -> o ++ [] = ms.
  Proof.
    intros Hwf Hc. destruct (c2m_full ms Hwf) as (st' & Hall & _).
    unfold c2m_RRel in Hc. rewrite Hc in Hall. inversion Hall. now rewrite app_nil_r.
  Qed.

  Definition c2m_sys0 := @sys0 bytes bytes (fsend bytes unit) mrecv (fs_init tt) mr_init.
  Notation c2m_run := (sys_run fs_queue d_do_output mg_do_input).

  Theorem cpp_to_mini_prefix_safety (evs : list (event bytes)) :
    Forall (ev_wf mg_wfm) evs -> exists tl, ev_msgs evs = s_dlv (c2m_run c2m_sys0 evs) ++ tl.
  Proof.
    apply (prefix_safety fs_queue d_do_output mg_do_input (fs_init tt) mr_init mg_wfm c2m_wire
             (fun ms : list bytes => ms) (fun o : list bytes => o) rem SI c2m_RRel);
      [reflexivity
      | exact (f_S_init bytes unit d_flat tt)
      | exact (f_S_queue bytes unit d_flat tt mg_wfm)
      | exact (f_S_out bytes unit d_flat tt d_flat_len mg_wfm)
      | reflexivity | exact c2m_R_in | exact c2m_decode_prefix].
  Qed.

  Theorem cpp_to_mini_completeness (evs : list (event bytes)) :
    Forall (ev_wf mg_wfm) evs ->
    rem (s_snd (c2m_run c2m_sys0 evs)) = [] -> s_pipe (c2m_run c2m_sys0 evs) = [] ->
    s_dlv (c2m_run c2m_sys0 evs) = ev_msgs evs.
  Proof.
    intros Hf Hr Hp.
    pose proof (completeness fs_queue d_do_output mg_do_input (fs_init tt) mr_init mg_wfm c2m_wire
             (fun ms : list bytes => ms) (fun o : list bytes => o) (fun _ => []) rem SI c2m_RRel
             eq_refl (f_S_init bytes unit d_flat tt) (f_S_queue bytes unit d_flat tt mg_wfm)
             (f_S_out bytes unit d_flat tt d_flat_len mg_wfm) eq_refl c2m_R_in c2m_decode_complete evs Hf Hr Hp) as H.
    now rewrite app_nil_r in H.
  Qed.
  (* a mini receiver that has consumed a prefix of a well-formed stream is not full (the state it stays in after an error) *)
  Lemma c2m_not_stuck (ms : list bytes) (r : mrecv) c o (rest : bytes) :
    Forall mg_wfm ms -> c2m_wire ms = c ++ rest -> c2m_RRel r c o -> blen (mr_got r) < mr_max r.
  Proof.
    intros Hwf Hw Hc. destruct (N.lt_ge_cases (blen (mr_got r)) (mr_max r)) as [|Hge]; auto. exfalso.
    destruct (c2m_full ms Hwf) as (st' & Hall & Hg & Hm).
    unfold c2m_RRel in Hc. rewrite Hw, mg_feed_app, Hc, (mg_feed_stuck r rest Hge) in Hall.
    inversion Hall; subst st'. rewrite Hg, Hm in Hge. cbn in Hge. unfold mg_hs in Hge. lia.
  Qed.

  Theorem cpp_to_mini_fair_completion (evs : list (event bytes)) (rs : list (list (event bytes))) :
    Forall (ev_wf mg_wfm) evs -> Forall round rs ->
    (measure rem (fun _ => 0%nat) (c2m_run c2m_sys0 evs) <= length rs)%nat ->
    let st := c2m_run c2m_sys0 (evs ++ concat rs) in
    quiet rem st /\ s_dlv st = ev_msgs evs.
  Proof.
    intros Hf Hr Hm.
    pose proof (fair_completion fs_queue d_do_output mg_do_input (fs_init tt) mr_init mg_wfm c2m_wire
             (fun ms : list bytes => ms) (fun o : list bytes => o) (fun _ => []) rem SI c2m_RRel
             eq_refl (f_S_init bytes unit d_flat tt) (f_S_queue bytes unit d_flat tt mg_wfm)
             (f_S_out bytes unit d_flat tt d_flat_len mg_wfm) eq_refl c2m_R_in c2m_decode_complete (fun _ => 0%nat)) as H.
    cbv zeta in *. rewrite <- (app_nil_r (s_dlv _)). apply H; auto.
    - intros s ms maxb scr s' x _ Hs Ho. split; [lia|]. intros Hrem Hmx Hk. left.
      exact (f_do_output_progress bytes unit d_flat tt d_flat_len ms s maxb scr s' x Hs Hrem Hmx Hk Ho).
    - intros ms r c o maxb scr pipe rest r' o' pipe' Hwf Hw Hc Hi Hne Hmx Hk.
      pose proof (c2m_not_stuck ms r c o (pipe ++ rest) Hwf Hw Hc) as Hns.
      unfold mg_do_input in Hi.
      destruct (mg_in scr r maxb pipe) as [[[st2 o2] p2] e] eqn:E. inversion Hi; subst; clear Hi.
      destruct (mg_in_spec _ _ _ _ _ _ _ _ E) as (x & Hp & _ & Hx).
      specialize (Hx Hns Hmx Hk Hne). rewrite Hp, app_length. destruct x; [contradiction|cbn; lia].
  Qed.
End CppToMini.
