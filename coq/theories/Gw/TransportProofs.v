(* C03 -- the generic end-to-end argument: a sender machine and a receiver machine joined by
   a byte pipe, driven by an arbitrary event list (queue a Message / DoOutput(max) under any
   write script / DoInput(max) under any read script, interleaved in any order).

   A gateway instance supplies
     wire     what a sender puts on the wire for the list of all Messages queued so far,
     rem      the bytes a sender state still has to write,
     SI       an invariant tying a sender state to the list of Messages queued so far,
     RRel     "receiver state r has consumed bytes c in total and delivered outputs o in total",
   and proves the step lemmas listed as hypotheses.  This file derives, for EVERY event list:
     prefix_safety    what has been delivered is a prefix of what has been queued,
     completeness     once the sender has nothing left and nothing is in flight, delivered = queued,
     fair_completion  every schedule made of enough rounds that each contain a productive
                      DoOutput and a productive DoInput call (in any order, between any other
                      calls, with any scripts and maxBytes) reaches that point. *)
From Coq Require Import List NArith Bool Lia Arith.
From Muscle Require Import Gw.GwBase.
Import ListNotations.

Section Generic.
  Context {M O S R I : Type}.
  Variable queue : S -> M -> S.
  Variable do_out : S -> N -> list N -> S * bytes.
  Variable do_in : R -> N -> list N -> bytes -> R * list O * bytes.
  Variable s0 : S.
  Variable r0 : R.
  Variable wfm : M -> Prop.                       (* the property's domain of Messages *)
  Variable wire : list M -> bytes.
  Variable flat_m : list M -> list I.             (* what the property compares on the sending side *)
  Variable flat_o : list O -> list I.             (* ... and on the receiving side *)
  Variable fin : R -> list I.                     (* items a receiver holds back (fixed-size chunk assembly); [] elsewhere *)
  Variable rem : S -> bytes.
  Variable SI : S -> list M -> Prop.
  Variable RRel : R -> bytes -> list O -> Prop.

  Hypothesis wire_nil : wire [] = [].
  Hypothesis S_init : SI s0 [] /\ rem s0 = [].
  Hypothesis S_queue : forall s ms m,
      Forall wfm ms -> wfm m -> SI s ms ->
      SI (queue s m) (ms ++ [m]) /\
      exists d, rem (queue s m) = rem s ++ d /\ wire (ms ++ [m]) = wire ms ++ d.
  Hypothesis S_out : forall s ms maxb scr s' x,
      Forall wfm ms -> SI s ms -> do_out s maxb scr = (s', x) ->
      SI s' ms /\ rem s = x ++ rem s'.
  Hypothesis R_init : RRel r0 [] [].
  Hypothesis R_in : forall ms r c o maxb scr pipe rest r' o' pipe',
      Forall wfm ms -> wire ms = c ++ pipe ++ rest -> RRel r c o ->
      do_in r maxb scr pipe = (r', o', pipe') ->
      exists x, pipe = x ++ pipe' /\ RRel r' (c ++ x) (o ++ o').
  Hypothesis decode_prefix : forall ms r c o rest,
      Forall wfm ms -> wire ms = c ++ rest -> RRel r c o ->
      exists tl, flat_m ms = flat_o o ++ tl.
  Hypothesis decode_complete : forall ms r o,
      Forall wfm ms -> RRel r (wire ms) o -> flat_o o ++ fin r = flat_m ms.

  Notation sys := (@sys M O S R).
  Notation step := (sys_step queue do_out do_in).
  Notation run := (sys_run queue do_out do_in).

  Definition sys0 : sys := mkSys s0 [] r0 [] [].

  (* the system invariant: consumed ++ in flight ++ still to be written = the wire image of
     everything queued so far *)
  Definition sys_inv (st : sys) : Prop :=
    Forall wfm (s_sent st) /\ SI (s_snd st) (s_sent st) /\
    exists c, wire (s_sent st) = c ++ s_pipe st ++ rem (s_snd st) /\ RRel (s_rcv st) c (s_dlv st).

  Definition ev_wf (e : event M) : Prop := match e with EQueue m => wfm m | _ => True end.

  Lemma sys_inv_init : sys_inv sys0.
  Proof.
    destruct S_init as [H1 H2]. split; [constructor|]. split; [exact H1|].
    exists []. cbn. rewrite H2, wire_nil. auto.
  Qed.

  Lemma sys_inv_step st e : sys_inv st -> ev_wf e -> sys_inv (step st e).
  Proof.
    intros (Hwf & HS & c & Hw & HR) He.
    destruct e as [m | maxb scr | maxb scr]; cbn [sys_step].
    - destruct (S_queue _ _ m Hwf He HS) as (HS' & d & Hd1 & Hd2).
      split; cbn; [apply Forall_app; split; auto|]. split; auto.
      exists c. split; auto. rewrite Hd2, Hd1, Hw. now rewrite <- !app_assoc.
    - destruct (do_out (s_snd st) maxb scr) as [s' x] eqn:E.
      destruct (S_out _ _ _ _ _ _ Hwf HS E) as (HS' & Hx).
      split; cbn; auto. split; auto. exists c. split; auto.
      rewrite Hw, Hx. now rewrite <- !app_assoc.
    - destruct (do_in (s_rcv st) maxb scr (s_pipe st)) as [[r' o'] p'] eqn:E.
      destruct (R_in _ _ _ _ _ _ _ _ _ _ _ Hwf Hw HR E) as (x & Hp & HR').
      split; cbn; auto. split; auto. exists (c ++ x). split; auto.
      rewrite Hw, Hp. now rewrite <- !app_assoc.
  Qed.

  Lemma sys_inv_run evs : forall st, sys_inv st -> Forall ev_wf evs -> sys_inv (run st evs).
  Proof.
    induction evs as [|e evs IH]; intros st Hi Hf; cbn; auto.
    inversion Hf; subst. apply IH; auto. apply sys_inv_step; auto.
  Qed.

  Lemma sent_is_queued evs : forall st, s_sent (run st evs) = s_sent st ++ ev_msgs evs.
  Proof.
    induction evs as [|e evs IH]; intros st.
    - cbn. now rewrite app_nil_r.
    - change (run st (e :: evs)) with (run (step st e) evs).
      rewrite IH. destruct e; cbn.
      + now rewrite <- app_assoc.
      + now destruct (do_out (s_snd st) maxb scr).
      + now destruct (do_in (s_rcv st) maxb scr (s_pipe st)) as [[? ?] ?].
  Qed.

  (* ---- prefix safety: for every event list *)
  Theorem prefix_safety evs :
    Forall ev_wf evs ->
    exists tl, flat_m (ev_msgs evs) = flat_o (s_dlv (run sys0 evs)) ++ tl.
  Proof.
    intros Hf.
    destruct (sys_inv_run evs sys0 sys_inv_init Hf) as (Hwf & HS & c & Hw & HR).
    rewrite sent_is_queued in Hwf, Hw. cbn in Hwf, Hw.
    eapply decode_prefix; eauto.
  Qed.

  (* ---- completeness: nothing left to write, nothing in flight => delivered = queued *)
  Theorem completeness evs :
    Forall ev_wf evs ->
    rem (s_snd (run sys0 evs)) = [] -> s_pipe (run sys0 evs) = [] ->
    flat_o (s_dlv (run sys0 evs)) ++ fin (s_rcv (run sys0 evs)) = flat_m (ev_msgs evs).
  Proof.
    intros Hf Hr Hp.
    destruct (sys_inv_run evs sys0 sys_inv_init Hf) as (Hwf & HS & c & Hw & HR).
    rewrite Hr, Hp in Hw. cbn in Hw. rewrite app_nil_r in Hw. subst c.
    rewrite sent_is_queued in Hwf, HR. cbn in Hwf, HR.
    eapply decode_complete; eauto.
  Qed.

  (* ---- fair completion *)
  Variable mu : S -> nat.      (* sender work that moves no byte (skipping empty Messages) *)
  Hypothesis out_progress : forall s ms maxb scr s' x,
      Forall wfm ms -> SI s ms -> do_out s maxb scr = (s', x) ->
      (mu s' <= mu s)%nat /\
      (rem s <> [] -> (1 <= maxb)%N -> (1 <= io_k scr)%N -> x <> [] \/ (mu s' < mu s)%nat).
  Hypothesis in_progress : forall ms r c o maxb scr pipe rest r' o' pipe',
      Forall wfm ms -> wire ms = c ++ pipe ++ rest -> RRel r c o ->
      do_in r maxb scr pipe = (r', o', pipe') ->
      pipe <> [] -> (1 <= maxb)%N -> (1 <= io_k scr)%N -> (length pipe' < length pipe)%nat.

  Definition measure (st : sys) : nat := 2 * length (rem (s_snd st)) + length (s_pipe st) + mu (s_snd st).
  Definition quiet (st : sys) : Prop := rem (s_snd st) = [] /\ s_pipe st = [].

  Definition no_queue (e : event M) : Prop := match e with EQueue _ => False | _ => True end.
  Definition productive_out (e : event M) : Prop :=
    match e with EOut maxb scr => (1 <= maxb)%N /\ (1 <= io_k scr)%N | _ => False end.
  Definition productive_in (e : event M) : Prop :=
    match e with EIn maxb scr => (1 <= maxb)%N /\ (1 <= io_k scr)%N | _ => False end.

  (* one I/O event never increases the measure, and a productive one decreases it unless quiet *)
  Lemma step_measure st e :
    sys_inv st -> no_queue e ->
    (measure (step st e) <= measure st)%nat /\
    (productive_out e -> rem (s_snd st) <> [] -> (measure (step st e) < measure st)%nat) /\
    (productive_in e -> s_pipe st <> [] -> (measure (step st e) < measure st)%nat).
  Proof.
    intros (Hwf & HS & c & Hw & HR) Hq.
    destruct e as [m | maxb scr | maxb scr]; cbn [sys_step]; [contradiction| |].
    - destruct (do_out (s_snd st) maxb scr) as [s' x] eqn:E.
      destruct (S_out _ _ _ _ _ _ Hwf HS E) as (HS' & Hx).
      destruct (out_progress _ _ _ _ _ _ Hwf HS E) as (Hmu & Hpr).
      split; [|split].
      + unfold measure; cbn. rewrite Hx, !app_length. lia.
      + intros [H1 H2] Hne. specialize (Hpr Hne H1 H2).
        unfold measure; cbn. rewrite Hx, !app_length.
        destruct Hpr as [Hxne | Hlt]; [|lia].
        destruct x; [contradiction|cbn; lia].
      + intros [].
    - destruct (do_in (s_rcv st) maxb scr (s_pipe st)) as [[r' o'] p'] eqn:E.
      destruct (R_in _ _ _ _ _ _ _ _ _ _ _ Hwf Hw HR E) as (x & Hp & HR').
      split; [|split].
      + unfold measure; cbn. rewrite Hp, app_length. lia.
      + intros [].
      + intros [H1 H2] Hne.
        pose proof (in_progress _ _ _ _ _ _ _ _ _ _ _ Hwf Hw HR E Hne H1 H2) as Hlt.
        unfold measure; cbn. lia.
  Qed.

  Lemma quiet_step st e : sys_inv st -> no_queue e -> quiet st -> quiet (step st e).
  Proof.
    intros (Hwf & HS & c & Hw & HR) Hq [Hr Hp].
    destruct e as [m | maxb scr | maxb scr]; cbn [sys_step]; [contradiction| |].
    - destruct (do_out (s_snd st) maxb scr) as [s' x] eqn:E.
      destruct (S_out _ _ _ _ _ _ Hwf HS E) as (HS' & Hx).
      rewrite Hr in Hx. symmetry in Hx. apply app_eq_nil in Hx. destruct Hx as [-> Hx].
      split; cbn; auto. now rewrite Hp.
    - destruct (do_in (s_rcv st) maxb scr (s_pipe st)) as [[r' o'] p'] eqn:E.
      destruct (R_in _ _ _ _ _ _ _ _ _ _ _ Hwf Hw HR E) as (x & Hpx & HR').
      rewrite Hp in Hpx. symmetry in Hpx. apply app_eq_nil in Hpx. destruct Hpx as [_ ->].
      split; cbn; auto.
  Qed.

  Lemma run_app a b st : run st (a ++ b) = run (run st a) b.
  Proof. unfold sys_run. apply fold_left_app. Qed.

  Lemma quiet_run evs : forall st,
    sys_inv st -> Forall no_queue evs -> quiet st -> quiet (run st evs).
  Proof.
    induction evs as [|e evs IH]; intros st Hi Hn Hq; [exact Hq|].
    change (run st (e :: evs)) with (run (step st e) evs).
    inversion Hn; subst. apply IH; auto.
    - apply sys_inv_step; auto. destruct e; cbn in *; tauto.
    - apply quiet_step; auto.
  Qed.

  (* a round: any list of I/O calls among which there is a productive DoOutput and a productive DoInput *)
  Definition round (evs : list (event M)) : Prop :=
    Forall no_queue evs /\ Exists productive_out evs /\ Exists productive_in evs.

  Lemma no_queue_wf e : no_queue e -> ev_wf e.
  Proof. destruct e; cbn; tauto. Qed.

  Lemma run_measure_le evs : forall st,
    sys_inv st -> Forall no_queue evs -> (measure (run st evs) <= measure st)%nat.
  Proof.
    induction evs as [|e evs IH]; intros st Hi Hn; [cbn; auto|].
    change (run st (e :: evs)) with (run (step st e) evs).
    inversion Hn; subst.
    pose proof (step_measure st e Hi H1) as [Hle _].
    specialize (IH (step st e) (sys_inv_step _ _ Hi (no_queue_wf _ H1)) H2). lia.
  Qed.

  (* over a list of I/O calls in which the measure does not drop, the lengths of rem and pipe do
     not change *)
  Lemma run_stuck evs : forall st,
    sys_inv st -> Forall no_queue evs -> measure (run st evs) = measure st ->
    (Exists productive_out evs -> rem (s_snd st) = []) /\
    (Exists productive_in evs -> s_pipe st = []).
  Proof.
    induction evs as [|e evs IH]; intros st Hi Hn Hm.
    - split; intros H; inversion H.
    - change (run st (e :: evs)) with (run (step st e) evs) in Hm.
      inversion Hn; subst.
      pose proof (sys_inv_step _ _ Hi (no_queue_wf _ H1)) as Hi'.
      pose proof (step_measure st e Hi H1) as (Hle & Hpo & Hpi).
      pose proof (run_measure_le evs _ Hi' H2) as Hle2.
      assert (Heq : measure (step st e) = measure st) by lia.
      destruct (IH _ Hi' H2 ltac:(lia)) as [IHo IHi].
      (* the step itself moved nothing: rem and pipe unchanged *)
      assert (Hsame : rem (s_snd (step st e)) = rem (s_snd st) /\ s_pipe (step st e) = s_pipe st).
      { destruct Hi as (Hwf & HS & c & Hw & HR).
        destruct e as [m | maxb scr | maxb scr]; cbn [sys_step] in *; [contradiction| |].
        - destruct (do_out (s_snd st) maxb scr) as [s' x] eqn:E.
          destruct (S_out _ _ _ _ _ _ Hwf HS E) as (HS' & Hx).
          destruct (out_progress _ _ _ _ _ _ Hwf HS E) as (Hmu & _).
          unfold measure in Heq; cbn in Heq. rewrite Hx, !app_length in Heq.
          assert (length x = 0)%nat by lia. destruct x; [|discriminate].
          cbn in *. rewrite app_nil_r. auto.
        - destruct (do_in (s_rcv st) maxb scr (s_pipe st)) as [[r' o'] p'] eqn:E.
          destruct (R_in _ _ _ _ _ _ _ _ _ _ _ Hwf Hw HR E) as (x & Hp & HR').
          unfold measure in Heq; cbn in Heq. rewrite Hp, app_length in Heq.
          assert (length x = 0)%nat by lia. destruct x; [|discriminate].
          cbn in *. auto. }
      destruct Hsame as [Hs1 Hs2].
      split; intros Hex; inversion Hex; subst.
      + destruct (rem (s_snd st)) eqn:Er; auto.
        exfalso. assert (measure (step st e) < measure st)%nat by (apply Hpo; auto; congruence). lia.
      + rewrite <- Hs1. auto.
      + destruct (s_pipe st) eqn:Ep; auto.
        exfalso. assert (measure (step st e) < measure st)%nat by (apply Hpi; auto; congruence). lia.
      + rewrite <- Hs2. auto.
  Qed.

  Lemma round_progress evs st :
    sys_inv st -> round evs -> quiet (run st evs) \/ (measure (run st evs) < measure st)%nat.
  Proof.
    intros Hi (Hn & Ho & Hin).
    pose proof (run_measure_le evs st Hi Hn) as Hle.
    destruct (Nat.eq_dec (measure (run st evs)) (measure st)) as [Heq|Hne]; [|right; lia].
    left. destruct (run_stuck evs st Hi Hn Heq) as [H1 H2].
    (* quiet at the start, and quiet is stable *)
    apply quiet_run; auto. split; auto.
  Qed.

  Lemma rounds_progress (rs : list (list (event M))) : forall st,
    sys_inv st -> Forall round rs -> (measure st <= length rs)%nat ->
    quiet (run st (concat rs)).
  Proof.
    induction rs as [|r rs IH]; intros st Hi Hr Hm; cbn [concat length] in *.
    - unfold measure in Hm. cbn. split.
      + destruct (rem (s_snd st)); auto; cbn in Hm; lia.
      + destruct (s_pipe st); auto; cbn in Hm; lia.
    - inversion Hr; subst. rewrite run_app.
      destruct H1 as (Hn & Ho & Hin).
      assert (Hi' : sys_inv (run st r)).
      { apply sys_inv_run; auto. eapply Forall_impl; [|exact Hn]. apply no_queue_wf. }
      destruct (round_progress r st Hi (conj Hn (conj Ho Hin))) as [Hq | Hlt].
      + (* already quiet: stays quiet *)
        assert (Hnq : Forall no_queue (concat rs)).
        { apply Forall_concat. eapply Forall_impl; [|exact H2]. intros a (Ha & _). exact Ha. }
        apply quiet_run; auto.
      + apply IH; auto. lia.
  Qed.

  Theorem fair_completion evs (rs : list (list (event M))) :
    Forall ev_wf evs -> Forall round rs ->
    (measure (run sys0 evs) <= length rs)%nat ->
    let st := run sys0 (evs ++ concat rs) in
    quiet st /\ flat_o (s_dlv st) ++ fin (s_rcv st) = flat_m (ev_msgs evs).
  Proof.
    intros Hf Hr Hm st.
    assert (Hi : sys_inv (run sys0 evs)) by (apply sys_inv_run; auto using sys_inv_init).
    assert (Hq : quiet st).
    { subst st. rewrite run_app. apply rounds_progress; auto. }
    split; auto.
    assert (Hnq : Forall no_queue (concat rs)).
    { apply Forall_concat. eapply Forall_impl; [|exact Hr]. intros a (Ha & _). exact Ha. }
    assert (Hf2 : Forall ev_wf (evs ++ concat rs)).
    { apply Forall_app; split; auto. eapply Forall_impl; [|exact Hnq]. apply no_queue_wf. }
    destruct Hq as [Hq1 Hq2].
    pose proof (completeness (evs ++ concat rs) Hf2 Hq1 Hq2) as Hc.
    subst st. rewrite Hc. f_equal.
    unfold ev_msgs. rewrite flat_map_app.
    assert (Hz : flat_map (fun e : event M => match e with EQueue m => [m] | _ => [] end) (concat rs) = []).
    { clear - Hnq. induction (concat rs) as [|e l IH]; cbn; auto.
      inversion Hnq; subst. destruct e; cbn in *; [contradiction| |]; auto. }
    rewrite Hz. apply app_nil_r.
  Qed.
End Generic.
