(* C12 -- executable model of muscle::PacketizedProxyDataIO (dataio/PacketizedProxyDataIO.cpp):
   packets carried over a byte stream as   uint32 size (little-endian), then the bytes.
   This is the transport test/testpackettunnel.cpp puts under the tunnel gateways for TCP, i.e. an
   implementation of "the transport delivers every packet once and in order".

   The child DataIO is a byte stream that accepts / supplies any number of bytes per call: every
   Write()/Read() of the child is given the number of bytes it is willing to take / has available
   (a script).  No proofs in this file. *)
From Coq Require Import List NArith Bool.
From Coq Require Import Strings.Byte.
From Muscle Require Import Common.LE.
Import ListNotations.
Local Open Scope N_scope.

Definition SZW : N := 4.     (* sizeof(uint32): the size word *)

Definition frame (p : list byte) : list byte := le32 (lenN p) ++ p.
Definition frames (ps : list (list byte)) : list byte := concat (map frame ps).

(* ------------------------------------------------------------------ writer *)

Record pwtr := mkPW {
  pw_buf  : list byte;     (* _outputBuffer *)
  pw_sent : N              (* _outputBufferBytesSent *)
}.

Definition pw_init : pwtr := mkPW [] 0.

Definition pw_buffered (st : pwtr) : bool := pw_sent st <? lenN (pw_buf st).     (* HasBufferedOutput() *)

(* WriteBufferedOutputAux(): one Write() on the child, which takes at most [acc] bytes.
   Returns the new state and the bytes the child took. *)
Definition pw_flush (st : pwtr) (acc : N) : pwtr * list byte :=
  if pw_sent st <? lenN (pw_buf st) then
    let rest := dropN (pw_sent st) (pw_buf st) in
    let n := N.min acc (lenN rest) in
    let sent' := pw_sent st + n in
    if sent' =? lenN (pw_buf st) then (mkPW [] 0, takeN n rest)
    else (mkPW (pw_buf st) sent', takeN n rest)
  else (st, []).

Inductive wres := WTook (n : N) | WErr.     (* the byte count Write() returns (0 = try again later), or an error *)

(* Write(buffer, size) with the child accepting a1 bytes in the first attempt and a2 in the retry *)
Definition pwrite (mtu : N) (st : pwtr) (p : list byte) (a1 a2 : N) : pwtr * list byte * wres :=
  if mtu <? lenN p then (st, [], WErr)
  else if pw_buffered st then
    let '(st1, o1) := pw_flush st a1 in
    if pw_buffered st1 then (st1, o1, WTook 0)
    else (* the recursive call: nothing is buffered any more *)
      let '(st2, o2) := pw_flush (mkPW (frame p) 0) a2 in (st2, o1 ++ o2, WTook (lenN p))
  else
    let '(st1, o1) := pw_flush (mkPW (frame p) 0) a1 in (st1, o1, WTook (lenN p)).

(* ------------------------------------------------------------------ reader *)

Record prdr := mkPR {
  pr_hdr  : list byte;     (* the _inputBufferSizeBytesRead bytes of the size word read so far *)
  pr_size : N;             (* _inputBuffer.GetNumBytes() *)
  pr_data : list byte;     (* _inputBuffer[0 .. _inputBufferBytesRead) *)
  pr_err  : bool           (* _unrecoverableError *)
}.

Definition pr_init : prdr := mkPR [] 0 [] false.

(* first half of Read(): complete the size word if possible.  The bool says "unrecoverable error". *)
Definition pread_hdr (mtu : N) (st : prdr) (stream : list byte) (a1 : N) : prdr * list byte * bool :=
  if lenN (pr_hdr st) <? SZW then
    let n := N.min a1 (SZW - lenN (pr_hdr st)) in
    let hdr := pr_hdr st ++ takeN n stream in
    let stream1 := dropN n stream in
    if lenN hdr =? SZW then
      match rd32 hdr with
      | Some (sz, _) =>
          if mtu <? sz then (mkPR hdr (pr_size st) (pr_data st) true, stream1, true)
          else if sz =? 0 then (mkPR [] 0 [] false, stream1, false)       (* special case for empty packets *)
          else (mkPR hdr sz [] false, stream1, false)
      | None => (mkPR hdr (pr_size st) (pr_data st) false, stream1, false)
      end
    else (mkPR hdr (pr_size st) (pr_data st) false, stream1, false)
  else (st, stream, false).

(* Read(buffer, usize): the child has a1 bytes available for the first child Read() and a2 for the second.
   Returns the new state, the rest of the stream and Some bytes (the packet, cut to usize; [] when Read()
   returns 0) or None for an error. *)
Definition pread (mtu : N) (st : prdr) (usize : N) (stream : list byte) (a1 a2 : N)
  : prdr * list byte * option (list byte) :=
  if pr_err st then (st, stream, None)
  else
    let '(st1, stream1, bad) := pread_hdr mtu st stream a1 in
    if bad then (st1, stream1, None)
    else if (lenN (pr_hdr st1) =? SZW) && (lenN (pr_data st1) <? pr_size st1) then
      let n := N.min a2 (pr_size st1 - lenN (pr_data st1)) in
      let data := pr_data st1 ++ takeN n stream1 in
      let stream2 := dropN n stream1 in
      if lenN data =? pr_size st1 then (mkPR [] 0 [] false, stream2, Some (takeN usize data))
      else (mkPR (pr_hdr st1) (pr_size st1) data false, stream2, Some [])
    else (st1, stream1, Some []).

(* a whole reading session: one (usize, a1, a2) per Read() call *)
Fixpoint preads (mtu : N) (st : prdr) (stream : list byte) (script : list (N * N * N))
  : prdr * list byte * list (option (list byte)) :=
  match script with
  | [] => (st, stream, [])
  | (usize, a1, a2) :: script' =>
      let '(st1, stream1, r) := pread mtu st usize stream a1 a2 in
      let '(st2, stream2, rs) := preads mtu st1 stream1 script' in (st2, stream2, r :: rs)
  end.

(* a whole writing session *)
Inductive wop := WWrite (p : list byte) (a1 a2 : N) | WFlush (acc : N).

Fixpoint pwrites (mtu : N) (st : pwtr) (ops : list wop) : pwtr * list byte * list wres :=
  match ops with
  | [] => (st, [], [])
  | WWrite p a1 a2 :: ops' =>
      let '(st1, o1, r) := pwrite mtu st p a1 a2 in
      let '(st2, o2, rs) := pwrites mtu st1 ops' in (st2, o1 ++ o2, r :: rs)
  | WFlush acc :: ops' =>
      let '(st1, o1) := pw_flush st acc in
      let '(st2, o2, rs) := pwrites mtu st1 ops' in (st2, o1 ++ o2, rs)
  end.
