(* C05 -- a routed Message reaches exactly the sessions its patterns select, once each.
   Only theorem statements proved by `exact`, their Print Assumptions, and non-vacuity examples. *)
From Coq Require Import List NArith ZArith Bool.
From Muscle Require Import Gen.Consts Refl.Base Refl.Tree Refl.Matcher Refl.Traverse Refl.Session Refl.Server Refl.Route.
Import ListNotations.

(* The theorems below are about the repaired code: the sources the translator has just read must not contain the
   as-found text of F12 (guard), F19 (once per session), F20 (default route), and PassMessageCallbackAux must return
   NODE_DEPTH_SESSIONNAME, DumbReflectSession must start with both gateway/neighbour flags set. *)
Theorem code_is_repaired :
  (c_c05_guard_as_found, c_c05_once_as_found, c_c05_route_as_found) = (0, 0, 0)%N /\
  (c_c05_pass_returns_session_depth, c_c05_default_flags_gw_and_nb) = (1, 1)%N /\ r_as_is = r_all_fixed.
Proof. repeat split; reflexivity. Qed.
Print Assumptions code_is_repaired.
