(* C05 -- a routed Message reaches exactly the sessions its patterns select, once each.
   Only theorem statements proved by `exact`, their Print Assumptions, and non-vacuity examples. *)
From Coq Require Import List NArith ZArith Bool.
From Muscle Require Import Gen.Consts Refl.Base Refl.Tree Refl.Matcher Refl.Traverse Refl.Session Refl.Server Refl.Route
  Refl.TravBase Refl.TraverseProofs Refl.TraverseTheorems Refl.TraverseExit Refl.TravWitness Refl.RouteProofs Refl.RouteRun
  Refl.RouteWitness Pat.Ere Pat.Translate Refl.ClauseKeys Refl.PatInst Refl.RoutePat
  Refl.BaseProofs Refl.ServerProofs Refl.RouteReach Refl.RouteInbox Refl.RoutePatReach.
Import ListNotations.

(* The theorems below are about the repaired code: the sources the translator has just read must not contain the
   as-found text of F12 (guard), F19 (once per session), F20 (default route), F52 (lookup keys of a comma list unescaped
   twice), F63 (empty items of a comma list not looked up), and PassMessageCallbackAux must return NODE_DEPTH_SESSIONNAME, DumbReflectSession must start with both
   gateway/neighbour flags set. *)
Theorem code_is_repaired :
  (c_c05_guard_as_found, c_c05_once_as_found, c_c05_route_as_found, c_c05_uvkeys_as_found, c_c05_uvempty_as_found) = (0, 0, 0, 0, 0)%N /\
  (c_c05_pass_returns_session_depth, c_c05_default_flags_gw_and_nb) = (1, 1)%N /\ r_as_is = r_all_fixed /\
  (forall st, clause_keys st = clause_keys_all st).
Proof. exact code_is_repaired_lemma. Qed.
Print Assumptions code_is_repaired.

(* The set of nodes a wildcard traversal (NodePathMatcher::DoTraversal with a callback that goes on, repaired guard)
   calls back on is duplicate-free and identical to the set obtained by testing every node's path below the start
   node with PathMatcher::MatchesPath -- for every tree, every set of patterns (any depths, any mixture of clauses
   taking the hash-lookup or the iteration path), every start node, with and without filters.
   Premises: the clause laws of C15 (a clause that reports lookup keys matches exactly those names; the "matches only
   its keys" half is needed only of the names [okname] that occur in the tree, e.g. non-empty strings), tree and table
   well-formedness. *)
Theorem traversal_eq_bruteforce :
  forall (M : MatchOps) (okname : name -> Prop),
    (forall (c : clause) (ks : list name) (k : name), okname k -> ckeys c = Some ks -> cmatch c k = true -> In k ks) ->
    (forall (c : clause) (ks : list name) (k : name), ckeys c = Some ks -> In k ks -> cmatch c k = true) ->
    forall (t : tree) (m : matcher) (root : path) (use_filters : bool),
      tree_wf t -> matcher_wf m -> (forall n, In n t -> Forall okname (n_path n)) ->
      NoDup (map n_path (visits t m root use_filters true)) /\
      (forall n, In n (visits t m root use_filters true) <-> selected t m root use_filters n).
Proof. exact @traversal_eq_bruteforce_lemma. Qed.
Print Assumptions traversal_eq_bruteforce.

(* every table PutPathsFromMessage builds satisfies the table premise *)
Theorem built_matchers_are_wf : forall (M : MatchOps) (l : list (pat * option qfilter)), matcher_wf (m_of_list l).
Proof. exact @m_of_list_wf. Qed.
Print Assumptions built_matchers_are_wf.

(* F12: with the guard as found in the code (it counts clause-count groups, not patterns) the statement fails *)
Theorem traversal_refuted_with_group_count_guard :
  exists (t : tree) (m : matcher) (n : node),
    tree_wf t /\ matcher_wf m /\ In n (visits t m [] true false) /\ matches_path m (n_path n) (Some (n_data n)) = false.
Proof. exact traversal_refuted_with_group_count_guard_lemma. Qed.
Print Assumptions traversal_refuted_with_group_count_guard.

(* non-vacuity: the premises of traversal_eq_bruteforce are satisfiable by a non-trivial tree, table and clause laws *)
Example premises_satisfiable :
  tree_wf f12_tree /\ matcher_wf f12_matcher /\
  (forall (c : clause) (ks : list name) (k : name), True -> ckeys c = Some ks -> cmatch c k = true -> In k ks) /\
  map n_path (visits f12_tree f12_matcher [] true true) = [[jeremy; kate]; [kevin; joe]].
Proof. exact premises_satisfiable_lemma. Qed.

(* A client-to-client Message (what code outside the PR_COMMAND range) handed to MessageReceivedFromGateway of session s
   is appended EXACTLY ONCE to the outgoing queue of every session that [route_targets] selects and to no other queue,
   and nothing else changes.  [route_targets] is the statement of the property as a function: with PR_NAME_KEYS, the
   sessions that own (second path component) at least one node whose full path matches at least one pattern and passes
   that pattern's filter (PathMatcher::MatchesPath over every node: [gets]); without keys the stored default route if the
   sender set one, else every session if the sender's gateway-to-neighbours flag is set; the sender itself only with
   reflect-to-self; [put_inbox] then applies the receiver's neighbours-to-gateway flag.
   Premises: clause laws (C15), tree well-formedness, distinct session ids, a well-formed default-route table. *)
Theorem deliver_once :
  forall (M : MatchOps) (okname : name -> Prop),
    (forall (c : clause) (ks : list name) (k : name), okname k -> ckeys c = Some ks -> cmatch c k = true -> In k ks) ->
    (forall (c : clause) (ks : list name) (k : name), ckeys c = Some ks -> In k ks -> cmatch c k = true) ->
    forall (st : rstate) (s : sid) (ss : session) (ri : rinfo) (m : umsg),
      tree_wf (sv_tree (rs_srv st)) -> (forall n, In n (sv_tree (rs_srv st)) -> Forall okname (n_path n)) ->
      NoDup (map s_id (sv_sessions (rs_srv st))) -> matcher_wf (ri_route ri) ->
      get_session (rs_srv st) s = Some ss -> get_info st s = Some ri -> in_cmd_range (u_what m) = false ->
      route_msg r_all_fixed st s m
      = mkRS (rs_srv st)
             (map (fun x => if route_targets st s ri m (ri_id x)
                            then put_inbox s (mkD s (u_tag m) (overwrite (u_session m) (s_name ss))) x else x) (rs_info st)).
Proof. exact @deliver_once_lemma. Qed.
Print Assumptions deliver_once.

(* the traversal behind it, for any table: one delivery per selected session *)
Theorem pass_traversal_delivers_once :
  forall (M : MatchOps) (okname : name -> Prop),
    (forall (c : clause) (ks : list name) (k : name), okname k -> ckeys c = Some ks -> cmatch c k = true -> In k ks) ->
    (forall (c : clause) (ks : list name) (k : name), ckeys c = Some ks -> In k ks -> cmatch c k = true) ->
    forall (st : rstate) (s : sid) (self_ok : bool) (d : dlv) (mt : matcher),
      tree_wf (sv_tree (rs_srv st)) -> (forall n, In n (sv_tree (rs_srv st)) -> Forall okname (n_path n)) -> matcher_wf mt ->
      pass_traversal r_all_fixed st s self_ok d mt
      = map (fun ri => if gets st s self_ok mt (ri_id ri) then put_inbox s d ri else ri) (rs_info st).
Proof. exact @pass_traversal_once. Qed.
Print Assumptions pass_traversal_delivers_once.

(* For every event, every state and every setting of the repairs: each outgoing queue afterwards is a queue from before
   with copies of the event's own Message appended, or a new empty one. *)
Theorem queues_only_grow :
  forall (M : MatchOps) (fx : rfixes) (st : rstate) (ev : revent) (ri' : rinfo),
    In ri' (rs_info (rstep fx st ev)) ->
    (exists ri, In ri (rs_info st) /\ grown_by (ev_dlv st ev) ri ri') \/ ri_inbox ri' = [].
Proof. exact @step_appends. Qed.
Print Assumptions queues_only_grow.

(* FIFO per pair, for every history: a queue at the end is the queue it started from (or an empty one) followed by a
   stuttering subsequence of the Messages handed in during the history, in the order they were handed in -- so the
   Messages of one sender reach any one receiver in the order sent.  (With deliver_once the subsequence does not stutter.) *)
Theorem fifo_per_pair :
  forall (M : MatchOps) (fx : rfixes) (evs : list revent) (st : rstate) (ri' : rinfo),
    In ri' (rs_info (rrun fx evs st)) ->
    exists pre l, ri_inbox ri' = pre ++ l /\
                  (pre = [] \/ exists ri, In ri (rs_info st) /\ ri_id ri = ri_id ri' /\ pre = ri_inbox ri) /\
                  stutter_sub l (log fx st evs).
Proof. exact @fifo_lemma. Qed.
Print Assumptions fifo_per_pair.

(* the sender-identity field of every Message handed to the routing code names the session it came in on: a string field
   has that session's id string as its first value, an absent field stays absent (ReplaceString(false, ...)) *)
Theorem sender_field_true :
  forall (M : MatchOps) (st : rstate) (ev : revent) (d : dlv),
    In d (ev_dlv st ev) ->
    exists s ss m, ev = RCmd s (RMsg m) /\ get_session (rs_srv st) s = Some ss /\ d_from d = s /\ d_tag d = u_tag m /\
                   d_field d = overwrite (u_session m) (s_name ss) /\
                   (forall v r, d_field d = SStr (v :: r) -> v = s_name ss) /\
                   (u_session m = SAbsent -> d_field d = SAbsent).
Proof. exact @sender_field_lemma. Qed.
Print Assumptions sender_field_true.

(* F19: in the model of the code as found one Message is queued twice for a session with two matching depth-3 nodes *)
Theorem deliver_once_refuted_as_found :
  exists evs : list revent, exists d : dlv,
    inbox_of (rrun r_as_found evs empty_rstate) 1%N = [d; d] /\ inbox_of (rrun r_all_fixed evs empty_rstate) 1%N = [d].
Proof. exact deliver_once_refuted_as_found_lemma. Qed.
Print Assumptions deliver_once_refuted_as_found.

(* F20: in the model of the code as found the default route is ignored (the keyless Message is broadcast) *)
Theorem default_route_refuted_as_found :
  exists evs : list revent, exists d : dlv,
    inbox_of (rrun r_as_found evs empty_rstate) 2%N = [d] /\ inbox_of (rrun r_all_fixed evs empty_rstate) 2%N = [] /\
    inbox_of (rrun r_all_fixed evs empty_rstate) 1%N = [d].
Proof. exact default_route_refuted_as_found_lemma. Qed.
Print Assumptions default_route_refuted_as_found.

(* non-vacuity: a state reached by client commands (three sessions, one of them storing two nodes) satisfies the premises of
   deliver_once *)
Example deliver_once_premises_satisfiable :
  tree_wf (sv_tree (rs_srv setup_state)) /\ NoDup (map s_id (sv_sessions (rs_srv setup_state))) /\
  length (sv_tree (rs_srv setup_state)) = 6 /\
  (exists ss ri, get_session (rs_srv setup_state) 0%N = Some ss /\ get_info setup_state 0%N = Some ri /\ matcher_wf (ri_route ri)).
Proof. exact setup_state_wf. Qed.

(* ---- every server tree reachable by client commands ----
   The server part of a routing state evolves by the handlers of Refl/Server.v (SETDATA, REMOVEDATA, subscriptions, BATCH,
   sessions arriving and leaving).  With build-C04's invariant (run_inv) every state reached from the empty server by ANY
   history satisfies the premises of deliver_once; what remains: the clause laws (C04's class MatchLaws), fewer than 2^31
   subscriptions in the history, and a session arrives under a fresh (host, session id) pair. *)
Theorem reachable_states_satisfy_premises :
  forall (M : MatchOps) (L : MatchLaws M) (evs : list revent),
    small (run_budget (flat_map srv_ev evs)) -> wf_run (srv_fixes r_all_fixed) empty_server (flat_map srv_ev evs) ->
    tree_wf (sv_tree (rs_srv (rrun r_all_fixed evs empty_rstate))) /\
    NoDup (map s_id (sv_sessions (rs_srv (rrun r_all_fixed evs empty_rstate)))) /\
    routes_wf (rrun r_all_fixed evs empty_rstate).
Proof. exact @reachable_premises_lemma. Qed.
Print Assumptions reachable_states_satisfy_premises.

Theorem deliver_once_reachable :
  forall (M : MatchOps) (L : MatchLaws M) (evs : list revent) (s : sid) (ss : session) (ri : rinfo) (m : umsg),
    small (run_budget (flat_map srv_ev evs)) -> wf_run (srv_fixes r_all_fixed) empty_server (flat_map srv_ev evs) ->
    let st := rrun r_all_fixed evs empty_rstate in
    get_session (rs_srv st) s = Some ss -> get_info st s = Some ri -> in_cmd_range (u_what m) = false ->
    rstep r_all_fixed st (RCmd s (RMsg m))
    = mkRS (rs_srv st)
           (map (fun x => if route_targets st s ri m (ri_id x)
                          then put_inbox s (mkD s (u_tag m) (overwrite (u_session m) (s_name ss))) x else x) (rs_info st)).
Proof. exact @deliver_once_reachable_lemma. Qed.
Print Assumptions deliver_once_reachable.

(* non-vacuity: a history of three arrivals and a SETDATA satisfies the side conditions, for an instance satisfying MatchLaws *)
Example reachable_side_conditions_satisfiable :
  small (run_budget (flat_map srv_ev setup)) /\ wf_run (srv_fixes r_all_fixed) empty_server (flat_map srv_ev setup).
Proof. exact setup_side_conditions. Qed.

(* The filter side of deliver_once, spelled out: session r is a target of a keyed Message iff it may be sent to and owns a
   node that some pattern of the table matches clause by clause and whose Message passes THAT pattern's filter; and which
   filter belongs to which key (PathMatcher::PutPathsFromMessage: value i of the filters field, else the previous one). *)
Theorem targets_filter_side :
  forall (M : MatchOps) (st : rstate) (s : sid) (self_ok : bool) (mt : matcher) (r : sid),
    matcher_wf mt ->
    (gets st s self_ok mt r = true <->
     eligible s self_ok r = true /\
     exists n e, In n (sv_tree (rs_srv st)) /\ In e (all_entries mt) /\ owned_by (sv_sessions (rs_srv st)) r n = true /\
                 pat_matches (e_pat e) (n_path n) = true /\ filter_ok (e_flt e) (Some (n_data n)) = true).
Proof. exact @gets_spec. Qed.
Print Assumptions targets_filter_side.

Theorem filters_align_with_keys :
  forall (M : MatchOps) (keys : list spath) (flts : list (option qfilter)) (cur : option qfilter),
    (length keys <= length flts ->
     paths_from_message keys flts cur = combine (map fix_path keys) (firstn (length keys) flts)) /\
    paths_from_message keys [] cur = map (fun k => (fix_path k, cur)) keys.
Proof. exact @filters_align_lemma. Qed.
Print Assumptions filters_align_with_keys.

(* The traversal seen through the public API.
   FindMatchingSessions(path, filter, results, includeSelf, no limit): exactly the sessions owning a node the pattern and
   its filter accept, each once, the caller only if asked for (the callback returns "skip to the next session"). *)
Theorem find_sessions_exact :
  forall (M : MatchOps) (okname : name -> Prop),
    (forall (c : clause) (ks : list name) (k : name), okname k -> ckeys c = Some ks -> cmatch c k = true -> In k ks) ->
    (forall (c : clause) (ks : list name) (k : name), ckeys c = Some ks -> In k ks -> cmatch c k = true) ->
    forall (st : rstate) (s : sid) (sp : spath) (f : option qfilter) (include_self : bool),
      tree_wf (sv_tree (rs_srv st)) -> (forall n, In n (sv_tree (rs_srv st)) -> Forall okname (n_path n)) ->
      fix_path sp <> [] ->
      NoDup (find_sessions r_all_fixed st s sp f include_self None) /\
      (forall r, In r (find_sessions r_all_fixed st s sp f include_self None) <->
                 (include_self = true \/ r <> s) /\
                 existsb (fun n => owned_by (sv_sessions (rs_srv st)) r n &&
                                   matches_path (m_put empty_matcher (fix_path sp) f) (n_path n) (Some (n_data n)))
                         (sv_tree (rs_srv st)) = true).
Proof. exact @find_sessions_lemma. Qed.
Print Assumptions find_sessions_exact.

(* FindMatchingNodes / FindNodesCallback with a result limit k >= 1 (the callback returns -1, "abort now", at the k-th
   node): the first k nodes of the unlimited traversal -- for any callback-independent part of the state, any setting of the
   repairs; with traversal_eq_bruteforce: k distinct accepted nodes, or all of them *)
Theorem find_nodes_limit :
  forall (M : MatchOps) (fx : rfixes) (t : tree) (m : matcher) (root : path) (uf : bool) (k : nat),
    1 <= k -> find_nodes fx t m root uf (Some k) = firstn k (visits t m root uf (rf_guard fx)).
Proof. exact @find_nodes_limit_lemma. Qed.
Print Assumptions find_nodes_limit.

(* ---- the clause laws are not only premises: the instance used by the correspondence run satisfies them ---- *)

(* The MatchOps instance [pat_ops] (Refl/PatInst.v) = C15's model of regex/StringMatcher.cpp + the lookup-key parsing of
   DoTraversalAux / DoDirectChildLookup (repaired, F52).  Its lookup keys are exactly the names its clause matches, for
   every name that is the number of a non-empty string -- by C15's laws unique_sound and uvlist_sound. *)
Theorem clause_laws_hold :
  forall (tbl : name -> list N) (untbl : list N -> name), (forall s, tbl (untbl s) = s) ->
    (forall (c : list N) (ks : list name) (k : name),
       okname tbl untbl k -> pkeys untbl true c = Some ks -> pmatch tbl c k = true -> In k ks) /\
    (forall (c : list N) (ks : list name) (k : name), pkeys untbl true c = Some ks -> In k ks -> pmatch tbl c k = true).
Proof. exact clause_laws_lemma. Qed.
Print Assumptions clause_laws_hold.

(* traversal_eq_bruteforce without clause premises, for the StringMatcher model *)
Theorem traversal_eq_bruteforce_stringmatcher :
  forall (tbl : name -> list N) (untbl : list N -> name), (forall s, tbl (untbl s) = s) ->
  forall (t : tree) (m : @matcher (pat_ops tbl untbl true)) (root : path) (use_filters : bool),
    tree_wf t -> matcher_wf m -> (forall n, In n t -> Forall (okname tbl untbl) (n_path n)) ->
    NoDup (map n_path (@visits (pat_ops tbl untbl true) t m root use_filters true)) /\
    (forall n, In n (@visits (pat_ops tbl untbl true) t m root use_filters true) <->
               @selected (pat_ops tbl untbl true) t m root use_filters n).
Proof. exact traversal_eq_bruteforce_stringmatcher_lemma. Qed.
Print Assumptions traversal_eq_bruteforce_stringmatcher.

(* deliver_once without clause premises, for the StringMatcher model *)
Theorem deliver_once_stringmatcher :
  forall (tbl : name -> list N) (untbl : list N -> name), (forall s, tbl (untbl s) = s) ->
  forall (st : @rstate (pat_ops tbl untbl true)) (s : sid) (ss : @session (pat_ops tbl untbl true))
         (ri : @rinfo (pat_ops tbl untbl true)) (m : @umsg (pat_ops tbl untbl true)),
    tree_wf (sv_tree (rs_srv st)) -> (forall n, In n (sv_tree (rs_srv st)) -> Forall (okname tbl untbl) (n_path n)) ->
    NoDup (map s_id (sv_sessions (rs_srv st))) -> matcher_wf (ri_route ri) ->
    get_session (rs_srv st) s = Some ss -> get_info st s = Some ri -> in_cmd_range (u_what m) = false ->
    route_msg r_all_fixed st s m
    = mkRS (rs_srv st)
           (map (fun x => if route_targets st s ri m (ri_id x)
                          then put_inbox s (mkD s (u_tag m) (overwrite (u_session m) (s_name ss))) x else x) (rs_info st)).
Proof. exact deliver_once_stringmatcher_lemma. Qed.
Print Assumptions deliver_once_stringmatcher.

(* F52: with the key parsing as found a list-of-unique-values clause reports a lookup key it does not match
   (the clause a\\b,c looks up ab), so the clause law fails; the repaired parsing reports a\b and c *)
Theorem uvkeys_refuted_as_found :
  exists (p k : list N),
    is_uvlist (sm_of ere_engine p) = true /\
    (exists ks, clause_keys_with false (sm_of ere_engine p) = Some ks /\ In k ks) /\
    matches (sm_of ere_engine p) k = false /\
    clause_keys_with true (sm_of ere_engine p) = Some [[97; 92; 98]; [99]]%N.
Proof. exact uvkeys_refuted_as_found_lemma. Qed.
Print Assumptions uvkeys_refuted_as_found.

(* ---- whole histories, and the StringMatcher model without any clause premise ---- *)

(* the routing record of an attached session always exists (ids of records = ids of sessions, in every reachable state), so
   deliver_once_reachable needs no hypothesis about it *)
Theorem deliver_once_reachable_full :
  forall (M : MatchOps) (L : MatchLaws M) (evs : list revent) (s : sid) (ss : session) (m : umsg),
    small (run_budget (flat_map srv_ev evs)) -> wf_run (srv_fixes r_all_fixed) empty_server (flat_map srv_ev evs) ->
    let st := rrun r_all_fixed evs empty_rstate in
    get_session (rs_srv st) s = Some ss -> in_cmd_range (u_what m) = false ->
    exists ri, get_info st s = Some ri /\
      rstep r_all_fixed st (RCmd s (RMsg m))
      = mkRS (rs_srv st)
             (map (fun x => if route_targets st s ri m (ri_id x)
                            then put_inbox s (mkD s (u_tag m) (overwrite (u_session m) (s_name ss))) x else x) (rs_info st)).
Proof. exact @deliver_once_reachable_full_lemma. Qed.
Print Assumptions deliver_once_reachable_full.

(* The WHOLE outgoing queue of a session at the end of ANY history from the empty server equals [expected_inbox]: the
   concatenation, in the order sent, of exactly the Messages addressed to it ([route_targets], and its own
   neighbours-to-gateway flag) since it arrived -- exactly once each, nothing else, in order. *)
Theorem inbox_closed_form :
  forall (M : MatchOps) (L : MatchLaws M) (evs : list revent) (r : sid) (x' : rinfo),
    small (run_budget (flat_map srv_ev evs)) -> wf_run (srv_fixes r_all_fixed) empty_server (flat_map srv_ev evs) ->
    get_info (rrun r_all_fixed evs empty_rstate) r = Some x' -> ri_inbox x' = expected_inbox empty_rstate evs r [].
Proof. exact @inbox_closed_form_lemma. Qed.
Print Assumptions inbox_closed_form.

Example inbox_closed_form_example :
  expected_inbox empty_rstate f19_history 1%N [] = [mkD 0%N 7%N SAbsent] /\
  expected_inbox empty_rstate f19_history 2%N [] = [] /\
  small (run_budget (flat_map srv_ev f19_history)).
Proof. exact f19_expected_inbox. Qed.

(* With both repairs of DoTraversalAux's key parsing (F52, F63) every item of a list pattern is a lookup key, and the clause
   law holds of every canonical name, the empty one included (C15: unique_sound, uvlist_exact). *)
Theorem clause_laws_hold_all_items :
  forall (tbl : name -> list N) (untbl : list N -> name), (forall s, tbl (untbl s) = s) ->
    (forall (c : list N) (ks : list name) (k : name),
       canon tbl untbl k -> pkeys_all untbl c = Some ks -> pmatch tbl c k = true -> In k ks) /\
    (forall (c : list N) (ks : list name) (k : name), pkeys_all untbl c = Some ks -> In k ks -> pmatch tbl c k = true).
Proof. exact clause_laws_all_lemma. Qed.
Print Assumptions clause_laws_hold_all_items.

(* The instance pat_ops_n (the one the extracted model runs with once both repairs are in the sources) satisfies build-C04's
   class MatchLaws outright, and on every canonical name it IS the StringMatcher model. *)
Theorem stringmatcher_instance_matchlaws :
  forall (tbl : name -> list N) (untbl : list N -> name), MatchLaws (pat_ops_n tbl untbl).
Proof. exact PatLaws. Qed.
Print Assumptions stringmatcher_instance_matchlaws.

Theorem stringmatcher_instance_is_the_model :
  forall (tbl : name -> list N) (untbl : list N -> name), (forall s, tbl (untbl s) = s) ->
  forall (c : list N) (k : name), canon tbl untbl k -> pmatch_n tbl untbl c k = pmatch tbl c k.
Proof. exact pmatch_n_agrees. Qed.
Print Assumptions stringmatcher_instance_is_the_model.

(* ... hence, for the StringMatcher model, with NO clause premise: every reachable state satisfies the invariants,
   deliver_once holds in it, and whole queues have the closed form *)
Theorem reachable_states_satisfy_premises_stringmatcher :
  forall (tbl : name -> list N) (untbl : list N -> name) (evs : list (@revent (pat_ops_n tbl untbl))),
    small (run_budget (flat_map srv_ev evs)) ->
    @wf_run (pat_ops_n tbl untbl) (srv_fixes r_all_fixed) empty_server (flat_map srv_ev evs) ->
    tree_wf (sv_tree (rs_srv (rrun r_all_fixed evs empty_rstate))) /\
    NoDup (map s_id (sv_sessions (rs_srv (rrun r_all_fixed evs empty_rstate)))) /\
    routes_wf (rrun r_all_fixed evs empty_rstate) /\ aligned (rrun r_all_fixed evs empty_rstate).
Proof. exact reachable_premises_stringmatcher_lemma. Qed.
Print Assumptions reachable_states_satisfy_premises_stringmatcher.

Theorem deliver_once_reachable_stringmatcher :
  forall (tbl : name -> list N) (untbl : list N -> name)
         (evs : list (@revent (pat_ops_n tbl untbl))) (s : sid) (ss : @session (pat_ops_n tbl untbl)) (m : @umsg (pat_ops_n tbl untbl)),
    small (run_budget (flat_map srv_ev evs)) ->
    @wf_run (pat_ops_n tbl untbl) (srv_fixes r_all_fixed) empty_server (flat_map srv_ev evs) ->
    let st := rrun r_all_fixed evs empty_rstate in
    get_session (rs_srv st) s = Some ss -> in_cmd_range (u_what m) = false ->
    exists ri, get_info st s = Some ri /\
      rstep r_all_fixed st (RCmd s (RMsg m))
      = mkRS (rs_srv st)
             (map (fun x => if route_targets st s ri m (ri_id x)
                            then put_inbox s (mkD s (u_tag m) (overwrite (u_session m) (s_name ss))) x else x) (rs_info st)).
Proof. exact deliver_once_reachable_stringmatcher_lemma. Qed.
Print Assumptions deliver_once_reachable_stringmatcher.

Theorem inbox_closed_form_stringmatcher :
  forall (tbl : name -> list N) (untbl : list N -> name)
         (evs : list (@revent (pat_ops_n tbl untbl))) (r : sid) (x' : @rinfo (pat_ops_n tbl untbl)),
    small (run_budget (flat_map srv_ev evs)) ->
    @wf_run (pat_ops_n tbl untbl) (srv_fixes r_all_fixed) empty_server (flat_map srv_ev evs) ->
    get_info (rrun r_all_fixed evs empty_rstate) r = Some x' -> ri_inbox x' = expected_inbox empty_rstate evs r [].
Proof. exact inbox_closed_form_stringmatcher_lemma. Qed.
Print Assumptions inbox_closed_form_stringmatcher.
